(* Structural theorems about the design-matrix model, continued (C04, matrix-valued part; C14 link):
   M.  a numeric component whose value is a matrix ([PMatrix rows]: the results of bs(...) and
       poly(...)): what [set_data_comp] returns, and exactly when labels and columns agree in number;
   O.  offsets: one column, labelled by the name, holding the offset values;
   A''. terms made of coded (numeric series, Treatment, Sum), matrix-valued and offset components:
       labelled rows multiply, and every entry is the product of what the pieces of its label denote;
   L.  link with the transforms: a component typed from a call whose value is a matrix is regular;
       poly(...) always gives a [matrix_comp] (as many columns as its degree), bs(...) gives one iff
       its number of columns df is at least 1 (always, when degree >= 1 or intercept=True). *)
From Verif Require Import Base Tokens Lazy Algebra Coding Contrasts Frame Eval Design.
From Verif Require Import DesignStructure DesignCoding DesignSum.
From Verif Require Import FrameStructure Prediction Containers TransformsSpline TransformsPoly.
From Verif Require Spline Poly.
From Coq Require Import Lia ZArith.
Local Close Scope Qc_scope.
Local Close Scope Q_scope.
Local Open Scope string_scope.
Local Open Scope list_scope.
Local Open Scope nat_scope.

(* ------------------------------------------------------------------------------------------ *)
(** * Small list lemmas *)

Lemma combine_map_same {A B C} (f : A -> B) (g : A -> C) l :
  combine (map f l) (map g l) = map (fun a => (f a, g a)) l.
Proof. induction l as [|a l IH]; simpl; [reflexivity|]. f_equal. exact IH. Qed.

(* pairing labels made from the positions with the entries of a row *)
Lemma combine_seq_nth {S T} (f : nat -> S) (r : list T) d :
  combine (map f (seq 0 (List.length r))) r = map (fun j => (f j, nth j r d)) (seq 0 (List.length r)).
Proof.
  transitivity (combine (map f (seq 0 (List.length r))) (map (fun j => nth j r d) (seq 0 (List.length r)))).
  - f_equal. symmetry. apply map_nth_seq.
  - apply combine_map_same.
Qed.

(* rows that all have the width w are regular, of width w when there is a row *)
Lemma rows_all_width_regular (w : nat) (rows : list (list cell)) :
  Forall (fun r => List.length r = w) rows -> regular rows /\ (rows <> [] -> width rows = w).
Proof.
  intros H. destruct rows as [|r0 rs]; [split; [constructor|congruence]|].
  pose proof (Forall_inv H) as H0. cbn [width]. split; [|intros _; exact H0].
  unfold regular. cbn [width]. rewrite H0. exact H.
Qed.

(* ------------------------------------------------------------------------------------------ *)
(** * M. Matrix-valued numeric components *)

(* the labels of a numeric component of name [name] whose matrix has width w: [name[0]], ...,
   [name[w-1]] when w > 1, the bare name when w = 1 -- and when w = 0 *)
Definition matrix_labels (name : string) (w : nat) : list string :=
  if 1 <? w then map (fun i => (name ++ "[" ++ nshow i ++ "]")%string) (seq 0 w) else [name].

Lemma matrix_labels_length name w : List.length (matrix_labels name w) = Nat.max 1 w.
Proof.
  unfold matrix_labels. destruct (Nat.ltb_spec 1 w).
  - rewrite map_length, seq_length. lia.
  - simpl List.length. lia.
Qed.

Example matrix_labels_0_1_3 :
  matrix_labels "m" 0 = ["m"] /\ matrix_labels "m" 1 = ["m"] /\
  matrix_labels "m" 3 = ["m[0]"; "m[1]"; "m[2]"].
Proof. repeat split. Qed.

(** What [set_data_comp] returns for a matrix-valued numeric component, whatever the matrix (no
    regularity is needed): the rows unchanged, no levels, no contrast, and the labels read off the
    width of the FIRST row. *)
Theorem set_data_comp_matrix t spans nrows rows :
  tc_kind t = KNumeric -> tc_value t = PMatrix rows ->
  set_data_comp t spans nrows
  = Ok (DC t [] None rows (Some (matrix_labels (tc_name t) (width rows))) spans).
Proof. unfold set_data_comp. intros -> ->. reflexivity. Qed.

(** Labels and columns agree in number exactly when the matrix is regular and is not a matrix of
    zero-width rows: a zero-width matrix still gets the one label [name]. *)
Theorem set_data_comp_matrix_wf_iff t spans nrows rows dc :
  tc_kind t = KNumeric -> tc_value t = PMatrix rows -> set_data_comp t spans nrows = Ok dc ->
  (dcomp_wf dc <-> regular rows /\ (rows = [] \/ 1 <= width rows)).
Proof.
  intros Hk Hv H. rewrite (set_data_comp_matrix t spans nrows rows Hk Hv) in H. injection H as <-.
  unfold dcomp_wf. cbn [dc_labels dc_rows]. split.
  - intros (labs & Hl & Hr). injection Hl as <-. rewrite matrix_labels_length in Hr.
    destruct rows as [|r0 rs]; [split; [constructor|left; reflexivity]|].
    pose proof (Forall_inv Hr) as H0. cbn [width] in *.
    assert (Hw : 1 <= List.length r0) by lia.
    split; [|right; exact Hw]. unfold regular. cbn [width].
    eapply Forall_impl; [|exact Hr]. cbn beta. intros r E. lia.
  - intros [Hreg Hw]. eexists. split; [reflexivity|]. rewrite matrix_labels_length.
    destruct Hw as [->|Hw]; [constructor|].
    eapply Forall_impl; [|exact Hreg]. cbn beta. intros r E. lia.
Qed.

(* a matrix-valued numeric component whose labels and columns agree *)
Definition matrix_comp (t : tcomp) : Prop :=
  tc_kind t = KNumeric /\
  exists rows, tc_value t = PMatrix rows /\ regular rows /\ (rows = [] \/ 1 <= width rows).

Corollary matrix_comp_wf t spans nrows dc :
  matrix_comp t -> set_data_comp t spans nrows = Ok dc -> dcomp_wf dc.
Proof.
  intros (Hk & rows & Hv & Hreg & Hw) H.
  apply (set_data_comp_matrix_wf_iff t spans nrows rows dc Hk Hv H). split; assumption.
Qed.

(** Neither condition can be dropped.  An irregular matrix: two labels, a row with one entry. *)
Definition dm_q (z : Z) : cell := Some (qz z).
Definition dm_tc_irregular : tcomp :=
  TC "m" (CCall (LzVar "m")) KNumeric (PMatrix [[dm_q 1; dm_q 2]; [dm_q 3]]) [] false None.
Example matrix_irregular_refuted :
  exists dc, set_data_comp dm_tc_irregular false 2 = Ok dc /\
             dc_labels dc = Some ["m[0]"; "m[1]"] /\ dc_rows dc = [[dm_q 1; dm_q 2]; [dm_q 3]] /\
             ~ dcomp_wf dc.
Proof.
  eexists. split; [reflexivity|]. cbn [dc_labels dc_rows]. split; [reflexivity|].
  split; [reflexivity|]. intros (labs & Hl & Hr). injection Hl as <-.
  inversion Hr as [|? ? _ Hr']; subst. inversion Hr' as [|? ? Hlen _]; subst. discriminate Hlen.
Qed.

(* a matrix of rows without any column: the label [m] labels nothing *)
Definition dm_tc_zero : tcomp :=
  TC "m" (CCall (LzVar "m")) KNumeric (PMatrix [[]; []]) [] false None.
Example matrix_zero_width_refuted :
  exists dc, set_data_comp dm_tc_zero false 2 = Ok dc /\
             dc_labels dc = Some ["m"] /\ dc_rows dc = [[]; []] /\ ~ dcomp_wf dc.
Proof.
  eexists. split; [reflexivity|]. cbn [dc_labels dc_rows]. split; [reflexivity|].
  split; [reflexivity|]. intros (labs & Hl & Hr). injection Hl as <-.
  inversion Hr as [|? ? Hlen _]; subst. discriminate Hlen.
Qed.

(* ------------------------------------------------------------------------------------------ *)
(** * O. Offsets *)

(* offset(x) among the predictors: a per-row offset or a constant one *)
Definition offset_comp (t : tcomp) : Prop :=
  tc_kind t = KOffset /\ tc_response t = false /\ exists o xs, tc_value t = POffset o xs.

(* the offset values, one per row; a constant offset is repeated over the nrows rows of the frame *)
Definition offset_values (nrows : nat) (o : option Qc) (xs : list cell) : list cell :=
  match o with None => xs | Some q => repeat (Some q) nrows end.

(** One column, labelled by the name of the call, holding the offset values. *)
Theorem set_data_comp_offset t spans nrows o xs :
  tc_kind t = KOffset -> tc_response t = false -> tc_value t = POffset o xs ->
  set_data_comp t spans nrows
  = Ok (DC t [] None (map (fun x => [x]) (offset_values nrows o xs)) (Some [tc_name t]) spans).
Proof.
  unfold set_data_comp, offset_values. intros -> -> ->. destruct o as [q|]; [|reflexivity].
  f_equal. f_equal. induction nrows as [|n IH]; simpl; [reflexivity|]. f_equal. exact IH.
Qed.

Corollary offset_comp_wf t spans nrows dc :
  offset_comp t -> set_data_comp t spans nrows = Ok dc -> dcomp_wf dc.
Proof.
  intros (Hk & Hr & o & xs & Hv) H.
  rewrite (set_data_comp_offset t spans nrows o xs Hk Hr Hv) in H. injection H as <-.
  eexists. split; [reflexivity|]. cbn [dc_rows]. apply Forall_map. apply Forall_forall. reflexivity.
Qed.

(* ------------------------------------------------------------------------------------------ *)
(** * A''. Terms made of coded, matrix-valued and offset components *)

Definition coded_comp' (t : tcomp) : Prop := coded_comp t \/ matrix_comp t \/ offset_comp t.

Theorem coded_comp'_wf t spans nrows dc :
  coded_comp' t -> set_data_comp t spans nrows = Ok dc -> dcomp_wf dc.
Proof.
  intros [Hc|[Hm|Ho]] H.
  - eapply coded_comp_wf; eassumption.
  - eapply matrix_comp_wf; eassumption.
  - eapply offset_comp_wf; eassumption.
Qed.

(** The labelled row of the term is the labelled product, left factor slowest, of the labelled rows
    of the components. *)
Theorem set_data_term_coded'_lrow nrows name cs s dt :
  Forall coded_comp' cs ->
  set_data_term nrows (TTTerm name cs) s = Ok dt ->
  exists d0 rest labs,
    dt_comps dt = d0 :: rest /\ dt_labels dt = Some labs /\
    forall i, Forall (fun d => i < List.length (dc_rows d)) (dt_comps dt) ->
      combine labs (nth i (dt_rows dt) [])
      = fold_left (lprod ":") (map (comp_lrow i) rest) (comp_lrow i d0)
      /\ List.length labs = List.length (nth i (dt_rows dt) []).
Proof.
  intros Hcoded H. apply (set_data_term_lrow nrows name cs s dt H).
  pose proof (set_data_term_comps _ _ _ _ _ H) as Hds. apply mapM_ok in Hds.
  clear H. induction Hds as [|c d cs ds Hcd _ IH]; constructor.
  - inversion Hcoded; subst. eapply coded_comp'_wf; eauto.
  - inversion Hcoded; subst. apply IH; assumption.
Qed.

(** ** Closed form *)

(* one column of a component: a column of DesignSum.v, or column i of a matrix-valued component *)
Inductive piece' :=
| Old (p : piece)
| PcColumn (i : nat).              (* [name[i]]: column i of a matrix of width > 1 *)

(* the value of a component on one data row: a value of DesignSum.v, or a row of a matrix *)
Inductive datum' := DOld (v : datum) | DRow (r : list cell).

(** What a label piece denotes on a data row: as in DesignSum.v; column i of a matrix denotes
    entry i of the row; the unindexed label of a one-column matrix denotes the only entry. *)
Definition denote_piece' (p : piece') (v : datum') : cell :=
  match v with
  | DOld v => match p with Old p => denote_piece p v | PcColumn _ => None end
  | DRow r =>
      match p with
      | PcColumn i => nth i r None
      | Old PcNumeric => match r with [c] => c | _ => None end
      | Old _ => None
      end
  end.

Definition piece_label' (name : string) (p : piece') : string :=
  match p with
  | Old p => piece_label name p
  | PcColumn i => (name ++ "[" ++ nshow i ++ "]")%string
  end.

(* the columns of a component *)
Definition comp_pieces' (t : tcomp) (spans : bool) : list piece' :=
  match tc_kind t, tc_value t with
  | KNumeric, PMatrix rows =>
      if 1 <? width rows then map PcColumn (seq 0 (width rows)) else [Old PcNumeric]
  | KOffset, _ => [Old PcNumeric]
  | _, _ => map Old (comp_pieces t spans)
  end.

(* the value of a component on row i *)
Definition comp_datum' (t : tcomp) (i : nat) : datum' :=
  match tc_kind t, tc_value t with
  | KNumeric, PMatrix rows => DRow (nth i rows [])
  | KOffset, POffset None xs => DOld (DNum (nth i xs None))
  | KOffset, POffset (Some q) _ => DOld (DNum (Some q))
  | _, _ => DOld (comp_datum t i)
  end.

(* the number of data rows of a component (a constant offset has the nrows rows of the frame) *)
Definition comp_nrows' (nrows : nat) (t : tcomp) : nat :=
  match tc_kind t, tc_value t with
  | KNumeric, PMatrix rows => List.length rows
  | KOffset, POffset None xs => List.length xs
  | KOffset, POffset (Some _) _ => nrows
  | _, _ => comp_nrows t
  end.

Definition lpiece' (t : tcomp) (i : nat) (p : piece') : string * cell :=
  (piece_label' (tc_name t) p, denote_piece' p (comp_datum' t i)).

(* on the components of DesignSum.v nothing changes *)
Lemma coded_comp_pieces' t :
  coded_comp t ->
  (forall spans, comp_pieces' t spans = map Old (comp_pieces t spans)) /\
  (forall i, comp_datum' t i = DOld (comp_datum t i)) /\
  (forall nrows, comp_nrows' nrows t = comp_nrows t).
Proof.
  intros [(Hk & isint & xs & Hv)|(Hk & _)];
    unfold comp_pieces', comp_datum', comp_nrows'; rewrite Hk, ?Hv; repeat split.
Qed.

Lemma lpiece'_old t i p : coded_comp t -> lpiece' t i (Old p) = lpiece t i p.
Proof.
  intros Hc. destruct (coded_comp_pieces' t Hc) as (_ & Hd & _).
  unfold lpiece', lpiece. rewrite Hd. reflexivity.
Qed.

(** Every component has one matrix row per data row. *)
Lemma coded_comp'_nrows t spans nrows dc :
  coded_comp' t -> set_data_comp t spans nrows = Ok dc ->
  List.length (dc_rows dc) = comp_nrows' nrows t.
Proof.
  intros [Hc|[(Hk & rows & Hv & _)|(Hk & Hr & o & xs & Hv)]] H.
  - destruct (coded_comp_pieces' t Hc) as (_ & _ & Hn). rewrite Hn.
    eapply coded_comp_nrows; eassumption.
  - rewrite (set_data_comp_matrix t spans nrows rows Hk Hv) in H. injection H as <-.
    unfold comp_nrows'. rewrite Hk, Hv. reflexivity.
  - rewrite (set_data_comp_offset t spans nrows o xs Hk Hr Hv) in H. injection H as <-.
    unfold comp_nrows', offset_values. rewrite Hk, Hv. cbn [dc_rows]. rewrite map_length.
    destruct o; [apply repeat_length|reflexivity].
Qed.

(** The labelled row of a matrix-valued component: under [name[j]] entry j of the row (under the
    bare name the only entry, for a one-column matrix). *)
Theorem matrix_comp_lrow t spans nrows dc i :
  matrix_comp t -> set_data_comp t spans nrows = Ok dc -> i < comp_nrows' nrows t ->
  comp_lrow i dc = map (lpiece' t i) (comp_pieces' t spans).
Proof.
  intros (Hk & rows & Hv & Hreg & Hw) H Hi.
  rewrite (set_data_comp_matrix t spans nrows rows Hk Hv) in H. injection H as <-.
  unfold comp_nrows' in Hi. rewrite Hk, Hv in Hi.
  unfold comp_lrow, dc_labs, comp_pieces', lpiece', comp_datum'. cbn [dc_labels dc_rows].
  rewrite Hk, Hv.
  assert (Hrow : List.length (nth i rows []) = width rows).
  { unfold regular in Hreg. rewrite Forall_forall in Hreg. apply Hreg, nth_In, Hi. }
  unfold matrix_labels. destruct (1 <? width rows) eqn:E.
  - rewrite <- Hrow. rewrite (combine_seq_nth _ (nth i rows []) None), map_map. reflexivity.
  - apply Nat.ltb_ge in E. destruct Hw as [->|Hw]; [simpl in Hi; lia|].
    destruct (nth i rows []) as [|c [|c' r]]; simpl in Hrow; try lia. reflexivity.
Qed.

(** The labelled row of an offset: under the name, the offset value of the row. *)
Theorem offset_comp_lrow t spans nrows dc i :
  offset_comp t -> set_data_comp t spans nrows = Ok dc -> i < comp_nrows' nrows t ->
  comp_lrow i dc = map (lpiece' t i) (comp_pieces' t spans).
Proof.
  intros (Hk & Hr & o & xs & Hv) H Hi.
  rewrite (set_data_comp_offset t spans nrows o xs Hk Hr Hv) in H. injection H as <-.
  unfold comp_nrows' in Hi. rewrite Hk, Hv in Hi.
  unfold comp_lrow, dc_labs, comp_pieces', lpiece', comp_datum', offset_values.
  cbn [dc_labels dc_rows]. rewrite Hk, Hv.
  set (F := fun x : cell => [x]).
  destruct o as [q|].
  - rewrite (nth_indep _ [] (F None)) by (rewrite map_length, repeat_length; assumption).
    rewrite map_nth. rewrite (nth_indep _ None (Some q)) by (rewrite repeat_length; assumption).
    rewrite nth_repeat. reflexivity.
  - rewrite (nth_indep _ [] (F None)) by (rewrite map_length; assumption).
    rewrite map_nth. reflexivity.
Qed.

(** The labelled row of any of the components, piece by piece. *)
Theorem coded_comp'_lrow t spans nrows dc i :
  coded_comp' t -> set_data_comp t spans nrows = Ok dc -> i < comp_nrows' nrows t ->
  comp_lrow i dc = map (lpiece' t i) (comp_pieces' t spans).
Proof.
  intros [Hc|[Hm|Ho]] H Hi.
  - destruct (coded_comp_pieces' t Hc) as (Hp & _ & Hn). rewrite Hn in Hi. rewrite Hp, map_map.
    rewrite (coded_comp_lrow t spans nrows dc i Hc H Hi). apply map_ext. intros p.
    symmetry. apply lpiece'_old. exact Hc.
  - eapply matrix_comp_lrow; eassumption.
  - eapply offset_comp_lrow; eassumption.
Qed.

(** The labelled row of a term is the labelled product of the components' piecewise descriptions:
    nothing of the model is left on the right-hand side but the types and the data of the
    components. *)
Theorem set_data_term_coded'_denote nrows name c0 crest s dt i :
  Forall coded_comp' (c0 :: crest) ->
  set_data_term nrows (TTTerm name (c0 :: crest)) s = Ok dt ->
  Forall (fun c => i < comp_nrows' nrows c) (c0 :: crest) ->
  let sp c := spans_for s (tc_name c) in
  exists labs,
    dt_labels dt = Some labs /\
    combine labs (nth i (dt_rows dt) [])
    = fold_left (lprod ":") (map (fun c => map (lpiece' c i) (comp_pieces' c (sp c))) crest)
                (map (lpiece' c0 i) (comp_pieces' c0 (sp c0))) /\
    List.length labs = List.length (nth i (dt_rows dt) []).
Proof.
  intros Hcoded H Hi sp.
  destruct (set_data_term_coded'_lrow nrows name (c0 :: crest) s dt Hcoded H)
    as (d0 & rest & labs & Hcomps & Hlabs & Hrow).
  pose proof (set_data_term_comps _ _ _ _ _ H) as Hds. apply mapM_ok in Hds. rewrite Hcomps in Hds.
  exists labs. split; [assumption|].
  assert (Hall : Forall2 (fun c d => i < List.length (dc_rows d) /\
                                     comp_lrow i d = map (lpiece' c i) (comp_pieces' c (sp c)))
                         (c0 :: crest) (d0 :: rest)).
  { clear - Hcoded Hi Hds. induction Hds as [|c d cs ds Hcd _ IH]; constructor.
    - inversion Hcoded; inversion Hi; subst. split.
      + erewrite coded_comp'_nrows; eauto.
      + eapply coded_comp'_lrow; eauto.
    - inversion Hcoded; inversion Hi; subst. apply IH; assumption. }
  assert (Hrows_i : Forall (fun d => i < List.length (dc_rows d)) (dt_comps dt)).
  { rewrite Hcomps. clear - Hall. induction Hall as [|c d cs ds [Hd _] _ IH]; constructor; assumption. }
  destruct (Hrow i Hrows_i) as [Hc Hl]. split; [|assumption]. rewrite Hc.
  inversion Hall as [|? ? ? ? [_ H0] Hrest]; subst. rewrite H0. f_equal.
  clear - Hrest. induction Hrest as [|c d cs ds [_ Hd] _ IH]; simpl; [reflexivity|].
  rewrite Hd, IH. reflexivity.
Qed.

(** Closed form, entry by entry: pick one piece in every component; at the mixed-radix column
    index of the picks (left factor slowest), the label of the term is the picks' labels joined
    by ":" and the entry on row i is the product of what the picked pieces denote on row i. *)
Theorem set_data_term_coded'_entry nrows name c0 crest s dt i j0 js p0 ps :
  Forall coded_comp' (c0 :: crest) ->
  set_data_term nrows (TTTerm name (c0 :: crest)) s = Ok dt ->
  Forall (fun c => i < comp_nrows' nrows c) (c0 :: crest) ->
  let sp c := spans_for s (tc_name c) in
  nth_error (comp_pieces' c0 (sp c0)) j0 = Some p0 ->
  Forall2 (fun jc p => nth_error (comp_pieces' (snd jc) (sp (snd jc))) (fst jc) = Some p)
          (combine js crest) ps ->
  List.length js = List.length crest ->
  let j := mixed_index j0 js (map (fun c => List.length (comp_pieces' c (sp c))) crest) in
  exists labs,
    dt_labels dt = Some labs /\
    nth_error labs j
    = Some (fold_left (fun a b => (a ++ ":" ++ b)%string)
                      (map (fun cp => piece_label' (tc_name (fst cp)) (snd cp)) (combine crest ps))
                      (piece_label' (tc_name c0) p0)) /\
    nth_error (nth i (dt_rows dt) []) j
    = Some (fold_left cmul
                      (map (fun cp => denote_piece' (snd cp) (comp_datum' (fst cp) i)) (combine crest ps))
                      (denote_piece' p0 (comp_datum' c0 i))).
Proof.
  intros Hcoded H Hi sp H0 Hps Hlen j.
  destruct (set_data_term_coded'_denote nrows name c0 crest s dt i Hcoded H Hi) as (labs & Hlabs & Hc & _).
  fold sp in Hc. exists labs. split; [assumption|].
  set (cols := map (fun c => map (lpiece' c i) (comp_pieces' c (sp c))) crest) in *.
  assert (E : nth_error (combine labs (nth i (dt_rows dt) [])) j
              = Some (fold_left (lmul ":") (map (fun cp => lpiece' (fst cp) i (snd cp)) (combine crest ps))
                                (lpiece' c0 i p0))).
  { rewrite Hc. unfold j.
    replace (map (fun c => List.length (comp_pieces' c (sp c))) crest) with (map (@List.length _) cols)
      by (unfold cols; rewrite map_map; apply map_ext; intros; apply map_length).
    apply lprod_fold_nth_error.
    - apply map_nth_error. assumption.
    - unfold cols. clear - Hps Hlen. revert js ps Hps Hlen.
      induction crest as [|c crest IH]; intros js ps Hps Hlen.
      + destruct js; [|discriminate]. inversion Hps; subst. constructor.
      + destruct js as [|j1 js]; [discriminate|]. simpl in Hps.
        inversion Hps as [|? p ? ps' Hj Hr]; subst. simpl. constructor.
        * simpl. apply map_nth_error. exact Hj.
        * apply IH; [assumption|simpl in Hlen; lia].
    - unfold cols. rewrite map_length. assumption. }
  rewrite fold_lmul_split in E. apply DesignSum.nth_error_combine in E as [E1 E2].
  rewrite !map_map in E1, E2. cbn [lpiece' fst snd] in E1, E2. split; assumption.
Qed.

(** ... and every column of the term arises from exactly such a choice of pieces. *)
Theorem set_data_term_coded'_entry_onto nrows name c0 crest s dt i j :
  Forall coded_comp' (c0 :: crest) ->
  set_data_term nrows (TTTerm name (c0 :: crest)) s = Ok dt ->
  Forall (fun c => i < comp_nrows' nrows c) (c0 :: crest) ->
  let sp c := spans_for s (tc_name c) in
  j < List.length (nth i (dt_rows dt) []) ->
  exists j0 js,
    j0 < List.length (comp_pieces' c0 (sp c0)) /\
    Forall2 (fun j c => j < List.length (comp_pieces' c (sp c))) js crest /\
    j = mixed_index j0 js (map (fun c => List.length (comp_pieces' c (sp c))) crest).
Proof.
  intros Hcoded H Hi sp Hj.
  destruct (set_data_term_coded'_denote nrows name c0 crest s dt i Hcoded H Hi) as (labs & Hlabs & Hc & Hl).
  fold sp in Hc.
  set (cols := map (fun c => map (lpiece' c i) (comp_pieces' c (sp c))) crest) in *.
  assert (Hj' : j < List.length (fold_left (lprod ":") cols (map (lpiece' c0 i) (comp_pieces' c0 (sp c0))))).
  { unfold cols, sp. rewrite <- Hc, combine_length, Hl. lia. }
  destruct (lprod_fold_index_onto ":" cols _ j Hj') as (j0 & js & H0 & Hjs & E).
  exists j0, js. rewrite map_length in H0. split; [assumption|]. split.
  - unfold cols in Hjs. clear - Hjs. remember (map _ crest) as l eqn:El. revert crest El.
    induction Hjs as [|a c js l Ha _ IH]; intros [|c' crest] El; try discriminate; constructor.
    + simpl in El. injection El as -> _. rewrite map_length in Ha. assumption.
    + simpl in El. injection El as _ El. apply IH; assumption.
  - rewrite E. f_equal. unfold cols. rewrite map_map. apply map_ext. intros; apply map_length.
Qed.

(* ------------------------------------------------------------------------------------------ *)
(** * L. Link with the transforms (C14) *)

(** Whatever call a component is typed from, on a rectangular frame: if its value is a matrix, the
    component is numeric and the matrix has one row per observation, all of one width (regularity
    comes from [eval_lazy_shape]). *)
Theorem typed_matrix_shape cx D n r c t rows :
  rect n D -> extras_shape n cx -> set_type_comp cx D r c = Ok t -> tc_value t = PMatrix rows ->
  tc_kind t = KNumeric /\ List.length rows = n /\ regular rows.
Proof.
  intros HD Hex H Hv. pose proof (set_type_comp_shape cx D n r c t HD Hex H) as Hs.
  rewrite Hv in Hs. destruct Hs as [Hl Hr].
  split; [|split; [exact Hl|apply regular_rows_width; exact Hr]].
  destruct c as [[name|lit] lvl|lz]; cbn [set_type_comp] in H.
  - destruct (assoc name D) as [col|]; [|discriminate H]. injection H as <-. cbn [tc_value] in Hv.
    destruct col; discriminate Hv.
  - discriminate H.
  - apply bind_ok in H as ([[v st1] rec] & _ & H). cbn [fst snd] in H.
    apply bind_ok in H as (k & Hk & H). injection H as <-. cbn [tc_value tc_kind] in *. subst v.
    injection Hk as <-. reflexivity.
Qed.

(** ... so it is a [matrix_comp] as soon as it is not a matrix of zero-width rows. *)
Corollary typed_matrix_comp cx D n r c t rows :
  rect n D -> extras_shape n cx -> set_type_comp cx D r c = Ok t -> tc_value t = PMatrix rows ->
  rows = [] \/ 1 <= width rows -> matrix_comp t.
Proof.
  intros HD Hex H Hv Hw. destruct (typed_matrix_shape cx D n r c t rows HD Hex H Hv) as (Hk & _ & Hreg).
  split; [exact Hk|]. exists rows. repeat split; assumption.
Qed.

(* the call of a stateful transform, seen from [eval_lazy] *)
Lemma eval_stateful_call_inv cx st c args kw v st1 rec :
  existsb (String.eqb c) stateful_names = true ->
  eval_lazy cx st (LzCall c args kw) = Ok (v, st1, rec) ->
  exists st' pos kwv rec0 rec1,
    call_stateful cx c st' pos kwv = Ok (v, st1, rec1) /\ rec = rec0 ++ rec1.
Proof.
  intros Hs H. rewrite eval_lazy_call in H. unfold known_callee in H. rewrite Hs in H.
  cbn [orb negb] in H. apply bind_ok in H as (ra & _ & H). apply bind_ok in H as (rk & _ & H).
  apply bind_ok in H as ([[v' s'] r'] & Hr & H). cbn [fst snd] in H. injection H as <- <- <-.
  eauto 10.
Qed.

(* the training pass of poly(x, degree, raw): the degree is at least 1, the parameters are those
   fitted on the data the call is applied to *)
Lemma call_poly_fit_inv d ex sq st pos kw v st1 rec :
  call_spline (ECtx d ex sq true) "poly" st pos kw = Ok (v, st1, rec) ->
  exists l deg raw rows,
    1 <= deg /\ Poly.poly_eval sq raw deg (Poly.poly_fit l deg) l = Ok rows /\
    v = qrows rows /\ st1 = st /\ rec = [TPPoly raw deg (Poly.poly_fit l deg)].
Proof.
  intros H. unfold call_spline in H. change (String.eqb "poly" "bs") with false in H.
  cbn [e_fit e_sqrt] in H.
  destruct (negb (check_kw _ kw)); [discriminate H|]. apply bind_ok in H as (b & _ & H).
  destruct (arg "x" b) as [i xs| | | | | | | | | | | |]; try discriminate H.
  destruct (all_some xs) as [l|]; [|discriminate H].
  apply bind_ok in H as (deg & Hdeg & H). apply bind_ok in H as (raw & _ & H). cbv zeta in H.
  apply bind_ok in H as (rows & Hrows & H). injection H as <- <- <-.
  exists l, deg, raw, rows. repeat split; auto.
  destruct (assoc "degree" b) as [pv|]; [|injection Hdeg as <-; lia].
  destruct pv as [| | |isint q| | | | | | | | |]; try discriminate Hdeg.
  destruct isint; [|discriminate Hdeg].
  destruct (0 <? Qnum (this q))%Z eqn:E; [|discriminate Hdeg]. injection Hdeg as <-.
  apply Z.ltb_lt in E. lia.
Qed.

(* the training pass of bs(x, df, ...): the parameters are those [bs_init] accepts *)
Lemma call_bs_fit_inv d ex sq st pos kw v st1 rec :
  call_spline (ECtx d ex sq true) "bs" st pos kw = Ok (v, st1, rec) ->
  exists l df deg ic lo hi p rows,
    Spline.bs_init l df None deg ic lo hi = Ok p /\ Spline.bs_apply p l = Ok rows /\
    v = qrows rows /\ st1 = st /\ rec = [TPBs p].
Proof.
  intros H. unfold call_spline in H. change (String.eqb "bs" "bs") with true in H.
  cbn [e_fit e_sqrt] in H.
  destruct (negb (check_kw _ kw)); [discriminate H|]. apply bind_ok in H as (b & _ & H).
  destruct (arg "x" b) as [i xs| | | | | | | | | | | |]; try discriminate H.
  destruct (all_some xs) as [l|]; [|discriminate H].
  apply bind_ok in H as (df & _ & H). apply bind_ok in H as (k & _ & H).
  apply bind_ok in H as (deg & _ & H). apply bind_ok in H as (ic & _ & H).
  apply bind_ok in H as (lo & _ & H). apply bind_ok in H as (hi & _ & H).
  apply bind_ok in H as (p & Hp & H). apply bind_ok in H as (rows & Hrows & H).
  injection H as <- <- <-. exists l, df, deg, ic, lo, hi, p, rows. repeat split; auto.
Qed.

(** poly(x, d) has d columns, raw or not (C14: the d columns of the orthogonal basis, or the
    powers x^1 .. x^d). *)
Lemma poly_fit_width raw deg l : poly_width raw deg (Poly.poly_fit l deg) = deg.
Proof.
  unfold poly_width. destruct raw; [reflexivity|].
  destruct (poly_params_spec l deg) as (Ha & Hn & _). cbv zeta in Ha, Hn. rewrite Ha, Hn.
  destruct (Poly.poly_norms2 (Poly.poly_fit l deg)) as [|x ns]; simpl in *; lia.
Qed.

Lemma bs_out_row_length p y : List.length (bs_out_row p y) = bs_width p.
Proof.
  unfold bs_out_row, bs_width. cbv zeta. destruct (Spline.bs_intercept p); [apply bs_row_length|].
  pose proof (bs_row_length (Spline.bs_knots p) (Spline.bs_degree p) y) as L.
  destruct (Spline.bs_row (Spline.bs_knots p) (Spline.bs_degree p) y); simpl in *; lia.
Qed.

(** bs(x, df=d, degree, intercept) has d columns (C14_bs_ncols), and d is at least
    degree (+ 1 with an intercept). *)
Lemma bs_init_width l df deg ic lo hi p :
  Spline.bs_init l df None deg ic lo hi = Ok p ->
  exists d, df = Some d /\ Z.of_nat (bs_width p) = d /\ (0 <= deg)%Z /\
            (deg + (if ic then 1 else 0) <= d)%Z.
Proof.
  intros H. pose proof (bs_ncols _ _ _ _ _ _ _ _ H q0) as W. rewrite bs_out_row_length in W.
  apply bs_init_ok_iff in H as (inner & lo' & hi' & Hd & Hi & _).
  destruct df as [d|]; [|discriminate Hi]. exists d. repeat split; auto.
  unfold Spline.bs_inner in Hi.
  destruct (d - (deg + 1) + (if ic then 0 else 1) <? 0)%Z eqn:E; [discriminate Hi|].
  apply Z.ltb_ge in E. destruct ic; lia.
Qed.

Lemma qrows_all_width w rows :
  Forall (fun r => List.length r = w) rows ->
  Forall (fun r : list cell => List.length r = w) (map (map (fun q => Some q)) rows).
Proof.
  intros H. apply Forall_map. eapply Forall_impl; [|exact H]. intros r Hr. rewrite map_length. exact Hr.
Qed.

(** A component typed from poly(...) is a [matrix_comp]: one row per observation, as many columns
    as the degree (at least one); the parameters of the fit are the last ones it memorises. *)
Theorem typed_poly_matrix_comp cx D n r args kw t :
  rect n D -> extras_shape n cx ->
  set_type_comp cx D r (CCall (LzCall "poly" args kw)) = Ok t ->
  matrix_comp t /\
  exists rows raw deg p pre,
    tc_value t = PMatrix rows /\ List.length rows = n /\ 1 <= deg /\
    Forall (fun row => List.length row = deg) rows /\
    tc_state t = pre ++ [TPPoly raw deg p].
Proof.
  intros HD Hex H. pose proof H as H'. cbn [set_type_comp] in H'.
  apply bind_ok in H' as ([[v st1] rec] & Hr & H'). cbn [fst snd] in H'.
  destruct (eval_stateful_call_inv _ _ "poly" _ _ _ _ _ eq_refl Hr) as (st' & pos & kwv & rec0 & rec1 & Hc & ->).
  rewrite (call_stateful_spline _ "poly") in Hc by (right; left; reflexivity).
  destruct (call_poly_fit_inv _ _ _ _ _ _ _ _ _ Hc) as (l & deg & raw & rows0 & Hdeg & Hrows & -> & _ & ->).
  unfold qrows in H'. cbn [bind] in H'. injection H' as Ht.
  assert (Hv : tc_value t = PMatrix (map (map (fun q => Some q)) rows0)) by (rewrite <- Ht; reflexivity).
  assert (Hw : Forall (fun row : list cell => List.length row = deg) (map (map (fun q => Some q)) rows0)).
  { apply qrows_all_width. rewrite <- (poly_fit_width raw deg l). eapply poly_eval_width. exact Hrows. }
  destruct (rows_all_width_regular _ _ Hw) as [_ Hwd].
  destruct (typed_matrix_shape cx D n r _ t _ HD Hex H Hv) as (Hk & Hl & Hreg).
  split.
  - split; [exact Hk|]. eexists. split; [exact Hv|]. split; [exact Hreg|].
    destruct (map (map (fun q => Some q)) rows0) as [|r0 rs] eqn:E; [left; reflexivity|right].
    rewrite Hwd by discriminate. exact Hdeg.
  - eexists _, raw, deg, _, rec0. split; [exact Hv|]. split; [exact Hl|]. split; [exact Hdeg|].
    split; [exact Hw|]. rewrite <- Ht. reflexivity.
Qed.

(** A component typed from bs(...): a regular matrix with one row per observation (at least one),
    as many columns d as the df argument [bs_init] accepted; it is a [matrix_comp] exactly when
    d >= 1 -- which holds whenever degree >= 1 or intercept=True, since degree (+ 1) <= d. *)
Theorem typed_bs_matrix_comp cx D n r args kw t :
  rect n D -> extras_shape n cx ->
  set_type_comp cx D r (CCall (LzCall "bs" args kw)) = Ok t ->
  exists rows p pre d,
    tc_kind t = KNumeric /\ tc_value t = PMatrix rows /\ List.length rows = n /\ rows <> [] /\
    regular rows /\ Z.of_nat (width rows) = d /\ bs_width p = width rows /\
    tc_state t = pre ++ [TPBs p] /\
    (exists l deg ic lo hi,
       Spline.bs_init l (Some d) None deg ic lo hi = Ok p /\ (0 <= deg)%Z /\
       (deg + (if ic then 1 else 0) <= d)%Z) /\
    (matrix_comp t <-> (1 <= d)%Z).
Proof.
  intros HD Hex H. pose proof H as H'. cbn [set_type_comp] in H'.
  apply bind_ok in H' as ([[v st1] rec] & Hr & H'). cbn [fst snd] in H'.
  destruct (eval_stateful_call_inv _ _ "bs" _ _ _ _ _ eq_refl Hr) as (st' & pos & kwv & rec0 & rec1 & Hc & ->).
  rewrite (call_stateful_spline _ "bs") in Hc by (left; reflexivity).
  destruct (call_bs_fit_inv _ _ _ _ _ _ _ _ _ Hc)
    as (l & df & deg & ic & lo & hi & p & rows0 & Hp & Hrows & -> & _ & ->).
  unfold qrows in H'. cbn [bind] in H'. injection H' as Ht.
  set (rows := map (map (fun q : Qc => Some q)) rows0) in *.
  assert (Hv : tc_value t = PMatrix rows) by (rewrite <- Ht; reflexivity).
  assert (Hw : Forall (fun row : list cell => List.length row = bs_width p) rows).
  { apply qrows_all_width. eapply bs_apply_width. exact Hrows. }
  assert (Hne : rows <> []).
  { unfold rows. destruct l as [|y l]; [discriminate Hrows|]. injection Hrows as <-. discriminate. }
  destruct (rows_all_width_regular _ _ Hw) as [_ Hwd]. specialize (Hwd Hne).
  destruct (typed_matrix_shape cx D n r _ t _ HD Hex H Hv) as (Hk & Hl & Hreg).
  destruct (bs_init_width _ _ _ _ _ _ _ Hp) as (d & -> & Hd & Hdeg & Hle).
  exists rows, p, rec0, d. split; [exact Hk|]. split; [exact Hv|]. split; [exact Hl|].
  split; [exact Hne|]. split; [exact Hreg|]. split; [rewrite Hwd; exact Hd|].
  split; [symmetry; exact Hwd|]. split; [rewrite <- Ht; reflexivity|].
  split; [exists l, deg, ic, lo, hi; repeat split; assumption|]. split.
  - intros (_ & rows' & Hv' & _ & Hw'). rewrite Hv in Hv'. injection Hv' as <-.
    destruct Hw' as [E|Hw']; [contradiction|]. lia.
  - intros Hd1. split; [exact Hk|]. exists rows. split; [exact Hv|]. split; [exact Hreg|]. right. lia.
Qed.

Corollary typed_bs_matrix_comp_pos cx D n r args kw t :
  rect n D -> extras_shape n cx ->
  set_type_comp cx D r (CCall (LzCall "bs" args kw)) = Ok t ->
  1 <= (match tc_value t with PMatrix rows => width rows | _ => 0 end) -> matrix_comp t.
Proof.
  intros HD Hex H Hw.
  destruct (typed_bs_matrix_comp cx D n r args kw t HD Hex H)
    as (rows & p & pre & d & _ & Hv & _ & _ & _ & Hd & _ & _ & _ & Hiff).
  rewrite Hv in Hw. apply Hiff. lia.
Qed.

(** A variable typed on a frame is a coded component (a numeric series, or a Treatment-coded
    factor), provided the categories an ordered categorical column declares are duplicate-free. *)
Theorem typed_var_coded cx D name lvl t :
  set_type_comp cx D false (CVar (NStr name) lvl) = Ok t ->
  (forall o xs l, assoc name D = Some (ColStr o xs) -> o = Some l -> NoDup l) ->
  coded_comp t.
Proof.
  cbn [set_type_comp]. intros H Hnd. destruct (assoc name D) as [[isint xs|o xs]|] eqn:E; [| |discriminate H];
    injection H as <-.
  - left. split; [reflexivity|]. exists isint, xs. reflexivity.
  - right. split; [reflexivity|]. split; [reflexivity|]. split.
    + intros l Hl. cbn in Hl. eapply Hnd; [reflexivity|exact Hl].
    + left. exists None. reflexivity.
Qed.

(* ------------------------------------------------------------------------------------------ *)
(** * Concrete instances: f:poly(x, 2), f:bs(x, df=4), poly(x, 2):offset(x):f on a small frame *)

(* x = 1, 2, 3, 5; f = a, b, b, a.  The square-root kernel is a parameter of the model ([d_sqrt]);
   the structural statements hold for any kernel, the instance takes the identity. *)
Definition dm_frame : frame :=
  [("x", ColNum true [dm_q 1; dm_q 2; dm_q 3; dm_q 5]);
   ("f", ColStr None [Some "a"; Some "b"; Some "b"; Some "a"])].
Definition dm_cx : dctx := DCtx [] (fun q => q).
Definition dm_poly : lazy := LzCall "poly" [LzVar "x"; LzVal (LInt 2) (Some "2")] [].
Definition dm_bs : lazy := LzCall "bs" [LzVar "x"] [("df", LzVal (LInt 4) (Some "4"))].
Definition dm_bs0 : lazy :=
  LzCall "bs" [LzVar "x"] [("df", LzVal (LInt 0) (Some "0")); ("degree", LzVal (LInt 0) (Some "0"))].
Definition dm_offset : lazy := LzCall "offset" [LzVar "x"] [].

Definition dm_get {T} (d : T) (r : res T) : T := match r with Ok x => x | Err _ => d end.
Definition dm_tc0 : tcomp := TC "" (CVar (NStr "") None) KNumeric PNoneV [] false None.
Definition dm_tf : tcomp := dm_get dm_tc0 (set_type_comp dm_cx dm_frame false (CVar (NStr "f") None)).
Definition dm_tp : tcomp := dm_get dm_tc0 (set_type_comp dm_cx dm_frame false (CCall dm_poly)).
Definition dm_tb : tcomp := dm_get dm_tc0 (set_type_comp dm_cx dm_frame false (CCall dm_bs)).
Definition dm_tz : tcomp := dm_get dm_tc0 (set_type_comp dm_cx dm_frame false (CCall dm_bs0)).
Definition dm_to : tcomp := dm_get dm_tc0 (set_type_comp dm_cx dm_frame false (CCall dm_offset)).

Lemma dm_tf_typed : set_type_comp dm_cx dm_frame false (CVar (NStr "f") None) = Ok dm_tf.
Proof. vm_compute. reflexivity. Qed.
Lemma dm_tp_typed : set_type_comp dm_cx dm_frame false (CCall dm_poly) = Ok dm_tp.
Proof. vm_compute. reflexivity. Qed.
Lemma dm_tb_typed : set_type_comp dm_cx dm_frame false (CCall dm_bs) = Ok dm_tb.
Proof. vm_compute. reflexivity. Qed.
Lemma dm_tz_typed : set_type_comp dm_cx dm_frame false (CCall dm_bs0) = Ok dm_tz.
Proof. vm_compute. reflexivity. Qed.
Lemma dm_to_typed : set_type_comp dm_cx dm_frame false (CCall dm_offset) = Ok dm_to.
Proof. vm_compute. reflexivity. Qed.

Lemma dm_rect : rect 4 dm_frame.
Proof. repeat constructor. Qed.
Lemma dm_extras : extras_shape 4 dm_cx.
Proof. intros k v E. discriminate E. Qed.

(* the hypotheses of the term-level theorems, obtained through the link *)
Lemma dm_tf_coded : coded_comp' dm_tf.
Proof.
  left. apply (typed_var_coded dm_cx dm_frame "f" None dm_tf dm_tf_typed).
  intros o xs l E Ho. vm_compute in E. injection E as <- _. discriminate Ho.
Qed.
Lemma dm_tp_matrix : coded_comp' dm_tp.
Proof.
  right; left.
  exact (proj1 (typed_poly_matrix_comp dm_cx dm_frame 4 false _ _ dm_tp dm_rect dm_extras dm_tp_typed)).
Qed.
Lemma dm_tb_matrix : coded_comp' dm_tb.
Proof.
  right; left.
  apply (typed_bs_matrix_comp_pos dm_cx dm_frame 4 false _ _ dm_tb dm_rect dm_extras dm_tb_typed).
  vm_compute. lia.
Qed.
Lemma dm_to_offset : coded_comp' dm_to.
Proof. right; right. split; [reflexivity|]. split; [reflexivity|]. do 2 eexists. reflexivity. Qed.

(* typing the term f:poly(x, 2) gives the two components; f coded in full: four columns *)
Example poly_term_instance :
  exists dt,
    set_type_term dm_cx dm_frame false [CVar (NStr "f") None; CCall dm_poly]
    = Ok (TTTerm "f:poly(x, 2)" [dm_tf; dm_tp]) /\
    set_data_term 4 (TTTerm "f:poly(x, 2)" [dm_tf; dm_tp]) (SpBool true) = Ok dt /\
    dt_labels dt
    = Some ["f[a]:poly(x, 2)[0]"; "f[a]:poly(x, 2)[1]"; "f[b]:poly(x, 2)[0]"; "f[b]:poly(x, 2)[1]"] /\
    map (map cshow) (dt_rows dt)
    = [["-1/5"; "7/44"; "0"; "0"]; ["0"; "0"; "-3/35"; "-1/11"];
       ["0"; "0"; "1/35"; "-2/11"]; ["9/35"; "5/44"; "0"; "0"]].
Proof.
  eexists. split; [vm_compute; reflexivity|]. split; [vm_compute; reflexivity|].
  split; vm_compute; reflexivity.
Qed.

(* reduced coding of f: the labels f[b]:poly(x, 2)[0], f[b]:poly(x, 2)[1] *)
Example poly_term_reduced_instance :
  exists dt,
    set_data_term 4 (TTTerm "f:poly(x, 2)" [dm_tf; dm_tp]) (SpBool false) = Ok dt /\
    dt_labels dt = Some ["f[b]:poly(x, 2)[0]"; "f[b]:poly(x, 2)[1]"] /\
    map (map cshow) (dt_rows dt) = [["0"; "0"]; ["-3/35"; "-1/11"]; ["1/35"; "-2/11"]; ["0"; "0"]].
Proof. eexists. split; [vm_compute; reflexivity|]. split; vm_compute; reflexivity. Qed.

Example poly_term_pieces :
  comp_pieces' dm_tf true = [Old (PcIndicator "a"); Old (PcIndicator "b")] /\
  comp_pieces' dm_tp true = [PcColumn 0; PcColumn 1] /\
  comp_datum' dm_tf 2 = DOld (DCat (Some "b")) /\
  (exists r, comp_datum' dm_tp 2 = DRow r /\ map cshow r = ["1/35"; "-2/11"]).
Proof.
  split; [vm_compute; reflexivity|]. split; [vm_compute; reflexivity|].
  split; [vm_compute; reflexivity|]. eexists. split; vm_compute; reflexivity.
Qed.

(* the closed form applied: row 2 (f = b, x = 3), pieces f[b] and poly(x, 2)[1]: column
   1 * 2 + 1 = 3 holds [b = b] times entry 1 of the row of the basis *)
Example poly_term_entry_instance :
  exists dt labs,
    set_data_term 4 (TTTerm "f:poly(x, 2)" [dm_tf; dm_tp]) (SpBool true) = Ok dt /\
    dt_labels dt = Some labs /\
    nth_error labs 3 = Some "f[b]:poly(x, 2)[1]" /\
    nth_error (nth 2 (dt_rows dt) []) 3
    = Some (cmul (denote_piece' (Old (PcIndicator "b")) (comp_datum' dm_tf 2))
                 (denote_piece' (PcColumn 1) (comp_datum' dm_tp 2))) /\
    cshow (cmul (denote_piece' (Old (PcIndicator "b")) (comp_datum' dm_tf 2))
                (denote_piece' (PcColumn 1) (comp_datum' dm_tp 2))) = "-2/11".
Proof.
  destruct poly_term_instance as (dt & _ & Hdt & _).
  destruct (set_data_term_coded'_entry 4 "f:poly(x, 2)" dm_tf [dm_tp] (SpBool true) dt 2
              1 [1] (Old (PcIndicator "b")) [PcColumn 1]
              (Forall_cons _ dm_tf_coded (Forall_cons _ dm_tp_matrix (Forall_nil _))) Hdt)
    as (labs & Hlabs & Hl & Hv).
  - repeat constructor.
  - vm_compute. reflexivity.
  - constructor; [vm_compute; reflexivity|constructor].
  - reflexivity.
  - exists dt, labs. split; [assumption|]. split; [assumption|]. split; [exact Hl|]. split; [exact Hv|].
    vm_compute. reflexivity.
Qed.

(* f:bs(x, df=4): the four columns of the cubic B-spline basis under each level *)
Example bs_term_instance :
  exists dt,
    set_type_term dm_cx dm_frame false [CVar (NStr "f") None; CCall dm_bs]
    = Ok (TTTerm "f:bs(x, df=4)" [dm_tf; dm_tb]) /\
    Forall coded_comp' [dm_tf; dm_tb] /\
    set_data_term 4 (TTTerm "f:bs(x, df=4)" [dm_tf; dm_tb]) (SpBool true) = Ok dt /\
    dt_labels dt
    = Some ["f[a]:bs(x, df=4)[0]"; "f[a]:bs(x, df=4)[1]"; "f[a]:bs(x, df=4)[2]"; "f[a]:bs(x, df=4)[3]";
            "f[b]:bs(x, df=4)[0]"; "f[b]:bs(x, df=4)[1]"; "f[b]:bs(x, df=4)[2]"; "f[b]:bs(x, df=4)[3]"] /\
    map (map cshow) (dt_rows dt)
    = [["0"; "0"; "0"; "0"; "0"; "0"; "0"; "0"];
       ["0"; "0"; "0"; "0"; "133/216"; "11/36"; "1/24"; "0"];
       ["0"; "0"; "0"; "0"; "1/5"; "12/25"; "39/125"; "1/125"];
       ["0"; "0"; "0"; "1"; "0"; "0"; "0"; "0"]].
Proof.
  eexists. split; [vm_compute; reflexivity|].
  split; [exact (Forall_cons _ dm_tf_coded (Forall_cons _ dm_tb_matrix (Forall_nil _)))|].
  split; [vm_compute; reflexivity|]. split; vm_compute; reflexivity.
Qed.

(* three kinds of components in one term: matrix-valued, offset, factor *)
Example poly_offset_term_instance :
  exists dt,
    Forall coded_comp' [dm_tp; dm_to; dm_tf] /\
    set_data_term 4 (TTTerm "poly(x, 2):offset(x):f" [dm_tp; dm_to; dm_tf]) (SpBool true) = Ok dt /\
    dt_labels dt
    = Some ["poly(x, 2)[0]:offset(x):f[a]"; "poly(x, 2)[0]:offset(x):f[b]";
            "poly(x, 2)[1]:offset(x):f[a]"; "poly(x, 2)[1]:offset(x):f[b]"] /\
    map (map cshow) (dt_rows dt)
    = [["-1/5"; "0"; "7/44"; "0"]; ["0"; "-6/35"; "0"; "-2/11"];
       ["0"; "3/35"; "0"; "-6/11"]; ["9/7"; "0"; "25/44"; "0"]] /\
    comp_pieces' dm_to true = [Old PcNumeric] /\ comp_datum' dm_to 2 = DOld (DNum (dm_q 3)).
Proof.
  eexists.
  split; [exact (Forall_cons _ dm_tp_matrix (Forall_cons _ dm_to_offset (Forall_cons _ dm_tf_coded (Forall_nil _))))|].
  split; [vm_compute; reflexivity|]. split; [vm_compute; reflexivity|].
  split; [vm_compute; reflexivity|]. split; vm_compute; reflexivity.
Qed.

(** The condition on the width in [matrix_comp] is met by the transforms except in one corner:
    bs(x, df=0, degree=0) is accepted by [bs_init] (no inner knot, one basis function, dropped
    without intercept) and yields a matrix without any column.  The component is no [matrix_comp];
    its label is the bare name, and the term f:bs(x, df=0, degree=0) is built with two labels and
    no column. *)
Example bs_zero_width_refuted :
  exists dt,
    set_type_comp dm_cx dm_frame false (CCall dm_bs0) = Ok dm_tz /\
    tc_value dm_tz = PMatrix [[]; []; []; []] /\ ~ matrix_comp dm_tz /\
    set_data_term 4 (TTTerm "f:bs(x, df=0, degree=0)" [dm_tf; dm_tz]) (SpBool true) = Ok dt /\
    dt_labels dt = Some ["f[a]:bs(x, df=0, degree=0)"; "f[b]:bs(x, df=0, degree=0)"] /\
    dt_rows dt = [[]; []; []; []].
Proof.
  eexists. split; [exact dm_tz_typed|]. split; [vm_compute; reflexivity|]. split.
  - intros (_ & rows & Hv & _ & Hw). vm_compute in Hv. injection Hv as <-.
    destruct Hw as [E|E]; [discriminate E|simpl in E; lia].
  - split; [vm_compute; reflexivity|]. split; vm_compute; reflexivity.
Qed.

Print Assumptions set_data_comp_matrix.
Print Assumptions set_data_comp_matrix_wf_iff.
Print Assumptions set_data_comp_offset.
Print Assumptions coded_comp'_wf.
Print Assumptions set_data_term_coded'_lrow.
Print Assumptions coded_comp'_lrow.
Print Assumptions set_data_term_coded'_denote.
Print Assumptions set_data_term_coded'_entry.
Print Assumptions set_data_term_coded'_entry_onto.
Print Assumptions typed_matrix_shape.
Print Assumptions typed_poly_matrix_comp.
Print Assumptions typed_bs_matrix_comp.
Print Assumptions typed_var_coded.
Print Assumptions poly_term_entry_instance.
Print Assumptions bs_zero_width_refuted.
