(* C15 -- the response: how Model.eval / Response.set_data turn the left-hand side of ~ into the
   response matrix (Design.set_type_term / set_data_term with is_response = true, SpBool true),
   which formulas have a response at all (Algebra.resolve), and proportion responses. *)
From Verif Require Import Base Tokens Lazy Coding Contrasts Frame Eval Algebra Design.
From Verif Require Import DesignStructure DesignCoding.
From Coq Require Import Lia Permutation.
Local Close Scope Qc_scope.
Local Close Scope Q_scope.
Local Open Scope string_scope.
Local Open Scope list_scope.

Definition level_label (name l : string) : string := (name ++ "[" ++ l ++ "]")%string.

(* the response term  name  /  name[ref]  of a formula, evaluated the way eval_model does *)
Definition eval_response (cx : dctx) (data : frame) (t : term) (nrows : nat) : res dterm :=
  do ty <- set_type_term cx data true t; set_data_term nrows ty (SpBool true).

Lemma eval_model_response cx data m d t :
  eval_model cx data m = Ok d -> resp m = Some t ->
  exists dt, eval_response cx data t (frame_rows data) = Ok dt /\ ds_response d = Some dt.
Proof.
  unfold eval_model, eval_response. intros H Hr. rewrite Hr in H.
  do 7 (apply bind_ok in H as (? & _ & H)).
  apply bind_ok in H as (r & Hresp & H). injection H as <-. cbn [ds_response].
  apply bind_ok in Hresp as (ty & Hty & Hresp). apply bind_ok in Hresp as (dt & Hdt & Hresp).
  injection Hresp as <-. exists dt. rewrite Hty. cbn [bind]. auto.
Qed.

Lemma eval_model_no_response cx data m d :
  eval_model cx data m = Ok d -> resp m = None -> ds_response d = None.
Proof.
  unfold eval_model. intros H Hr. rewrite Hr in H.
  do 7 (apply bind_ok in H as (? & _ & H)).
  apply bind_ok in H as (r & Hresp & H). injection H as <-. injection Hresp as <-. reflexivity.
Qed.

(* ------------------------------------------------------------------------------------------ *)
(** * Numeric response: one column, the cells unchanged *)

Theorem response_numeric_id cx data name isint xs nrows :
  assoc name data = Some (ColNum isint xs) ->
  exists dt, eval_response cx data [CVar (NStr name) None] nrows = Ok dt /\
    dt_rows dt = map (fun x => [x]) xs /\ dt_labels dt = Some [name] /\
    dt_kind dt = "numeric" /\ dt_name dt = name.
Proof.
  intros H. unfold eval_response, set_type_term. cbn [mapM set_type_comp]. rewrite H.
  cbn. eexists. repeat split.
Qed.

(* row by row: row i of the response is the one-element row holding cell i of the column *)
Corollary response_numeric_cell cx data name isint xs nrows i c :
  assoc name data = Some (ColNum isint xs) -> nth_error xs i = Some c ->
  exists dt, eval_response cx data [CVar (NStr name) None] nrows = Ok dt /\
    nth_error (dt_rows dt) i = Some [c].
Proof.
  intros H Hi. destruct (response_numeric_id cx data name isint xs nrows H) as (dt & Hdt & Hrows & _).
  exists dt. split; [assumption|]. rewrite Hrows. rewrite nth_error_map, Hi. reflexivity.
Qed.

(* component level, for any numeric series value (a variable or a call such as I(x) or center(x)) *)
Theorem response_numeric_comp t nrows isint xs :
  tc_kind t = KNumeric -> tc_value t = PSeries isint xs ->
  exists dc, set_data_comp t true nrows = Ok dc /\
    dc_rows dc = map (fun x => [x]) xs /\ dc_labels dc = Some [tc_name t].
Proof. intros Hk Hv. unfold set_data_comp. rewrite Hk, Hv. eexists. repeat split. Qed.

(* ------------------------------------------------------------------------------------------ *)
(** * Categorical response: coded in full *)

Definition no_missing {T} (xs : list (option T)) : bool :=
  negb (existsb (fun x => match x with None => true | _ => false end) xs).

(* the levels of a string column: the declared order of an ordered Categorical, else sorted *)
Definition column_levels (o : option (list string)) (vs : list (option string)) : list string :=
  match o with Some cs => cs | None => sort_levels false (present vs) end.

Lemma code_treatment_full ref cats :
  code (Treatment ref) true cats
  = Ok (Contrast (build (List.length cats) (List.length cats) eye_entry) cats).
Proof. reflexivity. Qed.

(** A string / categorical response without reference level: one column per level, in the order
    of the levels, labelled name[level], holding 1 exactly when the value of the row is that level. *)
Theorem response_categorical_indicators cx data name o vs nrows :
  assoc name data = Some (ColStr o vs) -> no_missing vs = true ->
  NoDup (column_levels o vs) ->
  exists dt, eval_response cx data [CVar (NStr name) None] nrows = Ok dt /\
    dt_rows dt = map (fun ox => map (oind ox) (column_levels o vs)) vs /\
    dt_labels dt = Some (map (level_label name) (column_levels o vs)) /\
    dt_kind dt = "categoric".
Proof.
  intros H Hm Hnd. unfold eval_response, set_type_term. cbn [mapM set_type_comp]. rewrite H.
  cbn [bind col_value term_name map comp_name vname_str concat_with].
  set (t := TC name (CVar (NStr name) None) KCategoric (PStrs o vs) [] true None).
  assert (Hsd : exists dc cm, set_data_comp t true nrows = Ok dc /\ dc_contrast dc = Some cm /\
                              dc_levels dc = column_levels o vs).
  { unfold set_data_comp. cbn. unfold no_missing in Hm. apply negb_true_iff in Hm. rewrite Hm.
    do 2 eexists. split; [reflexivity|]. split; reflexivity. }
  destruct Hsd as (dc & cm & Hdc & Hcm & Hlv).
  assert (Hk : tc_kind t = KCategoric) by reflexivity.
  assert (He : comp_encoding t = Treatment None) by reflexivity.
  rewrite <- Hlv in Hnd.
  destruct (set_data_comp_treatment t true nrows dc cm None Hk Hdc Hcm He Hnd)
    as (num & o' & d & Hd & Hlabs & Hrows & Hfull & _).
  specialize (Hfull eq_refl). cbn in Hd. injection Hd as <- <- <-.
  unfold set_data_term. cbn [mapM spans_for tc_name]. fold t. rewrite Hdc. cbn [bind].
  eexists. split; [reflexivity|]. cbn [dt_rows dt_labels dt_kind].
  rewrite Hrows, Hlabs, Hfull, Hlv. repeat split.
  unfold set_data_comp in Hdc. cbn in Hdc.
  destruct (existsb _ vs); [discriminate|]. injection Hdc as <-. reflexivity.
Qed.

(* without declared categories the levels are duplicate-free by construction *)
Corollary response_categorical_sorted cx data name vs nrows :
  assoc name data = Some (ColStr None vs) -> no_missing vs = true ->
  exists dt, eval_response cx data [CVar (NStr name) None] nrows = Ok dt /\
    dt_rows dt = map (fun ox => map (oind ox) (sorted_unique_str (present vs))) vs /\
    dt_labels dt = Some (map (level_label name) (sorted_unique_str (present vs))).
Proof.
  intros H Hm.
  destruct (response_categorical_indicators cx data name None vs nrows H Hm (sort_levels_NoDup false _))
    as (dt & H1 & H2 & H3 & _).
  exists dt. auto.
Qed.

(* the reused coding theorem, with spans = true: the labels of the full coding are the levels *)
Corollary response_full_coding_row lv cm x :
  NoDup lv -> code (Treatment None) true lv = Ok cm ->
  code_row (cmatrix cm) (contrast_width cm) (index_of x lv) = map (ind x) lv /\ clabels cm = lv.
Proof.
  intros Hnd H. destruct (treatment_code_row None true lv cm x Hnd H) as (H1 & H2 & _).
  rewrite (H2 eq_refl) in H1. auto.
Qed.

(* a missing value in a categorical response is outside the supported set *)
Theorem response_categorical_missing cx data name o vs nrows :
  assoc name data = Some (ColStr o vs) -> no_missing vs = false ->
  eval_response cx data [CVar (NStr name) None] nrows = Err EUnsupported.
Proof.
  intros H Hm. unfold eval_response, set_type_term. cbn [mapM set_type_comp]. rewrite H.
  cbn. unfold no_missing in Hm. apply negb_false_iff in Hm. rewrite Hm. reflexivity.
Qed.

(* ------------------------------------------------------------------------------------------ *)
(** * y[ref]: a binary response *)

Theorem response_level_binary cx data name o vs ref nrows :
  assoc name data = Some (ColStr o vs) -> no_missing vs = true ->
  exists dt, eval_response cx data [CVar (NStr name) (Some ref)] nrows = Ok dt /\
    dt_rows dt = map (fun ox => [oind ox ref]) vs /\
    dt_labels dt = Some [level_label name ref] /\
    dt_kind dt = "categoric".
Proof.
  intros H Hm. unfold eval_response, set_type_term. cbn [mapM set_type_comp]. rewrite H.
  cbn. unfold no_missing in Hm. apply negb_true_iff in Hm. rewrite Hm.
  eexists. split; [reflexivity|]. cbn [dt_rows dt_labels dt_kind]. repeat split.
Qed.

(* spelled out: the single cell is 1 exactly where the value equals ref *)
Corollary response_level_binary_cell cx data name o vs ref nrows i v :
  assoc name data = Some (ColStr o vs) -> no_missing vs = true -> nth_error vs i = Some (Some v) ->
  exists dt, eval_response cx data [CVar (NStr name) (Some ref)] nrows = Ok dt /\
    nth_error (dt_rows dt) i = Some [if String.eqb v ref then zcell 1 else zcell 0].
Proof.
  intros H Hm Hi. destruct (response_level_binary cx data name o vs ref nrows H Hm) as (dt & Hdt & Hrows & _).
  exists dt. split; [assumption|]. rewrite Hrows, nth_error_map, Hi. reflexivity.
Qed.

(* the same for an integer column used as a categorical response with a level *)
Theorem response_level_binary_comp t nrows o vs ref :
  tc_kind t = KCategoric -> tc_value t = PStrs o vs -> tc_response t = true ->
  tc_reference t = Some ref -> no_missing vs = true ->
  exists dc, set_data_comp t true nrows = Ok dc /\
    dc_rows dc = map (fun ox => [oind ox ref]) vs /\
    dc_labels dc = Some [level_label (tc_name t) ref] /\ dc_contrast dc = None.
Proof.
  intros Hk Hv Hr Href Hm. unfold set_data_comp. rewrite Hk, Hv, Hr, Href. cbn.
  unfold no_missing in Hm. apply negb_true_iff in Hm. rewrite Hm. eexists. repeat split.
Qed.

(* ------------------------------------------------------------------------------------------ *)
(** * Which formulas have a response *)

(** Response(term): exactly the single-component terms *)
Theorem response_single_term v r : mk_response v = Ok r <-> exists c, v = VT [c] /\ r = VR [c].
Proof.
  split.
  - destruct v as [| |[|c [|c' t]]|g|t|m]; simpl; intros H; try discriminate. injection H as <-. eauto.
  - intros (c & -> & ->). reflexivity.
Qed.

Theorem response_not_single v : (forall c, v <> VT [c]) -> mk_response v = Err EValue.
Proof.
  intros H. destruct v as [| |[|c [|c' t]]|g|t|m]; try reflexivity. exfalso. eapply H; reflexivity.
Qed.

(* no response inside the value *)
Definition noresp (v : value) : Prop :=
  match v with VM m => resp m = None | VR _ => False | _ => True end.

Lemma add_term_resp m a m' : add_term m a = Ok m' -> resp m' = resp m.
Proof.
  destruct a as [[| |t]|g]; simpl; intros H; try discriminate; injection H as <-.
  - destruct (cmem CI (commons m)); reflexivity.
  - destruct (cmem (CT t) (commons m)); reflexivity.
  - destruct (gmem g (groups m)); reflexivity.
Qed.

Lemma add_terms_resp l : forall m m', add_terms m l = Ok m' -> resp m' = resp m.
Proof.
  induction l as [|a l IH]; simpl; intros m m' H; [injection H as <-; reflexivity|].
  apply bind_ok in H as (m1 & H1 & H). rewrite (IH _ _ H). eapply add_term_resp; eauto.
Qed.

Lemma model_sub_resp m v m' : model_sub m v = Ok m' -> resp m' = resp m.
Proof.
  destruct v as [| |t|g|t|o]; simpl; intros H; try discriminate; injection H as <-.
  - destruct (cmem CI (commons m)); reflexivity.
  - destruct (cmem (CT t) (commons m)); reflexivity.
  - destruct (gmem g (groups m)); reflexivity.
  - generalize (model_terms o). intros l. revert m. induction l as [|a l IH]; intros m; simpl; [reflexivity|].
    rewrite IH. destruct a as [c|g].
    + destruct (cmem c (commons m)); reflexivity.
    + destruct (gmem g (groups m)); reflexivity.
Qed.

Lemma model_add_resp m v m' : model_add m v = Ok m' -> resp m' = resp m.
Proof.
  destruct v as [| |t|g|t|o]; intros H; try discriminate; unfold model_add in H.
  - eapply (add_term_resp m (AC CI)); eauto.
  - eapply model_sub_resp; eauto.
  - eapply (add_term_resp m (AC (CT t))); eauto.
  - eapply (add_term_resp m (AG g)); eauto.
  - eapply add_terms_resp; eauto.
Qed.

Local Arguments model_sub : simpl never.
Local Arguments model_add : simpl never.
Local Arguments add_term : simpl never.
Local Arguments add_terms : simpl never.
Local Arguments mk_model : simpl never.

Lemma mk_model_resp ts r : resp (mk_model ts r) = r.
Proof. reflexivity. Qed.

Ltac inv_ok :=
  repeat match goal with
  | H : add_terms _ _ = Ok _ |- _ => apply add_terms_resp in H
  | H : add_term _ _ = Ok _ |- _ => apply add_term_resp in H
  | H : model_add _ _ = Ok _ |- _ => apply model_add_resp in H
  | H : model_sub _ _ = Ok _ |- _ => apply model_sub_resp in H
  | H : bind _ _ = Ok _ |- _ => let x := fresh "x" in let Hx := fresh "Hx" in apply bind_ok in H as (x & Hx & H)
  | H : Ok _ = Ok _ |- _ => injection H as <-
  | H : Err _ = Ok _ |- _ => discriminate H
  | H : (if ?c then _ else _) = Ok _ |- _ => destruct c eqn:?
  | H : match ?x with _ => _ end = Ok _ |- _ => destruct x eqn:?
  end.

Ltac resp_solve :=
  simpl; auto;
  repeat match goal with
  | H : add_terms _ _ = Ok _ |- _ => apply add_terms_resp in H
  | H : add_term _ _ = Ok _ |- _ => apply add_term_resp in H
  | H : model_add _ _ = Ok _ |- _ => apply model_add_resp in H
  | H : model_sub _ _ = Ok _ |- _ => apply model_sub_resp in H
  end;
  simpl in *; rewrite ?mk_model_resp in *; try congruence;
  repeat match goal with |- context [if ?c then _ else _] => destruct c end; simpl; try congruence.

Lemma v_add_noresp a b v : noresp a -> noresp b -> v_add a b = Ok v -> noresp v.
Proof. destruct a, b; cbn; intros Ha Hb H; try contradiction; inv_ok; resp_solve. Qed.
Lemma v_sub_noresp a b v : noresp a -> noresp b -> v_sub a b = Ok v -> noresp v.
Proof. destruct a, b; cbn; intros Ha Hb H; try contradiction; inv_ok; resp_solve. Qed.
Lemma v_matmul_noresp a b v : noresp a -> noresp b -> v_matmul a b = Ok v -> noresp v.
Proof. destruct a, b; cbn; intros Ha Hb H; try contradiction; inv_ok; resp_solve. Qed.
Lemma v_mul_noresp a b v : noresp a -> noresp b -> v_mul a b = Ok v -> noresp v.
Proof. destruct a, b; cbn; intros Ha Hb H; try contradiction; inv_ok; resp_solve. Qed.
Lemma v_div_noresp a b v : noresp a -> noresp b -> v_div a b = Ok v -> noresp v.
Proof. destruct a, b; cbn; intros Ha Hb H; try contradiction; inv_ok; resp_solve. Qed.
Lemma v_pow_noresp a b v : noresp a -> noresp b -> v_pow a b = Ok v -> noresp v.
Proof. destruct a, b; cbn; intros Ha Hb H; try contradiction; inv_ok; resp_solve. Qed.
Lemma or_cterm_noresp c b v : noresp b -> or_cterm c b = Ok v -> noresp v.
Proof. destruct c, b; simpl; intros Hb H; try contradiction; inv_ok; resp_solve. Qed.
Lemma v_or_noresp a b v : noresp a -> noresp b -> v_or a b = Ok v -> noresp v.
Proof.
  destruct a as [| |t|g|t|m]; intros Ha Hb H; try contradiction; unfold v_or in H; try discriminate;
    try (eapply or_cterm_noresp; eassumption).
  destruct (commons m) as [|c [|c' cs]].
  - destruct b; inv_ok; resp_solve.
  - eapply or_cterm_noresp; eassumption.
  - destruct b; inv_ok; resp_solve.
Qed.

(* no ~ among the operators that [resolve] interprets (the arguments of calls are not formulas) *)
Fixpoint tilde_free (e : expr) : bool :=
  match e with
  | EGrouping e' => tilde_free e'
  | EBinary l op r => negb (kind_eqb (tkind op) TILDE) && tilde_free l && tilde_free r
  | EUnary _ r => tilde_free r
  | _ => true
  end.

Theorem resolve_noresp e : forall v, tilde_free e = true -> resolve e = Ok v -> noresp v.
Proof.
  induction e as [n IHn val IHv|e IH|l IHl op r IHr|op r IHr|c IHc args|n lv|t|val lx]
    using expr_ind; intros v Hf H; cbn [resolve] in H.
  - discriminate.
  - apply IH; assumption.
  - simpl in Hf. apply andb_true_iff in Hf as [Hf Hfr]. apply andb_true_iff in Hf as [Hop Hfl].
    destruct (lookup_kind (tkind op) resolver_ops) as [o|] eqn:Eo; [|discriminate].
    apply bind_ok in H as (a & Ha & H). apply bind_ok in H as (b & Hb & H).
    specialize (IHl _ Hfl Ha). specialize (IHr _ Hfr Hb).
    destruct o; cbn [Algebra.apply_binop] in H.
    + (* OpTilde: excluded *)
      exfalso. destruct (tkind op); simpl in Eo; discriminate.
    + exact (v_add_noresp _ _ _ IHl IHr H).
    + exact (v_sub_noresp _ _ _ IHl IHr H).
    + exact (v_pow_noresp _ _ _ IHl IHr H).
    + exact (v_matmul_noresp _ _ _ IHl IHr H).
    + exact (v_mul_noresp _ _ _ IHl IHr H).
    + exact (v_div_noresp _ _ _ IHl IHr H).
    + exact (v_or_noresp _ _ _ IHl IHr H).
  - simpl in Hf. destruct (tkind op); try discriminate.
    + apply IHr; assumption.
    + apply bind_ok in H as (w & Hw & H). destruct w; try discriminate; injection H as <-; exact I.
  - apply bind_ok in H as (l & _ & H). injection H as <-. exact I.
  - destruct lv as [[]|]; try discriminate; try (injection H as <-; exact I).
    destruct v0; try discriminate. injection H as <-. exact I.
  - injection H as <-. exact I.
  - destruct (lit_is 0 val); [injection H as <-; exact I|].
    destruct (lit_is 1 val); injection H as <-; exact I.
Qed.

(** A formula without ~ describes a model without response. *)
Theorem no_response e m : tilde_free e = true -> describe e = Ok m -> resp m = None.
Proof.
  unfold describe. intros Hf H. apply bind_ok in H as (v & Hv & H).
  pose proof (resolve_noresp e v Hf Hv) as Hn.
  destruct v; simpl in Hn; try contradiction; injection H as <-; auto.
Qed.

(** ... and a formula  lhs ~ rhs  has the single component of lhs as response; a left-hand side
    that is not a single-component term is rejected. *)
Theorem tilde_response l op r m :
  tkind op = TILDE -> describe (EBinary l op r) = Ok m ->
  exists c, resolve l = Ok (VT [c]) /\ resp m = Some [c].
Proof.
  intros Hop H. unfold describe in H. apply bind_ok in H as (v & Hv & H).
  simpl in Hv. rewrite Hop in Hv. simpl in Hv.
  apply bind_ok in Hv as (a & Ha & Hv). apply bind_ok in Hv as (b & Hb & Hv).
  apply bind_ok in Hv as (rr & Hr & Hv). apply response_single_term in Hr as (c & -> & ->).
  exists c. split; [assumption|].
  destruct b; simpl in Hv; try discriminate; injection Hv as <-; injection H as <-; reflexivity.
Qed.

Theorem tilde_needs_single_term l op r :
  tkind op = TILDE -> (forall c, resolve l <> Ok (VT [c])) -> is_ok (resolve (EBinary l op r)) = false.
Proof.
  intros Hop Hl. simpl. rewrite Hop. simpl. destruct (resolve l) as [a|k] eqn:Ea; [|reflexivity].
  simpl. destruct (resolve r) as [b|k]; [|reflexivity]. simpl.
  rewrite response_not_single; [reflexivity|]. intros c ->. eapply Hl; reflexivity.
Qed.

(* ------------------------------------------------------------------------------------------ *)
(** * Proportion responses *)

(** the matrix of a proportion response: rows [successes_i; trials_i] *)
Theorem response_prop t nrows ss ts ct :
  tc_kind t = KProportion -> tc_response t = true -> tc_value t = PProp ss ts ct ->
  exists dc, set_data_comp t true nrows = Ok dc /\
    dc_rows dc = zip_with (fun a b => [a; b]) ss ts /\ dc_labels dc = None.
Proof. intros Hk Hr Hv. unfold set_data_comp. rewrite Hk, Hr, Hv. eexists. repeat split. Qed.

Lemma zip_with_nth_error {X Y Z} (f : X -> Y -> Z) a b i x y :
  nth_error a i = Some x -> nth_error b i = Some y -> nth_error (zip_with f a b) i = Some (f x y).
Proof.
  revert b i; induction a as [|x0 a IH]; intros b i Ha Hb; destruct i; simpl in *; try discriminate;
    destruct b; simpl in *; try discriminate.
  - injection Ha as ->. injection Hb as ->. reflexivity.
  - apply IH; assumption.
Qed.

Corollary response_prop_row t nrows ss ts ct i s n :
  tc_kind t = KProportion -> tc_response t = true -> tc_value t = PProp ss ts ct ->
  nth_error ss i = Some s -> nth_error ts i = Some n ->
  exists dc, set_data_comp t true nrows = Ok dc /\ nth_error (dc_rows dc) i = Some [s; n].
Proof.
  intros Hk Hr Hv Hs Hn. destruct (response_prop t nrows ss ts ct Hk Hr Hv) as (dc & Hdc & Hrows & _).
  exists dc. split; [assumption|]. rewrite Hrows. exact (zip_with_nth_error (fun a b : cell => [a; b]) ss ts i s n Hs Hn).
Qed.

(* a proportion is a response only *)
Theorem prop_not_predictor t spans nrows :
  tc_kind t = KProportion -> tc_response t = false -> set_data_comp t spans nrows = Err EValue.
Proof. intros Hk Hr. unfold set_data_comp. rewrite Hk, Hr. reflexivity. Qed.

(** prop / p / proportion on two complete series: accepted exactly when every success and every
    trial is an integer and no success exceeds its trial; otherwise ValueError *)
Definition prop_ok (sl tl : list Qc) : bool :=
  forallb is_integer sl && forallb is_integer tl &&
  forallb (fun p => qc_leb (fst p) (snd p)) (combine sl tl).

Theorem prop_spec cx name i j ss ts sl tl :
  In name ["p"; "prop"; "proportion"] ->
  all_some ss = Some sl -> all_some ts = Some tl ->
  call_function cx name [PSeries i ss; PSeries j ts] []
  = if prop_ok sl tl then Ok (PProp ss ts None) else Err EValue.
Proof.
  intros Hn Hs Ht.
  assert (E : call_function cx name = call_function cx "proportion").
  { destruct Hn as [<-|[<-|[<-|[]]]]; reflexivity. }
  rewrite E. cbn. fold (all_some ts). rewrite Hs, Ht. unfold prop_ok.
  destruct (forallb is_integer sl); [|reflexivity].
  destruct (forallb is_integer tl); [|reflexivity].
  destruct (forallb _ (combine sl tl)); reflexivity.
Qed.

Corollary prop_rejects_fraction cx name i j ss ts sl tl :
  In name ["p"; "prop"; "proportion"] ->
  all_some ss = Some sl -> all_some ts = Some tl ->
  (exists s, In s sl /\ is_integer s = false) ->
  call_function cx name [PSeries i ss; PSeries j ts] [] = Err EValue.
Proof.
  intros Hn Hs Ht (s & Hin & Hs'). rewrite (prop_spec cx name i j ss ts sl tl Hn Hs Ht).
  unfold prop_ok. replace (forallb is_integer sl) with false; [reflexivity|].
  symmetry. apply not_true_is_false. intros H. rewrite forallb_forall in H. rewrite (H s Hin) in Hs'. discriminate.
Qed.

Corollary prop_rejects_excess cx name i j ss ts sl tl :
  In name ["p"; "prop"; "proportion"] ->
  all_some ss = Some sl -> all_some ts = Some tl ->
  (exists k s n, nth_error sl k = Some s /\ nth_error tl k = Some n /\ qc_leb s n = false) ->
  call_function cx name [PSeries i ss; PSeries j ts] [] = Err EValue.
Proof.
  intros Hn Hs Ht (k & s & n & Hks & Hkn & Hle). rewrite (prop_spec cx name i j ss ts sl tl Hn Hs Ht).
  unfold prop_ok.
  replace (forallb (fun p => qc_leb (fst p) (snd p)) (combine sl tl)) with false;
    [rewrite andb_false_r; reflexivity|].
  symmetry. apply not_true_is_false. intros H. rewrite forallb_forall in H.
  assert (Hin : In (s, n) (combine sl tl)).
  { clear -Hks Hkn. revert tl k Hks Hkn. induction sl as [|a sl IH]; intros tl k Hks Hkn;
      destruct k; simpl in *; try discriminate; destruct tl; simpl in *; try discriminate.
    - injection Hks as ->. injection Hkn as ->. left; reflexivity.
    - right. eapply IH; eauto. }
  specialize (H _ Hin). simpl in H. congruence.
Qed.

(* a constant number of trials: broadcast, and remembered for new data *)
Theorem prop_constant_trials cx name i ss sl q :
  In name ["p"; "prop"; "proportion"] ->
  all_some ss = Some sl ->
  call_function cx name [PSeries i ss; PNumber true q] []
  = if prop_ok sl (repeat q (List.length ss))
    then Ok (PProp ss (repeat (Some q) (List.length ss)) (Some q)) else Err EValue.
Proof.
  intros Hn Hs.
  assert (E : call_function cx name = call_function cx "proportion").
  { destruct Hn as [<-|[<-|[<-|[]]]]; reflexivity. }
  rewrite E. cbn. fold (all_some (repeat (Some q) (List.length ss))). rewrite Hs.
  assert (Hrep : forall n, all_some (repeat (Some q) n) = Some (repeat q n)).
  { induction n as [|n IH]; [reflexivity|]. cbn [repeat].
    change (all_some (Some q :: repeat (Some q) n))
      with (match all_some (repeat (Some q) n) with Some l => Some (q :: l) | None => None end).
    rewrite IH. reflexivity. }
  rewrite Hrep. unfold prop_ok.
  destruct (forallb is_integer sl); [|reflexivity].
  destruct (forallb is_integer (repeat q _)); [|reflexivity].
  destruct (forallb _ (combine sl _)); reflexivity.
Qed.

(* non-vacuity *)
Example prop_ex_ok cx :
  call_function cx "prop" [PSeries true [Some (qz 1); Some (qz 2)]; PSeries true [Some (qz 3); Some (qz 2)]] []
  = Ok (PProp [Some (qz 1); Some (qz 2)] [Some (qz 3); Some (qz 2)] None).
Proof. reflexivity. Qed.
Example prop_ex_excess cx :
  call_function cx "p" [PSeries true [Some (qz 4)]; PSeries true [Some (qz 3)]] [] = Err EValue.
Proof. reflexivity. Qed.
Example prop_ex_fraction cx :
  call_function cx "proportion" [PSeries false [Some (Q2Qc (1 # 2))]; PSeries true [Some (qz 3)]] [] = Err EValue.
Proof. reflexivity. Qed.

Example response_ex_numeric :
  exists dt, eval_response (DCtx [] (fun q => q)) [("y", ColNum true [Some (qz 3); None])] [CVar (NStr "y") None] 2 = Ok dt
    /\ dt_rows dt = [[Some (qz 3)]; [None]].
Proof. eexists. split; reflexivity. Qed.
Example response_ex_categoric :
  exists dt, eval_response (DCtx [] (fun q => q)) [("y", ColStr None [Some "b"; Some "a"; Some "b"])] [CVar (NStr "y") None] 3 = Ok dt
    /\ dt_rows dt = [[zcell 0; zcell 1]; [zcell 1; zcell 0]; [zcell 0; zcell 1]]
    /\ dt_labels dt = Some ["y[a]"; "y[b]"].
Proof. eexists. split; [reflexivity|]. split; reflexivity. Qed.
Example response_ex_level :
  exists dt, eval_response (DCtx [] (fun q => q)) [("y", ColStr None [Some "b"; Some "a"; Some "b"])] [CVar (NStr "y") (Some "b")] 3 = Ok dt
    /\ dt_rows dt = [[zcell 1]; [zcell 0]; [zcell 1]] /\ dt_labels dt = Some ["y[b]"].
Proof. eexists. split; [reflexivity|]. split; reflexivity. Qed.

Print Assumptions response_numeric_id.
Print Assumptions response_categorical_indicators.
Print Assumptions response_level_binary.
Print Assumptions response_single_term.
Print Assumptions no_response.
Print Assumptions tilde_response.
Print Assumptions response_prop.
Print Assumptions prop_spec.
