(* C16 at prediction time -- offset, prop and binary when a design is evaluated on NEW data
   (Design.new_comp / new_term / new_common), and the remaining clauses of binary.

   (a) offset(v) is recomputed from the new frame; offset(constant) is broadcast to the number of
       rows of the new frame.
   (b) prop(y, n): the model -- like the driver command "newdata", which only calls [new_common]
       and [new_group] -- has no prediction of the response matrix.  What exists is the branch of
       [new_comp] for a proportion component: it reports the TRIALS of the new frame (one column),
       a constant number of trials being broadcast; it neither looks at the successes nor
       re-validates anything.  [proportion_never_predictor] shows no common or group-specific term
       of a design that was built can reach that branch.
   (c) binary is not stateful: at prediction the call is evaluated again on the new frame, so it
       refuses a success value that does not occur in the NEW frame, and with the success value
       omitted it uses the smallest value of the NEW frame. *)
From Verif Require Import Base Tokens Lazy Algebra Coding Contrasts Frame Eval Design.
From Verif Require Import DesignStructure DesignCoding FrameStructure ResponseProofs HelpersProofs ResponseIndep.
From Verif Require Driver.
From Coq Require Import Lia Permutation.
Local Close Scope Qc_scope.
Local Close Scope Q_scope.
Local Open Scope string_scope.
Local Open Scope list_scope.
Local Open Scope nat_scope.

Definition col1 (xs : list cell) : list (list cell) := map (fun x => [x]) xs.

(* the prediction-time evaluation context *)
Definition pctx (cx : dctx) (data : frame) : ectx := ECtx data (d_extra cx) (d_sqrt cx) false.
Definition tctx (cx : dctx) (data : frame) : ectx := ECtx data (d_extra cx) (d_sqrt cx) true.

(* ------------------------------------------------------------------------------------------ *)
(** * Calls with one or two positional arguments, by name *)

Lemma eval_call1 cx st callee a :
  known_callee callee = true -> existsb (String.eqb callee) stateful_names = false ->
  eval_lazy cx st (LzCall callee [a] []) =
  do x <- eval_lazy cx st a;
  do v <- call_function cx callee [fst (fst x)] []; Ok (v, snd (fst x), snd x).
Proof.
  intros Hk Hs. rewrite eval_lazy_call, Hk, Hs. cbn [negb eval_args].
  destruct (eval_lazy cx st a) as [[[v st'] rec]|]; reflexivity.
Qed.

Lemma eval_call2 cx st callee a b :
  known_callee callee = true -> existsb (String.eqb callee) stateful_names = false ->
  eval_lazy cx st (LzCall callee [a; b] []) =
  do x <- eval_lazy cx st a;
  do y <- eval_lazy cx (snd (fst x)) b;
  do v <- call_function cx callee [fst (fst x); fst (fst y)] [];
  Ok (v, snd (fst y), snd x ++ snd y).
Proof.
  intros Hk Hs. rewrite eval_lazy_call, Hk, Hs. cbn [negb eval_args].
  destruct (eval_lazy cx st a) as [[[v st'] rec]|]; [|reflexivity]. cbn [bind fst snd app].
  destruct (eval_lazy cx st' b) as [[[w st''] rec']|]; reflexivity.
Qed.

(* a single-component term at prediction is its component *)
Lemma new_term_single cx mode data t d p :
  String.eqb (dt_kind t) "intercept" = false -> dt_comps t = [d] ->
  new_comp cx mode data d = Ok p -> new_term cx mode data t = Ok p.
Proof.
  intros Hk Hc Hp. unfold new_term. rewrite Hk, Hc. cbn [mapM]. rewrite Hp. cbn.
  destruct p as [rows b]. cbn. rewrite orb_false_r. reflexivity.
Qed.

(* ------------------------------------------------------------------------------------------ *)
(** * (a) offset at prediction *)

(** A constant offset: the constant, once per row of the NEW frame.  Nothing is evaluated. *)
Theorem offset_new_constant cx mode data d lz q xs :
  tc_src (dc_t d) = CCall lz -> tc_kind (dc_t d) = KOffset -> tc_value (dc_t d) = POffset (Some q) xs ->
  new_comp cx mode data d = Ok (repeat [Some q] (frame_rows data), false) /\
  List.length (repeat [Some q] (frame_rows data)) = frame_rows data.
Proof.
  intros Hs Hk Hv. unfold new_comp. rewrite Hs, Hk, Hv. split; [reflexivity|apply repeat_length].
Qed.

(** A variable offset: the call is evaluated again, on the new frame, and its cells are the
    column. *)
Theorem offset_new_variable cx mode data d lz xs0 xs st rec :
  tc_src (dc_t d) = CCall lz -> tc_kind (dc_t d) = KOffset -> tc_value (dc_t d) = POffset None xs0 ->
  eval_lazy (pctx cx data) (tc_state (dc_t d)) lz = Ok (POffset None xs, st, rec) ->
  new_comp cx mode data d = Ok (col1 xs, false).
Proof.
  intros Hs Hk Hv He. unfold new_comp. rewrite Hs, Hk, Hv. unfold pctx in He. rewrite He. reflexivity.
Qed.

Lemma offset_known : known_callee "offset" = true /\ existsb (String.eqb "offset") stateful_names = false.
Proof. split; reflexivity. Qed.

(* training: offset(a) where a evaluates to a series *)
Lemma offset_train cx train a i0 xs0 st0 rec0 spans n :
  eval_lazy (tctx cx train) [] a = Ok (PSeries i0 xs0, st0, rec0) ->
  exists t d,
    set_type_comp cx train false (CCall (LzCall "offset" [a] [])) = Ok t /\
    set_data_comp t spans n = Ok d /\ dc_t d = t /\
    tc_src t = CCall (LzCall "offset" [a] []) /\ tc_kind t = KOffset /\
    tc_value t = POffset None xs0 /\ tc_state t = rec0 /\
    dc_rows d = col1 xs0 /\ dc_labels d = Some [lazy_str (LzCall "offset" [a] [])].
Proof.
  intros He. unfold set_type_comp. fold (tctx cx train).
  rewrite (eval_call1 _ _ "offset" a (proj1 offset_known) (proj2 offset_known)), He.
  cbn [bind fst snd]. rewrite offset_series. cbn [bind fst snd].
  eexists. eexists. split; [reflexivity|]. split; [reflexivity|]. repeat split.
Qed.

(** [offset(a)], trained on one frame, evaluated on another: if [a] is a series on the training
    frame and on the new frame (its stateful transforms reading the parameters they memorised),
    the column at prediction is the value of [a] ON THE NEW FRAME. *)
Theorem offset_recomputed cx mode train new a i0 xs0 st0 rec0 i xs st rec spans n :
  eval_lazy (tctx cx train) [] a = Ok (PSeries i0 xs0, st0, rec0) ->
  eval_lazy (pctx cx new) rec0 a = Ok (PSeries i xs, st, rec) ->
  exists t d,
    set_type_comp cx train false (CCall (LzCall "offset" [a] [])) = Ok t /\
    set_data_comp t spans n = Ok d /\
    dc_rows d = col1 xs0 /\
    new_comp cx mode new d = Ok (col1 xs, false) /\
    tc_kind (dc_t d) = KOffset.
Proof.
  intros Ht Hn.
  destruct (offset_train cx train a i0 xs0 st0 rec0 spans n Ht)
    as (t & d & H1 & H2 & Hd & Hs & Hk & Hv & Hst & Hr & _).
  exists t, d. repeat split; try assumption; [|rewrite Hd; exact Hk].
  apply (offset_new_variable cx mode new d (LzCall "offset" [a] []) xs0 xs st rec); rewrite ?Hd; try assumption.
  rewrite Hst, (eval_call1 _ _ "offset" a (proj1 offset_known) (proj2 offset_known)), Hn.
  reflexivity.
Qed.

(** The instance of the task: offset(v) for a numeric column v.  Training column xs0, new column
    xs (any length): the offset column of the new-data matrix is xs. *)
Corollary offset_variable_recomputed cx mode train new v i0 xs0 i xs spans n :
  assoc v train = Some (ColNum i0 xs0) -> assoc v new = Some (ColNum i xs) ->
  exists t d,
    set_type_comp cx train false (CCall (LzCall "offset" [LzVar v] [])) = Ok t /\
    set_data_comp t spans n = Ok d /\
    dc_rows d = col1 xs0 /\
    new_comp cx mode new d = Ok (col1 xs, false) /\
    List.length (col1 xs) = List.length xs /\ tc_kind (dc_t d) = KOffset.
Proof.
  intros Ht Hn.
  destruct (offset_recomputed cx mode train new (LzVar v) i0 xs0 [] [] i xs [] [] spans n)
    as (t & d & H1 & H2 & H3 & H4 & H5).
  - cbn [eval_lazy]. unfold lookup_name. cbn [tctx e_data]. rewrite Ht. reflexivity.
  - cbn [eval_lazy]. unfold lookup_name. cbn [pctx e_data]. rewrite Hn. reflexivity.
  - exists t, d. repeat split; try assumption. unfold col1. apply map_length.
Qed.

(* the new frame must hold the variable (KeyError unless the namespace supplies it) and it must
   be numeric *)
Theorem offset_variable_missing cx mode train new v i0 xs0 spans n t d :
  assoc v train = Some (ColNum i0 xs0) ->
  set_type_comp cx train false (CCall (LzCall "offset" [LzVar v] [])) = Ok t ->
  set_data_comp t spans n = Ok d ->
  assoc v new = None -> assoc v (d_extra cx) = None ->
  builtin_value v = None -> known_callee v = false ->
  new_comp cx mode new d = Err EKey.
Proof.
  intros Ht H1 H2 Hn Hx Hb Hkn.
  destruct (offset_train cx train (LzVar v) i0 xs0 [] [] spans n) as (t' & d' & H1' & H2' & Hd & Hs & Hk & Hv & Hst & _).
  { cbn [eval_lazy]. unfold lookup_name. cbn [tctx e_data]. rewrite Ht. reflexivity. }
  rewrite H1 in H1'. injection H1' as <-. rewrite H2 in H2'. injection H2' as <-.
  unfold new_comp. rewrite Hd, Hs, Hk, Hv, Hst.
  rewrite (eval_call1 _ _ "offset" (LzVar v) (proj1 offset_known) (proj2 offset_known)).
  cbn [eval_lazy]. unfold lookup_name. cbn [e_data e_extra]. rewrite Hn, Hb.
  unfold known_callee in Hkn. rewrite Hkn, Hx. reflexivity.
Qed.

(** offset(literal number): the training column has [n] rows, the prediction column has the
    number of rows of the new frame. *)
Theorem offset_literal_broadcast cx mode train new z lx spans n :
  exists t d,
    set_type_comp cx train false (CCall (LzCall "offset" [LzVal (LInt z) lx] [])) = Ok t /\
    set_data_comp t spans n = Ok d /\
    dc_rows d = repeat [Some (qz z)] n /\
    new_comp cx mode new d = Ok (repeat [Some (qz z)] (frame_rows new), false).
Proof.
  eexists. eexists. split; [reflexivity|]. split; [reflexivity|]. split; reflexivity.
Qed.

(** The term level: a term that consists of the offset alone. *)
Theorem offset_term_recomputed cx mode train new v i0 xs0 i xs :
  assoc v train = Some (ColNum i0 xs0) -> assoc v new = Some (ColNum i xs) ->
  exists ty dt,
    set_type_term cx train false [CCall (LzCall "offset" [LzVar v] [])] = Ok ty /\
    set_data_term (frame_rows train) ty (SpBool false) = Ok dt /\
    dt_kind dt = "offset" /\ dt_rows dt = col1 xs0 /\
    new_term cx mode new dt = Ok (col1 xs, false).
Proof.
  intros Ht Hn.
  destruct (offset_variable_recomputed cx mode train new v i0 xs0 i xs false (frame_rows train) Ht Hn)
    as (t & d & H1 & H2 & H3 & H4 & _ & Hk).
  unfold set_type_term. cbn [mapM]. rewrite H1. cbn [bind].
  eexists. eexists. split; [reflexivity|]. unfold set_data_term. cbn [mapM spans_for]. rewrite H2. cbn [bind].
  split; [reflexivity|]. cbn [dt_kind dt_rows].
  split; [exact (f_equal kind_string Hk)|]. split; [exact H3|].
  apply (new_term_single _ _ _ _ d); [|reflexivity|exact H4].
  cbn [dt_kind]. exact (f_equal (fun k => String.eqb (kind_string k) "intercept") Hk).
Qed.

(* ------------------------------------------------------------------------------------------ *)
(** * (b) prop at prediction: the trials of the new frame *)

(** constant number of trials: broadcast to the rows of the new frame *)
Theorem prop_new_constant cx mode data d lz ss ts q :
  tc_src (dc_t d) = CCall lz -> tc_kind (dc_t d) = KProportion ->
  tc_value (dc_t d) = PProp ss ts (Some q) ->
  new_comp cx mode data d = Ok (repeat [Some q] (frame_rows data), false).
Proof. intros Hs Hk Hv. unfold new_comp. rewrite Hs, Hk, Hv. reflexivity. Qed.

(** variable trials: the column named by the second argument, read from the new frame; the
    first argument (the successes) is not looked at, and nothing is validated *)
Theorem prop_new_variable cx mode data d callee a name kw ss ts i xs :
  tc_src (dc_t d) = CCall (LzCall callee [a; LzVar name] kw) -> tc_kind (dc_t d) = KProportion ->
  tc_value (dc_t d) = PProp ss ts None ->
  assoc name data = Some (ColNum i xs) ->
  new_comp cx mode data d = Ok (col1 xs, false).
Proof. intros Hs Hk Hv Ha. unfold new_comp. rewrite Hs, Hk, Hv, Ha. reflexivity. Qed.

Theorem prop_new_missing cx mode data d callee a name kw ss ts :
  tc_src (dc_t d) = CCall (LzCall callee [a; LzVar name] kw) -> tc_kind (dc_t d) = KProportion ->
  tc_value (dc_t d) = PProp ss ts None ->
  assoc name data = None ->
  new_comp cx mode data d = Err EKey.
Proof. intros Hs Hk Hv Ha. unfold new_comp. rewrite Hs, Hk, Hv, Ha. reflexivity. Qed.

Lemma prop_known name :
  In name ["p"; "prop"; "proportion"] ->
  known_callee name = true /\ existsb (String.eqb name) stateful_names = false.
Proof. intros [<-|[<-|[<-|[]]]]; split; reflexivity. Qed.

(** End to end.  The response  prop(y, n)  (or p / proportion) of a formula is trained on a frame
    with complete integer columns y <= n; the response term is then evaluated on a new frame by
    [new_term].  The result is the one column of the trials n of the NEW frame; the new frame need
    not contain y at all. *)
Theorem prop_response_new_data cx mode train new callee y n i j ss ts sl tl k xs :
  In callee ["p"; "prop"; "proportion"] ->
  assoc y train = Some (ColNum i ss) -> assoc n train = Some (ColNum j ts) ->
  all_some ss = Some sl -> all_some ts = Some tl -> prop_ok sl tl = true ->
  assoc n new = Some (ColNum k xs) ->
  exists dt,
    eval_response cx train [CCall (LzCall callee [LzVar y; LzVar n] [])] (frame_rows train) = Ok dt /\
    dt_kind dt = "proportion" /\
    dt_rows dt = zip_with (fun a b => [a; b]) ss ts /\
    new_term cx mode new dt = Ok (col1 xs, false).
Proof.
  intros Hc Hy Hn Hs Ht Hok Hnew. destruct (prop_known callee Hc) as [K1 K2].
  unfold eval_response, set_type_term. cbn [mapM set_type_comp].
  rewrite (eval_call2 _ _ callee (LzVar y) (LzVar n) K1 K2).
  cbn [eval_lazy]. unfold lookup_name. cbn [e_data]. rewrite Hy. cbn [bind fst snd col_value]. rewrite Hn.
  cbn [bind fst snd col_value].
  rewrite (prop_spec _ callee i j ss ts sl tl Hc Hs Ht), Hok. cbn [bind fst snd app].
  unfold set_data_term. cbn [mapM spans_for set_data_comp tc_kind tc_response negb tc_value bind].
  eexists. split; [reflexivity|]. split; [reflexivity|]. split; [reflexivity|].
  eapply new_term_single; [reflexivity|reflexivity|].
  apply (prop_new_variable cx mode new _ callee (LzVar y) n [] ss ts k xs); try reflexivity. exact Hnew.
Qed.

(** ... with a constant number of trials: that constant, once per row of the new frame. *)
Theorem prop_response_new_data_constant cx mode train new callee y z lx i ss sl :
  In callee ["p"; "prop"; "proportion"] ->
  assoc y train = Some (ColNum i ss) ->
  all_some ss = Some sl -> prop_ok sl (repeat (qz z) (List.length ss)) = true ->
  exists dt,
    eval_response cx train [CCall (LzCall callee [LzVar y; LzVal (LInt z) lx] [])] (frame_rows train) = Ok dt /\
    dt_rows dt = zip_with (fun a b => [a; b]) ss (repeat (Some (qz z)) (List.length ss)) /\
    new_term cx mode new dt = Ok (repeat [Some (qz z)] (frame_rows new), false).
Proof.
  intros Hc Hy Hs Hok. destruct (prop_known callee Hc) as [K1 K2].
  unfold eval_response, set_type_term. cbn [mapM set_type_comp].
  rewrite (eval_call2 _ _ callee (LzVar y) (LzVal (LInt z) lx) K1 K2).
  cbn [eval_lazy]. unfold lookup_name. cbn [e_data]. rewrite Hy. cbn [bind fst snd col_value lit_value].
  rewrite (prop_constant_trials _ callee i ss sl (qz z) Hc Hs), Hok. cbn [bind fst snd app].
  unfold set_data_term. cbn [mapM spans_for set_data_comp tc_kind tc_response negb tc_value bind].
  eexists. split; [reflexivity|]. split; [reflexivity|].
  eapply new_term_single; [reflexivity|reflexivity|].
  apply (prop_new_constant cx mode new _ (LzCall callee [LzVar y; LzVal (LInt z) lx] []) ss
                           (repeat (Some (qz z)) (List.length ss)) (qz z)); reflexivity.
Qed.

(** ** a proportion is never a predictor of a design that was built *)

Definition no_prop (d : dcomp) : Prop := tc_kind (dc_t d) <> KProportion.
Definition dterm_no_prop (t : dterm) : Prop := Forall no_prop (dt_comps t).
Definition dgterm_no_prop (g : dgterm) : Prop := dterm_no_prop (dg_expr g) /\ Forall no_prop (dg_factor g).

Lemma set_data_comp_t t s n d : set_data_comp t s n = Ok d -> dc_t d = t.
Proof.
  unfold set_data_comp. intros H.
  repeat match type of H with
         | (if ?c then _ else _) = Ok _ => destruct c
         | match ?x with _ => _ end = Ok _ => destruct x eqn:?
         | bind _ _ = Ok _ => let a := fresh "a" in let Ha := fresh "Ha" in apply bind_ok in H as (a & Ha & H)
         end; try discriminate; injection H as <-; reflexivity.
Qed.

Lemma set_data_comp_no_prop t s n d :
  tc_response t = false -> set_data_comp t s n = Ok d -> no_prop d.
Proof.
  intros Hr H. unfold no_prop. rewrite (set_data_comp_t _ _ _ _ H). intros Hk.
  unfold set_data_comp in H. rewrite Hk, Hr in H. discriminate H.
Qed.

Lemma set_type_comp_response cx data r c t : set_type_comp cx data r c = Ok t -> tc_response t = r.
Proof.
  destruct c as [[n|v] lvl|lz]; cbn [set_type_comp]; intros H.
  - destruct (assoc n data); [injection H as <-; reflexivity|discriminate].
  - discriminate.
  - apply bind_ok in H as (x & _ & H). apply bind_ok in H as (k & _ & H). injection H as <-. reflexivity.
Qed.

Definition tterm_noresp (t : tterm) : Prop :=
  match t with TTIntercept => True | TTTerm _ cs => Forall (fun c => tc_response c = false) cs end.

Lemma mapM_Forall {A B} (f : A -> res B) (P : B -> Prop) l ys :
  (forall x y, In x l -> f x = Ok y -> P y) -> mapM f l = Ok ys -> Forall P ys.
Proof.
  intros HP H. apply mapM_ok in H. induction H as [|x y l ys Hxy _ IH]; constructor.
  - apply (HP x y); [left; reflexivity|exact Hxy].
  - apply IH. intros x' y' Hin. apply HP. right. exact Hin.
Qed.

Lemma set_type_term_noresp cx data t ty : set_type_term cx data false t = Ok ty -> tterm_noresp ty.
Proof.
  unfold set_type_term. intros H. apply bind_ok in H as (cs & Hcs & H). injection H as <-. cbn.
  eapply mapM_Forall; [|exact Hcs]. intros c tc _ Hc. exact (set_type_comp_response _ _ _ _ _ Hc).
Qed.

Lemma type_common_noresp cx data c ty : type_common cx data c = Ok ty -> tterm_noresp ty.
Proof.
  destruct c as [| |t]; cbn; intros H; try discriminate; [injection H as <-; exact I|].
  exact (set_type_term_noresp _ _ _ _ H).
Qed.

Lemma Forall_filter' {T} (P : T -> Prop) f l : Forall P l -> Forall P (filter f l).
Proof. rewrite !Forall_forall. intros H x Hx. apply filter_In in Hx as [Hx _]. auto. Qed.

Lemma add_extra_terms_noresp cx data enc ts : forall ts',
  Forall tterm_noresp ts -> add_extra_terms cx data enc ts = Ok ts' -> Forall tterm_noresp ts'.
Proof.
  induction ts as [|t ts IH]; intros ts' Ht H; cbn [add_extra_terms] in H.
  - injection H as <-. constructor.
  - inversion Ht as [|? ? Ht0 Hts]; subst.
    apply bind_ok in H as (r' & Hr & H). specialize (IH r' Hts Hr).
    assert (Hplain : Forall tterm_noresp (t :: r')) by (constructor; assumption).
    destruct (dict_get (tterm_name t) enc) as [[|s1 [|s2 more]]|]; try (injection H as <-; exact Hplain).
    apply bind_ok in H as (ex & Hex & H). injection H as <-.
    apply Forall_app. split; [|exact Hplain].
    eapply mapM_Forall; [|exact Hex]. intros sub e _ He. unfold extra_term in He.
    destruct t as [|nm cs]; [discriminate|]. injection He as <-. cbn in Ht0 |- *.
    apply Forall_app. split; apply Forall_filter'; exact Ht0.
Qed.

Lemma set_data_term_no_prop n t s dt :
  tterm_noresp t -> set_data_term n t s = Ok dt -> dterm_no_prop dt.
Proof.
  destruct t as [|nm cs]; cbn [set_data_term tterm_noresp]; intros Hr H.
  - injection H as <-. constructor.
  - apply bind_ok in H as (ds & Hds & H).
    assert (Hall : Forall no_prop ds).
    { eapply mapM_Forall; [|exact Hds]. intros c d Hin Hd. rewrite Forall_forall in Hr.
      exact (set_data_comp_no_prop _ _ _ _ (Hr c Hin) Hd). }
    destruct ds as [|d [|d' rest]]; [discriminate|injection H as <-; exact Hall|].
    apply bind_ok in H as (labs & _ & H). destruct (existsb _ labs); [discriminate|].
    injection H as <-. exact Hall.
Qed.

Lemma set_type_gterm_noresp cx data g tg :
  set_type_gterm cx data g = Ok tg ->
  tterm_noresp (tg_expr tg) /\ Forall (fun c => tc_kind c = KCategoric) (tg_factor tg).
Proof.
  unfold set_type_gterm. destruct (gfactor g) as [| |f]; try discriminate. intros H.
  apply bind_ok in H as (fs & _ & H). apply bind_ok in H as (e & He & H).
  apply bind_ok in H as (nm & _ & H). injection H as <-. cbn [tg_expr tg_factor]. split.
  - destruct (gexpr g) as [| |t]; [injection He as <-; exact I|discriminate|].
    exact (set_type_term_noresp _ _ _ _ He).
  - apply Forall_map. apply Forall_forall. intros c _. reflexivity.
Qed.

Lemma set_data_gterm_no_prop n tg spans dg :
  tterm_noresp (tg_expr tg) -> Forall (fun c => tc_kind c = KCategoric) (tg_factor tg) ->
  set_data_gterm n tg spans = Ok dg -> dgterm_no_prop dg.
Proof.
  intros He Hf H. unfold set_data_gterm in H.
  apply bind_ok in H as (e & Hee & H). apply bind_ok in H as (fs & Hfs & H).
  apply bind_ok in H as (glabs & _ & H). apply bind_ok in H as (flabs & _ & H).
  apply bind_ok in H as (levels & _ & H). injection H as <-. split; cbn [dg_expr dg_factor].
  - exact (set_data_term_no_prop _ _ _ _ He Hee).
  - eapply mapM_Forall; [|exact Hfs]. intros c d Hin Hd. unfold no_prop.
    rewrite (set_data_comp_t _ _ _ _ Hd). rewrite Forall_forall in Hf. rewrite (Hf c Hin). discriminate.
Qed.

Lemma dict_set_Forall' {V} (P : V -> Prop) k v (d : list (string * V)) :
  P v -> Forall (fun kv => P (snd kv)) d -> Forall (fun kv => P (snd kv)) (dict_set k v d).
Proof.
  intros Hv. induction 1 as [|[k' v'] d Hx Hd IH]; simpl; [constructor; [assumption|constructor]|].
  destruct (String.eqb k k'); constructor; simpl; auto.
Qed.

Lemma fold_dict_set_Forall' {V} (P : V -> Prop) (key : V -> string) l : forall acc,
  Forall P l -> Forall (fun kv => P (snd kv)) acc ->
  Forall (fun kv => P (snd kv)) (fold_left (fun acc t => dict_set (key t) t acc) l acc).
Proof.
  induction l as [|x l IH]; intros acc Hl Ha; simpl; [assumption|].
  inversion Hl; subst. apply IH; [assumption|]. apply dict_set_Forall'; assumption.
Qed.

(** No component of a common or group-specific term of a built design is a proportion: the
    proportion branch of [new_comp] is out of the reach of [new_common] and [new_group]. *)
Theorem proportion_never_predictor cx data m D :
  eval_model cx data m = Ok D ->
  Forall dterm_no_prop (ds_common D) /\ Forall dgterm_no_prop (ds_group D).
Proof.
  intros H. apply eval_model_predictors in H as [H _]. unfold eval_predictors in H.
  apply bind_ok in H as (tcs & Htcs & H). apply bind_ok in H as (tgs & Htgs & H).
  apply bind_ok in H as (enc1 & _ & H). apply bind_ok in H as (tcs2 & Htcs2 & H).
  apply bind_ok in H as (enc2 & _ & H). apply bind_ok in H as (dcs & Hdcs & H).
  apply bind_ok in H as (dgs & Hdgs & H). injection H as Hc Hg. rewrite <- Hc, <- Hg.
  assert (T1 : Forall tterm_noresp tcs).
  { eapply mapM_Forall; [|exact Htcs]. intros c ty _ Hty. exact (type_common_noresp _ _ _ _ Hty). }
  pose proof (add_extra_terms_noresp _ _ _ _ _ T1 Htcs2) as T2.
  assert (Dc : Forall dterm_no_prop dcs).
  { eapply mapM_Forall; [|exact Hdcs]. intros t dt Hin Hdt. apply bind_ok in Hdt as (s & _ & Hdt).
    rewrite Forall_forall in T2. exact (set_data_term_no_prop _ _ _ _ (T2 t Hin) Hdt). }
  assert (Dg : Forall dgterm_no_prop dgs).
  { eapply mapM_Forall; [|exact Hdgs]. intros [tg g] dg Hin Hdg. cbn [fst snd] in Hdg.
    apply in_combine_l in Hin. apply mapM_ok in Htgs.
    assert (X : tterm_noresp (tg_expr tg) /\ Forall (fun c => tc_kind c = KCategoric) (tg_factor tg)).
    { clear -Htgs Hin. induction Htgs as [|g0 tg0 gs tgs0 H0 _ IH]; [destruct Hin|].
      destruct Hin as [<-|Hin]; [exact (set_type_gterm_noresp _ _ _ _ H0)|exact (IH Hin)]. }
    exact (set_data_gterm_no_prop _ _ _ _ (proj1 X) (proj2 X) Hdg). }
  split; apply Forall_map.
  - apply (fold_dict_set_Forall' dterm_no_prop dt_name); [exact Dc|constructor].
  - apply (fold_dict_set_Forall' dgterm_no_prop dg_name); [exact Dg|constructor].
Qed.

(* ------------------------------------------------------------------------------------------ *)
(** * (c) binary: what HelpersProofs does not have *)

(** numbers: a success value that never occurs is refused (strings: [binary_spec_str_miss]) *)
Corollary binary_spec_num_miss cx i (vs : list Qc) isq q :
  ~ In q vs -> call_function cx "binary" [PSeries i (map Some vs); PNumber isq q] [] = Err EValue.
Proof.
  intros H. rewrite binary_spec_num_complete.
  destruct (existsb (fun x => Qc_eq_bool x q) vs) eqn:E; [|reflexivity].
  apply existsb_exists in E as (x & Hin & Hx). apply Qc_eq_bool_correct in Hx. subst. contradiction.
Qed.

Corollary binary_spec_num_hit cx i (vs : list Qc) isq q :
  In q vs ->
  call_function cx "binary" [PSeries i (map Some vs); PNumber isq q] []
  = Ok (PSeries true (map (fun x => bit (Qc_eq_bool x q)) vs)).
Proof.
  intros H. rewrite binary_spec_num_complete.
  replace (existsb (fun x => Qc_eq_bool x q) vs) with true; [reflexivity|].
  symmetry. apply existsb_exists. exists q. split; [assumption|]. unfold Qc_eq_bool.
  destruct (Qc_eq_dec q q); [reflexivity|congruence].
Qed.

(** numbers: the default success value is the smallest value of the series *)
Lemma qc_leb_le a b : qc_leb a b = true <-> (a <= b)%Qc.
Proof.
  unfold qc_leb, Qcle, Qccompare. rewrite Qle_alt.
  destruct (this a ?= this b)%Q; split; intros H; try reflexivity; try discriminate; congruence.
Qed.

Lemma qc_leb_total a b : qc_leb a b = true \/ qc_leb b a = true.
Proof.
  rewrite !qc_leb_le. unfold Qcle. destruct (Qlt_le_dec (this a) (this b)) as [H|H]; [left|right; exact H].
  apply Qlt_le_weak. exact H.
Qed.

Lemma qc_leb_trans a b c : qc_leb a b = true -> qc_leb b c = true -> qc_leb a c = true.
Proof. rewrite !qc_leb_le. apply Qcle_trans. Qed.

Lemma nodup_by_In_conv_qc l (y : Qc) : In y l -> In y (nodup_by Qc_eq_bool l).
Proof.
  induction l as [|x l IH]; simpl; [tauto|]. intros [<-|H].
  - destruct (existsb (Qc_eq_bool x) l) eqn:E; [|left; reflexivity].
    apply IH. apply existsb_exists in E as (z & Hz & Hxz). apply Qc_eq_bool_correct in Hxz. subst. assumption.
  - destruct (existsb (Qc_eq_bool x) l); [|right]; auto.
Qed.

Theorem binary_default_num_smallest l s rest :
  sorted_unique_qc l = s :: rest -> In s l /\ forall y, In y l -> qc_leb s y = true.
Proof.
  intros E. unfold sorted_unique_qc in E. split.
  - eapply nodup_by_In. eapply Permutation_in; [apply isort_perm|]. rewrite E. left; reflexivity.
  - intros y Hy. eapply (isort_head_min qc_leb qc_leb_total qc_leb_trans); [exact E|].
    apply nodup_by_In_conv_qc. exact Hy.
Qed.

(* ... and then the call does not fail *)
Corollary binary_default_num_ok cx i (vs : list Qc) s rest :
  sorted_unique_qc vs = s :: rest ->
  call_function cx "binary" [PSeries i (map Some vs)] []
  = Ok (PSeries true (map (fun x => bit (Qc_eq_bool x s)) vs)).
Proof.
  intros E. rewrite (binary_default_num cx i _ vs (all_some_map_Some vs)), E.
  apply binary_spec_num_hit. exact (proj1 (binary_default_num_smallest _ _ _ E)).
Qed.

(** ** binary in a design, and at prediction *)

Lemma binary_known : known_callee "binary" = true /\ existsb (String.eqb "binary") stateful_names = false.
Proof. split; reflexivity. Qed.

(** training: the component binary(x, "s") is numeric, one column, 1 exactly where x = s; a
    success value that does not occur in the training frame makes the design fail *)
Theorem binary_design cx train x s lx o xs spans n :
  assoc x train = Some (ColStr o xs) ->
  let c := CCall (LzCall "binary" [LzVar x; LzVal (LStr s) lx] []) in
  if existsb (str_hit s) xs then
    exists t d, set_type_comp cx train false c = Ok t /\ set_data_comp t spans n = Ok d /\
                tc_kind t = KNumeric /\ tc_state t = [] /\ dc_t d = t /\ tc_src t = c /\
                dc_rows d = col1 (map (fun v => bit (str_hit s v)) xs) /\
                dc_labels d = Some [comp_name c]
  else set_type_comp cx train false c = Err EValue.
Proof.
  intros Hx c. unfold c, set_type_comp.
  rewrite (eval_call2 _ _ "binary" _ _ (proj1 binary_known) (proj2 binary_known)).
  cbn [eval_lazy]. unfold lookup_name. cbn [e_data]. rewrite Hx. cbn [bind fst snd col_value lit_value].
  rewrite binary_spec_str. destruct (existsb (str_hit s) xs); [|reflexivity].
  cbn [bind fst snd app]. eexists. eexists. split; [reflexivity|]. split; [reflexivity|].
  repeat split.
Qed.

(** prediction: binary is not stateful -- the call is evaluated again on the new frame.  The
    column is 1 exactly where the NEW x equals s, and a success value that does not occur in the
    NEW frame is refused, whatever the training frame held. *)
Theorem binary_new_data cx mode new d x s lx o xs :
  tc_src (dc_t d) = CCall (LzCall "binary" [LzVar x; LzVal (LStr s) lx] []) ->
  tc_kind (dc_t d) = KNumeric ->
  assoc x new = Some (ColStr o xs) ->
  new_comp cx mode new d =
  if existsb (str_hit s) xs then Ok (col1 (map (fun v => bit (str_hit s v)) xs), false) else Err EValue.
Proof.
  intros Hs Hk Hx. unfold new_comp. rewrite Hs, Hk.
  rewrite (eval_call2 _ _ "binary" _ _ (proj1 binary_known) (proj2 binary_known)).
  cbn [eval_lazy]. unfold lookup_name. cbn [e_data]. rewrite Hx. cbn [bind fst snd col_value lit_value].
  rewrite binary_spec_str. destruct (existsb (str_hit s) xs); reflexivity.
Qed.

Corollary binary_new_data_refuses cx mode new d x s lx o vs :
  tc_src (dc_t d) = CCall (LzCall "binary" [LzVar x; LzVal (LStr s) lx] []) ->
  tc_kind (dc_t d) = KNumeric ->
  assoc x new = Some (ColStr o (map Some vs)) -> ~ In s vs ->
  new_comp cx mode new d = Err EValue.
Proof.
  intros Hs Hk Hx Hni. rewrite (binary_new_data cx mode new d x s lx o _ Hs Hk Hx).
  rewrite existsb_map. destruct (existsb _ vs) eqn:E; [|reflexivity].
  apply existsb_exists in E as (v & Hin & Hv). cbn in Hv. apply String.eqb_eq in Hv. subst. contradiction.
Qed.

(** success omitted: at prediction the success value is the smallest value of the NEW frame (not
    the value used in training) *)
Theorem binary_default_new_data cx mode new d x o xs :
  tc_src (dc_t d) = CCall (LzCall "binary" [LzVar x] []) ->
  tc_kind (dc_t d) = KNumeric ->
  assoc x new = Some (ColStr o xs) ->
  new_comp cx mode new d =
  match sorted_unique_str (present xs) with
  | s :: _ => Ok (col1 (map (fun v => bit (str_hit s v)) xs), false)
  | [] => Err EIndex
  end.
Proof.
  intros Hs Hk Hx. unfold new_comp. rewrite Hs, Hk.
  rewrite (eval_call1 _ _ "binary" _ (proj1 binary_known) (proj2 binary_known)).
  cbn [eval_lazy]. unfold lookup_name. cbn [e_data]. rewrite Hx. cbn [bind fst snd col_value].
  destruct (sorted_unique_str (present xs)) as [|s rest] eqn:E.
  - rewrite binary_default_str, E. reflexivity.
  - rewrite (binary_default_str_ok _ o xs s rest E). reflexivity.
Qed.

(* the same value of x is coded 0 in training and 1 at prediction *)
Example binary_default_shifts :
  let cx := DCtx [] (fun q => q) in
  let train := [("x", ColStr None [Some "a"; Some "b"])] in
  let new := [("x", ColStr None [Some "b"; Some "c"])] in
  exists t d,
    set_type_comp cx train false (CCall (LzCall "binary" [LzVar "x"] [])) = Ok t /\
    set_data_comp t false 2 = Ok d /\
    dc_rows d = [[bit true]; [bit false]] /\
    new_comp cx UError new d = Ok ([[bit true]; [bit false]], false).
Proof. eexists. eexists. split; [reflexivity|]. split; [reflexivity|]. split; reflexivity. Qed.

(* an explicit success value present in training, absent from the new frame *)
Example binary_refuses_new :
  let cx := DCtx [] (fun q => q) in
  let train := [("x", ColStr None [Some "a"; Some "b"])] in
  let new := [("x", ColStr None [Some "b"; Some "c"])] in
  exists t d,
    set_type_comp cx train false (CCall (LzCall "binary" [LzVar "x"; LzVal (LStr "a") None] [])) = Ok t /\
    set_data_comp t false 2 = Ok d /\
    new_comp cx UError new d = Err EValue.
Proof. eexists. eexists. split; [reflexivity|]. split; reflexivity. Qed.

(* ------------------------------------------------------------------------------------------ *)
(** * End to end on [design_matrices] / [new_common] *)

Module HelpersPredictionExamples.
  Definition qq (z : Z) : cell := Some (qz z).
  Definition cx0 : dctx := DCtx [] (fun q => q).
  Definition gete (s : string) : expr :=
    match Driver.parse_string s with Ok e => e | Err _ => ELiteral LNone None end.
  Definition train : frame :=
    [("y", ColNum true [qq 1; qq 2; qq 3]); ("x", ColNum true [qq 4; qq 5; qq 6]);
     ("v", ColNum true [qq 7; qq 8; qq 9]); ("n", ColNum true [qq 5; qq 5; qq 5])].
  (* five rows, other values; no y *)
  Definition new : frame :=
    [("x", ColNum true [qq 1; qq 0; qq 1; qq 0; qq 2]); ("v", ColNum true [qq 10; qq 20; qq 30; qq 40; qq 50]);
     ("n", ColNum true [qq 6; qq 7; qq 8; qq 9; qq 10])].
  Definition show (r : res newres) : list (list string) :=
    match r with Ok x => map (map cshow) (nr_rows x) | Err _ => [] end.

  (* offset(v): the last column is v of the new frame *)
  Example offset_variable_end_to_end :
    exists D, design_matrices cx0 (gete "y ~ x + offset(v)") train NaDrop = Ok D /\
      show (new_common cx0 UError D new)
      = [["1"; "1"; "10"]; ["1"; "0"; "20"]; ["1"; "1"; "30"]; ["1"; "0"; "40"]; ["1"; "2"; "50"]].
  Proof. eexists. split; [vm_compute; reflexivity|]. vm_compute. reflexivity. Qed.

  (* offset(2): the constant, on five rows *)
  Example offset_constant_end_to_end :
    exists D, design_matrices cx0 (gete "y ~ x + offset(2)") train NaDrop = Ok D /\
      map (map cshow) (flat_map dt_rows (filter (fun t => String.eqb (dt_kind t) "offset") (ds_common D)))
      = [["2"]; ["2"]; ["2"]] /\
      show (new_common cx0 UError D new)
      = [["1"; "1"; "2"]; ["1"; "0"; "2"]; ["1"; "1"; "2"]; ["1"; "0"; "2"]; ["1"; "2"; "2"]].
  Proof. eexists. split; [vm_compute; reflexivity|]. split; [vm_compute; reflexivity|]. vm_compute. reflexivity. Qed.

  (* prop(y, n) ~ x: the response term of the design, on the new frame, is the trials column *)
  Example prop_end_to_end :
    exists D rt, design_matrices cx0 (gete "prop(y, n) ~ x") train NaDrop = Ok D /\
      ds_response D = Some rt /\
      map (map cshow) (dt_rows rt) = [["1"; "5"]; ["2"; "5"]; ["3"; "5"]] /\
      match new_term cx0 UError new rt with
      | Ok p => map (map cshow) (fst p) | Err _ => [] end = [["6"]; ["7"]; ["8"]; ["9"]; ["10"]].
  Proof.
    eexists. eexists. split; [vm_compute; reflexivity|]. split; [reflexivity|].
    split; [vm_compute; reflexivity|]. vm_compute. reflexivity.
  Qed.
End HelpersPredictionExamples.

Print Assumptions offset_new_constant.
Print Assumptions offset_new_variable.
Print Assumptions offset_recomputed.
Print Assumptions offset_variable_recomputed.
Print Assumptions offset_variable_missing.
Print Assumptions offset_literal_broadcast.
Print Assumptions offset_term_recomputed.
Print Assumptions prop_new_constant.
Print Assumptions prop_new_variable.
Print Assumptions prop_response_new_data.
Print Assumptions prop_response_new_data_constant.
Print Assumptions proportion_never_predictor.
Print Assumptions binary_spec_num_miss.
Print Assumptions binary_default_num_smallest.
Print Assumptions binary_default_num_ok.
Print Assumptions binary_design.
Print Assumptions binary_new_data.
Print Assumptions binary_new_data_refuses.
Print Assumptions binary_default_new_data.
Print Assumptions HelpersPredictionExamples.offset_variable_end_to_end.
Print Assumptions HelpersPredictionExamples.prop_end_to_end.
