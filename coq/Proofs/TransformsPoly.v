(* Contracts of the polynomial transform (Model/Poly.v). *)
From Coq Require Import List QArith Qcanon ZArith Lia Bool.
From Verif Require Import Base Transforms Poly TransformsLemmas.
Import ListNotations.
Local Open Scope Qc_scope.
Local Notation length := List.length (only parsing).

(* ------------------------------------------------------------------ *)
(* 5a. raw=True: the columns are exactly the powers x^1 .. x^degree *)
Theorem poly_raw_powers ksqrt degree p xs :
  degree <> 0%nat ->
  poly_eval ksqrt true degree p xs = Ok (map (fun x => map (fun k => x ^ k) (seq 1 degree)) xs).
Proof.
  intros Hd. unfold poly_eval. destruct (Nat.eqb_spec degree 0); [contradiction|]. reflexivity.
Qed.

Corollary poly_raw_entry ksqrt degree p xs m i j :
  poly_eval ksqrt true degree p xs = Ok m ->
  (i < length xs)%nat -> (j < degree)%nat ->
  nth j (nth i m []) 0 = nth i xs 0 ^ (S j).
Proof.
  intros H Hi Hj. rewrite poly_raw_powers in H by lia. injection H as <-.
  rewrite (nth_indep _ [] (map (fun k => 0 ^ k) (seq 1 degree))) by (rewrite map_length; exact Hi).
  rewrite (map_nth (fun x => map (fun k => x ^ k) (seq 1 degree)) xs 0 i).
  rewrite (nth_indep _ 0 (nth i xs 0 ^ 0)) by (rewrite map_length, seq_length; exact Hj).
  rewrite (map_nth (fun k => nth i xs 0 ^ k) (seq 1 degree) 0%nat j).
  rewrite seq_nth by exact Hj. reflexivity.
Qed.

Theorem poly_raw_degree0 ksqrt p xs : poly_eval ksqrt true 0 p xs = Err EValue.
Proof. reflexivity. Qed.

(* ------------------------------------------------------------------ *)
(* specification of the orthogonal polynomials of the data xs as functions *)
Definition ip (xs : list Qc) (p q : Qc -> Qc) : Qc := qsum (map (fun x => p x * q x) xs).

Definition xnorm (xs : list Qc) (p : Qc -> Qc) : Qc := qsum (map (fun x => x * (p x * p x)) xs).

(* (P_(i-1), P_i), with P_(-1) = 0 *)
Fixpoint ppair (xs : list Qc) (i : nat) : (Qc -> Qc) * (Qc -> Qc) :=
  match i with
  | O => (fun _ => 0, fun _ => 1)
  | S i' =>
      let pp := fst (ppair xs i') in
      let pc := snd (ppair xs i') in
      let a := xnorm xs pc / ip xs pc pc in
      let b := ip xs pc pc / ip xs pp pp in
      (pc, fun x => (x - a) * pc x - b * pp x)
  end.

Definition P (xs : list Qc) (i : nat) : Qc -> Qc := snd (ppair xs i).
Definition Pm1 (xs : list Qc) (i : nat) : Qc -> Qc := fst (ppair xs i).
Definition n2 (xs : list Qc) (i : nat) : Qc := ip xs (P xs i) (P xs i).
Definition alpha (xs : list Qc) (i : nat) : Qc := xnorm xs (P xs i) / n2 xs i.
Definition bet (xs : list Qc) (i : nat) : Qc := n2 xs i / ip xs (Pm1 xs i) (Pm1 xs i).

Lemma P_0 xs x : P xs 0 x = 1.
Proof. reflexivity. Qed.

Lemma Pm1_0 xs x : Pm1 xs 0 x = 0.
Proof. reflexivity. Qed.

Lemma Pm1_S xs i : Pm1 xs (S i) = P xs i.
Proof. reflexivity. Qed.

Lemma P_S xs i x : P xs (S i) x = (x - alpha xs i) * P xs i x - bet xs i * Pm1 xs i x.
Proof. reflexivity. Qed.

Lemma bet_S xs i : bet xs (S i) = n2 xs (S i) / n2 xs i.
Proof. reflexivity. Qed.

(* ------------------------------------------------------------------ *)
(* the model computes exactly these parameters and values *)
Definition pts_of (xs : list Qc) (i : nat) : list (Qc * Qc * Qc) :=
  map (fun x => (x, Pm1 xs i x, P xs i x)) xs.

Definition nprev_of (xs : list Qc) (i : nat) : Qc :=
  match i with O => 1 | S i' => n2 xs i' end.

Lemma poly_next_spec xs i x :
  poly_next (i =? 0)%nat (alpha xs i) (n2 xs i / nprev_of xs i) x (Pm1 xs i x) (P xs i x)
  = P xs (S i) x.
Proof.
  rewrite P_S. destruct i as [|i]; cbn [Nat.eqb poly_next nprev_of].
  - rewrite Pm1_0. ring.
  - rewrite bet_S. reflexivity.
Qed.

Lemma poly_fit_loop_spec xs steps : forall i,
  poly_fit_loop steps (i =? 0)%nat (nprev_of xs i) (pts_of xs i)
  = (map (alpha xs) (seq i steps), map (n2 xs) (seq i (S steps))).
Proof.
  induction steps as [|s IH]; intros i.
  - cbn [poly_fit_loop seq map]. unfold pts_of. rewrite map_map. reflexivity.
  - cbn [poly_fit_loop].
    assert (Hn : qsum (map (fun p : Qc * Qc * Qc => snd p * snd p) (pts_of xs i)) = n2 xs i).
    { unfold pts_of. rewrite map_map. reflexivity. }
    assert (Ha : qsum (map (fun p : Qc * Qc * Qc => fst (fst p) * (snd p * snd p)) (pts_of xs i))
                 / n2 xs i = alpha xs i).
    { unfold pts_of. rewrite map_map. reflexivity. }
    rewrite Hn, Ha.
    assert (Hp : map (fun p : Qc * Qc * Qc =>
                        (fst (fst p), snd p,
                         poly_next (i =? 0)%nat (alpha xs i) (n2 xs i / nprev_of xs i)
                                   (fst (fst p)) (snd (fst p)) (snd p))) (pts_of xs i)
                 = pts_of xs (S i)).
    { unfold pts_of. rewrite map_map. apply map_ext. intros x. cbn [fst snd].
      rewrite poly_next_spec. reflexivity. }
    rewrite Hp. specialize (IH (S i)). cbn [Nat.eqb nprev_of] in IH. rewrite IH.
    cbn [fst snd]. reflexivity.
Qed.

Theorem poly_fit_spec xs d :
  poly_alpha (poly_fit xs d) = map (alpha xs) (seq 0 d) /\
  poly_norms2 (poly_fit xs d) = map (n2 xs) (seq 0 (S d)).
Proof.
  unfold poly_fit. cbn [poly_alpha poly_norms2].
  pose proof (poly_fit_loop_spec xs d 0) as H. cbn [Nat.eqb nprev_of] in H.
  unfold pts_of in H. cbn beta in H.
  rewrite (map_ext _ (fun x => (x, 0, 1))) in H by reflexivity.
  rewrite H. split; reflexivity.
Qed.

Lemma poly_point_loop_spec xs x steps : forall i extra,
  poly_point_loop (map (alpha xs) (seq i steps)) (map (n2 xs) (seq i steps) ++ extra)
                  (i =? 0)%nat (nprev_of xs i) (Pm1 xs i x) (P xs i x) x
  = map (fun j => P xs j x) (seq (S i) steps).
Proof.
  induction steps as [|s IH]; intros i extra.
  - reflexivity.
  - cbn [seq map app poly_point_loop]. rewrite poly_next_spec. f_equal.
    specialize (IH (S i) extra). cbn [Nat.eqb nprev_of] in IH. rewrite Pm1_S in IH. exact IH.
Qed.

Lemma combine_map_map {A B C} (f : A -> B) (g : A -> C) l :
  combine (map f l) (map g l) = map (fun a => (f a, g a)) l.
Proof. induction l as [|a l IH]; cbn; [reflexivity|]. rewrite IH. reflexivity. Qed.

(* unnormalised and normalised rows on ANY data, with the parameters fitted on xs *)
Theorem poly_point_spec xs d y :
  poly_point (poly_fit xs d) y = map (fun j => P xs j y) (seq 1 d).
Proof.
  unfold poly_point. destruct (poly_fit_spec xs d) as [Ha Hn]. rewrite Ha, Hn.
  replace (seq 0 (S d)) with (seq 0 d ++ [d]) by (rewrite <- seq_S; reflexivity).
  rewrite map_app. apply (poly_point_loop_spec xs y d 0).
Qed.

Theorem poly_row_spec ksqrt xs d y :
  poly_row ksqrt (poly_fit xs d) y = map (fun j => P xs j y / ksqrt (n2 xs j)) (seq 1 d).
Proof.
  unfold poly_row. rewrite poly_point_spec. destruct (poly_fit_spec xs d) as [_ Hn]. rewrite Hn.
  cbn [seq map tl]. rewrite combine_map_map, map_map. reflexivity.
Qed.

(* later data are transformed with the polynomials and norms of the FIRST data *)
Theorem poly_apply_spec ksqrt xs d ys :
  poly_apply ksqrt (poly_fit xs d) ys
  = map (fun y => map (fun j => P xs j y / ksqrt (n2 xs j)) (seq 1 d)) ys.
Proof. unfold poly_apply. apply map_ext. intros y. apply poly_row_spec. Qed.

(* ------------------------------------------------------------------ *)
(* inner product algebra *)
Lemma ip_sym xs p q : ip xs p q = ip xs q p.
Proof. unfold ip. apply qsum_map_ext. intros; ring. Qed.

Lemma ip_zero_l xs q : ip xs (fun _ => 0) q = 0.
Proof. unfold ip. apply qsum_map_zero. intros; ring. Qed.

Lemma ip_shift xs p q : ip xs (fun x => x * p x) q = ip xs p (fun x => x * q x).
Proof. unfold ip. apply qsum_map_ext. intros; ring. Qed.

Lemma ip_rec_r xs p q r a b :
  ip xs p (fun x => (x - a) * q x - b * r x)
  = ip xs p (fun x => x * q x) - a * ip xs p q - b * ip xs p r.
Proof.
  unfold ip.
  rewrite <- (qsum_map_scale a (fun x => p x * q x)), <- (qsum_map_scale b (fun x => p x * r x)).
  rewrite <- (qsum_map_sub (fun x => p x * (x * q x))), <- qsum_map_sub.
  apply qsum_map_ext. intros; ring.
Qed.

Lemma ip_rec_l xs p q r a b s :
  ip xs (fun x => p x + a * q x + b * r x) s = ip xs p s + a * ip xs q s + b * ip xs r s.
Proof.
  unfold ip.
  rewrite <- (qsum_map_scale a (fun x => q x * s x)), <- (qsum_map_scale b (fun x => r x * s x)).
  rewrite <- (qsum_map_add (fun x => p x * s x)), <- qsum_map_add.
  apply qsum_map_ext. intros; ring.
Qed.

Lemma ip_ext xs p p' q q' :
  (forall x, p x = p' x) -> (forall x, q x = q' x) -> ip xs p q = ip xs p' q'.
Proof. intros Hp Hq. unfold ip. apply qsum_map_ext. intros x _. rewrite Hp, Hq. reflexivity. Qed.

Lemma ip_xP xs i : ip xs (P xs i) (fun x => x * P xs i x) = xnorm xs (P xs i).
Proof. unfold ip, xnorm. apply qsum_map_ext. intros; ring. Qed.

(* x * P_j = P_(j+1) + alpha_j P_j + bet_j P_(j-1) *)
Lemma xP_expand xs j x :
  x * P xs j x = P xs (S j) x + alpha xs j * P xs j x + bet xs j * Pm1 xs j x.
Proof. rewrite P_S. ring. Qed.

Definition orth_upto (xs : list Qc) (d : nat) : Prop :=
  forall j k, (j <= d)%nat -> (k <= d)%nat -> j <> k -> ip xs (P xs j) (P xs k) = 0.

Lemma ip_Pm1 xs d j :
  orth_upto xs d -> (j <= d)%nat -> (S j <> d) ->
  ip xs (P xs j) (Pm1 xs d) = 0.
Proof.
  intros Ho Hj Hne. destruct d as [|d'].
  - rewrite ip_sym. apply ip_zero_l.
  - rewrite Pm1_S. apply Ho; lia.
Qed.

Lemma orth_step xs d :
  (forall m, (m <= d)%nat -> n2 xs m <> 0) ->
  orth_upto xs d ->
  forall j, (j <= d)%nat -> ip xs (P xs j) (P xs (S d)) = 0.
Proof.
  intros Hn Ho j Hj.
  rewrite (ip_ext xs (P xs j) (P xs j) (P xs (S d))
             (fun x => (x - alpha xs d) * P xs d x - bet xs d * Pm1 xs d x))
    by (intros; reflexivity).
  rewrite ip_rec_r.
  destruct (Nat.eq_dec j d) as [->|Hjd].
  - (* j = d *)
    rewrite ip_xP. fold (n2 xs d).
    assert (H0 : ip xs (P xs d) (Pm1 xs d) = 0).
    { destruct d as [|d']; [rewrite ip_sym; apply ip_zero_l|].
      rewrite Pm1_S. apply Ho; lia. }
    rewrite H0. unfold alpha. field. apply Hn. lia.
  - (* j < d *)
    destruct d as [|d']; [lia|].
    assert (Hjd0 : ip xs (P xs j) (P xs (S d')) = 0) by (apply Ho; lia).
    rewrite Hjd0, Pm1_S, <- ip_shift.
    rewrite (ip_ext xs (fun x => x * P xs j x)
               (fun x => P xs (S j) x + alpha xs j * P xs j x + bet xs j * Pm1 xs j x)
               (P xs (S d')) (P xs (S d'))) by (intros; try apply xP_expand; reflexivity).
    rewrite ip_rec_l, Hjd0.
    assert (Hm1 : ip xs (Pm1 xs j) (P xs (S d')) = 0).
    { destruct j as [|j']; [apply ip_zero_l|]. rewrite Pm1_S. apply Ho; lia. }
    rewrite Hm1.
    destruct (Nat.eq_dec j d') as [->|Hjd'].
    + (* j = d - 1 *)
      fold (n2 xs (S d')). fold (n2 xs d'). rewrite bet_S. field. apply Hn. lia.
    + assert (H1 : ip xs (P xs (S j)) (P xs (S d')) = 0) by (apply Ho; lia).
      assert (H2 : ip xs (P xs j) (P xs d') = 0) by (apply Ho; lia).
      rewrite H1, H2. ring.
Qed.

(* 5b. pairwise orthogonality of P_0 .. P_d provided norms2[0..d-1] are non-zero *)
Theorem poly_orthogonal_spec xs d :
  (forall m, (m < d)%nat -> n2 xs m <> 0) -> orth_upto xs d.
Proof.
  induction d as [|d IH]; intros Hn.
  - intros j k Hj Hk Hne. lia.
  - assert (Ho : orth_upto xs d) by (apply IH; intros m Hm; apply Hn; lia).
    assert (Hs := orth_step xs d (fun m Hm => Hn m ltac:(lia)) Ho).
    intros j k Hj Hk Hne.
    destruct (Nat.eq_dec k (S d)) as [->|Hk'].
    + apply Hs. lia.
    + destruct (Nat.eq_dec j (S d)) as [->|Hj'].
      * rewrite ip_sym. apply Hs. lia.
      * apply Ho; lia.
Qed.

(* ------------------------------------------------------------------ *)
(* the same facts on the matrices returned by the model *)
Definition coldot (M : list (list Qc)) (j k : nat) : Qc :=
  qsum (map (fun row => nth j row 0 * nth k row 0) M).
Definition colsum (M : list (list Qc)) (j : nat) : Qc :=
  qsum (map (fun row => nth j row 0) M).

Lemma nth_map_seq (f : nat -> Qc) a d j : (j < d)%nat -> nth j (map f (seq a d)) 0 = f (a + j)%nat.
Proof.
  intros Hj. rewrite (nth_indep _ 0 (f 0%nat)) by (rewrite map_length, seq_length; exact Hj).
  rewrite map_nth, seq_nth by exact Hj. reflexivity.
Qed.

Lemma poly_norms2_nth xs d m :
  (m <= d)%nat -> nth m (poly_norms2 (poly_fit xs d)) 0 = n2 xs m.
Proof.
  intros Hm. destruct (poly_fit_spec xs d) as [_ Hn]. rewrite Hn, nth_map_seq by lia. reflexivity.
Qed.

Lemma poly_alpha_nth xs d m :
  (m < d)%nat -> nth m (poly_alpha (poly_fit xs d)) 0 = alpha xs m.
Proof.
  intros Hm. destruct (poly_fit_spec xs d) as [Ha _]. rewrite Ha, nth_map_seq by lia. reflexivity.
Qed.

(* the memoised parameters are those of the docstring *)
Theorem poly_params_spec xs d :
  let p := poly_fit xs d in
  let col k := map (fun row => nth k row 0) (map (fun x => 1 :: poly_point p x) xs) in (* P_k *)
  length (poly_alpha p) = d /\ length (poly_norms2 p) = S d /\
  forall k, (k <= d)%nat ->
    nth k (poly_norms2 p) 0 = qsum (map (fun v => v * v) (col k)) /\
    ((k < d)%nat ->
     nth k (poly_alpha p) 0 * nth k (poly_norms2 p) 0
     = qsum (map (fun xv => fst xv * (snd xv * snd xv)) (combine xs (col k))) \/
     nth k (poly_norms2 p) 0 = 0).
Proof.
  cbn zeta. destruct (poly_fit_spec xs d) as [Ha Hn].
  split; [rewrite Ha, map_length, seq_length; reflexivity|].
  split; [rewrite Hn, map_length, seq_length; reflexivity|].
  intros k Hk.
  assert (Hcol : map (fun row => nth k row 0) (map (fun x => 1 :: poly_point (poly_fit xs d) x) xs)
                 = map (P xs k) xs).
  { rewrite map_map. apply map_ext. intros x. rewrite poly_point_spec.
    destruct k as [|k]; [reflexivity|]. cbn [nth]. rewrite nth_map_seq by lia. reflexivity. }
  rewrite Hcol, poly_norms2_nth by exact Hk. split.
  - unfold n2, ip. rewrite map_map. reflexivity.
  - intros Hk'. rewrite poly_alpha_nth by exact Hk'.
    destruct (Qc_eq_dec (n2 xs k) 0) as [H0|H0]; [right; exact H0|left].
    unfold alpha. replace (xnorm xs (P xs k) / n2 xs k * n2 xs k) with (xnorm xs (P xs k))
      by (field; exact H0).
    unfold xnorm. rewrite <- (map_id xs) at 2. rewrite combine_map_map, map_map.
    reflexivity.
Qed.

(* 5b (model form). unnormalised columns P_1..P_d of the first call are pairwise orthogonal and
   orthogonal to the constant column, provided norms2[0..d-1] <> 0 *)
Theorem poly_orthogonal xs d :
  let p := poly_fit xs d in
  (forall m, (m < d)%nat -> nth m (poly_norms2 p) 0 <> 0) ->
  let M := map (poly_point p) xs in
  forall j k, (j < d)%nat -> (k < d)%nat ->
    (j <> k -> coldot M j k = 0) /\ colsum M j = 0.
Proof.
  cbn zeta. intros Hn j k Hj Hk.
  assert (Ho : orth_upto xs d).
  { apply poly_orthogonal_spec. intros m Hm. rewrite <- poly_norms2_nth with (d := d) by lia.
    apply Hn. exact Hm. }
  split.
  - intros Hne. unfold coldot. rewrite map_map.
    rewrite (qsum_map_ext _ (fun x => P xs (S j) x * P xs (S k) x)).
    + apply Ho; lia.
    + intros x _. rewrite poly_point_spec, !nth_map_seq by assumption. reflexivity.
  - unfold colsum. rewrite map_map.
    rewrite (qsum_map_ext _ (fun x => P xs 0 x * P xs (S j) x)).
    + apply Ho; lia.
    + intros x _. rewrite poly_point_spec, nth_map_seq, P_0 by assumption. cbn [plus]. ring.
Qed.

(* 5c. normalised output of the first call: orthonormal columns, orthogonal to the constant *)
Theorem poly_orthonormal ksqrt xs d :
  let p := poly_fit xs d in
  (forall m, (m <= d)%nat -> nth m (poly_norms2 p) 0 <> 0) ->
  (forall m, (1 <= m)%nat -> (m <= d)%nat ->
     let v := nth m (poly_norms2 p) 0 in ksqrt v * ksqrt v = v) ->
  let M := poly_apply ksqrt p xs in
  forall j k, (j < d)%nat -> (k < d)%nat ->
    coldot M j k = (if (j =? k)%nat then 1 else 0) /\ colsum M j = 0.
Proof.
  cbn zeta. intros Hn Hs j k Hj Hk.
  assert (Ho : orth_upto xs d).
  { apply poly_orthogonal_spec. intros m Hm. rewrite <- poly_norms2_nth with (d := d) by lia.
    apply Hn. lia. }
  assert (Hn' : forall m, (m <= d)%nat -> n2 xs m <> 0).
  { intros m Hm. rewrite <- poly_norms2_nth with (d := d) by lia. apply Hn. exact Hm. }
  assert (Hs' : forall m, (1 <= m)%nat -> (m <= d)%nat -> ksqrt (n2 xs m) * ksqrt (n2 xs m) = n2 xs m).
  { intros m H1 Hm. specialize (Hs m H1 Hm). cbn zeta in Hs.
    rewrite poly_norms2_nth in Hs by lia. exact Hs. }
  assert (Hsq : forall m, (1 <= m)%nat -> (m <= d)%nat -> ksqrt (n2 xs m) <> 0).
  { intros m H1 Hm H0. apply (Hn' m Hm). rewrite <- Hs' by assumption. rewrite H0. ring. }
  rewrite poly_apply_spec. split.
  - unfold coldot. rewrite map_map.
    rewrite (qsum_map_ext _ (fun x => / (ksqrt (n2 xs (S j)) * ksqrt (n2 xs (S k))) *
                                      (P xs (S j) x * P xs (S k) x))).
    2:{ intros x _. rewrite !nth_map_seq by assumption. cbn [plus].
        field. split; apply Hsq; lia. }
    rewrite qsum_map_scale. fold (ip xs (P xs (S j)) (P xs (S k))).
    destruct (Nat.eqb_spec j k) as [->|Hne].
    + fold (n2 xs (S k)). rewrite Hs' by lia. field. apply Hn'. lia.
    + rewrite Ho by lia. ring.
  - unfold colsum. rewrite map_map.
    rewrite (qsum_map_ext _ (fun x => / ksqrt (n2 xs (S j)) * (P xs 0 x * P xs (S j) x))).
    2:{ intros x _. rewrite nth_map_seq, P_0 by assumption. cbn [plus]. field. apply Hsq; lia. }
    rewrite qsum_map_scale. fold (ip xs (P xs 0) (P xs (S j))). rewrite Ho by lia. ring.
Qed.

(* ------------------------------------------------------------------ *)
(* at least d+1 distinct abscissae  ==>  norms2[0..d] are all non-zero.
   P_m is a monic polynomial of degree m (Horner form, highest coefficient first); a monic
   polynomial of degree m has at most m distinct roots; norms2[m] = 0 would make every abscissa
   a root of P_m. *)
Definition horner (a : Qc) (cs : list Qc) (x : Qc) : Qc :=
  fold_left (fun acc c => acc * x + c) cs a.

Lemma horner_snoc a cs c x : horner a (cs ++ [c]) x = horner a cs x * x + c.
Proof. unfold horner. rewrite fold_left_app. reflexivity. Qed.

Lemma horner_cons a c cs x : horner a (c :: cs) x = horner (a * x + c) cs x.
Proof. reflexivity. Qed.

Lemma horner_add x : forall cs ds a b, length cs = length ds ->
  horner (a + b) (map (fun p => fst p + snd p) (combine cs ds)) x = horner a cs x + horner b ds x.
Proof.
  induction cs as [|c cs IH]; intros [|d ds] a b Hl; try discriminate Hl.
  - reflexivity.
  - cbn [combine map fst snd]. rewrite !horner_cons.
    replace ((a + b) * x + (c + d)) with ((a * x + c) + (b * x + d)) by ring.
    apply IH. injection Hl as Hl. exact Hl.
Qed.

Lemma horner_scale k x : forall cs a,
  horner (k * a) (map (Qcmult k) cs) x = k * horner a cs x.
Proof.
  induction cs as [|c cs IH]; intros a.
  - reflexivity.
  - cbn [map]. rewrite !horner_cons. replace (k * a * x + k * c) with (k * (a * x + c)) by ring.
    apply IH.
Qed.

(* f is a polynomial function of degree <= m whose coefficient of x^m is a *)
Definition pl (m : nat) (a : Qc) (f : Qc -> Qc) : Prop :=
  exists cs, length cs = m /\ forall x, f x = horner a cs x.

Lemma pl_ext m a b f g : pl m a f -> a = b -> (forall x, g x = f x) -> pl m b g.
Proof. intros (cs & Hl & Hf) <- Hg. exists cs. split; [exact Hl|]. intros x. rewrite Hg. apply Hf. Qed.

Lemma pl_lift m a f : pl m a f -> pl (S m) 0 f.
Proof.
  intros (cs & Hl & Hf). exists (a :: cs). split; [cbn; lia|]. intros x.
  rewrite horner_cons. replace (0 * x + a) with a by ring. apply Hf.
Qed.

Lemma pl_add m a b f g : pl m a f -> pl m b g -> pl m (a + b) (fun x => f x + g x).
Proof.
  intros (cs & Hl & Hf) (ds & Hl' & Hg).
  exists (map (fun p => fst p + snd p) (combine cs ds)). split.
  - rewrite map_length, combine_length. lia.
  - intros x. rewrite horner_add by lia. rewrite Hf, Hg. reflexivity.
Qed.

Lemma pl_scale m k a f : pl m a f -> pl m (k * a) (fun x => k * f x).
Proof.
  intros (cs & Hl & Hf). exists (map (Qcmult k) cs). split; [rewrite map_length; exact Hl|].
  intros x. rewrite horner_scale, Hf. reflexivity.
Qed.

Lemma pl_mulx m a f : pl m a f -> pl (S m) a (fun x => x * f x).
Proof.
  intros (cs & Hl & Hf). exists (cs ++ [0]). split; [rewrite app_length; cbn; lia|].
  intros x. rewrite horner_snoc, Hf. ring.
Qed.

Lemma P_monic xs i : pl i 1 (P xs i) /\ pl i 0 (Pm1 xs i).
Proof.
  induction i as [|i [IH1 IH2]].
  - split; exists []; split; reflexivity.
  - split.
    + eapply pl_ext.
      * apply pl_add; [apply pl_mulx; exact IH1|].
        eapply pl_lift. apply pl_add; [apply (pl_scale i (- alpha xs i)); exact IH1|].
        apply (pl_scale i (- bet xs i)); exact IH2.
      * ring.
      * intros x. rewrite P_S. ring.
    + rewrite Pm1_S. eapply pl_lift. exact IH1.
Qed.

Lemma horner_factor r : forall cs c,
  exists qs, length qs = length cs /\
    forall x, horner 1 (cs ++ [c]) x = (x - r) * horner 1 qs x + horner 1 (cs ++ [c]) r.
Proof.
  induction cs as [|c0 cs0 IH] using rev_ind; intros c.
  - exists []. split; [reflexivity|]. intros x. unfold horner. cbn [app fold_left]. ring.
  - destruct (IH c0) as (qs0 & Hl & Hq).
    exists (qs0 ++ [horner 1 (cs0 ++ [c0]) r]). split.
    + rewrite !app_length. cbn. lia.
    + intros x. rewrite (horner_snoc 1 (cs0 ++ [c0]) c x), (horner_snoc 1 (cs0 ++ [c0]) c r).
      rewrite (horner_snoc 1 qs0 _ x), (Hq x). ring.
Qed.

Lemma root_bound : forall m cs, length cs = m ->
  forall roots, NoDup roots -> (forall r, In r roots -> horner 1 cs r = 0) ->
  (length roots <= m)%nat.
Proof.
  induction m as [|m IH]; intros cs Hl roots Hnd Hr.
  - destruct cs; [|discriminate]. destruct roots as [|r rs]; [cbn; lia|].
    exfalso. specialize (Hr r (or_introl eq_refl)). cbn in Hr. apply Q_apart_0_1. exact Hr.
  - destruct roots as [|r rs]; [cbn; lia|]. cbn [length]. apply le_n_S.
    destruct (exists_last (l := cs)) as (cs' & c & ->); [intros ->; discriminate|].
    rewrite app_length in Hl. cbn in Hl.
    destruct (horner_factor r cs' c) as (qs & Hlq & Hq).
    inversion Hnd as [|? ? Hnotin Hnd']; subst.
    apply (IH qs); [lia | exact Hnd' |].
    intros r' Hr'. pose proof (Hr r' (or_intror Hr')) as H0.
    rewrite Hq, (Hr r (or_introl eq_refl)) in H0.
    assert (Hne : r' - r <> 0).
    { intros E. apply Hnotin. replace r with r'; [exact Hr'|].
      transitivity (r' - r + r); [|rewrite E]; ring. }
    apply (Qcmult_integral_l _ _ Hne). rewrite <- H0. ring.
Qed.

Lemma sq_nonneg (a : Qc) : 0 <= a * a.
Proof.
  destruct (Qclt_le_dec a 0) as [H|H].
  - replace (a * a) with ((- a) * (- a)) by ring.
    assert (H' : 0 <= - a).
    { replace 0 with (- 0) by ring. apply Qcopp_le_compat, Qclt_le_weak, H. }
    apply Qcmult_nonneg; exact H'.
  - apply Qcmult_nonneg; exact H.
Qed.

Lemma qsum_sq_zero {A} (f : A -> Qc) l :
  qsum (map (fun x => f x * f x) l) = 0 -> forall x, In x l -> f x = 0.
Proof.
  induction l as [|a l IH]; intros H x Hx; [contradiction|].
  cbn [map] in H. rewrite qsum_cons in H.
  assert (Hrest : 0 <= qsum (map (fun x => f x * f x) l)).
  { apply qsum_nonneg. apply Forall_forall. intros v Hv. apply in_map_iff in Hv.
    destruct Hv as (y & <- & _). apply sq_nonneg. }
  assert (Ha : f a * f a = 0).
  { apply Qcle_antisym; [|apply sq_nonneg].
    replace (f a * f a) with (0 - qsum (map (fun x => f x * f x) l)) by (rewrite <- H; ring).
    apply (proj2 (Qcle_0_sub _ _)).
    replace (0 - (0 - qsum (map (fun x0 => f x0 * f x0) l)))
      with (qsum (map (fun x0 => f x0 * f x0) l)) by ring.
    exact Hrest. }
  destruct Hx as [<-|Hx].
  - destruct (Qcmult_integral _ _ Ha); assumption.
  - apply IH; [|exact Hx]. rewrite Ha in H. rewrite <- H. ring.
Qed.

Theorem poly_norms_nonzero xs d :
  (d < length (nodup Qc_eq_dec xs))%nat ->
  forall m, (m <= d)%nat -> n2 xs m <> 0.
Proof.
  intros Hd m Hm H0.
  destruct (P_monic xs m) as [(cs & Hl & Hf) _].
  assert (Hb := root_bound m cs Hl (nodup Qc_eq_dec xs) (NoDup_nodup _ _)).
  assert (Hroots : forall r, In r (nodup Qc_eq_dec xs) -> horner 1 cs r = 0).
  { intros r Hr. apply nodup_In in Hr. rewrite <- Hf.
    apply (qsum_sq_zero (P xs m) xs); [exact H0 | exact Hr]. }
  specialize (Hb Hroots). lia.
Qed.

(* 5b/5c with the hypothesis on the data only *)
Theorem poly_orthonormal_distinct ksqrt xs d :
  (d < length (nodup Qc_eq_dec xs))%nat ->
  let p := poly_fit xs d in
  (forall m, (1 <= m)%nat -> (m <= d)%nat ->
     let v := nth m (poly_norms2 p) 0 in ksqrt v * ksqrt v = v) ->
  (forall m, (m <= d)%nat -> nth m (poly_norms2 p) 0 <> 0) /\
  (let M := map (poly_point p) xs in
   forall j k, (j < d)%nat -> (k < d)%nat -> (j <> k -> coldot M j k = 0) /\ colsum M j = 0) /\
  (let M := poly_apply ksqrt p xs in
   forall j k, (j < d)%nat -> (k < d)%nat ->
     coldot M j k = (if (j =? k)%nat then 1 else 0) /\ colsum M j = 0).
Proof.
  intros Hd p Hs.
  assert (Hn : forall m, (m <= d)%nat -> nth m (poly_norms2 p) 0 <> 0).
  { intros m Hm. unfold p. rewrite poly_norms2_nth by exact Hm.
    apply poly_norms_nonzero with (d := d); assumption. }
  split; [exact Hn|]. split.
  - apply poly_orthogonal. intros m Hm. apply Hn. lia.
  - apply poly_orthonormal; assumption.
Qed.

(* ------------------------------------------------------------------ *)
(* non-vacuity on concrete data *)
Definition qq (n : Z) (d : positive) : Qc := Q2Qc (Qmake n d).

Example poly_raw_powers_ex :
  poly_eval (fun _ => 0) true 3 (poly_fit [qq 1 1; qq 2 1; qq (-3) 2] 3) [qq 2 1; qq (-3) 2]
  = Ok [[qq 2 1; qq 4 1; qq 8 1]; [qq (-3) 2; qq 9 4; qq (-27) 8]].
Proof. rewrite poly_raw_powers by discriminate. f_equal; qc_decide. Qed.

(* x = [1,2,3,5], degree 3: the parameters numpy computes (2.75, 3.392857.., 2.584415..;
   4, 8.75, 12.571428.., 5.236363..) and unnormalised orthogonality *)
Definition ex_xs : list Qc := [qq 1 1; qq 2 1; qq 3 1; qq 5 1].

Example poly_fit_ex :
  poly_alpha (poly_fit ex_xs 3) = [qq 11 4; qq 95 28; qq 199 77] /\
  poly_norms2 (poly_fit ex_xs 3) = [qq 4 1; qq 35 4; qq 88 7; qq 288 55] /\
  map (poly_point (poly_fit ex_xs 3)) ex_xs =
    [[qq (-7) 4; qq 2 1; qq (-36) 55]; [qq (-3) 4; qq (-8) 7; qq 96 55];
     [qq 1 4; qq (-16) 7; qq (-72) 55]; [qq 9 4; qq 10 7; qq 12 55]] /\
  (* later data [4, 0] evaluated with the SAME parameters *)
  map (poly_point (poly_fit ex_xs 3)) [qq 4 1; qq 0 1] =
    [[qq 5 4; qq (-10) 7; qq (-42) 11]; [qq (-11) 4; qq 50 7; qq (-798) 55]].
Proof. repeat split; qc_decide. Qed.

Example poly_orthogonal_ex :
  let M := map (poly_point (poly_fit ex_xs 3)) ex_xs in
  coldot M 0 1 = 0 /\ coldot M 0 2 = 0 /\ coldot M 1 2 = 0 /\
  colsum M 0 = 0 /\ colsum M 1 = 0 /\ colsum M 2 = 0.
Proof.
  cbn zeta.
  assert (Hd : (3 < length (nodup Qc_eq_dec ex_xs))%nat) by (vm_compute; lia).
  assert (H := poly_orthogonal ex_xs 3). cbn zeta in H.
  assert (Hn : forall m, (m < 3)%nat -> nth m (poly_norms2 (poly_fit ex_xs 3)) 0 <> 0).
  { intros m Hm. rewrite poly_norms2_nth by lia. apply poly_norms_nonzero with (d := 3%nat); [exact Hd | lia]. }
  specialize (H Hn).
  assert (H' : forall j k, (j < 3)%nat -> (k < 3)%nat -> j <> k ->
             coldot (map (poly_point (poly_fit ex_xs 3)) ex_xs) j k = 0)
    by (intros j k Hj Hk; apply (proj1 (H j k Hj Hk))).
  assert (H'' : forall j, (j < 3)%nat -> colsum (map (poly_point (poly_fit ex_xs 3)) ex_xs) j = 0)
    by (intros j Hj; apply (proj2 (H j j Hj Hj))).
  split; [apply H'; lia|]. split; [apply H'; lia|]. split; [apply H'; lia|].
  split; [apply H''; lia|]. split; apply H''; lia.
Qed.

(* data whose norms2 are perfect squares (48, 36, 9), so that an exact rational square root exists
   for the columns: x = -1 (18 times), 0 (12 times), 1 (18 times); degree 2 *)
Definition ex_sq : list Qc := repeat (qq (-1) 1) 18 ++ repeat (qq 0 1) 12 ++ repeat (qq 1 1) 18.
Definition ex_ksqrt (v : Qc) : Qc :=
  if qeqb v (qq 36 1) then qq 6 1 else if qeqb v (qq 9 1) then qq 3 1 else 0.

Example poly_orthonormal_ex :
  poly_norms2 (poly_fit ex_sq 2) = [qq 48 1; qq 36 1; qq 9 1] /\
  let M := poly_apply ex_ksqrt (poly_fit ex_sq 2) ex_sq in
  nth 0 M [] = [qq (-1) 6; qq 1 12] /\ nth 20 M [] = [qq 0 1; qq (-1) 4] /\
  coldot M 0 0 = 1 /\ coldot M 1 1 = 1 /\ coldot M 0 1 = 0 /\ colsum M 0 = 0 /\ colsum M 1 = 0 /\
  (* later data: same affine-polynomial map, e.g. x = 2 |-> (2/6, (4 - 3/4)/3) *)
  poly_apply ex_ksqrt (poly_fit ex_sq 2) [qq 2 1] = [[qq 1 3; qq 13 12]].
Proof.
  split; [qc_decide|]. cbn zeta.
  assert (Hd : (2 < length (nodup Qc_eq_dec ex_sq))%nat) by (vm_compute; lia).
  destruct (poly_orthonormal_distinct ex_ksqrt ex_sq 2 Hd) as (_ & _ & H).
  { intros m H1 H2. cbn zeta.
    assert (Hm : m = 1%nat \/ m = 2%nat) by lia. destruct Hm as [-> | ->]; qc_decide. }
  cbn zeta in H.
  split; [qc_decide|]. split; [qc_decide|].
  assert (H00 := H 0%nat 0%nat ltac:(lia) ltac:(lia)).
  assert (H11 := H 1%nat 1%nat ltac:(lia) ltac:(lia)).
  assert (H01 := H 0%nat 1%nat ltac:(lia) ltac:(lia)).
  cbn [Nat.eqb] in H00, H11, H01.
  split; [exact (proj1 H00)|]. split; [exact (proj1 H11)|]. split; [exact (proj1 H01)|].
  split; [exact (proj2 H00)|]. split; [exact (proj2 H11)|]. qc_decide.
Qed.

Print Assumptions poly_raw_powers.
Print Assumptions poly_fit_spec.
Print Assumptions poly_apply_spec.
Print Assumptions poly_params_spec.
Print Assumptions poly_orthogonal_spec.
Print Assumptions poly_orthogonal.
Print Assumptions poly_orthonormal.
Print Assumptions poly_norms_nonzero.
Print Assumptions poly_orthonormal_distinct.
Print Assumptions poly_orthonormal_ex.
