(* Identity of CALL atoms (property C02): a call  f(x, a=1, b=2)  is compared by callee, positional
   arguments in order, and keyword arguments as a dictionary.  The model's equality [lazy_eqb]
   (Model/Lazy.v) is insensitive to the ORDER in which the keywords were written, at any depth,
   and so are [comp_eqb], [term_eqb] and every operator of the term algebra (Model/Algebra.v);
   the spelling that survives is the one written first. *)
From Verif Require Import Base Tokens Scanner Parser Lazy Algebra Wilkinson CompEq ListSet AlgebraRefines.
From Coq Require Import Lia Permutation.
Local Open Scope list_scope.

(* ================================================================== *)
(** * 1. [lazy_eqb] is an equivalence on well-formed calls *)

(* well-formed: every keyword dictionary (here and inside the arguments) has distinct keys *)
Definition call_ok (c : string) (args : list lazy) (kw : list (string * lazy)) : Prop :=
  lazy_ok (LzCall c args kw).

Lemma call_ok_iff : forall c args kw,
  call_ok c args kw <->
  Forall lazy_ok args /\ NoDup (map fst kw) /\ Forall (fun kv => lazy_ok (snd kv)) kw.
Proof. intros. apply lazy_ok_call. Qed.

Theorem call_eqb_refl : forall c args kw,
  call_ok c args kw -> lazy_eqb (LzCall c args kw) (LzCall c args kw) = true.
Proof. intros. apply lazy_eqb_refl. assumption. Qed.

Theorem call_eqb_sym : forall c args kw c' args' kw',
  call_ok c args kw -> call_ok c' args' kw' ->
  lazy_eqb (LzCall c args kw) (LzCall c' args' kw') = true ->
  lazy_eqb (LzCall c' args' kw') (LzCall c args kw) = true.
Proof. intros. apply lazy_eqb_sym; assumption. Qed.

(* transitivity needs no hypothesis at all *)
Theorem call_eqb_trans : forall c args kw c' args' kw' c'' args'' kw'',
  lazy_eqb (LzCall c args kw) (LzCall c' args' kw') = true ->
  lazy_eqb (LzCall c' args' kw') (LzCall c'' args'' kw'') = true ->
  lazy_eqb (LzCall c args kw) (LzCall c'' args'' kw'') = true.
Proof. intros. eapply lazy_eqb_trans; eassumption. Qed.

Theorem lazy_eqb_equivalence : eqv lazy_eqb lazy_ok.
Proof.
  split.
  - exact lazy_eqb_refl.
  - exact lazy_eqb_sym.
  - intros x y z _ _ _. apply lazy_eqb_trans.
Qed.

(* the hypothesis "keyword names pairwise distinct" is needed for reflexivity and symmetry *)
Local Open Scope string_scope.
Local Open Scope list_scope.
Definition one := LzVal (LInt 1) None.
Definition two := LzVal (LInt 2) None.

Theorem call_eqb_refl_refuted_without_distinct_keys :
  exists c args kw, lazy_eqb (LzCall c args kw) (LzCall c args kw) = false.
Proof. exists "f", [], [("a", one); ("a", two)]. vm_compute. reflexivity. Qed.

Theorem call_eqb_sym_refuted_without_distinct_keys :
  exists c args kw kw',
    NoDup (map fst kw') /\
    lazy_eqb (LzCall c args kw) (LzCall c args kw') = true /\
    lazy_eqb (LzCall c args kw') (LzCall c args kw) = false.
Proof.
  exists "f", [], [("a", one); ("a", one)], [("a", one); ("b", two)].
  split; [|split; vm_compute; reflexivity].
  cbn. constructor; [|constructor; [intros []|constructor]].
  intros [H|[]]. discriminate.
Qed.

(* what the resolver does with a repeated keyword.  Python's own grammar rejects  f(a=1, a=2);
   the library has its own parser and its resolver does  kwargs[name] = value: the text is ACCEPTED,
   the last value wins at the position of the first.  Hence every resolved call is well formed. *)
Theorem resolved_call_ok : forall e c args kw,
  call_resolve e = Ok (LzCall c args kw) -> call_ok c args kw.
Proof. intros e c args kw H. exact (proj1 (call_resolve_ok' e) _ H). Qed.

Corollary resolved_call_distinct_keys : forall e c args kw,
  call_resolve e = Ok (LzCall c args kw) -> NoDup (map fst kw).
Proof. intros e c args kw H. apply resolved_call_ok in H. apply call_ok_iff in H. tauto. Qed.

Lemma kw_set_present : forall k v l, In k (map fst l) -> map fst (kw_set k v l) = map fst l.
Proof.
  intros k v l. induction l as [|[k' v'] r IH]; intros H; [destruct H|].
  cbn [kw_set]. destruct (String.eqb k k') eqn:E.
  - apply String.eqb_eq in E. subst. reflexivity.
  - cbn. f_equal. apply IH. destruct H as [H|H]; auto. cbn in H. subst. rewrite String.eqb_refl in E. discriminate.
Qed.

Lemma kw_set_find : forall k v l, kw_find k (kw_set k v l) = Some v.
Proof.
  intros k v l. induction l as [|[k' v'] r IH]; cbn [kw_set kw_find].
  - rewrite String.eqb_refl. reflexivity.
  - destruct (String.eqb k k') eqn:E; cbn [kw_find]; [rewrite String.eqb_refl | rewrite E]; auto.
Qed.

Example repeated_keyword_accepted :
  option_map (fun m => map cterm_name (commons m))
    (match describe (ast "y ~ f(x, a=1, b=3, a=2)") with Ok m => Some m | Err _ => None end)
  = Some ["Intercept"; "f(x, a=2, b=3)"].
Proof. vm_compute. reflexivity. Qed.

(* ================================================================== *)
(** * 2. What the equality of two calls depends on *)

Lemma kw_find_none : forall {A} k (y : list (string * A)), kw_find k y = None <-> ~ In k (map fst y).
Proof.
  intros A k y. induction y as [|[k' v'] r IH]; cbn.
  - split; auto.
  - destruct (String.eqb k k') eqn:E.
    + apply String.eqb_eq in E. subst. split; [discriminate | intros H; exfalso; apply H; auto].
    + rewrite IH. split; intros H.
      * intros [H1|H1]; [subst; rewrite String.eqb_refl in E; discriminate | auto].
      * intros H1. apply H. auto.
Qed.

Lemma kw_find_some_key : forall {A} k (y : list (string * A)) v, kw_find k y = Some v -> In k (map fst y).
Proof.
  intros A k y v H. apply kw_find_in in H. change k with (fst (k, v)). apply in_map. assumption.
Qed.

(* two dictionaries agree: same keys, equal values *)
Definition kw_agree (k1 k2 : list (string * lazy)) : Prop :=
  forall k, match kw_find k k1, kw_find k k2 with
            | Some v, Some v' => lazy_eqb v v' = true
            | None, None => True
            | _, _ => False
            end.

Lemma list_all2_Forall2 : forall (x y : list lazy),
  list_all2 lazy_eqb x y = true <-> Forall2 (fun p q => lazy_eqb p q = true) x y.
Proof.
  induction x as [|a r IH]; intros [|b y]; cbn; split; intros H; try discriminate; auto;
    try (inversion H; fail).
  - apply andb_true_iff in H. destruct H. constructor; [assumption | apply IH; assumption].
  - inversion H; subst. apply andb_true_iff. split; [assumption | apply IH; assumption].
Qed.

(* the characterisation: callee, positional arguments IN ORDER, keyword arguments AS A DICTIONARY *)
Theorem call_eqb_spec : forall c1 a1 k1 c2 a2 k2,
  NoDup (map fst k1) -> NoDup (map fst k2) ->
  (lazy_eqb (LzCall c1 a1 k1) (LzCall c2 a2 k2) = true <->
   c1 = c2 /\ Forall2 (fun p q => lazy_eqb p q = true) a1 a2 /\ kw_agree k1 k2).
Proof.
  intros c1 a1 k1 c2 a2 k2 N1 N2. rewrite lazy_eqb_call, !andb_true_iff, String.eqb_eq, Nat.eqb_eq,
    list_all2_Forall2, kw_sub_spec. split.
  - intros [[[Hc Ha] Hl] Hs]. split; [assumption|]. split; [assumption|].
    assert (I12 : incl (map fst k1) (map fst k2)).
    { intros k Hk. apply in_map_iff in Hk. destruct Hk as ([k0 v] & <- & Hin).
      destruct (Hs _ _ Hin) as (v' & Hf & _). eapply kw_find_some_key; eassumption. }
    assert (I21 : incl (map fst k2) (map fst k1)).
    { apply NoDup_length_incl; [assumption | rewrite !map_length; lia | assumption]. }
    intros k. destruct (kw_find k k1) as [v|] eqn:F1.
    + destruct (Hs k v (kw_find_in _ _ _ F1)) as (v' & -> & Hv). assumption.
    + destruct (kw_find k k2) as [v'|] eqn:F2; auto.
      apply kw_find_none in F1. apply F1, I21. eapply kw_find_some_key; eassumption.
  - intros (Hc & Ha & Hk). split; [split; [split|]|]; auto.
    + assert (I12 : incl (map fst k1) (map fst k2)).
      { intros k Hin. specialize (Hk k). destruct (kw_find k k1) eqn:F1.
        - destruct (kw_find k k2) eqn:F2; [|contradiction]. eapply kw_find_some_key; eassumption.
        - apply kw_find_none in F1. contradiction. }
      assert (I21 : incl (map fst k2) (map fst k1)).
      { intros k Hin. specialize (Hk k). destruct (kw_find k k2) eqn:F2.
        - destruct (kw_find k k1) eqn:F1; [|contradiction]. eapply kw_find_some_key; eassumption.
        - apply kw_find_none in F2. contradiction. }
      pose proof (NoDup_incl_length N1 I12). pose proof (NoDup_incl_length N2 I21).
      rewrite !map_length in *. lia.
    + intros k v Hin. specialize (Hk k). rewrite (kw_find_nodup k k1 v N1 Hin) in Hk.
      destruct (kw_find k k2) as [v'|]; [|contradiction]. eauto.
Qed.

(* ---- keyword ORDER is irrelevant ---- *)
Lemma perm_keys : forall (kw kw' : list (string * lazy)),
  Permutation kw kw' -> NoDup (map fst kw) -> NoDup (map fst kw').
Proof. intros kw kw' H N. eapply Permutation_NoDup; [apply Permutation_map; exact H | exact N]. Qed.

Lemma perm_find : forall (kw kw' : list (string * lazy)) k,
  Permutation kw kw' -> NoDup (map fst kw) -> kw_find k kw' = kw_find k kw.
Proof.
  intros kw kw' k H N. pose proof (perm_keys _ _ H N) as N'.
  destruct (kw_find k kw) as [v|] eqn:F.
  - apply kw_find_nodup; auto. eapply Permutation_in; [exact H|]. apply kw_find_in. assumption.
  - apply kw_find_none. apply kw_find_none in F. intros Hin. apply F.
    eapply Permutation_in; [apply Permutation_map, Permutation_sym; exact H | exact Hin].
Qed.

Lemma call_ok_perm : forall c args kw kw',
  call_ok c args kw -> Permutation kw kw' -> call_ok c args kw'.
Proof.
  intros c args kw kw' H P. apply call_ok_iff in H. destruct H as (Ha & N & Hk). apply call_ok_iff.
  split; [assumption|]. split; [eapply perm_keys; eassumption|].
  eapply Permutation_Forall; eassumption.
Qed.

Theorem keyword_order_irrelevant : forall c args kw kw',
  call_ok c args kw -> Permutation kw kw' ->
  lazy_eqb (LzCall c args kw) (LzCall c args kw') = true /\
  lazy_eqb (LzCall c args kw') (LzCall c args kw) = true.
Proof.
  assert (forall c args kw kw', call_ok c args kw -> Permutation kw kw' ->
            lazy_eqb (LzCall c args kw) (LzCall c args kw') = true) as H.
  { intros c args kw kw' H P. pose proof (call_ok_perm _ _ _ _ H P) as H'.
    apply call_ok_iff in H. destruct H as (Ha & N & Hk).
    apply call_eqb_spec; [assumption | eapply perm_keys; eassumption|].
    split; [reflexivity|]. split.
    - clear -Ha. induction Ha; constructor; auto. apply lazy_eqb_refl. assumption.
    - intros k. rewrite (perm_find kw kw' k P N). destruct (kw_find k kw) as [v|] eqn:F; [|exact I].
      apply lazy_eqb_refl. rewrite Forall_forall in Hk. apply (Hk (k, v)). apply kw_find_in. assumption. }
  intros c args kw kw' Hok P. split; [apply H; assumption|].
  apply H; [eapply call_ok_perm; eassumption | apply Permutation_sym; assumption].
Qed.

(* ---- everything else is relevant: general statements, then witnesses ---- *)
Theorem callee_relevant : forall c1 a1 k1 c2 a2 k2,
  c1 <> c2 -> lazy_eqb (LzCall c1 a1 k1) (LzCall c2 a2 k2) = false.
Proof.
  intros. rewrite lazy_eqb_call. destruct (String.eqb c1 c2) eqn:E; [|reflexivity].
  apply String.eqb_eq in E. contradiction.
Qed.

Theorem positional_relevant : forall c1 a1 k1 c2 a2 k2,
  ~ Forall2 (fun p q => lazy_eqb p q = true) a1 a2 ->
  lazy_eqb (LzCall c1 a1 k1) (LzCall c2 a2 k2) = false.
Proof.
  intros c1 a1 k1 c2 a2 k2 H. rewrite lazy_eqb_call.
  destruct (list_all2 lazy_eqb a1 a2) eqn:E; [|rewrite andb_false_r; reflexivity].
  apply list_all2_Forall2 in E. contradiction.
Qed.

Theorem keyword_names_relevant : forall c1 a1 k1 c2 a2 k2 k,
  In k (map fst k1) -> ~ In k (map fst k2) ->
  lazy_eqb (LzCall c1 a1 k1) (LzCall c2 a2 k2) = false.
Proof.
  intros c1 a1 k1 c2 a2 k2 k H1 H2. rewrite lazy_eqb_call.
  destruct (kw_sub lazy_eqb k1 k2) eqn:E; [|rewrite andb_false_r; reflexivity].
  exfalso. rewrite kw_sub_spec in E. apply in_map_iff in H1. destruct H1 as ([k0 v] & <- & Hin).
  destruct (E _ _ Hin) as (v' & Hf & _). apply H2. eapply kw_find_some_key; eassumption.
Qed.

Theorem keyword_values_relevant : forall c1 a1 k1 c2 a2 k2 k v v',
  NoDup (map fst k1) -> NoDup (map fst k2) -> In (k, v) k1 -> In (k, v') k2 -> lazy_eqb v v' = false ->
  lazy_eqb (LzCall c1 a1 k1) (LzCall c2 a2 k2) = false.
Proof.
  intros c1 a1 k1 c2 a2 k2 k v v' N1 N2 H1 H2 Hv.
  destruct (lazy_eqb (LzCall c1 a1 k1) (LzCall c2 a2 k2)) eqn:E; [|reflexivity].
  apply call_eqb_spec in E; auto. destruct E as (_ & _ & Hk). specialize (Hk k).
  rewrite (kw_find_nodup k k1 v N1 H1), (kw_find_nodup k k2 v' N2 H2) in Hk. congruence.
Qed.

Definition vx := LzVar "x".
Definition vz := LzVar "z".
Example positional_order_matters :
  lazy_eqb (LzCall "f" [vx; vz] [("a", one)]) (LzCall "f" [vz; vx] [("a", one)]) = false.
Proof. vm_compute. reflexivity. Qed.
Example keyword_value_matters :
  lazy_eqb (LzCall "f" [vx] [("a", one); ("b", two)]) (LzCall "f" [vx] [("a", one); ("b", one)]) = false.
Proof. vm_compute. reflexivity. Qed.
Example keyword_name_matters :
  lazy_eqb (LzCall "f" [vx] [("a", one); ("b", two)]) (LzCall "f" [vx] [("a", one); ("c", two)]) = false.
Proof. vm_compute. reflexivity. Qed.
(* values attached to swapped names: not a permutation of the PAIRS *)
Example keyword_pairing_matters :
  lazy_eqb (LzCall "f" [vx] [("a", one); ("b", two)]) (LzCall "f" [vx] [("a", two); ("b", one)]) = false.
Proof. vm_compute. reflexivity. Qed.
Example callee_matters :
  lazy_eqb (LzCall "f" [vx] [("a", one)]) (LzCall "g" [vx] [("a", one)]) = false.
Proof. vm_compute. reflexivity. Qed.
Example positional_vs_keyword_matters :
  lazy_eqb (LzCall "f" [vx; one] []) (LzCall "f" [vx] [("a", one)]) = false.
Proof. vm_compute. reflexivity. Qed.
Example keyword_order_example :
  lazy_eqb (LzCall "f" [vx] [("a", one); ("b", two)]) (LzCall "f" [vx] [("b", two); ("a", one)]) = true.
Proof. vm_compute. reflexivity. Qed.

(* ---- keyword order is irrelevant AT ANY DEPTH ---- *)
(* [kwp a b]: b is a with the keyword arguments of any call inside it written in another order *)
Inductive kwp : lazy -> lazy -> Prop :=
| KP_op s a a' : Forall2 kwp a a' -> kwp (LzOp s a) (LzOp s a')
| KP_var n : kwp (LzVar n) (LzVar n)
| KP_val v lx : kwp (LzVal v lx) (LzVal v lx)
| KP_call c a a' k k1 k' :
    Forall2 kwp a a' ->
    Forall2 (fun p q => fst p = fst q /\ kwp (snd p) (snd q)) k k1 ->
    Permutation k1 k' ->
    kwp (LzCall c a k) (LzCall c a' k').

Lemma pointwise_agree : forall k k1,
  Forall2 (fun p q : string * lazy => fst p = fst q /\ lazy_eqb (snd p) (snd q) = true) k k1 ->
  map fst k = map fst k1 /\ kw_agree k k1.
Proof.
  induction 1 as [|[ka va] [kb vb] k k1 [Hk Hv] _ [IH1 IH2]].
  - split; [reflexivity | intros key; exact I].
  - cbn in Hk, Hv. subst kb. split; [cbn; f_equal; assumption|].
    intros key. cbn [kw_find]. destruct (String.eqb key ka); [assumption | apply IH2].
Qed.

Theorem kwp_eqb : forall a b, lazy_ok a -> kwp a b -> lazy_ok b /\ lazy_eqb a b = true.
Proof.
  induction a as [s args IH|n|v lx|c args kw IHa IHk] using lazy_ind'; intros b Hok Hp;
    inversion Hp; subst; clear Hp.
  - apply lazy_ok_op in Hok.
    assert (Forall lazy_ok a' /\ list_all2 lazy_eqb args a' = true) as [Q1 Q2].
    { match goal with H : Forall2 kwp _ _ |- _ => induction H as [|x y l l' Hxy _ IHl] end.
      - split; [constructor | reflexivity].
      - inversion IH as [|? ? Px Pl]; subst. inversion Hok as [|? ? Ox Ol]; subst.
        destruct (Px y Ox Hxy) as [Hy Hxy']. destruct (IHl Pl Ol) as [Hl Hl'].
        split; [constructor; assumption | cbn; rewrite Hxy', Hl'; reflexivity]. }
    split; [apply lazy_ok_op; assumption | rewrite lazy_eqb_op, String.eqb_refl, Q2; reflexivity].
  - split; [exact I | cbn; apply String.eqb_refl].
  - split; [exact I | apply lazy_eqb_refl; exact I].
  - apply call_ok_iff in Hok. destruct Hok as (Ha & N & Hk).
    assert (Forall lazy_ok a' /\ Forall2 (fun p q => lazy_eqb p q = true) args a') as [A1 A2].
    { match goal with H : Forall2 kwp _ _ |- _ => induction H as [|x y l l' Hxy _ IHl] end.
      - split; constructor.
      - inversion IHa as [|? ? Px Pl]; subst. inversion Ha as [|? ? Ox Ol]; subst.
        destruct (Px y Ox Hxy) as [Hy Hxy']. destruct (IHl Pl Ol) as [Hl Hl'].
        split; constructor; assumption. }
    assert (Forall (fun kv => lazy_ok (snd kv)) k1 /\
            Forall2 (fun p q : string * lazy => fst p = fst q /\ lazy_eqb (snd p) (snd q) = true) kw k1)
      as [K1 K2].
    { match goal with H : Permutation _ _ |- _ => clear H end.
      match goal with H : Forall2 _ kw k1 |- _ => induction H as [|x y l l' [Hf Hxy] _ IHl] end.
      - split; constructor.
      - inversion IHk as [|? ? Px Pl]; subst. inversion Hk as [|? ? Ox Ol]; subst.
        cbn in N. inversion N as [|? ? Nx Nl]; subst.
        destruct (Px (snd y) Ox Hxy) as [Hy Hxy']. destruct (IHl Pl Nl Ol) as [Hl Hl'].
        split; constructor; auto. }
    destruct (pointwise_agree _ _ K2) as [Keys Agree].
    assert (Ok1 : call_ok c a' k1).
    { apply call_ok_iff. split; [assumption|]. split; [rewrite <- Keys; assumption | assumption]. }
    split; [eapply call_ok_perm; eassumption|].
    eapply lazy_eqb_trans with (b := LzCall c a' k1).
    + apply call_eqb_spec; [assumption | rewrite <- Keys; assumption | auto].
    + match goal with H : Permutation k1 k' |- _ => exact (proj1 (keyword_order_irrelevant _ _ _ _ Ok1 H)) end.
Qed.

Corollary kwp_eqb_sym : forall a b, lazy_ok a -> kwp a b -> lazy_eqb b a = true.
Proof. intros a b H P. destruct (kwp_eqb a b H P). apply lazy_eqb_sym; assumption. Qed.

Lemma kwp_refl : forall a, kwp a a.
Proof.
  induction a as [s args IH|n|v lx|c args kw IHa IHk] using lazy_ind'; try constructor.
  - induction IH; constructor; auto.
  - apply KP_call with (k1 := kw); [| |apply Permutation_refl].
    + induction IHa; constructor; auto.
    + induction IHk; constructor; auto.
Qed.

Lemma kwp_args_refl : forall args : list lazy, Forall2 kwp args args.
Proof. induction args; constructor; auto using kwp_refl. Qed.
Lemma kwp_kw_refl : forall kw : list (string * lazy),
  Forall2 (fun p q => fst p = fst q /\ kwp (snd p) (snd q)) kw kw.
Proof. induction kw; constructor; auto using kwp_refl. Qed.

Lemma kwp_perm : forall c args kw kw', Permutation kw kw' -> kwp (LzCall c args kw) (LzCall c args kw').
Proof.
  intros c args kw kw' H. apply KP_call with (k1 := kw); [apply kwp_args_refl | apply kwp_kw_refl | exact H].
Qed.

(* nested: f(g(x, p=1, q=2), a=1, b=2)  against  f(g(x, q=2, p=1), b=2, a=1) *)
Example kwp_nested :
  let g1 := LzCall "g" [vx] [("p", one); ("q", two)] in
  let g2 := LzCall "g" [vx] [("q", two); ("p", one)] in
  kwp (LzCall "f" [g1] [("a", one); ("b", g1)]) (LzCall "f" [g2] [("b", g2); ("a", one)]) /\
  lazy_eqb (LzCall "f" [g1] [("a", one); ("b", g1)]) (LzCall "f" [g2] [("b", g2); ("a", one)]) = true.
Proof.
  cbv zeta. split; [|vm_compute; reflexivity].
  assert (G : kwp (LzCall "g" [vx] [("p", one); ("q", two)]) (LzCall "g" [vx] [("q", two); ("p", one)])).
  { apply kwp_perm. apply perm_swap. }
  eapply KP_call with (k1 := [("a", one); ("b", LzCall "g" [vx] [("q", two); ("p", one)])]).
  - constructor; [exact G | constructor].
  - constructor; [split; [reflexivity | apply kwp_refl]|].
    constructor; [split; [reflexivity | exact G] | constructor].
  - apply perm_swap.
Qed.

(* ================================================================== *)
(** * 3. Components, terms, and the operators *)

Inductive comp_kwp : comp -> comp -> Prop :=
| CK_var n l : comp_kwp (CVar n l) (CVar n l)
| CK_call a b : kwp a b -> comp_kwp (CCall a) (CCall b).

(* pairwise: the i-th component of t' is the i-th component of t up to keyword order *)
Definition term_kwp (t t' : term) : Prop := Forall2 comp_kwp t t'.

Theorem comp_kwp_eqb : forall c c', good c -> comp_kwp c c' ->
  good c' /\ comp_eqb c c' = true /\ comp_eqb c' c = true.
Proof.
  intros c c' G H. destruct H as [n l | a b H].
  - split; [assumption|]. split; apply comp_eqb_refl; assumption.
  - cbn in G. destruct (kwp_eqb a b G H) as [G' E].
    split; [exact G'|]. split; [exact E | cbn; apply lazy_eqb_sym; assumption].
Qed.

(* generic: pairwise equal lists are the same set *)
Lemma equ_pairwise : forall {T} (eqb : T -> T -> bool) (P : T -> Prop), eqv eqb P ->
  forall l l', Forall P l -> Forall P l' -> Forall2 (fun a b => eqb a b = true) l l' -> equ eqb P l l'.
Proof.
  intros T eqb P E l l' Hl Hl' H. induction H as [|a b l l' Hab _ IH]; intros x Hx; [reflexivity|].
  inversion Hl; subst. inversion Hl'; subst. rewrite !mem_cons, (IH H2 H4 x Hx). f_equal.
  apply (eqb_trans_r eqb P E); auto.
Qed.

Theorem term_eqb_pairwise : forall t t', goodt t -> goodt t' ->
  Forall2 (fun c c' => comp_eqb c c' = true) t t' -> term_eqb t t' = true.
Proof.
  intros t t' G G' H. apply term_eqb_equ; auto. apply (equ_pairwise comp_eqb good E_comp); auto.
Qed.

Theorem term_kwp_eqb : forall t t', goodt t -> term_kwp t t' ->
  goodt t' /\ term_eqb t t' = true /\ term_eqb t' t = true.
Proof.
  intros t t' G H.
  assert (goodt t' /\ Forall2 (fun c c' => comp_eqb c c' = true) t t') as [G' P].
  { induction H as [|c c' t t' Hc _ IH]; [split; constructor|]. inversion G; subst.
    destruct (comp_kwp_eqb c c' H1 Hc) as (A & B & _). destruct (IH H2). split; constructor; auto. }
  split; [exact G'|]. assert (E : term_eqb t t' = true) by (apply term_eqb_pairwise; auto).
  split; [exact E | apply (e_sym _ _ E_term); auto].
Qed.

Inductive cterm_kwp : cterm -> cterm -> Prop :=
| TK_I : cterm_kwp CI CI
| TK_N : cterm_kwp CN CN
| TK_T t t' : term_kwp t t' -> cterm_kwp (CT t) (CT t').
Definition gterm_kwp (g g' : gterm) : Prop :=
  cterm_kwp (gexpr g) (gexpr g') /\ cterm_kwp (gfactor g) (gfactor g').

Theorem cterm_kwp_eqb : forall c c', goodc c -> cterm_kwp c c' -> goodc c' /\ cterm_eqb c c' = true.
Proof.
  intros c c' G H. destruct H; try (split; [exact I | reflexivity]).
  cbn in G. destruct (term_kwp_eqb t t' G H) as (A & B & _). split; assumption.
Qed.

Theorem gterm_kwp_eqb : forall g g', goodg g -> gterm_kwp g g' -> goodg g' /\ gterm_eqb g g' = true.
Proof.
  intros g g' [G1 G2] [H1 H2]. destruct (cterm_kwp_eqb _ _ G1 H1), (cterm_kwp_eqb _ _ G2 H2).
  split; [split; assumption|]. unfold gterm_eqb. apply andb_true_iff. split; assumption.
Qed.

(* ---- the operators on two terms that differ by keyword order: the FIRST operand is returned ---- *)
Section TwoTerms.
  Variables t t' : term.
  Hypothesis G : goodt t.
  Hypothesis K : term_kwp t t'.

  Theorem add_collapses : v_add (VT t) (VT t') = Ok (VT t).
  Proof. cbn [v_add]. destruct (term_kwp_eqb t t' G K) as (_ & -> & _). reflexivity. Qed.
  Theorem sub_cancels : v_sub (VT t) (VT t') = Ok (VM empty_model).
  Proof. cbn [v_sub]. destruct (term_kwp_eqb t t' G K) as (_ & -> & _). reflexivity. Qed.
  Theorem colon_collapses : v_matmul (VT t) (VT t') = Ok (VT t).
  Proof. cbn [v_matmul]. destruct (term_kwp_eqb t t' G K) as (_ & -> & _). reflexivity. Qed.
  Theorem star_collapses : v_mul (VT t) (VT t') = Ok (VT t).
  Proof. cbn [v_mul]. destruct (term_kwp_eqb t t' G K) as (_ & -> & _). reflexivity. Qed.
  Theorem slash_collapses : v_div (VT t) (VT t') = Ok (VT t).
  Proof. cbn [v_div]. destruct (term_kwp_eqb t t' G K) as (_ & -> & _). reflexivity. Qed.
  (* and with the operands exchanged the other spelling is returned *)
  Theorem add_collapses_rev : v_add (VT t') (VT t) = Ok (VT t').
  Proof. cbn [v_add]. destruct (term_kwp_eqb t t' G K) as (_ & _ & ->). reflexivity. Qed.
End TwoTerms.

(* ---- the operator laws of Properties/C02.v: the set an operand denotes is insensitive to
        keyword order, so every law holds with either spelling ---- *)
Definition terms_kwp (L L' : list fset) : Prop := Forall2 term_kwp L L'.

Lemma terms_kwp_equ : forall L L', Forall goodt L -> terms_kwp L L' -> Forall goodt L' /\ tequ L L'.
Proof.
  intros L L' G H.
  assert (Forall goodt L' /\ Forall2 (fun a b => term_eqb a b = true) L L') as [G' P].
  { induction H as [|a b L L' Hab _ IH]; [split; constructor|]. inversion G; subst.
    destruct (term_kwp_eqb a b H1 Hab) as (A & B & _). destruct (IH H2). split; constructor; auto. }
  split; [exact G' | apply (equ_pairwise term_eqb goodt E_term); auto].
Qed.

Lemma Rp_equ : forall v L L', Rp v L -> Forall goodt L' -> tequ L L' -> Rp v L'.
Proof.
  intros v L L' (ts & Pv & GL & Ev) G' E. exists ts. repeat split; auto.
  eapply (equ_trans term_eqb goodt); eassumption.
Qed.

Theorem Rp_keyword_order : forall v L L', Rp v L -> terms_kwp L L' -> Rp v L'.
Proof.
  intros v L L' H K. assert (GL : Forall goodt L) by (destruct H as (ts & _ & GL & _); exact GL).
  destruct (terms_kwp_equ L L' GL K). eapply Rp_equ; eassumption.
Qed.

Theorem Rp_keyword_order_back : forall v L L', Forall goodt L -> Rp v L' -> terms_kwp L L' -> Rp v L.
Proof.
  intros v L L' GL H K. destruct (terms_kwp_equ L L' GL K) as [G' E].
  eapply Rp_equ; [exact H | exact GL | apply (equ_sym term_eqb goodt); exact E].
Qed.

(* t + t' = t *)
Theorem C02kw_add : forall a b L L', Rp a L -> Rp b L' -> terms_kwp L L' ->
  exists v, v_add a b = Ok v /\ Rp v L.
Proof.
  intros a b L L' Ha Hb K. destruct (add_law a b L L' Ha Hb) as (v & Hv & R). exists v. split; auto.
  assert (GL : Forall goodt L) by (destruct Ha as (ts & _ & GL & _); exact GL).
  destruct (terms_kwp_equ L L' GL K) as [G' E].
  eapply Rp_equ; [exact R | exact GL|]. intros x Hx. rewrite mem_app, <- (E x Hx). apply orb_diag.
Qed.

(* (t + u) - t' = u - t *)
Theorem C02kw_sub : forall a u b L U L', Rp a L -> Rp u U -> Rp b L' -> terms_kwp L L' ->
  exists v w, v_add a u = Ok v /\ v_sub v b = Ok w /\ Rp w (diff fset_eqb U L).
Proof.
  intros a u b L U L' Ha Hu Hb K.
  assert (GL : Forall goodt L) by (destruct Ha as (ts & _ & GL & _); exact GL).
  assert (GU : Forall goodt U) by (destruct Hu as (ts & _ & GU & _); exact GU).
  destruct (terms_kwp_equ L L' GL K) as [G' E].
  destruct (add_law a u L U Ha Hu) as (v & Hv & R).
  destruct (sub_law v b _ _ R Hb) as (w & Hw & R'). exists v, w. split; [auto|]. split; [auto|].
  eapply Rp_equ; [exact R' | apply Forall_diff; exact GU |].
  intros x Hx. change fset_eqb with term_eqb.
  rewrite !(mem_diff term_eqb goodt E_term) by auto using Forall_app2. rewrite mem_app, <- (E x Hx).
  destruct (tmem x L), (tmem x U); reflexivity.
Qed.

(* t - t' = nothing;  a - t' = a - t in general *)
Theorem C02kw_sub_same : forall a b L L', Rp a L -> Rp b L' -> terms_kwp L L' ->
  exists v, v_sub a b = Ok v /\ Rp v [].
Proof.
  intros a b L L' Ha Hb K.
  assert (GL : Forall goodt L) by (destruct Ha as (ts & _ & GL & _); exact GL).
  destruct (terms_kwp_equ L L' GL K) as [G' E].
  destruct (sub_law a b L L' Ha Hb) as (v & Hv & R). exists v. split; auto.
  eapply Rp_equ; [exact R | constructor|]. intros x Hx. change fset_eqb with term_eqb.
  rewrite (mem_diff term_eqb goodt E_term), <- (E x Hx) by auto. cbn. destruct (tmem x L); reflexivity.
Qed.

Theorem C02kw_sub_general : forall a b A L L', Rp a A -> Rp b L' -> Forall goodt L -> terms_kwp L L' ->
  exists v, v_sub a b = Ok v /\ Rp v (diff fset_eqb A L).
Proof.
  intros a b A L L' Ha Hb GL K. apply sub_law; [exact Ha|]. eapply Rp_keyword_order_back; eassumption.
Qed.

(* t : t' = t  (the repeated factor is collapsed) *)
Theorem C02kw_colon : forall a b t t', Rp a [t] -> Rp b [t'] -> term_kwp t t' ->
  exists v, v_matmul a b = Ok v /\ Rp v [t].
Proof.
  intros a b t t' Ha Hb K.
  assert (G : goodt t) by (destruct Ha as (ts & _ & GL & _); inversion GL; assumption).
  destruct (term_kwp_eqb t t' G K) as (G' & E & _).
  destruct (colon_law a b _ _ Ha Hb) as (v & Hv & R). exists v. split; auto.
  eapply Rp_equ; [exact R | constructor; [exact G | constructor]|].
  intros x Hx. cbn [cross list_prod map app fst snd]. rewrite !tmem_single.
  apply (eqb_trans_r term_eqb goodt E_term); auto using goodt_app. apply term_eqb_app_idem; auto.
Qed.

(* ---- at the level of a whole model (group-specific terms included) ---- *)
Theorem add_term_common_present : forall m t t',
  Forall goodc (commons m) -> goodt t -> term_kwp t t' ->
  cmem (CT t) (commons m) = true -> add_term m (AC (CT t')) = Ok m.
Proof.
  intros m t t' Gm G K M. destruct (term_kwp_eqb t t' G K) as (G' & _ & E).
  cbn [add_term]. replace (cmem (CT t') (commons m)) with true; [reflexivity|].
  symmetry. rewrite <- M. apply (mem_eqb cterm_eqb goodc E_cterm); auto.
Qed.

Theorem add_term_group_present : forall m g g',
  Forall goodg (groups m) -> goodg g -> gterm_kwp g g' ->
  gmem g (groups m) = true -> add_term m (AG g') = Ok m.
Proof.
  intros m g g' Gm G K M. destruct (gterm_kwp_eqb g g' G K) as (G' & E).
  cbn [add_term]. replace (gmem g' (groups m)) with true; [reflexivity|].
  symmetry. rewrite <- M. apply (mem_eqb gterm_eqb goodg E_gterm); auto.
  apply (e_sym _ _ E_gterm); auto.
Qed.

Lemma remove_first_eqb : forall {T} (eqb : T -> T -> bool) P, eqv eqb P ->
  forall x y l, P x -> P y -> Forall P l -> eqb x y = true -> remove_first eqb x l = remove_first eqb y l.
Proof.
  intros T eqb P E x y l Hx Hy Hl A. induction Hl as [|z l Hz _ IH]; [reflexivity|].
  cbn. rewrite (eqb_trans_l eqb P E x y z) by auto. rewrite IH. reflexivity.
Qed.

(* removing t' is removing t *)
Theorem model_sub_keyword_order : forall m t t',
  Forall goodc (commons m) -> goodt t -> term_kwp t t' -> model_sub m (VT t') = model_sub m (VT t).
Proof.
  intros m t t' Gm G K. destruct (term_kwp_eqb t t' G K) as (G' & _ & E). cbn [model_sub].
  rewrite (mem_eqb cterm_eqb goodc E_cterm (CT t') (CT t)) by auto.
  rewrite (remove_first_eqb cterm_eqb goodc E_cterm (CT t') (CT t)) by auto. reflexivity.
Qed.

(* ================================================================== *)
(** * 5. Which spelling survives: the FIRST one written *)

Lemma dedup_prefix : forall {T} (eqb : T -> T -> bool) l acc, exists r, dedup eqb acc l = acc ++ r.
Proof.
  intros T eqb l. induction l as [|x l IH]; intros acc; cbn.
  - exists []. rewrite app_nil_r. reflexivity.
  - destruct (existsb (eqb x) acc); [apply IH|].
    destruct (IH (acc ++ [x])) as (r & ->). exists (x :: r). rewrite <- app_assoc. reflexivity.
Qed.

(* a later element equal to an earlier one leaves no trace: no property of [eqb] is needed *)
Lemma dedup_drop_later : forall {T} (eqb : T -> T -> bool) x' l1 l2 acc,
  existsb (eqb x') acc = true -> dedup eqb acc (l1 ++ x' :: l2) = dedup eqb acc (l1 ++ l2).
Proof.
  intros T eqb x' l1. induction l1 as [|y l1 IH]; intros l2 acc M; cbn.
  - rewrite M. reflexivity.
  - destruct (existsb (eqb y) acc); apply IH; auto.
    rewrite existsb_app, M. reflexivity.
Qed.

Lemma dedup_first_stays : forall {T} (eqb : T -> T -> bool) x l, exists r, dedup eqb [] (x :: l) = x :: r.
Proof. intros. cbn. destruct (dedup_prefix eqb l [x]) as (r & ->). exists r. reflexivity. Qed.

Lemma dedup_app : forall {T} (eqb : T -> T -> bool) l1 l2 acc,
  dedup eqb acc (l1 ++ l2) = dedup eqb (dedup eqb acc l1) l2.
Proof.
  intros T eqb l1. induction l1 as [|x l1 IH]; intros l2 acc; cbn; [reflexivity|].
  destruct (existsb (eqb x) acc); apply IH.
Qed.

(* x' written after an equal x: the result is what it would be had x' never been written *)
Theorem dedup_first_spelling : forall {T} (eqb : T -> T -> bool) P, eqv eqb P ->
  forall l1 x l2 x' l3, Forall P l1 -> P x -> Forall P l2 -> P x' -> eqb x' x = true ->
  dedup eqb [] (l1 ++ x :: l2 ++ x' :: l3) = dedup eqb [] (l1 ++ x :: l2 ++ l3).
Proof.
  intros T eqb P E l1 x l2 x' l3 H1 Hx H2 Hx' A.
  replace (l1 ++ x :: l2 ++ x' :: l3) with ((l1 ++ x :: l2) ++ x' :: l3)
    by (rewrite <- app_assoc; reflexivity).
  replace (l1 ++ x :: l2 ++ l3) with ((l1 ++ x :: l2) ++ l3) by (rewrite <- app_assoc; reflexivity).
  rewrite !(dedup_app eqb (l1 ++ x :: l2)). cbn [dedup].
  assert (F : Forall P (l1 ++ x :: l2)) by (apply Forall_app; split; [assumption | constructor; assumption]).
  fold (mem eqb x' (dedup eqb [] (l1 ++ x :: l2))).
  rewrite (mem_dedup eqb P E) by auto. rewrite mem_app, mem_cons, A, orb_true_r. reflexivity.
Qed.

(* the elements of a model are spellings that were written, in the order of first occurrence *)
Lemma dedup_in : forall {T} (eqb : T -> T -> bool) l acc z, In z (dedup eqb acc l) -> In z acc \/ In z l.
Proof.
  intros T eqb l. induction l as [|x l IH]; intros acc z H; cbn in H; [auto|].
  destruct (existsb (eqb x) acc).
  - destruct (IH _ _ H); auto. right; right; assumption.
  - destruct (IH _ _ H) as [H1|H1]; [|right; right; assumption].
    apply in_app_or in H1. destruct H1 as [H1|[H1|[]]]; [auto | right; left; assumption].
Qed.

Theorem mk_term_first_spelling : forall l1 c l2 c' l3,
  goodt l1 -> good c -> goodt l2 -> comp_kwp c c' ->
  mk_term (l1 ++ c :: l2 ++ c' :: l3) = mk_term (l1 ++ c :: l2 ++ l3).
Proof.
  intros l1 c l2 c' l3 G1 G G2 K. destruct (comp_kwp_eqb c c' G K) as (G' & _ & E).
  unfold mk_term. rewrite !dedup_comps_dedup. apply (dedup_first_spelling comp_eqb good E_comp); auto.
Qed.

Theorem mk_model_commons_first_spelling : forall l1 c l2 c' l3 r,
  Forall goodc l1 -> goodc c -> Forall goodc l2 -> cterm_kwp c c' ->
  mk_model (map AC (l1 ++ c :: l2 ++ c' :: l3)) r = mk_model (map AC (l1 ++ c :: l2 ++ l3)) r.
Proof.
  intros l1 c l2 c' l3 r G1 G G2 K. destruct (cterm_kwp_eqb c c' G K) as (G' & E).
  rewrite !mk_model_commons. f_equal.
  apply (dedup_first_spelling cterm_eqb goodc E_cterm); auto. apply (e_sym _ _ E_cterm); auto.
Qed.

Theorem mk_model_groups_first_spelling : forall l1 g l2 g' l3 r,
  Forall goodg l1 -> goodg g -> Forall goodg l2 -> gterm_kwp g g' ->
  mk_model (map AG (l1 ++ g :: l2 ++ g' :: l3)) r = mk_model (map AG (l1 ++ g :: l2 ++ l3)) r.
Proof.
  intros l1 g l2 g' l3 r G1 G G2 K. destruct (gterm_kwp_eqb g g' G K) as (G' & E).
  rewrite !mk_model_groups. f_equal.
  apply (dedup_first_spelling gterm_eqb goodg E_gterm); auto. apply (e_sym _ _ E_gterm); auto.
Qed.

(* the two spellings have DIFFERENT names (the correspondence compares names), e.g. *)
Example names_differ :
  lazy_str (LzCall "h" [vx] [("k", one); ("m", two)]) = "h(x, k=1, m=2)" /\
  lazy_str (LzCall "h" [vx] [("m", two); ("k", one)]) = "h(x, m=2, k=1)".
Proof. split; vm_compute; reflexivity. Qed.

(* ================================================================== *)
(** * 4. End to end, on syntax trees: all names, all arguments, any number of keywords *)

(* a keyword argument  name = value  together with the lazy tree its value resolves to *)
Definition kwarg := (token * expr * lazy)%type.
Definition kw_name (p : kwarg) : string := lexeme (fst (fst p)).
Definition kw_expr (p : kwarg) : expr := EAssign (EVariable (fst (fst p)) None) (snd (fst p)).
Definition kw_lazy (p : kwarg) : string * lazy := (kw_name p, snd p).
Definition kw_resolves (p : kwarg) : Prop := call_resolve (snd (fst p)) = Ok (snd p).

Lemma cr_args_positional : forall pos lpos rest p0 k0,
  Forall2 (fun e l => call_resolve e = Ok l) pos lpos ->
  cr_args (pos ++ rest) p0 k0 = cr_args rest (p0 ++ lpos) k0.
Proof.
  intros pos lpos rest p0 k0 H. revert p0. induction H as [|e l pos lpos He _ IH]; intros p0.
  - rewrite app_nil_r. reflexivity.
  - cbn [app]. destruct e; try (cbn in He; discriminate);
      cbn [cr_args]; rewrite He; cbn [bind]; rewrite IH, <- app_assoc; reflexivity.
Qed.

Lemma cr_args_keywords : forall kws p0 k0,
  Forall kw_resolves kws ->
  cr_args (map kw_expr kws) p0 k0 =
  Ok (p0, fold_left (fun acc p => kw_set (kw_name p) (snd p) acc) kws k0).
Proof.
  induction kws as [|[[n e] l] kws IH]; intros p0 k0 H; [reflexivity|].
  inversion H as [|? ? Hp Hr]; subst. unfold kw_resolves in Hp. cbn [fst snd] in Hp.
  cbn [map kw_expr fst snd cr_args]. rewrite Hp. cbn [bind]. rewrite IH by assumption. reflexivity.
Qed.

Lemma kw_set_absent : forall k v l, ~ In k (map fst l) -> kw_set k v l = l ++ [(k, v)].
Proof.
  intros k v l. induction l as [|[k' v'] r IH]; intros H; [reflexivity|].
  cbn [kw_set]. destruct (String.eqb k k') eqn:E.
  - apply String.eqb_eq in E. subst. exfalso. apply H. left. reflexivity.
  - cbn. f_equal. apply IH. intros Hin. apply H. right. assumption.
Qed.

Lemma fold_kw_set_distinct : forall kws k0,
  NoDup (map fst k0 ++ map kw_name kws) ->
  fold_left (fun acc p => kw_set (kw_name p) (snd p) acc) kws k0 = k0 ++ map kw_lazy kws.
Proof.
  induction kws as [|p kws IH]; intros k0 N; cbn [fold_left map].
  - rewrite app_nil_r. reflexivity.
  - cbn [map] in N. rewrite kw_set_absent.
    + rewrite IH.
      * rewrite <- app_assoc. reflexivity.
      * rewrite map_app. cbn [map fst]. rewrite <- app_assoc. exact N.
    + apply NoDup_remove_2 in N. intros Hin. apply N. apply in_or_app. left. assumption.
Qed.

(* the call  f(pos..., k1=v1, ..., kn=vn)  with distinct keyword names *)
Definition call_expr (f : token) (lv : option expr) (pos : list expr) (kws : list kwarg) : expr :=
  ECall (EVariable f lv) (pos ++ map kw_expr kws).
Definition call_lazy (f : token) (lpos : list lazy) (kws : list kwarg) : lazy :=
  LzCall (lexeme f) lpos (map kw_lazy kws).

Theorem call_expr_resolves : forall f lv pos lpos kws,
  Forall2 (fun e l => call_resolve e = Ok l) pos lpos -> Forall kw_resolves kws ->
  NoDup (map kw_name kws) ->
  call_resolve (call_expr f lv pos kws) = Ok (call_lazy f lpos kws) /\
  resolve (call_expr f lv pos kws) = Ok (VT [CCall (call_lazy f lpos kws)]) /\
  lazy_ok (call_lazy f lpos kws).
Proof.
  intros f lv pos lpos kws Hp Hk N.
  assert (R : call_resolve (call_expr f lv pos kws) = Ok (call_lazy f lpos kws)).
  { unfold call_expr. rewrite call_resolve_ecall, (cr_args_positional pos lpos) by assumption.
    rewrite cr_args_keywords by assumption. cbn [bind fst snd app].
    rewrite fold_kw_set_distinct by exact N. reflexivity. }
  split; [exact R|]. split.
  - unfold call_expr in *. cbn [resolve]. rewrite R. reflexivity.
  - exact (proj1 (call_resolve_ok' _) _ R).
Qed.

Lemma kw_perm_names : forall kws kws' : list kwarg,
  Permutation kws kws' -> NoDup (map kw_name kws) -> NoDup (map kw_name kws').
Proof. intros. eapply Permutation_NoDup; [apply Permutation_map; eassumption | assumption]. Qed.

Section CallFamily.
  (* any callee, any positional arguments, any keyword arguments with distinct names, written in
     two orders *)
  Variables (f : token) (lv lv' : option expr) (pos : list expr) (lpos : list lazy)
            (kws kws' : list kwarg).
  Hypothesis Hpos : Forall2 (fun e l => call_resolve e = Ok l) pos lpos.
  Hypothesis Hkws : Forall kw_resolves kws.
  Hypothesis Hnames : NoDup (map kw_name kws).
  Hypothesis Hperm : Permutation kws kws'.

  Let e := call_expr f lv pos kws.
  Let e' := call_expr f lv' pos kws'.
  Let t := call_lazy f lpos kws.
  Let t' := call_lazy f lpos kws'.

  Lemma family_resolve : resolve e = Ok (VT [CCall t]) /\ resolve e' = Ok (VT [CCall t']).
  Proof.
    split; [apply call_expr_resolves; assumption|].
    apply call_expr_resolves; [assumption | eapply Permutation_Forall; eassumption |
                               eapply kw_perm_names; eassumption].
  Qed.

  Lemma family_good : goodt [CCall t].
  Proof. constructor; [|constructor]. cbn [good]. apply (call_expr_resolves f lv pos lpos kws); assumption. Qed.

  Lemma family_kwp : term_kwp [CCall t] [CCall t'].
  Proof.
    constructor; [|constructor]. constructor. apply kwp_perm. apply Permutation_map. exact Hperm.
  Qed.

  Lemma family_eqb : term_eqb [CCall t] [CCall t'] = true.
  Proof. apply (term_kwp_eqb _ _ family_good family_kwp). Qed.

  Ltac fam o :=
    rewrite (resolve_binary _ _ _ o) by (match goal with H : tkind _ = _ |- _ => rewrite H end; reflexivity);
    rewrite (proj1 family_resolve), (proj2 family_resolve); cbn [bind apply_binop].

  (* e + e' : one term, spelled as e *)
  Theorem family_add : forall op, tkind op = PLUS -> resolve (EBinary e op e') = Ok (VT [CCall t]).
  Proof. intros op H. fam OpAdd. apply add_collapses; [apply family_good | apply family_kwp]. Qed.
  (* e - e' : nothing left *)
  Theorem family_sub : forall op, tkind op = MINUS -> resolve (EBinary e op e') = Ok (VM empty_model).
  Proof. intros op H. fam OpSub. apply sub_cancels; [apply family_good | apply family_kwp]. Qed.
  (* e : e' , e * e', e / e' : one factor, spelled as e *)
  Theorem family_colon : forall op, tkind op = COLON -> resolve (EBinary e op e') = Ok (VT [CCall t]).
  Proof. intros op H. fam OpColon. apply colon_collapses; [apply family_good | apply family_kwp]. Qed.
  Theorem family_star : forall op, tkind op = STAR -> resolve (EBinary e op e') = Ok (VT [CCall t]).
  Proof. intros op H. fam OpMul. apply star_collapses; [apply family_good | apply family_kwp]. Qed.
  Theorem family_slash : forall op, tkind op = SLASH -> resolve (EBinary e op e') = Ok (VT [CCall t]).
  Proof. intros op H. fam OpDiv. apply slash_collapses; [apply family_good | apply family_kwp]. Qed.

  (* whole formulas, as the front end builds them (the scanner writes the leading "1 +"):
     y ~ 1 + e + e'   has the intercept and exactly ONE call term, named as e is spelled *)
  Variables (y tilde p1 p2 : token).
  Hypothesis Htilde : tkind tilde = TILDE.
  Hypothesis Hp1 : tkind p1 = PLUS.
  Hypothesis Hp2 : tkind p2 = PLUS.
  Let lhs := EVariable y None.
  Let eone := ELiteral (LInt 1) None.
  Let yterm : term := [CVar (NStr (lexeme y)) None].

  Lemma one_plus_e : resolve (EBinary eone p1 e) = Ok (VM (Mod None [CI; CT [CCall t]] [])).
  Proof.
    rewrite (resolve_binary _ _ _ OpAdd) by (rewrite Hp1; reflexivity).
    rewrite (proj1 family_resolve). reflexivity.
  Qed.

  Theorem family_formula_add :
    describe (EBinary lhs tilde (EBinary (EBinary eone p1 e) p2 e')) =
    Ok (Mod (Some yterm) [CI; CT [CCall t]] []).
  Proof.
    unfold describe. rewrite (resolve_binary _ _ _ OpTilde) by (rewrite Htilde; reflexivity).
    rewrite (resolve_binary _ _ _ OpAdd) by (rewrite Hp2; reflexivity).
    rewrite one_plus_e, (proj2 family_resolve). cbn [bind resolve lhs apply_binop mk_response v_add model_add].
    rewrite (add_term_common_present _ [CCall t] [CCall t']).
    - reflexivity.
    - cbn [commons]. constructor; [exact I|]. constructor; [apply family_good | constructor].
    - apply family_good.
    - apply family_kwp.
    - cbn [commons cmem existsb cterm_eqb]. rewrite (e_refl _ _ E_term _ family_good). reflexivity.
  Qed.

  Corollary family_formula_add_names : forall m,
    describe (EBinary lhs tilde (EBinary (EBinary eone p1 e) p2 e')) = Ok m ->
    map cterm_name (commons m) = ["Intercept"; lazy_str t]%string /\ groups m = [].
  Proof.
    intros m H. rewrite family_formula_add in H. inversion H; subst. split; reflexivity.
  Qed.

  (* y ~ 1 + e - e' : only the intercept is left *)
  Theorem family_formula_sub : forall mi, tkind mi = MINUS ->
    describe (EBinary lhs tilde (EBinary (EBinary eone p1 e) mi e')) = Ok (Mod (Some yterm) [CI] []).
  Proof.
    intros mi Hmi. unfold describe. rewrite (resolve_binary _ _ _ OpTilde) by (rewrite Htilde; reflexivity).
    rewrite (resolve_binary _ _ _ OpSub) by (rewrite Hmi; reflexivity).
    rewrite one_plus_e, (proj2 family_resolve). cbn [bind resolve lhs apply_binop mk_response v_sub].
    rewrite (model_sub_keyword_order _ [CCall t] [CCall t']);
      [| cbn [commons]; constructor; [exact I|]; constructor; [apply family_good | constructor]
       | apply family_good | apply family_kwp].
    cbn [model_sub commons cmem existsb cterm_eqb remove_first resp groups].
    rewrite (e_refl _ _ E_term _ family_good). cbn [orb bind v_add]. reflexivity.
  Qed.

  (* y ~ 1 + e:e' : one factor *)
  Theorem family_formula_colon : forall co, tkind co = COLON ->
    describe (EBinary lhs tilde (EBinary eone p1 (EBinary e co e'))) =
    Ok (Mod (Some yterm) [CI; CT [CCall t]] []).
  Proof.
    intros co Hco. unfold describe. rewrite (resolve_binary _ _ _ OpTilde) by (rewrite Htilde; reflexivity).
    rewrite (resolve_binary _ _ _ OpAdd) by (rewrite Hp1; reflexivity).
    rewrite (family_colon co Hco). reflexivity.
  Qed.

  (* y ~ 1 + (e | g) + (e' | g) : one pair of group-specific terms, spelled as e *)
  Variables (g pipe1 pipe2 : token).
  Hypothesis Hpipe1 : tkind pipe1 = PIPE.
  Hypothesis Hpipe2 : tkind pipe2 = PIPE.
  Let gterm_ : term := [CVar (NStr (lexeme g)) None].
  Let ge := EVariable g None.

  Theorem family_formula_group :
    describe (EBinary lhs tilde
               (EBinary (EBinary eone p1 (EGrouping (EBinary e pipe1 ge))) p2
                        (EGrouping (EBinary e' pipe2 ge)))) =
    Ok (Mod (Some yterm) [CI] [GT CI (CT gterm_); GT (CT [CCall t]) (CT gterm_)]).
  Proof.
    assert (Gg : goodt gterm_) by (constructor; [exact I | constructor]).
    assert (Egg : term_eqb gterm_ gterm_ = true) by (apply (e_refl _ _ E_term); exact Gg).
    assert (Ett : term_eqb [CCall t] [CCall t] = true) by (apply (e_refl _ _ E_term); apply family_good).
    assert (Et't : term_eqb [CCall t'] [CCall t] = true) by (apply (term_kwp_eqb _ _ family_good family_kwp)).
    unfold describe. rewrite (resolve_binary _ _ _ OpTilde) by (rewrite Htilde; reflexivity).
    rewrite (resolve_binary _ _ _ OpAdd) by (rewrite Hp2; reflexivity).
    rewrite (resolve_binary _ _ _ OpAdd) by (rewrite Hp1; reflexivity).
    cbn [resolve]. fold (resolve e) (resolve e').
    rewrite Hpipe1, Hpipe2. cbn [lookup_kind resolver_ops kind_eqb].
    change (resolve e) with (resolve e). rewrite (proj1 family_resolve), (proj2 family_resolve).
    unfold gterm_ in *. cbn -[term_eqb]. do 6 (rewrite ?Egg, ?Ett, ?Et't; unfold gterm_eqb, gmem, cmem; cbn -[term_eqb]).
    reflexivity.
  Qed.
End CallFamily.

(* ---- the hypotheses of the family are satisfiable: the tree of a concrete text is an instance ---- *)
Definition tokI (s : string) : token := mk IDENTIFIER s.
Definition kwI (name : string) (z : Z) : kwarg :=
  (tokI name, ELiteral (LInt z) None, LzVal (LInt z) None).

Example family_instance :
  let kws := [kwI "k" 1; kwI "m" 2] in
  let kws' := [kwI "m" 2; kwI "k" 1] in
  let pos := [EVariable (tokI "x") None] in
  Forall2 (fun e l => call_resolve e = Ok l) pos [LzVar "x"] /\
  Forall kw_resolves kws /\ NoDup (map kw_name kws) /\ Permutation kws kws' /\
  ast "y ~ h(x, k=1, m=2) + h(x, m=2, k=1)" =
    EBinary (EVariable (tokI "y") None) (mk TILDE "~")
      (EBinary (EBinary (ELiteral (LInt 1) None) (mk PLUS "+") (call_expr (tokI "h") None pos kws))
               (mk PLUS "+") (call_expr (tokI "h") None pos kws')).
Proof.
  cbv zeta. split; [repeat constructor|]. split; [repeat constructor|]. split.
  - cbn. constructor; [intros [H|[]]; discriminate | constructor; [intros [] | constructor]].
  - split; [apply perm_swap | vm_compute; reflexivity].
Qed.

(* ---- concrete texts, through the model's scanner and parser ---- *)
Definition names (s : string) : option (option string * list string * list string) :=
  match describe (ast s) with
  | Ok m => Some (option_map term_name (resp m), map cterm_name (commons m),
                  match mapM gterm_name (groups m) with Ok l => l | Err _ => ["?"] end)
  | Err _ => None
  end.

Example text_add : names "y ~ h(x, k=1, m=2) + h(x, m=2, k=1)" = Some (Some "y", ["Intercept"; "h(x, k=1, m=2)"], []).
Proof. vm_compute. reflexivity. Qed.
(* the first spelling survives, whichever it is *)
Example text_add_other_first : names "y ~ h(x, m=2, k=1) + h(x, k=1, m=2)" = Some (Some "y", ["Intercept"; "h(x, m=2, k=1)"], []).
Proof. vm_compute. reflexivity. Qed.
Example text_sub : names "y ~ h(x, k=1, m=2) - h(x, m=2, k=1)" = Some (Some "y", ["Intercept"], []).
Proof. vm_compute. reflexivity. Qed.
Example text_add_sub :
  names "y ~ a + h(x, k=1, m=2) + h(x, m=2, k=1) - h(x, k=1, m=2)" = Some (Some "y", ["Intercept"; "a"], []).
Proof. vm_compute. reflexivity. Qed.
Example text_colon : names "y ~ h(x, k=1, m=2):h(x, m=2, k=1)" = Some (Some "y", ["Intercept"; "h(x, k=1, m=2)"], []).
Proof. vm_compute. reflexivity. Qed.
Example text_colon3 : names "y ~ a:h(x, k=1, m=2):h(x, m=2, k=1)" = Some (Some "y", ["Intercept"; "a:h(x, k=1, m=2)"], []).
Proof. vm_compute. reflexivity. Qed.
Example text_star : names "y ~ h(x, k=1, m=2)*h(x, m=2, k=1)" = Some (Some "y", ["Intercept"; "h(x, k=1, m=2)"], []).
Proof. vm_compute. reflexivity. Qed.
Example text_group :
  names "y ~ (h(x, k=1, m=2) | g) + (h(x, m=2, k=1) | g)" = Some (Some "y", ["Intercept"], ["1|g"; "h(x, k=1, m=2)|g"]).
Proof. vm_compute. reflexivity. Qed.
Example text_nested :
  names "y ~ h(g(x, p=1, q=2), k=1, m=2) + h(g(x, q=2, p=1), m=2, k=1)"
  = Some (Some "y", ["Intercept"; "h(g(x, p=1, q=2), k=1, m=2)"], []).
Proof. vm_compute. reflexivity. Qed.
(* not collapsed: positional order, values attached to other names *)
Example text_positional : names "y ~ h(x, z, k=1) + h(z, x, k=1)" = Some (Some "y", ["Intercept"; "h(x, z, k=1)"; "h(z, x, k=1)"], []).
Proof. vm_compute. reflexivity. Qed.
Example text_values : names "y ~ h(x, k=1, m=2) + h(x, k=2, m=1)" = Some (Some "y", ["Intercept"; "h(x, k=1, m=2)"; "h(x, k=2, m=1)"], []).
Proof. vm_compute. reflexivity. Qed.
(* the library's own grammar lets a positional argument follow a keyword; the name lists positional
   arguments first, and the two spellings are the same term *)
Example text_interleaved : names "y ~ h(k=1, x, m=2) + h(x, m=2, k=1)" = Some (Some "y", ["Intercept"; "h(x, k=1, m=2)"], []).
Proof. vm_compute. reflexivity. Qed.
(* a repeated keyword is accepted: the last value at the first position *)
Example text_repeated_keyword : names "y ~ h(x, k=1, m=3, k=2)" = Some (Some "y", ["Intercept"; "h(x, k=2, m=3)"], []).
Proof. vm_compute. reflexivity. Qed.

Print Assumptions lazy_eqb_equivalence.
Print Assumptions call_eqb_refl_refuted_without_distinct_keys.
Print Assumptions call_eqb_sym_refuted_without_distinct_keys.
Print Assumptions resolved_call_distinct_keys.
Print Assumptions call_eqb_spec.
Print Assumptions keyword_order_irrelevant.
Print Assumptions keyword_values_relevant.
Print Assumptions kwp_eqb.
Print Assumptions term_kwp_eqb.
Print Assumptions gterm_kwp_eqb.
Print Assumptions slash_collapses.
Print Assumptions Rp_keyword_order.
Print Assumptions C02kw_add.
Print Assumptions C02kw_sub.
Print Assumptions C02kw_sub_general.
Print Assumptions C02kw_colon.
Print Assumptions add_term_group_present.
Print Assumptions model_sub_keyword_order.
Print Assumptions mk_term_first_spelling.
Print Assumptions mk_model_groups_first_spelling.
Print Assumptions call_expr_resolves.
Print Assumptions family_formula_add.
Print Assumptions family_formula_sub.
Print Assumptions family_formula_colon.
Print Assumptions family_formula_group.
Print Assumptions family_instance.
