(* Lists read as sets, up to a boolean equivalence [eqb] that is only required to be an equivalence
   on a carrier [P].  Membership is [existsb (eqb x) l]; two lists are the same set when they
   have the same members ([equ]).  Facts about the model's [dedup] and [remove_first]. *)
From Verif Require Import Base Algebra Wilkinson.
From Coq Require Import Lia.
Local Open Scope list_scope.

Record eqv {T} (eqb : T -> T -> bool) (P : T -> Prop) : Prop := {
  e_refl : forall x, P x -> eqb x x = true;
  e_sym : forall x y, P x -> P y -> eqb x y = true -> eqb y x = true;
  e_trans : forall x y z, P x -> P y -> P z -> eqb x y = true -> eqb y z = true -> eqb x z = true }.

Section Sets.
Context {T : Type} (eqb : T -> T -> bool) (P : T -> Prop) (E : eqv eqb P).

Definition mem (x : T) (l : list T) : bool := existsb (eqb x) l.
Definition equ (l1 l2 : list T) : Prop := forall x, P x -> mem x l1 = mem x l2.
Fixpoint nd (l : list T) : Prop :=
  match l with [] => True | x :: r => mem x r = false /\ nd r end.

Lemma eqb_comm : forall x y, P x -> P y -> eqb x y = eqb y x.
Proof.
  intros x y Hx Hy. destruct (eqb x y) eqn:A, (eqb y x) eqn:B; auto.
  - rewrite (e_sym _ _ E x y) in B; auto.
  - rewrite (e_sym _ _ E y x) in A; auto.
Qed.

Lemma eqb_trans_l : forall x y z, P x -> P y -> P z -> eqb x y = true -> eqb x z = eqb y z.
Proof.
  intros x y z Hx Hy Hz A. destruct (eqb y z) eqn:B.
  - apply (e_trans _ _ E x y z); auto.
  - destruct (eqb x z) eqn:C; auto. rewrite <- B. symmetry.
    apply (e_trans _ _ E y x z); auto. apply (e_sym _ _ E); auto.
Qed.

Lemma eqb_trans_r : forall x y z, P x -> P y -> P z -> eqb y z = true -> eqb x y = eqb x z.
Proof. intros. rewrite (eqb_comm x y), (eqb_comm x z) by auto. apply eqb_trans_l; auto. Qed.

Lemma mem_app : forall x l1 l2, mem x (l1 ++ l2) = mem x l1 || mem x l2.
Proof. intros. apply existsb_app. Qed.

Lemma mem_cons : forall x y l, mem x (y :: l) = eqb x y || mem x l.
Proof. reflexivity. Qed.

Lemma mem_ex : forall x l, mem x l = true <-> exists y, In y l /\ eqb x y = true.
Proof. intros. apply existsb_exists. Qed.

Lemma mem_in : forall x l, P x -> In x l -> mem x l = true.
Proof. intros x l Hx Hi. apply mem_ex. exists x. split; auto. apply (e_refl _ _ E); auto. Qed.

Lemma mem_eqb : forall x y l, P x -> P y -> Forall P l -> eqb x y = true -> mem x l = mem y l.
Proof.
  intros x y l Hx Hy Hl A. induction l as [|z l IH]; auto.
  inversion Hl; subst. rewrite !mem_cons, IH by auto. f_equal. apply eqb_trans_l; auto.
Qed.

Lemma mem_false : forall x l, mem x l = false -> forall y, In y l -> eqb x y = false.
Proof.
  intros x l H y Hy. destruct (eqb x y) eqn:A; auto.
  assert (mem x l = true) by (apply mem_ex; eauto). congruence.
Qed.

Lemma equ_refl : forall l, equ l l.
Proof. red; auto. Qed.
Lemma equ_sym : forall a b, equ a b -> equ b a.
Proof. red; intros; symmetry; auto. Qed.
Lemma equ_trans : forall a b c, equ a b -> equ b c -> equ a c.
Proof. red; intros a b c H1 H2 x Hx. rewrite H1, H2; auto. Qed.
Lemma equ_app : forall a a' b b', equ a a' -> equ b b' -> equ (a ++ b) (a' ++ b').
Proof. red; intros. rewrite !mem_app. f_equal; auto. Qed.

(* ---- the boolean set comparisons of the specification ---- *)
Lemma sub_spec : forall a b, sub eqb a b = true <-> forall x, In x a -> mem x b = true.
Proof. intros. unfold sub. rewrite forallb_forall. reflexivity. Qed.

Lemma sub_mem : forall a b x, Forall P a -> Forall P b -> P x ->
  sub eqb a b = true -> mem x a = true -> mem x b = true.
Proof.
  intros a b x Ha Hb Hx S M. apply mem_ex in M. destruct M as (y & Hy & A).
  rewrite (mem_eqb x y); auto. - rewrite sub_spec in S; auto. - rewrite Forall_forall in Ha; auto.
Qed.

Lemma same_equ : forall a b, Forall P a -> Forall P b -> (same eqb a b = true <-> equ a b).
Proof.
  intros a b Ha Hb. unfold same. rewrite andb_true_iff. split.
  - intros [S1 S2] x Hx. destruct (mem x a) eqn:A.
    + symmetry. apply (sub_mem a b x); auto.
    + destruct (mem x b) eqn:B; auto. rewrite <- A. apply (sub_mem b a x); auto.
  - intros Eq. rewrite !sub_spec. rewrite Forall_forall in Ha, Hb.
    split; intros x Hx; [rewrite <- Eq | rewrite Eq]; auto; apply mem_in; auto.
Qed.

(* the lifted equality is again an equivalence *)
Lemma eqv_same : eqv (same eqb) (Forall P).
Proof.
  split.
  - intros x Hx. apply same_equ; auto. apply equ_refl.
  - intros x y Hx Hy A. apply same_equ; auto. apply same_equ in A; auto. apply equ_sym; auto.
  - intros x y z Hx Hy Hz A B. apply same_equ; auto. apply same_equ in A, B; auto.
    apply (equ_trans x y z); auto.
Qed.

(* ---- diff, nub ---- *)
Lemma mem_diff : forall a b x, Forall P a -> Forall P b -> P x ->
  mem x (diff eqb a b) = mem x a && negb (mem x b).
Proof.
  intros a b x Ha Hb Hx. induction a as [|y a IH]; auto.
  inversion Ha; subst. cbn [diff filter]. fold (diff eqb a b). fold (mem y b).
  destruct (mem y b) eqn:M; cbn [negb].
  - rewrite IH by auto. rewrite mem_cons. destruct (eqb x y) eqn:A; auto.
    rewrite (mem_eqb x y b), M by auto. cbn. rewrite andb_false_r. reflexivity.
  - rewrite !mem_cons, IH by auto. destruct (eqb x y) eqn:A; auto.
    rewrite (mem_eqb x y b), M by auto. reflexivity.
Qed.

Lemma Forall_diff : forall (Q : T -> Prop) a b, Forall Q a -> Forall Q (diff eqb a b).
Proof. intros Q a b H. rewrite Forall_forall in *. intros x Hx. apply filter_In in Hx. apply H, Hx. Qed.

Lemma mem_nub : forall l x, Forall P l -> P x -> mem x (nub eqb l) = mem x l.
Proof.
  intros l x Hl Hx. induction l as [|y l IH]; auto. inversion Hl; subst.
  cbn [nub fold_right]. fold (nub eqb l). fold (mem y (nub eqb l)).
  assert (Forall P (nub eqb l)) as Hn.
  { clear - H2. induction l; cbn; auto. inversion H2; subst. fold (nub eqb l).
    destruct (existsb (eqb a) (nub eqb l)); auto. }
  destruct (mem y (nub eqb l)) eqn:M; rewrite ?mem_cons, IH by auto; auto.
  destruct (eqb x y) eqn:A; auto. rewrite <- IH by auto. rewrite (mem_eqb x y); auto.
Qed.

Lemma Forall_nub : forall (Q : T -> Prop) l, Forall Q l -> Forall Q (nub eqb l).
Proof.
  intros Q l H. induction l; cbn; auto. inversion H; subst. fold (nub eqb l).
  destruct (existsb (eqb a) (nub eqb l)); auto.
Qed.

Lemma nd_nub : forall l, nd (nub eqb l).
Proof.
  induction l; cbn; auto. fold (nub eqb l). destruct (existsb (eqb a) (nub eqb l)) eqn:M; auto.
  split; auto.
Qed.

(* ---- dedup (Model(...), add_terms) ---- *)
Lemma Forall_dedup : forall (Q : T -> Prop) l acc, Forall Q acc -> Forall Q l -> Forall Q (dedup eqb acc l).
Proof.
  intros Q l. induction l as [|x l IH]; intros acc Ha Hl; cbn; auto. inversion Hl; subst.
  destruct (existsb (eqb x) acc); apply IH; auto. apply Forall_app; auto.
Qed.

Lemma mem_dedup : forall l acc x, Forall P acc -> Forall P l -> P x ->
  mem x (dedup eqb acc l) = mem x acc || mem x l.
Proof.
  induction l as [|y l IH]; intros acc x Ha Hl Hx; cbn [dedup].
  - cbn. rewrite orb_false_r. reflexivity.
  - inversion Hl; subst. fold (mem y acc). destruct (mem y acc) eqn:M.
    + rewrite IH, mem_cons by auto. destruct (eqb x y) eqn:A; auto.
      rewrite (mem_eqb x y acc), M; auto.
    + rewrite IH, mem_app, mem_cons by (auto; apply Forall_app; auto). cbn.
      rewrite orb_false_r, orb_assoc. reflexivity.
Qed.

Lemma nd_snoc : forall l x, Forall P l -> P x -> nd l -> mem x l = false -> nd (l ++ [x]).
Proof.
  induction l as [|y l IH]; intros x Hl Hx N M; cbn; auto.
  inversion Hl; subst. destruct N as [N1 N2]. rewrite mem_cons in M. apply orb_false_iff in M.
  destruct M as [M1 M2]. split; auto. fold (mem y (l ++ [x])). rewrite mem_app, N1. cbn.
  rewrite eqb_comm, M1; auto.
Qed.

Lemma nd_dedup : forall l acc, Forall P acc -> Forall P l -> nd acc -> nd (dedup eqb acc l).
Proof.
  induction l as [|y l IH]; intros acc Ha Hl N; cbn [dedup]; auto. inversion Hl; subst.
  fold (mem y acc). destruct (mem y acc) eqn:M; apply IH; auto.
  - apply Forall_app; auto. - apply nd_snoc; auto.
Qed.

(* ---- remove_first on duplicate-free lists (list.remove) ---- *)
Definition rm (x : T) (l : list T) : list T := if mem x l then remove_first eqb x l else l.

Lemma Forall_remove_first : forall (Q : T -> Prop) x l, Forall Q l -> Forall Q (remove_first eqb x l).
Proof.
  intros Q x l H. induction l as [|y l IH]; cbn; auto. inversion H; subst.
  destruct (eqb x y); auto.
Qed.

Lemma mem_remove_first : forall l x y, Forall P l -> P x -> P y -> nd l ->
  mem y (remove_first eqb x l) = mem y l && negb (eqb x y).
Proof.
  induction l as [|z l IH]; intros x y Hl Hx Hy N; auto.
  inversion Hl; subst. destruct N as [N1 N2]. cbn [remove_first]. destruct (eqb x z) eqn:A.
  - rewrite mem_cons. destruct (eqb x y) eqn:B.
    + assert (eqb y z = true) as C.
      { apply (e_trans _ _ E y x z); auto. apply (e_sym _ _ E); auto. }
      rewrite (mem_eqb y z l), N1 by auto. rewrite andb_false_r. reflexivity.
    + assert (eqb y z = false) as C.
      { destruct (eqb y z) eqn:C; auto. rewrite <- B. symmetry.
        apply (e_trans _ _ E x z y); auto. apply (e_sym _ _ E); auto. }
      rewrite C. cbn. rewrite andb_true_r. reflexivity.
  - rewrite !mem_cons, IH by auto. destruct (eqb y z) eqn:C; auto. cbn.
    destruct (eqb x y) eqn:B; auto.
    assert (eqb x z = true) by (apply (e_trans _ _ E x y z); auto). congruence.
Qed.

Lemma mem_rm : forall l x y, Forall P l -> P x -> P y -> nd l ->
  mem y (rm x l) = mem y l && negb (eqb x y).
Proof.
  intros l x y Hl Hx Hy N. unfold rm. destruct (mem x l) eqn:M.
  - apply mem_remove_first; auto.
  - destruct (eqb x y) eqn:A; cbn; rewrite ?andb_true_r, ?andb_false_r; auto.
    rewrite <- (mem_eqb x y l), M; auto.
Qed.

Lemma nd_remove_first : forall l x, nd l -> (forall y, In y (remove_first eqb x l) -> In y l) /\ nd (remove_first eqb x l).
Proof.
  induction l as [|z l IH]; intros x N; cbn; auto. destruct N as [N1 N2].
  destruct (eqb x z); [split; auto|]. destruct (IH x N2) as [I1 I2]. split.
  - intros y [->|H]; auto.
  - split; auto. fold (mem z (remove_first eqb x l)). destruct (mem z (remove_first eqb x l)) eqn:M; auto.
    apply mem_ex in M. destruct M as (w & Hw & A). rewrite (mem_false _ _ N1 w) in A; auto.
Qed.

Lemma nd_rm : forall l x, nd l -> nd (rm x l).
Proof. intros. unfold rm. destruct (mem x l); auto. apply nd_remove_first; auto. Qed.
Lemma Forall_rm : forall (Q : T -> Prop) x l, Forall Q l -> Forall Q (rm x l).
Proof. intros. unfold rm. destruct (mem x l); auto. apply Forall_remove_first; auto. Qed.

(* removing every element of [xs], one after the other (Model.__sub__) *)
Definition rm_all (xs l : list T) : list T := fold_left (fun acc x => rm x acc) xs l.

Lemma rm_all_props : forall xs l, Forall P xs -> Forall P l -> nd l ->
  Forall P (rm_all xs l) /\ nd (rm_all xs l) /\
  forall y, P y -> mem y (rm_all xs l) = mem y l && negb (mem y xs).
Proof.
  induction xs as [|x xs IH]; intros l Hx Hl N; cbn [rm_all fold_left].
  - repeat split; auto. intros. cbn. rewrite andb_true_r. reflexivity.
  - inversion Hx; subst. destruct (IH (rm x l)) as (F & N' & M); auto using Forall_rm, nd_rm.
    repeat split; auto. intros y Hy. unfold rm_all in M. rewrite M, mem_rm, mem_cons by auto.
    rewrite (eqb_comm y x) by auto. rewrite negb_orb, andb_assoc. reflexivity.
Qed.

Lemma Forall_rm_all : forall (Q : T -> Prop) xs l, Forall Q l -> Forall Q (rm_all xs l).
Proof. induction xs; intros; cbn; auto. apply IHxs. apply Forall_rm; auto. Qed.

(* ---- images ---- *)
Lemma mem_prod : forall {A B} (ea : A -> A -> bool) (eb : B -> B -> bool) x y la lb,
  existsb (fun p => ea x (fst p) && eb y (snd p)) (list_prod la lb) = existsb (ea x) la && existsb (eb y) lb.
Proof.
  intros A B ea eb x y la lb. induction la as [|a la IH]; auto. cbn [list_prod].
  rewrite existsb_app, IH. cbn [existsb]. rewrite andb_orb_distrib_l. f_equal. clear IH.
  induction lb as [|b lb IHb]; cbn; [rewrite andb_false_r; auto|]. rewrite IHb.
  rewrite andb_orb_distrib_r. reflexivity.
Qed.
End Sets.

Arguments mem {T} eqb x l.
Arguments equ {T} eqb P l1 l2.
Arguments nd {T} eqb l.
Arguments rm {T} eqb x l.
Arguments rm_all {T} eqb xs l.

(* [map f] respects membership when [f] respects the equalities *)
Lemma equ_map : forall {A T} (ea : A -> A -> bool) (PA : A -> Prop) (eqb : T -> T -> bool) (P : T -> Prop)
  (f g : A -> T) l l',
  eqv ea PA -> eqv eqb P ->
  (forall x, PA x -> P (f x)) -> (forall x, PA x -> P (g x)) ->
  (forall x y, PA x -> PA y -> ea x y = true -> eqb (f x) (g y) = true) ->
  Forall PA l -> Forall PA l' -> equ ea PA l l' -> equ eqb P (map f l) (map g l').
Proof.
  intros A T ea PA eqb P f g l l' EA E Pf Pg C Hl Hl' Eq x Hx.
  rewrite Forall_forall in Hl, Hl'.
  destruct (mem eqb x (map f l)) eqn:M1; destruct (mem eqb x (map g l')) eqn:M2; auto.
  - apply mem_ex in M1. destruct M1 as (y & Hy & A1). apply in_map_iff in Hy. destruct Hy as (a & <- & Ha).
    assert (mem ea a l' = true) as M by (rewrite <- Eq; auto; apply (mem_in _ _ EA); auto).
    apply mem_ex in M. destruct M as (b & Hb & B).
    assert (mem eqb x (map g l') = true); [|congruence].
    apply mem_ex. exists (g b). split; [apply in_map; auto|].
    eapply (e_trans _ _ E); [| | | exact A1 | ]; auto.
  - apply mem_ex in M2. destruct M2 as (y & Hy & A1). apply in_map_iff in Hy. destruct Hy as (b & <- & Hb).
    assert (mem ea b l = true) as M by (rewrite Eq; auto; apply (mem_in _ _ EA); auto).
    apply mem_ex in M. destruct M as (a & Ha & B).
    assert (mem eqb x (map f l) = true); [|congruence].
    apply mem_ex. exists (f a). split; [apply in_map; auto|].
    eapply (e_trans _ _ E); [| | | exact A1 | ]; auto.
    apply (e_sym _ _ E); auto. apply C; auto. apply (e_sym _ _ EA); auto.
Qed.

(* dedup / remove_first commute with an embedding that preserves the equality *)
Lemma dedup_map : forall {A B} (ea : A -> A -> bool) (eb : B -> B -> bool) (f : A -> B),
  (forall x y, eb (f x) (f y) = ea x y) ->
  forall l acc, dedup eb (map f acc) (map f l) = map f (dedup ea acc l).
Proof.
  intros A B ea eb f H. induction l as [|x l IH]; intros acc; cbn [map dedup]; auto.
  assert (existsb (eb (f x)) (map f acc) = existsb (ea x) acc) as ->.
  { induction acc; cbn; auto. rewrite H, IHacc. auto. }
  destruct (existsb (ea x) acc); auto. rewrite <- IH, map_app. reflexivity.
Qed.

Lemma remove_first_map : forall {A B} (ea : A -> A -> bool) (eb : B -> B -> bool) (f : A -> B),
  (forall x y, eb (f x) (f y) = ea x y) ->
  forall x l, remove_first eb (f x) (map f l) = map f (remove_first ea x l).
Proof.
  intros A B ea eb f H x. induction l as [|y l IH]; cbn; auto. rewrite H, IH. destruct (ea x y); auto.
Qed.

Lemma mem_map_emb : forall {A B} (ea : A -> A -> bool) (eb : B -> B -> bool) (f : A -> B),
  (forall x y, eb (f x) (f y) = ea x y) -> forall x l, mem eb (f x) (map f l) = mem ea x l.
Proof. intros A B ea eb f H x. induction l; cbn; auto. rewrite H. f_equal. auto. Qed.

Lemma rm_all_map : forall {A B} (ea : A -> A -> bool) (eb : B -> B -> bool) (f : A -> B),
  (forall x y, eb (f x) (f y) = ea x y) ->
  forall xs l, rm_all eb (map f xs) (map f l) = map f (rm_all ea xs l).
Proof.
  intros A B ea eb f H. induction xs as [|x xs IH]; intros l; cbn; auto.
  unfold rm_all in IH. rewrite <- IH. f_equal. unfold rm.
  rewrite (mem_map_emb ea eb f H), (remove_first_map ea eb f H). destruct (mem ea x l); auto.
Qed.

(* products *)
Definition peqb {A B} (ea : A -> A -> bool) (eb : B -> B -> bool) (p q : A * B) : bool :=
  ea (fst p) (fst q) && eb (snd p) (snd q).
Definition pboth {A B} (PA : A -> Prop) (PB : B -> Prop) (p : A * B) : Prop := PA (fst p) /\ PB (snd p).

Lemma eqv_pair : forall {A B} (ea : A -> A -> bool) (eb : B -> B -> bool) PA PB,
  eqv ea PA -> eqv eb PB -> eqv (peqb ea eb) (pboth PA PB).
Proof.
  intros A B ea eb PA PB EA EB. unfold peqb, pboth. split.
  - intros [a b] [H1 H2]. cbn in *. rewrite (e_refl _ _ EA), (e_refl _ _ EB); auto.
  - intros [a b] [c d] [H1 H2] [H3 H4]. cbn in *. rewrite !andb_true_iff.
    intros [X Y]. split; [apply (e_sym _ _ EA) | apply (e_sym _ _ EB)]; auto.
  - intros [a b] [c d] [e f] [H1 H2] [H3 H4] [H5 H6]. cbn in *. rewrite !andb_true_iff.
    intros [X Y] [Z W]. split; [apply (e_trans _ _ EA a c e) | apply (e_trans _ _ EB b d f)]; auto.
Qed.

Lemma Forall_prod : forall {A B} (PA : A -> Prop) (PB : B -> Prop) la lb,
  Forall PA la -> Forall PB lb -> Forall (pboth PA PB) (list_prod la lb).
Proof.
  intros A B PA PB la lb Ha Hb. rewrite Forall_forall in *. intros [a b] H. apply in_prod_iff in H.
  split; cbn; [apply Ha | apply Hb]; tauto.
Qed.

Lemma equ_prod : forall {A B} (ea : A -> A -> bool) (eb : B -> B -> bool) PA PB la la' lb lb',
  equ ea PA la la' -> equ eb PB lb lb' ->
  equ (peqb ea eb) (pboth PA PB) (list_prod la lb) (list_prod la' lb').
Proof.
  intros A B ea eb PA PB la la' lb lb' Ea Eb [x y] [Hx Hy]. unfold mem, peqb. cbn [fst snd] in *.
  rewrite !mem_prod. f_equal; [apply Ea | apply Eb]; auto.
Qed.

(* the image of a product under a binary operation that respects the equalities *)
Lemma equ_map2 : forall {A B T} (ea : A -> A -> bool) (eb : B -> B -> bool) PA PB
  (eqb : T -> T -> bool) (P : T -> Prop) (f g : A -> B -> T) la la' lb lb',
  eqv ea PA -> eqv eb PB -> eqv eqb P ->
  (forall x y, PA x -> PB y -> P (f x y)) -> (forall x y, PA x -> PB y -> P (g x y)) ->
  (forall x x' y y', PA x -> PA x' -> PB y -> PB y' -> ea x x' = true -> eb y y' = true ->
                     eqb (f x y) (g x' y') = true) ->
  Forall PA la -> Forall PA la' -> Forall PB lb -> Forall PB lb' ->
  equ ea PA la la' -> equ eb PB lb lb' ->
  equ eqb P (map (fun p => f (fst p) (snd p)) (list_prod la lb))
            (map (fun p => g (fst p) (snd p)) (list_prod la' lb')).
Proof.
  intros A B T ea eb PA PB eqb P f g la la' lb lb' EA EB E Pf Pg C Ha Ha' Hb Hb' Ea Eb.
  apply (equ_map (peqb ea eb) (pboth PA PB) eqb P); auto using eqv_pair, Forall_prod, equ_prod.
  - intros [x y] [H1 H2]; cbn; auto.
  - intros [x y] [H1 H2]; cbn; auto.
  - intros [x y] [x' y'] [H1 H2] [H3 H4]. unfold peqb. cbn. rewrite andb_true_iff. intros [X Y]. auto.
Qed.

(* ---- k-element sub-lists ---- *)
Section Comb.
Context {T : Type} (eqb : T -> T -> bool) (P : T -> Prop) (E : eqv eqb P).

Lemma comb_sub : forall (M : list T) k c, In c (combinations M k) ->
  List.length c = k /\ (forall y, In y c -> In y M) /\ (nd eqb M -> nd eqb c).
Proof.
  induction M as [|m M IH]; intros k c H; destruct k as [|k]; cbn in H.
  - destruct H as [<-|[]]. cbn. tauto.
  - destruct H.
  - destruct H as [<-|[]]. cbn. tauto.
  - apply in_app_or in H. destruct H as [H|H].
    + apply in_map_iff in H. destruct H as (c0 & <- & H). destruct (IH _ _ H) as (L & I & N).
      cbn. repeat split; auto.
      * intros y [->|Hy]; auto.
      * destruct H0 as [N1 N2]. destruct (existsb (eqb m) c0) eqn:X; auto.
        apply existsb_exists in X. destruct X as (y & Hy & A).
        rewrite (mem_false eqb m M N1 y) in A; auto. discriminate.
      * destruct H0; auto.
    + destruct (IH _ _ H) as (L & I & N). repeat split; auto.
      * intros y Hy; right; auto.
      * intros [_ N2]; auto.
Qed.

Lemma length_remove_first : forall x (l : list T), mem eqb x l = true ->
  S (List.length (remove_first eqb x l)) = List.length l.
Proof.
  induction l as [|y l IH]; cbn; [discriminate|]. destruct (eqb x y); cbn; auto.
Qed.

Lemma comb_exists : forall M, Forall P M -> nd eqb M ->
  forall c, Forall P c -> nd eqb c -> (forall y, In y c -> mem eqb y M = true) ->
  exists c', In c' (combinations M (List.length c)) /\ Forall P c' /\ equ eqb P c' c.
Proof.
  induction M as [|m M IH]; intros HM NM c Hc Nc Sub.
  - destruct c as [|y c]; [|specialize (Sub y (or_introl eq_refl)); discriminate].
    exists []. cbn. repeat split; auto.
  - inversion HM; subst. destruct NM as [N1 N2]. rename H1 into Pm, H2 into PM.
    destruct (mem eqb m c) eqn:X.
    + set (c0 := remove_first eqb m c).
      assert (Forall P c0) as Pc0 by (apply Forall_remove_first; auto).
      destruct (nd_remove_first eqb c m Nc) as [I0 N0]. fold c0 in I0, N0.
      assert (forall y, P y -> mem eqb y c0 = mem eqb y c && negb (eqb m y)) as M0
        by (intros; apply (mem_remove_first eqb P E); auto).
      destruct (IH PM N2 c0 Pc0 N0) as (c0' & Hin & Pc0' & Eq).
      { intros y Hy. rewrite Forall_forall in Pc0. pose proof (Pc0 y Hy) as Py.
        pose proof (M0 y Py) as My. rewrite (mem_in eqb P E y c0) in My by auto.
        symmetry in My. apply andb_true_iff in My. destruct My as [_ My].
        pose proof (Sub y (I0 y Hy)) as S. rewrite mem_cons in S.
        rewrite (eqb_comm eqb P E y m) in S by auto. destruct (eqb m y); [discriminate | auto]. }
      exists (m :: c0'). rewrite <- (length_remove_first m c X). fold c0. cbn [combinations].
      repeat split; auto.
      * apply in_or_app. left. apply in_map. auto.
      * intros y Py. rewrite mem_cons, Eq, M0 by auto. rewrite (eqb_comm eqb P E m y) by auto.
        destruct (eqb y m) eqn:A; cbn; [|rewrite andb_true_r; reflexivity].
        rewrite (mem_eqb eqb P E y m c); auto.
    + destruct (IH PM N2 c Hc Nc) as (c' & Hin & Pc' & Eq).
      { intros y Hy. pose proof (Sub y Hy) as S. rewrite mem_cons in S.
        destruct (eqb y m) eqn:A; auto. rewrite Forall_forall in Hc.
        assert (mem eqb m c = true); [|congruence]. apply mem_ex. exists y. split; auto.
        apply (e_sym _ _ E); auto. }
      exists c'. repeat split; auto. destruct (List.length c) eqn:L; cbn [combinations]; [destruct M; cbn in Hin; auto|].
      apply in_or_app. right. auto.
Qed.
End Comb.
