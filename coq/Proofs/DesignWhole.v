(* C04 for a WHOLE design, and C15 (the response), stated uniformly:

     "every column of the design matrices holds exactly what its label says; labels and columns are
      in the same order and equal in number; levels of unordered data are sorted while declared
      orders are respected".

   The model (Model/Design.v) carries its labels as STRINGS only.  We therefore introduce structured
   labels ([slabel]: one (component, piece) pair per component of the term; the empty list is the
   intercept), a printer [print_slabel] and ONE denotation [denote_slabel] / [denote], and prove

   1. [eval_model_whole], [design_matrices_whole]: for the flattened common matrix
      [common_matrix ds] (the blocks of the terms side by side, in term order) and the flattened
      label list [common_labels ds]: labels = map print columns, row i = map (denote . i) columns,
      where [design_columns ds] lists the structured labels; hence as many labels as columns, and
      column j is the denotation of label j ([design_matrices_column], and on the frame itself:
      [design_matrices_column_frame] with [denote_frame : dctx -> frame -> flabel -> list cell]).
   2. Label uniqueness: [common_labels_NoDup] (hypotheses: no ':' inside a component label, no
      component name extends another one by '[', the labels of each single component are distinct;
      [coded_comp_labels_NoDup] discharges the last one), and the three ways the model lets two
      columns of one design carry the same string ([label_clash_backquote_refuted],
      [label_clash_level_refuted], [label_clash_mean_refuted]); the same for the group-specific
      labels ([group_labels_NoDup], [group_label_clash_refuted]).
      [design_supported]: which designs are covered by 1 (all but three corner cases, read off the
      values of the components); [coded_labels_colon_free]: the first condition of 2 from the inputs.
   3. The response ([response_whole]): numeric / matrix / level indicator / full indicators /
      proportion, as "row i of the response = the denotations of its pieces".
   4. Level order ([str_lt_strict_total], [design_levels_order], [levels_numeric_not_textual]). *)
From Verif Require Import Base Tokens Lazy Algebra Coding Contrasts Frame Eval Design Driver.
From Verif Require Import DesignStructure DesignCoding DesignSum FrameStructure HelpersProofs.
From Verif Require Import Prediction PredictionGroups Containers CodingOptions ResponseProofs DesignMatrixComp.
From Coq Require Import Lia Permutation Sorted OrderedTypeEx.
Local Close Scope Qc_scope.
Local Close Scope Q_scope.
Local Open Scope string_scope.
Local Open Scope list_scope.
Local Open Scope nat_scope.

(* ------------------------------------------------------------------------------------------ *)
(** * 1. Structured labels, their printed form and their denotation *)

(* one factor of a column: a typed component and one of its pieces (DesignMatrixComp.piece') *)
Definition scomp := (tcomp * piece')%type.
(* a column of a term: one factor per component, in component order; [] is the intercept *)
Definition slabel := list scomp.

Definition plab (cp : scomp) : string := piece_label' (tc_name (fst cp)) (snd cp).
Definition pden (i : nat) (cp : scomp) : cell := denote_piece' (snd cp) (comp_datum' (fst cp) i).

Definition joinc (p0 : string) (ps : list string) : string :=
  fold_left (fun a b => (a ++ ":" ++ b)%string) ps p0.

(* the printed label: the pieces' labels joined by ":" *)
Definition print_slabel (l : slabel) : string :=
  match l with [] => "Intercept" | cp :: r => joinc (plab cp) (map plab r) end.

(** THE denotation: on observation i a column holds the product of what its pieces denote there
    (numeric value / level indicator / sum-contrast value / [mean] / matrix entry / offset); the
    intercept holds 1. *)
Definition denote_slabel (l : slabel) (i : nat) : cell :=
  match l with [] => zcell 1 | cp :: r => fold_left cmul (map (pden i) r) (pden i cp) end.

(* as a column over n observations *)
Definition denote (n : nat) (l : slabel) : list cell := map (denote_slabel l) (seq 0 n).

(* column j of a matrix given by rows *)
Definition matrix_column (j : nat) (rows : list (list cell)) : list cell :=
  map (fun r => nth j r None) rows.

Definition lcol (i : nat) (l : slabel) : string * cell := (print_slabel l, denote_slabel l i).
Definition lfac (i : nat) (cp : scomp) : string * cell := (plab cp, pden i cp).

Lemma lcol_single i cp : lcol i [cp] = lfac i cp.
Proof. reflexivity. Qed.

Lemma lcol_snoc i l cp : l <> [] -> lcol i (l ++ [cp]) = lmul ":" (lcol i l) (lfac i cp).
Proof.
  destruct l as [|c0 r]; [congruence|]. intros _. unfold lcol, lmul, lfac. cbn [app print_slabel denote_slabel fst snd].
  unfold joinc. rewrite !map_app, !fold_left_app. reflexivity.
Qed.

(* the columns of a component, of a term, of the design -- read off the design itself *)
Definition comp_cols (d : dcomp) : list scomp :=
  map (fun p => (dc_t d, p)) (comp_pieces' (dc_t d) (dc_spans d)).

Definition step_cols (acc : list slabel) (d : dcomp) : list slabel :=
  flat_map (fun a => map (fun cp => a ++ [cp]) (comp_cols d)) acc.

(* left factor slowest, as get_interaction_matrix *)
Definition dterm_columns (t : dterm) : list slabel :=
  match dt_comps t with
  | [] => [[]]
  | d0 :: rest => fold_left step_cols rest (map (fun cp => [cp]) (comp_cols d0))
  end.

Definition design_columns (ds : design) : list slabel := flat_map dterm_columns (ds_common ds).

Definition dt_labs (t : dterm) : list string := match dt_labels t with Some l => l | None => [] end.
Definition common_labels (ds : design) : list string := flat_map dt_labs (ds_common ds).

Definition nonnil {T} (l : list T) : Prop := l <> [].

Lemma step_cols_nonnil acc d : Forall nonnil (step_cols acc d).
Proof.
  unfold step_cols. apply Forall_forall. intros x Hx. apply in_flat_map in Hx as (a & _ & Hx).
  apply in_map_iff in Hx as (cp & <- & _). unfold nonnil. destruct a; discriminate.
Qed.

Lemma step_cols_lprod i acc d :
  Forall nonnil acc ->
  map (lcol i) (step_cols acc d) = lprod ":" (map (lcol i) acc) (map (lfac i) (comp_cols d)).
Proof.
  intros Hne. rewrite lprod_lmul. unfold step_cols.
  induction Hne as [|a acc Ha _ IH]; [reflexivity|]. simpl.
  rewrite map_app. f_equal; [|exact IH]. rewrite !map_map. apply map_ext. intros cp. apply lcol_snoc. exact Ha.
Qed.

Lemma fold_step_cols i rest : forall acc,
  Forall nonnil acc ->
  map (lcol i) (fold_left step_cols rest acc)
  = fold_left (lprod ":") (map (fun d => map (lfac i) (comp_cols d)) rest) (map (lcol i) acc).
Proof.
  induction rest as [|d rest IH]; intros acc Hne; cbn [fold_left map]; [reflexivity|].
  rewrite IH by apply step_cols_nonnil. rewrite step_cols_lprod by exact Hne. reflexivity.
Qed.

Lemma combine_eq_map {S T U} (a : list S) (b : list T) (l : list U) (f : U -> S * T) :
  List.length a = List.length b -> combine a b = map f l ->
  a = map (fun u => fst (f u)) l /\ b = map (fun u => snd (f u)) l.
Proof.
  intros L E. split.
  - rewrite <- (map_fst_combine_eq a b L), E, map_map. reflexivity.
  - rewrite <- (map_snd_combine_eq a b L), E, map_map. reflexivity.
Qed.

Lemma Forall2_imp {A B} (P Q : A -> B -> Prop) l r :
  (forall a b, P a b -> Q a b) -> Forall2 P l r -> Forall2 Q l r.
Proof. intros H. induction 1; constructor; auto. Qed.

Lemma Forall2_cons_inv {A B} (R : A -> B -> Prop) x l y r :
  Forall2 R (x :: l) (y :: r) -> R x y /\ Forall2 R l r.
Proof. intros H. inversion H; subst. auto. Qed.

(* what [set_data_term] stores as components *)
Lemma set_data_term_comps_t nrows name cs s dt :
  set_data_term nrows (TTTerm name cs) s = Ok dt ->
  Forall2 (fun c d => set_data_comp c (spans_for s (tc_name c)) nrows = Ok d /\
                      dc_t d = c /\ dc_spans d = spans_for s (tc_name c)) cs (dt_comps dt).
Proof.
  intros H. pose proof (set_data_term_comps _ _ _ _ _ H) as Hds. apply mapM_ok in Hds.
  eapply Forall2_imp; [|exact Hds]. cbn beta. intros c d Hd.
  destruct (set_data_comp_spans _ _ _ _ Hd) as [H1 H2]. auto.
Qed.

(** One term of coded components (numeric, Treatment, Sum, matrix-valued, offset): its labels are
    the printed structured labels, and every row holds their denotations -- same order, same
    number. *)
Theorem dterm_columns_spec nrows name c0 crest s dt i :
  Forall coded_comp' (c0 :: crest) ->
  set_data_term nrows (TTTerm name (c0 :: crest)) s = Ok dt ->
  Forall (fun c => i < comp_nrows' nrows c) (c0 :: crest) ->
  dt_labels dt = Some (map print_slabel (dterm_columns dt)) /\
  nth i (dt_rows dt) [] = map (fun l => denote_slabel l i) (dterm_columns dt).
Proof.
  intros Hcoded H Hi.
  destruct (set_data_term_coded'_denote nrows name c0 crest s dt i Hcoded H Hi) as (labs & Hlabs & Hc & Hl).
  pose proof (set_data_term_comps_t _ _ _ _ _ H) as Hds.
  destruct (dt_comps dt) as [|d0 rest] eqn:E2; [inversion Hds|].
  apply Forall2_cons_inv in Hds as [(_ & Ht0 & Hs0) Hrest].
  assert (Hcols : forall c d, dc_t d = c -> dc_spans d = spans_for s (tc_name c) ->
                    map (lfac i) (comp_cols d) = map (lpiece' c i) (comp_pieces' c (spans_for s (tc_name c)))).
  { intros c d <- E. unfold comp_cols. rewrite E, map_map. reflexivity. }
  assert (E : combine labs (nth i (dt_rows dt) []) = map (lcol i) (dterm_columns dt)).
  { rewrite Hc. unfold dterm_columns. rewrite E2.
    rewrite fold_step_cols by (apply Forall_map, Forall_forall; intros; discriminate).
    rewrite map_map. f_equal.
    - clear -Hrest Hcols. induction Hrest as [|c d cs ds (_ & Ht & Hs) _ IH]; cbn [map]; [reflexivity|].
      rewrite IH. f_equal. symmetry. apply Hcols; assumption.
    - rewrite <- (Hcols c0 d0 Ht0 Hs0). apply map_ext. intros cp. reflexivity. }
  destruct (combine_eq_map _ _ _ _ Hl E) as [E1 E3]. cbn [lcol fst snd] in E1, E3.
  rewrite Hlabs, E1, E3. split; reflexivity.
Qed.

(** The labels alone (no observation needed): the labels of a coded component are the labels of
    its pieces ... *)
Lemma coded_comp'_labels t spans nrows dc :
  coded_comp' t -> set_data_comp t spans nrows = Ok dc ->
  dc_labels dc = Some (map (piece_label' (tc_name t)) (comp_pieces' t spans)).
Proof.
  intros [Hc|[(Hk & rows & Hv & _)|(Hk & Hr & o & xs & Hv)]] H.
  - destruct (coded_comp_pieces' t Hc) as (Hp & _ & _). rewrite Hp, map_map. cbn [piece_label'].
    destruct Hc as [(Hk & isint & xs & Hv)|(Hk & Hr & Hdecl & Henc)].
    + destruct (set_data_comp_numeric_wf t spans nrows dc isint xs Hk Hv H) as (_ & _ & Hlabs).
      rewrite Hlabs. unfold comp_pieces. rewrite Hk. reflexivity.
    + destruct (set_data_comp_contrast t spans nrows dc Hk Hr H) as (cm & Hcm).
      pose proof (set_data_comp_levels_NoDup t spans nrows dc Hk H Hdecl) as Hnd.
      pose proof (set_data_comp_levels t spans nrows dc Hk H) as Hlv.
      destruct Henc as [(ref & He)|(omit & He & Hne)].
      * destruct (set_data_comp_treatment t spans nrows dc cm ref Hk H Hcm He Hnd)
          as (num & o & d & Hd & Hlabs & _ & Hfull & Hred).
        rewrite Hlabs. unfold comp_pieces. rewrite Hk, He, map_map. cbn [piece_label].
        assert (Hk' : clabels cm = if spans then comp_levels t
                                   else without (treatment_reference ref (comp_levels t)) (comp_levels t)).
        { destruct spans.
          - rewrite Hfull by reflexivity. exact Hlv.
          - destruct (Hred eq_refl) as (r & Hri & ->). rewrite Hlv in *.
            destruct (comp_levels t) as [|l0 lv'] eqn:Elv; [destruct r; reflexivity|]. rewrite <- Elv in *.
            assert (Hn : 0 < List.length (comp_levels t)) by (rewrite Elv; simpl; lia).
            rewrite (drop_nth_without _ r Hnd (ref_index_treatment_lt _ _ _ Hri Hn)).
            rewrite (ref_index_treatment_reference _ _ _ Hri). reflexivity. }
        rewrite Hk'. reflexivity.
      * assert (Hne' : spans = true -> dc_levels dc <> [])
          by (intros _; apply (sum_levels_nonempty t spans nrows dc cm omit Hk H Hcm He Hne)).
        destruct (set_data_comp_sum t spans nrows dc cm omit Hk H Hcm He Hnd Hne')
          as (num & o & d & _ & _ & Hlabs & _). cbv zeta in Hlabs. rewrite Hlabs, Hlv.
        unfold comp_pieces. rewrite Hk, He. unfold sum_labels.
        destruct spans; cbn [app map piece_label]; rewrite !map_map; reflexivity.
  - rewrite (set_data_comp_matrix t spans nrows rows Hk Hv) in H. injection H as <-. cbn [dc_labels].
    unfold comp_pieces', matrix_labels. rewrite Hk, Hv.
    destruct (1 <? width rows); [rewrite map_map|]; reflexivity.
  - rewrite (set_data_comp_offset t spans nrows o xs Hk Hr Hv) in H. injection H as <-. cbn [dc_labels].
    unfold comp_pieces'. rewrite Hk. destruct (tc_value t); reflexivity.
Qed.

Lemma print_snoc l cp : l <> [] -> print_slabel (l ++ [cp]) = (print_slabel l ++ ":" ++ plab cp)%string.
Proof. intros H. exact (f_equal fst (lcol_snoc 0 l cp H)). Qed.

Lemma fold_step_cols_labels rest : forall acc,
  Forall nonnil acc ->
  map print_slabel (fold_left step_cols rest acc)
  = fold_left (label_step ":") (map (fun d => map plab (comp_cols d)) rest) (map print_slabel acc).
Proof.
  induction rest as [|d rest IH]; intros acc Hne; cbn [fold_left map]; [reflexivity|].
  rewrite IH by apply step_cols_nonnil. f_equal. unfold step_cols, label_step.
  induction Hne as [|a acc Ha _ IHa]; [reflexivity|]. simpl. rewrite map_app. f_equal; [|exact IHa].
  rewrite !map_map. apply map_ext. intros cp. apply print_snoc. exact Ha.
Qed.

(** ... and the labels of a term of coded components are the printed structured labels. *)
Theorem dterm_labels_spec nrows name cs s dt :
  Forall coded_comp' cs ->
  set_data_term nrows (TTTerm name cs) s = Ok dt ->
  dt_labels dt = Some (map print_slabel (dterm_columns dt)).
Proof.
  intros Hcoded H. pose proof (set_data_term_comps_t _ _ _ _ _ H) as Hds.
  assert (Hl : Forall (fun d => dc_labels d = Some (map plab (comp_cols d))) (dt_comps dt)).
  { clear H. induction Hds as [|c d cs' ds (Hd & Ht & Hs) _ IH]; constructor.
    - rewrite (coded_comp'_labels c _ nrows d (Forall_inv Hcoded) Hd). unfold comp_cols.
      rewrite Ht, Hs, map_map. reflexivity.
    - apply IH. exact (Forall_inv_tail Hcoded). }
  clear Hds. unfold set_data_term in H. apply bind_ok in H as (ds & _ & H).
  destruct ds as [|d0 [|d1 rest]]; [discriminate H| |].
  - injection H as <-. cbn [dt_labels dt_comps] in *. rewrite (Forall_inv Hl).
    unfold dterm_columns. cbn [dt_comps fold_left]. rewrite map_map. reflexivity.
  - apply bind_ok in H as (labs & Hlabs & H). destruct (existsb _ labs); [discriminate H|].
    injection H as <-. cbn [dt_labels dt_comps] in *. apply mapM_labels in Hlabs. subst labs.
    unfold dterm_columns. cbn [dt_comps].
    rewrite fold_step_cols_labels by (apply Forall_map, Forall_forall; intros; discriminate).
    change (map dc_labs (d0 :: d1 :: rest)) with (dc_labs d0 :: map dc_labs (d1 :: rest)).
    rewrite label_product_cons. f_equal. f_equal.
    + pose proof (Forall_inv_tail Hl) as Hr. clear -Hr.
      induction Hr as [|d ds Hd _ IH]; cbn [map]; [reflexivity|]. rewrite IH. f_equal.
      unfold dc_labs. rewrite Hd. reflexivity.
    + rewrite map_map. unfold dc_labs. rewrite (Forall_inv Hl). apply map_ext. intros cp. reflexivity.
Qed.

(* ------------------------------------------------------------------------------------------ *)
(** * 2. What [eval_model] builds: every common term comes from [set_data_term] on components typed
      on the frame, and is named after its components *)

Definition typed_on (cx : dctx) (D : frame) (t : tcomp) : Prop :=
  exists c, set_type_comp cx D false c = Ok t.

Definition tterm_named (tt : tterm) : Prop :=
  match tt with TTIntercept => True | TTTerm name cs => name = concat_with ":" (map tc_name cs) end.

Definition dterm_made (cx : dctx) (D : frame) (n : nat) (dt : dterm) : Prop :=
  exists tt s, tterm_all (typed_on cx D) tt /\ tterm_named tt /\ set_data_term n tt s = Ok dt.

Lemma set_type_comp_name cx D r c t : set_type_comp cx D r c = Ok t -> tc_name t = comp_name c.
Proof.
  destruct c as [[name|lit] lvl|lz]; simpl.
  - destruct (assoc name D); [|discriminate]. intros H. injection H as <-. reflexivity.
  - discriminate.
  - intros H. apply bind_ok in H as (x & _ & H). apply bind_ok in H as (k & _ & H).
    injection H as <-. reflexivity.
Qed.

Lemma set_type_term_named cx D r t tt : set_type_term cx D r t = Ok tt -> tterm_named tt.
Proof.
  unfold set_type_term. intros H. apply bind_ok in H as (cs & Hcs & H). injection H as <-. simpl.
  unfold term_name. f_equal. apply mapM_ok in Hcs.
  induction Hcs as [|c tc t' cs' Hc _ IH]; simpl; [reflexivity|].
  rewrite IH, (set_type_comp_name _ _ _ _ _ Hc). reflexivity.
Qed.

Lemma set_type_term_typed cx D t tt : set_type_term cx D false t = Ok tt -> tterm_all (typed_on cx D) tt.
Proof.
  unfold set_type_term. intros H. apply bind_ok in H as (cs & Hcs & H). injection H as <-. simpl.
  apply mapM_ok in Hcs. induction Hcs as [|c tc t' cs' Hc _ IH]; constructor; [|exact IH].
  exists c. exact Hc.
Qed.

Lemma add_extra_terms_named cx D enc ts : forall ts',
  Forall tterm_named ts -> add_extra_terms cx D enc ts = Ok ts' -> Forall tterm_named ts'.
Proof.
  induction ts as [|t ts IH]; intros ts' Ht H; cbn [add_extra_terms] in H.
  - injection H as <-. constructor.
  - pose proof (Forall_inv Ht) as Ht0. pose proof (Forall_inv_tail Ht) as Hts.
    apply bind_ok in H as (r' & Hr & H). specialize (IH r' Hts Hr).
    assert (Hplain : Forall tterm_named (t :: r')) by (constructor; assumption).
    destruct (dict_get (tterm_name t) enc) as [[|s1 [|s2 more]]|]; try (injection H as <-; exact Hplain).
    apply bind_ok in H as (ex & Hex & H). injection H as <-.
    apply Forall_app. split; [|exact Hplain].
    apply mapM_ok in Hex. clear -Hex.
    induction Hex as [|sub e subs es He _ IHe]; constructor; [|assumption].
    destruct t as [|nm cs]; simpl in He; [discriminate|]. injection He as <-. reflexivity.
Qed.

Lemma eval_model_made cx D m ds :
  eval_model cx D m = Ok ds -> Forall (dterm_made cx D (frame_rows D)) (ds_common ds).
Proof.
  intros H. unfold eval_model in H. set (n := frame_rows D) in *.
  apply bind_ok in H as (tcs & Htcs & H). apply bind_ok in H as (tgs & _ & H).
  apply bind_ok in H as (enc1 & _ & H). apply bind_ok in H as (tcs2 & Htcs2 & H).
  apply bind_ok in H as (enc2 & _ & H). apply bind_ok in H as (dcs & Hdcs & H).
  apply bind_ok in H as (dgs & _ & H). apply bind_ok in H as (r & _ & H). injection H as <-.
  cbn [ds_common].
  assert (T1 : Forall (tterm_all (typed_on cx D)) tcs /\ Forall tterm_named tcs).
  { apply mapM_ok in Htcs. clear -Htcs. induction Htcs as [|c tt cms tts Hc _ [IH1 IH2]]; [split; constructor|].
    destruct c as [| |t]; simpl in Hc; [injection Hc as <-; split; constructor; simpl; auto|discriminate|].
    split; constructor; auto; [eapply set_type_term_typed|eapply set_type_term_named]; exact Hc. }
  destruct T1 as [T1 N1].
  pose proof (add_extra_terms_all _ _ _ _ _ _ T1 Htcs2) as T2.
  pose proof (add_extra_terms_named _ _ _ _ _ N1 Htcs2) as N2.
  apply fold_dict_set_all. apply mapM_ok in Hdcs. clear -Hdcs T2 N2.
  induction Hdcs as [|tt dt tts dts Hd _ IH]; constructor.
  - apply bind_ok in Hd as (s & _ & Hd). exists tt, s.
    split; [exact (Forall_inv T2)|]. split; [exact (Forall_inv N2)|exact Hd].
  - apply IH; [exact (Forall_inv_tail T2)|exact (Forall_inv_tail N2)].
Qed.

(* ------------------------------------------------------------------------------------------ *)
(** * 3. The whole common matrix *)

(* every component of every common term is one of: numeric series, Treatment- or Sum-coded factor
   (declared levels duplicate-free; Sum with no given level: at least one level), regular matrix
   with at least one column, offset *)
Definition supported_design (ds : design) : Prop :=
  Forall (fun t => Forall (fun d => coded_comp' (dc_t d)) (dt_comps t)) (ds_common ds).

Lemma nth_repeat_lt {T} (x d : T) n i : i < n -> nth i (repeat x n) d = x.
Proof. intros H. rewrite (nth_indep _ d x) by (rewrite repeat_length; exact H). apply nth_repeat. Qed.

Lemma dterm_made_columns cx D n dt :
  rect n D -> extras_shape n cx -> dterm_made cx D n dt ->
  Forall (fun d => coded_comp' (dc_t d)) (dt_comps dt) ->
  dt_labels dt = Some (map print_slabel (dterm_columns dt)) /\
  List.length (dt_rows dt) = n /\
  forall i, i < n -> nth i (dt_rows dt) [] = map (fun l => denote_slabel l i) (dterm_columns dt).
Proof.
  intros HD Hex (tt & s & Hty & _ & Hd) Hsup.
  assert (Hsh : tterm_all (fun c => vshape n (tc_value c)) tt).
  { destruct tt as [|name cs]; [exact I|]. simpl in *. eapply Forall_impl; [|exact Hty].
    intros c (src & Hc). eapply set_type_comp_shape; eassumption. }
  destruct (set_data_term_shape n tt s dt Hsh Hd) as (L & _ & _).
  destruct tt as [|name cs].
  - simpl in Hd. injection Hd as <-. cbn [dt_labels dt_rows dterm_columns dt_comps map].
    split; [reflexivity|]. split; [apply repeat_length|]. intros i Hi. apply nth_repeat_lt. exact Hi.
  - destruct cs as [|c0 crest]; [simpl in Hd; discriminate Hd|].
    pose proof (set_data_term_comps_t _ _ _ _ _ Hd) as Hds.
    assert (Hcoded : Forall coded_comp' (c0 :: crest)).
    { clear -Hds Hsup. induction Hds as [|c d cs ds (_ & Ht & _) _ IH]; constructor.
      - rewrite <- Ht. exact (Forall_inv Hsup).
      - apply IH. exact (Forall_inv_tail Hsup). }
    assert (Hn : Forall (fun c => comp_nrows' n c = n) (c0 :: crest)).
    { simpl in Hsh. clear -Hds Hcoded Hsh. induction Hds as [|c d cs ds (Hd & _ & _) _ IH]; constructor.
      - rewrite <- (coded_comp'_nrows c _ n d (Forall_inv Hcoded) Hd).
        apply (set_data_comp_rows n c _ d (Forall_inv Hsh) Hd).
      - apply IH; [exact (Forall_inv_tail Hsh)|exact (Forall_inv_tail Hcoded)]. }
    split; [exact (dterm_labels_spec n name (c0 :: crest) s dt Hcoded Hd)|split; [exact L|]].
    intros i Hi. apply (dterm_columns_spec n name c0 crest s dt i Hcoded Hd).
    eapply Forall_impl; [|exact Hn]. cbn beta. intros c ->. exact Hi.
Qed.

Lemma hstack_terms_rows n (ts : list dterm) (P : dterm -> list slabel) :
  Forall (fun t => List.length (dt_rows t) = n /\
                   forall i, i < n -> nth i (dt_rows t) [] = map (fun l => denote_slabel l i) (P t)) ts ->
  List.length (hstack (map dt_rows ts) n) = n /\
  forall i, i < n ->
    nth i (hstack (map dt_rows ts) n) [] = map (fun l => denote_slabel l i) (flat_map P ts).
Proof.
  intros H. split.
  - apply hstack_length. apply Forall_map. eapply Forall_impl; [|exact H]. intros t [L _]. exact L.
  - intros i Hi. rewrite hstack_nth.
    + induction H as [|t ts [_ Ht] _ IH]; [reflexivity|]. cbn [map flat_map List.concat].
      rewrite map_app, IH, (Ht i Hi). reflexivity.
    + exact Hi.
    + apply Forall_map. eapply Forall_impl; [|exact H]. intros t [L _]. cbn beta. lia.
Qed.

(** THE WHOLE COMMON MATRIX.  For a design [eval_model] builds on a rectangular frame: the flattened
    label list is the list of the printed structured labels, the matrix has one row per
    observation, and row i is the list of the denotations of the structured labels on observation
    i -- same order, same number. *)
Theorem eval_model_whole cx D m ds :
  frame_wf D -> extras_shape (frame_rows D) cx -> eval_model cx D m = Ok ds -> supported_design ds ->
  common_labels ds = map print_slabel (design_columns ds) /\
  List.length (common_matrix ds) = ds_nrows ds /\
  forall i, i < ds_nrows ds ->
    nth i (common_matrix ds) [] = map (fun l => denote_slabel l i) (design_columns ds).
Proof.
  intros HD Hex H Hsup. rewrite (eval_model_nrows _ _ _ _ H).
  pose proof (eval_model_made _ _ _ _ H) as Hmade. unfold frame_wf in HD.
  set (n := frame_rows D) in *.
  assert (Hall : Forall (fun t => dt_labels t = Some (map print_slabel (dterm_columns t)) /\
                                  List.length (dt_rows t) = n /\
                                  forall i, i < n -> nth i (dt_rows t) []
                                                     = map (fun l => denote_slabel l i) (dterm_columns t))
                        (ds_common ds)).
  { unfold supported_design in Hsup. rewrite Forall_forall in *. intros t Ht.
    apply (dterm_made_columns cx D n t HD Hex (Hmade t Ht) (Hsup t Ht)). }
  split.
  - unfold common_labels, design_columns. clear -Hall.
    induction Hall as [|t ts (Hl & _) _ IH]; [reflexivity|]. cbn [flat_map]. rewrite map_app, <- IH.
    f_equal. unfold dt_labs. rewrite Hl. reflexivity.
  - unfold common_matrix, design_columns. rewrite (eval_model_nrows _ _ _ _ H). fold n.
    apply hstack_terms_rows. eapply Forall_impl; [|exact Hall]. intros t (_ & L & R). split; assumption.
Qed.

(** Labels and columns are equal in number, on every row. *)
Corollary eval_model_label_count cx D m ds i :
  frame_wf D -> extras_shape (frame_rows D) cx -> eval_model cx D m = Ok ds -> supported_design ds ->
  i < ds_nrows ds -> List.length (common_labels ds) = List.length (nth i (common_matrix ds) []).
Proof.
  intros HD Hex H Hsup Hi. destruct (eval_model_whole cx D m ds HD Hex H Hsup) as (Hl & _ & Hr).
  rewrite Hl, (Hr i Hi), !map_length. reflexivity.
Qed.

Lemma matrix_column_denote j rows n (cols : list slabel) sl :
  List.length rows = n ->
  (forall i, i < n -> nth i rows [] = map (fun l => denote_slabel l i) cols) ->
  nth_error cols j = Some sl ->
  matrix_column j rows = denote n sl.
Proof.
  intros L Hr Hj. unfold matrix_column, denote. rewrite <- (map_nth_seq rows []) at 1. rewrite L, map_map.
  apply map_ext_in. intros i Hi. apply in_seq in Hi. rewrite (Hr i) by lia.
  apply nth_error_nth. rewrite (map_nth_error _ _ _ Hj). reflexivity.
Qed.

(** Column by column: column j carries the printed form of structured label j and IS its
    denotation. *)
Corollary eval_model_column cx D m ds j sl :
  frame_wf D -> extras_shape (frame_rows D) cx -> eval_model cx D m = Ok ds -> supported_design ds ->
  nth_error (design_columns ds) j = Some sl ->
  nth_error (common_labels ds) j = Some (print_slabel sl) /\
  matrix_column j (common_matrix ds) = denote (ds_nrows ds) sl.
Proof.
  intros HD Hex H Hsup Hj. destruct (eval_model_whole cx D m ds HD Hex H Hsup) as (Hl & L & Hr). split.
  - rewrite Hl. apply map_nth_error. exact Hj.
  - eapply matrix_column_denote; eassumption.
Qed.

(** ** The same through [design_matrices]: the frame is the retained rows of the used columns *)

Theorem design_matrices_whole cx e data na ds :
  frame_wf data -> scalar_extras cx -> design_matrices cx e data na = Ok ds -> supported_design ds ->
  common_labels ds = map print_slabel (design_columns ds) /\
  List.length (common_matrix ds) = ds_nrows ds /\
  forall i, i < ds_nrows ds ->
    nth i (common_matrix ds) [] = map (fun l => denote_slabel l i) (design_columns ds).
Proof.
  intros Hwf Hex H Hsup. destruct (design_matrices_eval _ _ _ _ _ H) as (m & d & Hm & Hd & He).
  destruct (prepare_data_wf _ _ _ _ Hwf Hd) as [W _].
  apply (eval_model_whole cx (model_frame data d) m ds W (scalar_extras_shape _ _ Hex) He Hsup).
Qed.

Corollary design_matrices_column cx e data na ds j sl :
  frame_wf data -> scalar_extras cx -> design_matrices cx e data na = Ok ds -> supported_design ds ->
  nth_error (design_columns ds) j = Some sl ->
  nth_error (common_labels ds) j = Some (print_slabel sl) /\
  matrix_column j (common_matrix ds) = denote (ds_nrows ds) sl.
Proof.
  intros Hwf Hex H Hsup Hj. destruct (design_matrices_whole cx e data na ds Hwf Hex H Hsup) as (Hl & L & Hr). split.
  - rewrite Hl. apply map_nth_error. exact Hj.
  - eapply matrix_column_denote; eassumption.
Qed.

Corollary design_matrices_label_count cx e data na ds :
  frame_wf data -> scalar_extras cx -> design_matrices cx e data na = Ok ds -> supported_design ds ->
  (forall i, i < ds_nrows ds -> List.length (common_labels ds) = List.length (nth i (common_matrix ds) [])) /\
  (ds_nrows ds <> 0 -> width (common_matrix ds) = List.length (common_labels ds)).
Proof.
  intros Hwf Hex H Hsup. destruct (design_matrices_whole cx e data na ds Hwf Hex H Hsup) as (Hl & L & Hr).
  assert (G : forall i, i < ds_nrows ds ->
                List.length (common_labels ds) = List.length (nth i (common_matrix ds) [])).
  { intros i Hi. rewrite Hl, (Hr i Hi), !map_length. reflexivity. }
  split; [exact G|]. intros Hn. rewrite (G 0) by lia.
  destruct (common_matrix ds) as [|r rows]; [simpl in L; lia|reflexivity].
Qed.

(* ------------------------------------------------------------------------------------------ *)
(** * 4. The denotation on the frame itself

    A structured label of a design mentions typed components, which carry the evaluated data.  The
    same label can be written with the SOURCE components (a variable name or a call); its
    denotation is then a function of the frame alone. *)

Definition fcomp := (comp * piece')%type.
Definition flabel := list fcomp.

Definition flab (cp : fcomp) : string := piece_label' (comp_name (fst cp)) (snd cp).
Definition print_flabel (l : flabel) : string :=
  match l with [] => "Intercept" | cp :: r => joinc (flab cp) (map flab r) end.

(* type the components of a label on a frame *)
Definition type_flabel (cx : dctx) (D : frame) (l : flabel) : res slabel :=
  mapM (fun cp => do t <- set_type_comp cx D false (fst cp); Ok (t, snd cp)) l.

(** [denote_frame cx D l]: the column the label l denotes on the frame D *)
Definition denote_frame (cx : dctx) (D : frame) (l : flabel) : list cell :=
  match type_flabel cx D l with Ok sl => denote (frame_rows D) sl | Err _ => [] end.

Definition source_label (sl : slabel) : flabel := map (fun cp => (tc_src (fst cp), snd cp)) sl.

Lemma type_source_label cx D sl :
  Forall (fun cp => typed_on cx D (fst cp)) sl -> type_flabel cx D (source_label sl) = Ok sl.
Proof.
  unfold type_flabel, source_label. induction 1 as [|[t p] sl (c & Hc) _ IH]; [reflexivity|].
  cbn [map mapM fst snd] in *. rewrite (set_type_comp_src _ _ _ _ _ Hc), Hc. cbn [bind]. rewrite IH. reflexivity.
Qed.

Lemma print_source_label cx D sl :
  Forall (fun cp => typed_on cx D (fst cp)) sl -> print_flabel (source_label sl) = print_slabel sl.
Proof.
  intros H.
  assert (E : map flab (source_label sl) = map plab sl).
  { unfold source_label. rewrite map_map. induction H as [|[t p] sl' (c & Hc) _ IH]; [reflexivity|].
    cbn [map]. rewrite IH. f_equal. unfold flab, plab. cbn [fst snd] in *.
    rewrite (set_type_comp_src _ _ _ _ _ Hc), (set_type_comp_name _ _ _ _ _ Hc). reflexivity. }
  destruct sl as [|cp r]; [reflexivity|]. unfold print_flabel, print_slabel.
  cbn [source_label map] in *. injection E as E0 E. rewrite E0, E. reflexivity.
Qed.

(* the components of the columns of a built design are typed on its frame *)
Lemma step_cols_Forall (P : scomp -> Prop) acc d :
  Forall (Forall P) acc -> Forall P (comp_cols d) -> Forall (Forall P) (step_cols acc d).
Proof.
  intros Ha Hd. apply Forall_forall. intros x Hx. apply in_flat_map in Hx as (a & Hin & Hx).
  apply in_map_iff in Hx as (cp & <- & Hcp). apply Forall_app. split.
  - rewrite Forall_forall in Ha. exact (Ha a Hin).
  - constructor; [|constructor]. rewrite Forall_forall in Hd. exact (Hd cp Hcp).
Qed.

Lemma dterm_columns_Forall (P : scomp -> Prop) t :
  Forall (fun d => Forall P (comp_cols d)) (dt_comps t) -> Forall (Forall P) (dterm_columns t).
Proof.
  unfold dterm_columns. destruct (dt_comps t) as [|d0 rest]; intros H; [repeat constructor|].
  pose proof (Forall_inv H) as H0. pose proof (Forall_inv_tail H) as Hr. clear H.
  assert (G : Forall (Forall P) (map (fun cp => [cp]) (comp_cols d0))).
  { apply Forall_map. eapply Forall_impl; [|exact H0]. intros cp Hcp. constructor; [exact Hcp|constructor]. }
  revert G. generalize (map (fun cp : scomp => [cp]) (comp_cols d0)) as acc.
  induction Hr as [|d ds Hd _ IH]; intros acc G; cbn [fold_left]; [exact G|].
  apply IH. apply step_cols_Forall; assumption.
Qed.

Lemma design_columns_typed cx D m ds :
  eval_model cx D m = Ok ds ->
  Forall (Forall (fun cp => typed_on cx D (fst cp))) (design_columns ds).
Proof.
  intros H. pose proof (eval_model_made _ _ _ _ H) as Hmade. unfold design_columns.
  apply Forall_flat_map_in with (Q := dterm_made cx D (frame_rows D)); [exact Hmade|].
  intros t (tt & s & Hty & _ & Hd). apply dterm_columns_Forall.
  destruct tt as [|name cs].
  - simpl in Hd. injection Hd as <-. constructor.
  - pose proof (set_data_term_comps_t _ _ _ _ _ Hd) as Hds. simpl in Hty. clear Hd.
    induction Hds as [|c d cs' ds' (_ & Ht & _) _ IH]; constructor.
    + unfold comp_cols. apply Forall_map. apply Forall_forall. intros p _. cbn [fst]. rewrite Ht.
      exact (Forall_inv Hty).
    + apply IH. exact (Forall_inv_tail Hty).
Qed.

(** Column j of the common matrix is the denotation, ON THE FRAME of the retained rows of the used
    columns, of the j-th label; that label prints as the j-th label string. *)
Theorem design_matrices_column_frame cx e data na ds :
  frame_wf data -> scalar_extras cx -> design_matrices cx e data na = Ok ds -> supported_design ds ->
  exists m d,
    describe e = Ok m /\ prepare_data data m na = Ok d /\
    let D := model_frame data d in
    frame_rows D = ds_nrows ds /\
    forall j sl, nth_error (design_columns ds) j = Some sl ->
      let fl := source_label sl in
      nth_error (common_labels ds) j = Some (print_flabel fl) /\
      matrix_column j (common_matrix ds) = denote_frame cx D fl.
Proof.
  intros Hwf Hex H Hsup. destruct (design_matrices_eval _ _ _ _ _ H) as (m & d & Hm & Hd & He).
  exists m, d. split; [exact Hm|]. split; [exact Hd|]. cbv zeta.
  pose proof (eval_model_nrows _ _ _ _ He) as N. split; [symmetry; exact N|].
  intros j sl Hj.
  destruct (design_matrices_column cx e data na ds j sl Hwf Hex H Hsup Hj) as [H1 H2].
  pose proof (design_columns_typed _ _ _ _ He) as Hty. rewrite Forall_forall in Hty.
  specialize (Hty sl (nth_error_In _ _ Hj)).
  rewrite (print_source_label _ _ _ Hty). split; [exact H1|].
  unfold denote_frame. rewrite (type_source_label _ _ _ Hty), <- N. exact H2.
Qed.

(* ------------------------------------------------------------------------------------------ *)
(** * 5. Label uniqueness: strings *)

Fixpoint has_charb (c : ascii) (s : string) : bool :=
  match s with EmptyString => false | String x r => Ascii.eqb x c || has_charb c r end.

(* no ':' in the string *)
Definition colon_free (s : string) : Prop := has_charb ":"%char s = false.

Lemma has_charb_app c a b : has_charb c (a ++ b)%string = has_charb c a || has_charb c b.
Proof. induction a as [|x a IH]; simpl; [reflexivity|]. rewrite IH, orb_assoc. reflexivity. Qed.

Lemma colon_in_join a b : has_charb ":"%char (a ++ ":" ++ b)%string = true.
Proof. rewrite has_charb_app. simpl. apply orb_true_r. Qed.

Lemma append_inj_l a x y : (a ++ x)%string = (a ++ y)%string -> x = y.
Proof. induction a as [|c a IH]; simpl; intros H; [exact H|]. injection H as H. auto. Qed.

Lemma append_nil_r a : (a ++ "")%string = a.
Proof. induction a as [|c a IH]; simpl; [reflexivity|]. rewrite IH. reflexivity. Qed.

Lemma append_assoc a b c : ((a ++ b) ++ c)%string = (a ++ b ++ c)%string.
Proof. induction a as [|x a IH]; simpl; [reflexivity|]. rewrite IH. reflexivity. Qed.

(* splitting at the LAST colon is unambiguous *)
Lemma split_last_colon a : forall a' b b',
  colon_free b -> colon_free b' -> (a ++ ":" ++ b)%string = (a' ++ ":" ++ b')%string -> a = a' /\ b = b'.
Proof.
  unfold colon_free. induction a as [|x a IH]; intros [|y a'] b b' Hb Hb' E; simpl in E.
  - injection E as E. auto.
  - injection E as _ E. rewrite E in Hb. change (has_charb ":"%char (a' ++ ":" ++ b')%string = false) in Hb.
    rewrite colon_in_join in Hb. discriminate Hb.
  - injection E as _ E. rewrite <- E in Hb'. change (has_charb ":"%char (a ++ ":" ++ b)%string = false) in Hb'.
    rewrite colon_in_join in Hb'. discriminate Hb'.
  - injection E as -> E. destruct (IH a' b b' Hb Hb' E) as [-> ->]. auto.
Qed.

Lemma joinc_snoc p0 ps p : joinc p0 (ps ++ [p]) = (joinc p0 ps ++ ":" ++ p)%string.
Proof. unfold joinc. rewrite fold_left_app. reflexivity. Qed.

(** The pieces of a printed label are determined by the string, when no piece contains ':'. *)
Lemma joinc_inj ps : forall p0 q0 qs,
  Forall colon_free (p0 :: ps) -> Forall colon_free (q0 :: qs) ->
  joinc p0 ps = joinc q0 qs -> p0 = q0 /\ ps = qs.
Proof.
  induction ps as [|p ps IH] using rev_ind; intros p0 q0 qs Hp Hq E;
    destruct qs as [|q qs _] using rev_ind.
  - split; [exact E|reflexivity].
  - exfalso. rewrite joinc_snoc in E. cbn [joinc fold_left] in E. pose proof (Forall_inv Hp) as H0.
    unfold colon_free in H0. rewrite E, colon_in_join in H0. discriminate H0.
  - exfalso. rewrite joinc_snoc in E. cbn [joinc fold_left] in E. pose proof (Forall_inv Hq) as H0.
    unfold colon_free in H0. rewrite <- E, colon_in_join in H0. discriminate H0.
  - rewrite !joinc_snoc in E.
    pose proof (Forall_inv_tail Hp) as Hp'. pose proof (Forall_inv_tail Hq) as Hq'.
    apply Forall_app in Hp' as [Hps Hp1]. apply Forall_app in Hq' as [Hqs Hq1].
    destruct (split_last_colon _ _ _ _ (Forall_inv Hp1) (Forall_inv Hq1) E) as [E' ->].
    destruct (IH p0 q0 qs) as [-> ->]; auto.
    + constructor; [exact (Forall_inv Hp)|exact Hps].
    + constructor; [exact (Forall_inv Hq)|exact Hqs].
Qed.

Lemma NoDup_app_intro {T} (l1 l2 : list T) :
  NoDup l1 -> NoDup l2 -> (forall x, In x l1 -> In x l2 -> False) -> NoDup (l1 ++ l2).
Proof.
  induction 1 as [|x l1 Hx _ IH]; intros H2 Hd; simpl; [exact H2|]. constructor.
  - intros Hin. apply in_app_or in Hin as [Hin|Hin]; [contradiction|]. apply (Hd x); [left; reflexivity|exact Hin].
  - apply IH; [exact H2|]. intros y Hy. apply Hd. right; exact Hy.
Qed.

Lemma In_label_step x acc l :
  In x (label_step ":" acc l) <-> exists a b, In a acc /\ In b l /\ x = (a ++ ":" ++ b)%string.
Proof.
  unfold label_step. rewrite in_flat_map. split.
  - intros (a & Ha & Hx). apply in_map_iff in Hx as (b & <- & Hb). eauto.
  - intros (a & b & Ha & Hb & ->). exists a. split; [exact Ha|]. apply in_map_iff. eauto.
Qed.

Lemma NoDup_label_step acc l :
  NoDup acc -> NoDup l -> Forall colon_free l -> NoDup (label_step ":" acc l).
Proof.
  intros Ha Hl Hc. induction Ha as [|a acc Hin _ IH]; [constructor|].
  change (label_step ":" (a :: acc) l) with (map (fun b => (a ++ ":" ++ b)%string) l ++ label_step ":" acc l).
  apply NoDup_app_intro; [|exact IH|].
  - apply NoDup_map_inj; [|exact Hl]. intros x y E. apply append_inj_l in E. injection E as E. exact E.
  - intros x Hx Hy. apply in_map_iff in Hx as (b & <- & Hb).
    apply In_label_step in Hy as (a' & b' & Ha' & Hb' & E). rewrite Forall_forall in Hc.
    destruct (split_last_colon _ _ _ _ (Hc b Hb) (Hc b' Hb') E) as [-> _]. contradiction.
Qed.

Lemma NoDup_fold_label_step ls : forall acc,
  NoDup acc -> Forall (@NoDup string) ls -> Forall (Forall colon_free) ls ->
  NoDup (fold_left (label_step ":") ls acc).
Proof.
  induction ls as [|l ls IH]; intros acc Ha Hn Hc; cbn [fold_left]; [exact Ha|].
  apply IH; [|exact (Forall_inv_tail Hn)|exact (Forall_inv_tail Hc)].
  apply NoDup_label_step; [exact Ha|exact (Forall_inv Hn)|exact (Forall_inv Hc)].
Qed.

Lemma In_fold_label_step ls : forall acc x,
  In x (fold_left (label_step ":") ls acc) ->
  exists a ps, In a acc /\ Forall2 (fun p l => In p l) ps ls /\ x = joinc a ps.
Proof.
  induction ls as [|l ls IH]; intros acc x H; cbn [fold_left] in H.
  - exists x, []. repeat split; [exact H|constructor].
  - destruct (IH _ _ H) as (a' & ps & Ha' & Hps & ->).
    apply In_label_step in Ha' as (a & b & Ha & Hb & ->).
    exists a, (b :: ps). split; [exact Ha|]. split; [constructor; assumption|reflexivity].
Qed.

Lemma Forall2_map_r {A B C} (R : A -> C -> Prop) (f : B -> C) l r :
  Forall2 R l (map f r) <-> Forall2 (fun a b => R a (f b)) l r.
Proof.
  split.
  - revert l. induction r as [|b r IH]; intros l H; inversion H; subst; constructor; auto.
  - induction 1; simpl; constructor; auto.
Qed.

(* a label of a component named n: the name, or name[something] *)
Definition label_of_name (n lab : string) : Prop :=
  lab = n \/ exists l, lab = (n ++ "[" ++ l ++ "]")%string.

(* n2 is n1 followed by '[' and anything *)
Definition bracket_ext (n1 n2 : string) : Prop := exists r, n2 = (n1 ++ "[" ++ r)%string.

Lemma append_prefix a : forall b x y,
  (a ++ x)%string = (b ++ y)%string ->
  exists r, (a = (b ++ r)%string /\ y = (r ++ x)%string) \/ (b = (a ++ r)%string /\ x = (r ++ y)%string).
Proof.
  induction a as [|c a IH]; intros b x y E.
  - exists b. right. split; [reflexivity|exact E].
  - destruct b as [|c' b].
    + exists (String c a). left. split; [reflexivity|]. symmetry. exact E.
    + simpl in E. injection E as -> E. destruct (IH b x y E) as (r & [[-> ->]|[-> ->]]); exists r; [left|right]; auto.
Qed.

(** Two components whose names differ can only share a label when one name extends the other by
    an opening bracket. *)
Lemma label_names_clash n1 n2 lab :
  label_of_name n1 lab -> label_of_name n2 lab -> n1 = n2 \/ bracket_ext n1 n2 \/ bracket_ext n2 n1.
Proof.
  intros [->|(l1 & ->)] [E|(l2 & E)].
  - left. exact E.
  - right; right. exists (l2 ++ "]")%string. exact E.
  - right; left. exists (l1 ++ "]")%string. symmetry. exact E.
  - destruct (append_prefix _ _ _ _ E) as (r & [[-> E']|[-> E']]).
    + destruct r as [|c r]; [left; apply append_nil_r|]. simpl in E'. injection E' as <- _.
      right; right. exists r. reflexivity.
    + destruct r as [|c r]; [left; symmetry; apply append_nil_r|]. simpl in E'. injection E' as <- _.
      right; left. exists r. reflexivity.
Qed.

(* whatever the component, its labels are made from its name *)
Lemma set_data_comp_label_shape t spans n d :
  set_data_comp t spans n = Ok d -> Forall (label_of_name (tc_name t)) (dc_labs d).
Proof.
  intros H. unfold set_data_comp in H.
  assert (L1 : Forall (label_of_name (tc_name t)) [tc_name t]) by (constructor; [left; reflexivity|constructor]).
  assert (L2 : forall ls, Forall (label_of_name (tc_name t))
                                 (map (fun l => (tc_name t ++ "[" ++ l ++ "]")%string) ls)).
  { intros ls. apply Forall_map, Forall_forall. intros l _. right. exists l. reflexivity. }
  destruct (tc_kind t);
    destruct (tc_value t) as [i xs|rows|o xs| | | | | | | |num bd enc lv|co xs|ss ts ct];
    cbn [categoric_data bind fst snd] in *; try discriminate H;
    try (destruct i; cbn [categoric_data bind fst snd] in H; try discriminate H);
    repeat match type of H with
           | (if ?c then _ else _) = Ok _ => destruct c; try discriminate H
           | match ?x with _ => _ end = Ok _ => destruct x; try discriminate H
           | bind ?r _ = Ok _ =>
               let cm := fresh "cm" in destruct r as [cm|]; cbn [bind] in H; try discriminate H
           end;
    injection H as <-; unfold dc_labs; cbn [dc_labels];
    first [ exact L1 | apply L2 | apply Forall_nil
          | match goal with |- context [if ?c then _ else _] => destruct c end;
            [rewrite <- (map_map nshow (fun l => (tc_name t ++ "[" ++ l ++ "]")%string)); apply L2|exact L1]
          | constructor; [right; eexists; reflexivity|constructor] ].
Qed.

(* ------------------------------------------------------------------------------------------ *)
(** * 6. Label uniqueness: the common labels of a design *)

Definition comp_name_of (d : dcomp) : string := tc_name (dc_t d).

(* the components of the common terms *)
Definition design_comps (ds : design) : list dcomp := flat_map dt_comps (ds_common ds).

(* how the labels of a term are made, whatever the components *)
Definition dterm_labels_form (dt : dterm) : Prop :=
  (dt_name dt = "Intercept" /\ dt_comps dt = [] /\ dt_labs dt = ["Intercept"]) \/
  (exists d0 rest, dt_comps dt = d0 :: rest /\
     dt_name dt = concat_with ":" (map comp_name_of (d0 :: rest)) /\
     Forall (fun d => Forall (label_of_name (comp_name_of d)) (dc_labs d)) (d0 :: rest) /\
     dt_labs dt = fold_left (label_step ":") (map dc_labs rest) (dc_labs d0)).

Lemma dterm_made_labels_form cx D n dt : dterm_made cx D n dt -> dterm_labels_form dt.
Proof.
  intros (tt & s & _ & Hnm & Hd). destruct tt as [|name cs].
  - left. simpl in Hd. injection Hd as <-. repeat split.
  - right. simpl in Hnm. unfold set_data_term in Hd. apply bind_ok in Hd as (ds & Hds & Hd).
    apply mapM_ok in Hds.
    assert (Hn : map tc_name cs = map comp_name_of ds /\
                 Forall (fun d => Forall (label_of_name (comp_name_of d)) (dc_labs d)) ds).
    { clear -Hds. induction Hds as [|c d cs' ds' Hcd _ [IH1 IH2]]; [split; constructor|].
      destruct (set_data_comp_spans _ _ _ _ Hcd) as [_ Ht]. unfold comp_name_of in *. split.
      - cbn [map]. rewrite IH1, Ht. reflexivity.
      - constructor; [|exact IH2]. rewrite Ht. eapply set_data_comp_label_shape. exact Hcd. }
    destruct Hn as [Hn Hsh]. rewrite Hn in Hnm.
    destruct ds as [|d0 [|d1 rest]]; [discriminate Hd| |].
    + injection Hd as <-. exists d0, []. cbn [dt_comps dt_name]. repeat split; auto.
    + apply bind_ok in Hd as (labs & Hlabs & Hd). destruct (existsb _ labs); [discriminate Hd|].
      injection Hd as <-. apply mapM_labels in Hlabs. subst labs.
      exists d0, (d1 :: rest). cbn [dt_comps dt_name]. repeat split; auto.
Qed.

Lemma eval_model_common_names cx D m ds :
  eval_model cx D m = Ok ds -> NoDup (map dt_name (ds_common ds)).
Proof.
  intros H. unfold eval_model in H.
  do 8 (apply bind_ok in H as (? & _ & H)). injection H as <-. cbn [ds_common].
  apply fold_dict_set_names.
Qed.

Lemma NoDup_flat_map_keyed {A B K} (key : A -> K) (f : A -> list B) l :
  NoDup (map key l) -> (forall a, In a l -> NoDup (f a)) ->
  (forall a b x, In a l -> In b l -> In x (f a) -> In x (f b) -> key a = key b) ->
  NoDup (flat_map f l).
Proof.
  induction l as [|a l IH]; intros Hk Hf Hx; [constructor|]. cbn [flat_map map] in *.
  inversion Hk as [|? ? Hka Hkl]; subst. apply NoDup_app_intro.
  - apply Hf. left; reflexivity.
  - apply IH; [exact Hkl|intros; apply Hf; right; assumption|].
    intros b c x Hb Hc. apply Hx; right; assumption.
  - intros x Ha Hin. apply in_flat_map in Hin as (b & Hb & Hxb). apply Hka.
    rewrite (Hx a b x (or_introl eq_refl) (or_intror Hb) Ha Hxb). apply in_map. exact Hb.
Qed.

Lemma Forall2_In_Forall {A B} (P : A -> Prop) (f : B -> list A) ps ds :
  Forall2 (fun p d => In p (f d)) ps ds -> Forall (fun d => Forall P (f d)) ds -> Forall P ps.
Proof.
  induction 1 as [|p d ps ds Hin _ IH]; intros H; constructor.
  - pose proof (Forall_inv H) as H0. rewrite Forall_forall in H0. exact (H0 p Hin).
  - apply IH. exact (Forall_inv_tail H).
Qed.

(* the members of the labels of a term with components d0 :: rest *)
Lemma In_term_labels x d0 rest :
  In x (fold_left (label_step ":") (map dc_labs rest) (dc_labs d0)) ->
  exists p0 ps, In p0 (dc_labs d0) /\ Forall2 (fun p d => In p (dc_labs d)) ps rest /\ x = joinc p0 ps.
Proof.
  intros H. destruct (In_fold_label_step _ _ _ H) as (a & ps & Ha & Hps & ->).
  exists a, ps. split; [exact Ha|]. split; [exact (proj1 (Forall2_map_r (fun p l => In p l) dc_labs ps rest) Hps)|reflexivity].
Qed.

Definition no_bracket_ext (l : list dcomp) : Prop :=
  forall d1 d2, In d1 l -> In d2 l -> ~ bracket_ext (comp_name_of d1) (comp_name_of d2).

Lemma shared_labels_names (all : list dcomp) ps : forall ds es,
  no_bracket_ext all -> incl ds all -> incl es all ->
  Forall2 (fun p d => In p (dc_labs d)) ps ds -> Forall2 (fun p e => In p (dc_labs e)) ps es ->
  Forall (fun d => Forall (label_of_name (comp_name_of d)) (dc_labs d)) ds ->
  Forall (fun d => Forall (label_of_name (comp_name_of d)) (dc_labs d)) es ->
  map comp_name_of ds = map comp_name_of es.
Proof.
  induction ps as [|p ps IH]; intros ds es Hnb Hd He H1 H2 S1 S2; inversion H1; inversion H2; subst; [reflexivity|].
  cbn [map]. f_equal.
  - pose proof (Forall_inv S1) as Sd. pose proof (Forall_inv S2) as Se. rewrite Forall_forall in Sd, Se.
    match goal with Hy : In p (dc_labs ?y), Hy0 : In p (dc_labs ?y0) |- comp_name_of ?y = comp_name_of ?y0 =>
      destruct (label_names_clash _ _ p (Sd p Hy) (Se p Hy0)) as [E|[E|E]]; [exact E| |];
      exfalso; [apply (Hnb y y0)|apply (Hnb y0 y)]; auto;
      first [apply Hd; left; reflexivity|apply He; left; reflexivity] end.
  - apply IH; auto.
    + intros z Hz. apply Hd. right; exact Hz.
    + intros z Hz. apply He. right; exact Hz.
    + exact (Forall_inv_tail S1).
    + exact (Forall_inv_tail S2).
Qed.

Lemma joinc_nonempty_colon p0 ps : ps <> [] -> has_charb ":"%char (joinc p0 ps) = true.
Proof.
  destruct ps as [|p ps _] using rev_ind; [congruence|]. intros _. rewrite joinc_snoc. apply colon_in_join.
Qed.

(** LABEL UNIQUENESS.  In a design built by [eval_model], all common column labels are pairwise
    distinct, provided
      - no label of a single component contains ':' (names and levels are colon-free),
      - no component name is another component name followed by '[' ...,
      - the labels of each single component are pairwise distinct
    (see [coded_comp_labels_NoDup] for the last one; none of the three can be dropped:
    [label_clash_level_refuted], [label_clash_backquote_refuted], [label_clash_mean_refuted]). *)
Theorem common_labels_NoDup cx D m ds :
  eval_model cx D m = Ok ds ->
  Forall (fun d => Forall colon_free (dc_labs d)) (design_comps ds) ->
  no_bracket_ext (design_comps ds) ->
  Forall (fun d => NoDup (dc_labs d)) (design_comps ds) ->
  NoDup (common_labels ds).
Proof.
  intros H Hcol Hnb Hnd.
  pose proof (eval_model_made _ _ _ _ H) as Hmade. pose proof (eval_model_common_names _ _ _ _ H) as Hnames.
  assert (Hform : forall t, In t (ds_common ds) -> dterm_labels_form t).
  { rewrite Forall_forall in Hmade. intros t Ht. eapply dterm_made_labels_form. exact (Hmade t Ht). }
  assert (Hincl : forall t, In t (ds_common ds) -> incl (dt_comps t) (design_comps ds)).
  { intros t Ht d Hd. unfold design_comps. apply in_flat_map. eauto. }
  rewrite Forall_forall in Hcol, Hnd.
  unfold common_labels. apply (NoDup_flat_map_keyed dt_name); [exact Hnames| |].
  - (* the labels of one term *)
    intros t Ht. destruct (Hform t Ht) as [(_ & _ & ->)|(d0 & rest & Hc & _ & _ & ->)].
    + constructor; [intros []|constructor].
    + pose proof (Hincl t Ht) as Hi. rewrite Hc in Hi.
      apply NoDup_fold_label_step.
      * apply Hnd. apply Hi. left; reflexivity.
      * apply Forall_map, Forall_forall. intros d Hd. apply Hnd. apply Hi. right; exact Hd.
      * apply Forall_map, Forall_forall. intros d Hd. apply Hcol. apply Hi. right; exact Hd.
  - (* two terms sharing a label have the same name *)
    assert (Hint : forall a b x, In b (ds_common ds) ->
              dt_name a = "Intercept" -> dt_labs a = ["Intercept"] -> In x (dt_labs a) -> In x (dt_labs b) ->
              dt_name b = "Intercept").
    { intros a b x Hb Hna Hla Hxa Hxb. rewrite Hla in Hxa. destruct Hxa as [<-|[]].
      destruct (Hform b Hb) as [(Hnb' & _)|(d0 & rest & Hc & Hname & Hsh & Hl)]; [exact Hnb'|].
      rewrite Hl in Hxb. destruct (In_term_labels _ _ _ Hxb) as (p0 & ps & Hp0 & Hps & E).
      destruct ps as [|p ps].
      - inversion Hps; subst. cbn [joinc fold_left] in E. subst p0.
        pose proof (Forall_inv Hsh) as S0. rewrite Forall_forall in S0.
        destruct (S0 _ Hp0) as [E|(l & E)].
        + rewrite Hname. cbn [map concat_with]. symmetry. exact E.
        + exfalso. apply (f_equal (has_charb "["%char)) in E. rewrite has_charb_app in E.
          cbn [has_charb] in E. rewrite orb_true_r in E. discriminate E.
      - exfalso. apply (f_equal (has_charb ":"%char)) in E.
        rewrite joinc_nonempty_colon in E by discriminate. discriminate E. }
    intros a b x Ha Hb Hxa Hxb.
    destruct (Hform a Ha) as [(Hna & _ & Hla)|(d0 & rest & Hc & Hname & Hsh & Hl)].
    { rewrite Hna. symmetry. eapply Hint; eassumption. }
    destruct (Hform b Hb) as [(Hnb' & _ & Hlb)|(e0 & rest' & Hc' & Hname' & Hsh' & Hl')].
    { rewrite Hnb'. eapply Hint; eassumption. }
    rewrite Hl in Hxa. rewrite Hl' in Hxb.
    destruct (In_term_labels _ _ _ Hxa) as (p0 & ps & Hp0 & Hps & ->).
    destruct (In_term_labels _ _ _ Hxb) as (q0 & qs & Hq0 & Hqs & E).
    pose proof (Hincl a Ha) as Hia. rewrite Hc in Hia. pose proof (Hincl b Hb) as Hib. rewrite Hc' in Hib.
    assert (Cp : Forall colon_free (p0 :: ps)).
    { apply (Forall2_In_Forall colon_free dc_labs (p0 :: ps) (d0 :: rest)); [constructor; assumption|].
      apply Forall_forall. intros d Hd. apply Hcol. apply Hia. exact Hd. }
    assert (Cq : Forall colon_free (q0 :: qs)).
    { apply (Forall2_In_Forall colon_free dc_labs (q0 :: qs) (e0 :: rest')); [constructor; assumption|].
      apply Forall_forall. intros d Hd. apply Hcol. apply Hib. exact Hd. }
    destruct (joinc_inj _ _ _ _ Cp Cq E) as [-> ->].
    rewrite Hname, Hname'. f_equal.
    apply (shared_labels_names (design_comps ds) (q0 :: qs)); auto; constructor; assumption.
Qed.

(** ** The labels of one coded component are pairwise distinct -- unless a fully Sum-coded factor
       has a kept level literally named "mean" *)

Lemma append_inj_r a : forall x y, (x ++ a)%string = (y ++ a)%string -> x = y.
Proof.
  assert (L : forall x y : string, String.length (x ++ y)%string = String.length x + String.length y).
  { induction x as [|c x IH]; intros y; simpl; [reflexivity|]. rewrite IH. reflexivity. }
  induction x as [|c x IH]; intros [|c' y] E; simpl in E.
  - reflexivity.
  - exfalso. apply (f_equal String.length) in E. simpl in E. rewrite L in E. lia.
  - exfalso. apply (f_equal String.length) in E. simpl in E. rewrite L in E. lia.
  - injection E as -> E. f_equal. apply IH. exact E.
Qed.

Lemma bracket_label_inj n l1 l2 : (n ++ "[" ++ l1 ++ "]")%string = (n ++ "[" ++ l2 ++ "]")%string -> l1 = l2.
Proof. intros E. apply append_inj_l in E. simpl in E. injection E as E. apply append_inj_r in E. exact E. Qed.

Lemma nshow_inj a b : nshow a = nshow b -> a = b.
Proof. unfold nshow. intros E. apply zshow_inj in E. lia. Qed.

(* the condition on "mean" *)
Definition mean_not_a_kept_level (t : tcomp) (spans : bool) : Prop :=
  forall omit, tc_kind t = KCategoric -> comp_encoding t = Sum omit -> spans = true ->
    ~ In "mean" (without (sum_omitted omit (comp_levels t)) (comp_levels t)).

Theorem coded_comp_labels_NoDup t spans n d :
  coded_comp' t -> set_data_comp t spans n = Ok d -> mean_not_a_kept_level t spans -> NoDup (dc_labs d).
Proof.
  intros Hc H Hmean. unfold dc_labs. rewrite (coded_comp'_labels t spans n d Hc H).
  assert (Inj : forall ls, NoDup ls -> NoDup (map (fun l => (tc_name t ++ "[" ++ l ++ "]")%string) ls)).
  { intros ls Hls. apply NoDup_map_inj; [|exact Hls]. intros a b. apply bracket_label_inj. }
  destruct Hc as [Hc|[(Hk & rows & Hv & _)|(Hk & Hr & o & xs & Hv)]].
  - destruct (coded_comp_pieces' t Hc) as (Hp & _ & _). rewrite Hp, map_map. cbn [piece_label'].
    destruct Hc as [(Hk & isint & xs & Hv)|(Hk & Hr & Hdecl & Henc)].
    + unfold comp_pieces. rewrite Hk. repeat constructor. intros [].
    + pose proof (set_data_comp_levels_NoDup t spans n d Hk H Hdecl) as Hnd.
      rewrite (set_data_comp_levels t spans n d Hk H) in Hnd.
      unfold comp_pieces. rewrite Hk. destruct Henc as [(ref & He)|(omit & He & Hne)]; rewrite He.
      * rewrite map_map. cbn [piece_label]. apply Inj. destruct spans; [exact Hnd|apply NoDup_filter; exact Hnd].
      * rewrite map_app, !map_map. cbn [piece_label].
        assert (K : NoDup (without (sum_omitted omit (comp_levels t)) (comp_levels t)))
          by (apply NoDup_filter; exact Hnd).
        destruct spans; cbn [map app]; [|apply Inj; exact K].
        change (tc_name t ++ "[mean]")%string with (tc_name t ++ "[" ++ "mean" ++ "]")%string.
        apply (Inj ("mean" :: _)). constructor; [|exact K]. apply (Hmean omit Hk He eq_refl).
  - unfold comp_pieces'. rewrite Hk, Hv. destruct (1 <? width rows).
    + rewrite map_map. cbn [piece_label']. rewrite <- (map_map nshow (fun l => (tc_name t ++ "[" ++ l ++ "]")%string)).
      apply Inj. apply NoDup_map_inj; [exact nshow_inj|apply seq_NoDup].
    + repeat constructor. intros [].
  - unfold comp_pieces'. rewrite Hk. destruct (tc_value t); repeat constructor; intros [].
Qed.

(** ** The first condition, from the inputs: the labels of a coded component (numeric series,
       Treatment- or Sum-coded factor, offset) are colon-free as soon as its name and its levels
       are *)
Lemma bracket_label_colon_free n l :
  colon_free n -> colon_free l -> colon_free (n ++ "[" ++ l ++ "]")%string.
Proof.
  unfold colon_free. intros Hn Hl. rewrite has_charb_app, Hn. cbn [append has_charb orb Ascii.eqb].
  rewrite has_charb_app, Hl. reflexivity.
Qed.

Theorem coded_labels_colon_free t spans n d :
  coded_comp t \/ offset_comp t -> set_data_comp t spans n = Ok d ->
  colon_free (tc_name t) -> Forall colon_free (comp_levels t) -> Forall colon_free (dc_labs d).
Proof.
  intros Hc H Hn Hl.
  assert (Hc' : coded_comp' t) by (destruct Hc; [left|right; right]; assumption).
  unfold dc_labs. rewrite (coded_comp'_labels t spans n d Hc' H). apply Forall_map.
  assert (Sub : forall f, Forall colon_free (filter f (comp_levels t))).
  { intros f. apply Forall_forall. intros x Hx. apply filter_In in Hx as [Hx _].
    rewrite Forall_forall in Hl. exact (Hl x Hx). }
  destruct Hc as [Hc|(Hk & _ & _)].
  - destruct (coded_comp_pieces' t Hc) as (Hp & _ & _). rewrite Hp. apply Forall_map.
    destruct Hc as [(Hk & _)|(Hk & _)]; unfold comp_pieces; rewrite Hk.
    + constructor; [exact Hn|constructor].
    + destruct (comp_encoding t) as [ref|omit].
      * apply Forall_map. cbn [piece_label' piece_label].
        assert (G : Forall colon_free (if spans then comp_levels t
                                       else without (treatment_reference ref (comp_levels t)) (comp_levels t)))
          by (destruct spans; [exact Hl|apply Sub]).
        eapply Forall_impl; [|exact G]. intros l Hl'. apply bracket_label_colon_free; assumption.
      * apply Forall_app. split.
        -- destruct spans; constructor; [|constructor]. cbn [piece_label' piece_label].
           apply (bracket_label_colon_free (tc_name t) "mean" Hn). reflexivity.
        -- apply Forall_map. cbn [piece_label' piece_label].
           eapply Forall_impl; [|apply Sub]. intros l Hl'. apply bracket_label_colon_free; assumption.
  - unfold comp_pieces'. rewrite Hk. destruct (tc_value t); constructor; try constructor; exact Hn.
Qed.

(* ------------------------------------------------------------------------------------------ *)
(** * 7. Label uniqueness: the group-specific labels of a design *)

Definition bar_free (s : string) : Prop := has_charb "|"%char s = false.

(* splitting at the last occurrence of a character *)
Lemma split_last_char c a : forall a' b b',
  has_charb c b = false -> has_charb c b' = false ->
  (a ++ String c b)%string = (a' ++ String c b')%string -> a = a' /\ b = b'.
Proof.
  assert (K : forall x y, has_charb c (x ++ String c y)%string = true).
  { intros x y. rewrite has_charb_app. simpl. rewrite Ascii.eqb_refl. apply orb_true_r. }
  induction a as [|x a IH]; intros [|y a'] b b' Hb Hb' E; simpl in E.
  - injection E as E. auto.
  - injection E as _ E. rewrite E, K in Hb. discriminate Hb.
  - injection E as _ E. rewrite <- E, K in Hb'. discriminate Hb'.
  - injection E as -> E. destruct (IH a' b b' Hb Hb' E) as [-> ->]. auto.
Qed.

(* the two non-intercept shapes of [dterm_labels_form] *)
Definition dterm_comps_form (dt : dterm) : Prop :=
  exists d0 rest, dt_comps dt = d0 :: rest /\
     dt_name dt = concat_with ":" (map comp_name_of (d0 :: rest)) /\
     Forall (fun d => Forall (label_of_name (comp_name_of d)) (dc_labs d)) (d0 :: rest) /\
     dt_labs dt = fold_left (label_step ":") (map dc_labs rest) (dc_labs d0).

(* a constant without ':' and '[' ("Intercept", "1") can only be a label of the term of that name *)
Lemma const_label_name K b :
  has_charb ":"%char K = false -> has_charb "["%char K = false ->
  dterm_comps_form b -> In K (dt_labs b) -> dt_name b = K.
Proof.
  intros K1 K2 (d0 & rest & Hc & Hname & Hsh & Hl) Hin. rewrite Hl in Hin.
  destruct (In_term_labels _ _ _ Hin) as (p0 & ps & Hp0 & Hps & E).
  destruct ps as [|p ps].
  - inversion Hps; subst. cbn [joinc fold_left] in *.
    pose proof (Forall_inv Hsh) as S0. rewrite Forall_forall in S0.
    destruct (S0 _ Hp0) as [E|(l & E)].
    + rewrite Hname. cbn [map concat_with]. symmetry. exact E.
    + exfalso. rewrite E, has_charb_app in K2. cbn [has_charb] in K2. rewrite orb_true_r in K2. discriminate K2.
  - exfalso. rewrite E, joinc_nonempty_colon in K1 by discriminate. discriminate K1.
Qed.

(* two terms (lists of components) sharing a label have the same component names *)
Lemma comps_shared_label (all : list dcomp) d0 rest e0 rest' x :
  Forall (fun d => Forall colon_free (dc_labs d)) all -> no_bracket_ext all ->
  incl (d0 :: rest) all -> incl (e0 :: rest') all ->
  Forall (fun d => Forall (label_of_name (comp_name_of d)) (dc_labs d)) (d0 :: rest) ->
  Forall (fun d => Forall (label_of_name (comp_name_of d)) (dc_labs d)) (e0 :: rest') ->
  In x (fold_left (label_step ":") (map dc_labs rest) (dc_labs d0)) ->
  In x (fold_left (label_step ":") (map dc_labs rest') (dc_labs e0)) ->
  map comp_name_of (d0 :: rest) = map comp_name_of (e0 :: rest').
Proof.
  intros Hcol Hnb Hia Hib Hsh Hsh' Hxa Hxb. rewrite Forall_forall in Hcol.
  destruct (In_term_labels _ _ _ Hxa) as (p0 & ps & Hp0 & Hps & ->).
  destruct (In_term_labels _ _ _ Hxb) as (q0 & qs & Hq0 & Hqs & E).
  assert (Cp : Forall colon_free (p0 :: ps)).
  { apply (Forall2_In_Forall colon_free dc_labs (p0 :: ps) (d0 :: rest)); [constructor; assumption|].
    apply Forall_forall. intros d Hd. apply Hcol. apply Hia. exact Hd. }
  assert (Cq : Forall colon_free (q0 :: qs)).
  { apply (Forall2_In_Forall colon_free dc_labs (q0 :: qs) (e0 :: rest')); [constructor; assumption|].
    apply Forall_forall. intros d Hd. apply Hcol. apply Hib. exact Hd. }
  destruct (joinc_inj _ _ _ _ Cp Cq E) as [-> ->].
  apply (shared_labels_names all (q0 :: qs)); auto; constructor; assumption.
Qed.

(* what [eval_model] builds for a group-specific term *)
Definition gexpr_key (e : dterm) : string :=
  if String.eqb (dt_kind e) "intercept" then "1" else dt_name e.

Definition dgterm_labels_form (g : dgterm) : Prop :=
  (* the effect: the intercept (levels ["1"]) or a term of components *)
  ((dt_kind (dg_expr g) = "intercept" /\ dt_comps (dg_expr g) = []) \/
   (String.eqb (dt_kind (dg_expr g)) "intercept" = false /\ dterm_comps_form (dg_expr g))) /\
  (* the grouping factor *)
  (exists f0 frest, dg_factor g = f0 :: frest /\
     Forall (fun d => Forall (label_of_name (comp_name_of d)) (dc_labs d)) (f0 :: frest) /\
     dg_name g = (gexpr_key (dg_expr g) ++ "|" ++ concat_with ":" (map comp_name_of (f0 :: frest)))%string /\
     dg_labels g
     = flat_map (fun gr => map (fun lv => (lv ++ "|" ++ gr)%string)
                               (if String.eqb (dt_kind (dg_expr g)) "intercept" then ["1"]
                                else dt_labs (dg_expr g)))
                (fold_left (label_step ":") (map dc_labs frest) (dc_labs f0))).

Lemma force_categoric_name c : tc_name (force_categoric c) = tc_name c.
Proof. reflexivity. Qed.

Lemma eval_model_group_form cx D m ds :
  groups_nonempty m -> eval_model cx D m = Ok ds -> Forall dgterm_labels_form (ds_group ds).
Proof.
  intros Hg H. unfold eval_model in H. set (n := frame_rows D) in *.
  apply bind_ok in H as (tcs & _ & H). apply bind_ok in H as (tgs & Htgs & H).
  apply bind_ok in H as (enc1 & _ & H). apply bind_ok in H as (tcs2 & _ & H).
  apply bind_ok in H as (enc2 & _ & H). apply bind_ok in H as (dcs & _ & H).
  apply bind_ok in H as (dgs & Hdgs & H). apply bind_ok in H as (r & _ & H). injection H as <-.
  cbn [ds_group]. apply fold_dict_set_all.
  apply mapM_ok in Hdgs. apply mapM_ok in Htgs.
  pose proof (Forall2_combine_flip _ _ _ Htgs) as Hty.
  apply (Forall2_Forall_r _ _ _ _ Hdgs). intros [tg g] dg Hin Hd.
  rewrite Forall_forall in Hty. specialize (Hty _ Hin). apply in_combine_r in Hin.
  cbn [fst snd] in *. unfold set_type_gterm in Hty.
  destruct (gfactor g) as [| |f] eqn:Ef; try discriminate Hty.
  apply bind_ok in Hty as (fs & Hfs & Hty). apply bind_ok in Hty as (e & He & Hty).
  apply bind_ok in Hty as (nm & Hnm & Hty). injection Hty as <-.
  pose proof (Hg g f Hin Ef) as Hne.
  (* names *)
  assert (Nf : term_name f = concat_with ":" (map tc_name (map force_categoric fs))).
  { unfold term_name. f_equal. apply mapM_ok in Hfs. clear -Hfs.
    induction Hfs as [|c tc t' cs' Hc _ IH]; simpl; [reflexivity|].
    rewrite IH, (set_type_comp_name _ _ _ _ _ Hc). reflexivity. }
  assert (Ne : match e with TTIntercept => gexpr g = CI
                          | TTTerm name cs => name = concat_with ":" (map tc_name cs) /\
                                              exists t, gexpr g = CT t /\ name = term_name t end).
  { destruct (gexpr g) as [| |t]; [injection He as <-; reflexivity|discriminate He|].
    pose proof (set_type_term_named _ _ _ _ _ He) as N. unfold set_type_term in He.
    apply bind_ok in He as (cs & _ & He). injection He as <-. simpl in N. split; [exact N|]. eauto. }
  unfold set_data_gterm in Hd. cbn [tg_expr tg_factor tg_name tg_factor_name] in Hd.
  apply bind_ok in Hd as (de & Hde & Hd). apply bind_ok in Hd as (dfs & Hdfs & Hd).
  apply bind_ok in Hd as (glabs & _ & Hd). apply bind_ok in Hd as (flabs & Hflabs & Hd).
  apply bind_ok in Hd as (levels & Hlev & Hd). injection Hd as <-.
  unfold dgterm_labels_form, gexpr_key. cbn [dg_expr dg_factor dg_name dg_labels].
  apply mapM_labels in Hflabs. subst flabs.
  (* the factor components *)
  apply mapM_ok in Hdfs.
  assert (Hn : map tc_name (map force_categoric fs) = map comp_name_of dfs /\
               Forall (fun d => Forall (label_of_name (comp_name_of d)) (dc_labs d)) dfs).
  { clear -Hdfs. induction Hdfs as [|c d cs' ds' Hcd _ [IH1 IH2]]; [split; constructor|].
    destruct (set_data_comp_spans _ _ _ _ Hcd) as [_ Ht]. unfold comp_name_of in *. split.
    - cbn [map]. rewrite IH1, Ht. reflexivity.
    - constructor; [|exact IH2]. rewrite Ht. eapply set_data_comp_label_shape. exact Hcd. }
  destruct Hn as [Hn Hsh]. rewrite Hn in Nf.
  assert (Hdfs_ne : dfs <> []).
  { apply mapM_length in Hfs. intros ->. inversion Hdfs as [E1 E2|]. destruct fs; [|discriminate E1].
    destruct f; [congruence|discriminate Hfs]. }
  destruct dfs as [|f0 frest]; [congruence|].
  split.
  - (* the effect *)
    destruct e as [|name cs].
    + left. simpl in Hde. injection Hde as <-. split; reflexivity.
    + right. destruct (set_data_term_inv _ _ _ _ _ Hde) as (d0 & rest & _ & _ & _ & Hk). split; [exact Hk|].
      assert (Hmade : dterm_made cx D n de).
      { exists (TTTerm name cs), (SpBool (group_spans (groups m) g)). split; [|split; [exact (proj1 Ne)|exact Hde]].
        destruct Ne as (_ & t & Et & _). rewrite Et in He. eapply set_type_term_typed. exact He. }
      destruct (dterm_made_labels_form _ _ _ _ Hmade) as [(_ & Hc & _)|F]; [|exact F].
      destruct (set_data_term_inv _ _ _ _ _ Hde) as (d0' & rest' & _ & Hc' & _). congruence.
  - exists f0, frest. split; [reflexivity|]. split; [exact Hsh|]. split.
    + (* the name *)
      unfold gterm_name in Hnm. rewrite Ef in Hnm.
      destruct e as [|name cs].
      * simpl in Hde. injection Hde as <-. cbn [dt_kind]. rewrite String.eqb_refl.
        rewrite Ne in Hnm. injection Hnm as <-. rewrite Nf. reflexivity.
      * destruct (set_data_term_inv _ _ _ _ _ Hde) as (d0 & rest & _ & _ & _ & Hk). rewrite Hk.
        destruct Ne as (_ & t & Et & En). rewrite Et in Hnm. injection Hnm as <-.
        rewrite Nf, <- En.
        assert (Edn : dt_name de = name).
        { unfold set_data_term in Hde. apply bind_ok in Hde as (dsx & _ & Hde).
          destruct dsx as [|x0 [|x1 xr]]; [discriminate Hde|injection Hde as <-; reflexivity|].
          apply bind_ok in Hde as (lb & _ & Hde). destruct (existsb _ lb); [discriminate Hde|].
          injection Hde as <-. reflexivity. }
        rewrite Edn. reflexivity.
    + (* the labels *)
      change (map dc_labs (f0 :: frest)) with (dc_labs f0 :: map dc_labs frest).
      rewrite label_product_cons. f_equal.
      destruct (String.eqb (dt_kind de) "intercept"); [injection Hlev as <-; reflexivity|].
      unfold dt_labs. destruct (dt_labels de); [injection Hlev as <-; reflexivity|discriminate Hlev].
Qed.

Definition group_comps (ds : design) : list dcomp :=
  flat_map (fun g => dt_comps (dg_expr g) ++ dg_factor g) (ds_group ds).
Definition group_factor_comps (ds : design) : list dcomp := flat_map dg_factor (ds_group ds).
Definition group_labels (ds : design) : list string := flat_map dg_labels (ds_group ds).

Lemma eval_model_group_names cx D m ds :
  eval_model cx D m = Ok ds -> NoDup (map dg_name (ds_group ds)).
Proof.
  intros H. unfold eval_model in H.
  do 8 (apply bind_ok in H as (? & _ & H)). injection H as <-. cbn [ds_group].
  apply fold_dict_set_names.
Qed.

Lemma joinc_char_free c ps : forall p0,
  Ascii.eqb ":"%char c = false -> has_charb c p0 = false -> Forall (fun p => has_charb c p = false) ps ->
  has_charb c (joinc p0 ps) = false.
Proof.
  induction ps as [|p ps IH]; intros p0 Hc H0 Hps; [exact H0|]. cbn [joinc fold_left].
  apply (IH (p0 ++ ":" ++ p)%string Hc); [|exact (Forall_inv_tail Hps)].
  rewrite has_charb_app. cbn [has_charb append]. rewrite H0, Hc, (Forall_inv Hps). reflexivity.
Qed.

Lemma term_labels_bar_free d0 rest x :
  Forall (fun d => Forall bar_free (dc_labs d)) (d0 :: rest) ->
  In x (fold_left (label_step ":") (map dc_labs rest) (dc_labs d0)) -> bar_free x.
Proof.
  intros Hb Hx. destruct (In_term_labels _ _ _ Hx) as (p0 & ps & Hp0 & Hps & ->).
  assert (B : Forall bar_free (p0 :: ps)).
  { apply (Forall2_In_Forall bar_free dc_labs (p0 :: ps) (d0 :: rest)); [constructor; assumption|exact Hb]. }
  apply joinc_char_free; [reflexivity|exact (Forall_inv B)|exact (Forall_inv_tail B)].
Qed.

Lemma NoDup_bar_product levels FL :
  NoDup levels -> NoDup FL -> Forall bar_free FL ->
  NoDup (flat_map (fun gr => map (fun lv => (lv ++ "|" ++ gr)%string) levels) FL).
Proof.
  intros Hl Hf Hb. induction Hf as [|gr FL Hin _ IH]; [constructor|]. cbn [flat_map].
  apply NoDup_app_intro; [| apply IH; exact (Forall_inv_tail Hb) |].
  - apply NoDup_map_inj; [|exact Hl]. intros a b E. apply append_inj_r in E. exact E.
  - intros x Hx Hy. apply in_map_iff in Hx as (lv & <- & _).
    apply in_flat_map in Hy as (gr' & Hgr' & Hy). apply in_map_iff in Hy as (lv' & E & _).
    rewrite Forall_forall in Hb.
    destruct (split_last_char "|"%char _ _ _ _ (Hb gr' (or_intror Hgr')) (Hb gr (or_introl eq_refl)) E) as [_ ->].
    contradiction.
Qed.

(** GROUP-SPECIFIC LABELS: pairwise distinct within a design, under the same three conditions on
    the components of the group-specific terms, and no '|' inside a label of a grouping-factor
    component ([group_label_clash_refuted] shows a clash when a level contains "]:h["). *)
Theorem group_labels_NoDup cx D m ds :
  groups_nonempty m -> eval_model cx D m = Ok ds ->
  Forall (fun d => Forall colon_free (dc_labs d)) (group_comps ds) ->
  Forall (fun d => Forall bar_free (dc_labs d)) (group_factor_comps ds) ->
  no_bracket_ext (group_comps ds) ->
  Forall (fun d => NoDup (dc_labs d)) (group_comps ds) ->
  NoDup (group_labels ds).
Proof.
  intros Hg H Hcol Hbar Hnb Hnd.
  pose proof (eval_model_group_form _ _ _ _ Hg H) as Hform. pose proof (eval_model_group_names _ _ _ _ H) as Hnames.
  rewrite Forall_forall in Hform.
  assert (Hie : forall g, In g (ds_group ds) -> incl (dt_comps (dg_expr g)) (group_comps ds)).
  { intros g Hin d Hd. unfold group_comps. apply in_flat_map. exists g. split; [exact Hin|]. apply in_or_app. auto. }
  assert (Hif : forall g, In g (ds_group ds) -> incl (dg_factor g) (group_comps ds)).
  { intros g Hin d Hd. unfold group_comps. apply in_flat_map. exists g. split; [exact Hin|]. apply in_or_app. auto. }
  assert (Hbf : forall g, In g (ds_group ds) -> Forall (fun d => Forall bar_free (dc_labs d)) (dg_factor g)).
  { intros g Hin. rewrite Forall_forall in Hbar |- *. intros d Hd. apply Hbar. unfold group_factor_comps.
    apply in_flat_map. eauto. }
  pose proof Hcol as Hcol'. pose proof Hnd as Hnd'. rewrite Forall_forall in Hcol', Hnd'.
  assert (Hterm : forall d0 rest, incl (d0 :: rest) (group_comps ds) ->
            NoDup (fold_left (label_step ":") (map dc_labs rest) (dc_labs d0))).
  { intros d0 rest Hi. apply NoDup_fold_label_step.
    - apply Hnd'. apply Hi. left; reflexivity.
    - apply Forall_map, Forall_forall. intros d Hd. apply Hnd'. apply Hi. right; exact Hd.
    - apply Forall_map, Forall_forall. intros d Hd. apply Hcol'. apply Hi. right; exact Hd. }
  unfold group_labels. apply (NoDup_flat_map_keyed dg_name); [exact Hnames| |].
  - intros g Hin. destruct (Hform g Hin) as (He & f0 & frest & Hf & _ & _ & ->).
    pose proof (Hif g Hin) as Hi. pose proof (Hbf g Hin) as Hb. rewrite Hf in Hi, Hb.
    apply NoDup_bar_product.
    + destruct He as [(Hk & _)|(Hk & d0 & rest & Hc & _ & _ & Hl)].
      * rewrite Hk. cbn. constructor; [intros []|constructor].
      * rewrite Hk, Hl. apply Hterm. rewrite <- Hc. apply Hie. exact Hin.
    + apply Hterm. exact Hi.
    + apply Forall_forall. intros x Hx. eapply term_labels_bar_free; eassumption.
  - intros a b x Ha Hb Hxa Hxb.
    destruct (Hform a Ha) as (Hea & f0 & frest & Hfa & Hsha & -> & Hla).
    destruct (Hform b Hb) as (Heb & g0 & grest & Hfb & Hshb & -> & Hlb).
    rewrite Hla in Hxa. rewrite Hlb in Hxb.
    apply in_flat_map in Hxa as (gr & Hgr & Hxa). apply in_map_iff in Hxa as (lv & <- & Hlv).
    apply in_flat_map in Hxb as (gr' & Hgr' & Hxb). apply in_map_iff in Hxb as (lv' & E & Hlv').
    pose proof (Hif a Ha) as Hia. pose proof (Hbf a Ha) as Hba. rewrite Hfa in Hia, Hba.
    pose proof (Hif b Hb) as Hib. pose proof (Hbf b Hb) as Hbb. rewrite Hfb in Hib, Hbb.
    destruct (split_last_char "|"%char _ _ _ _
                (term_labels_bar_free _ _ _ Hbb Hgr') (term_labels_bar_free _ _ _ Hba Hgr) E) as [-> ->].
    assert (Efac : map comp_name_of (f0 :: frest) = map comp_name_of (g0 :: grest))
      by (eapply (comps_shared_label (group_comps ds)); eassumption).
    rewrite Efac. f_equal.
    (* the effect part *)
    unfold gexpr_key.
    destruct Hea as [(Hka & _)|(Hka & Fa)]; destruct Heb as [(Hkb & _)|(Hkb & Fb)].
    + rewrite Hka, Hkb. reflexivity.
    + rewrite Hka in *. rewrite Hkb in *. cbn [String.eqb Ascii.eqb] in Hlv |- *.
      change (("intercept" =? "intercept")%string) with true in *. cbn iota in *.
      destruct Hlv as [<-|[]]. symmetry. apply const_label_name; auto.
    + rewrite Hka in *. rewrite Hkb in *.
      change (("intercept" =? "intercept")%string) with true in *. cbn iota in *.
      destruct Hlv' as [<-|[]]. apply const_label_name; auto.
    + rewrite Hka in *. rewrite Hkb in *.
      destruct Fa as (d0 & rest & Hc & Hname & Hsh & Hl). destruct Fb as (e0 & rest' & Hc' & Hname' & Hsh' & Hl').
      rewrite Hl in Hlv. rewrite Hl' in Hlv'. rewrite Hname, Hname'. f_equal.
      pose proof (Hie a Ha) as Ia. rewrite Hc in Ia. pose proof (Hie b Hb) as Ib. rewrite Hc' in Ib.
      eapply (comps_shared_label (group_comps ds)); eassumption.
Qed.

(* ------------------------------------------------------------------------------------------ *)
(** * 8. The response: every column is the denotation of its pieces (C15, observed at dm.response)

    The response term has ONE component, typed with is_response = true and coded "in full"
    (SpBool true).  Its pieces:
      - a numeric series: the piece [PcNumeric] (label: the name, value: the retained value);
        a matrix-valued call: its columns;
      - y[level] on categorical data: the single piece [PcIndicator level] (label y[level], value
        1 exactly where y = level);
      - categorical data without a level (or a box C(y, ...)): the pieces of the component under
        FULL coding (one indicator per level under Treatment);
      - prop(s, n): two columns, the successes and the trials -- the model keeps NO label for them
        ([dc_labels] is None). *)

Definition is_box (v : pyval) : bool := match v with PBox _ _ _ _ => true | _ => false end.

Definition resp_pieces (t : tcomp) : list piece' :=
  match tc_kind t with
  | KCategoric =>
      match tc_reference t with
      | Some ref => if is_box (tc_value t) then comp_pieces' t true else [Old (PcIndicator ref)]
      | None => comp_pieces' t true
      end
  | KProportion => [PcColumn 0; PcColumn 1]
  | _ => comp_pieces' t true
  end.

Definition resp_datum (t : tcomp) (i : nat) : datum' :=
  match tc_kind t, tc_value t with
  | KProportion, PProp ss ts _ => DRow [nth i ss None; nth i ts None]
  | _, _ => comp_datum' t i
  end.

(* the labels the model keeps for the response component *)
Definition resp_labels (t : tcomp) : option (list string) :=
  match tc_kind t with
  | KProportion => None
  | _ => Some (map (piece_label' (tc_name t)) (resp_pieces t))
  end.

(* the same component, seen as a predictor *)
Definition unresp (t : tcomp) : tcomp :=
  TC (tc_name t) (tc_src t) (tc_kind t) (tc_value t) (tc_state t) false (tc_reference t).

(* the response components covered *)
Definition resp_supported (t : tcomp) : Prop :=
  (* coded as a predictor would be, in full *)
  ((tc_kind t = KNumeric \/
    (tc_kind t = KCategoric /\ (tc_reference t = None \/ is_box (tc_value t) = true))) /\
   coded_comp' (unresp t)) \/
  (* y[level] *)
  (tc_kind t = KCategoric /\ is_box (tc_value t) = false /\ exists ref, tc_reference t = Some ref) \/
  (* proportion *)
  tc_kind t = KProportion.

Lemma set_data_comp_unresp t spans n d :
  tc_kind t = KNumeric \/ (tc_kind t = KCategoric /\ (tc_reference t = None \/ is_box (tc_value t) = true)) ->
  set_data_comp t spans n = Ok d ->
  exists d', set_data_comp (unresp t) spans n = Ok d' /\ dc_labels d' = dc_labels d /\ dc_rows d' = dc_rows d.
Proof.
  intros Hk H. unfold set_data_comp in *. cbn [unresp tc_kind tc_value tc_response tc_reference tc_name].
  destruct Hk as [Hk|(Hk & Href)]; rewrite Hk in *.
  - destruct (tc_value t); try discriminate H; injection H as <-; eexists; repeat split.
  - assert (Plain : forall nd : bool * option (list string) * list (option string),
              tc_reference t = None ->
              forall d,
              (if existsb (fun x => match x with None => true | _ => false end) (snd nd) then Err EUnsupported else
               let cats := match snd (fst nd) with Some cs => cs | None => sort_levels (fst (fst nd)) (present (snd nd)) end in
               match tc_response t, tc_reference t with
               | true, Some ref =>
                   Ok (DC t cats None
                          (map (fun x => [match x with
                                          | Some s => if String.eqb s ref then zcell 1 else zcell 0
                                          | None => zcell 0 end]) (snd nd))
                          (Some [(tc_name t ++ "[" ++ ref ++ "]")%string]) spans)
               | _, _ =>
                   do cm <- code (Treatment None) spans cats;
                   Ok (DC t cats (Some cm) (code_rows (cmatrix cm) (contrast_width cm) (level_codes cats (snd nd)))
                          (Some (map (fun l => (tc_name t ++ "[" ++ l ++ "]")%string) (clabels cm))) spans)
               end) = Ok d ->
              exists d',
                (if existsb (fun x => match x with None => true | _ => false end) (snd nd) then Err EUnsupported else
                 let cats := match snd (fst nd) with Some cs => cs | None => sort_levels (fst (fst nd)) (present (snd nd)) end in
                 match false, tc_reference t with
                 | true, Some ref =>
                     Ok (DC (unresp t) cats None
                            (map (fun x => [match x with
                                            | Some s => if String.eqb s ref then zcell 1 else zcell 0
                                            | None => zcell 0 end]) (snd nd))
                            (Some [(tc_name t ++ "[" ++ ref ++ "]")%string]) spans)
                 | _, _ =>
                     do cm <- code (Treatment None) spans cats;
                     Ok (DC (unresp t) cats (Some cm) (code_rows (cmatrix cm) (contrast_width cm) (level_codes cats (snd nd)))
                            (Some (map (fun l => (tc_name t ++ "[" ++ l ++ "]")%string) (clabels cm))) spans)
                 end) = Ok d' /\ dc_labels d' = dc_labels d /\ dc_rows d' = dc_rows d).
    { intros nd Hn d0 H0. rewrite Hn in *. destruct (existsb _ (snd nd)); [discriminate H0|]. cbv zeta in *.
      destruct (tc_response t);
        (destruct (code _ _ _) as [cm|]; cbn [bind] in *; [|discriminate H0]);
        injection H0 as <-; eexists; repeat split. }
    destruct (tc_value t) as [i xs|rows|o xs| | | | | | | |num bd enc lv|co xs|ss ts ct];
      cbn [categoric_data bind is_box] in *; try discriminate H.
    + destruct i; cbn [categoric_data bind] in *; [|discriminate H].
      destruct Href as [Href|Href]; [|discriminate Href].
      exact (Plain (true, None, _) Href d H).
    + destruct Href as [Href|Href]; [|discriminate Href].
      exact (Plain (false, o, xs) Href d H).
    + destruct (negb _); [discriminate H|].
      destruct (code _ _ _) as [cm|]; cbn [bind] in *; [|discriminate H].
      injection H as <-. eexists; repeat split.
Qed.

Lemma resp_pieces_unresp t :
  tc_kind t = KNumeric \/ (tc_kind t = KCategoric /\ (tc_reference t = None \/ is_box (tc_value t) = true)) ->
  resp_pieces t = comp_pieces' (unresp t) true /\ forall i, resp_datum t i = comp_datum' (unresp t) i.
Proof.
  intros [Hk|(Hk & Href)]; unfold resp_pieces, resp_datum; rewrite Hk.
  - split; [reflexivity|]. intros i. destruct (tc_value t); reflexivity.
  - split; [|intros i; destruct (tc_value t); reflexivity].
    destruct Href as [->|Hb]; [reflexivity|]. rewrite Hb. destruct (tc_reference t); reflexivity.
Qed.

(** THE RESPONSE COMPONENT: its labels are the labels of its pieces (none for a proportion), and
    every row holds what the pieces denote on that observation. *)
Theorem response_comp_denote t n d :
  tc_response t = true -> resp_supported t -> set_data_comp t true n = Ok d ->
  dc_labels d = resp_labels t /\
  forall i, i < List.length (dc_rows d) ->
    nth i (dc_rows d) [] = map (fun p => denote_piece' p (resp_datum t i)) (resp_pieces t).
Proof.
  intros Hr [(Hk & Hc)|[(Hk & Hb & ref & Href)|Hk]] H.
  - (* coded as a predictor *)
    destruct (set_data_comp_unresp t true n d Hk H) as (d' & Hd' & El & Er).
    destruct (resp_pieces_unresp t Hk) as [Ep Ed].
    assert (Ekind : resp_labels t = Some (map (piece_label' (tc_name t)) (resp_pieces t))).
    { unfold resp_labels. destruct Hk as [->|[-> _]]; reflexivity. }
    split.
    + rewrite Ekind, Ep, <- El. apply (coded_comp'_labels (unresp t) true n d' Hc Hd').
    + intros i Hi. rewrite <- Er in Hi |- *.
      pose proof (coded_comp'_nrows _ _ _ _ Hc Hd') as Hn. rewrite Hn in Hi.
      pose proof (coded_comp'_lrow (unresp t) true n d' i Hc Hd' Hi) as Hl.
      pose proof (coded_comp'_wf _ _ _ _ Hc Hd') as Hwf.
      assert (L : List.length (dc_labs d') = List.length (nth i (dc_rows d') [])).
      { apply dcomp_wf_row; [exact Hwf|rewrite Hn; exact Hi]. }
      unfold comp_lrow in Hl.
      destruct (combine_eq_map _ _ _ _ L Hl) as [_ E]. rewrite E, Ep. apply map_ext. intros p.
      unfold lpiece'. cbn [snd]. rewrite Ed. reflexivity.
  - (* y[level] *)
    unfold set_data_comp in H. rewrite Hk, Hr, Href in H.
    assert (G : exists nd, categoric_data (tc_value t) = Ok nd /\
                           d = DC t (match snd (fst nd) with Some cs => cs
                                     | None => sort_levels (fst (fst nd)) (present (snd nd)) end) None
                                  (map (fun x => [oind x ref]) (snd nd))
                                  (Some [(tc_name t ++ "[" ++ ref ++ "]")%string]) true).
    { destruct (tc_value t) as [i xs|rows|o xs| | | | | | | |num bd enc lv|co xs|ss ts ct];
        cbn [categoric_data bind is_box] in *; try discriminate H; try discriminate Hb.
      - destruct i; cbn [categoric_data bind fst snd] in *; [|discriminate H].
        destruct (existsb _ _); [discriminate H|]. injection H as <-. eexists. split; reflexivity.
      - cbn [fst snd] in *. destruct (existsb _ _); [discriminate H|]. injection H as <-.
        eexists. split; reflexivity. }
    destruct G as (nd & Hnd & ->). cbn [dc_labels dc_rows].
    unfold resp_labels, resp_pieces, resp_datum. rewrite Hk, Href, Hb. split; [reflexivity|].
    intros i Hi. rewrite map_length in Hi.
    set (F := fun x : option string => [oind x ref]).
    rewrite (nth_indep _ [] (F None)) by (rewrite map_length; exact Hi). rewrite map_nth.
    assert (E : comp_datum' t i = DOld (DCat (nth i (snd nd) None))).
    { unfold comp_datum', comp_datum. rewrite Hk, Hnd. destruct (tc_value t); reflexivity. }
    destruct (tc_value t); rewrite E; reflexivity.
  - (* proportion *)
    unfold set_data_comp in H. rewrite Hk, Hr in H. cbn [negb] in H.
    destruct (tc_value t) as [| | | | | | | | | | | |ss ts ct] eqn:Ev; try discriminate H. injection H as <-.
    cbn [dc_labels dc_rows]. unfold resp_labels, resp_pieces, resp_datum. rewrite Hk, Ev.
    split; [reflexivity|]. intros i Hi. rewrite zip_with_length in Hi.
    rewrite (zip_with_nth _ ss ts i None None) by lia. reflexivity.
Qed.

(** ... lifted to the response term of a design. *)
Theorem response_whole cx D m ds c :
  eval_model cx D m = Ok ds -> resp m = Some [c] ->
  exists t r d,
    set_type_comp cx D true c = Ok t /\ ds_response ds = Some r /\
    dt_comps r = [d] /\ set_data_comp t true (frame_rows D) = Ok d /\
    dt_name r = comp_name c /\
    (resp_supported t ->
     dt_labels r = resp_labels t /\
     forall i, i < List.length (dt_rows r) ->
       nth i (dt_rows r) [] = map (fun p => denote_piece' p (resp_datum t i)) (resp_pieces t)).
Proof.
  intros H Hr. destruct (eval_model_response _ _ _ _ _ H Hr) as (r & Her & Hds).
  unfold eval_response, set_type_term in Her. cbn [mapM] in Her.
  apply bind_ok in Her as (ty & Hty & Her). apply bind_ok in Hty as (cs & Hcs & Hty).
  apply bind_ok in Hcs as (t & Ht & Hcs). cbn [bind] in Hcs. injection Hcs as <-. injection Hty as <-.
  unfold set_data_term in Her. cbn [mapM spans_for] in Her.
  apply bind_ok in Her as (dcs & Hdcs & Her). apply bind_ok in Hdcs as (d & Hd & Hdcs).
  cbn [bind] in Hdcs. injection Hdcs as <-. injection Her as <-.
  exists t, (DT (term_name [c]) (kind_string (tc_kind (dc_t d))) [d] (dc_rows d) (dc_labels d)), d.
  split; [exact Ht|]. split; [exact Hds|]. split; [reflexivity|]. split; [exact Hd|]. split; [reflexivity|].
  intros Hs. cbn [dt_labels dt_rows].
  apply (response_comp_denote t (frame_rows D) d (set_type_comp_response _ _ _ _ _ Ht) Hs Hd).
Qed.

(* the three shapes of the task, spelled out on a typed variable / call *)
Corollary response_numeric_whole t n d isint xs :
  tc_response t = true -> tc_kind t = KNumeric -> tc_value t = PSeries isint xs ->
  set_data_comp t true n = Ok d ->
  dc_labels d = Some [tc_name t] /\ dc_rows d = map (fun x => [x]) xs /\
  resp_pieces t = [Old PcNumeric] /\ forall i, denote_piece' (Old PcNumeric) (resp_datum t i) = nth i xs None.
Proof.
  intros Hr Hk Hv H. unfold set_data_comp in H. rewrite Hk, Hv in H. injection H as <-. cbn [dc_labels dc_rows].
  repeat split.
  - unfold resp_pieces, comp_pieces', comp_pieces. rewrite Hk, Hv. reflexivity.
  - intros i. unfold resp_datum, comp_datum', comp_datum. rewrite Hk, Hv. reflexivity.
Qed.

Corollary response_level_whole t n d o vs ref :
  tc_response t = true -> tc_kind t = KCategoric -> tc_value t = PStrs o vs -> tc_reference t = Some ref ->
  set_data_comp t true n = Ok d ->
  dc_labels d = Some [(tc_name t ++ "[" ++ ref ++ "]")%string] /\
  dc_rows d = map (fun ox => [oind ox ref]) vs /\
  resp_pieces t = [Old (PcIndicator ref)] /\
  forall i, denote_piece' (Old (PcIndicator ref)) (resp_datum t i) = oind (nth i vs None) ref.
Proof.
  intros Hr Hk Hv Href H. unfold set_data_comp in H. rewrite Hk, Hv, Hr, Href in H.
  cbn [categoric_data bind fst snd] in H. destruct (existsb _ vs); [discriminate H|]. injection H as <-.
  cbn [dc_labels dc_rows]. repeat split.
  - unfold resp_pieces. rewrite Hk, Hv, Href. reflexivity.
  - intros i. unfold resp_datum, comp_datum', comp_datum. rewrite Hk, Hv. reflexivity.
Qed.

Corollary response_prop_whole t n d ss ts ct :
  tc_response t = true -> tc_kind t = KProportion -> tc_value t = PProp ss ts ct ->
  set_data_comp t true n = Ok d ->
  dc_labels d = None /\ dc_rows d = zip_with (fun a b => [a; b]) ss ts /\
  resp_pieces t = [PcColumn 0; PcColumn 1] /\
  forall i, map (fun p => denote_piece' p (resp_datum t i)) (resp_pieces t) = [nth i ss None; nth i ts None].
Proof.
  intros Hr Hk Hv H. unfold set_data_comp in H. rewrite Hk, Hv, Hr in H. cbn [negb] in H. injection H as <-.
  cbn [dc_labels dc_rows]. repeat split.
  - unfold resp_pieces. rewrite Hk. reflexivity.
  - intros i. unfold resp_pieces, resp_datum. rewrite Hk, Hv. reflexivity.
Qed.

(* ------------------------------------------------------------------------------------------ *)
(** * 9. Level order

    The model orders strings with [str_leb] (Frame.v), i.e. [String.compare]: lexicographic on the
    CHARACTER CODES ([nat_of_ascii]; the strings of the model are byte strings, and bytewise order
    of UTF-8 text is code-point order, which is Python's order on str).  [str_lt] is the strict
    part ([String_as_OT.lt]). *)

(* str_lt, unfolded: lexicographic on the character codes *)
Theorem str_lt_char_codes :
  (forall b t, str_lt "" (String b t)) /\
  (forall s, ~ str_lt s "") /\
  (forall a s b t, str_lt (String a s) (String b t) <->
                   nat_of_ascii a < nat_of_ascii b \/ (a = b /\ str_lt s t)).
Proof.
  split; [intros; apply String_as_OT.lts_empty|]. split; [intros s H; inversion H|].
  intros a s b t. split.
  - intros H. inversion H; subst; [right; split; [reflexivity|assumption]|left; assumption].
  - intros [H|[-> H]]; [apply String_as_OT.lts_head; exact H|apply String_as_OT.lts_tail; exact H].
Qed.

(** [str_lt] is a strict total order, and [str_leb] -- the comparison the model sorts with -- is its
    reflexive closure. *)
Theorem str_lt_strict_total :
  (forall a, ~ str_lt a a) /\
  (forall a b c, str_lt a b -> str_lt b c -> str_lt a c) /\
  (forall a b, str_lt a b \/ a = b \/ str_lt b a) /\
  (forall a b, str_leb a b = true <-> str_lt a b \/ a = b).
Proof.
  split; [exact str_lt_irrefl|]. split; [exact String_as_OT.lt_trans|]. split; [|exact str_leb_iff].
  intros a b. destruct (String_as_OT.compare a b) as [H|H|H]; auto.
Qed.

(** The levels of a categoric component, by the kind of data:
    - a str column without declared order: THE strictly increasing (hence duplicate-free) list of
      the retained values;
    - an ordered Categorical column: the declared categories, as declared (all of them, observed or
      not: the model does not restrict them);
    - a box C/T/S(x, levels=l): l as given (duplicate-free, or the component is refused);
    - a box without levels=: sorted as strings, or, for integer data, NUMERICALLY;
    - an integer column used as a factor (grouping factor): numerically. *)
Theorem comp_levels_order t spans n d :
  tc_kind t = KCategoric -> set_data_comp t spans n = Ok d ->
  match tc_value t with
  | PStrs None xs =>
      StronglySorted str_lt (dc_levels d) /\ NoDup (dc_levels d) /\
      forall x, In x (dc_levels d) <-> In (Some x) xs
  | PStrs (Some cats) _ => dc_levels d = cats
  | PBox _ _ _ (Some l) => dc_levels d = l /\ NoDup l
  | PBox false data _ None =>
      StronglySorted str_lt (dc_levels d) /\ NoDup (dc_levels d) /\
      forall x, In x (dc_levels d) <-> In (Some x) data
  | PBox true data _ None =>
      exists zs, dc_levels d = map zshow zs /\ StronglySorted Z.lt zs /\
                 forall z, In z zs <-> In z (level_ints (present data))
  | PSeries true xs =>
      exists zs, dc_levels d = map zshow zs /\ StronglySorted Z.lt zs /\
                 forall z, In z zs <-> In z (cell_ints xs)
  | _ => True
  end.
Proof.
  intros Hk H. pose proof (set_data_comp_levels t spans n d Hk H) as Hl. unfold comp_levels in Hl.
  assert (Str : forall l, dc_levels d = sort_levels false (present l) ->
                  StronglySorted str_lt (dc_levels d) /\ NoDup (dc_levels d) /\
                  forall x, In x (dc_levels d) <-> In (Some x) l).
  { intros l ->. destruct (sort_levels_str_spec (present l)) as [S E]. split; [exact S|].
    split; [apply sort_levels_NoDup|]. intros x. rewrite E. apply present_In. }
  destruct (tc_value t) as [[|] xs|rows|[cats|] xs| | | | | | | |[|] bd enc [l|]|co xs|ss ts ct] eqn:Ev;
    cbn [categoric_data fst snd] in Hl; try exact I.
  - rewrite Hl. apply sort_levels_ints.
  - exact Hl.
  - apply Str. exact Hl.
  - split; [exact Hl|]. rewrite <- Hl. eapply set_data_comp_box_levels_NoDup; eassumption.
  - rewrite Hl. apply sort_levels_num_spec.
  - split; [exact Hl|]. rewrite <- Hl. eapply set_data_comp_box_levels_NoDup; eassumption.
  - apply Str. exact Hl.
Qed.

(* every component of the common terms of a built design was produced by [set_data_comp] from a
   component typed on the frame *)
Lemma design_comps_made cx D m ds :
  eval_model cx D m = Ok ds ->
  Forall (fun d => typed_on cx D (dc_t d) /\ set_data_comp (dc_t d) (dc_spans d) (frame_rows D) = Ok d)
         (design_comps ds).
Proof.
  intros H. pose proof (eval_model_made _ _ _ _ H) as Hmade. unfold design_comps.
  apply Forall_flat_map_in with (Q := dterm_made cx D (frame_rows D)); [exact Hmade|].
  intros t (tt & s & Hty & _ & Hd). destruct tt as [|name cs].
  - simpl in Hd. injection Hd as <-. constructor.
  - pose proof (set_data_term_comps_t _ _ _ _ _ Hd) as Hds. simpl in Hty. clear Hd.
    induction Hds as [|c d cs' ds' (Hd & Ht & Hs) _ IH]; constructor.
    + rewrite Ht, Hs. split; [exact (Forall_inv Hty)|exact Hd].
    + apply IH. exact (Forall_inv_tail Hty).
Qed.

(** In a design: a factor that is a plain str column of the frame has, as levels, the sorted
    distinct retained values of that column; an ordered Categorical column keeps its order. *)
Theorem design_levels_order cx D m ds d name lvl :
  eval_model cx D m = Ok ds -> In d (design_comps ds) -> tc_src (dc_t d) = CVar (NStr name) lvl ->
  forall o xs, assoc name D = Some (ColStr o xs) ->
  match o with
  | None => StronglySorted str_lt (dc_levels d) /\ NoDup (dc_levels d) /\
            forall x, In x (dc_levels d) <-> In (Some x) xs
  | Some cats => dc_levels d = cats
  end.
Proof.
  intros H Hin Hsrc o xs Hcol. pose proof (design_comps_made _ _ _ _ H) as Hm. rewrite Forall_forall in Hm.
  destruct (Hm d Hin) as [(c & Hc) Hd]. pose proof (set_type_comp_src _ _ _ _ _ Hc) as E.
  rewrite Hsrc in E. subst c. cbn [set_type_comp] in Hc. rewrite Hcol in Hc. injection Hc as Ht.
  assert (Hk : tc_kind (dc_t d) = KCategoric) by (rewrite <- Ht; reflexivity).
  assert (Hv : tc_value (dc_t d) = PStrs o xs) by (rewrite <- Ht; reflexivity).
  pose proof (comp_levels_order _ _ _ _ Hk Hd) as G. rewrite Hv in G. exact G.
Qed.

(** Numeric levels are sorted NUMERICALLY, not as text: 2 < 10. *)
Example levels_numeric_not_textual :
  sort_levels true ["10"; "2"; "1"; "10"] = ["1"; "2"; "10"] /\
  sort_levels false ["10"; "2"; "1"; "10"] = ["1"; "10"; "2"] /\
  str_lt "10" "2" /\ (2 < 10)%Z.
Proof.
  split; [vm_compute; reflexivity|]. split; [vm_compute; reflexivity|]. split; [|lia].
  apply String_as_OT.lts_head. vm_compute. lia.
Qed.

(* ------------------------------------------------------------------------------------------ *)
(** * 10. Through [design_matrices]; decidable forms of the hypotheses *)

Corollary design_matrices_common_labels_NoDup cx e data na ds :
  design_matrices cx e data na = Ok ds ->
  Forall (fun d => Forall colon_free (dc_labs d)) (design_comps ds) ->
  no_bracket_ext (design_comps ds) ->
  Forall (fun d => NoDup (dc_labs d)) (design_comps ds) ->
  NoDup (common_labels ds).
Proof.
  intros H. destruct (design_matrices_eval _ _ _ _ _ H) as (m & d & _ & _ & He).
  eapply common_labels_NoDup. exact He.
Qed.

Corollary design_matrices_group_labels_NoDup cx e data na ds :
  design_matrices cx e data na = Ok ds ->
  Forall (fun d => Forall colon_free (dc_labs d)) (group_comps ds) ->
  Forall (fun d => Forall bar_free (dc_labs d)) (group_factor_comps ds) ->
  no_bracket_ext (group_comps ds) ->
  Forall (fun d => NoDup (dc_labs d)) (group_comps ds) ->
  NoDup (group_labels ds).
Proof.
  intros H. destruct (design_matrices_eval _ _ _ _ _ H) as (m & d & Hm & _ & He).
  eapply group_labels_NoDup; [|exact He]. eapply describe_groups_nonempty. exact Hm.
Qed.

(* two different column positions never carry the same label *)
Corollary NoDup_positions {T} (l : list T) j1 j2 x :
  NoDup l -> nth_error l j1 = Some x -> nth_error l j2 = Some x -> j1 = j2.
Proof.
  intros Hn H1 H2. rewrite NoDup_nth_error in Hn. apply Hn; [|congruence].
  apply nth_error_Some. congruence.
Qed.

Fixpoint prefixb (a b : string) : bool :=
  match a, b with
  | EmptyString, _ => true
  | String x a', String y b' => Ascii.eqb x y && prefixb a' b'
  | String _ _, EmptyString => false
  end.

Lemma prefixb_spec a : forall b, prefixb a b = true <-> exists r, b = (a ++ r)%string.
Proof.
  induction a as [|x a IH]; intros b; simpl.
  - split; [intros _; exists b; reflexivity|reflexivity].
  - destruct b as [|y b]; [split; [discriminate|intros (r & E); discriminate E]|].
    rewrite andb_true_iff, Ascii.eqb_eq, IH. split.
    + intros [-> (r & ->)]. exists r. reflexivity.
    + intros (r & E). injection E as -> ->. split; [reflexivity|exists r; reflexivity].
Qed.

Definition no_bracket_extb (l : list dcomp) : bool :=
  forallb (fun d1 => forallb (fun d2 => negb (prefixb (comp_name_of d1 ++ "[") (comp_name_of d2))) l) l.

Lemma no_bracket_extb_sound l : no_bracket_extb l = true -> no_bracket_ext l.
Proof.
  unfold no_bracket_extb, no_bracket_ext. rewrite forallb_forall. intros H d1 d2 H1 H2 (r & E).
  specialize (H d1 H1). rewrite forallb_forall in H. specialize (H d2 H2).
  apply negb_true_iff in H. assert (K : prefixb (comp_name_of d1 ++ "[") (comp_name_of d2) = true).
  { apply prefixb_spec. exists r. rewrite E, append_assoc. reflexivity. }
  congruence.
Qed.

(** ** [supported_design], from the values of the components: of all the components
       [design_matrices] can build, only three corner cases are left out *)

(* - a matrix-valued call without any column (bs(x, df=0, degree=0));
   - an ordered Categorical column whose declared categories repeat an entry;
   - C(x, Sum) / S(x) without a single level (every value missing, na_action="pass") *)
Definition value_ok (t : tcomp) : Prop :=
  match tc_value t with
  | PMatrix rows => rows = [] \/ 1 <= width rows
  | PStrs (Some l) _ => NoDup l
  | PBox _ _ (Some (Sum None)) _ => comp_levels t <> []
  | _ => True
  end.

Lemma built_comp_supported cx D n t spans d :
  rect n D -> extras_shape n cx -> typed_on cx D t -> set_data_comp t spans n = Ok d ->
  value_ok t -> coded_comp' t.
Proof.
  intros HD Hex (c & Hc) Hd Hv.
  pose proof (set_type_comp_response _ _ _ _ _ Hc) as Hr.
  assert (Strs : forall o xs, tc_kind t = KCategoric -> tc_value t = PStrs o xs -> coded_comp' t).
  { intros o xs Hk Ev. left. right. split; [exact Hk|]. split; [exact Hr|]. split.
    - intros l Hl. unfold declared_levels in Hl. rewrite Ev in Hl. subst o. unfold value_ok in Hv.
      rewrite Ev in Hv. exact Hv.
    - left. exists None. unfold comp_encoding. rewrite Ev. reflexivity. }
  destruct c as [[name|lit] lvl|lz]; cbn [set_type_comp] in Hc.
  - destruct (assoc name D) as [[isint xs|o xs]|]; [| |discriminate Hc]; injection Hc as Ht.
    + left. left. rewrite <- Ht. split; [reflexivity|]. do 2 eexists. reflexivity.
    + apply (Strs o xs); rewrite <- Ht; reflexivity.
  - discriminate Hc.
  - pose proof Hc as Hc0. apply bind_ok in Hc as ([[v st1] rec] & Hev & Hc). cbn [fst snd] in Hc.
    apply bind_ok in Hc as (k & Hk & Hc). injection Hc as Ht.
    assert (Ev : tc_value t = v) by (rewrite <- Ht; reflexivity).
    assert (Ek : tc_kind t = k) by (rewrite <- Ht; reflexivity).
    destruct v as [i xs|rows|o xs| | | | | | | |num bd enc lv|co xs|ss ts ct]; try discriminate Hk;
      injection Hk as Hk; rewrite <- Hk in Ek.
    + left. left. split; [exact Ek|]. do 2 eexists. exact Ev.
    + right. left.
      assert (Hc1 : set_type_comp cx D false (CCall lz) = Ok t) by exact Hc0.
      apply (typed_matrix_comp cx D n false (CCall lz) t rows HD Hex Hc1 Ev).
      unfold value_ok in Hv. rewrite Ev in Hv. exact Hv.
    + apply (Strs o xs Ek Ev).
    + left. right. split; [exact Ek|]. split; [exact Hr|]. split.
      * intros l Hl. unfold declared_levels in Hl. rewrite Ev in Hl. subst lv.
        pose proof (set_data_comp_box_levels_NoDup t spans n d num bd enc (Some l) Ek Ev Hd) as Hn.
        rewrite (box_component_levels t spans n d num bd enc (Some l) Ek Ev Hd) in Hn. exact Hn.
      * unfold comp_encoding. rewrite Ev. destruct enc as [[ref|omit]|].
        -- left. eexists. reflexivity.
        -- right. exists omit. split; [reflexivity|]. intros ->. unfold value_ok in Hv. rewrite Ev in Hv. exact Hv.
        -- left. eexists. reflexivity.
    + right. right. split; [exact Ek|]. split; [exact Hr|]. do 2 eexists. exact Ev.
    + exfalso. unfold set_data_comp in Hd. rewrite Ek, Hr in Hd. discriminate Hd.
Qed.

(** Every design [eval_model] builds on a rectangular frame is supported, the three corner cases
    apart. *)
Theorem design_supported cx D m ds :
  frame_wf D -> extras_shape (frame_rows D) cx -> eval_model cx D m = Ok ds ->
  Forall (fun d => value_ok (dc_t d)) (design_comps ds) -> supported_design ds.
Proof.
  intros HD Hex H Hv. pose proof (design_comps_made _ _ _ _ H) as Hm.
  unfold supported_design. apply Forall_forall. intros t Ht. apply Forall_forall. intros d Hd.
  assert (Hin : In d (design_comps ds)) by (unfold design_comps; apply in_flat_map; eauto).
  rewrite Forall_forall in Hm, Hv. destruct (Hm d Hin) as [Hty Hsd].
  exact (built_comp_supported cx D _ _ _ d HD Hex Hty Hsd (Hv d Hin)).
Qed.

Corollary design_matrices_supported cx e data na ds :
  frame_wf data -> scalar_extras cx -> design_matrices cx e data na = Ok ds ->
  Forall (fun d => value_ok (dc_t d)) (design_comps ds) -> supported_design ds.
Proof.
  intros Hwf Hex H Hv. destruct (design_matrices_eval _ _ _ _ _ H) as (m & d & Hm & Hd & He).
  destruct (prepare_data_wf _ _ _ _ Hwf Hd) as [W _].
  exact (design_supported cx _ m ds W (scalar_extras_shape _ _ Hex) He Hv).
Qed.

(* ------------------------------------------------------------------------------------------ *)
(** * 11. Examples (all by vm_compute): the hypotheses hold of concrete inputs, and the refuted
      readings *)

Module WholeExamples.
  Definition qc (z : Z) : cell := Some (qz z).
  Definition shows (rows : list (list cell)) : list (list string) := map (map cshow) rows.
  Definition ex_cx : dctx := DCtx [] (fun x => x).
  Lemma ex_cx_scalar : scalar_extras ex_cx.
  Proof. intros k v H. discriminate H. Qed.
  Definition design0 : design := Design 0 None [] [].
  Definition parsed (s : string) : expr :=
    match parse_string s with Ok e => e | Err _ => ELiteral LNone None end.
  Definition built (e : expr) (D : frame) : design :=
    match design_matrices ex_cx e D NaDrop with Ok d => d | Err _ => design0 end.

  (* a component is one of the coded ones: try the shapes in turn *)
  Ltac solve_coded :=
    first
      [ left; left; split; [reflexivity|do 2 eexists; reflexivity]
      | left; right; split; [reflexivity|]; split; [reflexivity|];
        split; [intros l Hl; discriminate Hl|];
        first [ left; eexists; reflexivity
              | right; eexists; split; [reflexivity|]; intros _ E; discriminate E ]
      | right; right; split; [reflexivity|]; split; [reflexivity|]; do 2 eexists; reflexivity ].
  Ltac solve_supported := unfold supported_design; repeat (constructor; try solve_coded).

  (** ** A. A whole design: six observations (one incomplete: dropped), intercept, numeric, factor,
         interaction, integer factor C(k) *)
  Definition exD : frame :=
    [("y", ColNum false [qc 1; qc 2; qc 3; qc 4; qc 5; qc 6]);
     ("x", ColNum true [qc 2; qc 4; None; qc 8; qc 10; qc 12]);
     ("f", ColStr None [Some "b"; Some "a"; Some "c"; Some "a"; Some "b"; Some "c"]);
     ("k", ColNum true [qc 2; qc 10; qc 2; qc 10; qc 1; qc 1]);
     ("g", ColStr None [Some "u"; Some "v"; Some "u"; Some "v"; Some "u"; Some "v"])].
  Lemma exD_wf : frame_wf exD.
  Proof. repeat constructor. Qed.
  Definition ex_e : expr := Eval vm_compute in parsed "y ~ x + f + x:f + C(k) + (x|g)".
  Definition ex_ds : design := Eval vm_compute in built ex_e exD.
  Lemma ex_parsed : parse_string "y ~ x + f + x:f + C(k) + (x|g)" = Ok ex_e.
  Proof. vm_compute. reflexivity. Qed.
  Lemma ex_built : design_matrices ex_cx ex_e exD NaDrop = Ok ex_ds.
  Proof. vm_compute. reflexivity. Qed.
  Lemma ex_supported : supported_design ex_ds.
  Proof. solve_supported. Qed.

  (* the same from the values of the components: none of the three corner cases occurs *)
  Lemma ex_supported' : supported_design ex_ds.
  Proof.
    apply (design_matrices_supported _ _ _ _ _ exD_wf ex_cx_scalar ex_built).
    vm_compute. repeat constructor.
  Qed.

  (* the theorem applies ... *)
  Example ex_whole :
    common_labels ex_ds = map print_slabel (design_columns ex_ds) /\
    List.length (common_matrix ex_ds) = 5 /\
    forall i, i < 5 -> nth i (common_matrix ex_ds) [] = map (fun l => denote_slabel l i) (design_columns ex_ds).
  Proof. exact (design_matrices_whole _ _ _ _ _ exD_wf ex_cx_scalar ex_built ex_supported). Qed.

  (* ... and this is what it says *)
  Definition show_piece (p : piece') : string :=
    match p with
    | Old PcNumeric => "value" | Old (PcIndicator l) => "=" ++ l | Old (PcContrast _ l) => "sum " ++ l
    | Old (PcMean _) => "mean" | PcColumn i => "column " ++ nshow i
    end.
  Definition show_flabel (l : flabel) : list (string * string) :=
    map (fun cp => (comp_name (fst cp), show_piece (snd cp))) l.

  Example ex_values :
    common_labels ex_ds = ["Intercept"; "x"; "f[b]"; "f[c]"; "x:f[b]"; "x:f[c]"; "C(k)[2]"; "C(k)[10]"] /\
    map (fun sl => show_flabel (source_label sl)) (design_columns ex_ds)
    = [[]; [("x", "value")]; [("f", "=b")]; [("f", "=c")]; [("x", "value"); ("f", "=b")];
       [("x", "value"); ("f", "=c")]; [("C(k)", "=2")]; [("C(k)", "=10")]] /\
    shows (common_matrix ex_ds)
    = [["1"; "2"; "1"; "0"; "2"; "0"; "1"; "0"]; ["1"; "4"; "0"; "0"; "0"; "0"; "0"; "1"];
       ["1"; "8"; "0"; "0"; "0"; "0"; "0"; "1"]; ["1"; "10"; "1"; "0"; "10"; "0"; "0"; "0"];
       ["1"; "12"; "0"; "1"; "0"; "12"; "0"; "0"]] /\
    map (fun sl => map cshow (denote 5 sl)) (design_columns ex_ds)
    = [["1"; "1"; "1"; "1"; "1"]; ["2"; "4"; "8"; "10"; "12"]; ["1"; "0"; "0"; "1"; "0"];
       ["0"; "0"; "0"; "0"; "1"]; ["2"; "0"; "0"; "10"; "0"]; ["0"; "0"; "0"; "0"; "12"];
       ["1"; "0"; "0"; "0"; "0"]; ["0"; "1"; "1"; "0"; "0"]].
  Proof. repeat split; vm_compute; reflexivity. Qed.

  (* column 4, on the frame: the label x:f[b] denotes x times [f = b] over the retained rows *)
  Example ex_column_frame :
    exists m d sl,
      describe ex_e = Ok m /\ prepare_data exD m NaDrop = Ok d /\
      nth_error (design_columns ex_ds) 4 = Some sl /\
      show_flabel (source_label sl) = [("x", "value"); ("f", "=b")] /\
      nth_error (common_labels ex_ds) 4 = Some (print_flabel (source_label sl)) /\
      print_flabel (source_label sl) = "x:f[b]" /\
      matrix_column 4 (common_matrix ex_ds) = denote_frame ex_cx (model_frame exD d) (source_label sl) /\
      map cshow (denote_frame ex_cx (model_frame exD d) (source_label sl)) = ["2"; "0"; "0"; "10"; "0"].
  Proof.
    destruct (design_matrices_column_frame _ _ _ _ _ exD_wf ex_cx_scalar ex_built ex_supported)
      as (m & d & Hm & Hd & _ & Hcol).
    destruct (nth_error (design_columns ex_ds) 4) as [sl|] eqn:E; [|discriminate E].
    destruct (Hcol 4 sl E) as [H1 H2]. exists m, d, sl.
    split; [exact Hm|]. split; [exact Hd|]. split; [reflexivity|].
    vm_compute in E. injection E as <-.
    split; [vm_compute; reflexivity|]. split; [exact H1|]. split; [vm_compute; reflexivity|].
    split; [exact H2|]. rewrite <- H2. vm_compute. reflexivity.
  Qed.

  (* the labels are pairwise distinct: the three conditions hold *)
  Example ex_common_labels_NoDup : NoDup (common_labels ex_ds).
  Proof.
    apply (design_matrices_common_labels_NoDup _ _ _ _ _ ex_built).
    - vm_compute. repeat constructor.
    - apply no_bracket_extb_sound. vm_compute. reflexivity.
    - vm_compute. repeat constructor; simpl; intuition discriminate.
  Qed.

  Example ex_group_labels_NoDup :
    group_labels ex_ds = ["1|g[u]"; "1|g[v]"; "x|g[u]"; "x|g[v]"] /\ NoDup (group_labels ex_ds).
  Proof.
    split; [vm_compute; reflexivity|].
    apply (design_matrices_group_labels_NoDup _ _ _ _ _ ex_built).
    - vm_compute. repeat constructor.
    - vm_compute. repeat constructor.
    - apply no_bracket_extb_sound. vm_compute. reflexivity.
    - vm_compute. repeat constructor; simpl; intuition discriminate.
  Qed.

  (* the levels: f sorted as text, C(k) sorted as numbers *)
  Example ex_levels :
    map dc_levels (design_comps ex_ds) = [[]; ["a"; "b"; "c"]; []; ["a"; "b"; "c"]; ["1"; "2"; "10"]].
  Proof. vm_compute. reflexivity. Qed.

  Example ex_levels_theorem d :
    In d (design_comps ex_ds) -> tc_src (dc_t d) = CVar (NStr "f") None ->
    StronglySorted str_lt (dc_levels d) /\ NoDup (dc_levels d) /\
    forall x, In x (dc_levels d) <-> In x ["b"; "a"; "a"; "b"; "c"].
  Proof.
    intros Hin Hsrc. destruct (design_matrices_eval _ _ _ _ _ ex_built) as (m & dd & Hm & Hd & He).
    assert (Ed : dd = [("y", ColNum false [qc 1; qc 2; qc 4; qc 5; qc 6]);
                       ("x", ColNum true [qc 2; qc 4; qc 8; qc 10; qc 12]);
                       ("f", ColStr None [Some "b"; Some "a"; Some "a"; Some "b"; Some "c"]);
                       ("k", ColNum true [qc 2; qc 10; qc 10; qc 1; qc 1]);
                       ("g", ColStr None [Some "u"; Some "v"; Some "v"; Some "u"; Some "v"])]).
    { vm_compute in Hm. injection Hm as <-. vm_compute in Hd. injection Hd as <-. reflexivity. }
    subst dd.
    destruct (design_levels_order _ _ _ _ d "f" None He Hin Hsrc None
                [Some "b"; Some "a"; Some "a"; Some "b"; Some "c"] eq_refl) as (S & N & E).
    split; [exact S|]. split; [exact N|]. intros x. rewrite E. simpl. intuition congruence.
  Qed.
End WholeExamples.

(** ** B. None of the three conditions of [common_labels_NoDup] can be dropped; the model lets two
       different columns of one (supported) design carry the same label string. *)
Module WholeRefuted.
  Import WholeExamples.

  Lemma not_NoDup_positions {T} (l : list T) j1 j2 x :
    nth_error l j1 = Some x -> nth_error l j2 = Some x -> j1 <> j2 -> ~ NoDup l.
  Proof. intros H1 H2 Hne Hn. apply Hne. eapply NoDup_positions; eassumption. Qed.

  (* what a clash is: a supported design built from a formula on a rectangular frame, two column
     positions with one label and different contents *)
  Definition common_clash (formula : string) (data : frame) (j1 j2 : nat) (lab : string) : Prop :=
    exists e ds,
      parse_string formula = Ok e /\ frame_wf data /\ design_matrices ex_cx e data NaDrop = Ok ds /\
      supported_design ds /\
      nth_error (common_labels ds) j1 = Some lab /\ nth_error (common_labels ds) j2 = Some lab /\
      matrix_column j1 (common_matrix ds) <> matrix_column j2 (common_matrix ds) /\
      ~ NoDup (common_labels ds).

  (* 1. a variable whose NAME looks like a level label (written between backquotes):
        the factor f coded in full has the column f[a]; so has the numeric variable `f[a]` *)
  Definition D_bq : frame :=
    [("y", ColNum false [qc 1; qc 2; qc 3]); ("f", ColStr None [Some "a"; Some "b"; Some "a"]);
     ("f[a]", ColNum true [qc 5; qc 6; qc 7])].
  Definition e_bq : expr := Eval vm_compute in parsed "y ~ 0 + f + `f[a]`".
  Definition ds_bq : design := Eval vm_compute in built e_bq D_bq.

  Theorem label_clash_backquote_refuted :
    common_clash "y ~ 0 + f + `f[a]`" D_bq 0 2 "f[a]" /\
    common_labels ds_bq = ["f[a]"; "f[b]"; "f[a]"] /\
    shows (common_matrix ds_bq) = [["1"; "0"; "5"]; ["0"; "1"; "6"]; ["1"; "0"; "7"]] /\
    (* the condition that fails, and the two that hold *)
    ~ no_bracket_ext (design_comps ds_bq) /\
    Forall (fun d => Forall colon_free (dc_labs d)) (design_comps ds_bq) /\
    Forall (fun d => NoDup (dc_labs d)) (design_comps ds_bq).
  Proof.
    split.
    - exists e_bq, ds_bq. split; [vm_compute; reflexivity|]. split; [repeat constructor|].
      split; [vm_compute; reflexivity|]. split; [solve_supported|].
      split; [reflexivity|]. split; [reflexivity|]. split; [vm_compute; intros H; discriminate H|].
      apply (not_NoDup_positions _ 0 2 "f[a]"); [reflexivity|reflexivity|discriminate].
    - split; [vm_compute; reflexivity|]. split; [vm_compute; reflexivity|]. split.
      + intros H. assert (E : design_comps ds_bq = design_comps ds_bq) by reflexivity.
        unfold design_comps at 2 in E. cbn [ds_bq ds_common flat_map dt_comps app] in E.
        match type of E with _ = [?d1; ?d2] =>
          apply (H d1 d2); [rewrite E; left; reflexivity|rewrite E; right; left; reflexivity|] end.
        exists "a]". reflexivity.
      + split; [vm_compute; repeat constructor|]. vm_compute. repeat constructor; simpl; intuition discriminate.
  Qed.

  (* 2. a LEVEL that looks like the rest of an interaction label: f has the levels "a" and
        "a]:g[v"; the main effect f has the column f[a]:g[v], and so has the interaction f:g *)
  Definition D_lv : frame :=
    [("y", ColNum false [qc 1; qc 2; qc 3; qc 4]);
     ("f", ColStr None [Some "a"; Some "a]:g[v"; Some "a"; Some "a]:g[v"]);
     ("g", ColStr None [Some "u"; Some "u"; Some "v"; Some "v"])].
  Definition e_lv : expr := Eval vm_compute in parsed "y ~ 0 + f + f:g".
  Definition ds_lv : design := Eval vm_compute in built e_lv D_lv.

  Theorem label_clash_level_refuted :
    common_clash "y ~ 0 + f + f:g" D_lv 1 2 "f[a]:g[v]" /\
    common_labels ds_lv = ["f[a]"; "f[a]:g[v]"; "f[a]:g[v]"; "f[a]:g[v]:g[v]"] /\
    shows (common_matrix ds_lv)
    = [["1"; "0"; "0"; "0"]; ["0"; "1"; "0"; "0"]; ["1"; "0"; "1"; "0"]; ["0"; "1"; "0"; "1"]] /\
    ~ Forall (fun d => Forall colon_free (dc_labs d)) (design_comps ds_lv) /\
    no_bracket_ext (design_comps ds_lv) /\
    Forall (fun d => NoDup (dc_labs d)) (design_comps ds_lv).
  Proof.
    split.
    - exists e_lv, ds_lv. split; [vm_compute; reflexivity|]. split; [repeat constructor|].
      split; [vm_compute; reflexivity|]. split; [solve_supported|].
      split; [reflexivity|]. split; [reflexivity|]. split; [vm_compute; intros H; discriminate H|].
      apply (not_NoDup_positions _ 1 2 "f[a]:g[v]"); [reflexivity|reflexivity|discriminate].
    - split; [vm_compute; reflexivity|]. split; [vm_compute; reflexivity|]. split.
      + intros H. apply Forall_inv in H. apply Forall_inv_tail in H. apply Forall_inv in H.
        vm_compute in H. discriminate H.
      + split; [apply no_bracket_extb_sound; vm_compute; reflexivity|].
        vm_compute. repeat constructor; simpl; intuition discriminate.
  Qed.

  (* 3. a level literally named "mean" under full Sum coding: the column of the grand mean and the
        column of the level are both labelled C(f, Sum)[mean] *)
  Definition D_mean : frame :=
    [("y", ColNum false [qc 1; qc 2; qc 3]); ("f", ColStr None [Some "mean"; Some "z"; Some "mean"])].
  Definition e_mean : expr := Eval vm_compute in parsed "y ~ 0 + C(f, Sum)".
  Definition ds_mean : design := Eval vm_compute in built e_mean D_mean.

  Theorem label_clash_mean_refuted :
    common_clash "y ~ 0 + C(f, Sum)" D_mean 0 1 "C(f, Sum)[mean]" /\
    common_labels ds_mean = ["C(f, Sum)[mean]"; "C(f, Sum)[mean]"] /\
    shows (common_matrix ds_mean) = [["1"; "1"]; ["1"; "-1"]; ["1"; "1"]] /\
    ~ Forall (fun d => NoDup (dc_labs d)) (design_comps ds_mean) /\
    no_bracket_ext (design_comps ds_mean) /\
    Forall (fun d => Forall colon_free (dc_labs d)) (design_comps ds_mean) /\
    (* the component violates exactly the side condition of [coded_comp_labels_NoDup] *)
    Forall (fun d => ~ mean_not_a_kept_level (dc_t d) (dc_spans d)) (design_comps ds_mean).
  Proof.
    split.
    - exists e_mean, ds_mean. split; [vm_compute; reflexivity|]. split; [repeat constructor|].
      split; [vm_compute; reflexivity|]. split; [solve_supported|].
      split; [reflexivity|]. split; [reflexivity|]. split; [vm_compute; intros H; discriminate H|].
      apply (not_NoDup_positions _ 0 1 "C(f, Sum)[mean]"); [reflexivity|reflexivity|discriminate].
    - split; [vm_compute; reflexivity|]. split; [vm_compute; reflexivity|]. split.
      + intros H. apply Forall_inv in H. vm_compute in H. inversion H as [|? ? Hin _]; subst.
        apply Hin. left; reflexivity.
      + split; [apply no_bracket_extb_sound; vm_compute; reflexivity|].
        split; [vm_compute; repeat constructor|].
        constructor; [|constructor]. intros H. apply (H None); [reflexivity|reflexivity|reflexivity|].
        vm_compute. left; reflexivity.
  Qed.

  (* 4. the group-specific labels: g has the levels "u" and "u]:h[w"; (x|g) and (x|g:h) both
        have a column x|g[u]:h[w] *)
  Definition D_grp : frame :=
    [("y", ColNum false [qc 1; qc 2; qc 3; qc 4]); ("x", ColNum true [qc 1; qc 2; qc 3; qc 4]);
     ("g", ColStr None [Some "u"; Some "u]:h[w"; Some "u"; Some "u]:h[w"]);
     ("h", ColStr None [Some "w"; Some "w"; Some "z"; Some "z"])].
  Definition e_grp : expr := Eval vm_compute in parsed "y ~ 1 + (0 + x|g) + (0 + x|g:h)".
  Definition ds_grp : design := Eval vm_compute in built e_grp D_grp.

  Theorem group_label_clash_refuted :
    parse_string "y ~ 1 + (0 + x|g) + (0 + x|g:h)" = Ok e_grp /\ frame_wf D_grp /\
    design_matrices ex_cx e_grp D_grp NaDrop = Ok ds_grp /\
    map dg_name (ds_group ds_grp) = ["x|g"; "x|g:h"] /\
    group_labels ds_grp
    = ["x|g[u]"; "x|g[u]:h[w]"; "x|g[u]:h[w]"; "x|g[u]:h[z]"; "x|g[u]:h[w]:h[w]"; "x|g[u]:h[w]:h[z]"] /\
    shows (group_matrix ds_grp)
    = [["1"; "0"; "1"; "0"; "0"; "0"]; ["0"; "2"; "0"; "0"; "2"; "0"];
       ["3"; "0"; "0"; "3"; "0"; "0"]; ["0"; "4"; "0"; "0"; "0"; "4"]] /\
    matrix_column 1 (group_matrix ds_grp) <> matrix_column 2 (group_matrix ds_grp) /\
    ~ NoDup (group_labels ds_grp) /\
    ~ Forall (fun d => Forall colon_free (dc_labs d)) (group_comps ds_grp).
  Proof.
    split; [vm_compute; reflexivity|]. split; [repeat constructor|]. split; [vm_compute; reflexivity|].
    split; [vm_compute; reflexivity|]. split; [vm_compute; reflexivity|]. split; [vm_compute; reflexivity|].
    split; [vm_compute; intros H; discriminate H|]. split.
    - apply (not_NoDup_positions _ 1 2 "x|g[u]:h[w]"); [reflexivity|reflexivity|discriminate].
    - intros H. apply Forall_inv_tail in H. apply Forall_inv in H. apply Forall_inv_tail in H.
      apply Forall_inv in H. vm_compute in H. discriminate H.
  Qed.
End WholeRefuted.

(* ------------------------------------------------------------------------------------------ *)
(** * 12. The response, through [design_matrices] *)

(** For a formula  lhs ~ rhs : the response of the design is the single component of lhs, typed on
    the frame of retained rows as a response and coded in full; when that component is supported,
    its labels are the labels of its pieces and every row holds their denotations. *)
Theorem design_matrices_response cx l op r data na ds :
  tkind op = TILDE -> design_matrices cx (EBinary l op r) data na = Ok ds ->
  exists m d c t rt dc,
    describe (EBinary l op r) = Ok m /\ resolve l = Ok (VT [c]) /\ prepare_data data m na = Ok d /\
    set_type_comp cx (model_frame data d) true c = Ok t /\
    ds_response ds = Some rt /\ dt_comps rt = [dc] /\ dt_name rt = comp_name c /\
    (resp_supported t ->
     dt_labels rt = resp_labels t /\
     forall i, i < List.length (dt_rows rt) ->
       nth i (dt_rows rt) [] = map (fun p => denote_piece' p (resp_datum t i)) (resp_pieces t)).
Proof.
  intros Hop H. destruct (design_matrices_eval _ _ _ _ _ H) as (m & d & Hm & Hd & He).
  destruct (tilde_response l op r m Hop Hm) as (c & Hl & Hr).
  destruct (response_whole _ _ _ _ c He Hr) as (t & rt & dc & Ht & Hrt & Hc & _ & Hn & Hs).
  exists m, d, c, t, rt, dc. repeat split; auto; apply Hs; assumption.
Qed.

Module ResponseExamples.
  Import WholeExamples.
  Definition D_r : frame :=
    [("y", ColStr None [Some "b"; Some "a"; Some "b"]); ("s", ColNum true [qc 1; qc 2; qc 0]);
     ("n", ColNum true [qc 3; qc 2; qc 5]); ("x", ColNum true [qc 1; qc 2; qc 3])].
  Definition resp_obs (formula : string) :=
    match (do e <- parse_string formula; design_matrices ex_cx e D_r NaDrop) with
    | Ok ds => option_map (fun r => (dt_labels r, shows (dt_rows r))) (ds_response ds)
    | Err _ => None
    end.

  (* what the model returns for the four kinds of response *)
  Example responses :
    resp_obs "s ~ x" = Some (Some ["s"], [["1"]; ["2"]; ["0"]]) /\
    resp_obs "y[b] ~ x" = Some (Some ["y[b]"], [["1"]; ["0"]; ["1"]]) /\
    resp_obs "y ~ x" = Some (Some ["y[a]"; "y[b]"], [["0"; "1"]; ["1"; "0"]; ["0"; "1"]]) /\
    resp_obs "prop(s, n) ~ x" = Some (None, [["1"; "3"]; ["2"; "2"]; ["0"; "5"]]) /\
    (* a level that is no value of y is accepted: the indicator is 0 everywhere *)
    resp_obs "y[zz] ~ x" = Some (Some ["y[zz]"], [["0"]; ["0"]; ["0"]]).
  Proof. repeat split; vm_compute; reflexivity. Qed.

  (* the components, typed as responses on the frame *)
  Definition typed (c : comp) : tcomp :=
    match set_type_comp ex_cx D_r true c with Ok t => t | Err _ => dm_tc0 end.
  Definition t_s : tcomp := Eval vm_compute in typed (CVar (NStr "s") None).
  Definition t_yb : tcomp := Eval vm_compute in typed (CVar (NStr "y") (Some "b")).
  Definition t_y : tcomp := Eval vm_compute in typed (CVar (NStr "y") None).
  Definition t_p : tcomp := Eval vm_compute in typed (CCall (LzCall "prop" [LzVar "s"; LzVar "n"] [])).

  (* all four are supported, and these are their pieces *)
  Example responses_supported :
    resp_supported t_s /\ resp_supported t_yb /\ resp_supported t_y /\ resp_supported t_p /\
    resp_pieces t_s = [Old PcNumeric] /\
    resp_pieces t_yb = [Old (PcIndicator "b")] /\
    resp_pieces t_y = [Old (PcIndicator "a"); Old (PcIndicator "b")] /\
    resp_pieces t_p = [PcColumn 0; PcColumn 1] /\
    resp_labels t_s = Some ["s"] /\ resp_labels t_yb = Some ["y[b]"] /\
    resp_labels t_y = Some ["y[a]"; "y[b]"] /\ resp_labels t_p = None.
  Proof.
    split.
    { left. split; [left; reflexivity|]. left. left. split; [reflexivity|]. do 2 eexists. reflexivity. }
    split.
    { right. left. split; [reflexivity|]. split; [reflexivity|]. eexists. reflexivity. }
    split.
    { left. split; [right; split; [reflexivity|left; reflexivity]|]. left. right.
      split; [reflexivity|]. split; [reflexivity|]. split; [intros l Hl; discriminate Hl|].
      left. eexists. reflexivity. }
    split; [right; right; reflexivity|].
    repeat split; vm_compute; reflexivity.
  Qed.

  (* the theorem applied to  y[b] ~ x *)
  Example response_level_theorem ds :
    design_matrices ex_cx (parsed "y[b] ~ x") D_r NaDrop = Ok ds ->
    exists rt, ds_response ds = Some rt /\ dt_labels rt = Some ["y[b]"] /\
      forall i, i < List.length (dt_rows rt) ->
        nth i (dt_rows rt) [] = [denote_piece' (Old (PcIndicator "b")) (resp_datum t_yb i)].
  Proof.
    intros H.
    remember (parsed "y[b] ~ x") as e eqn:Ee. vm_compute in Ee.
    destruct e as [| |l op r| | | | |]; try discriminate Ee.
    assert (Hop : tkind op = TILDE) by (injection Ee as _ -> _; reflexivity).
    destruct (design_matrices_response ex_cx l op r D_r NaDrop ds Hop H)
      as (m & d & c & t & rt & dc & Hm & Hl & Hd & Ht & Hrt & _ & _ & Hs).
    assert (Ec : c = CVar (NStr "y") (Some "b")).
    { injection Ee as -> _ _. vm_compute in Hl. injection Hl as <-. reflexivity. }
    assert (Et : t = t_yb).
    { subst c. rewrite Ee in Hm. vm_compute in Hm. injection Hm as <-. vm_compute in Hd. injection Hd as <-.
      vm_compute in Ht. injection Ht as <-. reflexivity. }
    subst t. destruct (Hs (proj1 (proj2 responses_supported))) as [L R].
    exists rt. split; [exact Hrt|]. split; [exact L|exact R].
  Qed.
End ResponseExamples.

Print Assumptions eval_model_whole.
Print Assumptions design_matrices_whole.
Print Assumptions design_matrices_column.
Print Assumptions design_matrices_column_frame.
Print Assumptions design_matrices_label_count.
Print Assumptions design_supported.
Print Assumptions design_matrices_supported.
Print Assumptions common_labels_NoDup.
Print Assumptions coded_comp_labels_NoDup.
Print Assumptions coded_labels_colon_free.
Print Assumptions group_labels_NoDup.
Print Assumptions design_matrices_common_labels_NoDup.
Print Assumptions design_matrices_group_labels_NoDup.
Print Assumptions response_comp_denote.
Print Assumptions response_whole.
Print Assumptions design_matrices_response.
Print Assumptions str_lt_char_codes.
Print Assumptions str_lt_strict_total.
Print Assumptions comp_levels_order.
Print Assumptions design_levels_order.
Print Assumptions levels_numeric_not_textual.
Print Assumptions WholeExamples.ex_whole.
Print Assumptions WholeExamples.ex_column_frame.
Print Assumptions WholeExamples.ex_common_labels_NoDup.
Print Assumptions WholeExamples.ex_group_labels_NoDup.
Print Assumptions WholeRefuted.label_clash_backquote_refuted.
Print Assumptions WholeRefuted.label_clash_level_refuted.
Print Assumptions WholeRefuted.label_clash_mean_refuted.
Print Assumptions WholeRefuted.group_label_clash_refuted.
Print Assumptions ResponseExamples.response_level_theorem.
