(* Structural theorems about the design-matrix model, continued:
   B. a Treatment-coded categorical component holds, in the column labelled l, the indicator of
      "the value of the row is l";
   C. group-specific blocks: one-hot group row (x) effect row. *)
From Verif Require Import Base Coding Contrasts Frame Eval Design DesignStructure.
From Coq Require Import Lia Permutation DecimalString Decimal DecimalZ DecimalPos.
Local Close Scope Qc_scope.
Local Close Scope Q_scope.
Local Open Scope string_scope.
Local Open Scope list_scope.
Local Open Scope nat_scope.

(* ------------------------------------------------------------------------------------------ *)
(** * Lists: index_of, drop_nth, build *)

Lemma index_of_Some x l k d : index_of x l = Some k -> k < List.length l /\ nth k l d = x.
Proof.
  revert k; induction l as [|y l IH]; intros k H; simpl in H; [discriminate|].
  destruct (String.eqb x y) eqn:E.
  - injection H as <-. apply String.eqb_eq in E. simpl. split; [lia|congruence].
  - destruct (index_of x l) as [k'|]; [|discriminate]. injection H as <-.
    destruct (IH k' eq_refl). simpl. split; [lia|assumption].
Qed.

Lemma index_of_None x l : index_of x l = None -> ~ In x l.
Proof.
  induction l as [|y l IH]; intros H; simpl in *; [tauto|].
  destruct (String.eqb x y) eqn:E; [discriminate|]. apply String.eqb_neq in E.
  destruct (index_of x l); [discriminate|]. intros [->|Hin]; [congruence|]. apply IH; auto.
Qed.

Lemma index_of_In x l : In x l -> exists k, index_of x l = Some k.
Proof.
  intros H. destruct (index_of x l) eqn:E; [eauto|]. apply index_of_None in E. contradiction.
Qed.

Lemma map_nth_seq {T} (l : list T) d : map (fun j => nth j l d) (seq 0 (List.length l)) = l.
Proof.
  induction l as [|x l IH]; simpl; [reflexivity|]. f_equal.
  rewrite <- seq_shift, map_map. exact IH.
Qed.

Lemma lift_S r j : lift (S r) (S j) = S (lift r j).
Proof. unfold lift. change (S j <? S r) with (j <? r). destruct (j <? r); reflexivity. Qed.

Lemma drop_nth_seq {T} (l : list T) d : forall r, r < List.length l ->
  drop_nth r l = map (fun j => nth (lift r j) l d) (seq 0 (List.length l - 1)).
Proof.
  induction l as [|x l IH]; intros r Hr; simpl in Hr; [lia|].
  destruct r as [|r].
  - simpl. rewrite Nat.sub_0_r. rewrite <- (map_nth_seq l d) at 1. apply map_ext. reflexivity.
  - simpl. assert (Hl : r < List.length l) by lia.
    rewrite Nat.sub_0_r. destruct (List.length l) as [|m] eqn:E; [lia|].
    simpl. f_equal. rewrite <- seq_shift, map_map.
    rewrite (IH r) by lia. simpl. rewrite Nat.sub_0_r.
    apply map_ext. intros j. rewrite lift_S. reflexivity.
Qed.

Lemma drop_nth_length {T} (l : list T) r : r < List.length l -> List.length (drop_nth r l) = List.length l - 1.
Proof.
  revert r; induction l as [|x l IH]; intros r H; simpl in *; [lia|].
  destruct r; cbn [drop_nth List.length]; [lia|]. rewrite IH by lia. lia.
Qed.

Lemma drop_nth_In {T} (l : list T) r y : In y (drop_nth r l) -> In y l.
Proof.
  revert r; induction l as [|x l IH]; intros r H; [destruct r; exact H|].
  destruct r; cbn [drop_nth] in H; [right; exact H|].
  destruct H as [H|H]; [left; exact H|]. right. eapply IH; eauto.
Qed.

Lemma lift_lt r j n : j < n - 1 -> lift r j < n.
Proof. unfold lift. destruct (j <? r); lia. Qed.

Lemma build_length rows cols f : List.length (build rows cols f) = rows.
Proof. unfold build. rewrite map_length, seq_length. reflexivity. Qed.

Lemma build_nth rows cols f k d :
  k < rows -> nth k (build rows cols f) d = map (fun j => f k j) (seq 0 cols).
Proof.
  intros H. unfold build. set (F := fun i => map (fun j => f i j) (seq 0 cols)).
  rewrite (nth_indep _ d (F 0)) by (rewrite map_length, seq_length; assumption).
  rewrite map_nth, seq_nth by assumption. reflexivity.
Qed.

Lemma build_width rows cols f labels :
  0 < rows -> contrast_width (Contrast (build rows cols f) labels) = cols.
Proof.
  intros H. destruct rows; [lia|]. unfold contrast_width, build. simpl.
  rewrite map_length, seq_length. reflexivity.
Qed.

Lemma map_const_repeat {S T} (f : S -> T) a l : (forall x, In x l -> f x = a) -> map f l = repeat a (List.length l).
Proof.
  induction l as [|x l IH]; intros H; simpl; [reflexivity|].
  rewrite H by (left; reflexivity). f_equal. apply IH. intros; apply H; right; assumption.
Qed.

Lemma combine_map_r {S T} (f : S -> T) l : combine l (map f l) = map (fun a => (a, f a)) l.
Proof. induction l; simpl; [reflexivity|f_equal; assumption]. Qed.

(* ------------------------------------------------------------------------------------------ *)
(** * B. Treatment coding holds indicators *)

(* [x = l] as a cell *)
Definition ind (x l : string) : cell := if String.eqb x l then zcell 1 else zcell 0.
(* the same for a possibly missing value: a missing value gives 0 *)
Definition oind (ox : option string) (l : string) : cell :=
  match ox with Some x => ind x l | None => zcell 0 end.

(* one row of code_rows *)
Definition code_row (m : list (list Z)) (w : nat) (c : option nat) : list cell :=
  match c with
  | Some k => map zcell (nth k m (repeat 0%Z w))
  | None => repeat (zcell 0) w
  end.

Lemma code_rows_map m w codes : code_rows m w codes = map (code_row m w) codes.
Proof. reflexivity. Qed.

(* the common shape of the two Treatment codings: column j is the indicator of level pos j *)
Lemma indicator_coding_row (lv kept : list string) (pos : nat -> nat) (c : nat) (f : nat -> nat -> Z) x :
  NoDup lv ->
  kept = map (fun j => nth (pos j) lv "") (seq 0 c) ->
  (forall j, j < c -> pos j < List.length lv) ->
  (forall i j, f i j = if i =? pos j then 1%Z else 0%Z) ->
  0 < List.length lv ->
  code_row (build (List.length lv) c f) (contrast_width (Contrast (build (List.length lv) c f) kept))
           (index_of x lv)
  = map (ind x) kept.
Proof.
  intros Hnd -> Hpos Hf Hn. rewrite build_width by assumption.
  destruct (index_of x lv) as [k|] eqn:E; unfold code_row.
  - destruct (index_of_Some _ _ _ "" E) as [Hk Hx].
    rewrite build_nth by assumption. rewrite !map_map. apply map_ext_in. intros j Hj.
    apply in_seq in Hj. rewrite Hf. unfold ind.
    destruct (Nat.eqb_spec k (pos j)) as [->|Hne].
    + rewrite Hx, String.eqb_refl. reflexivity.
    + destruct (String.eqb_spec x (nth (pos j) lv "")) as [Heq|]; [|reflexivity].
      exfalso. apply Hne. rewrite <- Hx in Heq.
      apply (proj1 (NoDup_nth lv "") Hnd); auto. apply Hpos; lia.
  - apply index_of_None in E. rewrite map_map. symmetry.
    rewrite <- (seq_length c 0) at 2. apply map_const_repeat.
    intros j Hj. apply in_seq in Hj. unfold ind.
    destruct (String.eqb_spec x (nth (pos j) lv "")) as [Heq|]; [|reflexivity].
    exfalso. apply E. rewrite Heq. apply nth_In. apply Hpos; lia.
Qed.

Lemma ref_index_treatment_lt ref lv r :
  ref_index (Treatment ref) lv = Ok r -> 0 < List.length lv -> r < List.length lv.
Proof.
  destruct ref as [s|]; simpl; intros H Hn.
  - destruct (index_of s lv) as [k|] eqn:E; [|discriminate]. injection H as <-.
    apply (index_of_Some _ _ _ "" E).
  - injection H as <-. assumption.
Qed.

(** Treatment coding, on [code]: whatever the value x of a row (a level, the reference level, or a
    value that is not a level at all), the coded row holds in the column labelled l the
    indicator [x = l].  With [spans = false] the columns are the levels without the reference,
    with [spans = true] they are all the levels. *)
Theorem treatment_code_row ref spans lv cm x :
  NoDup lv -> code (Treatment ref) spans lv = Ok cm ->
  code_row (cmatrix cm) (contrast_width cm) (index_of x lv) = map (ind x) (clabels cm) /\
  (spans = true -> clabels cm = lv) /\
  (spans = false -> exists r, ref_index (Treatment ref) lv = Ok r /\ clabels cm = drop_nth r lv).
Proof.
  intros Hnd H. destruct lv as [|l0 lv'] eqn:Elv.
  - (* no levels at all *)
    destruct spans; simpl in H.
    + injection H as <-. simpl. split; [reflexivity|]. split; [reflexivity|discriminate].
    + unfold code_without_intercept in H. apply bind_ok in H as (r & Hr & H). injection H as <-.
      simpl. split; [destruct r; reflexivity|]. split; [discriminate|].
      intros _. exists r. split; [assumption|]. destruct r; reflexivity.
  - rewrite <- Elv in *. assert (Hn : 0 < List.length lv) by (rewrite Elv; simpl; lia).
    destruct spans; simpl in H.
    + injection H as <-. cbn [cmatrix clabels]. split; [|split; [reflexivity|discriminate]].
      apply (indicator_coding_row lv lv (fun j => j)); auto.
      symmetry; apply map_nth_seq.
    + unfold code_without_intercept in H. apply bind_ok in H as (r & Hr & H). injection H as <-.
      cbn [cmatrix clabels]. pose proof (ref_index_treatment_lt _ _ _ Hr Hn) as Hlt.
      split; [|split; [discriminate|intros _; exists r; auto]].
      apply (indicator_coding_row lv (drop_nth r lv) (lift r)); auto.
      * apply drop_nth_seq; assumption.
      * intros j Hj. apply lift_lt; assumption.
Qed.

(** The labelled form: labels paired with the coded row. *)
Corollary treatment_code_lrow ref spans lv cm x :
  NoDup lv -> code (Treatment ref) spans lv = Ok cm ->
  combine (clabels cm) (code_row (cmatrix cm) (contrast_width cm) (index_of x lv))
  = map (fun l => (l, ind x l)) (clabels cm).
Proof.
  intros Hnd H. destruct (treatment_code_row ref spans lv cm x Hnd H) as [-> _].
  apply combine_map_r.
Qed.

(* the statement of the task, for a level x at position k: reduced coding ... *)
Corollary treatment_reduced_row lv r x k :
  NoDup lv -> r < List.length lv -> index_of x lv = Some k ->
  combine (drop_nth r lv)
          (map zcell (nth k (build (List.length lv) (List.length lv - 1) (treat_entry r))
                            (repeat 0%Z (List.length lv - 1))))
  = map (fun l => (l, ind x l)) (drop_nth r lv).
Proof.
  intros Hnd Hr E.
  assert (Hn : 0 < List.length lv) by lia.
  pose proof (indicator_coding_row lv (drop_nth r lv) (lift r) (List.length lv - 1) (treat_entry r) x Hnd
               (drop_nth_seq lv "" r Hr) (fun j Hj => lift_lt r j _ Hj) (fun i j => eq_refl) Hn) as H.
  rewrite build_width, E in H by assumption. unfold code_row in H. rewrite H. apply combine_map_r.
Qed.

(* ... and full coding: one-hot at the level *)
Corollary treatment_full_row lv x k :
  NoDup lv -> index_of x lv = Some k ->
  combine lv (map zcell (nth k (build (List.length lv) (List.length lv) eye_entry)
                               (repeat 0%Z (List.length lv))))
  = map (fun l => (l, ind x l)) lv.
Proof.
  intros Hnd E.
  assert (Hn : 0 < List.length lv) by (destruct (index_of_Some _ _ _ "" E); lia).
  pose proof (indicator_coding_row lv lv (fun j => j) (List.length lv) eye_entry x Hnd
               (eq_sym (map_nth_seq lv "")) (fun j Hj => Hj) (fun i j => eq_refl) Hn) as H.
  rewrite build_width, E in H by assumption. unfold code_row in H. rewrite H. apply combine_map_r.
Qed.

(** ** On [set_data_comp] *)

(* the encoding a categoric component is coded with *)
Definition comp_encoding (t : tcomp) : encoding :=
  match tc_value t with PBox _ _ (Some e) _ => e | _ => Treatment None end.

Definition comp_label (t : tcomp) (l : string) : string := (tc_name t ++ "[" ++ l ++ "]")%string.

(* what set_data_comp does for a categoric component that gets a contrast matrix *)
Lemma set_data_comp_categoric t spans nrows dc cm :
  tc_kind t = KCategoric -> set_data_comp t spans nrows = Ok dc -> dc_contrast dc = Some cm ->
  exists num o d,
    categoric_data (tc_value t) = Ok (num, o, d) /\
    code (comp_encoding t) spans (dc_levels dc) = Ok cm /\
    dc_rows dc = code_rows (cmatrix cm) (contrast_width cm) (level_codes (dc_levels dc) d) /\
    dc_labels dc = Some (map (comp_label t) (clabels cm)) /\
    dc_t dc = t.
Proof.
  unfold set_data_comp, comp_encoding. intros Hk H Hc. rewrite Hk in H.
  destruct (tc_value t) as [isint xs|rows|o xs|? ?|?|?| |?|?|?|num d enc lv|? ?|? ? ?] eqn:Ev;
    try discriminate H.
  - (* PSeries *)
    destruct isint; [|discriminate H]. cbn [categoric_data bind fst snd] in H.
    match type of H with (if ?c then _ else _) = _ => destruct c; [discriminate H|] end.
    destruct (tc_response t), (tc_reference t);
      try (injection H as <-; discriminate Hc);
      (apply bind_ok in H as (cm' & Hcode & H); injection H as <-; cbn in Hc; injection Hc as ->;
       do 3 eexists; cbn [categoric_data dc_levels dc_rows dc_labels dc_t];
       repeat split; try reflexivity; assumption).
  - (* PStrs *)
    cbn [categoric_data bind fst snd] in H.
    match type of H with (if ?c then _ else _) = _ => destruct c; [discriminate H|] end.
    destruct (tc_response t), (tc_reference t);
      try (injection H as <-; discriminate Hc);
      (apply bind_ok in H as (cm' & Hcode & H); injection H as <-; cbn in Hc; injection Hc as ->;
       do 3 eexists; cbn [categoric_data dc_levels dc_rows dc_labels dc_t];
       repeat split; try reflexivity; assumption).
  - (* PBox *)
    match type of H with (if ?c then _ else _) = _ => destruct c; [discriminate H|] end.
    apply bind_ok in H as (cm' & Hcode & H). injection H as <-. cbn in Hc. injection Hc as ->.
    do 3 eexists. cbn [categoric_data dc_levels dc_rows dc_labels dc_t].
    repeat split; try reflexivity. destruct enc; assumption.
Qed.

(** A Treatment-coded categoric component, on [set_data_comp]: the matrix of the component is, row
    by row, the indicators of the kept levels, and the labels are [name[l]] for the kept levels. *)
Theorem set_data_comp_treatment t spans nrows dc cm ref :
  tc_kind t = KCategoric -> set_data_comp t spans nrows = Ok dc -> dc_contrast dc = Some cm ->
  comp_encoding t = Treatment ref -> NoDup (dc_levels dc) ->
  exists num o d,
    categoric_data (tc_value t) = Ok (num, o, d) /\
    dc_labels dc = Some (map (comp_label t) (clabels cm)) /\
    dc_rows dc = map (fun ox => map (oind ox) (clabels cm)) d /\
    (spans = true -> clabels cm = dc_levels dc) /\
    (spans = false -> exists r, ref_index (Treatment ref) (dc_levels dc) = Ok r /\
                                clabels cm = drop_nth r (dc_levels dc)).
Proof.
  intros Hk H Hc He Hnd.
  destruct (set_data_comp_categoric t spans nrows dc cm Hk H Hc) as (num & o & d & Hd & Hcode & Hrows & Hlabs & _).
  rewrite He in Hcode. exists num, o, d. split; [assumption|]. split; [assumption|].
  split.
  - rewrite Hrows, code_rows_map. unfold level_codes. rewrite map_map. apply map_ext. intros [x|].
    + apply (treatment_code_row ref spans (dc_levels dc) cm x Hnd Hcode).
    + (* a missing value: the zero row *)
      cbn [code_row oind].
      destruct (treatment_code_row ref spans (dc_levels dc) cm "" Hnd Hcode) as [Hrow _].
      assert (L : contrast_width cm = List.length (clabels cm)).
      { apply (f_equal (@List.length _)) in Hrow. rewrite map_length in Hrow. rewrite <- Hrow.
        destruct (index_of "" (dc_levels dc)) as [k|] eqn:E; cbn [code_row].
        - (* width of the k-th row of the matrix *)
          clear Hrow. destruct (dc_levels dc) as [|l0 lv'] eqn:Elv; [discriminate E|].
          rewrite <- Elv in *.
          assert (Hn : 0 < List.length (dc_levels dc)) by (rewrite Elv; simpl; lia).
          destruct (index_of_Some _ _ _ "" E) as [Hlt _].
          destruct spans; simpl in Hcode.
          + injection Hcode as <-. rewrite build_width by assumption. cbn [cmatrix].
            rewrite build_nth, !map_length, seq_length by assumption. reflexivity.
          + unfold code_without_intercept in Hcode. apply bind_ok in Hcode as (r & _ & Hcode).
            injection Hcode as <-. rewrite build_width by assumption. cbn [cmatrix].
            rewrite build_nth, !map_length, seq_length by assumption. reflexivity.
        - rewrite repeat_length. reflexivity. }
      rewrite L. symmetry. apply map_const_repeat. reflexivity.
  - destruct (treatment_code_row ref spans (dc_levels dc) cm "" Hnd Hcode) as (_ & H1 & H2). auto.
Qed.

(** Every column holds what its label says: row i, whose value is x, pairs the label [name[l]] with
    the indicator [x = l], for the kept levels l. *)
Corollary set_data_comp_treatment_lrow t spans nrows dc cm ref :
  tc_kind t = KCategoric -> set_data_comp t spans nrows = Ok dc -> dc_contrast dc = Some cm ->
  comp_encoding t = Treatment ref -> NoDup (dc_levels dc) ->
  exists num o d,
    categoric_data (tc_value t) = Ok (num, o, d) /\
    forall i ox, nth_error d i = Some ox ->
      comp_lrow i dc = map (fun l => (comp_label t l, oind ox l)) (clabels cm).
Proof.
  intros Hk H Hc He Hnd.
  destruct (set_data_comp_treatment t spans nrows dc cm ref Hk H Hc He Hnd)
    as (num & o & d & Hd & Hlabs & Hrows & _).
  exists num, o, d. split; [assumption|]. intros i ox Hi.
  unfold comp_lrow, dc_labs. rewrite Hlabs, Hrows.
  assert (Hlt : i < List.length d) by (apply nth_error_Some; congruence).
  set (F := fun ox => map (oind ox) (clabels cm)).
  rewrite (nth_indep _ [] (F None)) by (rewrite map_length; assumption).
  rewrite map_nth. unfold F. rewrite (nth_error_nth _ _ _ Hi).
  rewrite combine_map. rewrite <- (map_id (clabels cm)) at 2. rewrite combine_map_r, map_map. reflexivity.
Qed.

Corollary set_data_comp_treatment_wf t spans nrows dc cm ref :
  tc_kind t = KCategoric -> set_data_comp t spans nrows = Ok dc -> dc_contrast dc = Some cm ->
  comp_encoding t = Treatment ref -> NoDup (dc_levels dc) -> dcomp_wf dc.
Proof.
  intros Hk H Hc He Hnd.
  destruct (set_data_comp_treatment t spans nrows dc cm ref Hk H Hc He Hnd)
    as (num & o & d & Hd & Hlabs & Hrows & _).
  eexists. split; [eassumption|]. rewrite Hrows. apply Forall_forall. intros r Hr.
  apply in_map_iff in Hr as (ox & <- & _). rewrite !map_length. reflexivity.
Qed.

Lemma set_data_comp_numeric_wf t spans nrows dc isint xs :
  tc_kind t = KNumeric -> tc_value t = PSeries isint xs -> set_data_comp t spans nrows = Ok dc ->
  dcomp_wf dc /\ dc_rows dc = map (fun x => [x]) xs /\ dc_labels dc = Some [tc_name t].
Proof.
  unfold set_data_comp. intros -> -> H. injection H as <-. cbn. repeat split; auto.
  eexists; split; [reflexivity|]. apply Forall_forall. intros r Hr.
  apply in_map_iff in Hr as (x & <- & _). reflexivity.
Qed.

(* ------------------------------------------------------------------------------------------ *)
(** ** The levels [set_data_comp] works with are duplicate-free (unless declared otherwise) *)

Lemma nodup_by_In {T} (eqb : T -> T -> bool) l y : In y (nodup_by eqb l) -> In y l.
Proof.
  induction l as [|x l IH]; simpl; [tauto|].
  destruct (existsb (eqb x) l); simpl; intuition.
Qed.

Lemma nodup_by_NoDup {T} (eqb : T -> T -> bool) l :
  (forall a b, eqb a b = true <-> a = b) -> NoDup (nodup_by eqb l).
Proof.
  intros Heq. induction l as [|x l IH]; simpl; [constructor|].
  destruct (existsb (eqb x) l) eqn:E; [assumption|].
  constructor; [|assumption]. intros Hin. apply nodup_by_In in Hin.
  assert (existsb (eqb x) l = true); [|congruence].
  apply existsb_exists. exists x. split; [assumption|]. apply Heq. reflexivity.
Qed.

Lemma insert_sorted_perm {T} (leb : T -> T -> bool) x l : Permutation (insert_sorted T leb x l) (x :: l).
Proof.
  induction l as [|y l IH]; simpl; [apply Permutation_refl|].
  destruct (leb x y); [apply Permutation_refl|].
  eapply Permutation_trans; [apply perm_skip; exact IH|apply perm_swap].
Qed.

Lemma isort_perm {T} (leb : T -> T -> bool) l : Permutation (isort leb l) l.
Proof.
  induction l as [|x l IH]; simpl; [constructor|].
  eapply Permutation_trans; [apply insert_sorted_perm|]. apply perm_skip. exact IH.
Qed.

Lemma zread_zshow z : zread (zshow z) = Some z.
Proof.
  unfold zread, zshow. rewrite NilZero.isi.
  - rewrite DecimalZ.of_to. reflexivity.
  - destruct z; simpl; try discriminate. intros E. injection E as E.
    exact (Unsigned.to_uint_nonnil _ E).
  - destruct z; simpl; try discriminate. intros E. injection E as E.
    exact (Unsigned.to_uint_nonnil _ E).
Qed.

Lemma zshow_inj a b : zshow a = zshow b -> a = b.
Proof. intros H. apply (f_equal zread) in H. rewrite !zread_zshow in H. congruence. Qed.

Lemma NoDup_map_inj {S T} (f : S -> T) l : (forall a b, f a = f b -> a = b) -> NoDup l -> NoDup (map f l).
Proof.
  intros Hf H. induction H as [|x l Hx H IH]; simpl; constructor; [|assumption].
  intros Hin. apply in_map_iff in Hin as (y & Hy & Hin). apply Hf in Hy. subst. contradiction.
Qed.

Theorem sort_levels_NoDup num l : NoDup (sort_levels num l).
Proof.
  unfold sort_levels, sorted_unique_str. destruct num.
  - apply NoDup_map_inj; [exact zshow_inj|].
    eapply Permutation_NoDup; [apply Permutation_sym, isort_perm|].
    apply nodup_by_NoDup. exact Z.eqb_eq.
  - eapply Permutation_NoDup; [apply Permutation_sym, isort_perm|].
    apply nodup_by_NoDup. exact String.eqb_eq.
Qed.

(* levels the data declare themselves: an ordered pandas Categorical, or C(x, levels=...) *)
Definition declared_levels (t : tcomp) : option (list string) :=
  match tc_value t with PStrs o _ => o | PBox _ _ _ lv => lv | _ => None end.

Theorem set_data_comp_levels_NoDup t spans nrows dc :
  tc_kind t = KCategoric -> set_data_comp t spans nrows = Ok dc ->
  (forall l, declared_levels t = Some l -> NoDup l) ->
  NoDup (dc_levels dc).
Proof.
  unfold set_data_comp, declared_levels. intros Hk H Hdecl. rewrite Hk in H.
  destruct (tc_value t) as [isint xs|rows|o xs|? ?|?|?| |?|?|?|num d enc lv|? ?|? ? ?] eqn:Ev;
    try discriminate H.
  - destruct isint; [|discriminate H]. cbn [categoric_data bind fst snd] in H.
    match type of H with (if ?c then _ else _) = _ => destruct c; [discriminate H|] end.
    destruct (tc_response t), (tc_reference t);
      first [ injection H as <-; cbn [dc_levels]; exact (sort_levels_NoDup true _)
            | apply bind_ok in H as (cm' & Hcode & H); injection H as <-; cbn [dc_levels];
              exact (sort_levels_NoDup true _) ].
  - cbn [categoric_data bind fst snd] in H.
    match type of H with (if ?c then _ else _) = _ => destruct c; [discriminate H|] end.
    assert (NoDup (match o with Some cs => cs | None => sort_levels false (present xs) end)).
    { destruct o; [apply Hdecl; reflexivity|apply sort_levels_NoDup]. }
    destruct (tc_response t), (tc_reference t);
      first [ injection H as <-; cbn [dc_levels]; assumption
            | apply bind_ok in H as (cm' & Hcode & H); injection H as <-; cbn [dc_levels]; assumption ].
  - match type of H with (if ?c then _ else _) = _ => destruct c; [discriminate H|] end. apply bind_ok in H as (cm' & Hcode & H). injection H as <-. cbn [dc_levels].
    destruct lv; [apply Hdecl; reflexivity|apply sort_levels_NoDup].
Qed.

(* ------------------------------------------------------------------------------------------ *)
(** * C. Group-specific blocks *)

(* row k of the identity: the full Treatment coding of level number k among n *)
Definition onehot (n k : nat) : list cell := map (fun j => zcell (eye_entry k j)) (seq 0 n).

(* what multiplying by an exact zero leaves of a cell: NaN stays NaN *)
Definition nanzero (c : cell) : cell := match c with Some _ => zcell 0 | None => None end.

Lemma cmul_one c : cmul (zcell 1) c = c.
Proof.
  destruct c as [y|]; [|reflexivity]. unfold zcell, cmul. f_equal.
  change (qz 1) with 1%Qc. apply Qcmult_1_l.
Qed.

Lemma cmul_zero c : cmul (zcell 0) c = nanzero c.
Proof.
  destruct c as [y|]; [|reflexivity]. unfold nanzero, cmul, zcell. f_equal.
  change (qz 0) with 0%Qc. apply Qcmult_0_l.
Qed.

(** With [cmul] as it is: the block of the row's own group is the effect row, every other block is
    the effect row times zero, i.e. zero except that NaN stays NaN. *)
Theorem onehot_kron_nan n k e :
  row_kron (onehot n k) e
  = List.concat (map (fun j => if j =? k then e else map nanzero e) (seq 0 n)).
Proof.
  unfold row_kron, onehot. rewrite flat_map_concat_map, map_map. f_equal.
  apply map_ext. intros j. unfold eye_entry. rewrite (Nat.eqb_sym k j).
  destruct (j =? k).
  - rewrite <- (map_id e) at 2. apply map_ext. apply cmul_one.
  - apply map_ext. apply cmul_zero.
Qed.

Lemma concat_map_const {T} (g : nat -> list T) a w m : forall s,
  (forall j, s <= j < s + m -> g j = repeat a w) ->
  List.concat (map g (seq s m)) = repeat a (m * w).
Proof.
  induction m as [|m IH]; intros s H; simpl; [reflexivity|].
  rewrite repeat_app. f_equal; [apply H; lia|]. apply IH. intros j Hj. apply H. lia.
Qed.

Lemma map_nanzero_clean e :
  Forall (fun c => c <> None) e -> map nanzero e = repeat (zcell 0) (List.length e).
Proof.
  intros H. apply map_const_repeat. intros c Hc. rewrite Forall_forall in H.
  destruct c; [reflexivity|]. exfalso. apply (H None Hc). reflexivity.
Qed.

(** For an effect row without NaN: zeros outside the slots of the row's own group, the effect row
    there. *)
Theorem onehot_kron n k e :
  k < n -> Forall (fun c => c <> None) e ->
  row_kron (onehot n k) e
  = repeat (zcell 0) (k * List.length e) ++ e ++ repeat (zcell 0) ((n - k - 1) * List.length e).
Proof.
  intros Hk He. rewrite onehot_kron_nan.
  replace n with (k + S (n - k - 1)) at 1 by lia.
  rewrite seq_app, map_app, concat_app. cbn [seq map List.concat]. rewrite Nat.eqb_refl.
  f_equal; [|f_equal]; apply concat_map_const; intros j Hj;
    (destruct (Nat.eqb_spec j k); [lia|]); apply map_nanzero_clean; assumption.
Qed.

(* the indicator row of a level is the one-hot row at its index *)
Lemma ind_row_onehot lv x k :
  NoDup lv -> index_of x lv = Some k -> map (ind x) lv = onehot (List.length lv) k.
Proof.
  intros Hnd E. destruct (index_of_Some _ _ _ "" E) as [Hk Hx].
  unfold onehot. rewrite <- (map_nth_seq lv "") at 1. rewrite map_map.
  apply map_ext_in. intros j Hj. apply in_seq in Hj. unfold ind, eye_entry.
  destruct (Nat.eqb_spec k j) as [->|Hne].
  - rewrite Hx, String.eqb_refl. reflexivity.
  - destruct (String.eqb_spec x (nth j lv "")) as [Heq|]; [|reflexivity].
    exfalso. apply Hne. rewrite <- Hx in Heq. apply (proj1 (NoDup_nth lv "") Hnd); auto. lia.
Qed.

(* a value that is not a level gives the zero row *)
Lemma ind_row_unseen lv x : ~ In x lv -> map (ind x) lv = repeat (zcell 0) (List.length lv).
Proof.
  intros H. apply map_const_repeat. intros l Hl. unfold ind.
  destruct (String.eqb_spec x l); [subst; contradiction|reflexivity].
Qed.

Lemma map_repeat_seq {S T} (f : S -> T) a m : forall s,
  map f (repeat a m) = map (fun _ => f a) (seq s m).
Proof. induction m as [|m IH]; intros s; simpl; [reflexivity|]. f_equal. apply IH. Qed.

(** ** On [set_data_gterm] *)

Lemma set_data_gterm_inv nrows g spans dg :
  set_data_gterm nrows g spans = Ok dg ->
  set_data_term nrows (tg_expr g) (SpBool spans) = Ok (dg_expr dg) /\
  mapM (fun c => set_data_comp c true nrows) (tg_factor g) = Ok (dg_factor dg) /\
  (exists glabs,
     mapM (fun d => match dc_contrast d with Some c => Ok (clabels c) | None => Err EAttr end) (dg_factor dg)
     = Ok glabs /\ dg_groups dg = label_product glabs ":") /\
  dg_rows dg = rows_kron (factor_rows (dg_factor dg)) (dt_rows (dg_expr dg)) /\
  exists levels,
    (if String.eqb (dt_kind (dg_expr dg)) "intercept" then Ok ["1"%string]
     else match dt_labels (dg_expr dg) with Some l => Ok l | None => Err EType end) = Ok levels /\
    dg_labels dg = flat_map (fun gr => map (fun lv => (lv ++ "|" ++ gr)%string) levels)
                            (label_product (map dc_labs (dg_factor dg)) ":").
Proof.
  unfold set_data_gterm. intros H.
  apply bind_ok in H as (e & He & H). apply bind_ok in H as (fs & Hfs & H).
  apply bind_ok in H as (glabs & Hg & H). apply bind_ok in H as (flabs & Hf & H).
  apply bind_ok in H as (levels & Hl & H). injection H as <-.
  cbn [dg_expr dg_factor dg_groups dg_rows dg_labels].
  apply mapM_labels in Hf. subst flabs.
  split; [assumption|]. split; [assumption|]. split; [eauto|]. split; [reflexivity|].
  exists levels. split; [assumption|reflexivity].
Qed.

(* the labelled product of a group-specific term: the group varies slowest, the label is
   effect|group *)
Definition gprod (g e : lrow) : lrow :=
  flat_map (fun p => map (fun q => ((fst q ++ "|" ++ fst p)%string, cmul (snd p) (snd q))) e) g.

(** The labelled row of a group-specific term is the labelled product of the labelled row of the
    grouping factor with the labelled row of the effect, for every row whose widths match the
    label counts. *)
Theorem set_data_gterm_lrow nrows g spans dg :
  set_data_gterm nrows g spans = Ok dg ->
  exists levels,
    (if String.eqb (dt_kind (dg_expr dg)) "intercept" then Ok ["1"%string]
     else match dt_labels (dg_expr dg) with Some l => Ok l | None => Err EType end) = Ok levels /\
    forall i,
      let flabs := label_product (map dc_labs (dg_factor dg)) ":" in
      let frow := nth i (factor_rows (dg_factor dg)) [] in
      let erow := nth i (dt_rows (dg_expr dg)) [] in
      List.length flabs = List.length frow -> List.length levels = List.length erow ->
      combine (dg_labels dg) (nth i (dg_rows dg) []) = gprod (combine flabs frow) (combine levels erow) /\
      List.length (dg_labels dg) = List.length (nth i (dg_rows dg) []).
Proof.
  intros H. destruct (set_data_gterm_inv _ _ _ _ H) as (_ & _ & _ & Hrows & levels & Hlev & Hlabs).
  exists levels. split; [assumption|]. intros i flabs frow erow Hf He.
  rewrite Hlabs, Hrows, rows_kron_nth. fold flabs frow erow. split.
  - unfold row_kron, gprod.
    apply (combine_flat_map (fun gr lv => (lv ++ "|" ++ gr)%string) cmul); assumption.
  - rewrite row_kron_length, <- Hf, <- He. apply length_flat_map_const. intros; apply map_length.
Qed.

(** A single Treatment-coded grouping factor: row i, whose group is level number k, is zero outside
    the k-th block and equals the effect row there (with NaN propagating as [nanzero] says);
    the groups are the levels of the factor. *)
Theorem set_data_gterm_block nrows g spans dg c fd ref :
  set_data_gterm nrows g spans = Ok dg ->
  tg_factor g = [c] -> dg_factor dg = [fd] ->
  tc_kind c = KCategoric -> comp_encoding c = Treatment ref -> NoDup (dc_levels fd) ->
  exists num o d,
    categoric_data (tc_value c) = Ok (num, o, d) /\
    dg_groups dg = dc_levels fd /\
    forall i x,
      nth_error d i = Some (Some x) ->
      let erow := nth i (dt_rows (dg_expr dg)) [] in
      let n := List.length (dc_levels fd) in
      (forall k, index_of x (dc_levels fd) = Some k ->
         nth i (dg_rows dg) []
         = List.concat (map (fun j => if j =? k then erow else map nanzero erow) (seq 0 n))) /\
      (forall k, index_of x (dc_levels fd) = Some k -> Forall (fun c => c <> None) erow ->
         nth i (dg_rows dg) []
         = repeat (zcell 0) (k * List.length erow) ++ erow
           ++ repeat (zcell 0) ((n - k - 1) * List.length erow)) /\
      (index_of x (dc_levels fd) = None ->
         nth i (dg_rows dg) [] = List.concat (map (fun _ => map nanzero erow) (seq 0 n))).
Proof.
  intros H Hc Hfd Hk Henc Hnd.
  destruct (set_data_gterm_inv _ _ _ _ H) as (_ & Hfs & (glabs & Hg & Hgroups) & Hrows & _).
  rewrite Hc, Hfd in Hfs. apply mapM_ok in Hfs. inversion Hfs as [|? ? ? ? Hset _]; subst.
  rewrite Hfd in Hg. simpl in Hg. destruct (dc_contrast fd) as [cm|] eqn:Hcm; [|discriminate Hg].
  simpl in Hg. injection Hg as <-.
  destruct (set_data_comp_treatment c true nrows fd cm ref Hk Hset Hcm Henc Hnd)
    as (num & o & d & Hd & _ & Hr & Hfull & _).
  specialize (Hfull eq_refl).
  exists num, o, d. split; [assumption|]. split; [rewrite Hgroups, Hfull; reflexivity|].
  intros i x Hi erow n.
  assert (Hrow : nth i (dg_rows dg) [] = row_kron (map (ind x) (dc_levels fd)) erow).
  { rewrite Hrows, rows_kron_nth, Hfd. cbn [factor_rows map fold_left]. f_equal.
    rewrite Hr, Hfull.
    assert (Hlt : i < List.length d) by (apply nth_error_Some; congruence).
    set (F := fun ox => map (oind ox) (dc_levels fd)).
    rewrite (nth_indep _ [] (F None)) by (rewrite map_length; assumption).
    rewrite map_nth, (nth_error_nth _ _ _ Hi). reflexivity. }
  split; [|split].
  - intros k E. rewrite Hrow, (ind_row_onehot _ _ _ Hnd E). apply onehot_kron_nan.
  - intros k E Hclean. rewrite Hrow, (ind_row_onehot _ _ _ Hnd E).
    apply onehot_kron; [|assumption]. apply (index_of_Some _ _ _ "" E).
  - intros E. rewrite Hrow, (ind_row_unseen _ _ (index_of_None _ _ E)).
    unfold row_kron. rewrite flat_map_concat_map. f_equal. fold n.
    rewrite (map_repeat_seq _ _ n 0). apply map_ext. intros _. apply map_ext. apply cmul_zero.
Qed.

(* ------------------------------------------------------------------------------------------ *)
(** * A, closed: terms made of plain components *)

(* a numeric series, or a Treatment-coded categoric predictor whose declared levels (if any) are
   duplicate-free *)
Definition plain_comp (t : tcomp) : Prop :=
  (tc_kind t = KNumeric /\ exists isint xs, tc_value t = PSeries isint xs) \/
  (tc_kind t = KCategoric /\ tc_response t = false /\
   (exists ref, comp_encoding t = Treatment ref) /\
   (forall l, declared_levels t = Some l -> NoDup l)).

Lemma set_data_comp_contrast t spans nrows dc :
  tc_kind t = KCategoric -> tc_response t = false -> set_data_comp t spans nrows = Ok dc ->
  exists cm, dc_contrast dc = Some cm.
Proof.
  unfold set_data_comp. intros Hk Hr H. rewrite Hk, Hr in H.
  destruct (tc_value t) as [isint xs|rows|o xs|? ?|?|?| |?|?|?|num d enc lv|? ?|? ? ?] eqn:Ev;
    try discriminate H.
  - destruct isint; [|discriminate H]. cbn [categoric_data bind fst snd] in H.
    match type of H with (if ?c then _ else _) = _ => destruct c; [discriminate H|] end.
    apply bind_ok in H as (cm' & Hcode & H); injection H as <-. eexists; reflexivity.
  - cbn [categoric_data bind fst snd] in H.
    match type of H with (if ?c then _ else _) = _ => destruct c; [discriminate H|] end.
    apply bind_ok in H as (cm' & Hcode & H); injection H as <-. eexists; reflexivity.
  - match type of H with (if ?c then _ else _) = _ => destruct c; [discriminate H|] end. apply bind_ok in H as (cm' & Hcode & H). injection H as <-. eexists; reflexivity.
Qed.

Theorem plain_comp_wf t spans nrows dc :
  plain_comp t -> set_data_comp t spans nrows = Ok dc -> dcomp_wf dc.
Proof.
  intros [(Hk & isint & xs & Hv)|(Hk & Hr & (ref & He) & Hdecl)] H.
  - apply (set_data_comp_numeric_wf t spans nrows dc isint xs Hk Hv H).
  - destruct (set_data_comp_contrast t spans nrows dc Hk Hr H) as (cm & Hcm).
    apply (set_data_comp_treatment_wf t spans nrows dc cm ref Hk H Hcm He).
    apply (set_data_comp_levels_NoDup t spans nrows dc Hk H Hdecl).
Qed.

Lemma set_data_term_comps nrows name cs s dt :
  set_data_term nrows (TTTerm name cs) s = Ok dt ->
  mapM (fun c => set_data_comp c (spans_for s (tc_name c)) nrows) cs = Ok (dt_comps dt).
Proof.
  unfold set_data_term. intros H. apply bind_ok in H as (ds & Hds & H).
  destruct ds as [|d0 [|d1 rest]]; [discriminate| |].
  - injection H as <-. exact Hds.
  - apply bind_ok in H as (labs & _ & H). destruct (existsb _ labs); [discriminate|]. injection H as <-. exact Hds.
Qed.

(** For a term made of plain components no well-formedness hypothesis is left: the labelled row
    of the term is the labelled product of the labelled rows of the components. *)
Theorem set_data_term_plain_lrow nrows name cs s dt :
  Forall plain_comp cs ->
  set_data_term nrows (TTTerm name cs) s = Ok dt ->
  exists d0 rest labs,
    dt_comps dt = d0 :: rest /\ dt_labels dt = Some labs /\
    forall i, Forall (fun d => i < List.length (dc_rows d)) (dt_comps dt) ->
      combine labs (nth i (dt_rows dt) [])
      = fold_left (lprod ":") (map (comp_lrow i) rest) (comp_lrow i d0)
      /\ List.length labs = List.length (nth i (dt_rows dt) []).
Proof.
  intros Hplain H. apply (set_data_term_lrow nrows name cs s dt H).
  pose proof (set_data_term_comps _ _ _ _ _ H) as Hds. apply mapM_ok in Hds.
  clear H. induction Hds as [|c d cs ds Hcd _ IH]; constructor.
  - inversion Hplain; subst. eapply plain_comp_wf; eauto.
  - inversion Hplain; subst. apply IH; assumption.
Qed.

(* ------------------------------------------------------------------------------------------ *)
(** * Duplicate levels are refused for boxes

    [set_data_comp] refuses a box (C / T / S) whose level list repeats an entry, as
    pd.Categorical(data, categories=levels) does ("Categorical categories must be unique"). *)

(* the test the model performs *)
Definition dupfree (l : list string) : bool :=
  (List.length (nodup_by String.eqb l) =? List.length l)%nat.

Lemma nodup_by_length_le {T} (eqb : T -> T -> bool) l :
  List.length (nodup_by eqb l) <= List.length l.
Proof.
  induction l as [|x l IH]; simpl; [lia|]. destruct (existsb (eqb x) l); simpl; lia.
Qed.

Lemma nodup_by_id l : NoDup l -> nodup_by String.eqb l = l.
Proof.
  induction 1 as [|x l Hx _ IH]; simpl; [reflexivity|].
  destruct (existsb (String.eqb x) l) eqn:E; [|f_equal; exact IH].
  exfalso. apply existsb_exists in E as (y & Hy & Hxy). apply String.eqb_eq in Hxy. subst. contradiction.
Qed.

Theorem dupfree_iff l : dupfree l = true <-> NoDup l.
Proof.
  unfold dupfree. split.
  - induction l as [|x l IH]; intros H; [constructor|]. simpl in H.
    pose proof (nodup_by_length_le String.eqb l) as Hle.
    destruct (existsb (String.eqb x) l) eqn:E.
    + apply Nat.eqb_eq in H. lia.
    + simpl in H. constructor; [|apply IH; exact H].
      intros Hin. assert (existsb (String.eqb x) l = true); [|congruence].
      apply existsb_exists. exists x. split; [assumption|apply String.eqb_refl].
  - intros H. rewrite (nodup_by_id l H). apply Nat.eqb_refl.
Qed.

Corollary dupfree_false_iff l : dupfree l = false <-> ~ NoDup l.
Proof.
  rewrite <- dupfree_iff. destruct (dupfree l).
  - split; [discriminate|]. intros H. exfalso. apply H. reflexivity.
  - split; [intros _ H; discriminate H|reflexivity].
Qed.

Lemma NoDup_str_dec (l : list string) : NoDup l \/ ~ NoDup l.
Proof. destruct (dupfree l) eqn:E; [left; apply dupfree_iff|right; apply dupfree_false_iff]; exact E. Qed.

(* [set_data_comp] on a box, with the test named *)
Lemma set_data_comp_box t spans nrows num d enc lv :
  tc_kind t = KCategoric -> tc_value t = PBox num d enc lv ->
  let enc' := match enc with Some e => e | None => Treatment None end in
  let cats := match lv with Some l => l | None => sort_levels num (present d) end in
  set_data_comp t spans nrows =
  if negb (dupfree cats) then Err EValue else
  do cm <- code enc' spans cats;
  Ok (DC t cats (Some cm) (code_rows (cmatrix cm) (contrast_width cm) (level_codes cats d))
         (Some (map (comp_label t) (clabels cm))) spans).
Proof. intros Hk Hv. unfold set_data_comp. rewrite Hk, Hv. reflexivity. Qed.

(** The levels of an accepted box are duplicate-free, whatever was passed as levels=. *)
Theorem set_data_comp_box_levels_NoDup t spans nrows dc num d enc lv :
  tc_kind t = KCategoric -> tc_value t = PBox num d enc lv ->
  set_data_comp t spans nrows = Ok dc -> NoDup (dc_levels dc).
Proof.
  intros Hk Hv H. rewrite (set_data_comp_box t spans nrows num d enc lv Hk Hv) in H. cbv zeta in H.
  destruct (dupfree _) eqn:E; [|discriminate H]. cbn [negb] in H.
  apply bind_ok in H as (cm & _ & H). injection H as <-. cbn [dc_levels].
  apply dupfree_iff. exact E.
Qed.

(** ... so only the declared order of an ORDERED plain column is left as a hypothesis. *)
Theorem set_data_comp_levels_NoDup_box t spans nrows dc :
  tc_kind t = KCategoric -> set_data_comp t spans nrows = Ok dc ->
  (forall l xs, tc_value t = PStrs (Some l) xs -> NoDup l) ->
  NoDup (dc_levels dc).
Proof.
  intros Hk H Hdecl.
  destruct (tc_value t) as [isint xs|rows|o xs|? ?|?|?| |?|?|?|num d enc lv|? ?|? ? ?] eqn:Ev;
    try (apply (set_data_comp_levels_NoDup t spans nrows dc Hk H); unfold declared_levels; rewrite Ev;
         intros l' E'; discriminate E').
  - apply (set_data_comp_levels_NoDup t spans nrows dc Hk H). unfold declared_levels. rewrite Ev.
    intros l' E'. subst o. eapply Hdecl. reflexivity.
  - eapply set_data_comp_box_levels_NoDup; eauto.
Qed.

(* a box needs no hypothesis at all *)
Corollary set_data_comp_levels_NoDup_nostrs t spans nrows dc :
  tc_kind t = KCategoric -> set_data_comp t spans nrows = Ok dc ->
  (forall o xs, tc_value t <> PStrs (Some o) xs) ->
  NoDup (dc_levels dc).
Proof.
  intros Hk H Hn. apply (set_data_comp_levels_NoDup_box t spans nrows dc Hk H).
  intros l xs E. exfalso. exact (Hn l xs E).
Qed.

Print Assumptions dupfree_iff.
Print Assumptions set_data_comp_box_levels_NoDup.
Print Assumptions set_data_comp_levels_NoDup_box.
