From Verif Require Import Base Design History.
From Coq Require Import Lia.
Local Close Scope Qc_scope.
Local Close Scope Q_scope.

Lemma builds_of_app a b : builds_of (a ++ b) = (builds_of a ++ builds_of b)%list.
Proof. unfold builds_of. now rewrite flat_map_app. Qed.

Lemma mode_after_app m a b : mode_after m (a ++ b) = mode_after (mode_after m a) b.
Proof. unfold mode_after. now rewrite fold_left_app. Qed.

(* the concrete state after a history: the designs are exactly the builds, in order, each a pure
   function of its own formula and frame; the mode is the last valid setting *)
Definition inv (p : pools) (m0 : unseen_mode) (earlier : list op) (s : hstate) : Prop :=
  h_designs s = map (fun b => build_one p (fst b) (snd b)) (builds_of earlier) /\
  h_mode s = mode_after m0 earlier.

Lemma step_inv p m0 earlier s o :
  inv p m0 earlier s -> inv p m0 (earlier ++ [o]) (fst (step p s o)).
Proof.
  intros [Hd Hm]. unfold inv. rewrite builds_of_app, mode_after_app, map_app.
  destruct o as [f fr|i fr|i fr|v]; simpl.
  - split; [now rewrite Hd | exact Hm].
  - destruct (nth_error (h_designs s) i); simpl; rewrite app_nil_r; auto.
  - destruct (nth_error (h_designs s) i); simpl; rewrite app_nil_r; auto.
  - destruct (parse_mode v) eqn:E; simpl; rewrite app_nil_r; split; auto.
    all: unfold mode_after at 1; simpl; rewrite ?E; auto.
Qed.

Lemma step_out p m0 earlier s o :
  inv p m0 earlier s -> snd (step p s o) = fresh_out p (mode_after m0 earlier) earlier o.
Proof.
  intros [Hd Hm]. destruct o as [f fr|i fr|i fr|v]; simpl.
  - reflexivity.
  - rewrite Hd, nth_error_map.
    destruct (nth_error (builds_of earlier) i) as [[f dfr]|]; simpl; [now rewrite Hm | reflexivity].
  - rewrite Hd, nth_error_map.
    destruct (nth_error (builds_of earlier) i) as [[f dfr]|]; simpl; [now rewrite Hm | reflexivity].
  - destruct (parse_mode v); reflexivity.
Qed.

Theorem run_refines p m0 ops : forall earlier s,
  inv p m0 earlier s -> snd (run p s ops) = spec_outputs p m0 earlier ops.
Proof.
  induction ops as [|o r IH]; intros earlier s Hinv; simpl; [reflexivity|].
  destruct (step p s o) as [s1 x] eqn:Es.
  destruct (run p s1 r) as [s2 xs] eqn:Er. simpl.
  f_equal.
  - change x with (snd (s1, x)). rewrite <- Es. now apply step_out.
  - change xs with (snd (s2, xs)). rewrite <- Er. apply IH.
    change s1 with (fst (s1, x)). rewrite <- Es. now apply step_inv.
Qed.

Theorem history_refines p ops :
  snd (run p init_state ops) = spec_outputs p UError [] ops.
Proof. apply run_refines. split; reflexivity. Qed.

(* designs that exist are never changed by later operations *)
Theorem designs_append_only p ops : forall s,
  exists more, h_designs (fst (run p s ops)) = (h_designs s ++ more)%list.
Proof.
  induction ops as [|o r IH]; intros s; simpl.
  - exists []. now rewrite app_nil_r.
  - destruct (step p s o) as [s1 x] eqn:Es.
    destruct (run p s1 r) as [s2 xs] eqn:Er. simpl.
    destruct (IH s1) as [more Hm]. rewrite Er in Hm. simpl in Hm.
    assert (exists m1, h_designs s1 = (h_designs s ++ m1)%list) as [m1 H1].
    { destruct o as [f fr|i fr|i fr|v]; simpl in Es.
      - inversion Es; subst. simpl. eauto.
      - destruct (nth_error (h_designs s) i); inversion Es; subst; exists []; now rewrite app_nil_r.
      - destruct (nth_error (h_designs s) i); inversion Es; subst; exists []; now rewrite app_nil_r.
      - destruct (parse_mode v); inversion Es; subst; exists []; simpl; now rewrite app_nil_r. }
    exists (m1 ++ more)%list. now rewrite Hm, H1, app_assoc.
Qed.

(* an invalid configuration value is refused and changes nothing *)
Theorem bad_config_refused p s v :
  parse_mode v = None -> step p s (OSetConfig v) = (s, OutConfig false).
Proof. intros H. simpl. now rewrite H. Qed.
