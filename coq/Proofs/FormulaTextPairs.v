(* The COMPLETE precedence / associativity table of the binary operators, at text level (property C01).

   FormulaText.v proves 22 named laws.  Here the table is closed: for EVERY ordered pair (o1, o2) of the
   thirteen binary operators the parser knows below "~" ( | == != <= < >= > - + * / : ** ) and for ALL
   identifier operands a, b, c the text  a o1 b o2 c  is accepted and its tree is the one a precedence table
   with left associativity prescribes.

   The prescription [spec_tree] is the textbook definition, independent of the parser: the root of
   x0 p1 x1 ... pn xn  is the RIGHTMOST operator of the LOWEST level (lowest binds loosest; rightmost = left
   associativity), and both sides are built the same way.  The scanner puts "1 +" in front of a formula
   without "~", so the operand list of  a o1 b o2 c  is  1, a, b, c  and the operator list  +, o1, o2. *)
From Verif Require Import Base Tokens Scanner Parser Grammar ParserSound ParserComplete ScannerProofs Driver FrontEnd
  FormulaText.
From Coq Require Import Lia.
Local Close Scope Qc_scope.
Local Close Scope Q_scope.
Local Open Scope string_scope.

(** the binary operators (kind, lexeme) and their binding level *)
Definition binops : list (kind * string) :=
  [ (PIPE, "|"); (EQUAL_EQUAL, "=="); (BANG_EQUAL, "!="); (LESS_EQUAL, "<="); (LESS, "<");
    (GREATER_EQUAL, ">="); (GREATER, ">"); (MINUS, "-"); (PLUS, "+"); (STAR, "*"); (SLASH, "/");
    (COLON, ":"); (STAR_STAR, "**") ].

Definition level (k : kind) : nat :=
  match k with
  | PIPE => 0
  | EQUAL_EQUAL | BANG_EQUAL | LESS_EQUAL | LESS | GREATER_EQUAL | GREATER => 1
  | MINUS | PLUS => 2
  | STAR | SLASH => 3
  | COLON => 4
  | STAR_STAR => 5
  | _ => 6
  end.

(** index of the rightmost operator of minimal level *)
Fixpoint root_index (ops : list (kind * string)) (i : nat) (best : nat) (bestlvl : nat) : nat :=
  match ops with
  | [] => best
  | (k, _) :: r => if Nat.leb (level k) bestlvl then root_index r (S i) i (level k)
                   else root_index r (S i) best bestlvl
  end.

(** the tree a precedence table prescribes for  x0 p1 x1 ... pn xn  ([fuel] >= number of operators) *)
Fixpoint spec_tree (fuel : nat) (xs : list expr) (ops : list (kind * string)) : option expr :=
  match fuel with
  | O => match xs, ops with [x], [] => Some x | _, _ => None end
  | S f =>
    match xs, ops with
    | [x], [] => Some x
    | _, (k0, _) :: _ =>
      let i := root_index ops 0 0 (level k0) in
      match nth_error ops i with
      | Some (k, lx) =>
        match spec_tree f (firstn (S i) xs) (firstn i ops), spec_tree f (skipn (S i) xs) (skipn (S i) ops) with
        | Some l, Some r => Some (Bin l k lx r)
        | _, _ => None
        end
      | None => None
      end
    | _, _ => None
    end
  end.

Definition pair_tree (o1 o2 : kind * string) (a b c : string) : option expr :=
  spec_tree 3 [ONE; V a; V b; V c] [(PLUS, "+"); o1; o2].

(** the table says what one expects *)
Example pair_tree_mul_add a b c :
  pair_tree (STAR, "*") (PLUS, "+") a b c = Some (ONE [+] (V a [*] V b) [+] V c).
Proof. reflexivity. Qed.
Example pair_tree_add_mul a b c :
  pair_tree (PLUS, "+") (STAR, "*") a b c = Some (ONE [+] V a [+] (V b [*] V c)).
Proof. reflexivity. Qed.
Example pair_tree_pow_pow a b c :
  pair_tree (STAR_STAR, "**") (STAR_STAR, "**") a b c = Some (ONE [+] ((V a [**] V b) [**] V c)).
Proof. reflexivity. Qed.
Example pair_tree_pipe_cmp a b c :
  pair_tree (PIPE, "|") (EQUAL_EQUAL, "==") a b c = Some ((ONE [+] V a) [|] (V b [==] V c)).
Proof. reflexivity. Qed.

(** every spacing *)
Theorem law_pairs_spaced : forall o1 o2, In o1 binops -> In o2 binops ->
  forall s a b c, Ident a -> Ident b -> Ident c ->
  Renders s [idt a; mk (fst o1) (snd o1); idt b; mk (fst o2) (snd o2); idt c] ->
  exists t, pair_tree o1 o2 a b c = Some t /\ front_end s = Ok t.
Proof.
  intros o1 o2 H1 H2.
  cbn [binops In] in H1, H2.
  repeat match goal with H : _ \/ _ |- _ => destruct H as [H | H] end;
    try contradiction; subst o1; subst o2; cbn [fst snd];
    intros s a b c Ha Hb Hc R;
    (eexists; split; [reflexivity |]);
    match type of R with Renders _ ?ls => law_general ls end.
Qed.

(** the text without blanks *)
Theorem law_pairs : forall o1 o2, In o1 binops -> In o2 binops ->
  forall a b c, Ident a -> Ident b -> Ident c ->
  exists t, pair_tree o1 o2 a b c = Some t /\
            front_end (a ++ snd o1 ++ b ++ snd o2 ++ c) = Ok t.
Proof.
  intros o1 o2 H1 H2 a b c Ha Hb Hc.
  apply (law_pairs_spaced o1 o2 H1 H2 _ a b c Ha Hb Hc).
  cbn [binops In] in H1, H2.
  repeat match goal with H : _ \/ _ |- _ => destruct H as [H | H] end;
    try contradiction; subst o1; subst o2; cbn [fst snd]; glue_goal.
Qed.

(** no pair is refused, and the thirteen operators are all the binary operators below "~" *)
Corollary law_pairs_accepted : forall o1 o2, In o1 binops -> In o2 binops ->
  forall a b c, Ident a -> Ident b -> Ident c ->
  exists t, front_end (a ++ snd o1 ++ b ++ snd o2 ++ c) = Ok t.
Proof.
  intros o1 o2 H1 H2 a b c Ha Hb Hc.
  destruct (law_pairs o1 o2 H1 H2 a b c Ha Hb Hc) as (t & _ & Ht). now exists t.
Qed.

(** the level table is what decides: equal levels nest to the left, a higher second level nests to the right *)
Lemma pair_tree_shape o1 o2 a b c : In o1 binops -> In o2 binops ->
  pair_tree o1 o2 a b c =
  Some (
    let A := V a in let B := V b in let C := V c in
    let k1 := fst o1 in let k2 := fst o2 in let x1 := snd o1 in let x2 := snd o2 in
    if Nat.ltb (level k1) (level k2) then
      (* o2 binds tighter: b o2 c first *)
      if Nat.leb (level k1) 2
      then (if Nat.ltb (level k1) 2
            then Bin (ONE [+] A) k1 x1 (Bin B k2 x2 C)
            else Bin (ONE [+] A) k1 x1 (Bin B k2 x2 C))
      else ONE [+] (Bin A k1 x1 (Bin B k2 x2 C))
    else
      (* o1 binds at least as tight as o2: a o1 b first *)
      if Nat.leb (level k1) 2
      then Bin (Bin (ONE [+] A) k1 x1 B) k2 x2 C
      else if Nat.leb (level k2) 2
           then Bin (ONE [+] (Bin A k1 x1 B)) k2 x2 C
           else ONE [+] (Bin (Bin A k1 x1 B) k2 x2 C)).
Proof.
  intros H1 H2. cbn [binops In] in H1, H2.
  repeat match goal with H : _ \/ _ |- _ => destruct H as [H | H] end;
    try contradiction; subst o1; subst o2; reflexivity.
Qed.

(* ------------------------------------------------------------------------------------------ *)
(** * The same table to the right of "~"

    The right-hand side of "~" is parsed at the level of "+" ([Parser.tilde] calls [addition]): a pair is accepted
    there iff NEITHER operator binds looser than "+" (no bare "|" and no comparison), the tree of the right-hand
    side is then the same [pair_tree] (the scanner inserts "1 +" after the tilde), and every other pair is refused
    with a parse error -- never parsed to something else. *)
Definition tilde_pair (o1 o2 : kind * string) (y a b c : string) : res expr :=
  if Nat.leb 2 (level (fst o1)) && Nat.leb 2 (level (fst o2)) then
    match pair_tree o1 o2 a b c with Some t => Ok (Bin (V y) TILDE "~" t) | None => Err EParse end
  else Err EParse.

Theorem law_tilde_pairs_spaced : forall o1 o2, In o1 binops -> In o2 binops ->
  forall s y a b c, Ident y -> Ident a -> Ident b -> Ident c ->
  Renders s [idt y; mk TILDE "~"; idt a; mk (fst o1) (snd o1); idt b; mk (fst o2) (snd o2); idt c] ->
  front_end s = tilde_pair o1 o2 y a b c.
Proof.
  intros o1 o2 H1 H2.
  cbn [binops In] in H1, H2.
  repeat match goal with H : _ \/ _ |- _ => destruct H as [H | H] end;
    try contradiction; subst o1; subst o2; cbn [fst snd];
    intros s y a b c Hy Ha Hb Hc R;
    match type of R with Renders _ ?ls => law_general ls end.
Qed.

Theorem law_tilde_pairs : forall o1 o2, In o1 binops -> In o2 binops ->
  forall y a b c, Ident y -> Ident a -> Ident b -> Ident c ->
  front_end (y ++ "~" ++ a ++ snd o1 ++ b ++ snd o2 ++ c) = tilde_pair o1 o2 y a b c.
Proof.
  intros o1 o2 H1 H2 y a b c Hy Ha Hb Hc.
  apply (law_tilde_pairs_spaced o1 o2 H1 H2 _ y a b c Hy Ha Hb Hc).
  cbn [binops In] in H1, H2.
  repeat match goal with H : _ \/ _ |- _ => destruct H as [H | H] end;
    try contradiction; subst o1; subst o2; cbn [fst snd]; glue_goal.
Qed.

(** accepted iff both operators bind at least as tight as "+" *)
Corollary law_tilde_pairs_accept_iff : forall o1 o2, In o1 binops -> In o2 binops ->
  forall y a b c, Ident y -> Ident a -> Ident b -> Ident c ->
  ((exists t, front_end (y ++ "~" ++ a ++ snd o1 ++ b ++ snd o2 ++ c) = Ok t) <->
   (2 <= level (fst o1) /\ 2 <= level (fst o2))).
Proof.
  intros o1 o2 H1 H2 y a b c Hy Ha Hb Hc.
  rewrite (law_tilde_pairs o1 o2 H1 H2 y a b c Hy Ha Hb Hc). unfold tilde_pair.
  destruct (law_pairs o1 o2 H1 H2 a b c Ha Hb Hc) as (t & Ht & _). rewrite Ht.
  destruct (Nat.leb_spec 2 (level (fst o1))) as [L1 | L1];
  destruct (Nat.leb_spec 2 (level (fst o2))) as [L2 | L2]; cbn [andb];
    split; try (intros [t' Hc']; discriminate Hc'); try (intros [? ?]; lia); try (intros _; eexists; reflexivity);
    intros _; split; assumption.
Qed.

Print Assumptions law_tilde_pairs.
Print Assumptions law_tilde_pairs_accept_iff.

Print Assumptions law_pairs.
Print Assumptions law_pairs_spaced.
