(* Property C09, the clause about na_action = "pass".

   "With 'pass' all rows are kept in order, complete rows are encoded exactly as under 'drop' and
    an incomplete row carries NaN in exactly the columns derived from its missing numeric variable
    (for plain variables and pointwise calls)."

   Layers
     A. cells: NaN absorbs every product ([cmul None (Some 0) = None]); rows of products.
     B. the pointwise fragment [pointwise] = [rowwise_safe] without the stateful transforms;
        training on a SELECTION of the rows of a frame ([select keep]; not a permutation, so the
        Refit section of Prediction.v does not apply): [eval_lazy_reselect] ->
        [set_type_comp_reselect], [set_data_comp_reselect] -> [set_data_term_reselect],
        [set_data_gterm_reselect] -> [eval_model_reselect].  The only thing that can change is the
        set of levels of a categorical component: hypothesis [levels_kept].
     C. [pass_drop_design]: on [design_matrices], pass versus drop; [pass_drop_spec] spells the
        conclusion out (names, kinds, labels, levels, contrasts equal; rows selected);
        [select_nth_rank]: row i of the pass matrix is row [rank] of the drop matrix.
        [levels_not_kept_refuted]: without [levels_kept] the clause is false.
     D. NaN rows: [arith_nan] (a pointwise arithmetic call is NaN on row i iff it reads a numeric
        variable missing on row i), [term_row_nan], [gterm_row_nan], [pass_nan_rows].
     E. input-level sufficient conditions for [levels_kept]; a worked example. *)
From Verif Require Import Base Tokens Lazy Algebra Coding Contrasts Frame Eval Design.
From Verif Require Import DesignStructure DesignCoding FrameStructure Unseen PermKernel.
From Verif Require Import Prediction PredictionGroups Containers ResponseIndep.
From Verif Require Driver.
From Coq Require Import Lia Permutation.
Local Close Scope Qc_scope.
Local Close Scope Q_scope.
Local Open Scope string_scope.
Local Open Scope list_scope.
Local Open Scope nat_scope.

(* ------------------------------------------------------------------------------------------ *)
(** * A. Cells and rows *)

Lemma cmul_nan_l b : cmul None b = None.
Proof. reflexivity. Qed.

Lemma cmul_nan_r a : cmul a None = None.
Proof. destruct a; reflexivity. Qed.

(** NaN * 0 = NaN, as in IEEE arithmetic: a missing numeric value is not hidden by an indicator
    column that is 0 on that row. *)
Example nan_times_zero : cmul None (zcell 0) = None /\ cmul (zcell 0) None = None.
Proof. split; reflexivity. Qed.

Lemma cmul_some_iff a b : cmul a b <> None <-> a <> None /\ b <> None.
Proof. destruct a, b; simpl; split; try tauto; try (intros [H1 H2]; congruence); intros _; split; discriminate. Qed.

Definition all_nan (r : list cell) : Prop := Forall (fun c => c = None) r.
Definition no_nan (r : list cell) : Prop := Forall (fun c => c <> None) r.

Lemma row_kron_all_nan_l x y : all_nan x -> all_nan (row_kron x y).
Proof.
  unfold all_nan, row_kron. rewrite !Forall_forall. intros H c Hc.
  apply in_flat_map in Hc as (a & Ha & Hc). apply in_map_iff in Hc as (b & <- & _).
  rewrite (H a Ha). reflexivity.
Qed.

Lemma row_kron_all_nan_r x y : all_nan y -> all_nan (row_kron x y).
Proof.
  unfold all_nan, row_kron. rewrite !Forall_forall. intros H c Hc.
  apply in_flat_map in Hc as (a & Ha & Hc). apply in_map_iff in Hc as (b & <- & Hb).
  rewrite (H b Hb). apply cmul_nan_r.
Qed.

Lemma row_kron_no_nan x y : no_nan x -> no_nan y -> no_nan (row_kron x y).
Proof.
  unfold no_nan, row_kron. rewrite !Forall_forall. intros Hx Hy c Hc.
  apply in_flat_map in Hc as (a & Ha & Hc). apply in_map_iff in Hc as (b & <- & Hb).
  apply cmul_some_iff. auto.
Qed.

Lemma fold_row_kron_all_nan rs : forall r0,
  all_nan r0 \/ Exists all_nan rs -> all_nan (fold_left row_kron rs r0).
Proof.
  induction rs as [|r rs IH]; intros r0 H; simpl.
  - destruct H as [H|H]; [exact H|inversion H].
  - apply IH. destruct H as [H|H].
    + left. apply row_kron_all_nan_l. exact H.
    + inversion H as [? ? Hr|? ? Hrs]; subst; [left; apply row_kron_all_nan_r; exact Hr|right; exact Hrs].
Qed.

Lemma fold_row_kron_no_nan rs : forall r0,
  no_nan r0 -> Forall no_nan rs -> no_nan (fold_left row_kron rs r0).
Proof.
  induction rs as [|r rs IH]; intros r0 H0 H; simpl; [exact H0|].
  apply IH; [apply row_kron_no_nan; [exact H0|exact (Forall_inv H)]|exact (Forall_inv_tail H)].
Qed.

(* a row that is all NaN and has no NaN is empty *)
Lemma all_nan_no_nan r : all_nan r -> no_nan r -> r = [].
Proof. destruct r as [|c r]; [reflexivity|]. intros H1 H2. inversion H1; inversion H2; subst. congruence. Qed.

(* ------------------------------------------------------------------------------------------ *)
(** * B. The pointwise fragment; training on a selection of the rows *)

(** No stateful transform (center, scale, standardize, bs, poly) anywhere in the call tree: these
    estimate their constants from the whole column, which are NaN (or different) when rows are kept
    or dropped. *)
Fixpoint no_stateful (l : lazy) : bool :=
  match l with
  | LzVar _ => true
  | LzVal _ _ => true
  | LzOp _ args => forallb no_stateful args
  | LzCall c args kw =>
      negb (existsb (String.eqb c) stateful_names) &&
      forallb no_stateful args &&
      forallb (fun kv => match kv with (_, a) => no_stateful a end) kw
  end.

(** The pointwise calls: variables, literals, unary and binary operators, I, Treatment, Sum,
    offset, C, S, T (the last three without explicit levels, as in [rowwise_safe]). *)
Definition pointwise (l : lazy) : bool := rowwise_safe l && no_stateful l.

Definition comp_pointwise (c : comp) : Prop :=
  match c with CCall lz => pointwise lz = true | _ => True end.

Lemma comp_pointwise_safe c : comp_pointwise c -> comp_safe [] c.
Proof.
  destruct c as [nm lvl|lz]; simpl; [auto|]. unfold pointwise. intros H.
  apply andb_true_iff in H as [H _]. exact H.
Qed.

Lemma forallb_Forall_imp {T} (f g : T -> bool) (P : T -> Prop) l :
  Forall (fun a => f a = true -> g a = true -> P a) l -> forallb f l = true ->
  Forall (fun a => g a = true -> P a) l.
Proof.
  induction 1 as [|a l Ha _ IH]; intros Hf; constructor; simpl in Hf;
    apply andb_true_iff in Hf as [Hfa Hf]; auto.
Qed.

Section Reselect.
  Variable keep : list bool.
  Variable n : nat.
  Hypothesis keep_len : List.length keep = n.
  (* at least one row is kept *)
  Hypothesis keep_some : count_true keep <> 0.

  Let sel : forall T : Type, list T -> list T := sel_mask keep.
  Let Hmap : forall (S T : Type) (f : S -> T) (l : list S), sel T (map f l) = map f (sel S l) :=
    fun S T f l => select_map f keep l.
  Let Hcomb : forall (S T : Type) (a : list S) (b : list T),
      List.length a = List.length b -> combine (sel S a) (sel T b) = sel (S * T)%type (combine a b) :=
    fun S T a b _ => select_combine keep a b.
  Let HIn : forall (T : Type) (x : T) (l : list T), In x (sel T l) -> In x l :=
    fun T x l => select_In keep x l.
  Let Hnb : In "bs" [] -> seln sel n <> 0 := no_bs_nil _.

  Lemma seln_keep : seln sel n = count_true keep.
  Proof. rewrite <- keep_len. apply seln_mask. Qed.

  Variable D : frame.
  Hypothesis D_rows : rows_eq D n.
  Hypothesis D_rect : rect n D.
  Hypothesis D_unord : frame_unordered D.
  Variable ex : list (string * pyval).
  Hypothesis ex_scalar : forall k v, assoc k ex = Some v -> is_scalar v = true.
  Variable sq : Qc -> Qc.

  Let cx : dctx := DCtx ex sq.

  Notation tsel := (tcomp_sel sel).
  Notation dsel := (dcomp_sel sel).

  (** ** call trees *)

  (** Training a pointwise call on the selected rows computes the selected rows of the value
      computed on all rows; nothing is recorded. *)
  Theorem eval_lazy_reselect_gen l :
    no_stateful l = true -> safe_gen [] l = true -> refit_spec sel D ex sq l.
  Proof.
    induction l as [sym args IH|name|lit lx|c args kw IHa IHk] using lazy_ind'; intros Hn Hs.
    - simpl in Hs, Hn. intros st v st1 rec H st'.
      destruct args as [|a [|b [|c r]]]; try discriminate H.
      + pose proof (Forall_inv IH) as Ha. cbv beta in Ha. simpl in Hs, Hn. rewrite andb_true_r in Hs, Hn.
        cbn [eval_lazy] in H. apply bind_ok in H as ([[va sta] reca] & Hx & H).
        apply bind_ok in H as (w & Hw & H). cbn [fst snd] in *. injection H as <- <- <-.
        destruct (eval_lazy_sel sel Hmap Hcomb HIn [] extra_nil_allowed D n D_rect D_unord ex ex_scalar sq Hnb
                                a Hs _ _ _ _ Hx) as (_ & Gva & _).
        destruct (apply_unop_sel sel Hmap n sym va w Gva Hw) as [Hw' Gw].
        cbn [eval_lazy]. rewrite (Ha Hn Hs _ _ _ _ Hx). cbn [bind fst snd]. rewrite Hw'. reflexivity.
      + pose proof (Forall_inv IH) as Ha. pose proof (Forall_inv (Forall_inv_tail IH)) as Hb. cbv beta in Ha, Hb.
        simpl in Hs, Hn. rewrite andb_true_r in Hs, Hn.
        apply andb_true_iff in Hs as [Hsa Hsb]. apply andb_true_iff in Hn as [Hna Hnb'].
        cbn [eval_lazy] in H. apply bind_ok in H as ([[va sta] reca] & Hx & H).
        apply bind_ok in H as ([[vb stb] recb] & Hy & H).
        apply bind_ok in H as (w & Hw & H). cbn [fst snd] in *. injection H as <- <- <-.
        destruct (eval_lazy_sel sel Hmap Hcomb HIn [] extra_nil_allowed D n D_rect D_unord ex ex_scalar sq Hnb
                                a Hsa _ _ _ _ Hx) as (_ & Gva & _).
        destruct (eval_lazy_sel sel Hmap Hcomb HIn [] extra_nil_allowed D n D_rect D_unord ex ex_scalar sq Hnb
                                b Hsb _ _ _ _ Hy) as (_ & Gvb & _).
        destruct (apply_binop_sel sel Hmap Hcomb HIn n sym va vb w Gva Gvb Hw) as [Hw' Gw].
        cbn [eval_lazy]. rewrite (Ha Hna Hsa _ _ _ _ Hx). cbn [bind fst snd].
        rewrite (Hb Hnb' Hsb _ _ _ _ Hy). cbn [bind fst snd]. rewrite Hw'. reflexivity.
    - intros st v st1 rec H st'. cbn [eval_lazy] in H. apply bind_ok in H as (w & Hw & H).
      injection H as <- <- <-.
      destruct (lookup_name_sel sel D n D_rect D_unord ex ex_scalar sq _ _ Hw) as [_ Pw].
      cbn [eval_lazy]. change (lookup_name (cxR sel D ex sq) name) with (lookup_name (cxP sel D ex sq) name).
      rewrite Pw. reflexivity.
    - intros st v st1 rec H st'. cbn [eval_lazy] in *. injection H as <- <- <-.
      destruct lit; reflexivity.
    - rewrite rsafe_call in Hs.
      apply andb_true_iff in Hs as [Hs Hbox]. apply andb_true_iff in Hs as [Hs Hsk].
      apply andb_true_iff in Hs as [Hc Hsa].
      cbn [no_stateful] in Hn. apply andb_true_iff in Hn as [Hn Hnk]. apply andb_true_iff in Hn as [Hnc Hna].
      apply negb_true_iff in Hnc.
      destruct (safe_callee_cases [] extra_nil_allowed c Hc) as [Hknown Hkind].
      assert (IHa' : Forall (fun a => safe_gen [] a = true -> refit_spec sel D ex sq a) args).
      { apply (forallb_Forall_imp no_stateful); assumption. }
      assert (IHk' : Forall (fun kv : string * lazy => safe_gen [] (snd kv) = true -> refit_spec sel D ex sq (snd kv)) kw).
      { clear -IHk Hnk. induction IHk as [|[k a] kw Ha _ IH]; constructor; simpl in Hnk;
          apply andb_true_iff in Hnk as [Hna Hnk]; auto. }
      intros st v st1 rec H st'. rewrite eval_lazy_call in *. rewrite Hknown in *. cbn [negb] in *.
      apply bind_ok in H as ([[pos sta] reca] & Hra & H).
      apply bind_ok in H as ([[kws stk] reck] & Hrk & H). cbn [fst snd] in H.
      destruct (eval_args_refit sel Hmap Hcomb HIn [] extra_nil_allowed n Hnb D D_rect D_unord ex ex_scalar sq
                                args IHa' Hsa _ _ _ _ _ _ Hra) as (vs & recsA & -> & -> & Gvs & Lvs & Pa).
      destruct (eval_kwargs_refit sel Hmap Hcomb HIn [] extra_nil_allowed n Hnb D D_rect D_unord ex ex_scalar sq
                                  kw IHk' Hsk _ _ _ _ _ _ Hrk) as (kvs & recsK & -> & -> & Gks & Kks & Pk).
      cbn [app] in *. rewrite Pa. cbn [bind fst snd app]. rewrite Pk. cbn [bind fst snd app].
      destruct Hkind as [[Hin Hst]|[(Hex & _ & Hst)|[Hin Hst]]]; [congruence|congruence|].
      rewrite Hst in *.
      apply bind_ok in H as (w & Hw & H). injection H as <- <- <-.
      assert (Hb : In c box_callees -> List.length vs <= 2 /\ assoc "levels" kvs = None).
      { intros Hbc. rewrite (existsb_eqb_In' _ _ Hbc) in Hbox.
        apply andb_true_iff in Hbox as [Hlen Hlev]. apply Nat.leb_le in Hlen.
        split; [lia|]. apply assoc_None_iff. rewrite Kks. intros Hin'.
        apply negb_true_iff in Hlev.
        assert (existsb (fun kv : string * lazy => String.eqb (fst kv) "levels") kw = true); [|congruence].
        apply in_map_iff in Hin' as (kv & E & Hkv). apply existsb_exists. exists kv.
        split; [assumption|]. rewrite E. reflexivity. }
      destruct (call_function_sel sel Hmap HIn n (cxF D ex sq) (cxR sel D ex sq) c vs kvs w Hin Gvs Gks Hb Hw)
        as [Hw' _].
      rewrite Hw'. reflexivity.
  Qed.

  Corollary eval_lazy_reselect l : pointwise l = true -> refit_spec sel D ex sq l.
  Proof.
    unfold pointwise. intros H. apply andb_true_iff in H as [Hs Hn]. apply eval_lazy_reselect_gen; assumption.
  Qed.


  (** ** components *)

  (** Typing a component on the selected rows: the same kind, name and state; the value is the
      selection of the value on all rows. *)
  Theorem set_type_comp_reselect r c t :
    comp_pointwise c ->
    set_type_comp cx D r c = Ok t ->
    set_type_comp cx (frame_sel sel D) r c = Ok (tsel t).
  Proof.
    intros Hok H. destruct c as [[name|lit] lvl|lz]; simpl in *.
    - rewrite (assoc_frame_sel sel). destruct (assoc name D) as [col|]; [|discriminate H].
      injection H as <-. cbn [option_map]. destruct col; reflexivity.
    - discriminate H.
    - apply bind_ok in H as ([[v st1] rec] & Hev & H). cbn [fst snd] in H.
      pose proof (eval_lazy_reselect lz Hok _ _ _ _ Hev []) as R. unfold cxR in R. rewrite R.
      cbn [bind fst snd].
      destruct v; cbn [bind val_sel] in *; try discriminate H; injection H as <-; reflexivity.
  Qed.

  Lemma set_type_comp_good' r c t :
    comp_pointwise c -> set_type_comp cx D r c = Ok t -> good n (tc_value t).
  Proof.
    intros Hs H.
    apply (set_type_comp_good sel Hmap Hcomb HIn [] extra_nil_allowed n Hnb D D_rect D_unord ex ex_scalar sq r c t);
      [apply comp_pointwise_safe; exact Hs|exact H].
  Qed.

  (** The levels of a categorical value are the same on the kept rows as on all rows.  (Declared
      levels -- an explicit [levels=] or an ordered Categorical -- never change.) *)
  Definition int_labels (xs : list cell) : list (option string) :=
    map (fun c => match c with Some q => Some (int_label q) | None => None end) xs.

  Definition levels_kept (v : pyval) : Prop :=
    match v with
    | PBox num d _ None => sort_levels num (present (select keep d)) = sort_levels num (present d)
    | PStrs None xs => sort_levels false (present (select keep xs)) = sort_levels false (present xs)
    | PSeries true xs =>
        sort_levels true (present (select keep (int_labels xs))) = sort_levels true (present (int_labels xs))
    | _ => True
    end.

  (* a sufficient condition: every value occurs on a kept row *)
  Lemma present_select_incl (d : list (option string)) : incl (present (select keep d)) (present d).
  Proof.
    intros s Hs. unfold present in *. apply in_flat_map in Hs as (x & Hx & Hs).
    apply in_flat_map. exists x. split; [apply (select_In keep); exact Hx|exact Hs].
  Qed.

  Lemma width_select (rows : list (list cell)) :
    List.length rows = n -> regular_rows rows -> width (select keep rows) = width rows.
  Proof.
    intros L (w & Hw). destruct rows as [|r0 rows']; [rewrite select_nil_r; reflexivity|].
    pose proof (select_length keep (r0 :: rows') (eq_trans L (eq_sym keep_len))) as Ls.
    destruct (select keep (r0 :: rows')) as [|r1 rest] eqn:E; [simpl in Ls; congruence|].
    simpl. rewrite Forall_forall in Hw. rewrite (Hw r0 (or_introl eq_refl)). apply Hw.
    apply (select_In keep). rewrite E. left. reflexivity.
  Qed.

  Lemma cat_body_reselect t spans num decl d0 d :
    (decl = None -> sort_levels num (present (select keep d0)) = sort_levels num (present d0)) ->
    cat_body t spans num decl d0 = Ok d ->
    cat_body (tsel t) spans num decl (select keep d0) = Ok (dsel d).
  Proof.
    unfold cat_body. intros Hk H. cbn [tcomp_sel tc_response tc_reference tc_name].
    destruct (existsb _ d0) eqn:Em; [discriminate H|].
    pose proof (no_missing_sel sel HIn _ Em) as Em'. unfold sel, sel_mask in Em'. rewrite Em'.
    assert (Hc : match decl with Some cs => cs | None => sort_levels num (present (select keep d0)) end
                 = match decl with Some cs => cs | None => sort_levels num (present d0) end).
    { destruct decl; [reflexivity|apply Hk; reflexivity]. }
    cbv zeta in *. rewrite Hc.
    destruct (tc_response t), (tc_reference t);
      first [ injection H as <-; unfold dcomp_sel;
              cbn [dc_t dc_levels dc_contrast dc_rows dc_labels dc_spans];
              unfold sel, sel_mask; rewrite <- select_map; reflexivity
            | apply bind_ok in H as (cm & Hcode & H); rewrite Hcode; cbn [bind];
              injection H as <-; unfold dcomp_sel;
              cbn [dc_t dc_levels dc_contrast dc_rows dc_labels dc_spans];
              rewrite <- (code_rows_sel sel Hmap); reflexivity ].
  Qed.

  (** Coding the component on the selected rows: the same levels, contrast matrix and labels; the
      rows are the selected rows -- provided the levels are kept. *)
  Theorem set_data_comp_reselect t spans d :
    good n (tc_value t) ->
    (tc_kind t = KCategoric -> levels_kept (tc_value t)) ->
    set_data_comp t spans n = Ok d ->
    set_data_comp (tsel t) spans (seln sel n) = Ok (dsel d).
  Proof.
    intros G K H.
    destruct (tc_kind t) eqn:Ek.
    - (* numeric *)
      unfold set_data_comp in *. cbn [tcomp_sel tc_kind tc_value tc_name]. rewrite Ek in *.
      destruct (tc_value t) as [i xs|rows| | | | | | | | | | |]; try discriminate H.
      + injection H as <-. cbn [val_sel]. unfold dcomp_sel. cbn [dc_t dc_levels dc_contrast dc_rows dc_labels dc_spans].
        rewrite Hmap. reflexivity.
      + cbn [good] in G. destruct G as [L R]. injection H as <-. cbn [val_sel]. unfold dcomp_sel.
        cbn [dc_t dc_levels dc_contrast dc_rows dc_labels dc_spans].
        change (match sel (list cell) rows with r :: _ => List.length r | [] => 0 end) with (width (select keep rows)).
        rewrite (width_select rows L R). reflexivity.
    - (* categoric *)
      specialize (K eq_refl).
      destruct (tc_value t) as [i xs|rows|o xs| | | | | | | |num bd enc lv| |] eqn:Ev;
        try (unfold set_data_comp in H; rewrite Ek, Ev in H; discriminate H); try contradiction.
      + assert (Ei : i = true).
        { destruct i; [reflexivity|]. unfold set_data_comp in H. rewrite Ek, Ev in H. discriminate H. }
        subst i.
        assert (E1 : set_data_comp t spans n = cat_body t spans true None (int_labels xs)).
        { unfold set_data_comp, cat_body. rewrite Ek, Ev. reflexivity. }
        rewrite E1 in H. cbn [levels_kept] in K.
        apply cat_body_reselect in H; [|intros _; exact K].
        rewrite <- H. unfold set_data_comp, cat_body.
        cbn [tcomp_sel tc_kind tc_value tc_response tc_reference tc_name].
        rewrite Ek, Ev. cbn [val_sel categoric_data bind fst snd]. unfold int_labels, sel, sel_mask.
        rewrite select_map. reflexivity.
      + cbn [good] in G. destruct G as [-> L0].
        assert (E1 : set_data_comp t spans n = cat_body t spans false None xs).
        { unfold set_data_comp, cat_body. rewrite Ek, Ev. reflexivity. }
        rewrite E1 in H. cbn [levels_kept] in K.
        apply cat_body_reselect in H; [|intros _; exact K].
        rewrite <- H. unfold set_data_comp, cat_body.
        cbn [tcomp_sel tc_kind tc_value tc_response tc_reference tc_name].
        rewrite Ek, Ev. reflexivity.
      + cbn [good] in G. destruct G as (-> & L0 & _). cbn [levels_kept] in K.
        unfold set_data_comp in *. cbn [tcomp_sel tc_kind tc_value tc_name]. rewrite Ek, Ev in *.
        cbn [val_sel]. change (sel (option string) bd) with (select keep bd). rewrite K.
        match type of H with (if ?c then _ else _) = _ => destruct c; [discriminate H|] end.
        apply bind_ok in H as (cm & Hcode & H). rewrite Hcode. cbn [bind].
        injection H as <-. unfold dcomp_sel.
        cbn [dc_t dc_levels dc_contrast dc_rows dc_labels dc_spans].
        rewrite <- (code_rows_sel sel Hmap). reflexivity.
    - (* offset *)
      unfold set_data_comp in *. cbn [tcomp_sel tc_kind tc_value tc_response tc_name]. rewrite Ek in *.
      destruct (tc_response t); [discriminate H|].
      destruct (tc_value t) as [| | | | | | | | | | |co xs|] eqn:Ev; try discriminate H.
      cbn [val_sel]. destruct co as [q0|]; injection H as <-; unfold dcomp_sel;
        cbn [dc_t dc_levels dc_contrast dc_rows dc_labels dc_spans].
      * rewrite (sel_repeat sel Hmap). reflexivity.
      * rewrite Hmap. reflexivity.
    - (* proportion *)
      unfold set_data_comp in H. rewrite Ek in H.
      destruct (negb (tc_response t)); [discriminate H|].
      destruct (tc_value t); try discriminate H. exfalso. exact G.
  Qed.


  (** ** terms *)

  Definition kept_comp (c : tcomp) : Prop := tc_kind c = KCategoric -> levels_kept (tc_value c).
  Definition gk_comp (c : tcomp) : Prop := good n (tc_value c) /\ kept_comp c.
  Definition gk_term (tt : tterm) : Prop :=
    match tt with TTIntercept => True | TTTerm _ cs => Forall gk_comp cs end.

  Lemma gk_good tt : gk_term tt -> good_term n tt.
  Proof.
    destruct tt as [|nm cs]; simpl; [auto|]. intros H. eapply Forall_impl; [|exact H].
    intros c [G _]. exact G.
  Qed.

  (** A source component of the covered class: pointwise, and -- when it is used as a categorical
      component ([forced]: as a grouping factor, whatever its kind) -- its levels are kept. *)
  Definition comp_fine (r forced : bool) (c : comp) : Prop :=
    comp_pointwise c /\
    forall t, set_type_comp cx D r c = Ok t -> forced = true \/ tc_kind t = KCategoric ->
              levels_kept (tc_value t).

  Lemma set_type_comps_reselect r t : forall cs,
    Forall (comp_fine r false) t -> mapM (set_type_comp cx D r) t = Ok cs ->
    mapM (set_type_comp cx (frame_sel sel D) r) t = Ok (map tsel cs) /\ Forall gk_comp cs.
  Proof.
    intros cs Hs H.
    apply (mapM_transport (set_type_comp cx D r) (set_type_comp cx (frame_sel sel D) r) tsel gk_comp t cs);
      [|exact H].
    intros c tc Hin Hc. rewrite Forall_forall in Hs. destruct (Hs c Hin) as [Hp Hk]. split.
    - apply set_type_comp_reselect; assumption.
    - split; [eapply set_type_comp_good'; eauto|]. intros E. apply (Hk tc Hc). right. exact E.
  Qed.

  Lemma set_type_term_reselect r t tt :
    Forall (comp_fine r false) t -> set_type_term cx D r t = Ok tt ->
    set_type_term cx (frame_sel sel D) r t = Ok (tterm_sel sel tt) /\ gk_term tt.
  Proof.
    intros Hs H. unfold set_type_term in *. apply bind_ok in H as (cs & Hcs & H). injection H as <-.
    destruct (set_type_comps_reselect r t cs Hs Hcs) as [Hm Hg]. rewrite Hm. split; [reflexivity|exact Hg].
  Qed.

  Lemma type_common_reselect c tt :
    (forall t, c = CT t -> Forall (comp_fine false false) t) ->
    type_common cx D c = Ok tt ->
    type_common cx (frame_sel sel D) c = Ok (tterm_sel sel tt) /\ gk_term tt.
  Proof.
    intros Hs H. destruct c as [| |t]; simpl in *.
    - injection H as <-. split; [reflexivity|exact I].
    - discriminate H.
    - apply set_type_term_reselect; [apply Hs; reflexivity|exact H].
  Qed.

  Lemma add_extra_terms_gk cx1 d1 enc ts : forall ts',
    Forall gk_term ts -> add_extra_terms cx1 d1 enc ts = Ok ts' -> Forall gk_term ts'.
  Proof.
    induction ts as [|t ts IH]; intros ts' Ht H; cbn [add_extra_terms] in H.
    - injection H as <-. constructor.
    - pose proof (Forall_inv Ht) as Ht0. pose proof (Forall_inv_tail Ht) as Hts.
      apply bind_ok in H as (r' & Hr & H). specialize (IH r' Hts Hr).
      assert (Hplain : Forall gk_term (t :: r')) by (constructor; assumption).
      destruct (dict_get (tterm_name t) enc) as [[|s1 [|s2 more]]|]; try (injection H as <-; exact Hplain).
      apply bind_ok in H as (ex' & Hex & H). injection H as <-.
      apply Forall_app. split; [|exact Hplain].
      apply mapM_ok in Hex. clear -Hex Ht0.
      induction Hex as [|sub e subs es He _ IHe]; constructor; [|assumption].
      destruct t as [|nm cs]; simpl in He; [discriminate|]. injection He as <-. simpl.
      apply Forall_app. split; apply Forall_filter; exact Ht0.
  Qed.

  Lemma set_data_term_reselect tt s dt :
    gk_term tt -> set_data_term n tt s = Ok dt ->
    set_data_term (seln sel n) (tterm_sel sel tt) s = Ok (dterm_sel sel dt).
  Proof.
    intros Hg H. destruct tt as [|name cs].
    - simpl in *. injection H as <-. unfold dterm_sel. cbn [dt_name dt_kind dt_comps dt_rows dt_labels map].
      rewrite (sel_repeat sel Hmap). reflexivity.
    - unfold set_data_term in *. cbn [tterm_sel]. apply bind_ok in H as (ds & Hds & H).
      rewrite mapM_map. cbn [tcomp_sel tc_name].
      destruct (mapM_transport (fun c => set_data_comp c (spans_for s (tc_name c)) n)
                               (fun c => set_data_comp (tsel c) (spans_for s (tc_name c)) (seln sel n))
                               dsel (fun d => List.length (dc_rows d) = n) cs ds) as [Hm Hl];
        [|exact Hds|].
      { intros c d Hin Hc. simpl in Hg. rewrite Forall_forall in Hg. destruct (Hg c Hin) as [G K]. split.
        - apply set_data_comp_reselect; assumption.
        - eapply (set_data_comp_length n sq); eauto. }
      rewrite Hm. cbn [bind].
      destruct ds as [|d0 [|d1 rest]]; [discriminate H| |].
      + injection H as <-. reflexivity.
      + apply bind_ok in H as (labs & Hlabs & H). destruct (existsb _ labs) eqn:Hnil; [discriminate|]. injection H as <-.
        cbn [map]. rewrite <- (map_cons dsel d0 (d1 :: rest)) at 1.
        change (dsel d0 :: dsel d1 :: map dsel rest) with (map dsel (d0 :: d1 :: rest)).
        rewrite mapM_map. cbn [dcomp_sel dc_labels]. rewrite Hlabs. cbn [bind]. rewrite Hnil.
        unfold dterm_sel. cbn [dt_name dt_kind dt_comps dt_rows dt_labels map dc_rows].
        f_equal. f_equal.
        pose proof (Forall_inv Hl) as L0. pose proof (Forall_inv_tail Hl) as Lr. cbv beta in L0.
        pose proof (Forall_inv Lr) as L1. pose proof (Forall_inv_tail Lr) as Lr'. cbv beta in L1.
        cbn [fold_left dcomp_sel dc_rows]. rewrite (rows_kron_sel sel Hmap Hcomb) by congruence.
        destruct (fold_rows_kron_sel sel Hmap Hcomb [] n Hnb (map dc_rows rest) (rows_kron (dc_rows d0) (dc_rows d1)))
          as [Hf _].
        { rewrite rows_kron_length. lia. }
        { apply Forall_map. exact Lr'. }
        rewrite <- Hf. rewrite !map_map. reflexivity.
  Qed.

  (** ** group-specific terms *)

  Definition gk_gterm (tg : tgterm) : Prop := gk_term (tg_expr tg) /\ Forall gk_comp (tg_factor tg).

  Definition g_fine (g : gterm) : Prop :=
    (forall t, gexpr g = CT t -> Forall (comp_fine false false) t) /\
    (forall f, gfactor g = CT f -> Forall (comp_fine false true) f).

  Lemma set_type_gterm_reselect g tg :
    g_fine g -> set_type_gterm cx D g = Ok tg ->
    set_type_gterm cx (frame_sel sel D) g = Ok (tgterm_sel sel tg) /\ gk_gterm tg.
  Proof.
    intros [Hse Hsf] H. unfold set_type_gterm in *.
    destruct (gfactor g) as [| |f] eqn:Ef; try discriminate H.
    apply bind_ok in H as (fs & Hfs & H). apply bind_ok in H as (e & He & H).
    apply bind_ok in H as (nm & Hnm & H). injection H as <-.
    specialize (Hsf f eq_refl).
    destruct (mapM_transport (set_type_comp cx D false) (set_type_comp cx (frame_sel sel D) false) tsel
                             (fun c => gk_comp (force_categoric c)) f fs) as [Hfs' Gfs]; [|exact Hfs|].
    { intros c tc Hin Hc. rewrite Forall_forall in Hsf. destruct (Hsf c Hin) as [Hp Hk]. split.
      - apply set_type_comp_reselect; assumption.
      - split; [cbn [force_categoric tc_value]; eapply set_type_comp_good'; eauto|].
        intros _. cbn [force_categoric tc_value]. apply (Hk tc Hc). left. reflexivity. }
    rewrite Hfs'. cbn [bind].
    assert (He' : match gexpr g with
                  | CI => Ok TTIntercept
                  | CT t => set_type_term cx (frame_sel sel D) false t
                  | CN => Err EValue end = Ok (tterm_sel sel e) /\ gk_term e).
    { destruct (gexpr g) as [| |t] eqn:Eg; try discriminate He.
      - injection He as <-. split; [reflexivity|exact I].
      - apply set_type_term_reselect; [apply Hse; reflexivity|exact He]. }
    destruct He' as [He' Ge]. rewrite He'. cbn [bind]. rewrite Hnm. cbn [bind].
    split.
    - unfold tgterm_sel. cbn [tg_name tg_expr tg_factor tg_factor_name]. f_equal. f_equal.
      rewrite !map_map. apply map_ext. intros c. reflexivity.
    - split; [exact Ge|]. cbn [tg_factor]. apply Forall_map. exact Gfs.
  Qed.

  Lemma set_data_gterm_reselect tg spans dg :
    gk_gterm tg -> set_data_gterm n tg spans = Ok dg ->
    set_data_gterm (seln sel n) (tgterm_sel sel tg) spans = Ok (dgterm_sel sel dg).
  Proof.
    intros [Ge Gf] H. unfold set_data_gterm in *. cbn [tgterm_sel tg_expr tg_factor tg_name tg_factor_name].
    apply bind_ok in H as (e & He & H). apply bind_ok in H as (fs & Hfs & H).
    apply bind_ok in H as (glabs & Hgl & H). apply bind_ok in H as (flabs & Hfl & H).
    apply bind_ok in H as (levels & Hlev & H). injection H as <-.
    rewrite (set_data_term_reselect _ _ _ Ge He).
    cbn [bind]. rewrite mapM_map.
    destruct (mapM_transport (fun c => set_data_comp c true n)
                             (fun c => set_data_comp (tsel c) true (seln sel n))
                             dsel (fun d => List.length (dc_rows d) = n) (tg_factor tg) fs) as [Hfs' Lf];
      [|exact Hfs|].
    { intros c d Hin Hc. rewrite Forall_forall in Gf. destruct (Gf c Hin) as [G K]. split.
      - apply set_data_comp_reselect; assumption.
      - apply (set_data_comp_length n sq c true d G Hc). }
    rewrite Hfs'. cbn [bind]. rewrite !mapM_map. cbn [dcomp_sel dc_contrast dc_labels].
    rewrite Hgl, Hfl. cbn [bind]. cbn [dterm_sel dt_kind dt_labels]. rewrite Hlev. cbn [bind].
    unfold dgterm_sel. cbn [dg_name dg_kind dg_expr dg_factor dg_groups dg_rows dg_labels dg_factor_name dt_rows].
    f_equal. f_equal.
    destruct (factor_rows_sel sel Hmap Hcomb HIn [] n Hnb fs Lf) as [Hfr Hfl'].
    rewrite Hfr. destruct fs as [|d0 rest].
    - cbn [factor_rows]. rewrite (sel_nil sel HIn). unfold rows_kron. cbn.
      symmetry. apply (sel_nil sel HIn).
    - apply (rows_kron_sel sel Hmap Hcomb).
      rewrite (Hfl' ltac:(discriminate)). symmetry. apply (set_data_term_length n sq _ _ _ (gk_good _ Ge) He).
  Qed.

  (** ** the whole design *)

  (** Training on the selected rows gives the design trained on all rows with the rows of every
      matrix selected: same terms, kinds, labels, levels, contrasts, group labels. *)
  Theorem eval_model_reselect m ds :
    (forall t, In (CT t) (commons m) -> Forall (comp_fine false false) t) ->
    (forall t, resp m = Some t -> Forall (comp_fine true false) t) ->
    (forall g, In g (groups m) -> g_fine g) ->
    eval_model cx D m = Ok ds ->
    eval_model cx (frame_sel sel D) m = Ok (design_sel_groups sel n ds).
  Proof.
    intros Hcs Hrs Hgs H. unfold eval_model in *.
    rewrite (frame_rows_sel sel Hmap HIn), (D_rows : _ = _) in *.
    apply bind_ok in H as (tcs & Htcs & H). apply bind_ok in H as (tgs & Htgs & H).
    apply bind_ok in H as (enc1 & Henc1 & H).
    apply bind_ok in H as (tcs2 & Htcs2 & H). apply bind_ok in H as (enc2 & Henc2 & H).
    apply bind_ok in H as (dcs & Hdcs & H). apply bind_ok in H as (dgs & Hdgs & H).
    apply bind_ok in H as (r & Hr & H). injection H as <-.
    (* typing *)
    destruct (mapM_transport (type_common cx D) (type_common cx (frame_sel sel D))
                             (tterm_sel sel) gk_term (commons m) tcs) as [Htcs' Gtcs]; [|exact Htcs|].
    { intros c tt Hin Hc. apply type_common_reselect; [|exact Hc]. intros t ->. apply Hcs. exact Hin. }
    rewrite Htcs'. cbn [bind].
    destruct (mapM_transport (set_type_gterm cx D) (set_type_gterm cx (frame_sel sel D))
                             (tgterm_sel sel) gk_gterm (groups m) tgs) as [Htgs' Gtgs]; [|exact Htgs|].
    { intros g tg Hin Hg. apply set_type_gterm_reselect; [apply Hgs; exact Hin|exact Hg]. }
    rewrite Htgs'. cbn [bind].
    rewrite map_map. rewrite (map_ext _ term_kind_info (term_kind_info_sel sel)). rewrite Henc1. cbn [bind].
    rewrite (add_extra_terms_sel sel cx cx D (frame_sel sel D)), Htcs2. cbn [bind].
    rewrite map_map. rewrite (map_ext _ term_kind_info (term_kind_info_sel sel)). rewrite Henc2. cbn [bind].
    pose proof (add_extra_terms_gk _ _ _ _ _ Gtcs Htcs2) as Gtcs2.
    (* coding: common terms *)
    rewrite mapM_map.
    destruct (mapM_transport (fun t => do s <- common_spans enc2 t; set_data_term n t s)
                             (fun t => do s <- common_spans enc2 (tterm_sel sel t);
                                       set_data_term (seln sel n) (tterm_sel sel t) s)
                             (dterm_sel sel) (fun _ => True) tcs2 dcs) as [Hdcs' _]; [|exact Hdcs|].
    { intros tt dt Hin Hd. split; [|exact I]. rewrite common_spans_sel.
      apply bind_ok in Hd as (s & Hs & Hd). rewrite Hs. cbn [bind].
      apply set_data_term_reselect; [|exact Hd].
      rewrite Forall_forall in Gtcs2. apply Gtcs2. exact Hin. }
    rewrite Hdcs'. cbn [bind].
    (* coding: group-specific terms *)
    rewrite combine_map_l, mapM_map. cbn [fst snd].
    destruct (mapM_transport (fun p : tgterm * gterm => set_data_gterm n (fst p) (group_spans (groups m) (snd p)))
                             (fun p : tgterm * gterm =>
                                set_data_gterm (seln sel n) (tgterm_sel sel (fst p)) (group_spans (groups m) (snd p)))
                             (dgterm_sel sel) (fun _ => True) (combine tgs (groups m)) dgs) as [Hdgs' _];
      [|exact Hdgs|].
    { intros [tg g] dg Hin Hd. split; [|exact I]. cbn [fst snd] in *.
      apply set_data_gterm_reselect; [|exact Hd]. apply in_combine_l in Hin.
      rewrite Forall_forall in Gtgs. apply Gtgs. exact Hin. }
    rewrite Hdgs'. cbn [bind].
    (* response *)
    assert (Hr' : match resp m with
                  | None => Ok None
                  | Some t => do ty <- set_type_term cx (frame_sel sel D) true t;
                              do d <- set_data_term (seln sel n) ty (SpBool true); Ok (Some d)
                  end = Ok (option_map (dterm_sel sel) r)).
    { destruct (resp m) as [t|] eqn:Er.
      - apply bind_ok in Hr as (ty & Hty & Hr). apply bind_ok in Hr as (d & Hd & Hr). injection Hr as <-.
        destruct (set_type_term_reselect true t ty (Hrs t eq_refl) Hty) as [Hty' Gty].
        rewrite Hty'. cbn [bind].
        rewrite (set_data_term_reselect ty (SpBool true) d Gty Hd).
        reflexivity.
      - injection Hr as <-. reflexivity. }
    rewrite Hr'. cbn [bind]. unfold design_sel_groups. cbn [ds_nrows ds_response ds_common ds_group].
    f_equal. f_equal.
    - pose proof (fold_dict_set_map_gen dt_name (dterm_sel sel) dcs (fun t => eq_refl) []) as F. cbn [map] in F.
      rewrite F, !map_map. reflexivity.
    - pose proof (fold_dict_set_map_gen dg_name (dgterm_sel sel) dgs (fun t => eq_refl) []) as F. cbn [map] in F.
      rewrite F, !map_map. reflexivity.
  Qed.

End Reselect.

(* ------------------------------------------------------------------------------------------ *)
(** * C. "pass" versus "drop" on [design_matrices] *)

(** The class of models: every component is a plain variable or a pointwise call, and the levels
    of every categorical component (and of every grouping factor) all occur on the kept rows. *)
Definition model_fine (keep : list bool) (D : frame) (cx : dctx) (m : model) : Prop :=
  (forall t, In (CT t) (commons m) -> Forall (comp_fine keep D (d_extra cx) (d_sqrt cx) false false) t) /\
  (forall t, resp m = Some t -> Forall (comp_fine keep D (d_extra cx) (d_sqrt cx) true false) t) /\
  (forall g, In g (groups m) -> g_fine keep D (d_extra cx) (d_sqrt cx) g).

(* the design restricted to the kept rows: nothing else changes *)
Definition design_select (keep : list bool) (ds : design) : design :=
  design_sel_groups (sel_mask keep) (List.length keep) ds.

(** 1. "pass" keeps every row, in order: [FrameStructure.pass_keeps_rows] ([prepare_data] returns
    the used columns unchanged); on the design: *)
Theorem pass_row_count cx e D m ds :
  describe e = Ok m -> frame_wf D -> scalar_extras cx ->
  design_matrices cx e D NaPass = Ok ds ->
  ds_nrows ds = frame_rows D /\ design_shape ds.
Proof.
  intros Hd Hwf Hex H.
  destruct (design_matrices_shape cx e D NaPass m ds Hd Hwf) as [N S]; try assumption.
  - apply scalar_extras_shape. exact Hex.
  - eapply describe_groups_nonempty. exact Hd.
  - split; [exact N|exact S].
Qed.

(** 2. The design under "drop" is the design under "pass" with the incomplete rows removed from
    every matrix; names, kinds, labels, levels, contrasts and group labels are the same. *)
Theorem pass_drop_design cx e D m ds :
  describe e = Ok m -> frame_wf D -> frame_rows D <> 0 -> used_cols D m <> [] ->
  frame_unordered D -> scalar_extras cx ->
  count_true (complete_mask D m) <> 0 ->
  model_fine (complete_mask D m) D cx m ->
  design_matrices cx e D NaPass = Ok ds ->
  design_matrices cx e D NaDrop = Ok (design_select (complete_mask D m) ds).
Proof.
  intros Hd Hwf Hn Hu Hun Hex Hc (Hcs & Hrs & Hgs) H.
  destruct (design_matrices_eval_model cx e D m Hd Hwf Hn Hu) as [Hp Hdrop].
  rewrite (Hp NaPass (or_introl eq_refl)) in H. rewrite (Hdrop Hc).
  pose proof (complete_mask_length D m Hwf) as Hl.
  destruct cx as [ex sq]. cbn [d_extra d_sqrt] in *. unfold design_select. rewrite Hl.
  apply (eval_model_reselect (complete_mask D m) (frame_rows D) Hl Hc D eq_refl Hwf Hun ex Hex sq m ds
                             Hcs Hrs Hgs H).
Qed.

(* what [design_select] leaves alone and what it selects *)
Lemma design_select_spec keep ds :
  let ds' := design_select keep ds in
  ds_nrows ds' = count_true keep /\
  map dt_name (ds_common ds') = map dt_name (ds_common ds) /\
  map dt_kind (ds_common ds') = map dt_kind (ds_common ds) /\
  map dt_labels (ds_common ds') = map dt_labels (ds_common ds) /\
  map (fun t => map dc_levels (dt_comps t)) (ds_common ds')
  = map (fun t => map dc_levels (dt_comps t)) (ds_common ds) /\
  map (fun t => map dc_contrast (dt_comps t)) (ds_common ds')
  = map (fun t => map dc_contrast (dt_comps t)) (ds_common ds) /\
  map dt_rows (ds_common ds') = map (select keep) (map dt_rows (ds_common ds)) /\
  map dg_name (ds_group ds') = map dg_name (ds_group ds) /\
  map dg_kind (ds_group ds') = map dg_kind (ds_group ds) /\
  map dg_groups (ds_group ds') = map dg_groups (ds_group ds) /\
  map dg_labels (ds_group ds') = map dg_labels (ds_group ds) /\
  map dg_factor_name (ds_group ds') = map dg_factor_name (ds_group ds) /\
  map (fun g => map dc_levels (dg_factor g)) (ds_group ds')
  = map (fun g => map dc_levels (dg_factor g)) (ds_group ds) /\
  map (fun g => map dc_contrast (dg_factor g)) (ds_group ds')
  = map (fun g => map dc_contrast (dg_factor g)) (ds_group ds) /\
  map dg_rows (ds_group ds') = map (select keep) (map dg_rows (ds_group ds)) /\
  option_map dt_labels (ds_response ds') = option_map dt_labels (ds_response ds) /\
  option_map dt_rows (ds_response ds') = option_map (select keep) (option_map dt_rows (ds_response ds)).
Proof.
  cbv zeta. unfold design_select, design_sel_groups. cbn [ds_nrows ds_common ds_group ds_response].
  rewrite !map_map. split; [apply seln_mask|].
  repeat split; try reflexivity;
    try (apply map_ext; intros g; cbn [dgterm_sel dterm_sel dg_factor dt_comps]; rewrite map_map; reflexivity);
    destruct (ds_response ds); reflexivity.
Qed.

(** Row numbers: the kept row i of a list is row [rank keep i] of its selection. *)
Definition rank (keep : list bool) (i : nat) : nat := count_true (firstn i keep).

Lemma select_nth_rank {T} keep : forall (l : list T) i d,
  nth i keep false = true -> i < List.length l ->
  nth (rank keep i) (select keep l) d = nth i l d.
Proof.
  unfold rank. induction keep as [|k keep IH]; intros l i d Hk Hi.
  - destruct i; discriminate Hk.
  - destruct l as [|x l]; [simpl in Hi; lia|]. destruct i as [|i].
    + simpl in Hk. subst k. reflexivity.
    + simpl in Hk, Hi. cbn [firstn]. destruct k; cbn [count_true select nth]; apply IH; [assumption|lia|assumption|lia].
Qed.

(* the order of the kept rows is preserved *)
Lemma rank_mono keep i j : i <= j -> rank keep i <= rank keep j.
Proof.
  unfold rank. revert i j. induction keep as [|k keep IH]; intros i j H.
  - destruct i, j; simpl; lia.
  - destruct i as [|i]; [simpl; lia|]. destruct j as [|j]; [lia|].
    cbn [firstn]. specialize (IH i j ltac:(lia)). destruct k; simpl; lia.
Qed.

Lemma rank_strict keep i j : i < j -> nth i keep false = true -> rank keep i < rank keep j.
Proof.
  unfold rank. revert i j. induction keep as [|k keep IH]; intros i j H Hk.
  - destruct i; discriminate Hk.
  - destruct j as [|j]; [lia|]. destruct i as [|i].
    + simpl in Hk. subst k. cbn [firstn count_true]. lia.
    + simpl in Hk. cbn [firstn]. specialize (IH i j ltac:(lia) Hk). destruct k; simpl; lia.
Qed.

(** 2, row by row: for every common term (position j) and every complete row i, row i of the
    term under "pass" is row [rank] of the same term under "drop". *)
Lemma design_select_common_row keep ds j t i :
  List.length keep = ds_nrows ds -> design_shape ds ->
  nth_error (ds_common ds) j = Some t -> nth i keep false = true -> i < ds_nrows ds ->
  exists t', nth_error (ds_common (design_select keep ds)) j = Some t' /\
             dt_name t' = dt_name t /\ dt_kind t' = dt_kind t /\ dt_labels t' = dt_labels t /\
             map dc_levels (dt_comps t') = map dc_levels (dt_comps t) /\
             map dc_contrast (dt_comps t') = map dc_contrast (dt_comps t) /\
             nth (rank keep i) (dt_rows t') [] = nth i (dt_rows t) [].
Proof.
  intros Hl Hs Hj Hk Hi. exists (dterm_sel (sel_mask keep) t).
  unfold design_select, design_sel_groups. cbn [ds_common].
  split; [apply map_nth_error; exact Hj|]. cbn [dterm_sel dt_name dt_kind dt_labels dt_comps dt_rows].
  rewrite !map_map. repeat split; try reflexivity.
  apply select_nth_rank; [exact Hk|].
  destruct (design_row_counts ds Hs) as (_ & Lc & _). rewrite Forall_forall in Lc.
  rewrite (Lc t (nth_error_In _ _ Hj)). exact Hi.
Qed.

Lemma design_select_group_row keep ds j g i :
  List.length keep = ds_nrows ds -> design_shape ds ->
  nth_error (ds_group ds) j = Some g -> nth i keep false = true -> i < ds_nrows ds ->
  exists g', nth_error (ds_group (design_select keep ds)) j = Some g' /\
             dg_name g' = dg_name g /\ dg_kind g' = dg_kind g /\ dg_labels g' = dg_labels g /\
             dg_groups g' = dg_groups g /\
             map dc_levels (dg_factor g') = map dc_levels (dg_factor g) /\
             map dc_contrast (dg_factor g') = map dc_contrast (dg_factor g) /\
             nth (rank keep i) (dg_rows g') [] = nth i (dg_rows g) [].
Proof.
  intros Hl Hs Hj Hk Hi. exists (dgterm_sel (sel_mask keep) g).
  unfold design_select, design_sel_groups. cbn [ds_group].
  split; [apply map_nth_error; exact Hj|].
  cbn [dgterm_sel dg_name dg_kind dg_labels dg_groups dg_factor dg_rows].
  rewrite !map_map. repeat split; try reflexivity.
  apply select_nth_rank; [exact Hk|].
  destruct (design_row_counts ds Hs) as (_ & _ & Lg & _). rewrite Forall_forall in Lg.
  rewrite (Lg g (nth_error_In _ _ Hj)). exact Hi.
Qed.

(** Statement 2 (and its part of 4) in full: under the hypotheses of [pass_drop_design], the
    design under "drop" exists, has one row per complete row, and for every complete row i of the
    data: every common term and every group-specific term has the same name, kind, labels, levels
    and contrasts under both policies, and its row i under "pass" is its row [rank i] under
    "drop". *)
Theorem pass_drop_rows cx e D m ds :
  describe e = Ok m -> frame_wf D -> frame_rows D <> 0 -> used_cols D m <> [] ->
  frame_unordered D -> scalar_extras cx ->
  count_true (complete_mask D m) <> 0 ->
  model_fine (complete_mask D m) D cx m ->
  design_matrices cx e D NaPass = Ok ds ->
  let keep := complete_mask D m in
  exists ds',
    design_matrices cx e D NaDrop = Ok ds' /\
    ds_nrows ds = frame_rows D /\ ds_nrows ds' = count_true keep /\
    List.length (ds_common ds') = List.length (ds_common ds) /\
    List.length (ds_group ds') = List.length (ds_group ds) /\
    forall i, i < frame_rows D -> nth i keep false = true ->
      (forall j t, nth_error (ds_common ds) j = Some t ->
         exists t', nth_error (ds_common ds') j = Some t' /\
                    dt_name t' = dt_name t /\ dt_kind t' = dt_kind t /\ dt_labels t' = dt_labels t /\
                    map dc_levels (dt_comps t') = map dc_levels (dt_comps t) /\
                    map dc_contrast (dt_comps t') = map dc_contrast (dt_comps t) /\
                    nth (rank keep i) (dt_rows t') [] = nth i (dt_rows t) []) /\
      (forall j g, nth_error (ds_group ds) j = Some g ->
         exists g', nth_error (ds_group ds') j = Some g' /\
                    dg_name g' = dg_name g /\ dg_kind g' = dg_kind g /\ dg_labels g' = dg_labels g /\
                    dg_groups g' = dg_groups g /\
                    map dc_levels (dg_factor g') = map dc_levels (dg_factor g) /\
                    map dc_contrast (dg_factor g') = map dc_contrast (dg_factor g) /\
                    nth (rank keep i) (dg_rows g') [] = nth i (dg_rows g) []).
Proof.
  intros Hd Hwf Hn Hu Hun Hex Hc Hfine H keep.
  exists (design_select keep ds).
  split; [apply pass_drop_design; assumption|].
  destruct (pass_row_count cx e D m ds Hd Hwf Hex H) as [N S].
  pose proof (complete_mask_length D m Hwf) as Hl. fold keep in Hl.
  split; [exact N|]. split; [apply (design_select_spec keep ds)|].
  split; [unfold design_select, design_sel_groups; cbn [ds_common]; apply map_length|].
  split; [unfold design_select, design_sel_groups; cbn [ds_group]; apply map_length|].
  intros i Hi Hk. split.
  - intros j t Hj. apply design_select_common_row; try assumption; congruence.
  - intros j g Hj. apply design_select_group_row; try assumption; congruence.
Qed.

(* ------------------------------------------------------------------------------------------ *)
(** * D. NaN rows under "pass" *)

(** The numeric column [name] of D has a missing value on row i. *)
Definition num_missing (D : frame) (name : string) (i : nat) : Prop :=
  exists b xs, assoc name D = Some (ColNum b xs) /\ nth_error xs i = Some None.

(** One of the variables [vars] is a numeric column of D that is missing on row i. *)
Definition reads_missing (D : frame) (vars : list string) (i : nat) : Prop :=
  exists name, In name vars /\ num_missing D name i.

Lemma reads_missing_app D a b i :
  reads_missing D (a ++ b) i <-> reads_missing D a i \/ reads_missing D b i.
Proof.
  unfold reads_missing. split.
  - intros (nm & Hin & H). apply in_app_or in Hin as [Hin|Hin]; [left|right]; eauto.
  - intros [(nm & Hin & H)|(nm & Hin & H)]; exists nm; (split; [apply in_or_app; auto|exact H]).
Qed.

Lemma reads_missing_nil D i : ~ reads_missing D [] i.
Proof. intros (nm & [] & _). Qed.

Lemma reads_missing_flat_map {A} D (f : A -> list string) l i :
  reads_missing D (flat_map f l) i <-> Exists (fun x => reads_missing D (f x) i) l.
Proof.
  induction l as [|x l IH]; simpl.
  - split; [intros H; destruct (reads_missing_nil D i H)|intros H; inversion H].
  - rewrite reads_missing_app, IH. split.
    + intros [H|H]; [left|right]; assumption.
    + intros H. inversion H; subst; auto.
Qed.

(** Pointwise arithmetic: variables, literals, unary and binary operators, I(...). *)
Fixpoint arith (l : lazy) : bool :=
  match l with
  | LzVar _ => true
  | LzVal _ _ => true
  | LzOp _ args => forallb arith args
  | LzCall c args kw =>
      String.eqb c "I" && match args with [a] => arith a | _ => false end &&
      match kw with [] => true | _ => false end
  end.

Lemma arith_pointwise l : arith l = true -> pointwise l = true.
Proof.
  unfold pointwise, rowwise_safe.
  induction l as [sym args IH|name|lit lx|c args kw IHa _] using lazy_ind'; intros H; try reflexivity.
  - simpl in *. induction IH as [|a args Ha _ IHr]; [reflexivity|]. simpl in *.
    apply andb_true_iff in H as [H1 H2]. specialize (Ha H1). specialize (IHr H2).
    apply andb_true_iff in Ha as [Ha1 Ha2]. apply andb_true_iff in IHr as [Hr1 Hr2].
    rewrite Ha1, Ha2, Hr1, Hr2. reflexivity.
  - cbn [arith] in H. apply andb_true_iff in H as [H Hk]. apply andb_true_iff in H as [Hc Ha].
    apply String.eqb_eq in Hc. subst c. destruct kw; [|discriminate Hk].
    destruct args as [|a [|b r]]; try discriminate Ha.
    pose proof (Forall_inv IHa Ha) as Hp. apply andb_true_iff in Hp as [Hp1 Hp2].
    simpl. rewrite Hp1, Hp2. reflexivity.
Qed.

Lemma num_binop_nan sym ia ib a b r :
  num_binop sym ia ib a b = Ok r -> (snd r = None <-> a = None \/ b = None).
Proof.
  unfold num_binop.
  destruct (String.eqb sym "+");
    [intros H; injection H as <-; cbn [snd]; destruct a, b; simpl; intuition congruence|].
  destruct (String.eqb sym "-");
    [intros H; injection H as <-; cbn [snd]; destruct a, b; simpl; intuition congruence|].
  destruct (String.eqb sym "*");
    [intros H; injection H as <-; cbn [snd]; destruct a, b; simpl; intuition congruence|].
  destruct (String.eqb sym "/").
  { destruct a as [x|], b as [y|]; cbn [cdiv bind];
      try (intros H; injection H as <-; cbn [snd]; intuition congruence).
    destruct (Qc_eq_bool y q0); [discriminate|]. cbn [bind]. intros H; injection H as <-.
    cbn [snd]. intuition congruence. }
  destruct (String.eqb sym "**"); [|discriminate].
  destruct b as [e|]; [|discriminate]. destruct (_ && _ && _); [|discriminate].
  intros H; injection H as <-. cbn [snd]. destruct a; intuition congruence.
Qed.

Lemma mapM_nth_error {A B} (f : A -> res B) l r i x :
  mapM f l = Ok r -> nth_error l i = Some x -> exists y, nth_error r i = Some y /\ f x = Ok y.
Proof.
  intros H. apply mapM_ok in H. revert i.
  induction H as [|a b l r Hab _ IH]; intros [|i] Hx; simpl in *; try discriminate.
  - injection Hx as <-. eauto.
  - apply IH. exact Hx.
Qed.

Lemma mapM_cells_nan {A} (f : A -> res cell) (g : A -> Prop) l r i x :
  mapM f l = Ok r -> (forall a y, f a = Ok y -> (y = None <-> g a)) ->
  nth_error l i = Some x -> (nth_error r i = Some None <-> g x).
Proof.
  intros H Hf Hx. destruct (mapM_nth_error f l r i x H Hx) as (y & Hy & Hfy).
  rewrite Hy, <- (Hf x y Hfy). split; [intros E; injection E as ->; reflexivity|intros ->; reflexivity].
Qed.

Lemma nth_error_lt {T} (l : list T) i : i < List.length l -> exists x, nth_error l i = Some x.
Proof.
  intros H. destruct (nth_error l i) as [x|] eqn:E; [eauto|]. apply nth_error_None in E. lia.
Qed.

Lemma nth_error_map_nan (f : cell -> cell) xs : forall i,
  (forall c, f c = None <-> c = None) ->
  (nth_error (map f xs) i = Some None <-> nth_error xs i = Some None).
Proof.
  induction xs as [|x xs IH]; intros [|i] Hf; simpl; try tauto.
  - split; intros E; injection E as E; f_equal; apply Hf; exact E.
  - apply IH. exact Hf.
Qed.

Section Nan.
  Variable D : frame.
  Variable n : nat.
  Hypothesis D_rect : rect n D.
  Variable ex : list (string * pyval).
  Hypothesis ex_scalar : forall k v, assoc k ex = Some v -> is_scalar v = true.
  Variable sq : Qc -> Qc.
  Variable i : nat.
  Hypothesis i_lt : i < n.

  Let cx : dctx := DCtx ex sq.

  (** ** call trees *)

  (** What a pointwise arithmetic call evaluates to: a series is NaN on row i exactly when the
      call reads a numeric column that is missing on row i. *)
  Definition nan_inv (vars : list string) (v : pyval) : Prop :=
    match v with
    | PSeries _ xs => List.length xs = n /\ (nth_error xs i = Some None <-> reads_missing D vars i)
    | PStrs _ _ => ~ reads_missing D vars i
    | PNumber _ _ => ~ reads_missing D vars i
    | PMatrix _ | PBox _ _ _ _ | POffset _ _ | PProp _ _ _ => False
    | _ => True
    end.

  Lemma nan_inv_ext vars vars' v :
    (reads_missing D vars i <-> reads_missing D vars' i) -> nan_inv vars v -> nan_inv vars' v.
  Proof. intros E. destruct v; simpl; rewrite ?E; auto. Qed.

  Lemma lookup_nan fit name v :
    lookup_name (ECtx D ex sq fit) name = Ok v -> nan_inv [name] v.
  Proof.
    unfold lookup_name. cbn [e_data e_extra].
    destruct (assoc name D) as [c|] eqn:E.
    - intros H. injection H as <-. pose proof (assoc_In _ _ _ E) as Hin.
      unfold rect in D_rect. rewrite Forall_forall in D_rect. specialize (D_rect _ Hin). cbn [snd] in D_rect.
      destruct c as [b xs|o xs]; cbn [col_value nan_inv col_len] in *.
      + split; [exact D_rect|]. split.
        * intros Hx. exists name. split; [left; reflexivity|]. exists b, xs. auto.
        * intros (nm & [<-|[]] & b' & xs' & Ea & Hx). rewrite E in Ea. injection Ea as <- <-. exact Hx.
      + intros (nm & [<-|[]] & b' & xs' & Ea & _). rewrite E in Ea. discriminate Ea.
    - assert (Hno : ~ reads_missing D [name] i).
      { intros (nm & [<-|[]] & b' & xs' & Ea & _). rewrite E in Ea. discriminate Ea. }
      unfold builtin_value.
      destruct (String.eqb name "Treatment"); [intros H; injection H as <-; exact I|].
      destruct (String.eqb name "Sum"); [intros H; injection H as <-; exact I|].
      destruct (_ || _); [discriminate|].
      destruct (assoc name ex) as [w|] eqn:Ew; [|discriminate].
      intros H. injection H as <-. pose proof (ex_scalar _ _ Ew) as Hs.
      destruct w; try discriminate Hs; simpl; auto.
  Qed.

  Theorem arith_nan l :
    arith l = true ->
    forall fit st v st1 rec,
      eval_lazy (ECtx D ex sq fit) st l = Ok (v, st1, rec) -> nan_inv (lazy_reads l) v.
  Proof.
    induction l as [sym args IH|name|lit lx|c args kw IHa _] using lazy_ind'; intros Ha fit st v st1 rec H.
    - simpl in Ha. destruct args as [|a [|b [|c r]]]; try discriminate H.
      + pose proof (Forall_inv IH) as Hia. cbv beta in Hia. simpl in Ha. rewrite andb_true_r in Ha.
        cbn [eval_lazy] in H. apply bind_ok in H as ([[va sta] reca] & Hx & H).
        apply bind_ok in H as (w & Hw & H). cbn [fst snd] in *. injection H as <- <- <-.
        specialize (Hia Ha _ _ _ _ _ Hx).
        cbn [lazy_reads flat_map]. apply (nan_inv_ext (lazy_reads a)); [rewrite app_nil_r; reflexivity|].
        unfold apply_unop in Hw. destruct (String.eqb sym "+").
        * destruct va; try discriminate Hw; injection Hw as <-; exact Hia.
        * destruct (String.eqb sym "-"); [|discriminate Hw].
          destruct va as [b xs| | |b q| | | | | | | | |]; try discriminate Hw; injection Hw as <-;
            cbn [nan_inv] in *; [|exact Hia].
          destruct Hia as [L Hi]. rewrite map_length. split; [exact L|]. rewrite <- Hi.
          apply nth_error_map_nan. intros [q|]; split; congruence.
      + pose proof (Forall_inv IH) as Hia. pose proof (Forall_inv (Forall_inv_tail IH)) as Hib. cbv beta in Hia, Hib.
        simpl in Ha. rewrite andb_true_r in Ha. apply andb_true_iff in Ha as [Ha Hb].
        cbn [eval_lazy] in H. apply bind_ok in H as ([[va sta] reca] & Hx & H).
        apply bind_ok in H as ([[vb stb] recb] & Hy & H).
        apply bind_ok in H as (w & Hw & H). cbn [fst snd] in *. injection H as <- <- <-.
        specialize (Hia Ha _ _ _ _ _ Hx). specialize (Hib Hb _ _ _ _ _ Hy).
        cbn [lazy_reads flat_map]. rewrite app_nil_r.
        destruct va as [ia xs| | |ia x| | | | | | | | |]; try discriminate Hw;
          destruct vb as [ib ys| | |ib y| | | | | | | | |]; try discriminate Hw;
          cbn [apply_binop nan_inv] in *.
        * apply bind_ok in Hw as (l & Hl & Hw). apply bind_ok in Hw as (t & Ht & Hw). injection Hw as <-.
          destruct Hia as [La Hia]. destruct Hib as [Lb Hib]. cbn [nan_inv].
          split; [rewrite (mapM_length _ _ _ Hl), combine_length; lia|].
          destruct (nth_error_lt xs i ltac:(lia)) as (x & Ex). destruct (nth_error_lt ys i ltac:(lia)) as (y & Ey).
          assert (Ec : nth_error (combine xs ys) i = Some (x, y)) by (rewrite nth_error_combine, Ex, Ey; reflexivity).
          rewrite (mapM_cells_nan _ (fun p => fst p = None \/ snd p = None) _ _ _ _ Hl) by
            (try exact Ec; intros p c Hc; apply bind_ok in Hc as (r & Hr & Hc); injection Hc as <-;
             apply (num_binop_nan _ _ _ _ _ _ Hr)).
          cbn [fst snd]. rewrite reads_missing_app, <- Hia, <- Hib, Ex, Ey.
          split; [intros [->| ->]; [left|right]; reflexivity|intros [E|E]; injection E as ->; [left|right]; reflexivity].
        * apply bind_ok in Hw as (l & Hl & Hw). apply bind_ok in Hw as (t & Ht & Hw). injection Hw as <-.
          destruct Hia as [La Hia]. cbn [nan_inv].
          split; [rewrite (mapM_length _ _ _ Hl); exact La|].
          destruct (nth_error_lt xs i ltac:(lia)) as (x & Ex).
          rewrite (mapM_cells_nan _ (fun a => a = None) _ _ _ _ Hl) by
            (try exact Ex; intros p c Hc; apply bind_ok in Hc as (r & Hr & Hc); injection Hc as <-;
             rewrite (num_binop_nan _ _ _ _ _ _ Hr); intuition congruence).
          rewrite reads_missing_app, <- Hia, Ex. split; [intros ->; left; reflexivity|].
          intros [E|E]; [congruence|contradiction].
        * apply bind_ok in Hw as (l & Hl & Hw). apply bind_ok in Hw as (t & Ht & Hw). injection Hw as <-.
          destruct Hib as [Lb Hib]. cbn [nan_inv].
          split; [rewrite (mapM_length _ _ _ Hl); exact Lb|].
          destruct (nth_error_lt ys i ltac:(lia)) as (y & Ey).
          rewrite (mapM_cells_nan _ (fun a => a = None) _ _ _ _ Hl) by
            (try exact Ey; intros p c Hc; apply bind_ok in Hc as (r & Hr & Hc); injection Hc as <-;
             rewrite (num_binop_nan _ _ _ _ _ _ Hr); intuition congruence).
          rewrite reads_missing_app, <- Hib, Ey. split; [intros ->; right; reflexivity|].
          intros [E|E]; [contradiction|congruence].
        * apply bind_ok in Hw as (r & Hr & Hw). destruct (snd r); [|discriminate Hw]. injection Hw as <-.
          cbn [nan_inv]. rewrite reads_missing_app. tauto.
    - cbn [eval_lazy] in H. apply bind_ok in H as (w & Hw & H). injection H as <- <- <-.
      apply (lookup_nan _ _ _ Hw).
    - cbn [eval_lazy] in H. injection H as <- <- <-. cbn [lazy_reads].
      destruct lit; simpl; try exact I; apply reads_missing_nil.
    - cbn [arith] in Ha. apply andb_true_iff in Ha as [Ha Hk]. apply andb_true_iff in Ha as [Hc Ha].
      apply String.eqb_eq in Hc. subst c. destruct kw; [|discriminate Hk].
      destruct args as [|a [|b r]]; try discriminate Ha.
      pose proof (Forall_inv IHa) as Hia. cbv beta in Hia.
      rewrite eval_lazy_call in H. change (negb (known_callee "I")) with false in H. cbv iota in H.
      cbn [eval_args] in H. apply bind_ok in H as ([[pos sta] reca] & Hra & H).
      apply bind_ok in Hra as ([[va sta'] reca'] & Hx & Hra). cbn [fst snd app] in Hra. injection Hra as <- <- <-.
      cbn [eval_kwargs bind fst snd] in H.
      change (existsb (String.eqb "I") stateful_names) with false in H. cbv iota in H.
      apply bind_ok in H as (w & Hw & H). injection H as <- <- <-.
      specialize (Hia Ha _ _ _ _ _ Hx).
      assert (Ew : w = va) by (vm_compute in Hw; injection Hw as <-; reflexivity).
      subst w. cbn [lazy_reads flat_map]. rewrite !app_nil_r. exact Hia.
  Qed.

  (** ** components *)

  (* the typed component is numeric and NaN on row i *)
  Definition comp_nan_at (t : tcomp) : Prop :=
    tc_kind t = KNumeric /\ exists b xs, tc_value t = PSeries b xs /\ nth_error xs i = Some None.

  (* a categorical component, or a numeric one with one column *)
  Definition simple_comp (t : tcomp) : Prop :=
    tc_kind t = KCategoric \/
    (tc_kind t = KNumeric /\ exists b xs, tc_value t = PSeries b xs /\ List.length xs = n).

  (* the component is NaN on row i exactly when its source reads a numeric column missing on row i *)
  Definition nan_exact (t : tcomp) : Prop :=
    simple_comp t /\ (comp_nan_at t <-> reads_missing D (comp_reads (tc_src t)) i).

  (** The source components covered: a plain variable; a pointwise arithmetic call; any call that
      yields a categorical component and reads no numeric column missing on row i (C, S, T of
      complete categorical columns). *)
  Definition nan_comp (r : bool) (c : comp) : Prop :=
    match c with
    | CVar _ _ => True
    | CCall lz =>
        arith lz = true \/
        (~ reads_missing D (lazy_reads lz) i /\
         forall t, set_type_comp cx D r c = Ok t -> tc_kind t = KCategoric)
    end.

  Lemma set_type_comp_src cx0 r c t : set_type_comp cx0 D r c = Ok t -> tc_src t = c.
  Proof.
    destruct c as [[name|lit] lvl|lz]; simpl.
    - destruct (assoc name D); [|discriminate]. intros H; injection H as <-; reflexivity.
    - discriminate.
    - intros H. apply bind_ok in H as (r0 & _ & H). apply bind_ok in H as (k & _ & H).
      injection H as <-. reflexivity.
  Qed.

  Theorem nan_exact_typed r c t :
    nan_comp r c -> set_type_comp cx D r c = Ok t -> nan_exact t.
  Proof.
    intros Hc H. pose proof (set_type_comp_src _ _ _ _ H) as Hsrc. unfold nan_exact. rewrite Hsrc.
    destruct c as [[name|lit] lvl|lz]; simpl in H.
    - destruct (assoc name D) as [col|] eqn:E; [|discriminate H]. injection H as <-.
      pose proof (lookup_nan true name (col_value col)) as Hl.
      unfold lookup_name in Hl. cbn [e_data] in Hl. rewrite E in Hl. specialize (Hl eq_refl).
      unfold simple_comp, comp_nan_at. cbn [tc_kind tc_value comp_reads].
      destruct col as [b xs|o xs]; cbn [col_value nan_inv] in *.
      + destruct Hl as [L Hi]. split; [right; split; [reflexivity|]; exists b, xs; auto|].
        rewrite <- Hi. split; [intros (_ & b' & xs' & E' & Hx); injection E' as <- <-; exact Hx|].
        intros Hx. split; [reflexivity|]. exists b, xs. auto.
      + split; [left; reflexivity|]. split; [intros [E' _]; discriminate E'|intros Hr; contradiction].
    - discriminate H.
    - apply bind_ok in H as ([[v st1] rec] & Hev & H). cbn [fst snd] in H.
      cbn [comp_reads]. destruct Hc as [Ha|[Hno Hk]].
      + pose proof (arith_nan lz Ha _ _ _ _ _ Hev) as Hi.
        unfold simple_comp, comp_nan_at.
        destruct v; cbn [bind nan_inv] in *; try discriminate H; try contradiction; injection H as <-;
          cbn [tc_kind tc_value].
        * destruct Hi as [L Hi]. split; [right; split; [reflexivity|]; eauto|].
          rewrite <- Hi. split; [intros (_ & b' & xs' & E' & Hx); injection E' as <- <-; exact Hx|].
          intros Hx. split; [reflexivity|]. eauto.
        * split; [left; reflexivity|]. split; [intros [E' _]; discriminate E'|intros Hr; contradiction].
      + assert (Hkind : tc_kind t = KCategoric).
        { apply Hk. simpl. rewrite Hev. cbn [bind fst snd]. exact H. }
        unfold simple_comp, comp_nan_at. split; [left; exact Hkind|].
        split; [intros [E' _]; congruence|intros Hr; contradiction].
  Qed.

  (** ** coded components: row i *)

  Lemma set_data_comp_dc_t t spans d : set_data_comp t spans n = Ok d -> dc_t d = t.
  Proof.
    intros H. unfold set_data_comp in H.
    destruct (tc_kind t);
      destruct (tc_value t) as [b xs|rows|o xs| | | | | | | |num bd enc lv|co xs|];
      cbn [categoric_data bind fst snd] in *; try discriminate H;
      try (destruct b; cbn [categoric_data bind fst snd] in H; try discriminate H);
      repeat match type of H with
             | (if ?c then _ else _) = Ok _ => destruct c; try discriminate H
             | match ?x with _ => _ end = Ok _ => destruct x; try discriminate H
             | bind ?r _ = Ok _ => let cm := fresh "cm" in destruct r as [cm|]; cbn [bind] in H; try discriminate H
             end;
      injection H as <-; reflexivity.
  Qed.

  Lemma code_rows_no_nan m w codes : Forall no_nan (code_rows m w codes).
  Proof.
    unfold code_rows. apply Forall_map. apply Forall_forall. intros c _. unfold no_nan.
    destruct c as [k|].
    - apply Forall_map. apply Forall_forall. intros z _. discriminate.
    - apply Forall_forall. intros x Hx. apply repeat_spec in Hx. subst x. discriminate.
  Qed.

  (** A categorical component has no NaN at all: its cells are entries of the contrast matrix. *)
  Lemma categoric_rows_no_nan t spans d :
    tc_kind t = KCategoric -> set_data_comp t spans n = Ok d -> Forall no_nan (dc_rows d).
  Proof.
    intros Ek H. unfold set_data_comp in H. rewrite Ek in H.
    assert (Href : forall (ref : string) (d0 : list (option string)),
               Forall no_nan (map (fun x : option string =>
                                     [match x with
                                      | Some s => if String.eqb s ref then zcell 1 else zcell 0
                                      | None => zcell 0 end]) d0)).
    { intros ref d0. apply Forall_map. apply Forall_forall. intros x _. constructor; [|constructor].
      destruct x as [s0|]; [destruct (String.eqb s0 ref)|]; discriminate. }
    destruct (tc_value t) as [b xs|rows|o xs| | | | | | | |num bd enc lv|co xs|];
      cbn [categoric_data bind fst snd] in *; try discriminate H;
      try (destruct b; cbn [categoric_data bind fst snd] in H; try discriminate H);
      repeat match type of H with
             | (if ?c then _ else _) = Ok _ => destruct c; try discriminate H
             | match ?x with _ => _ end = Ok _ => destruct x; try discriminate H
             | bind ?r _ = Ok _ => let cm := fresh "cm" in destruct r as [cm|]; cbn [bind] in H; try discriminate H
             end;
      injection H as <-; cbn [dc_rows]; first [apply code_rows_no_nan|apply Href].
  Qed.

  Lemma numeric_series_rows t spans d b xs :
    tc_kind t = KNumeric -> tc_value t = PSeries b xs -> set_data_comp t spans n = Ok d ->
    dc_rows d = map (fun x => [x]) xs.
  Proof. intros Ek Ev H. unfold set_data_comp in H. rewrite Ek, Ev in H. injection H as <-. reflexivity. Qed.

  Lemma comp_row_all_nan t spans d :
    comp_nan_at t -> set_data_comp t spans n = Ok d -> all_nan (nth i (dc_rows d) []).
  Proof.
    intros (Ek & b & xs & Ev & Hx) H. rewrite (numeric_series_rows t spans d b xs Ek Ev H).
    rewrite (nth_error_nth _ _ _ (map_nth_error _ _ _ Hx)). constructor; [reflexivity|constructor].
  Qed.

  Lemma comp_row_no_nan t spans d :
    simple_comp t -> ~ comp_nan_at t -> set_data_comp t spans n = Ok d -> no_nan (nth i (dc_rows d) []).
  Proof.
    intros [Ek|(Ek & b & xs & Ev & L)] Hn H.
    - pose proof (categoric_rows_no_nan t spans d Ek H) as F. rewrite Forall_forall in F.
      destruct (nth_in_or_default i (dc_rows d) []) as [Hin|E]; [apply F; exact Hin|rewrite E; constructor].
    - rewrite (numeric_series_rows t spans d b xs Ek Ev H).
      destruct (nth_error_lt xs i ltac:(lia)) as (x & Hx).
      rewrite (nth_error_nth _ _ _ (map_nth_error _ _ _ Hx)). constructor; [|constructor].
      intros ->. apply Hn. split; [exact Ek|]. eauto.
  Qed.

  (** ** terms *)

  (* the variables the components of a coded term read *)
  Definition dterm_reads (dt : dterm) : list string :=
    flat_map (fun d => comp_reads (tc_src (dc_t d))) (dt_comps dt).

  (* row i is all NaN when one of [vars] is missing there, and has no NaN otherwise *)
  Definition row_spec (vars : list string) (r : list cell) : Prop :=
    (reads_missing D vars i -> all_nan r) /\ (~ reads_missing D vars i -> no_nan r).

  Lemma comps_rows_nan (f : tcomp -> bool) cs ds :
    Forall nan_exact cs -> Forall2 (fun c d => set_data_comp c (f c) n = Ok d) cs ds ->
    map dc_t ds = cs /\
    (Exists (fun c => reads_missing D (comp_reads (tc_src c)) i) cs ->
     Exists all_nan (map (fun d => nth i (dc_rows d) []) ds)) /\
    (~ Exists (fun c => reads_missing D (comp_reads (tc_src c)) i) cs ->
     Forall no_nan (map (fun d => nth i (dc_rows d) []) ds)).
  Proof.
    intros He H. induction H as [|c d cs ds Hc _ IH].
    - split; [reflexivity|]. split; [intros E; inversion E|intros _; constructor].
    - pose proof (Forall_inv He) as [Hs Hi]. destruct (IH (Forall_inv_tail He)) as (IH0 & IH1 & IH2).
      split; [cbn [map]; rewrite IH0, (set_data_comp_dc_t _ _ _ Hc); reflexivity|]. split.
      + intros E. cbn [map]. inversion E as [? ? Hr|? ? Hr]; subst.
        * left. apply (comp_row_all_nan c (f c) d); [apply Hi; exact Hr|exact Hc].
        * right. apply IH1. exact Hr.
      + intros Hn. cbn [map]. constructor.
        * apply (comp_row_no_nan c (f c) d Hs); [|exact Hc]. intros Hna. apply Hn. left. apply Hi. exact Hna.
        * apply IH2. intros E. apply Hn. right. exact E.
  Qed.

  (** 3, for one term: if the term reads a numeric variable that is missing on row i, EVERY column
      of the term is NaN on row i (also in an interaction with an indicator that is 0 there);
      otherwise NO column of the term is NaN on row i. *)
  Theorem term_row_nan tt s dt :
    tterm_all nan_exact tt -> set_data_term n tt s = Ok dt ->
    row_spec (dterm_reads dt) (nth i (dt_rows dt) []).
  Proof.
    intros He H. destruct tt as [|name cs].
    - simpl in H. injection H as <-. unfold row_spec, dterm_reads. cbn [dt_comps dt_rows flat_map].
      split; [intros Hr; destruct (reads_missing_nil D i Hr)|]. intros _.
      destruct (nth_in_or_default i (repeat [zcell 1] n) []) as [Hin|E]; [|rewrite E; constructor].
      apply repeat_spec in Hin. rewrite Hin. constructor; [discriminate|constructor].
    - destruct (set_data_term_inv _ _ _ _ _ H) as (d0 & rest & Hds & Hcomps & Hrows & _).
      apply mapM_ok in Hds. simpl in He.
      destruct (comps_rows_nan _ cs (d0 :: rest) He Hds) as (Ht & Hall & Hno).
      unfold row_spec, dterm_reads. rewrite Hcomps, Hrows, fold_rows_kron_nth.
      assert (Er : reads_missing D (flat_map (fun d => comp_reads (tc_src (dc_t d))) (d0 :: rest)) i <->
                   Exists (fun c => reads_missing D (comp_reads (tc_src c)) i) cs).
      { rewrite reads_missing_flat_map, <- Ht. rewrite Exists_map. reflexivity. }
      rewrite Er. cbn [map] in Hall, Hno. rewrite map_map. split.
      + intros E. apply fold_row_kron_all_nan. specialize (Hall E).
        inversion Hall; subst; [left|right]; assumption.
      + intros E. specialize (Hno E). apply fold_row_kron_no_nan; [exact (Forall_inv Hno)|exact (Forall_inv_tail Hno)].
  Qed.

  (** 4: the same for a group-specific term (e|g): the grouping factor is categorical, hence
      never NaN; row i of the block is all NaN iff the expression e reads a missing variable. *)
  Theorem gterm_row_nan tg spans dg :
    tterm_all nan_exact (tg_expr tg) -> Forall (fun c => tc_kind c = KCategoric) (tg_factor tg) ->
    set_data_gterm n tg spans = Ok dg ->
    row_spec (dterm_reads (dg_expr dg)) (nth i (dg_rows dg) []).
  Proof.
    intros He Hf H. unfold set_data_gterm in H.
    apply bind_ok in H as (e & Hee & H). apply bind_ok in H as (fs & Hfs & H).
    apply bind_ok in H as (glabs & _ & H). apply bind_ok in H as (flabs & _ & H).
    apply bind_ok in H as (levels & _ & H). injection H as <-. cbn [dg_expr dg_rows].
    destruct (term_row_nan _ _ _ He Hee) as [Hall Hno].
    assert (Hfr : no_nan (nth i (factor_rows fs) [])).
    { apply mapM_ok in Hfs.
      assert (F : Forall (fun d => no_nan (nth i (dc_rows d) [])) fs).
      { clear -Hfs Hf. induction Hfs as [|c d cs ds Hc _ IH]; constructor.
        - pose proof (categoric_rows_no_nan c true d (Forall_inv Hf) Hc) as F. rewrite Forall_forall in F.
          destruct (nth_in_or_default i (dc_rows d) []) as [Hin|E]; [apply F; exact Hin|rewrite E; constructor].
        - apply IH. exact (Forall_inv_tail Hf). }
      destruct fs as [|d0 rest]; [destruct i; constructor|]. cbn [factor_rows].
      rewrite fold_rows_kron_nth. apply fold_row_kron_no_nan; [exact (Forall_inv F)|].
      rewrite map_map. apply Forall_map. exact (Forall_inv_tail F). }
    rewrite rows_kron_nth. split.
    - intros Hr. apply row_kron_all_nan_r. apply Hall. exact Hr.
    - intros Hr. apply row_kron_no_nan; [exact Hfr|]. apply Hno. exact Hr.
  Qed.

End Nan.

(** ** the whole design *)

(** The class of models for the NaN statement (row i): every component of every common term and
    of every expression e of a group-specific term (e|g) is covered by [nan_comp]. *)
Definition nan_model (D : frame) (cx : dctx) (i : nat) (m : model) : Prop :=
  (forall t c, In (CT t) (commons m) -> In c t -> nan_comp D (d_extra cx) (d_sqrt cx) i false c) /\
  (forall g t c, In g (groups m) -> gexpr g = CT t -> In c t ->
                 nan_comp D (d_extra cx) (d_sqrt cx) i false c).

Definition common_rows_spec (D : frame) (i : nat) (ds : design) : Prop :=
  Forall (fun dt => row_spec D i (dterm_reads dt) (nth i (dt_rows dt) [])) (ds_common ds).
Definition group_rows_spec (D : frame) (i : nat) (ds : design) : Prop :=
  Forall (fun dg => row_spec D i (dterm_reads (dg_expr dg)) (nth i (dg_rows dg) [])) (ds_group ds).

Theorem eval_model_nan_rows D cx m ds i :
  frame_wf D -> scalar_extras cx -> i < frame_rows D -> nan_model D cx i m ->
  eval_model cx D m = Ok ds ->
  common_rows_spec D i ds /\ group_rows_spec D i ds.
Proof.
  destruct cx as [ex sq]. unfold scalar_extras, nan_model. cbn [d_extra d_sqrt].
  intros HD Hex Hi [Hc Hg] H. unfold eval_model in H. set (n := frame_rows D) in *.
  unfold frame_wf in HD. fold n in HD.
  apply bind_ok in H as (tcs & Htcs & H). apply bind_ok in H as (tgs & Htgs & H).
  apply bind_ok in H as (enc1 & _ & H). apply bind_ok in H as (tcs2 & Htcs2 & H).
  apply bind_ok in H as (enc2 & _ & H). apply bind_ok in H as (dcs & Hdcs & H).
  apply bind_ok in H as (dgs & Hdgs & H). apply bind_ok in H as (r & Hr & H). injection H as <-.
  set (P := nan_exact D n i).
  assert (Tty : forall t tt, (forall c, In c t -> nan_comp D ex sq i false c) ->
                             set_type_term (DCtx ex sq) D false t = Ok tt -> tterm_all P tt).
  { intros t tt Hcov Ht. unfold set_type_term in Ht. apply bind_ok in Ht as (cs & Hcs & Ht).
    injection Ht as <-. simpl. apply mapM_ok in Hcs. apply (Forall2_Forall_r _ _ _ _ Hcs).
    intros c tc Hin Htc. apply (nan_exact_typed D n HD ex Hex sq i Hi false c tc); auto. }
  assert (T1 : Forall (tterm_all P) tcs).
  { apply mapM_ok in Htcs. apply (Forall2_Forall_r _ _ _ _ Htcs). intros c tt Hin Hc'.
    destruct c as [| |t]; simpl in Hc'; [injection Hc' as <-; exact I|discriminate|].
    apply (Tty t tt); [|exact Hc']. intros c0 Hc0. apply (Hc t c0 Hin Hc0). }
  pose proof (add_extra_terms_all P _ _ _ _ _ T1 Htcs2) as T2.
  assert (T3 : Forall (fun dt => row_spec D i (dterm_reads dt) (nth i (dt_rows dt) [])) dcs).
  { apply mapM_ok in Hdcs. apply (Forall2_Forall_r _ _ _ _ Hdcs). intros tt dt Hin Hd.
    apply bind_ok in Hd as (s & _ & Hd). rewrite Forall_forall in T2.
    apply (term_row_nan D n i Hi tt s dt (T2 tt Hin) Hd). }
  assert (G3 : Forall (fun dg => row_spec D i (dterm_reads (dg_expr dg)) (nth i (dg_rows dg) [])) dgs).
  { apply mapM_ok in Hdgs. apply mapM_ok in Htgs.
    pose proof (Forall2_combine_flip _ _ _ Htgs) as Hty.
    apply (Forall2_Forall_r _ _ _ _ Hdgs). intros [tg g] dg Hin Hd.
    rewrite Forall_forall in Hty. specialize (Hty _ Hin). apply in_combine_r in Hin.
    cbn [fst snd] in *. unfold set_type_gterm in Hty.
    destruct (gfactor g) as [| |f] eqn:Ef; try discriminate Hty.
    apply bind_ok in Hty as (fs & Hfs & Hty). apply bind_ok in Hty as (e & He & Hty).
    apply bind_ok in Hty as (nm & _ & Hty). injection Hty as <-.
    eapply (gterm_row_nan D n i Hi); [| |exact Hd]; cbn [tg_expr tg_factor].
    - destruct (gexpr g) as [| |t] eqn:Eg; [injection He as <-; exact I|discriminate He|].
      apply (Tty t e); [|exact He]. intros c0 Hc0. apply (Hg g t c0 Hin Eg Hc0).
    - apply Forall_map. apply Forall_forall. intros c _. reflexivity. }
  split; [apply fold_dict_set_all; exact T3|apply fold_dict_set_all; exact G3].
Qed.

(** 3 and its part of 4, on [design_matrices]: under "pass", on every row i, every common term
    and every group-specific term (e|g) either reads a numeric variable that is missing on row i
    -- then ALL its columns are NaN on row i -- or it does not -- then NONE of its columns is
    NaN on row i. *)
Theorem pass_nan_rows cx e D m ds i :
  describe e = Ok m -> frame_wf D -> frame_rows D <> 0 -> used_cols D m <> [] ->
  scalar_extras cx -> i < frame_rows D -> nan_model D cx i m ->
  design_matrices cx e D NaPass = Ok ds ->
  common_rows_spec D i ds /\ group_rows_spec D i ds.
Proof.
  intros Hd Hwf Hn Hu Hex Hi Hm H.
  destruct (design_matrices_eval_model cx e D m Hd Hwf Hn Hu) as [Hp _].
  rewrite (Hp NaPass (or_introl eq_refl)) in H.
  apply (eval_model_nan_rows D cx m ds i); assumption.
Qed.

(** The two cases of [row_spec] are exhaustive and, for a term with at least one column,
    exclusive. *)
Lemma reads_missing_dec D vars i : reads_missing D vars i \/ ~ reads_missing D vars i.
Proof.
  unfold reads_missing. induction vars as [|v vars IH].
  - right. intros (nm & [] & _).
  - assert (Hv : num_missing D v i \/ ~ num_missing D v i).
    { unfold num_missing. destruct (assoc v D) as [[b xs|o xs]|].
      - destruct (nth_error xs i) as [[q|]|] eqn:Ex.
        + right. intros (b' & xs' & E & Hx). injection E as <- <-. congruence.
        + left. eauto.
        + right. intros (b' & xs' & E & Hx). injection E as <- <-. congruence.
      - right. intros (b' & xs' & E & _). discriminate E.
      - right. intros (b' & xs' & E & _). discriminate E. }
    destruct Hv as [Hv|Hv]; [left; exists v; split; [left; reflexivity|exact Hv]|].
    destruct IH as [(nm & Hin & H)|IH]; [left; exists nm; split; [right; exact Hin|exact H]|].
    right. intros (nm & [<-|Hin] & H); [contradiction|]. apply IH. eauto.
Qed.

Corollary row_spec_cases D i vars r : row_spec D i vars r -> all_nan r \/ no_nan r.
Proof. intros [H1 H2]. destruct (reads_missing_dec D vars i); auto. Qed.

Corollary row_spec_iff D i vars r :
  row_spec D i vars r -> r <> [] -> (all_nan r <-> reads_missing D vars i).
Proof.
  intros [H1 H2] Hne. split; [|exact H1]. intros Ha.
  destruct (reads_missing_dec D vars i) as [H|H]; [exact H|].
  exfalso. apply Hne. apply all_nan_no_nan; auto.
Qed.

(* ------------------------------------------------------------------------------------------ *)
(** * E. Sufficient conditions on the input *)

(** ** levels: every value of the column occurs on a kept row *)

Lemma nodup_by_same_set {T} (eqb : T -> T -> bool) l l' :
  (forall a b, eqb a b = true <-> a = b) -> (forall x, In x l <-> In x l') ->
  Permutation (nodup_by eqb l) (nodup_by eqb l').
Proof.
  intros Heq P. apply NoDup_Permutation; try (apply nodup_by_NoDup; assumption).
  intros x. split; intros H; apply nodup_by_In in H;
    (apply nodup_by_In_rev; [intros a b; apply Heq|]); apply P; assumption.
Qed.

Lemma sort_levels_same_set num l l' :
  (forall x, In x l <-> In x l') -> sort_levels num l = sort_levels num l'.
Proof.
  intros P. unfold sort_levels, sorted_unique_str. destruct num.
  - f_equal. apply (isort_perm_eq Z Z.leb Zleb_total Zleb_trans Zleb_antisym).
    apply nodup_by_same_set; [exact Z.eqb_eq|]. intros z. rewrite !in_flat_map.
    split; intros (s & Hs & Hz); exists s; (split; [apply P; exact Hs|exact Hz]).
  - apply (isort_perm_eq string str_leb str_leb_total str_leb_trans str_leb_antisym).
    apply nodup_by_same_set; [exact String.eqb_eq|exact P].
Qed.

Lemma present_In (d : list (option string)) s : In s (present d) <-> In (Some s) d.
Proof.
  unfold present. rewrite in_flat_map. split.
  - intros ([x|] & Hx & Hs); [destruct Hs as [<-|[]]; exact Hx|destruct Hs].
  - intros H. exists (Some s). split; [exact H|left; reflexivity].
Qed.

(* every value of d occurs on a kept row *)
Definition covered_by (keep : list bool) {T} (d : list (option T)) : Prop :=
  forall s, In (Some s) d -> In (Some s) (select keep d).

Lemma levels_cover keep num (d : list (option string)) :
  covered_by keep d -> sort_levels num (present (select keep d)) = sort_levels num (present d).
Proof.
  intros H. apply sort_levels_same_set. intros s. rewrite !present_In. split.
  - apply select_In.
  - apply H.
Qed.

Lemma covered_int_labels keep (xs : list cell) : covered_by keep xs -> covered_by keep (int_labels xs).
Proof.
  unfold covered_by, int_labels. intros H s Hs. rewrite select_map.
  apply in_map_iff in Hs as ([q|] & E & Hq); [|discriminate E]. injection E as <-.
  apply in_map_iff. exists (Some q). split; [reflexivity|apply H; exact Hq].
Qed.

(** ** plain variables *)

Section Inputs.
  Variable keep : list bool.
  Variable D : frame.
  Variable ex : list (string * pyval).
  Variable sq : Qc -> Qc.

  (* a categorical column: its values all occur on kept rows *)
  Lemma comp_fine_var_str r forced name lvl o v :
    assoc name D = Some (ColStr o v) -> covered_by keep v ->
    comp_fine keep D ex sq r forced (CVar (NStr name) lvl).
  Proof.
    intros E Hc. split; [exact I|]. intros t Ht _. simpl in Ht. rewrite E in Ht. injection Ht as <-.
    cbn [tc_value col_value levels_kept]. destruct o; [exact I|]. apply levels_cover. exact Hc.
  Qed.

  (* a numeric column used as a numeric predictor: nothing to check *)
  Lemma comp_fine_var_num r name lvl b v :
    assoc name D = Some (ColNum b v) -> comp_fine keep D ex sq r false (CVar (NStr name) lvl).
  Proof.
    intros E. split; [exact I|]. intros t Ht Hk. simpl in Ht. rewrite E in Ht. injection Ht as <-.
    destruct Hk as [Hk|Hk]; discriminate Hk.
  Qed.

  (* a numeric column used as a grouping factor: its values all occur on kept rows *)
  Lemma comp_fine_var_num_factor r name lvl b v :
    assoc name D = Some (ColNum b v) -> covered_by keep v ->
    comp_fine keep D ex sq r true (CVar (NStr name) lvl).
  Proof.
    intros E Hc. split; [exact I|]. intros t Ht _. simpl in Ht. rewrite E in Ht. injection Ht as <-.
    cbn [tc_value col_value levels_kept]. destruct b; [|exact I].
    apply levels_cover. apply covered_int_labels. exact Hc.
  Qed.

  (** ** C(f, ...), S(f, ...), T(f, ...) of a categorical column *)

  Lemma eval_args_prefix ev args : forall st vals0 rec0 vals st1 rec,
    eval_args ev args st vals0 rec0 = Ok (vals, st1, rec) -> exists vs, vals = vals0 ++ vs.
  Proof.
    induction args as [|a args IH]; intros st vals0 rec0 vals st1 rec H; simpl in H.
    - injection H as <- _ _. exists []. rewrite app_nil_r. reflexivity.
    - apply bind_ok in H as (x & _ & H). destruct (IH _ _ _ _ _ _ H) as (vs & ->).
      exists (fst (fst x) :: vs). rewrite <- app_assoc. reflexivity.
  Qed.

  Lemma bind_args_first p ps x xs kw b : bind_args (p :: ps) (x :: xs) kw = Ok b -> arg p b = x.
  Proof.
    simpl. destruct (existsb _ kw); [discriminate|]. intros H. apply bind_ok in H as (r & _ & H).
    injection H as <-. unfold arg. simpl. rewrite String.eqb_refl. reflexivity.
  Qed.

  Lemma mk_box_inv num o d c lv v : mk_box num o d c lv = Ok v -> exists lv', v = PBox num d c lv'.
  Proof.
    unfold mk_box. destruct o as [cats|], lv as [l|]; cbv zeta;
      try (destruct (same_set _ _); [|discriminate]); intros H; injection H as <-; eauto.
  Qed.

  Lemma box_function_value cx0 c o v rest kw val :
    In c box_callees -> call_function cx0 c (PStrs o v :: rest) kw = Ok val ->
    exists e lv, val = PBox false v e lv.
  Proof.
    intros Hc H. destruct Hc as [<-|[<-|[<-|[]]]].
    - rewrite call_function_C in H. apply with_sig_inv in H as (b & Hb & H).
      apply bind_args_first in Hb. unfold k_C in H. rewrite Hb in H.
      apply bind_ok in H as (c' & _ & H). apply bind_ok in H as (lv & _ & H).
      cbn [series_strings bind fst snd] in H. apply mk_box_inv in H as (lv' & ->). eauto.
    - rewrite call_function_S in H. apply with_sig_inv in H as (b & Hb & H).
      apply bind_args_first in Hb. unfold k_S in H. rewrite Hb in H.
      apply bind_ok in H as (c' & _ & H). apply bind_ok in H as (lv & _ & H).
      cbn [series_strings bind fst snd] in H. apply mk_box_inv in H as (lv' & ->). eauto.
    - rewrite call_function_T in H. apply with_sig_inv in H as (b & Hb & H).
      apply bind_args_first in Hb. unfold k_T in H. rewrite Hb in H.
      apply bind_ok in H as (c' & _ & H). apply bind_ok in H as (lv & _ & H).
      cbn [series_strings bind fst snd] in H. apply mk_box_inv in H as (lv' & ->). eauto.
  Qed.

  (** The value of C(f, ...), S(f, ...), T(f, ...) for a str / Categorical column f is a
      categorical box over the values of f. *)
  Lemma box_call_value fit st c name rest kw o v val st1 rec :
    In c box_callees -> assoc name D = Some (ColStr o v) ->
    eval_lazy (ECtx D ex sq fit) st (LzCall c (LzVar name :: rest) kw) = Ok (val, st1, rec) ->
    exists e lv, val = PBox false v e lv.
  Proof.
    intros Hc E H. rewrite eval_lazy_call in H.
    assert (Hk : known_callee c = true /\ existsb (String.eqb c) stateful_names = false)
      by (destruct Hc as [<-|[<-|[<-|[]]]]; split; reflexivity).
    destruct Hk as [Hk Hst]. rewrite Hk, Hst in H. cbn [negb] in H.
    apply bind_ok in H as ([[pos sta] reca] & Hra & H).
    apply bind_ok in H as ([[kws stk] reck] & _ & H). cbn [fst snd] in H.
    apply bind_ok in H as (w & Hw & H). injection H as <- _ _.
    cbn [eval_args] in Hra. apply bind_ok in Hra as (x & Hx & Hra).
    cbn [eval_lazy] in Hx. unfold lookup_name in Hx. cbn [e_data] in Hx. rewrite E in Hx.
    cbn [bind col_value] in Hx. injection Hx as <-. cbn [fst snd app] in Hra.
    destruct (eval_args_prefix _ _ _ _ _ _ _ _ Hra) as (vs & ->).
    apply (box_function_value _ c o v vs kws w Hc Hw).
  Qed.

  Lemma comp_fine_box r forced c name rest kw o v :
    In c box_callees -> pointwise (LzCall c (LzVar name :: rest) kw) = true ->
    assoc name D = Some (ColStr o v) -> covered_by keep v ->
    comp_fine keep D ex sq r forced (CCall (LzCall c (LzVar name :: rest) kw)).
  Proof.
    intros Hc Hp E Hcov. split; [exact Hp|]. intros t Ht _. simpl in Ht.
    apply bind_ok in Ht as ([[val st1] rec] & Hev & Ht). cbn [fst snd] in Ht.
    destruct (box_call_value _ _ _ _ _ _ _ _ _ _ _ Hc E Hev) as (e & lv & ->).
    cbn [bind] in Ht. injection Ht as <-. cbn [tc_value levels_kept].
    destruct lv; [exact I|]. apply levels_cover. exact Hcov.
  Qed.

  Lemma box_call_kind r c name rest kw o v t :
    In c box_callees -> assoc name D = Some (ColStr o v) ->
    set_type_comp (DCtx ex sq) D r (CCall (LzCall c (LzVar name :: rest) kw)) = Ok t ->
    tc_kind t = KCategoric.
  Proof.
    intros Hc E Ht. simpl in Ht.
    apply bind_ok in Ht as ([[val st1] rec] & Hev & Ht). cbn [fst snd] in Ht.
    destruct (box_call_value _ _ _ _ _ _ _ _ _ _ _ Hc E Hev) as (e & lv & ->).
    cbn [bind] in Ht. injection Ht as <-. reflexivity.
  Qed.

  (* ... and it is covered by the NaN statement when it reads no incomplete numeric column *)
  Lemma nan_comp_box i r c name rest kw o v :
    In c box_callees -> assoc name D = Some (ColStr o v) ->
    ~ reads_missing D (lazy_reads (LzCall c (LzVar name :: rest) kw)) i ->
    nan_comp D ex sq i r (CCall (LzCall c (LzVar name :: rest) kw)).
  Proof.
    intros Hc E Hno. right. split; [exact Hno|]. intros t Ht. eapply box_call_kind; eauto.
  Qed.

End Inputs.

(** ** pointwise arithmetic calls *)

Lemma apply_binop_numeric sym a b v :
  apply_binop sym a b = Ok v -> match v with PSeries _ _ | PNumber _ _ => True | _ => False end.
Proof.
  destruct a as [ia xs| | |ia x| | | | | | | | |]; try discriminate;
    destruct b as [ib ys| | |ib y| | | | | | | | |]; try discriminate; cbn [apply_binop]; intros H.
  - apply bind_ok in H as (l & _ & H). apply bind_ok in H as (t & _ & H). injection H as <-. exact I.
  - apply bind_ok in H as (l & _ & H). apply bind_ok in H as (t & _ & H). injection H as <-. exact I.
  - apply bind_ok in H as (l & _ & H). apply bind_ok in H as (t & _ & H). injection H as <-. exact I.
  - apply bind_ok in H as (r & _ & H). destruct (snd r); [|discriminate H]. injection H as <-. exact I.
Qed.

Lemma apply_unop_numeric sym a v :
  apply_unop sym a = Ok v -> match v with PSeries _ _ | PNumber _ _ => True | _ => False end.
Proof.
  unfold apply_unop. destruct (String.eqb sym "+").
  - destruct a; try discriminate; intros H; injection H as <-; exact I.
  - destruct (String.eqb sym "-"); [|discriminate].
    destruct a; try discriminate; intros H; injection H as <-; exact I.
Qed.

Section Inputs2.
  Variable keep : list bool.
  Variable D : frame.
  Variable ex : list (string * pyval).
  Hypothesis ex_scalar : forall k v, assoc k ex = Some v -> is_scalar v = true.
  Variable sq : Qc -> Qc.

  (* a pointwise arithmetic call evaluates to a series, a scalar, or a str column of the frame *)
  Definition arith_val_ok (v : pyval) : Prop :=
    match v with
    | PStrs o xs => exists name, assoc name D = Some (ColStr o xs)
    | PMatrix _ | PBox _ _ _ _ | POffset _ _ | PProp _ _ _ => False
    | _ => True
    end.

  Lemma arith_value l :
    arith l = true ->
    forall fit st v st1 rec, eval_lazy (ECtx D ex sq fit) st l = Ok (v, st1, rec) -> arith_val_ok v.
  Proof.
    induction l as [sym args IH|name|lit lx|c args kw IHa _] using lazy_ind'; intros Ha fit st v st1 rec H.
    - destruct args as [|a [|b [|c r]]]; try discriminate H.
      + cbn [eval_lazy] in H. apply bind_ok in H as (ra & _ & H). apply bind_ok in H as (w & Hw & H).
        injection H as <- _ _. apply apply_unop_numeric in Hw. destruct w; try contradiction; exact I.
      + cbn [eval_lazy] in H. apply bind_ok in H as (ra & _ & H). apply bind_ok in H as (rb & _ & H).
        apply bind_ok in H as (w & Hw & H).
        injection H as <- _ _. apply apply_binop_numeric in Hw. destruct w; try contradiction; exact I.
    - cbn [eval_lazy] in H. apply bind_ok in H as (w & Hw & H). injection H as <- _ _.
      unfold lookup_name in Hw. cbn [e_data e_extra] in Hw.
      destruct (assoc name D) as [c|] eqn:E.
      + injection Hw as <-. destruct c as [b xs|o xs]; simpl; eauto.
      + unfold builtin_value in Hw.
        destruct (String.eqb name "Treatment"); [injection Hw as <-; exact I|].
        destruct (String.eqb name "Sum"); [injection Hw as <-; exact I|].
        destruct (_ || _); [discriminate|].
        destruct (assoc name ex) as [w'|] eqn:Ew; [|discriminate].
        injection Hw as <-. pose proof (ex_scalar _ _ Ew) as Hs.
        destruct w'; try discriminate Hs; exact I.
    - cbn [eval_lazy] in H. injection H as <- _ _. destruct lit; exact I.
    - cbn [arith] in Ha. apply andb_true_iff in Ha as [Ha Hk]. apply andb_true_iff in Ha as [Hc Ha].
      apply String.eqb_eq in Hc. subst c. destruct kw; [|discriminate Hk].
      destruct args as [|a [|b r]]; try discriminate Ha.
      pose proof (Forall_inv IHa) as Hia. cbv beta in Hia.
      rewrite eval_lazy_call in H. change (negb (known_callee "I")) with false in H. cbv iota in H.
      cbn [eval_args] in H. apply bind_ok in H as ([[pos sta] reca] & Hra & H).
      apply bind_ok in Hra as ([[va sta'] reca'] & Hx & Hra). cbn [fst snd app] in Hra. injection Hra as <- <- <-.
      cbn [eval_kwargs bind fst snd] in H.
      change (existsb (String.eqb "I") stateful_names) with false in H. cbv iota in H.
      apply bind_ok in H as (w & Hw & H). injection H as <- _ _.
      assert (Ew : w = va) by (vm_compute in Hw; injection Hw as <-; reflexivity).
      subst w. apply (Hia Ha _ _ _ _ _ Hx).
  Qed.

  (* every str / Categorical column has all its values on kept rows *)
  Definition strs_covered : Prop :=
    forall name o v, assoc name D = Some (ColStr o v) -> covered_by keep v.

  Lemma comp_fine_arith r lz :
    strs_covered -> arith lz = true -> comp_fine keep D ex sq r false (CCall lz).
  Proof.
    intros Hcov Ha. split; [apply arith_pointwise; exact Ha|]. intros t Ht Hk.
    destruct Hk as [Hk|Hk]; [discriminate Hk|]. simpl in Ht.
    apply bind_ok in Ht as ([[v st1] rec] & Hev & Ht). cbn [fst snd] in Ht.
    pose proof (arith_value lz Ha _ _ _ _ _ Hev) as Hv.
    destruct v; cbn [bind arith_val_ok] in *; try discriminate Ht; try contradiction; injection Ht as <-;
      cbn [tc_kind tc_value] in *; try discriminate Hk.
    destruct Hv as (name & E). cbn [levels_kept]. destruct ordered; [exact I|].
    apply levels_cover. apply (Hcov name None xs E).
  Qed.

End Inputs2.

(* ------------------------------------------------------------------------------------------ *)
(** * F. The simple class, decidably: plain variables, pointwise arithmetic, C/S/T of categorical
      columns; grouping factors that are plain variables *)

Definition not_numeric_col (D : frame) (name : string) : bool :=
  match assoc name D with Some (ColNum _ _) => false | _ => true end.

Definition simple_src (D : frame) (c : comp) : bool :=
  match c with
  | CVar _ _ => true
  | CCall lz =>
      arith lz ||
      match lz with
      | LzCall c (LzVar name :: _) _ =>
          existsb (String.eqb c) box_callees && pointwise lz &&
          match assoc name D with Some (ColStr _ _) => true | _ => false end &&
          forallb (not_numeric_col D) (lazy_reads lz)
      | _ => false
      end
  end.

Definition plain_var (c : comp) : bool := match c with CVar (NStr _) _ => true | _ => false end.

Definition cterm_comps (c : cterm) : list comp := match c with CT t => t | _ => [] end.

Definition simple_modelb (D : frame) (m : model) : bool :=
  forallb (fun c => forallb (simple_src D) (cterm_comps c)) (commons m) &&
  match resp m with Some t => forallb (simple_src D) t | None => true end &&
  forallb (fun g => forallb (simple_src D) (cterm_comps (gexpr g)) &&
                    forallb plain_var (cterm_comps (gfactor g))) (groups m).

(* the names of the grouping factors *)
Definition factor_names (m : model) : list string :=
  flat_map (fun g => cterm_reads (gfactor g)) (groups m).

Definition coveredb {T} (keep : list bool) (eqb : T -> T -> bool) (v : list (option T)) : bool :=
  forallb (fun x => match x with
                    | Some s => existsb (fun y => match y with Some s' => eqb s s' | None => false end)
                                        (select keep v)
                    | None => true
                    end) v.

Lemma coveredb_ok {T} keep (eqb : T -> T -> bool) v :
  (forall a b, eqb a b = true -> a = b) -> coveredb keep eqb v = true -> covered_by keep v.
Proof.
  intros Heq H s Hs. unfold coveredb in H. rewrite forallb_forall in H. specialize (H _ Hs). cbv beta iota in H.
  apply existsb_exists in H as ([s'|] & Hin & E); [|discriminate E]. apply Heq in E. subst s'. exact Hin.
Qed.

(** Every value of every str / Categorical column, and of every numeric column that is a
    grouping factor, occurs on a kept row. *)
Definition frame_coveredb (keep : list bool) (D : frame) (m : model) : bool :=
  forallb (fun kv => match snd kv with
                     | ColStr _ v => coveredb keep String.eqb v
                     | ColNum _ v => if existsb (String.eqb (fst kv)) (factor_names m)
                                     then coveredb keep Qc_eq_bool v else true
                     end) D.

Lemma frame_covered_str keep D m name o v :
  frame_coveredb keep D m = true -> assoc name D = Some (ColStr o v) -> covered_by keep v.
Proof.
  intros H E. apply assoc_In in E. unfold frame_coveredb in H. rewrite forallb_forall in H.
  specialize (H _ E). cbn [snd] in H. apply (coveredb_ok keep String.eqb); [|exact H].
  intros a b. apply String.eqb_eq.
Qed.

Lemma frame_covered_num keep D m name b v :
  frame_coveredb keep D m = true -> In name (factor_names m) -> assoc name D = Some (ColNum b v) ->
  covered_by keep v.
Proof.
  intros H Hf E. apply assoc_In in E. unfold frame_coveredb in H. rewrite forallb_forall in H.
  specialize (H _ E). cbn [fst snd] in H. rewrite (existsb_eqb_In' _ _ Hf) in H.
  apply (coveredb_ok keep Qc_eq_bool); [|exact H]. intros x y. apply Qc_eq_bool_correct.
Qed.

Lemma simple_src_fine keep D m ex sq r c :
  (forall k v, assoc k ex = Some v -> is_scalar v = true) ->
  frame_coveredb keep D m = true -> simple_src D c = true -> comp_fine keep D ex sq r false c.
Proof.
  intros Hex Hcov Hs. destruct c as [[name|lit] lvl|lz].
  - destruct (assoc name D) as [[b v|o v]|] eqn:E.
    + eapply comp_fine_var_num; exact E.
    + eapply comp_fine_var_str; [exact E|]. eapply frame_covered_str; eauto.
    + split; [exact I|]. intros t Ht. simpl in Ht. rewrite E in Ht. discriminate Ht.
  - split; [exact I|]. intros t Ht. discriminate Ht.
  - cbn [simple_src] in Hs. apply orb_true_iff in Hs as [Ha|Hb].
    + apply comp_fine_arith; [exact Hex| |exact Ha]. intros name o v E. eapply frame_covered_str; eauto.
    + destruct lz as [| | |c args kw]; try discriminate Hb. destruct args as [|[| name | |] rest]; try discriminate Hb.
      apply andb_true_iff in Hb as [Hb _]. apply andb_true_iff in Hb as [Hb Hcol].
      apply andb_true_iff in Hb as [Hc Hp].
      destruct (assoc name D) as [[b v|o v]|] eqn:E; try discriminate Hcol.
      apply (comp_fine_box keep D ex sq r false c name rest kw o v); auto.
      * apply existsb_exists in Hc as (x & Hx & Ex). apply String.eqb_eq in Ex. subst x. exact Hx.
      * eapply frame_covered_str; eauto.
Qed.

Lemma simple_src_nan D ex sq i r c : simple_src D c = true -> nan_comp D ex sq i r c.
Proof.
  intros Hs. destruct c as [nm lvl|lz]; [exact I|]. cbn [simple_src] in Hs.
  apply orb_true_iff in Hs as [Ha|Hb]; [left; exact Ha|].
  destruct lz as [| | |c args kw]; try discriminate Hb. destruct args as [|[| name | |] rest]; try discriminate Hb.
  apply andb_true_iff in Hb as [Hb Hno]. apply andb_true_iff in Hb as [Hb Hcol].
  apply andb_true_iff in Hb as [Hc Hp].
  destruct (assoc name D) as [[b v|o v]|] eqn:E; try discriminate Hcol.
  apply (nan_comp_box D ex sq i r c name rest kw o v); auto.
  - apply existsb_exists in Hc as (x & Hx & Ex). apply String.eqb_eq in Ex. subst x. exact Hx.
  - intros (nm & Hin & b & xs & Ea & _). rewrite forallb_forall in Hno. specialize (Hno _ Hin).
    unfold not_numeric_col in Hno. rewrite Ea in Hno. discriminate Hno.
Qed.

Lemma forallb_comps_In (f : comp -> bool) (cs : list cterm) t c :
  forallb (fun x => forallb f (cterm_comps x)) cs = true -> In (CT t) cs -> In c t -> f c = true.
Proof.
  intros H Hin Hc. rewrite forallb_forall in H. specialize (H _ Hin). cbn [cterm_comps] in H.
  rewrite forallb_forall in H. exact (H _ Hc).
Qed.

Theorem simple_model_fine keep D cx m :
  scalar_extras cx -> frame_coveredb keep D m = true -> simple_modelb D m = true ->
  model_fine keep D cx m.
Proof.
  intros Hex Hcov Hs. unfold simple_modelb in Hs.
  apply andb_true_iff in Hs as [Hs Hg]. apply andb_true_iff in Hs as [Hc Hr].
  destruct cx as [ex sq]. unfold model_fine. cbn [d_extra d_sqrt]. unfold scalar_extras in Hex. cbn [d_extra] in Hex.
  split; [|split].
  - intros t Hin. apply Forall_forall. intros c Hc'. eapply simple_src_fine; eauto.
    eapply forallb_comps_In; eauto.
  - intros t Er. rewrite Er in Hr. apply Forall_forall. intros c Hc'. eapply simple_src_fine; eauto.
    rewrite forallb_forall in Hr. exact (Hr _ Hc').
  - intros g Hin. rewrite forallb_forall in Hg. specialize (Hg _ Hin).
    apply andb_true_iff in Hg as [Hge Hgf]. split.
    + intros t Et. rewrite Et in Hge. cbn [cterm_comps] in Hge. apply Forall_forall. intros c Hc'.
      eapply simple_src_fine; eauto. rewrite forallb_forall in Hge. exact (Hge _ Hc').
    + intros f Ef. rewrite Ef in Hgf. cbn [cterm_comps] in Hgf. apply Forall_forall. intros c Hc'.
      rewrite forallb_forall in Hgf. specialize (Hgf _ Hc').
      destruct c as [[name|lit] lvl|lz]; try discriminate Hgf.
      assert (Hfn : In name (factor_names m)).
      { unfold factor_names. apply in_flat_map. exists g. split; [exact Hin|]. rewrite Ef.
        cbn [cterm_reads]. unfold term_reads. apply in_flat_map. exists (CVar (NStr name) lvl).
        split; [exact Hc'|left; reflexivity]. }
      destruct (assoc name D) as [[b v|o v]|] eqn:E.
      * eapply comp_fine_var_num_factor; [exact E|]. eapply frame_covered_num; eauto.
      * eapply comp_fine_var_str; [exact E|]. eapply frame_covered_str; eauto.
      * split; [exact I|]. intros t Ht. simpl in Ht. rewrite E in Ht. discriminate Ht.
Qed.

Theorem simple_model_nan D cx i m : simple_modelb D m = true -> nan_model D cx i m.
Proof.
  intros Hs. unfold simple_modelb in Hs.
  apply andb_true_iff in Hs as [Hs Hg]. apply andb_true_iff in Hs as [Hc _].
  split.
  - intros t c Hin Hc'. apply simple_src_nan. eapply forallb_comps_In; eauto.
  - intros g t c Hin Et Hc'. apply simple_src_nan. rewrite forallb_forall in Hg. specialize (Hg _ Hin).
    apply andb_true_iff in Hg as [Hge _]. rewrite Et in Hge. cbn [cterm_comps] in Hge.
    rewrite forallb_forall in Hge. exact (Hge _ Hc').
Qed.

(* ------------------------------------------------------------------------------------------ *)
(** * G. The clause, for the simple class, with decidable hypotheses on the input *)

(** [keep] = the complete rows.  Hypotheses: the formula describes a model [m]; the frame is
    rectangular, non-empty, without ordered Categoricals, and holds at least one variable of the
    model; the extra namespace holds scalars; at least one row is complete; the model is in the
    simple class ([simple_modelb]); every level of every categorical column (and of every numeric
    grouping column) occurs on a complete row ([frame_coveredb]); "pass" builds a design [ds].
    Then
      1. [ds] has one row per row of the frame (in order: [design_matrices_eval_model]: it IS the
         design of the frame as given);
      2. "drop" builds [design_select keep ds]: the same design with the incomplete rows removed
         from every matrix ([design_select_spec], [select_nth_rank]);
      3. on every row i, every common term and every group-specific term is all NaN if it reads a
         numeric variable missing on row i and free of NaN otherwise. *)
Theorem pass_policy_simple cx e D m ds :
  describe e = Ok m -> frame_wf D -> frame_rows D <> 0 -> used_cols D m <> [] ->
  frame_unordered D -> scalar_extras cx ->
  count_true (complete_mask D m) <> 0 ->
  simple_modelb D m = true -> frame_coveredb (complete_mask D m) D m = true ->
  design_matrices cx e D NaPass = Ok ds ->
  ds_nrows ds = frame_rows D /\
  design_matrices cx e D NaDrop = Ok (design_select (complete_mask D m) ds) /\
  forall i, i < frame_rows D -> common_rows_spec D i ds /\ group_rows_spec D i ds.
Proof.
  intros Hd Hwf Hn Hu Hun Hex Hc Hs Hcov H.
  split; [apply (pass_row_count cx e D m ds Hd Hwf Hex H)|]. split.
  - apply pass_drop_design; try assumption. apply simple_model_fine; assumption.
  - intros i Hi. apply (pass_nan_rows cx e D m ds i); try assumption. apply simple_model_nan. exact Hs.
Qed.

(** 3, last part ("the row equals the complete-data encoding"): a term is a function of the rows
    it is given.  For ANY mask [keep] under which the levels of the term's categorical components
    are kept -- in particular the rows on which the variables the term reads are observed -- the
    term typed and coded on the kept rows only is the selection of the term typed and coded on all
    rows: row i (kept) of the "pass" block is row [rank keep i] of the block built from the kept
    rows alone ([select_nth_rank]), whatever is missing elsewhere in the frame. *)
Theorem term_reselect keep D ex sq t s tt dt :
  List.length keep = frame_rows D -> count_true keep <> 0 ->
  frame_wf D -> frame_unordered D ->
  (forall k v, assoc k ex = Some v -> is_scalar v = true) ->
  Forall (comp_fine keep D ex sq false false) t ->
  set_type_term (DCtx ex sq) D false t = Ok tt -> set_data_term (frame_rows D) tt s = Ok dt ->
  exists tt', set_type_term (DCtx ex sq) (frame_select keep D) false t = Ok tt' /\
              set_data_term (count_true keep) tt' s = Ok (dterm_sel (sel_mask keep) dt) /\
              dt_labels (dterm_sel (sel_mask keep) dt) = dt_labels dt /\
              dt_rows (dterm_sel (sel_mask keep) dt) = select keep (dt_rows dt).
Proof.
  intros Hl Hc Hwf Hun Hex Hf Ht Hd.
  destruct (set_type_term_reselect keep (frame_rows D) Hl Hc D Hwf Hun ex Hex sq false t tt Hf Ht) as [Ht' Hg].
  exists (tterm_sel (sel_mask keep) tt). split; [exact Ht'|].
  pose proof (set_data_term_reselect keep (frame_rows D) Hl Hc sq tt s dt Hg Hd) as Hd'.
  rewrite <- Hl, seln_mask in Hd'. split; [exact Hd'|]. split; reflexivity.
Qed.

(* ------------------------------------------------------------------------------------------ *)
(** * H. Examples, non-vacuity, and the hypotheses are needed *)

Module PassPolicyExamples.
  Definition qq (z : Z) : cell := Some (qz z).
  Definition ex_cx : dctx := DCtx [] (fun q => q).
  Definition gete (s : string) : expr :=
    match Driver.parse_string s with Ok e => e | Err _ => ELiteral LNone None end.
  Definition m_of (e : expr) : model := match describe e with Ok m => m | Err _ => empty_model end.
  Definition show_rows (rows : list (list cell)) : list (list string) := map (map cshow) rows.
  Definition show_common (ds : design) :=
    map (fun t => (dt_name t, dt_labels t, show_rows (dt_rows t))) (ds_common ds).
  Definition show_group (ds : design) :=
    map (fun g => (dg_name g, dg_labels g, show_rows (dg_rows g))) (ds_group ds).

  (** Two incomplete rows: x is missing on row 2 (where f = "a", so that the indicator f[b] is 0
      there) and z is missing on row 3. *)
  Definition ex_D : frame :=
    [("y", ColNum true [qq 1; qq 2; qq 3; qq 4; qq 5; qq 6]);
     ("x", ColNum true [qq 10; qq 20; None; qq 40; qq 50; qq 60]);
     ("z", ColNum true [qq 1; qq 2; qq 3; None; qq 5; qq 6]);
     ("f", ColStr None [Some "a"; Some "b"; Some "a"; Some "b"; Some "a"; Some "b"]);
     ("g", ColStr None [Some "s"; Some "s"; Some "t"; Some "t"; Some "s"; Some "t"])].

  Definition ex_e : expr := Eval vm_compute in gete "y ~ x + f + x:f + I(x + z) + (x|g)".
  Definition ex_m : model := Eval vm_compute in m_of ex_e.

  Example ex_parsed : Driver.parse_string "y ~ x + f + x:f + I(x + z) + (x|g)" = Ok ex_e /\
                      describe ex_e = Ok ex_m.
  Proof. split; vm_compute; reflexivity. Qed.

  Lemma ex_wf : frame_wf ex_D.
  Proof. repeat constructor. Qed.
  Lemma ex_unord : frame_unordered ex_D.
  Proof. repeat constructor. Qed.
  Lemma ex_scalar : scalar_extras ex_cx.
  Proof. intros k v H. discriminate H. Qed.

  (* the hypotheses of [pass_policy_simple] hold *)
  Example ex_hypotheses :
    complete_mask ex_D ex_m = [true; true; false; false; true; true] /\
    simple_modelb ex_D ex_m = true /\
    frame_coveredb (complete_mask ex_D ex_m) ex_D ex_m = true /\
    used_cols ex_D ex_m <> [] /\ count_true (complete_mask ex_D ex_m) <> 0.
  Proof. repeat split; try (vm_compute; reflexivity); vm_compute; discriminate. Qed.

  (** The theorem applied: "pass" builds a design with 6 rows, "drop" builds its selection, and the
      NaN pattern of every row is the one the theorem gives.  The matrices, computed: *)
  Example ex_pass_drop :
    exists dsP,
      design_matrices ex_cx ex_e ex_D NaPass = Ok dsP /\
      design_matrices ex_cx ex_e ex_D NaDrop
      = Ok (design_select [true; true; false; false; true; true] dsP) /\
      ds_nrows dsP = 6 /\
      (forall i, i < 6 -> common_rows_spec ex_D i dsP /\ group_rows_spec ex_D i dsP) /\
      show_common dsP =
        [("Intercept", Some ["Intercept"], [["1"]; ["1"]; ["1"]; ["1"]; ["1"]; ["1"]]);
         ("x", Some ["x"], [["10"]; ["20"]; ["nan"]; ["40"]; ["50"]; ["60"]]);
         ("f", Some ["f[b]"], [["0"]; ["1"]; ["0"]; ["1"]; ["0"]; ["1"]]);
         ("x:f", Some ["x:f[b]"], [["0"]; ["20"]; ["nan"]; ["40"]; ["0"]; ["60"]]);
         ("I(x + z)", Some ["I(x + z)"], [["11"]; ["22"]; ["nan"]; ["nan"]; ["55"]; ["66"]])] /\
      show_group dsP =
        [("1|g", ["1|g[s]"; "1|g[t]"],
          [["1"; "0"]; ["1"; "0"]; ["0"; "1"]; ["0"; "1"]; ["1"; "0"]; ["0"; "1"]]);
         ("x|g", ["x|g[s]"; "x|g[t]"],
          [["10"; "0"]; ["20"; "0"]; ["nan"; "nan"]; ["0"; "40"]; ["50"; "0"]; ["0"; "60"]])] /\
      show_common (design_select [true; true; false; false; true; true] dsP) =
        [("Intercept", Some ["Intercept"], [["1"]; ["1"]; ["1"]; ["1"]]);
         ("x", Some ["x"], [["10"]; ["20"]; ["50"]; ["60"]]);
         ("f", Some ["f[b]"], [["0"]; ["1"]; ["0"]; ["1"]]);
         ("x:f", Some ["x:f[b]"], [["0"]; ["20"]; ["0"]; ["60"]]);
         ("I(x + z)", Some ["I(x + z)"], [["11"]; ["22"]; ["55"]; ["66"]])].
  Proof.
    destruct (design_matrices ex_cx ex_e ex_D NaPass) as [dsP|] eqn:EP; [|vm_compute in EP; discriminate EP].
    exists dsP. split; [reflexivity|].
    destruct ex_hypotheses as (Ek & Hs & Hcov & Hu & Hc).
    destruct (pass_policy_simple ex_cx ex_e ex_D ex_m dsP (proj2 ex_parsed) ex_wf ltac:(discriminate) Hu
                                 ex_unord ex_scalar Hc Hs Hcov EP) as (N & Hdrop & Hnan).
    rewrite Ek in Hdrop. split; [exact Hdrop|]. split; [exact N|]. split; [exact Hnan|].
    vm_compute in EP. injection EP as <-. repeat split; vm_compute; reflexivity.
  Qed.

  (** Read off the theorem on the example: on row 2 the terms that read x are all NaN -- including
      x:f[b], whose indicator is 0 there -- and f is not; on row 3 only I(x + z) is NaN. *)
  Example ex_row2 :
    forall dsP, design_matrices ex_cx ex_e ex_D NaPass = Ok dsP ->
      map (fun t => (dt_name t, dterm_reads t)) (ds_common dsP)
      = [("Intercept", []); ("x", ["x"]); ("f", ["f"]); ("x:f", ["x"; "f"]); ("I(x + z)", ["x"; "z"])] /\
      reads_missing ex_D ["x"; "f"] 2 /\ ~ reads_missing ex_D ["f"] 2 /\
      ~ reads_missing ex_D ["x"; "f"] 3 /\ reads_missing ex_D ["x"; "z"] 3.
  Proof.
    intros dsP H. vm_compute in H. injection H as <-. split; [vm_compute; reflexivity|].
    split; [exists "x"; split; [left; reflexivity|]; eexists; eexists; split; reflexivity|].
    split; [intros (nm & [<-|[]] & b & xs & E & _); discriminate E|].
    split.
    - intros (nm & [<-|[<-|[]]] & b & xs & E & Hx); vm_compute in E; try discriminate E.
      injection E as <- <-. discriminate Hx.
    - exists "z". split; [right; left; reflexivity|]. eexists; eexists; split; reflexivity.
  Qed.

  (** [levels_kept] / [frame_coveredb] is needed: when a level occurs on incomplete rows only,
      "drop" loses the level and the two policies give different columns -- for a plain
      categorical variable, everything else satisfying the hypotheses. *)
  Definition bad_D : frame :=
    [("y", ColNum true [qq 1; qq 2; qq 3; qq 4]);
     ("x", ColNum true [qq 10; None; qq 30; qq 40]);
     ("f", ColStr None [Some "a"; Some "b"; Some "c"; Some "a"])].
  Definition bad_e : expr := Eval vm_compute in gete "y ~ x + f".
  Definition bad_m : model := Eval vm_compute in m_of bad_e.

  Theorem levels_not_kept_refuted :
    exists cx e D m dsP dsD,
      describe e = Ok m /\ frame_wf D /\ frame_unordered D /\ scalar_extras cx /\
      used_cols D m <> [] /\ count_true (complete_mask D m) <> 0 /\ simple_modelb D m = true /\
      frame_coveredb (complete_mask D m) D m = false /\
      design_matrices cx e D NaPass = Ok dsP /\ design_matrices cx e D NaDrop = Ok dsD /\
      map dt_labels (ds_common dsP) = [Some ["Intercept"]; Some ["x"]; Some ["f[b]"; "f[c]"]] /\
      map dt_labels (ds_common dsD) = [Some ["Intercept"]; Some ["x"]; Some ["f[c]"]] /\
      dsD <> design_select (complete_mask D m) dsP.
  Proof.
    destruct (design_matrices ex_cx bad_e bad_D NaPass) as [dsP|] eqn:EP; [|vm_compute in EP; discriminate EP].
    destruct (design_matrices ex_cx bad_e bad_D NaDrop) as [dsD|] eqn:ED; [|vm_compute in ED; discriminate ED].
    exists ex_cx, bad_e, bad_D, bad_m, dsP, dsD.
    vm_compute in EP. injection EP as <-. vm_compute in ED. injection ED as <-.
    repeat split; try (vm_compute; reflexivity); try (vm_compute; discriminate); try exact ex_scalar;
      try (repeat constructor).
  Qed.

  (** Outside the class (the boundary of clause 3): C(x) of a NUMERIC column with a missing value
      is a categorical component; the model codes the missing row as a row of zeros, not NaN.
      (For str / Categorical columns with missing values under "pass" the driver refuses the
      input: Driver.pass_keeps_missing_level.) *)
  Definition cx_D : frame :=
    [("y", ColNum true [qq 1; qq 2; qq 3; qq 4]);
     ("x", ColNum true [qq 1; None; qq 2; qq 1])].
  Definition cx_e : expr := Eval vm_compute in gete "y ~ C(x)".

  Example categorical_of_missing_numeric_is_zero :
    exists ds, design_matrices ex_cx cx_e cx_D NaPass = Ok ds /\
               show_common ds = [("Intercept", Some ["Intercept"], [["1"]; ["1"]; ["1"]; ["1"]]);
                                 ("C(x)", Some ["C(x)[2]"], [["0"]; ["0"]; ["1"]; ["0"]])] /\
               simple_modelb cx_D (m_of cx_e) = false.
  Proof.
    destruct (design_matrices ex_cx cx_e cx_D NaPass) as [ds|] eqn:E; [|vm_compute in E; discriminate E].
    exists ds. split; [reflexivity|]. vm_compute in E. injection E as <-. split; vm_compute; reflexivity.
  Qed.

  (** A stateful transform is outside the class for a reason: under "pass" the mean that
      center(x) memorises is NaN, so EVERY row of the term is NaN, also the complete ones. *)
  Definition st_e : expr := Eval vm_compute in gete "y ~ center(x)".
  Example stateful_all_nan :
    exists ds, design_matrices ex_cx st_e cx_D NaPass = Ok ds /\
               show_common ds = [("Intercept", Some ["Intercept"], [["1"]; ["1"]; ["1"]; ["1"]]);
                                 ("center(x)", Some ["center(x)"], [["nan"]; ["nan"]; ["nan"]; ["nan"]])] /\
               simple_modelb cx_D (m_of st_e) = false.
  Proof.
    destruct (design_matrices ex_cx st_e cx_D NaPass) as [ds|] eqn:E; [|vm_compute in E; discriminate E].
    exists ds. split; [reflexivity|]. vm_compute in E. injection E as <-. split; vm_compute; reflexivity.
  Qed.

End PassPolicyExamples.

Print Assumptions nan_times_zero.
Print Assumptions eval_model_reselect.
Print Assumptions pass_drop_design.
Print Assumptions pass_drop_rows.
Print Assumptions arith_nan.
Print Assumptions term_row_nan.
Print Assumptions gterm_row_nan.
Print Assumptions pass_nan_rows.
Print Assumptions simple_model_fine.
Print Assumptions pass_policy_simple.
Print Assumptions term_reselect.
Print Assumptions PassPolicyExamples.ex_pass_drop.
Print Assumptions PassPolicyExamples.levels_not_kept_refuted.
