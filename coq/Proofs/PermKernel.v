(* Property C08, row order: the estimated quantities do not depend on the order of the rows.
   Kernel lemmas: [mean_perm], [variance_perm], [cmean_perm], [cstd_perm] (sums over a list),
   [isort_perm_eq] (insertion sort with a total antisymmetric transitive order is a function of the
   multiset), [sort_levels_perm] (levels are sorted unique values).
   The lifting to call trees and components is in Prediction.v (Section Refit). *)
From Verif Require Import Base Tokens Lazy Algebra Coding Contrasts Frame Eval Design.
From Verif Require Import DesignStructure DesignCoding.
From Coq Require Import Lia Permutation Sorting.Sorted OrderedTypeEx.
Local Close Scope Qc_scope.
Local Close Scope Q_scope.
Local Open Scope string_scope.
Local Open Scope list_scope.
Local Open Scope nat_scope.

(* ------------------------------------------------------------------------------------------ *)
(** * Sums *)

Lemma qsum_acc l : forall a, fold_left Qcplus l a = (a + fold_left Qcplus l q0)%Qc.
Proof.
  induction l as [|x l IH]; intros a; simpl.
  - change q0 with 0%Qc. ring.
  - rewrite (IH (a + x)%Qc), (IH (q0 + x)%Qc). change q0 with 0%Qc. ring.
Qed.

Lemma qsum_cons x l : qsum (x :: l) = (x + qsum l)%Qc.
Proof. unfold qsum. simpl. rewrite qsum_acc. change q0 with 0%Qc. ring. Qed.

Lemma qsum_perm l l' : Permutation l l' -> qsum l = qsum l'.
Proof.
  induction 1 as [|x l l' _ IH|x y l|l l' l'' _ IH1 _ IH2].
  - reflexivity.
  - rewrite !qsum_cons, IH. reflexivity.
  - rewrite !qsum_cons. ring.
  - congruence.
Qed.

Lemma qlen_perm l l' : Permutation l l' -> qlen l = qlen l'.
Proof. intros H. unfold qlen. rewrite (Permutation_length H). reflexivity. Qed.

Theorem mean_perm l l' : Permutation l l' -> mean l = mean l'.
Proof. intros H. unfold mean. rewrite (qsum_perm _ _ H), (qlen_perm _ _ H). reflexivity. Qed.

Theorem variance_perm l l' : Permutation l l' -> variance l = variance l'.
Proof.
  intros H. unfold variance. rewrite (mean_perm _ _ H), (qlen_perm _ _ H).
  rewrite (qsum_perm _ _ (Permutation_map _ H)). reflexivity.
Qed.

Lemma all_some_perm xs xs' :
  Permutation xs xs' ->
  match all_some xs, all_some xs' with
  | Some l, Some l' => Permutation l l'
  | None, None => True
  | _, _ => False
  end.
Proof.
  induction 1 as [|x l l' _ IH|x y l|l l' l'' _ IH1 _ IH2]; simpl.
  - constructor.
  - destruct x; destruct (all_some l), (all_some l'); try exact I; try contradiction.
    apply perm_skip. assumption.
  - destruct x, y; destruct (all_some l); try exact I; try apply perm_swap; try apply Permutation_refl.
  - destruct (all_some l), (all_some l'), (all_some l''); try exact I; try contradiction.
    eapply Permutation_trans; eassumption.
Qed.

Theorem cmean_perm xs xs' : Permutation xs xs' -> cmean xs = cmean xs'.
Proof.
  intros H. unfold cmean. pose proof (all_some_perm _ _ H) as P.
  destruct (all_some xs), (all_some xs'); try contradiction; [|reflexivity].
  rewrite (mean_perm _ _ P). reflexivity.
Qed.

Theorem cstd_perm sq xs xs' : Permutation xs xs' -> cstd sq xs = cstd sq xs'.
Proof.
  intros H. unfold cstd. pose proof (all_some_perm _ _ H) as P.
  destruct (all_some xs), (all_some xs'); try contradiction; [|reflexivity].
  rewrite (variance_perm _ _ P). reflexivity.
Qed.

(* ------------------------------------------------------------------------------------------ *)
(** * Sorting *)

Section Sort.
  Variable T : Type.
  Variable leb : T -> T -> bool.
  Hypothesis leb_total : forall a b, leb a b = false -> leb b a = true.
  Hypothesis leb_trans : forall a b c, leb a b = true -> leb b c = true -> leb a c = true.
  Hypothesis leb_antisym : forall a b, leb a b = true -> leb b a = true -> a = b.

  Let le (a b : T) : Prop := leb a b = true.

  Lemma insert_sorted_sorted x l : StronglySorted le l -> StronglySorted le (insert_sorted T leb x l).
  Proof.
    induction 1 as [|y l Hs IH Hy]; simpl; [repeat constructor|].
    destruct (leb x y) eqn:E.
    - constructor; [constructor; assumption|]. constructor; [exact E|].
      eapply Forall_impl; [|exact Hy]. intros z Hz. exact (leb_trans _ _ _ E Hz).
    - constructor; [exact IH|]. apply Forall_forall. intros z Hz.
      apply (Permutation_in _ (insert_sorted_perm leb x l)) in Hz. destruct Hz as [<-|Hz].
      + apply leb_total. exact E.
      + rewrite Forall_forall in Hy. apply Hy. exact Hz.
  Qed.

  Lemma isort_sorted l : StronglySorted le (isort leb l).
  Proof. induction l as [|x l IH]; simpl; [constructor|]. apply insert_sorted_sorted. exact IH. Qed.

  Lemma sorted_perm_eq l1 : forall l2,
    StronglySorted le l1 -> StronglySorted le l2 -> Permutation l1 l2 -> l1 = l2.
  Proof.
    induction l1 as [|x t1 IH]; intros l2 S1 S2 P.
    - apply Permutation_nil in P. subst. reflexivity.
    - destruct l2 as [|y t2]; [apply Permutation_sym, Permutation_nil in P; discriminate|].
      inversion S1 as [|? ? S1' F1]; subst. inversion S2 as [|? ? S2' F2]; subst.
      assert (E : x = y).
      { assert (Hy : In y (x :: t1)) by (apply (Permutation_in _ (Permutation_sym P)); left; reflexivity).
        assert (Hx : In x (y :: t2)) by (apply (Permutation_in _ P); left; reflexivity).
        destruct Hy as [Hy|Hy]; [assumption|]. destruct Hx as [Hx|Hx]; [congruence|].
        rewrite Forall_forall in F1, F2. apply leb_antisym; [apply F1|apply F2]; assumption. }
      subst y. f_equal. apply IH; try assumption. eapply Permutation_cons_inv. exact P.
  Qed.

  (** Insertion sort is a function of the multiset of its input. *)
  Theorem isort_perm_eq l l' : Permutation l l' -> isort leb l = isort leb l'.
  Proof.
    intros P. apply sorted_perm_eq; try apply isort_sorted.
    eapply Permutation_trans; [apply isort_perm|].
    eapply Permutation_trans; [exact P|]. apply Permutation_sym, isort_perm.
  Qed.
End Sort.

Lemma nodup_by_In_rev {T} (eqb : T -> T -> bool) l y :
  (forall a b, eqb a b = true -> a = b) -> In y l -> In y (nodup_by eqb l).
Proof.
  intros Heq. induction l as [|x l IH]; simpl; [tauto|]. intros [->|H].
  - destruct (existsb (eqb y) l) eqn:E; [|left; reflexivity].
    apply IH. apply existsb_exists in E as (z & Hz & Ez). apply Heq in Ez. subst; assumption.
  - destruct (existsb (eqb x) l); [apply IH; assumption|right; apply IH; assumption].
Qed.

Lemma nodup_by_perm {T} (eqb : T -> T -> bool) l l' :
  (forall a b, eqb a b = true <-> a = b) ->
  Permutation l l' -> Permutation (nodup_by eqb l) (nodup_by eqb l').
Proof.
  intros Heq P. apply NoDup_Permutation; try (apply nodup_by_NoDup; assumption).
  intros x. split; intros H; apply nodup_by_In in H;
    (apply nodup_by_In_rev; [intros a b; apply Heq|]).
  - apply (Permutation_in _ P). assumption.
  - apply (Permutation_in _ (Permutation_sym P)). assumption.
Qed.

Lemma str_leb_spec a b : str_leb a b = true <-> a = b \/ String_as_OT.lt a b.
Proof.
  unfold str_leb. change (String.compare a b) with (String_as_OT.cmp a b).
  destruct (String_as_OT.cmp a b) eqn:E.
  - apply String_as_OT.cmp_eq in E. tauto.
  - apply String_as_OT.cmp_lt in E. tauto.
  - split; [discriminate|]. intros [->|H].
    + assert (String_as_OT.cmp b b = Eq) by (apply String_as_OT.cmp_eq; reflexivity). congruence.
    + apply String_as_OT.cmp_lt in H. congruence.
Qed.

Lemma str_leb_total a b : str_leb a b = false -> str_leb b a = true.
Proof.
  unfold str_leb. change String.compare with String_as_OT.cmp.
  rewrite (String_as_OT.cmp_antisym b a). destruct (String_as_OT.cmp a b); simpl; congruence.
Qed.

Lemma str_leb_trans a b c : str_leb a b = true -> str_leb b c = true -> str_leb a c = true.
Proof.
  rewrite !str_leb_spec. intros [->|H1] [->|H2]; auto.
  right. eapply String_as_OT.lt_trans; eassumption.
Qed.

Lemma str_leb_antisym a b : str_leb a b = true -> str_leb b a = true -> a = b.
Proof.
  rewrite !str_leb_spec. intros [->|H1] [E|H2]; auto.
  exfalso. apply (String_as_OT.lt_not_eq a a); [|reflexivity].
  eapply String_as_OT.lt_trans; eassumption.
Qed.

Lemma Zleb_total a b : Z.leb a b = false -> Z.leb b a = true.
Proof. intros H. apply Z.leb_gt in H. apply Z.leb_le. lia. Qed.
Lemma Zleb_trans a b c : Z.leb a b = true -> Z.leb b c = true -> Z.leb a c = true.
Proof. rewrite !Z.leb_le. lia. Qed.
Lemma Zleb_antisym a b : Z.leb a b = true -> Z.leb b a = true -> a = b.
Proof. rewrite !Z.leb_le. lia. Qed.

(** The levels computed from the data do not depend on the order of the data. *)
Theorem sort_levels_perm num l l' : Permutation l l' -> sort_levels num l = sort_levels num l'.
Proof.
  intros P. unfold sort_levels, sorted_unique_str. destruct num.
  - f_equal. apply (isort_perm_eq Z Z.leb Zleb_total Zleb_trans Zleb_antisym).
    apply nodup_by_perm; [exact Z.eqb_eq|]. apply Permutation_flat_map. exact P.
  - apply (isort_perm_eq string str_leb str_leb_total str_leb_trans str_leb_antisym).
    apply nodup_by_perm; [exact String.eqb_eq|exact P].
Qed.

Lemma present_perm d d' : Permutation d d' -> Permutation (present d) (present d').
Proof. intros P. unfold present. apply Permutation_flat_map. exact P. Qed.
