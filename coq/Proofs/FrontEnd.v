(* The front end on STRINGS: scanning followed by parsing accepts a text exactly when the text is a
   separated rendering of well-formed lexemes whose token list (with the implicit intercept inserted and
   the end marker appended) is a sentence of the precedence grammar, and the tree is the grammar's.
   Combines ScannerProofs.scan_loop_iff with ParserComplete.parse_iff. *)
From Verif Require Import Base Tokens Scanner Parser Grammar ParserSound ParserComplete ScannerProofs Driver.

Definition chars_of (s : string) : chars := list_ascii_of_string s.

Theorem parse_string_iff s e :
  parse_string s = Ok e <->
  exists ts ws toks,
    chars_of s = render ts ws /\ chars_of s <> [] /\
    forallb wf_lexeme ts = true /\ valid_ws ts ws /\ separated ts ws = true /\
    finish true ts = Ok toks /\ Sentence toks e.
Proof.
  unfold parse_string, scan, chars_of. split.
  - intros H. apply bind_ok in H as (toks & Hscan & Hparse).
    destruct (list_ascii_of_string s) as [|c cs] eqn:Ecs; [discriminate Hscan|].
    rewrite scan_chars_finish in Hscan by discriminate.
    apply bind_ok in Hscan as (ts & Hloop & Hfin).
    apply scan_loop_iff in Hloop as (ws & Hwf & Hws & Hsep & Hrender).
    exists ts, ws, toks.
    split; [exact Hrender|]. split; [discriminate|]. split; [exact Hwf|]. split; [exact Hws|].
    split; [exact Hsep|]. split; [exact Hfin|]. now apply parse_iff.
  - intros (ts & ws & toks & Hr & Hne & Hwf & Hws & Hsep & Hfin & Hsent).
    rewrite scan_chars_finish by exact Hne.
    rewrite Hr. rewrite scan_loop_render_exact by assumption. cbn [bind]. rewrite Hfin. cbn [bind].
    now apply parse_iff.
Qed.

(* whitespace never changes the tree (or the rejection) *)
Corollary parse_string_whitespace_irrelevant s s' ts ws ws' :
  chars_of s = render ts ws -> chars_of s' = render ts ws' -> ts <> [] ->
  forallb wf_lexeme ts = true ->
  valid_ws ts ws -> separated ts ws = true ->
  valid_ws ts ws' -> separated ts ws' = true ->
  parse_string s = parse_string s'.
Proof.
  intros Hs Hs' Hne Hwf Hws Hsep Hws' Hsep'. unfold parse_string, scan. fold (chars_of s) (chars_of s').
  rewrite Hs, Hs'. now rewrite (scan_whitespace_irrelevant true ts ws ws').
Qed.

Print Assumptions parse_string_iff.
Print Assumptions parse_string_whitespace_irrelevant.
