(* Structural theorems about the design-matrix model (Model/Design.v):
   A. labelled products: the labelled row of an interaction is the product of the labelled rows of
      its components;
   D. slices and hstack widths;
   E. row locality.
   Parts B and C (treatment coding, group-specific blocks) are in DesignCoding.v. *)
From Verif Require Import Base Coding Contrasts Frame Eval Design.
From Coq Require Import Lia.
Local Close Scope Qc_scope.
Local Close Scope Q_scope.
Local Open Scope string_scope.
Local Open Scope list_scope.
Local Open Scope nat_scope.

(* ------------------------------------------------------------------------------------------ *)
(** * Small list lemmas *)

Lemma combine_app {A B} (l1 l2 : list A) (x1 x2 : list B) :
  List.length l1 = List.length x1 ->
  combine (l1 ++ l2) (x1 ++ x2) = combine l1 x1 ++ combine l2 x2.
Proof.
  revert x1; induction l1 as [|a l1 IH]; intros [|x x1] H; simpl in *; try discriminate; auto.
  f_equal. apply IH. lia.
Qed.

Lemma combine_map {A B A' B'} (f : A -> A') (g : B -> B') (l : list A) (x : list B) :
  combine (map f l) (map g x) = map (fun p => (f (fst p), g (snd p))) (combine l x).
Proof.
  revert x; induction l as [|a l IH]; intros [|b x]; simpl; auto. f_equal. apply IH.
Qed.

Lemma length_flat_map_const {A B} (f : A -> list B) (n : nat) (l : list A) :
  (forall a, In a l -> List.length (f a) = n) -> List.length (flat_map f l) = List.length l * n.
Proof.
  induction l as [|a l IH]; intros H; simpl; auto.
  rewrite app_length, IH by (intros; apply H; right; assumption).
  rewrite H by (left; reflexivity). reflexivity.
Qed.

(* the generic "two nested loops" lemma: pairing the outputs of two nested loops that run over
   lists of equal lengths is the nested loop over the paired lists *)
Lemma combine_flat_map {A B A' B' C D}
      (f : A -> A' -> C) (g : B -> B' -> D)
      (la : list A) (xa : list B) (lb : list A') (xb : list B') :
  List.length la = List.length xa ->
  List.length lb = List.length xb ->
  combine (flat_map (fun a => map (fun b => f a b) lb) la)
          (flat_map (fun x => map (fun y => g x y) xb) xa)
  = flat_map (fun p => map (fun q => (f (fst p) (fst q), g (snd p) (snd q))) (combine lb xb))
             (combine la xa).
Proof.
  intros Ha Hb. revert xa Ha; induction la as [|a la IH]; intros [|x xa] Ha; simpl in *;
    try discriminate; auto.
  rewrite combine_app by (rewrite !map_length; exact Hb).
  f_equal; [|apply IH; lia].
  apply (combine_map (f a) (g x)).
Qed.

Lemma nth_flat_map_const {A B} (f : A -> list B) (n : nat) (l : list A) (da : A) (d : B) ja jb :
  (forall a, List.length (f a) = n) -> ja < List.length l -> jb < n ->
  nth (ja * n + jb) (flat_map f l) d = nth jb (f (nth ja l da)) d.
Proof.
  intros Hf. revert ja; induction l as [|a l IH]; intros ja Hja Hjb; simpl in *; [lia|].
  destruct ja as [|ja].
  - simpl. apply app_nth1. rewrite Hf; auto.
  - rewrite app_nth2 by (rewrite Hf; simpl; lia).
    rewrite Hf. replace (S ja * n + jb - n) with (ja * n + jb) by (simpl; lia).
    apply IH; auto; lia.
Qed.

(* ------------------------------------------------------------------------------------------ *)
(** * A. Labelled products *)

Definition lrow := list (string * cell).

(* one labelled entry times another *)
Definition lmul (sep : string) (p q : string * cell) : string * cell :=
  ((fst p ++ sep ++ fst q)%string, cmul (snd p) (snd q)).

(* the specification-level product: left factor slowest *)
Definition lprod (sep : string) (a b : lrow) : lrow :=
  flat_map (fun '(la, va) => map (fun '(lb, vb) => ((la ++ sep ++ lb)%string, cmul va vb)) b) a.

Lemma lprod_lmul sep a b : lprod sep a b = flat_map (fun p => map (fun q => lmul sep p q) b) a.
Proof.
  unfold lprod, lmul. apply flat_map_ext; intros [la va]. apply map_ext; intros [lb vb]. reflexivity.
Qed.

(* one step of label_product *)
Definition label_step (sep : string) (acc l : list string) : list string :=
  flat_map (fun a => map (fun b => (a ++ sep ++ b)%string) l) acc.

Lemma label_product_cons l ls sep : label_product (l :: ls) sep = fold_left (label_step sep) ls l.
Proof. reflexivity. Qed.

Lemma label_step_length sep a b :
  List.length (label_step sep a b) = List.length a * List.length b.
Proof. unfold label_step. apply length_flat_map_const. intros; apply map_length. Qed.

Lemma row_kron_length x y : List.length (row_kron x y) = List.length x * List.length y.
Proof. unfold row_kron. apply length_flat_map_const. intros; apply map_length. Qed.

Lemma lprod_length sep a b : List.length (lprod sep a b) = List.length a * List.length b.
Proof. rewrite lprod_lmul. apply length_flat_map_const. intros; apply map_length. Qed.

Lemma combine_step_kron sep la xa lb xb :
  List.length la = List.length xa -> List.length lb = List.length xb ->
  combine (label_step sep la lb) (row_kron xa xb) = lprod sep (combine la xa) (combine lb xb).
Proof.
  intros Ha Hb. unfold label_step, row_kron.
  rewrite (combine_flat_map (fun a b => (a ++ sep ++ b)%string) cmul) by assumption.
  rewrite lprod_lmul. reflexivity.
Qed.

(** The binary lemma, as stated in the task. *)
Theorem combine_kron sep (la lb : list string) (xa xb : list cell) :
  List.length la = List.length xa -> List.length lb = List.length xb ->
  combine (label_product [la; lb] sep) (row_kron xa xb) = lprod sep (combine la xa) (combine lb xb).
Proof. apply combine_step_kron. Qed.

(** n-ary: any number of components, lengths matching componentwise. *)
Theorem combine_kron_fold sep (ls : list (list string)) (xs : list (list cell)) l0 x0 :
  List.length l0 = List.length x0 ->
  Forall2 (fun l x => List.length l = List.length x) ls xs ->
  combine (label_product (l0 :: ls) sep) (fold_left row_kron xs x0)
  = fold_left (lprod sep) (zip_with (@combine string cell) ls xs) (combine l0 x0).
Proof.
  rewrite label_product_cons. intros H0 H. revert l0 x0 H0.
  induction H as [|l x ls xs Hlx H IH]; intros l0 x0 H0; simpl; [reflexivity|].
  unfold zip_with in *; simpl. rewrite <- combine_step_kron by assumption.
  apply IH. rewrite label_step_length, row_kron_length. congruence.
Qed.

(** Number of labels = number of columns. *)
Theorem label_product_length_fold sep (ls : list (list string)) (xs : list (list cell)) l0 x0 :
  List.length l0 = List.length x0 ->
  Forall2 (fun l x => List.length l = List.length x) ls xs ->
  List.length (label_product (l0 :: ls) sep) = List.length (fold_left row_kron xs x0).
Proof.
  rewrite label_product_cons. intros H0 H. revert l0 x0 H0.
  induction H as [|l x ls xs Hlx H IH]; intros l0 x0 H0; simpl; [assumption|].
  apply IH. rewrite label_step_length, row_kron_length. congruence.
Qed.

Lemma label_product_length sep l0 ls :
  List.length (label_product (l0 :: ls) sep) = fold_left Nat.mul (map (@List.length _) ls) (List.length l0).
Proof.
  rewrite label_product_cons. revert l0; induction ls as [|l ls IH]; intros l0; simpl; auto.
  rewrite IH, label_step_length. reflexivity.
Qed.

(** ** What a given column holds *)

(* column [ja * |b| + jb] of a binary product *)
Lemma lprod_nth sep a b ja jb d :
  ja < List.length a -> jb < List.length b ->
  nth (ja * List.length b + jb) (lprod sep a b) (lmul sep d d) = lmul sep (nth ja a d) (nth jb b d).
Proof.
  intros Ha Hb. rewrite lprod_lmul.
  rewrite (nth_flat_map_const _ (List.length b) a d) by (auto; intros; apply map_length).
  rewrite (nth_indep _ _ (lmul sep (nth ja a d) d)) by (rewrite map_length; assumption).
  apply (map_nth (lmul sep (nth ja a d))).
Qed.

(* every column index of a binary product decomposes *)
Lemma lprod_nth_divmod sep a b j d :
  j < List.length (lprod sep a b) ->
  nth j (lprod sep a b) (lmul sep d d)
  = lmul sep (nth (j / List.length b) a d) (nth (j mod List.length b) b d).
Proof.
  rewrite lprod_length. intros Hj.
  assert (Hb : List.length b <> 0) by (intros E; rewrite E in Hj; lia).
  rewrite <- lprod_nth.
  - f_equal. rewrite (Nat.div_mod j (List.length b)) at 1 by assumption. lia.
  - apply Nat.div_lt_upper_bound; auto. lia.
  - apply Nat.mod_upper_bound; auto.
Qed.

(* mixed-radix column index, left factor slowest: the components chosen are j0 in c0, then js *)
Definition mixed_index (j0 : nat) (js : list nat) (widths : list nat) : nat :=
  fold_left (fun acc jw => acc * snd jw + fst jw) (combine js widths) j0.

Lemma lprod_nth_error sep a b ja jb p q :
  nth_error a ja = Some p -> nth_error b jb = Some q ->
  nth_error (lprod sep a b) (ja * List.length b + jb) = Some (lmul sep p q).
Proof.
  intros Ha Hb.
  assert (La : ja < List.length a) by (apply nth_error_Some; congruence).
  assert (Lb : jb < List.length b) by (apply nth_error_Some; congruence).
  assert (L : ja * List.length b + jb < List.length (lprod sep a b)) by (rewrite lprod_length; nia).
  rewrite (nth_error_nth' _ (lmul sep p p) L).
  rewrite (nth_error_nth' _ p La) in Ha. rewrite (nth_error_nth' _ p Lb) in Hb.
  injection Ha as Ha; injection Hb as Hb.
  rewrite lprod_nth by assumption. congruence.
Qed.

(** n-ary column lemma: pick entry [j0] of the first component and entries [js] of the others;
    the column of the product at the mixed-radix index holds the product of the picked entries,
    under the label made of the picked labels. *)
Theorem lprod_fold_nth_error sep (cs : list lrow) : forall (c0 : lrow) j0 js p0 ps,
  nth_error c0 j0 = Some p0 ->
  Forall2 (fun jc p => nth_error (snd jc) (fst jc) = Some p) (combine js cs) ps ->
  List.length js = List.length cs ->
  nth_error (fold_left (lprod sep) cs c0) (mixed_index j0 js (map (@List.length _) cs))
  = Some (fold_left (lmul sep) ps p0).
Proof.
  induction cs as [|c cs IH]; intros c0 j0 js p0 ps H0 H Hl.
  - destruct js; [|discriminate]. inversion H; subst. simpl. exact H0.
  - destruct js as [|j js]; [discriminate|]. simpl in H. inversion H as [|jc p l ps' Hj Hr]; subst.
    simpl in Hj. unfold mixed_index; simpl.
    apply (IH (lprod sep c0 c) (j0 * List.length c + j) js (lmul sep p0 p) ps').
    + apply lprod_nth_error; assumption.
    + exact Hr.
    + simpl in Hl; lia.
Qed.

(** ... and every column of an n-ary product arises this way. *)
Theorem lprod_fold_index_onto sep (cs : list lrow) : forall (c0 : lrow) j,
  j < List.length (fold_left (lprod sep) cs c0) ->
  exists j0 js, j0 < List.length c0 /\ Forall2 (fun j c => j < List.length c) js cs /\
                j = mixed_index j0 js (map (@List.length _) cs).
Proof.
  induction cs as [|c cs IH]; intros c0 j Hj; simpl in *.
  - exists j, []. repeat split; auto.
  - destruct (IH _ _ Hj) as (j1 & js & H1 & Hjs & E).
    rewrite lprod_length in H1.
    assert (Hc : List.length c <> 0) by (intros E0; rewrite E0 in H1; lia).
    exists (j1 / List.length c), (j1 mod List.length c :: js). repeat split.
    + apply Nat.div_lt_upper_bound; auto. lia.
    + constructor; auto. apply Nat.mod_upper_bound; auto.
    + unfold mixed_index; simpl. fold (mixed_index (j1 / List.length c * List.length c + j1 mod List.length c) js (map (@List.length _) cs)).
      rewrite E. f_equal. rewrite (Nat.div_mod j1 (List.length c)) at 1 by assumption. lia.
Qed.

(* ------------------------------------------------------------------------------------------ *)
(** * Lifting to matrices (lists of rows) and to [set_data_term] *)

Lemma bind_ok {A B} (r : res A) (f : A -> res B) b :
  bind r f = Ok b -> exists a, r = Ok a /\ f a = Ok b.
Proof. destruct r as [a|k]; simpl; intros H; [eauto | discriminate]. Qed.

Lemma mapM_ok {A B} (f : A -> res B) l ys :
  mapM f l = Ok ys -> Forall2 (fun x y => f x = Ok y) l ys.
Proof.
  revert ys; induction l as [|x l IH]; intros ys H; simpl in H.
  - injection H as <-. constructor.
  - apply bind_ok in H as (y & Hy & H). apply bind_ok in H as (ys' & Hys & H).
    injection H as <-. constructor; auto.
Qed.

Lemma mapM_length {A B} (f : A -> res B) l ys : mapM f l = Ok ys -> List.length ys = List.length l.
Proof. intros H. apply mapM_ok in H. induction H; simpl; congruence. Qed.

Lemma row_kron_nil_r x : row_kron x [] = [].
Proof. unfold row_kron. induction x; simpl; auto. Qed.

Lemma zip_with_nil_r {X Y Z} (f : X -> Y -> Z) a : zip_with f a [] = [].
Proof. unfold zip_with. destruct a; reflexivity. Qed.

Lemma zip_with_cons {X Y Z} (f : X -> Y -> Z) x a y b :
  zip_with f (x :: a) (y :: b) = f x y :: zip_with f a b.
Proof. reflexivity. Qed.

Lemma zip_with_length {X Y Z} (f : X -> Y -> Z) a b :
  List.length (zip_with f a b) = Nat.min (List.length a) (List.length b).
Proof. unfold zip_with. rewrite map_length. apply combine_length. Qed.

Lemma zip_with_map {X Y Z T} (f : X -> Y -> Z) (g : T -> X) (h : T -> Y) l :
  zip_with f (map g l) (map h l) = map (fun t => f (g t) (h t)) l.
Proof. induction l as [|t l IH]; [reflexivity|]. simpl. rewrite zip_with_cons. f_equal. exact IH. Qed.

(* row i of a row-wise Kronecker product; out of range both sides are the empty row *)
Lemma rows_kron_nth a b i : nth i (rows_kron a b) [] = row_kron (nth i a []) (nth i b []).
Proof.
  unfold rows_kron. revert b i; induction a as [|x a IH]; intros b i.
  - destruct i; reflexivity.
  - destruct b as [|y b].
    + rewrite zip_with_nil_r. destruct i; simpl; rewrite row_kron_nil_r; reflexivity.
    + rewrite zip_with_cons. destruct i; simpl; auto.
Qed.

Lemma fold_rows_kron_nth rs : forall r0 i,
  nth i (fold_left rows_kron rs r0) [] = fold_left row_kron (map (fun r => nth i r []) rs) (nth i r0 []).
Proof.
  induction rs as [|r rs IH]; intros r0 i; simpl; [reflexivity|].
  rewrite IH, rows_kron_nth. reflexivity.
Qed.

Lemma rows_kron_length a b : List.length (rows_kron a b) = Nat.min (List.length a) (List.length b).
Proof. apply zip_with_length. Qed.

Lemma fold_rows_kron_length rs : forall r0 n,
  List.length r0 = n -> Forall (fun r => List.length r = n) rs ->
  List.length (fold_left rows_kron rs r0) = n.
Proof.
  induction rs as [|r rs IH]; intros r0 n H0 H; simpl; [assumption|].
  inversion H; subst. apply IH; auto. rewrite rows_kron_length. lia.
Qed.

(** A component whose label count matches the width of each of its rows. *)
Definition dc_labs (d : dcomp) : list string := match dc_labels d with Some l => l | None => [] end.

Definition dcomp_wf (d : dcomp) : Prop :=
  exists labs, dc_labels d = Some labs /\
               Forall (fun r => List.length r = List.length labs) (dc_rows d).

(* the labelled row of observation i in component d *)
Definition comp_lrow (i : nat) (d : dcomp) : lrow := combine (dc_labs d) (nth i (dc_rows d) []).

Lemma mapM_labels ds labs :
  mapM (fun x => match dc_labels x with Some l => Ok l | None => Err EType end) ds = Ok labs ->
  labs = map dc_labs ds.
Proof.
  revert labs; induction ds as [|d ds IH]; intros labs H; simpl in H.
  - injection H as <-; reflexivity.
  - apply bind_ok in H as (l & Hl & H). apply bind_ok in H as (ls & Hls & H). injection H as <-.
    simpl. f_equal; [|auto]. unfold dc_labs. destruct (dc_labels d); [congruence|discriminate].
Qed.

Lemma dcomp_wf_row d i :
  dcomp_wf d -> i < List.length (dc_rows d) ->
  List.length (dc_labs d) = List.length (nth i (dc_rows d) []).
Proof.
  intros (labs & Hl & Hr) Hi. unfold dc_labs. rewrite Hl.
  rewrite Forall_forall in Hr. symmetry. apply Hr. apply nth_In. exact Hi.
Qed.

(** The labelled row of a term is the left-to-right labelled product of the labelled rows of its
    components, for every row; in particular there are as many labels as columns. *)
Theorem set_data_term_lrow nrows name cs s dt :
  set_data_term nrows (TTTerm name cs) s = Ok dt ->
  Forall dcomp_wf (dt_comps dt) ->
  exists d0 rest labs,
    dt_comps dt = d0 :: rest /\ dt_labels dt = Some labs /\
    forall i, Forall (fun d => i < List.length (dc_rows d)) (dt_comps dt) ->
      combine labs (nth i (dt_rows dt) [])
      = fold_left (lprod ":") (map (comp_lrow i) rest) (comp_lrow i d0)
      /\ List.length labs = List.length (nth i (dt_rows dt) []).
Proof.
  unfold set_data_term. intros H Hwf.
  apply bind_ok in H as (ds & Hds & H).
  destruct ds as [|d0 [|d1 rest]]; [discriminate| |].
  - injection H as <-. simpl in *. inversion Hwf as [|? ? Hd _]; subst.
    destruct (Hd) as (labs & Hl & Hr).
    exists d0, [], labs. repeat split; auto.
    + simpl. unfold comp_lrow, dc_labs. rewrite Hl. reflexivity.
    + inversion H as [|? ? Hi _]; subst. rewrite <- (dcomp_wf_row d0 i Hd Hi).
      unfold dc_labs; rewrite Hl; reflexivity.
  - apply bind_ok in H as (labs & Hlabs & H).
    destruct (existsb _ labs); [discriminate|].
    injection H as <-. cbn [dt_comps dt_rows dt_labels] in *.
    apply mapM_labels in Hlabs. subst labs.
    exists d0, (d1 :: rest), (label_product (map dc_labs (d0 :: d1 :: rest)) ":").
    split; [reflexivity|]. split; [reflexivity|]. intros i Hi.
    change (fold_left rows_kron (map dc_rows rest) (rows_kron (dc_rows d0) (dc_rows d1)))
      with (fold_left rows_kron (map dc_rows (d1 :: rest)) (dc_rows d0)).
    rewrite (fold_rows_kron_nth (map dc_rows (d1 :: rest)) (dc_rows d0) i). rewrite map_map.
    assert (H0 : List.length (dc_labs d0) = List.length (nth i (dc_rows d0) [])).
    { inversion Hwf; inversion Hi; subst. apply dcomp_wf_row; assumption. }
    assert (Hr : Forall2 (fun l x => List.length l = List.length x)
                         (map dc_labs (d1 :: rest))
                         (map (fun d => nth i (dc_rows d) []) (d1 :: rest))).
    { inversion Hwf as [|? ? _ Hwf']; inversion Hi as [|? ? _ Hi']; subst.
      clear - Hwf' Hi'. induction (d1 :: rest) as [|d l IH]; simpl; constructor.
      - inversion Hwf'; inversion Hi'; subst. apply dcomp_wf_row; assumption.
      - inversion Hwf'; inversion Hi'; subst. apply IH; assumption. }
    split.
    + change (map dc_labs (d0 :: d1 :: rest)) with (dc_labs d0 :: map dc_labs (d1 :: rest)).
      rewrite (combine_kron_fold ":" _ _ _ _ H0 Hr).
      rewrite zip_with_map. reflexivity.
    + change (map dc_labs (d0 :: d1 :: rest)) with (dc_labs d0 :: map dc_labs (d1 :: rest)).
      apply (label_product_length_fold ":" _ _ _ _ H0 Hr).
Qed.

(* ------------------------------------------------------------------------------------------ *)
(** * D. Slices and widths *)

Fixpoint slices_from (start : nat) (nw : list (string * nat)) : list (string * nat * nat) :=
  match nw with
  | [] => []
  | (n, w) :: r => (n, start, start + w) :: slices_from (start + w) r
  end.

(* the slices of a horizontally stacked matrix whose blocks have the given names and widths *)
Definition slices_of (names : list string) (widths : list nat) : list (string * nat * nat) :=
  slices_from 0 (combine names widths).

(* [contiguous s sl e]: the half-open intervals of sl tile [s, e) in order *)
Inductive contiguous : nat -> list (string * nat * nat) -> nat -> Prop :=
| contig_nil s : contiguous s [] s
| contig_cons s name e r fin :
    s <= e -> contiguous e r fin -> contiguous s ((name, s, e) :: r) fin.

Lemma slices_from_contiguous nw : forall s,
  contiguous s (slices_from s nw) (s + list_sum (map snd nw)).
Proof.
  induction nw as [|[n w] nw IH]; intros s; simpl.
  - rewrite Nat.add_0_r. constructor.
  - rewrite Nat.add_assoc. constructor; [lia|apply IH].
Qed.

Lemma slices_from_names nw s : map (fun sl => fst (fst sl)) (slices_from s nw) = map fst nw.
Proof. revert s; induction nw as [|[n w] nw IH]; intros s; simpl; [|rewrite IH]; reflexivity. Qed.

Lemma slices_from_widths nw s :
  map (fun sl => snd sl - snd (fst sl)) (slices_from s nw) = map snd nw.
Proof.
  revert s; induction nw as [|[n w] nw IH]; intros s; simpl; [reflexivity|].
  rewrite IH. f_equal. lia.
Qed.

Lemma map_fst_combine_eq {A B} (a : list A) (b : list B) :
  List.length a = List.length b -> map fst (combine a b) = a.
Proof.
  revert b; induction a as [|x a IH]; intros [|y b] H; simpl in *; try discriminate; auto.
  f_equal. apply IH. lia.
Qed.

Lemma map_snd_combine_eq {A B} (a : list A) (b : list B) :
  List.length a = List.length b -> map snd (combine a b) = b.
Proof.
  revert b; induction a as [|x a IH]; intros [|y b] H; simpl in *; try discriminate; auto.
  f_equal. apply IH. lia.
Qed.

(** The slice list starts at 0, is contiguous, follows the order of the names and ends at the
    total width; each slice is as wide as its block. *)
Theorem slices_contiguous names widths :
  List.length names = List.length widths ->
  contiguous 0 (slices_of names widths) (list_sum widths) /\
  map (fun sl => fst (fst sl)) (slices_of names widths) = names /\
  map (fun sl => snd sl - snd (fst sl)) (slices_of names widths) = widths.
Proof.
  intros H. unfold slices_of. repeat split.
  - pose proof (slices_from_contiguous (combine names widths) 0) as C.
    rewrite <- (map_snd_combine_eq names widths H) at 2. exact C.
  - rewrite slices_from_names. apply map_fst_combine_eq; assumption.
  - rewrite slices_from_widths. apply map_snd_combine_eq; assumption.
Qed.

(* the accumulator loop of new_group, abstractly *)
Lemma slices_fold {P NF} (nm : P -> string) (wd : P -> nat)
      (step : nat * list (string * nat * nat) * NF -> P -> nat * list (string * nat * nat) * NF) :
  (forall acc p, fst (fst (step acc p)) = fst (fst acc) + wd p /\
                 snd (fst (step acc p)) = snd (fst acc) ++ [(nm p, fst (fst acc), fst (fst acc) + wd p)]) ->
  forall l acc,
    snd (fst (fold_left step l acc))
    = snd (fst acc) ++ slices_from (fst (fst acc)) (map (fun p => (nm p, wd p)) l).
Proof.
  intros Hstep. induction l as [|p l IH]; intros acc; simpl.
  - rewrite app_nil_r; reflexivity.
  - rewrite IH. destruct (Hstep acc p) as [-> ->]. rewrite <- app_assoc. reflexivity.
Qed.

(** The slices [new_group] reports are the slices of its blocks, in the order of the group-specific
    terms of the design. *)
Theorem new_group_slices cx mode ds data ng :
  new_group cx mode ds data = Ok ng ->
  exists parts,
    mapM (new_gterm cx mode data) (ds_group ds) = Ok parts /\
    ng_rows ng = hstack (map fst parts) (frame_rows data) /\
    ng_slices ng = slices_of (map dg_name (ds_group ds)) (map (fun p => width (fst p)) parts).
Proof.
  unfold new_group. intros H. apply bind_ok in H as (parts & Hparts & H).
  exists parts. split; [assumption|]. injection H as <-. cbn [ng_rows ng_slices]. split; [reflexivity|].
  rewrite (slices_fold (fun p : dgterm * (list (list cell) * bool) => dg_name (fst p))
                       (fun p => width (fst (snd p)))).
  - cbn [fst snd app]. unfold slices_of. f_equal.
    rewrite (combine_map dg_name (fun p : list (list cell) * bool => width (fst p))). reflexivity.
  - intros acc p. cbn [fst snd]. split; reflexivity.
Qed.

Corollary new_group_slices_contiguous cx mode ds data ng :
  new_group cx mode ds data = Ok ng ->
  exists widths,
    List.length widths = List.length (ds_group ds) /\
    contiguous 0 (ng_slices ng) (list_sum widths) /\
    map (fun sl => fst (fst sl)) (ng_slices ng) = map dg_name (ds_group ds) /\
    map (fun sl => snd sl - snd (fst sl)) (ng_slices ng) = widths.
Proof.
  intros H. destruct (new_group_slices _ _ _ _ _ H) as (parts & Hp & _ & ->).
  exists (map (fun p => width (fst p)) parts).
  assert (L : List.length (map dg_name (ds_group ds))
              = List.length (map (fun p : list (list cell) * bool => width (fst p)) parts)).
  { rewrite !map_length. symmetry. eapply mapM_length; eassumption. }
  split; [rewrite <- L, map_length; reflexivity|]. apply slices_contiguous; assumption.
Qed.

(** ** hstack *)

Lemma zip_with_nth {X Y Z} (f : X -> Y -> Z) a b i dx dy dz :
  i < List.length a -> i < List.length b ->
  nth i (zip_with f a b) dz = f (nth i a dx) (nth i b dy).
Proof.
  revert b i; induction a as [|x a IH]; intros [|y b] i Ha Hb; simpl in Ha, Hb; try lia.
  rewrite zip_with_cons. destruct i; cbn [nth]; [reflexivity|]. apply IH; lia.
Qed.

Definition hstep (acc b : list (list cell)) : list (list cell) :=
  zip_with (fun x y => x ++ y) acc b.

Lemma hstack_fold blocks n : hstack blocks n = fold_left hstep blocks (repeat [] n).
Proof. reflexivity. Qed.

Lemma hfold_length blocks : forall acc n,
  List.length acc = n -> Forall (fun b => List.length b = n) blocks ->
  List.length (fold_left hstep blocks acc) = n.
Proof.
  induction blocks as [|b blocks IH]; intros acc n Ha H; simpl; [assumption|].
  inversion H; subst. apply IH; auto. unfold hstep. rewrite zip_with_length. lia.
Qed.

Theorem hstack_length blocks n :
  Forall (fun b => List.length b = n) blocks -> List.length (hstack blocks n) = n.
Proof. intros H. rewrite hstack_fold. apply hfold_length; auto. apply repeat_length. Qed.

Lemma hfold_nth blocks : forall acc i,
  i < List.length acc -> Forall (fun b => i < List.length b) blocks ->
  nth i (fold_left hstep blocks acc) [] = (nth i acc [] ++ List.concat (map (fun b => nth i b []) blocks))%list.
Proof.
  induction blocks as [|b blocks IH]; intros acc i Ha H; simpl.
  - rewrite app_nil_r; reflexivity.
  - inversion H; subst. rewrite IH; auto.
    + unfold hstep. rewrite (zip_with_nth _ acc b i [] []) by assumption. rewrite app_assoc. reflexivity.
    + unfold hstep. rewrite zip_with_length. lia.
Qed.

(** Row i of the stacked matrix is the concatenation of the rows i of the blocks. *)
Theorem hstack_nth blocks n i :
  i < n -> Forall (fun b => i < List.length b) blocks ->
  nth i (hstack blocks n) [] = List.concat (map (fun b => nth i b []) blocks).
Proof.
  intros Hi H. rewrite hstack_fold, hfold_nth; auto.
  - rewrite nth_repeat. reflexivity.
  - rewrite repeat_length; assumption.
Qed.

(* every row of a block is as wide as the first one *)
Definition regular (b : list (list cell)) : Prop := Forall (fun r => List.length r = width b) b.

Lemma length_concat_sum {T} (ls : list (list T)) :
  List.length (List.concat ls) = list_sum (map (@List.length T) ls).
Proof. induction ls as [|l ls IH]; simpl; [reflexivity|]. rewrite app_length, IH. reflexivity. Qed.

(** The width of [hstack blocks n] is the sum of the block widths when all blocks have n rows. *)
Theorem hstack_width blocks n :
  Forall (fun b => List.length b = n) blocks -> Forall regular blocks ->
  Forall (fun r => List.length r = list_sum (map width blocks)) (hstack blocks n) /\
  width (hstack blocks n) = list_sum (map width blocks).
Proof.
  intros Hn Hreg.
  assert (Hrows : Forall (fun r => List.length r = list_sum (map width blocks)) (hstack blocks n)).
  { apply Forall_forall. intros r Hr.
    destruct (In_nth _ _ [] Hr) as (i & Hi & <-).
    rewrite hstack_length in Hi by assumption.
    rewrite hstack_nth; auto.
    - rewrite length_concat_sum, map_map. f_equal.
      clear Hr. induction blocks as [|b blocks IH]; simpl; [reflexivity|].
      inversion Hn; inversion Hreg; subst. f_equal; [|apply IH; assumption].
      match goal with Hb : regular b |- _ => unfold regular in Hb; rewrite Forall_forall in Hb; apply Hb end.
      apply nth_In. assumption.
    - eapply Forall_impl; [|exact Hn]. simpl. intros b ->. assumption. }
  split; [assumption|].
  destruct (hstack blocks n) as [|r rows] eqn:E.
  - (* no rows: every block is empty, so every width is 0 *)
    simpl. assert (n = 0) by (rewrite <- (hstack_length blocks n Hn), E; reflexivity). subst n.
    clear -Hn. induction blocks as [|b blocks IH]; simpl; [reflexivity|].
    inversion Hn; subst. rewrite <- IH by assumption. destruct b; [reflexivity|discriminate].
  - simpl. inversion Hrows; assumption.
Qed.

(* ------------------------------------------------------------------------------------------ *)
(** * E. Row locality: the constructions commute with row selection *)

Lemma select_nil_r {T} keep : @select T keep [] = [].
Proof. destruct keep; reflexivity. Qed.

Lemma select_map {S T} (f : S -> T) keep l : select keep (map f l) = map f (select keep l).
Proof.
  revert l; induction keep as [|k keep IH]; intros [|x l]; simpl; auto.
  destruct k; simpl; rewrite IH; reflexivity.
Qed.

Lemma select_zip_with {X Y Z} (f : X -> Y -> Z) keep a b :
  zip_with f (select keep a) (select keep b) = select keep (zip_with f a b).
Proof.
  revert a b; induction keep as [|k keep IH]; intros a b.
  - reflexivity.
  - destruct a as [|x a]; [reflexivity|]. destruct b as [|y b].
    + rewrite select_nil_r, !zip_with_nil_r, select_nil_r. reflexivity.
    + rewrite zip_with_cons. simpl. destruct k; [rewrite zip_with_cons|]; rewrite IH; reflexivity.
Qed.

Theorem rows_kron_select keep a b :
  rows_kron (select keep a) (select keep b) = select keep (rows_kron a b).
Proof. apply select_zip_with. Qed.

Theorem fold_rows_kron_select keep rs : forall r0,
  fold_left rows_kron (map (select keep) rs) (select keep r0) = select keep (fold_left rows_kron rs r0).
Proof.
  induction rs as [|r rs IH]; intros r0; simpl; [reflexivity|].
  rewrite rows_kron_select. apply IH.
Qed.

Fixpoint count_true (keep : list bool) : nat :=
  match keep with [] => 0 | true :: r => S (count_true r) | false :: r => count_true r end.

Lemma select_repeat {T} (x : T) keep : select keep (repeat x (List.length keep)) = repeat x (count_true keep).
Proof. induction keep as [|[|] keep IH]; simpl; rewrite ?IH; reflexivity. Qed.

Theorem hstack_select keep blocks :
  hstack (map (select keep) blocks) (count_true keep)
  = select keep (hstack blocks (List.length keep)).
Proof.
  rewrite !hstack_fold, <- select_repeat.
  generalize (repeat (@nil cell) (List.length keep)) as acc.
  induction blocks as [|b blocks IH]; intros acc; simpl; [reflexivity|].
  rewrite <- IH. f_equal. apply select_zip_with.
Qed.

Theorem code_rows_select keep m w codes :
  code_rows m w (select keep codes) = select keep (code_rows m w codes).
Proof. unfold code_rows. symmetry. apply select_map. Qed.

Theorem level_codes_select keep levels xs :
  level_codes levels (select keep xs) = select keep (level_codes levels xs).
Proof. unfold level_codes. symmetry. apply select_map. Qed.
