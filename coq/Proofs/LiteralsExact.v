(* Numeric literals are exact for every size (C12 numeric literals, C01 scanner).
   Integer literals: the scanner's NUMBER token carries the decimal value of its digit string as an
   unbounded Z; printing ([zshow], the name of the literal in a term name) is the canonical decimal;
   both round trips; two calls that differ in any digit of an integer literal are different terms.
   Decimal literals: exact rationals (mantissa / 10^exponent); the printed name is a normal form
   (repr of a short float), not the digits as typed.  Negative literals do not exist: a sign is a
   unary operator applied to a non-negative literal. *)
From Coq Require Import Lia QArith.
From Coq Require Import DecimalString Decimal DecimalZ DecimalPos DecimalN DecimalFacts.
From Verif Require Import Base Tokens Scanner Parser Lazy Algebra ScannerProofs CompEq DesignCoding PyRoundtrip.
Local Open Scope char_scope.
Local Open Scope Z_scope.
Local Open Scope list_scope.

(* ------------------------------------------------------------------------------------------ *)
(** * The decimal value of a digit string *)

Definition digit_val (c : ascii) : Z := Z.of_nat (nat_of_ascii c - 48).

(** the usual left fold: value("d1 d2 ... dn") = (...((d1)*10 + d2)*10 ...) + dn *)
Definition dec_value (ds : chars) : Z := fold_left (fun a c => 10 * a + digit_val c) ds 0.

Definition all_digits (ds : chars) : Prop := forallb is_digit ds = true.

Lemma digits_val_fold ds : forall acc,
  digits_val acc ds = fold_left (fun a c => 10 * a + digit_val c) ds acc.
Proof. induction ds as [|c r IH]; intros acc; [reflexivity|]. cbn [digits_val fold_left]. apply IH. Qed.

Lemma digits_val_dec ds : digits_val 0 ds = dec_value ds.
Proof. apply digits_val_fold. Qed.

Lemma dec_value_snoc ds c : dec_value (ds ++ [c]) = 10 * dec_value ds + digit_val c.
Proof. unfold dec_value. rewrite fold_left_app. reflexivity. Qed.

Lemma digits_val_acc ds : forall acc,
  digits_val acc ds = acc * 10 ^ Z.of_nat (List.length ds) + digits_val 0 ds.
Proof.
  induction ds as [|c r IH]; intros acc.
  - cbn [digits_val List.length]. change (10 ^ Z.of_nat 0) with 1. lia.
  - cbn [digits_val List.length]. rewrite IH. rewrite (IH (10 * 0 + _)).
    rewrite Nat2Z.inj_succ, Z.pow_succ_r by lia. ring.
Qed.

Lemma dec_value_app a b :
  dec_value (a ++ b) = dec_value a * 10 ^ Z.of_nat (List.length b) + dec_value b.
Proof.
  rewrite <- !digits_val_dec. revert b.
  assert (G : forall a acc b, digits_val acc (a ++ b) = digits_val (digits_val acc a) b).
  { induction a0 as [|c r IH]; intros acc b; [reflexivity|]. cbn [app digits_val]. apply IH. }
  intros b. rewrite G. apply digits_val_acc.
Qed.

Lemma digit_cases c : is_digit c = true ->
  c = "0" \/ c = "1" \/ c = "2" \/ c = "3" \/ c = "4" \/ c = "5" \/ c = "6" \/ c = "7" \/ c = "8" \/ c = "9".
Proof.
  destruct c as [[] [] [] [] [] [] [] []]; intros H; try discriminate H; auto 10.
Qed.

Lemma digit_val_range c : is_digit c = true -> 0 <= digit_val c <= 9.
Proof.
  intros H. destruct (digit_cases c H) as [->|[->|[->|[->|[->|[->|[->|[->|[->| ->]]]]]]]]];
    vm_compute; split; discriminate.
Qed.

Lemma dec_value_nonneg ds : 0 <= dec_value ds.
Proof.
  unfold dec_value. assert (G : forall acc, 0 <= acc -> 0 <= fold_left (fun a c => 10 * a + digit_val c) ds acc).
  { induction ds as [|c r IH]; intros acc Ha; [exact Ha|]. cbn [fold_left]. apply IH.
    unfold digit_val. lia. }
  apply G. lia.
Qed.

(* ------------------------------------------------------------------------------------------ *)
(** * Tie with the standard library's decimal numbers (which define [zshow] / [zread]) *)

(** the [Decimal.uint] spelled by a list of digit characters *)
Fixpoint U (ds : chars) : uint :=
  match ds with
  | [] => Nil
  | c :: r =>
      match (nat_of_ascii c - 48)%nat with
      | 0%nat => D0 (U r) | 1%nat => D1 (U r) | 2%nat => D2 (U r) | 3%nat => D3 (U r)
      | 4%nat => D4 (U r) | 5%nat => D5 (U r) | 6%nat => D6 (U r) | 7%nat => D7 (U r)
      | 8%nat => D8 (U r) | _ => D9 (U r)
      end
  end.

Ltac digit_split c H :=
  destruct (digit_cases c H) as [->|[->|[->|[->|[->|[->|[->|[->|[->| ->]]]]]]]]].

Lemma all_digits_cons c r : all_digits (c :: r) <-> is_digit c = true /\ all_digits r.
Proof. unfold all_digits. cbn [forallb]. apply andb_true_iff. Qed.

Lemma uint_of_string_U ds : all_digits ds -> NilEmpty.uint_of_string (str ds) = Some (U ds).
Proof.
  induction ds as [|c r IH]; intros H; [reflexivity|]. apply all_digits_cons in H as [Hc Hr].
  unfold str in *. cbn [string_of_list_ascii NilEmpty.uint_of_string]. rewrite (IH Hr).
  digit_split c Hc; reflexivity.
Qed.

Lemma string_of_uint_U ds : all_digits ds -> NilEmpty.string_of_uint (U ds) = str ds.
Proof. intros H. apply NilEmpty.sus. now apply uint_of_string_U. Qed.

(** every [uint] is spelled by a digit string *)
Lemma uint_is_U u : exists ds, all_digits ds /\ u = U ds.
Proof.
  induction u as [|u (ds & H & ->)|u (ds & H & ->)|u (ds & H & ->)|u (ds & H & ->)|u (ds & H & ->)
                 |u (ds & H & ->)|u (ds & H & ->)|u (ds & H & ->)|u (ds & H & ->)|u (ds & H & ->)].
  - exists []. split; reflexivity.
  - exists ("0" :: ds). split; [apply all_digits_cons; now split | reflexivity].
  - exists ("1" :: ds). split; [apply all_digits_cons; now split | reflexivity].
  - exists ("2" :: ds). split; [apply all_digits_cons; now split | reflexivity].
  - exists ("3" :: ds). split; [apply all_digits_cons; now split | reflexivity].
  - exists ("4" :: ds). split; [apply all_digits_cons; now split | reflexivity].
  - exists ("5" :: ds). split; [apply all_digits_cons; now split | reflexivity].
  - exists ("6" :: ds). split; [apply all_digits_cons; now split | reflexivity].
  - exists ("7" :: ds). split; [apply all_digits_cons; now split | reflexivity].
  - exists ("8" :: ds). split; [apply all_digits_cons; now split | reflexivity].
  - exists ("9" :: ds). split; [apply all_digits_cons; now split | reflexivity].
Qed.

Lemma U_nil_inv ds : U ds = Nil -> ds = [].
Proof. destruct ds as [|c r]; [reflexivity|]. cbn [U]. now destruct (nat_of_ascii c - 48)%nat as [|[|[|[|[|[|[|[|[|]]]]]]]]]. Qed.

(** little-endian value, to meet [DecimalPos.Unsigned.of_lu] *)
Definition le_value (ds : chars) : Z := fold_right (fun c a => 10 * a + digit_val c) 0 ds.

Lemma dec_value_le ds : dec_value ds = le_value (List.rev ds).
Proof. unfold dec_value, le_value. now rewrite fold_left_rev_right. Qed.

Lemma of_lu_U ds : all_digits ds -> Z.of_N (Unsigned.of_lu (U ds)) = le_value ds.
Proof.
  induction ds as [|c r IH]; intros H; [reflexivity|]. apply all_digits_cons in H as [Hc Hr].
  specialize (IH Hr). cbn [le_value fold_right]. fold (le_value r). rewrite <- IH.
  unfold digit_val.
  digit_split c Hc; cbn [U];
    match goal with |- context [nat_of_ascii ?c] =>
      let v := eval vm_compute in (nat_of_ascii c - 48)%nat in
      change (nat_of_ascii c - 48)%nat with v end;
    cbv iota beta; cbn [Unsigned.of_lu]; lia.
Qed.

Lemma revapp_U ds : forall es, all_digits ds -> revapp (U ds) (U es) = U (rev_append ds es).
Proof.
  induction ds as [|c r IH]; intros es H; [reflexivity|]. apply all_digits_cons in H as [Hc Hr].
  cbn [rev_append]. rewrite <- (IH (c :: es) Hr). digit_split c Hc; reflexivity.
Qed.

Lemma rev_U ds : all_digits ds -> Decimal.rev (U ds) = U (List.rev ds).
Proof. intros H. unfold Decimal.rev. change Nil with (U []). rewrite revapp_U by exact H. now rewrite rev_append_rev, app_nil_r. Qed.

Lemma all_digits_rev ds : all_digits ds -> all_digits (List.rev ds).
Proof.
  unfold all_digits. rewrite !forallb_forall. intros H x Hx. apply H. now apply in_rev.
Qed.

(** the number the standard library reads off the digits is [dec_value] *)
Theorem Z_of_uint_U ds : all_digits ds -> Z.of_uint (U ds) = dec_value ds.
Proof.
  intros H. unfold Z.of_uint. rewrite Unsigned.of_uint_alt, rev_U by exact H.
  rewrite of_lu_U by now apply all_digits_rev. symmetry. apply dec_value_le.
Qed.

(** [zread] (the inverse of the printer) on a digit string *)
Theorem zread_digits ds : ds <> [] -> all_digits ds -> zread (str ds) = Some (dec_value ds).
Proof.
  intros Hne H. unfold zread, NilZero.int_of_string. destruct ds as [|c r]; [contradiction|].
  pose proof H as H'. apply all_digits_cons in H' as [Hc _].
  assert (E : str (c :: r) = String c (str r)) by reflexivity. rewrite E.
  replace (Ascii.eqb c "-") with false by (digit_split c Hc; reflexivity).
  unfold NilZero.uint_of_string. cbv iota. rewrite <- E, uint_of_string_U by exact H.
  cbn [option_map Z.of_int]. now rewrite Z_of_uint_U.
Qed.

(* ------------------------------------------------------------------------------------------ *)
(** * Printing: [zshow] is the canonical decimal *)

Lemma string_of_unorm_U ds : ds <> [] -> all_digits ds ->
  NilZero.string_of_uint (unorm (U ds)) = strip_leading_zeros (str ds).
Proof.
  induction ds as [|c r IH]; intros Hne H; [contradiction|]. apply all_digits_cons in H as [Hc Hr].
  assert (E : str (c :: r) = String c (str r)) by reflexivity.
  assert (Hnz : forall u, NilZero.string_of_uint (unorm (D0 u)) = NilZero.string_of_uint (unorm u)) by reflexivity.
  digit_split c Hc.
  1: { change (U ("0" :: r)) with (D0 (U r)). rewrite Hnz, E. cbn [strip_leading_zeros].
       destruct r as [|d r']; [reflexivity|]. rewrite IH by (exact Hr || discriminate). reflexivity. }
  all: rewrite E; cbn [strip_leading_zeros]; rewrite <- E;
    match goal with |- context [U (?c :: ?y)] => rewrite <- (string_of_uint_U (c :: y)) by (apply all_digits_cons; now split) end;
    reflexivity.
Qed.

(** 2a. the printed literal is the digit string without its leading zeros *)
Theorem zshow_dec_value ds : ds <> [] -> all_digits ds ->
  zshow (dec_value ds) = strip_leading_zeros (str ds).
Proof.
  intros Hne H. rewrite <- Z_of_uint_U by exact H. change (Z.of_uint (U ds)) with (Z.of_int (Pos (U ds))).
  unfold zshow. rewrite DecimalZ.to_of. cbn [norm NilZero.string_of_int]. now apply string_of_unorm_U.
Qed.

Definition chars_of (s : string) : chars := list_ascii_of_string s.

Lemma str_chars_of s : str (chars_of s) = s.
Proof. apply string_of_list_ascii_of_string. Qed.
Lemma chars_of_str ds : chars_of (str ds) = ds.
Proof. apply list_ascii_of_string_of_list_ascii. Qed.

(** the printer writes a non-empty digit string for a non-negative number ... *)
Lemma zshow_digits z : 0 <= z -> exists ds, ds <> [] /\ all_digits ds /\ zshow z = str ds /\ Z.of_uint (U ds) = z.
Proof.
  intros Hz. unfold zshow.
  assert (exists u, Z.to_int z = Pos u /\ u <> Nil) as (u & Eu & Hu).
  { destruct z as [|p|p]; [exists Decimal.zero; split; [reflexivity|discriminate] | | lia].
    exists (Pos.to_uint p). split; [reflexivity | apply Unsigned.to_uint_nonnil]. }
  destruct (uint_is_U u) as (ds & Hd & ->). exists ds.
  assert (Hne : ds <> []) by (intros ->; now apply Hu).
  split; [exact Hne|]. split; [exact Hd|]. split.
  - rewrite Eu. cbn [NilZero.string_of_int]. rewrite <- (string_of_uint_U ds Hd).
    destruct (U ds); [contradiction|..]; reflexivity.
  - change (Z.of_uint (U ds)) with (Z.of_int (Pos (U ds))). rewrite <- Eu. apply DecimalZ.of_to.
Qed.

(** 2b. ... whose decimal value is the number: print, then read the digits *)
Theorem dec_value_zshow z : 0 <= z -> dec_value (chars_of (zshow z)) = z.
Proof.
  intros Hz. destruct (zshow_digits z Hz) as (ds & _ & Hd & -> & Hv).
  rewrite chars_of_str. now rewrite <- Z_of_uint_U.
Qed.

Theorem zshow_all_digits z : 0 <= z -> chars_of (zshow z) <> [] /\ all_digits (chars_of (zshow z)).
Proof.
  intros Hz. destruct (zshow_digits z Hz) as (ds & Hne & Hd & -> & _). now rewrite chars_of_str.
Qed.

(** a digit string "without leading zeros": "0" itself, or one that does not start with "0" *)
Definition no_leading_zero (ds : chars) : bool :=
  match ds with
  | [] => false
  | [_] => true
  | c :: _ => negb (Ascii.eqb c "0")
  end.

Lemma strip_no_leading_zero ds : no_leading_zero ds = true -> strip_leading_zeros (str ds) = str ds.
Proof.
  destruct ds as [|c [|d r]]; intros H; try discriminate H.
  - change (str [c]) with (String c EmptyString). cbn [strip_leading_zeros].
    destruct c as [[] [] [] [] [] [] [] []]; reflexivity.
  - cbn [no_leading_zero] in H. apply negb_true_iff, Ascii.eqb_neq in H.
    change (str (c :: d :: r)) with (String c (str (d :: r))). cbn [strip_leading_zeros].
    destruct c as [[] [] [] [] [] [] [] []]; try reflexivity. now elim H.
Qed.

(** the printed form never has leading zeros: it is a fixed point of the printer *)
Theorem zshow_canonical z : 0 <= z -> no_leading_zero (chars_of (zshow z)) = true.
Proof.
  intros Hz. destruct (zshow_all_digits z Hz) as (Hne & Hd).
  pose proof (zshow_dec_value _ Hne Hd) as E. rewrite dec_value_zshow, str_chars_of in E by exact Hz.
  remember (zshow z) as s eqn:Es. clear Es. unfold chars_of in *.
  destruct s as [|c [|d r]]; [now elim Hne | reflexivity |].
  cbn [list_ascii_of_string no_leading_zero]. destruct (Ascii.eqb_spec c "0") as [->|]; [|reflexivity].
  exfalso. change (strip_leading_zeros (String "0" (String d r))) with (strip_leading_zeros (String d r)) in E.
  assert (L : forall s, (String.length (strip_leading_zeros s) <= String.length s)%nat).
  { induction s as [|a s IH]; [cbn; lia|].
    destruct a as [[] [] [] [] [] [] [] []]; try (cbn; lia). destruct s as [|a' s']; [cbn; lia|].
    change (strip_leading_zeros (String "0" (String a' s'))) with (strip_leading_zeros (String a' s')).
    cbn [String.length] in *. lia. }
  apply (f_equal String.length) in E. specialize (L (String d r)). cbn [String.length] in *. lia.
Qed.

(** 2c. injectivity: digit strings without leading zeros with the same value are equal *)
Theorem dec_value_inj ds1 ds2 :
  all_digits ds1 -> all_digits ds2 -> no_leading_zero ds1 = true -> no_leading_zero ds2 = true ->
  dec_value ds1 = dec_value ds2 -> ds1 = ds2.
Proof.
  intros H1 H2 N1 N2 E. apply str_inj.
  rewrite <- (strip_no_leading_zero ds1 N1), <- (strip_no_leading_zero ds2 N2).
  rewrite <- !zshow_dec_value; try assumption; try (intros ->; discriminate). now rewrite E.
Qed.

(** in general two digit strings have the same value exactly when they agree up to leading zeros *)
Theorem dec_value_eq_iff ds1 ds2 :
  ds1 <> [] -> ds2 <> [] -> all_digits ds1 -> all_digits ds2 ->
  (dec_value ds1 = dec_value ds2 <-> strip_leading_zeros (str ds1) = strip_leading_zeros (str ds2)).
Proof.
  intros N1 N2 H1 H2. rewrite <- !zshow_dec_value by assumption. split; [now intros -> | apply zshow_inj].
Qed.

(* ------------------------------------------------------------------------------------------ *)
(** * 1. The scanner: an integer literal of any length becomes a NUMBER token with its exact value *)

Local Open Scope string_scope.

(** the token of the integer literal spelled [ds] *)
Definition int_tok (ds : chars) : token := Tok NUMBER (str ds) (Some (LInt (dec_value ds))).

(** one call of the token scanner at a digit: the maximal run of digits is consumed and valued exactly
    (no bound on the length; what follows must not continue the number) *)
Theorem scan_token_int_exact c ds rest :
  all_digits (c :: ds) ->
  next_is is_digit rest = false ->
  next_is (fun x => Ascii.eqb x ".") rest && next_is is_digit (tl rest) = false ->
  scan_token c (ds ++ rest)%list = Ok (Some (int_tok (c :: ds)), rest).
Proof.
  intros H H1 H2. apply all_digits_cons in H as [Hc Hd]. unfold int_tok. rewrite <- digits_val_dec.
  now apply scan_token_int.
Qed.

Lemma int_tok_wf ds : ds <> [] -> all_digits ds -> wf_lexeme (int_tok ds) = true.
Proof.
  intros Hne H. destruct ds as [|c r]; [contradiction|]. apply all_digits_cons in H as [Hc Hr].
  apply wf_lexeme_complete. unfold int_tok. rewrite <- digits_val_dec. now apply WInt.
Qed.

Lemma chars_of_app a b : chars_of (a ++ b) = (chars_of a ++ chars_of b)%list.
Proof. unfold chars_of. induction a as [|c a IH]; [reflexivity|]. cbn [append list_ascii_of_string app]. now rewrite IH. Qed.

Definition tk_y := mk IDENTIFIER "y".
Definition tk_tilde := mk TILDE "~".
Definition tk_f := mk IDENTIFIER "f".
Definition tk_x := mk IDENTIFIER "x".
Definition tk_lp := mk LEFT_PAREN "(".
Definition tk_rp := mk RIGHT_PAREN ")".
Definition tk_comma := mk COMMA ",".
Definition tk_minus := mk MINUS "-".

(** the whole formula  y ~ f(x, <digits>)  through the real scanner *)
Theorem scan_formula_int ds : ds <> [] -> all_digits ds ->
  scan ("y ~ f(x, " ++ str ds ++ ")") =
  Ok [tk_y; tk_tilde; one_tok; plus_tok; tk_f; tk_lp; tk_x; tk_comma; int_tok ds; tk_rp; eof_tok].
Proof.
  intros Hne H. unfold scan.
  set (ts := [tk_y; tk_tilde; tk_f; tk_lp; tk_x; tk_comma; int_tok ds; tk_rp]).
  set (ws := [[]; [" "%char]; [" "%char]; []; []; []; [" "%char]; []; []] : list chars).
  assert (E : list_ascii_of_string ("y ~ f(x, " ++ str ds ++ ")") = render ts ws).
  { change list_ascii_of_string with chars_of. rewrite !chars_of_app, chars_of_str.
    unfold ts, ws, int_tok. cbn [render]. rewrite lx_str. reflexivity. }
  rewrite E. rewrite scan_render.
  - reflexivity.
  - unfold ts. cbn [forallb]. rewrite (int_tok_wf ds Hne H). reflexivity.
  - split; reflexivity.
  - reflexivity.
  - rewrite <- E. change list_ascii_of_string with chars_of. rewrite chars_of_app. discriminate.
Qed.

(** the call alone (the text of one term), scanned without the implicit intercept *)
Theorem scan_call_int ds : ds <> [] -> all_digits ds ->
  scan_noint ("f(x, " ++ str ds ++ ")") = Ok [tk_f; tk_lp; tk_x; tk_comma; int_tok ds; tk_rp; eof_tok].
Proof.
  intros Hne H. unfold scan_noint.
  set (ts := [tk_f; tk_lp; tk_x; tk_comma; int_tok ds; tk_rp]).
  set (ws := [[]; []; []; []; [" "%char]; []; []] : list chars).
  assert (E : list_ascii_of_string ("f(x, " ++ str ds ++ ")") = render ts ws).
  { change list_ascii_of_string with chars_of. rewrite !chars_of_app, chars_of_str.
    unfold ts, ws, int_tok. cbn [render]. rewrite lx_str. reflexivity. }
  rewrite E. rewrite scan_render.
  - reflexivity.
  - unfold ts. cbn [forallb]. rewrite (int_tok_wf ds Hne H). reflexivity.
  - split; reflexivity.
  - reflexivity.
  - rewrite <- E. change list_ascii_of_string with chars_of. rewrite chars_of_app. discriminate.
Qed.

(* ------------------------------------------------------------------------------------------ *)
(** * 2. From the text to the term: the literal's value, its name, and distinctness *)

(** the lazy tree of the call  f(x, n)  *)
Definition call_int (n : Z) : lazy := LzCall "f" [LzVar "x"; LzVal (LInt n) None] [].

(** scan + parse + resolve of the call text gives the call tree with the exact value *)
Theorem arg_tree_call_int ds : ds <> [] -> all_digits ds ->
  arg_tree ("f(x, " ++ str ds ++ ")") = Ok (call_int (dec_value ds)).
Proof.
  intros Hne H. unfold arg_tree, parse_text. rewrite (scan_call_int ds Hne H). cbn [bind].
  unfold int_tok, call_int. generalize (dec_value ds) (str ds). intros z s. reflexivity.
Qed.

(** the whole formula: the model description has the call term with the exact value *)
Theorem describe_formula_int ds : ds <> [] -> all_digits ds ->
  Driver.describe_string ("y ~ f(x, " ++ str ds ++ ")") =
  Ok (Mod (Some [CVar (NStr "y") None]) [CI; CT [CCall (call_int (dec_value ds))]] []).
Proof.
  intros Hne H. unfold Driver.describe_string, Driver.parse_string. rewrite (scan_formula_int ds Hne H).
  cbn [bind]. unfold int_tok, call_int. generalize (dec_value ds) (str ds). intros z s. reflexivity.
Qed.

(** the name of the term spells the canonical decimal of the value *)
Theorem call_int_name n : lazy_str (call_int n) = "f(x, " ++ zshow n ++ ")".
Proof. reflexivity. Qed.

Corollary text_name_call_int ds : ds <> [] -> all_digits ds ->
  text_name ("f(x, " ++ str ds ++ ")") = Ok ("f(x, " ++ strip_leading_zeros (str ds) ++ ")").
Proof.
  intros Hne H. pose proof (arg_tree_call_int ds Hne H) as E.
  unfold arg_tree, parse_text in E. unfold text_name, call_name.
  destruct (scan_noint _) as [ts|]; [|discriminate E]. cbn [bind] in *.
  destruct (parse ts) as [e|]; [|discriminate E]. cbn [bind] in *. rewrite E. cbn [bind].
  now rewrite call_int_name, zshow_dec_value.
Qed.

(** integer literals compare by value, exactly, at any size *)
Lemma lit_eqb_int n1 n2 : Lazy.lit_eqb (LInt n1) (LInt n2) = Z.eqb n1 n2.
Proof. unfold Lazy.lit_eqb, z_pow10. cbn [Z.of_nat]. rewrite Z.pow_0_r, !Z.mul_1_r. reflexivity. Qed.

Theorem call_int_eqb n1 n2 : lazy_eqb (call_int n1) (call_int n2) = Z.eqb n1 n2.
Proof.
  unfold call_int. rewrite lazy_eqb_call. cbn [list_all2 lazy_eqb]. rewrite lit_eqb_int.
  cbn. now rewrite !andb_true_r.
Qed.

(** two calls that differ in the value of an integer literal are different terms, for all n1 n2 *)
Corollary call_int_differ n1 n2 : n1 <> n2 -> lazy_eqb (call_int n1) (call_int n2) = false.
Proof. intros H. rewrite call_int_eqb. now apply Z.eqb_neq. Qed.

(** ... wherever the literal stands among the positional arguments, whatever the rest *)
Theorem call_literal_position_differ f1 f2 pre1 pre2 post1 post2 kw1 kw2 lx1 lx2 n1 n2 :
  List.length pre1 = List.length pre2 -> n1 <> n2 ->
  lazy_eqb (LzCall f1 (pre1 ++ LzVal (LInt n1) lx1 :: post1) kw1)
           (LzCall f2 (pre2 ++ LzVal (LInt n2) lx2 :: post2) kw2) = false.
Proof.
  intros Hlen Hn. rewrite lazy_eqb_call.
  assert (E : list_all2 lazy_eqb (pre1 ++ LzVal (LInt n1) lx1 :: post1) (pre2 ++ LzVal (LInt n2) lx2 :: post2) = false).
  { revert pre2 Hlen. induction pre1 as [|p pre1 IH]; intros [|q pre2] Hlen; try discriminate Hlen.
    - cbn [app list_all2 lazy_eqb]. rewrite lit_eqb_int. apply Z.eqb_neq in Hn. now rewrite Hn.
    - cbn [app list_all2]. rewrite IH by (cbn [List.length] in Hlen; lia). apply andb_false_r. }
  rewrite E. now rewrite andb_false_r.
Qed.

(** ... and their names differ too *)
Lemma append_inv_tail a b t : a ++ t = b ++ t -> a = b.
Proof.
  intros H. apply (f_equal chars_of) in H. rewrite !chars_of_app in H. apply app_inv_tail in H.
  apply (f_equal str) in H. now rewrite !str_chars_of in H.
Qed.

Theorem call_int_name_inj n1 n2 : lazy_str (call_int n1) = lazy_str (call_int n2) -> n1 = n2.
Proof.
  rewrite !call_int_name. intros H. injection H as H. apply append_inv_tail in H. now apply zshow_inj.
Qed.

(** end to end on texts: two calls whose integer literals (written without leading zeros) differ in
    any digit are different terms with different names; literals of any length *)
Theorem texts_differ ds1 ds2 :
  all_digits ds1 -> all_digits ds2 -> no_leading_zero ds1 = true -> no_leading_zero ds2 = true ->
  ds1 <> ds2 ->
  exists t1 t2,
    arg_tree ("f(x, " ++ str ds1 ++ ")") = Ok t1 /\ arg_tree ("f(x, " ++ str ds2 ++ ")") = Ok t2 /\
    lazy_eqb t1 t2 = false /\ lazy_str t1 <> lazy_str t2 /\
    lazy_str t1 = "f(x, " ++ str ds1 ++ ")" /\ lazy_str t2 = "f(x, " ++ str ds2 ++ ")".
Proof.
  intros H1 H2 N1 N2 Hd.
  assert (Hne1 : ds1 <> []) by (intros ->; discriminate). assert (Hne2 : ds2 <> []) by (intros ->; discriminate).
  assert (Hv : dec_value ds1 <> dec_value ds2) by (intros E; apply Hd; now apply dec_value_inj).
  exists (call_int (dec_value ds1)), (call_int (dec_value ds2)).
  split; [now apply arg_tree_call_int|]. split; [now apply arg_tree_call_int|].
  split; [now apply call_int_differ|]. split; [intros E; now apply Hv, call_int_name_inj|].
  rewrite !call_int_name, !zshow_dec_value, !strip_no_leading_zero by assumption. split; reflexivity.
Qed.

(** with leading zeros allowed: the two texts are the same term exactly when the digit strings agree
    after their leading zeros *)
Theorem texts_same_iff ds1 ds2 :
  ds1 <> [] -> ds2 <> [] -> all_digits ds1 -> all_digits ds2 ->
  exists t1 t2,
    arg_tree ("f(x, " ++ str ds1 ++ ")") = Ok t1 /\ arg_tree ("f(x, " ++ str ds2 ++ ")") = Ok t2 /\
    (lazy_eqb t1 t2 = true <-> strip_leading_zeros (str ds1) = strip_leading_zeros (str ds2)).
Proof.
  intros N1 N2 H1 H2. exists (call_int (dec_value ds1)), (call_int (dec_value ds2)).
  split; [now apply arg_tree_call_int|]. split; [now apply arg_tree_call_int|].
  rewrite call_int_eqb, Z.eqb_eq. now apply dec_value_eq_iff.
Qed.

(* ------------------------------------------------------------------------------------------ *)
(** * 3. Decimal literals  ip.fp  *)

(** the token of the decimal literal spelled  ip "." fp  (ip may be empty: ".5") *)
Definition float_tok (ip fp : chars) : token :=
  Tok NUMBER (str (ip ++ "."%char :: fp)%list) (Some (LFloat (str ip) (str fp))).

Lemma float_tok_wf ip fp : all_digits ip -> all_digits fp -> fp <> [] -> wf_lexeme (float_tok ip fp) = true.
Proof.
  intros Hi Hf Hne. destruct fp as [|f fs]; [contradiction|]. apply all_digits_cons in Hf as [Hf Hfs].
  apply wf_lexeme_complete. now apply WFloat.
Qed.

(** the scanner keeps BOTH digit strings of a decimal literal, of any length, as typed *)
Theorem scan_call_float ip fp : all_digits ip -> all_digits fp -> fp <> [] ->
  scan_noint ("f(x, " ++ str ip ++ "." ++ str fp ++ ")") =
  Ok [tk_f; tk_lp; tk_x; tk_comma; float_tok ip fp; tk_rp; eof_tok].
Proof.
  intros Hi Hf Hne. unfold scan_noint.
  set (ts := [tk_f; tk_lp; tk_x; tk_comma; float_tok ip fp; tk_rp]).
  set (ws := [[]; []; []; []; [" "%char]; []; []] : list chars).
  assert (E : list_ascii_of_string ("f(x, " ++ str ip ++ "." ++ str fp ++ ")") = render ts ws).
  { change list_ascii_of_string with chars_of. rewrite !chars_of_app, !chars_of_str.
    unfold ts, ws, float_tok. cbn [render]. rewrite lx_str. cbn [app]. rewrite <- !app_assoc. reflexivity. }
  rewrite E. rewrite scan_render.
  - reflexivity.
  - unfold ts. cbn [forallb]. rewrite (float_tok_wf ip fp Hi Hf Hne). reflexivity.
  - split; reflexivity.
  - reflexivity.
  - rewrite <- E. change list_ascii_of_string with chars_of. rewrite chars_of_app. discriminate.
Qed.

Theorem arg_tree_call_float ip fp : all_digits ip -> all_digits fp -> fp <> [] ->
  arg_tree ("f(x, " ++ str ip ++ "." ++ str fp ++ ")") =
  Ok (LzCall "f" [LzVar "x"; LzVal (LFloat (str ip) (str fp)) None] []).
Proof.
  intros Hi Hf Hne. unfold arg_tree, parse_text. rewrite (scan_call_float ip fp Hi Hf Hne). cbn [bind].
  unfold float_tok. generalize (str (ip ++ "."%char :: fp)%list) (str ip) (str fp). intros a b c. reflexivity.
Qed.

(** "1." is NOT a decimal literal: the digits are an integer literal, the dot a PERIOD token, and the
    parser rejects the pair (Python's own grammar accepts "1."; formulae does not) *)
Theorem scan_trailing_dot ds : ds <> [] -> all_digits ds ->
  scan_noint (str ds ++ ".") = Ok [int_tok ds; mk PERIOD "."; eof_tok].
Proof.
  intros Hne H. unfold scan_noint.
  set (ts := [int_tok ds; mk PERIOD "."]).
  set (ws := [[]; []; []] : list chars).
  assert (E : list_ascii_of_string (str ds ++ ".") = render ts ws).
  { change list_ascii_of_string with chars_of. rewrite !chars_of_app, !chars_of_str.
    unfold ts, ws, int_tok. cbn [render]. rewrite lx_str. reflexivity. }
  rewrite E. rewrite scan_render.
  - reflexivity.
  - unfold ts. cbn [forallb]. rewrite (int_tok_wf ds Hne H). reflexivity.
  - split; reflexivity.
  - reflexivity.
  - rewrite <- E. change list_ascii_of_string with chars_of. rewrite chars_of_app.
    destruct ds; [contradiction | discriminate].
Qed.

Theorem trailing_dot_rejected ds : ds <> [] -> all_digits ds -> parse_text (str ds ++ ".") = Err EParse.
Proof.
  intros Hne H. unfold parse_text. rewrite (scan_trailing_dot ds Hne H). cbn [bind].
  unfold int_tok. generalize (dec_value ds) (str ds). intros z s. reflexivity.
Qed.

(** ** the value: an exact rational, mantissa / 10^(number of fraction digits) *)

Lemma digits_val_s_chars s : forall acc, digits_val_s acc s = digits_val acc (chars_of s).
Proof. induction s as [|c s IH]; intros acc; [reflexivity|]. cbn [digits_val_s chars_of list_ascii_of_string digits_val]. apply IH. Qed.

Lemma length_str ds : String.length (str ds) = List.length ds.
Proof. induction ds as [|c r IH]; [reflexivity|]. change (str (c :: r)) with (String c (str r)). cbn [String.length List.length]. now rewrite IH. Qed.

Theorem float_mant_dec ip fp :
  float_mant (str ip) (str fp) = dec_value ip * 10 ^ Z.of_nat (List.length fp) + dec_value fp.
Proof.
  unfold float_mant. rewrite digits_val_s_chars, chars_of_app, !chars_of_str, digits_val_dec.
  apply dec_value_app.
Qed.

Theorem float_exp_len fp : float_exp (str fp) = List.length fp.
Proof. apply length_str. Qed.

(** the rational number a numeric literal denotes *)
Definition lit_q (v : lit) : option Q :=
  match v with
  | LInt z => Some (inject_Z z)
  | LFloat ip fp => Some (inject_Z (float_mant ip fp) / inject_Z (10 ^ Z.of_nat (float_exp fp)))%Q
  | LBool true => Some 1%Q
  | LBool false => Some 0%Q
  | _ => None
  end.

Lemma pow10_pos n : 0 < 10 ^ Z.of_nat n.
Proof. apply Z.pow_pos_nonneg; lia. Qed.

(** ip.fp  denotes  ip + fp / 10^(length fp), exactly, for digit strings of any length *)
Theorem float_value ip fp :
  exists q, lit_q (LFloat (str ip) (str fp)) = Some q /\
    (q == inject_Z (dec_value ip) + inject_Z (dec_value fp) / inject_Z (10 ^ Z.of_nat (List.length fp)))%Q.
Proof.
  eexists. split; [reflexivity|]. rewrite float_mant_dec, float_exp_len.
  rewrite inject_Z_plus, inject_Z_mult. field.
  intros E. pose proof (pow10_pos (List.length fp)) as P.
  unfold Qeq in E. cbn in E. lia.
Qed.

(** equality of numeric literals (Python's ==, which the term comparison uses) is equality of these
    rationals: no rounding at any length *)
Theorem lit_eqb_exact a b qa qb :
  lit_q a = Some qa -> lit_q b = Some qb -> (Lazy.lit_eqb a b = true <-> (qa == qb)%Q).
Proof.
  assert (G : forall m1 e1 m2 e2,
    Z.eqb (m1 * z_pow10 e2) (m2 * z_pow10 e1) = true <->
    (inject_Z m1 / inject_Z (10 ^ Z.of_nat e1) == inject_Z m2 / inject_Z (10 ^ Z.of_nat e2))%Q).
  { intros m1 e1 m2 e2. unfold z_pow10. pose proof (pow10_pos e1) as P1. pose proof (pow10_pos e2) as P2.
    rewrite Z.eqb_eq.
    assert (N1 : ~ (inject_Z (10 ^ Z.of_nat e1) == 0)%Q) by (unfold Qeq; cbn; lia).
    assert (N2 : ~ (inject_Z (10 ^ Z.of_nat e2) == 0)%Q) by (unfold Qeq; cbn; lia).
    split; intros H.
    - apply (Qmult_inj_r _ _ (inject_Z (10 ^ Z.of_nat e1) * inject_Z (10 ^ Z.of_nat e2))%Q).
      { intros E. apply Qmult_integral in E. tauto. }
      transitivity (inject_Z (m1 * 10 ^ Z.of_nat e2)); [rewrite inject_Z_mult; field; exact N1|].
      rewrite H. rewrite inject_Z_mult. field. exact N2.
    - assert (E : (inject_Z (m1 * 10 ^ Z.of_nat e2) == inject_Z (m2 * 10 ^ Z.of_nat e1))%Q).
      { rewrite !inject_Z_mult.
        transitivity (inject_Z m1 / inject_Z (10 ^ Z.of_nat e1) * (inject_Z (10 ^ Z.of_nat e1) * inject_Z (10 ^ Z.of_nat e2)))%Q;
          [field; exact N1|]. rewrite H. field. exact N2. }
      unfold Qeq in E. cbn in E. lia. }
  assert (D1 : forall m, (inject_Z m == inject_Z m / inject_Z (10 ^ Z.of_nat 0))%Q).
  { intros m. change (10 ^ Z.of_nat 0) with 1. field. }
  assert (B1 : (1 == inject_Z 1 / inject_Z (10 ^ Z.of_nat 0))%Q) by (apply (D1 1)).
  assert (B0 : (0 == inject_Z 0 / inject_Z (10 ^ Z.of_nat 0))%Q) by (apply (D1 0)).
  destruct a as [z1|i1 f1|s1|[|]|], b as [z2|i2 f2|s2|[|]|]; cbn [lit_q]; intros Ea Eb;
    try discriminate Ea; try discriminate Eb; injection Ea as <-; injection Eb as <-;
    unfold Lazy.lit_eqb; rewrite G, <- ?D1, <- ?B1, <- ?B0; reflexivity.
Qed.

(** ** the printed name of a decimal literal *)

(** The model prints a decimal literal as Python's repr of the float would be for a short decimal:
    leading zeros of the integer part and trailing zeros of the fraction are dropped, an empty part
    becomes "0".  So the name does NOT preserve the digits as typed. *)
Theorem float_name ip fp :
  lazy_str (LzVal (LFloat ip fp) None) =
  strip_leading_zeros (match ip with EmptyString => "0" | _ => ip end) ++ "." ++
  (let f := strip_trailing_zeros fp in match f with EmptyString => "0" | _ => f end).
Proof. reflexivity. Qed.

Example float_name_typed_digits_refuted :
  exists ip fp, all_digits ip /\ all_digits fp /\ fp <> [] /\
    text_name ("f(x, " ++ str ip ++ "." ++ str fp ++ ")") <> Ok ("f(x, " ++ str ip ++ "." ++ str fp ++ ")").
Proof. exists ["1"%char], ["5"%char; "0"%char]. repeat split; try discriminate. Qed.

Example float_names :
  text_name "f(x, 1.50)" = Ok "f(x, 1.5)" /\ text_name "f(x, 1.5)" = Ok "f(x, 1.5)" /\
  text_name "f(x, .5)" = Ok "f(x, 0.5)" /\ text_name "f(x, 0.25)" = Ok "f(x, 0.25)" /\
  text_name "f(x, 007.000)" = Ok "f(x, 7.0)" /\ text_name "f(x, 2.0)" = Ok "f(x, 2.0)" /\
  (* beyond a double's precision the model keeps every digit; CPython's repr would round *)
  text_name "f(x, 0.1234567890123456789)" = Ok "f(x, 0.1234567890123456789)" /\
  text_name "f(x, 100000000000000000.0)" = Ok "f(x, 100000000000000000.0)".
Proof. vm_compute. repeat split. Qed.

(** 1.50 and 1.5 are the same term; 1.5 and 1.50000000000000000001 are not (exact, no rounding);
    an integer equals the decimal with a zero fraction (Python's 1 == 1.0) *)
Example float_equalities :
  (exists t1 t2, arg_tree "f(x, 1.50)" = Ok t1 /\ arg_tree "f(x, 1.5)" = Ok t2 /\ lazy_eqb t1 t2 = true) /\
  (exists t1 t2, arg_tree "f(x, 1.5)" = Ok t1 /\ arg_tree "f(x, 1.50000000000000000001)" = Ok t2 /\ lazy_eqb t1 t2 = false) /\
  (exists t1 t2, arg_tree "f(x, 1)" = Ok t1 /\ arg_tree "f(x, 1.0)" = Ok t2 /\ lazy_eqb t1 t2 = true) /\
  (exists t1 t2, arg_tree "f(x, 9007199254740993)" = Ok t1 /\ arg_tree "f(x, 9007199254740992.0)" = Ok t2 /\ lazy_eqb t1 t2 = false).
Proof. repeat split; eexists; eexists; (split; [vm_compute; reflexivity|]); (split; [vm_compute; reflexivity|]); vm_compute; reflexivity. Qed.

Local Close Scope string_scope.
(** ** the printed name of a decimal literal is a normal form of its exact value *)

Fixpoint drop0 (l : chars) : chars := match l with "0"%char :: r => drop0 r | _ => l end.
(** the fraction digits without their trailing zeros *)
Definition rstrip (fs : chars) : chars := List.rev (drop0 (List.rev fs)).
Definition frac_norm (fs : chars) : chars := match rstrip fs with [] => ["0"%char] | g => g end.

Lemma rev_string_chars s : forall acc, chars_of (rev_string s acc) = List.rev (chars_of s) ++ chars_of acc.
Proof.
  induction s as [|c s IH]; intros acc; [reflexivity|]. cbn [rev_string]. rewrite IH.
  unfold chars_of. cbn [list_ascii_of_string List.rev]. now rewrite <- app_assoc.
Qed.

Lemma drop_zeros_chars s : chars_of (drop_zeros s) = drop0 (chars_of s).
Proof.
  induction s as [|c s IH]; [reflexivity|]. unfold chars_of in *. cbn [list_ascii_of_string].
  destruct c as [[] [] [] [] [] [] [] []]; try reflexivity. cbn [drop_zeros drop0]. exact IH.
Qed.

Lemma strip_trailing_chars fs : strip_trailing_zeros (str fs) = str (rstrip fs).
Proof.
  rewrite <- (str_chars_of (strip_trailing_zeros (str fs))). f_equal.
  unfold strip_trailing_zeros, rstrip. rewrite rev_string_chars, drop_zeros_chars, rev_string_chars.
  rewrite chars_of_str. change (chars_of EmptyString) with (@nil ascii). now rewrite !app_nil_r.
Qed.

Definition ends_nonzero (g : chars) : Prop := forall g', g <> g' ++ ["0"%char].

Lemma drop0_spec l : exists k, l = repeat "0"%char k ++ drop0 l /\ (forall r, drop0 l <> "0"%char :: r).
Proof.
  induction l as [|c l (k & E & N)]; [exists 0%nat; split; [reflexivity|discriminate]|].
  destruct (Ascii.eqb_spec c "0") as [->|Hc].
  - exists (S k). cbn [drop0 repeat app]. split; [now rewrite <- E | exact N].
  - exists 0%nat. assert (D : drop0 (c :: l) = c :: l).
    { destruct c as [[] [] [] [] [] [] [] []]; try reflexivity. now elim Hc. }
    rewrite D. split; [reflexivity|]. intros r [= ? _]. contradiction.
Qed.

Lemma repeat_rev {T} (x : T) k : List.rev (repeat x k) = repeat x k.
Proof.
  induction k as [|k IH]; [reflexivity|]. cbn [repeat List.rev]. rewrite IH.
  clear IH. induction k as [|k IH]; [reflexivity|]. cbn [repeat app]. now rewrite IH.
Qed.

Lemma rstrip_spec fs : exists k, fs = rstrip fs ++ repeat "0"%char k /\ ends_nonzero (rstrip fs).
Proof.
  unfold rstrip. destruct (drop0_spec (List.rev fs)) as (k & E & N). exists k. split.
  - rewrite <- (rev_involutive fs) at 1. rewrite E at 1. now rewrite rev_app_distr, repeat_rev.
  - intros g' H. apply (f_equal (@List.rev ascii)) in H. rewrite rev_involutive, rev_app_distr in H.
    cbn [List.rev app] in H. exact (N _ H).
Qed.

Lemma all_digits_app a b : all_digits (a ++ b) <-> all_digits a /\ all_digits b.
Proof. unfold all_digits. rewrite forallb_app. apply andb_true_iff. Qed.

Lemma all_digits_rstrip fs : all_digits fs -> all_digits (rstrip fs).
Proof. intros H. destruct (rstrip_spec fs) as (k & E & _). rewrite E in H. now apply all_digits_app in H. Qed.

Lemma dec_value_zeros k : dec_value (repeat "0"%char k) = 0.
Proof.
  induction k as [|k IH]; [reflexivity|]. change (repeat "0"%char (S k)) with (["0"%char] ++ repeat "0"%char k).
  rewrite dec_value_app, IH. reflexivity.
Qed.

Lemma dec_value_pad g k : dec_value (g ++ repeat "0"%char k) = dec_value g * 10 ^ Z.of_nat k.
Proof. rewrite dec_value_app, dec_value_zeros, repeat_length. lia. Qed.

Lemma dec_value_bound ds : all_digits ds -> dec_value ds < 10 ^ Z.of_nat (List.length ds).
Proof.
  induction ds as [|c r IH] using rev_ind; intros H; [cbn; lia|].
  apply all_digits_app in H as [Hr Hc]. apply all_digits_cons in Hc as [Hc _].
  rewrite dec_value_snoc, app_length. cbn [List.length]. rewrite Nat.add_1_r, Nat2Z.inj_succ, Z.pow_succ_r by lia.
  specialize (IH Hr). pose proof (digit_val_range c Hc). lia.
Qed.

Lemma dec_value_cons c r : dec_value (c :: r) = digit_val c * 10 ^ Z.of_nat (List.length r) + dec_value r.
Proof. change (c :: r) with ([c] ++ r). rewrite dec_value_app. unfold dec_value at 1. cbn [fold_left]. lia. Qed.

Lemma digit_val_inj c d : is_digit c = true -> is_digit d = true -> digit_val c = digit_val d -> c = d.
Proof.
  intros Hc Hd. digit_split c Hc; digit_split d Hd; intros E; try reflexivity; vm_compute in E; discriminate E.
Qed.

Lemma div_unique_pos a1 b1 a2 b2 T : 0 <= b1 < T -> 0 <= b2 < T -> a1 * T + b1 = a2 * T + b2 -> a1 = a2 /\ b1 = b2.
Proof. intros H1 H2 E. assert (a1 = a2) by nia. subst. lia. Qed.

(** digit strings of equal length with equal value are equal *)
Lemma dec_value_inj_len g1 : forall g2,
  all_digits g1 -> all_digits g2 -> List.length g1 = List.length g2 -> dec_value g1 = dec_value g2 -> g1 = g2.
Proof.
  induction g1 as [|c r IH]; intros [|d s] H1 H2 L E; try discriminate L; [reflexivity|].
  apply all_digits_cons in H1 as [Hc Hr]. apply all_digits_cons in H2 as [Hd Hs].
  injection L as L. rewrite !dec_value_cons, L in E.
  pose proof (dec_value_bound r Hr) as B1. pose proof (dec_value_bound s Hs) as B2. rewrite L in B1.
  pose proof (dec_value_nonneg r). pose proof (dec_value_nonneg s).
  apply div_unique_pos in E as [E1 E2]; [|lia|lia]. f_equal; [now apply digit_val_inj | now apply IH].
Qed.

Lemma ends_nonzero_mod g : all_digits g -> ends_nonzero g -> g <> [] -> dec_value g mod 10 <> 0.
Proof.
  intros H N Hne. destruct (exists_last Hne) as (g' & c & ->). apply all_digits_app in H as [_ Hc].
  apply all_digits_cons in Hc as [Hc _]. rewrite dec_value_snoc.
  assert (c <> "0"%char) by (intros ->; now apply (N g')).
  assert (digit_val c <> 0) by (intros E; apply H; apply digit_val_inj; [exact Hc|reflexivity|exact E]).
  pose proof (digit_val_range c Hc). rewrite Z.add_comm, Z.mul_comm, Z.mod_add by lia. rewrite Z.mod_small; lia.
Qed.

Lemma pow10_split a b : (a <= b)%nat -> 10 ^ Z.of_nat b = 10 ^ Z.of_nat a * 10 ^ Z.of_nat (b - a).
Proof. intros H. rewrite <- Z.pow_add_r by lia. f_equal. lia. Qed.

(** fractions without trailing zeros denote the same number only when they are the same digits *)
Lemma frac_canon g1 g2 :
  all_digits g1 -> all_digits g2 -> ends_nonzero g1 -> ends_nonzero g2 ->
  dec_value g1 * 10 ^ Z.of_nat (List.length g2) = dec_value g2 * 10 ^ Z.of_nat (List.length g1) -> g1 = g2.
Proof.
  intros H1 H2 N1 N2 E.
  assert (K : forall a b, all_digits a -> all_digits b -> ends_nonzero b ->
              (List.length a < List.length b)%nat ->
              dec_value a * 10 ^ Z.of_nat (List.length b) = dec_value b * 10 ^ Z.of_nat (List.length a) -> False).
  { intros a b Ha Hb Nb L E'. rewrite (pow10_split (List.length a) (List.length b)) in E' by lia.
    pose proof (pow10_pos (List.length a)) as P.
    assert (E2 : dec_value b = dec_value a * 10 ^ Z.of_nat (List.length b - List.length a)) by nia.
    apply (ends_nonzero_mod b Hb Nb); [intros ->; cbn in L; lia|].
    rewrite E2. replace (Z.of_nat (List.length b - List.length a)) with (Z.succ (Z.of_nat (List.length b - List.length a - 1))) by lia.
    rewrite Z.pow_succ_r by lia. rewrite Z.mul_assoc, (Z.mul_comm _ 10), <- Z.mul_assoc, Z.mul_comm. apply Z.mod_mul. lia. }
  destruct (lt_eq_lt_dec (List.length g1) (List.length g2)) as [[L|L]|L].
  - exfalso. now apply (K g1 g2).
  - apply dec_value_inj_len; try assumption. rewrite L in E. pose proof (pow10_pos (List.length g2)). nia.
  - exfalso. apply (K g2 g1); try assumption. now symmetry.
Qed.

Local Open Scope string_scope.

Lemma int_part_name ds : all_digits ds ->
  strip_leading_zeros (match str ds with EmptyString => "0" | _ => str ds end) = zshow (dec_value ds).
Proof.
  intros H. destruct ds as [|c r]; [reflexivity|]. change (str (c :: r)) with (String c (str r)). cbv iota.
  change (String c (str r)) with (str (c :: r)). symmetry. apply zshow_dec_value; [discriminate | exact H].
Qed.

Lemma frac_part_name fs :
  (let f := strip_trailing_zeros (str fs) in match f with EmptyString => "0" | _ => f end) = str (frac_norm fs).
Proof. cbv zeta. rewrite strip_trailing_chars. unfold frac_norm. destruct (rstrip fs); reflexivity. Qed.

(** the name of the decimal literal  ip.fp : canonical integer part, ".", fraction without trailing zeros *)
Theorem float_repr_digits ip fp : all_digits ip ->
  float_repr (str ip) (str fp) = zshow (dec_value ip) ++ "." ++ str (frac_norm fp).
Proof.
  intros H. unfold float_repr. cbv zeta. rewrite (int_part_name ip H). f_equal. f_equal. apply frac_part_name.
Qed.

Lemma split_at_dot a b x y : all_digits a -> all_digits b ->
  (a ++ "."%char :: x = b ++ "."%char :: y)%list -> a = b /\ x = y.
Proof.
  revert b. induction a as [|c a IH]; intros [|d b] Ha Hb E; cbn [app] in E.
  - injection E as ->. now split.
  - injection E as <- _. apply all_digits_cons in Hb as [Hb _]. discriminate Hb.
  - injection E as -> _. apply all_digits_cons in Ha as [Ha _]. discriminate Ha.
  - injection E as -> E. apply all_digits_cons in Ha as [_ Ha]. apply all_digits_cons in Hb as [_ Hb].
    destruct (IH b Ha Hb E) as [-> ->]. now split.
Qed.

Lemma frac_norm_inj f1 f2 : frac_norm f1 = frac_norm f2 -> rstrip f1 = rstrip f2.
Proof.
  unfold frac_norm. destruct (rstrip_spec f1) as (_ & _ & N1). destruct (rstrip_spec f2) as (_ & _ & N2).
  destruct (rstrip f1) as [|a r1], (rstrip f2) as [|b r2]; intros E; try reflexivity; try exact E.
  - exfalso. apply (N2 []). now rewrite <- E.
  - exfalso. apply (N1 []). now rewrite E.
Qed.

(** The name is a complete invariant of the exact value: two decimal literals (digit strings of any
    length) print the same name exactly when they are equal as rationals. *)
Theorem float_name_iff_value ip1 fp1 ip2 fp2 :
  all_digits ip1 -> all_digits fp1 -> all_digits ip2 -> all_digits fp2 ->
  (float_repr (str ip1) (str fp1) = float_repr (str ip2) (str fp2) <->
   Lazy.lit_eqb (LFloat (str ip1) (str fp1)) (LFloat (str ip2) (str fp2)) = true).
Proof.
  intros Hi1 Hf1 Hi2 Hf2. rewrite !float_repr_digits by assumption.
  unfold Lazy.lit_eqb. rewrite !float_mant_dec, !float_exp_len, Z.eqb_eq. unfold z_pow10.
  destruct (rstrip_spec fp1) as (k1 & E1 & N1). destruct (rstrip_spec fp2) as (k2 & E2 & N2).
  pose proof (all_digits_rstrip fp1 Hf1) as G1. pose proof (all_digits_rstrip fp2 Hf2) as G2.
  set (g1 := rstrip fp1) in *. set (g2 := rstrip fp2) in *.
  assert (V1 : dec_value fp1 = dec_value g1 * 10 ^ Z.of_nat k1) by (rewrite E1 at 1; apply dec_value_pad).
  assert (V2 : dec_value fp2 = dec_value g2 * 10 ^ Z.of_nat k2) by (rewrite E2 at 1; apply dec_value_pad).
  assert (L1 : List.length fp1 = (List.length g1 + k1)%nat) by (rewrite E1 at 1; now rewrite app_length, repeat_length).
  assert (L2 : List.length fp2 = (List.length g2 + k2)%nat) by (rewrite E2 at 1; now rewrite app_length, repeat_length).
  pose proof (pow10_pos k1) as P1. pose proof (pow10_pos k2) as P2.
  pose proof (pow10_pos (List.length g1)) as Q1. pose proof (pow10_pos (List.length g2)) as Q2.
  split.
  - intros E. apply (f_equal chars_of) in E. rewrite !chars_of_app, !chars_of_str in E. cbn [chars_of list_ascii_of_string app] in E.
    destruct (zshow_all_digits (dec_value ip1) (dec_value_nonneg ip1)) as (_ & D1).
    destruct (zshow_all_digits (dec_value ip2) (dec_value_nonneg ip2)) as (_ & D2).
    apply split_at_dot in E as [Ea Eb]; [|exact D1|exact D2].
    apply (f_equal str) in Ea. unfold chars_of in Ea. rewrite !string_of_list_ascii_of_string in Ea.
    apply zshow_inj in Ea. apply frac_norm_inj in Eb. fold g1 g2 in Eb.
    rewrite V1, V2, L1, L2, Ea, Eb. rewrite !Nat2Z.inj_add, !Z.pow_add_r by lia. ring.
  - intros E. rewrite V1, V2, L1, L2 in E. rewrite !Nat2Z.inj_add, !Z.pow_add_r in E by lia.
    set (A1 := 10 ^ Z.of_nat (List.length g1)) in *. set (A2 := 10 ^ Z.of_nat (List.length g2)) in *.
    set (K1 := 10 ^ Z.of_nat k1) in *. set (K2 := 10 ^ Z.of_nat k2) in *.
    pose proof (dec_value_bound g1 G1) as B1. pose proof (dec_value_bound g2 G2) as B2. fold A1 in B1. fold A2 in B2.
    pose proof (dec_value_nonneg g1) as Z1. pose proof (dec_value_nonneg g2) as Z2.
    assert (E' : dec_value ip1 * (A1 * K1 * (A2 * K2)) + dec_value g1 * K1 * (A2 * K2)
               = dec_value ip2 * (A1 * K1 * (A2 * K2)) + dec_value g2 * K2 * (A1 * K1)) by lia.
    apply div_unique_pos in E' as [Ea Eb]; [| split; nia | split; nia].
    assert (Eg : g1 = g2).
    { apply frac_canon; try assumption. fold A1 A2.
      assert (X : dec_value g1 * A2 * (K1 * K2) = dec_value g2 * A1 * (K1 * K2)) by lia.
      apply Z.mul_reg_r in X; [exact X|]. apply Z.neq_mul_0. lia. }
    rewrite Ea. f_equal. f_equal. f_equal. unfold frac_norm. fold g1 g2. now rewrite Eg.
Qed.

(** at the term level: f(x, ip1.fp1) and f(x, ip2.fp2) are the same term exactly when their names agree *)
Corollary call_float_same_iff_name ip1 fp1 ip2 fp2 :
  all_digits ip1 -> all_digits fp1 -> fp1 <> [] -> all_digits ip2 -> all_digits fp2 -> fp2 <> [] ->
  exists t1 t2,
    arg_tree ("f(x, " ++ str ip1 ++ "." ++ str fp1 ++ ")") = Ok t1 /\
    arg_tree ("f(x, " ++ str ip2 ++ "." ++ str fp2 ++ ")") = Ok t2 /\
    (lazy_eqb t1 t2 = true <-> lazy_str t1 = lazy_str t2).
Proof.
  intros Hi1 Hf1 N1 Hi2 Hf2 N2. eexists. eexists.
  split; [now apply arg_tree_call_float|]. split; [now apply arg_tree_call_float|].
  rewrite lazy_eqb_call. cbn [list_all2 lazy_eqb String.eqb Ascii.eqb Bool.eqb List.length Nat.eqb kw_sub option_eqb andb].
  rewrite !andb_true_r. rewrite <- float_name_iff_value by assumption.
  cbn [lazy_str map concat_with lit_str app]. split; [now intros -> |].
  intros E. injection E as E. apply (f_equal chars_of) in E. rewrite !chars_of_app in E.
  apply app_inv_tail in E. apply (f_equal str) in E. now rewrite !str_chars_of in E.
Qed.

(* ------------------------------------------------------------------------------------------ *)
(** * 4. There are no negative literals: a sign is a unary operator *)

Lemma wf_lexeme_int t z : wf_lexeme t = true -> literal t = Some (LInt z) -> tkind t = NUMBER /\ z = dec_value (lx t).
Proof.
  destruct t as [k s l]. cbn [literal tkind]. intros H ->. unfold wf_lexeme in H. cbn [tkind literal lexeme] in H.
  destruct k; try (rewrite ?andb_false_r in H; cbn in H; rewrite ?andb_false_r in H; discriminate H).
  - apply andb_true_iff in H as [_ H]. apply Z.eqb_eq in H. split; [reflexivity|]. now rewrite <- digits_val_dec.
  - unfold python_literals in H. cbn [lookup_pylit] in H.
    repeat match type of H with context [if ?c then _ else _] => destruct c end; discriminate H.
Qed.

Lemma In_insert_after_tilde t l : In t (insert_after_tilde l) -> In t l \/ t = one_tok \/ t = plus_tok.
Proof.
  induction l as [|a l IH]; cbn [insert_after_tilde]; [tauto|]. destruct (is_tilde a); cbn [In]; intros H.
  - destruct H as [H|[H|[H|H]]]; auto.
  - destruct H as [H|H]; [auto|]. destruct (IH H) as [?|?]; auto.
Qed.

(** the tokens of a successful scan: scanned lexemes, or the three tokens the scanner adds *)
Lemma scan_tokens_wf b cs ts t :
  scan_chars b cs = Ok ts -> In t ts -> wf_lexeme t = true \/ t = eof_tok \/ t = one_tok \/ t = plus_tok.
Proof.
  intros Hs Hin.
  destruct cs as [|c cs']; [discriminate Hs|]. rewrite scan_chars_finish in Hs by discriminate.
  destruct (scan_loop _ _) as [ts0|] eqn:E0; [|discriminate Hs]. cbn [bind] in Hs.
  destruct (scan_loop_is_render _ _ _ E0) as (ws & Hwf & _). rewrite forallb_forall in Hwf.
  rewrite finish_spec in Hs. destruct (1 <? tilde_count ts0)%nat; [discriminate Hs|].
  assert (A : In t (ts0 ++ [eof_tok])%list -> wf_lexeme t = true \/ t = eof_tok \/ t = one_tok \/ t = plus_tok).
  { intros H. apply in_app_or in H as [H|[<-|[]]]; auto. }
  destruct b.
  - destruct (tilde_count ts0 =? 0)%nat; injection Hs as <-.
    + destruct Hin as [<-|[<-|Hin]]; auto.
    + apply in_app_or in Hin as [Hin|[<-|[]]]; auto.
      apply In_insert_after_tilde in Hin as [Hin|[->| ->]]; auto.
  - injection Hs as <-. auto.
Qed.

(** every integer literal token of every successful scan of ANY text has a non-negative value, which
    is the decimal value of its lexeme: exact at every length, and a minus sign is never part of a
    NUMBER *)
Theorem scan_int_tokens_exact b cs ts t z :
  scan_chars b cs = Ok ts -> In t ts -> literal t = Some (LInt z) ->
  tkind t = NUMBER /\ z = dec_value (lx t) /\ 0 <= z.
Proof.
  intros Hs Hin Hl. destruct (scan_tokens_wf b cs ts t Hs Hin) as [H|[->|[->| ->]]]; try discriminate Hl.
  - destruct (wf_lexeme_int t z H Hl) as (K & ->). repeat split; [exact K | apply dec_value_nonneg].
  - injection Hl as <-. repeat split; vm_compute; discriminate.
Qed.

(** every decimal literal token of every successful scan keeps the two digit strings of its lexeme *)
Theorem scan_float_tokens_exact b cs ts t ip fp :
  scan_chars b cs = Ok ts -> In t ts -> literal t = Some (LFloat ip fp) ->
  tkind t = NUMBER /\ lexeme t = ip ++ "." ++ fp /\
  all_digits (chars_of ip) /\ all_digits (chars_of fp) /\ fp <> "".
Proof.
  intros Hs Hin Hl. destruct (scan_tokens_wf b cs ts t Hs Hin) as [H|[->|[->| ->]]]; try discriminate Hl.
  destruct t as [k s l]. cbn [literal tkind lexeme] in *. subst l. unfold wf_lexeme in H. cbn [tkind literal lexeme] in H.
  destruct k; try (rewrite ?andb_false_r in H; cbn in H; rewrite ?andb_false_r in H; discriminate H).
  - apply andb_true_iff in H as [H H4]. apply andb_true_iff in H as [H H3]. apply andb_true_iff in H as [H1 H2].
    apply chars_eqb_eq in H4. unfold lx in H4. cbn [lexeme] in H4.
    split; [reflexivity|]. split.
    + rewrite <- (str_chars_of s). unfold chars_of. rewrite H4. change ("." ++ fp) with (String "."%char fp).
      rewrite <- (str_chars_of (ip ++ String "."%char fp)), chars_of_app. reflexivity.
    + split; [exact H1|]. split; [exact H2|]. intros ->. discriminate H3.
  - unfold python_literals in H. cbn [lookup_pylit] in H.
    repeat match type of H with context [if ?c then _ else _] => destruct c end; discriminate H.
Qed.

(** -5  is the unary minus applied to the literal 5;  x - 5  (and  x -5) the binary minus *)
Theorem scan_negative ds : ds <> [] -> all_digits ds ->
  scan_noint ("-" ++ str ds) = Ok [tk_minus; int_tok ds; eof_tok].
Proof.
  intros Hne H. unfold scan_noint.
  set (ts := [tk_minus; int_tok ds]).
  set (ws := [[]; []; []] : list chars).
  assert (E : list_ascii_of_string ("-" ++ str ds) = render ts ws).
  { change list_ascii_of_string with chars_of. rewrite !chars_of_app, !chars_of_str.
    unfold ts, ws, int_tok. cbn [render]. rewrite lx_str. cbn [app]. now rewrite !app_nil_r. }
  rewrite E. rewrite scan_render.
  - reflexivity.
  - unfold ts. cbn [forallb]. rewrite (int_tok_wf ds Hne H). reflexivity.
  - split; reflexivity.
  - unfold ts, ws. cbn [separated render]. rewrite can_follow_nil. reflexivity.
  - rewrite <- E. discriminate.
Qed.

Theorem arg_tree_negative ds : ds <> [] -> all_digits ds ->
  arg_tree ("-" ++ str ds) = Ok (LzOp "-" [LzVal (LInt (dec_value ds)) None]).
Proof.
  intros Hne H. unfold arg_tree, parse_text. rewrite (scan_negative ds Hne H). cbn [bind].
  unfold int_tok. generalize (dec_value ds) (str ds). intros z s. reflexivity.
Qed.

Definition gap (tight : bool) : string := if tight then "" else " ".

Theorem scan_subtraction (tight : bool) ds : ds <> [] -> all_digits ds ->
  scan_noint ("x -" ++ gap tight ++ str ds) = Ok [tk_x; tk_minus; int_tok ds; eof_tok].
Proof.
  intros Hne H. unfold scan_noint.
  set (ts := [tk_x; tk_minus; int_tok ds]).
  set (ws := [[]; [" "%char]; (if tight then [] else [" "%char]); []] : list chars).
  assert (E : list_ascii_of_string ("x -" ++ gap tight ++ str ds) = render ts ws).
  { change list_ascii_of_string with chars_of. rewrite !chars_of_app, !chars_of_str.
    unfold ts, ws, int_tok, gap. cbn [render]. rewrite lx_str. destruct tight; cbn [app]; now rewrite !app_nil_r. }
  rewrite E. rewrite scan_render.
  - reflexivity.
  - unfold ts. cbn [forallb]. rewrite (int_tok_wf ds Hne H). reflexivity.
  - split; [reflexivity|]. destruct tight; reflexivity.
  - unfold ts, ws. cbn [separated render]. rewrite can_follow_nil. reflexivity.
  - rewrite <- E. discriminate.
Qed.

Theorem arg_tree_subtraction tight ds : ds <> [] -> all_digits ds ->
  arg_tree ("x -" ++ gap tight ++ str ds) =
  Ok (LzOp "-" [LzVar "x"; LzVal (LInt (dec_value ds)) None]).
Proof.
  intros Hne H. unfold arg_tree, parse_text. rewrite (scan_subtraction tight ds Hne H). cbn [bind].
  unfold int_tok. generalize (dec_value ds) (str ds). intros z s. reflexivity.
Qed.

(* ------------------------------------------------------------------------------------------ *)
(** * Examples (non-vacuity), by computation *)

Definition d60 : string := "123456789012345678901234567890123456789012345678901234567890".
Definition d60' : string := "123456789012345678901234567890123456789012345678901234567891".
Definition d40 : string := "4000000000000000000000000000000000000001".
Definition d40' : string := "4000000000000000000000000000000000000002".

Example ex_hypotheses :
  all_digits (chars_of "9007199254740993") /\ no_leading_zero (chars_of "9007199254740993") = true /\
  all_digits (chars_of d60) /\ no_leading_zero (chars_of d60) = true /\
  all_digits (chars_of "007") /\ no_leading_zero (chars_of "007") = false /\ no_leading_zero (chars_of "0") = true.
Proof. vm_compute. repeat split. Qed.

Example ex_values :
  dec_value (chars_of "9007199254740993") = 9007199254740993 /\
  dec_value (chars_of "1700000000123456789") = 1700000000123456789 /\
  dec_value (chars_of d60) = 123456789012345678901234567890123456789012345678901234567890 /\
  dec_value (chars_of "007") = 7 /\ dec_value (chars_of "0") = 0 /\ dec_value (chars_of "000") = 0.
Proof. vm_compute. repeat split. Qed.

Example ex_scan_2_53_plus_1 :
  scan "y ~ f(x, 9007199254740993)" =
  Ok [tk_y; tk_tilde; one_tok; plus_tok; tk_f; tk_lp; tk_x; tk_comma;
      Tok NUMBER "9007199254740993" (Some (LInt 9007199254740993)); tk_rp; eof_tok].
Proof. vm_compute. reflexivity. Qed.

(* the same, as the instance of the theorem *)
Example ex_scan_2_53_plus_1_thm :
  scan ("y ~ f(x, " ++ str (chars_of "9007199254740993") ++ ")") =
  Ok [tk_y; tk_tilde; one_tok; plus_tok; tk_f; tk_lp; tk_x; tk_comma;
      int_tok (chars_of "9007199254740993"); tk_rp; eof_tok].
Proof. apply scan_formula_int; [discriminate | vm_compute; reflexivity]. Qed.

Example ex_trees :
  arg_tree "f(x, 9007199254740993)" = Ok (call_int 9007199254740993) /\
  arg_tree "f(x, 9007199254740992)" = Ok (call_int 9007199254740992) /\
  arg_tree "f(x, 1700000000123456789)" = Ok (call_int 1700000000123456789) /\
  arg_tree ("f(x, " ++ d60 ++ ")") = Ok (call_int 123456789012345678901234567890123456789012345678901234567890) /\
  arg_tree "f(x, 007)" = Ok (call_int 7).
Proof. vm_compute. repeat split. Qed.

(** 2**53 + 1 and 2**53 (equal as floats) are different terms with different names;
    so are two 40-digit and two 60-digit literals that differ in the last digit *)
Example ex_differ :
  lazy_eqb (call_int 9007199254740993) (call_int 9007199254740992) = false /\
  text_name "f(x, 9007199254740993)" = Ok "f(x, 9007199254740993)" /\
  text_name "f(x, 9007199254740992)" = Ok "f(x, 9007199254740992)" /\
  (exists t1 t2, arg_tree ("f(x, " ++ d40 ++ ")") = Ok t1 /\ arg_tree ("f(x, " ++ d40' ++ ")") = Ok t2 /\
     lazy_eqb t1 t2 = false /\ lazy_str t1 = "f(x, " ++ d40 ++ ")" /\ lazy_str t2 = "f(x, " ++ d40' ++ ")") /\
  (exists t1 t2, arg_tree ("f(x, " ++ d60 ++ ")") = Ok t1 /\ arg_tree ("f(x, " ++ d60' ++ ")") = Ok t2 /\
     lazy_eqb t1 t2 = false /\ lazy_str t1 = "f(x, " ++ d60 ++ ")" /\ lazy_str t2 = "f(x, " ++ d60' ++ ")").
Proof.
  split; [vm_compute; reflexivity|]. split; [vm_compute; reflexivity|]. split; [vm_compute; reflexivity|].
  split; eexists; eexists; (split; [vm_compute; reflexivity|]); (split; [vm_compute; reflexivity|]);
    (split; [vm_compute; reflexivity|]); split; vm_compute; reflexivity.
Qed.

Example ex_print :
  zshow (dec_value (chars_of "007")) = "7" /\ zshow (dec_value (chars_of "0")) = "0" /\
  zshow (dec_value (chars_of "000")) = "0" /\ text_name "f(x, 007)" = Ok "f(x, 7)" /\
  zshow (dec_value (chars_of d60)) = d60 /\
  Driver.describe_string "y ~ f(x, 1700000000123456789)" =
    Ok (Mod (Some [CVar (NStr "y") None]) [CI; CT [CCall (call_int 1700000000123456789)]] []).
Proof. vm_compute. repeat split. Qed.

Example ex_negative :
  arg_tree "-5" = Ok (LzOp "-" [LzVal (LInt 5) None]) /\
  arg_tree "x - 5" = Ok (LzOp "-" [LzVar "x"; LzVal (LInt 5) None]) /\
  arg_tree "x -5" = Ok (LzOp "-" [LzVar "x"; LzVal (LInt 5) None]) /\
  arg_tree "f(x, -9007199254740993)" = Ok (LzCall "f" [LzVar "x"; LzOp "-" [LzVal (LInt 9007199254740993) None]] []) /\
  scan_noint "-5" = Ok [tk_minus; Tok NUMBER "5" (Some (LInt 5)); eof_tok] /\
  text_name "f(x, -5)" = Ok "f(x, -5)" /\ text_name "f(x, - 5)" = Ok "f(x, -5)".
Proof. vm_compute. repeat split. Qed.

Example ex_decimal_forms :
  arg_tree "f(x, .5)" = Ok (LzCall "f" [LzVar "x"; LzVal (LFloat "" "5") None] []) /\
  arg_tree "f(x, 1.5)" = Ok (LzCall "f" [LzVar "x"; LzVal (LFloat "1" "5") None] []) /\
  arg_tree "f(x, 0.25)" = Ok (LzCall "f" [LzVar "x"; LzVal (LFloat "0" "25") None] []) /\
  parse_text "f(x, 1.)" = Err EParse /\ parse_text "1." = Err EParse /\
  lit_q (LFloat "1" "5") = Some (15 # 10)%Q /\ lit_q (LFloat "" "5") = Some (5 # 10)%Q /\
  lit_q (LFloat "0" "25") = Some (25 # 100)%Q.
Proof. vm_compute. repeat split. Qed.

Print Assumptions zread_digits.
Print Assumptions zshow_dec_value.
Print Assumptions dec_value_zshow.
Print Assumptions zshow_canonical.
Print Assumptions dec_value_inj.
Print Assumptions dec_value_eq_iff.
Print Assumptions scan_token_int_exact.
Print Assumptions scan_formula_int.
Print Assumptions scan_call_int.
Print Assumptions scan_int_tokens_exact.
Print Assumptions scan_float_tokens_exact.
Print Assumptions arg_tree_call_int.
Print Assumptions describe_formula_int.
Print Assumptions text_name_call_int.
Print Assumptions call_int_eqb.
Print Assumptions call_int_differ.
Print Assumptions call_literal_position_differ.
Print Assumptions call_int_name_inj.
Print Assumptions texts_differ.
Print Assumptions texts_same_iff.
Print Assumptions scan_call_float.
Print Assumptions arg_tree_call_float.
Print Assumptions scan_trailing_dot.
Print Assumptions trailing_dot_rejected.
Print Assumptions float_mant_dec.
Print Assumptions float_value.
Print Assumptions lit_eqb_exact.
Print Assumptions float_name.
Print Assumptions float_name_typed_digits_refuted.
Print Assumptions float_repr_digits.
Print Assumptions float_name_iff_value.
Print Assumptions call_float_same_iff_name.
Print Assumptions scan_negative.
Print Assumptions arg_tree_negative.
Print Assumptions scan_subtraction.
Print Assumptions arg_tree_subtraction.
Print Assumptions ex_differ.
