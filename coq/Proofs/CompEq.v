(* comp_eqb (the model of Variable.__eq__ / Call.__eq__) is an equivalence relation on the
   components that formulas produce. *)
From Verif Require Import Base Tokens Lazy Algebra.
From Coq Require Import Lia ZArith List String Bool.
Import ListNotations.

(* ------------------------------------------------------------------------------------ *)
(* [lazy_ok l]: every keyword-argument dictionary inside [l] has pairwise distinct keys
   (what kw_set guarantees). *)
Fixpoint lazy_ok (l : lazy) : Prop :=
  match l with
  | LzOp _ args =>
      (fix go (x : list lazy) : Prop :=
         match x with [] => True | a :: r => lazy_ok a /\ go r end) args
  | LzVar _ => True
  | LzVal _ _ => True
  | LzCall _ args kwargs =>
      (fix go (x : list lazy) : Prop :=
         match x with [] => True | a :: r => lazy_ok a /\ go r end) args /\
      NoDup (map fst kwargs) /\
      (fix gok (x : list (string * lazy)) : Prop :=
         match x with [] => True | (_, v) :: r => lazy_ok v /\ gok r end) kwargs
  end.

Definition good (c : comp) : Prop :=
  match c with
  | CVar (NStr _) None => True
  | CCall l => lazy_ok l
  | _ => False
  end.

(* ---- lazy_ok in terms of Forall ---- *)
Lemma lazy_ok_op : forall s args, lazy_ok (LzOp s args) <-> Forall lazy_ok args.
Proof.
  intros s args. cbn [lazy_ok].
  induction args as [|a r IH].
  - split; intros; [constructor | exact I].
  - split.
    + intros [Ha Hr]. constructor; [exact Ha | apply IH; exact Hr].
    + intros H. inversion H; subst. split; [assumption | apply IH; assumption].
Qed.

Lemma lazy_ok_call : forall c args kw,
  lazy_ok (LzCall c args kw) <->
  Forall lazy_ok args /\ NoDup (map fst kw) /\ Forall (fun kv => lazy_ok (snd kv)) kw.
Proof.
  intros c args kw. cbn [lazy_ok].
  assert (HA : (fix go (x : list lazy) : Prop :=
                  match x with [] => True | a :: r => lazy_ok a /\ go r end) args
               <-> Forall lazy_ok args).
  { induction args as [|a r IH].
    - split; intros; [constructor | exact I].
    - split.
      + intros [Ha Hr]. constructor; [exact Ha | apply IH; exact Hr].
      + intros H. inversion H; subst. split; [assumption | apply IH; assumption]. }
  assert (HK : (fix gok (x : list (string * lazy)) : Prop :=
                  match x with [] => True | (_, v) :: r => lazy_ok v /\ gok r end) kw
               <-> Forall (fun kv => lazy_ok (snd kv)) kw).
  { induction kw as [|[k v] r IH].
    - split; intros; [constructor | exact I].
    - split.
      + intros [Ha Hr]. constructor; [exact Ha | apply IH; exact Hr].
      + intros H. inversion H; subst. split; [assumption | apply IH; assumption]. }
  rewrite HA, HK. reflexivity.
Qed.

(* ---- custom induction principles for the nested inductives ---- *)
Section LazyInd.
  Variable P : lazy -> Prop.
  Hypothesis HOp : forall s args, Forall P args -> P (LzOp s args).
  Hypothesis HVar : forall n, P (LzVar n).
  Hypothesis HVal : forall v lx, P (LzVal v lx).
  Hypothesis HCall : forall c args kw,
      Forall P args -> Forall (fun kv => P (snd kv)) kw -> P (LzCall c args kw).

  Fixpoint lazy_ind' (l : lazy) : P l :=
    match l with
    | LzOp s args =>
        HOp s args
          ((fix go (x : list lazy) : Forall P x :=
              match x with
              | [] => Forall_nil P
              | a :: r => Forall_cons a (lazy_ind' a) (go r)
              end) args)
    | LzVar n => HVar n
    | LzVal v lx => HVal v lx
    | LzCall c args kw =>
        HCall c args kw
          ((fix go (x : list lazy) : Forall P x :=
              match x with
              | [] => Forall_nil P
              | a :: r => Forall_cons a (lazy_ind' a) (go r)
              end) args)
          ((fix gok (x : list (string * lazy)) : Forall (fun kv => P (snd kv)) x :=
              match x with
              | [] => Forall_nil _
              | kv :: r =>
                  Forall_cons kv
                    (match kv as kv0 return P (snd kv0) with (_, v) => lazy_ind' v end)
                    (gok r)
              end) kw)
    end.
End LazyInd.

Section ExprInd.
  Variable P : expr -> Prop.
  Hypothesis HAssign : forall n v, P n -> P v -> P (EAssign n v).
  Hypothesis HGroup : forall e, P e -> P (EGrouping e).
  Hypothesis HBin : forall l op r, P l -> P r -> P (EBinary l op r).
  Hypothesis HUn : forall op r, P r -> P (EUnary op r).
  Hypothesis HCall : forall c args, P c -> Forall P args -> P (ECall c args).
  Hypothesis HVar : forall n lv, P (EVariable n lv).
  Hypothesis HQ : forall t, P (EQuotedName t).
  Hypothesis HLit : forall v lx, P (ELiteral v lx).

  Fixpoint expr_ind' (e : expr) : P e :=
    match e with
    | EAssign n v => HAssign n v (expr_ind' n) (expr_ind' v)
    | EGrouping e' => HGroup e' (expr_ind' e')
    | EBinary l op r => HBin l op r (expr_ind' l) (expr_ind' r)
    | EUnary op r => HUn op r (expr_ind' r)
    | ECall c args =>
        HCall c args (expr_ind' c)
          ((fix go (x : list expr) : Forall P x :=
              match x with
              | [] => Forall_nil P
              | a :: r => Forall_cons a (expr_ind' a) (go r)
              end) args)
    | EVariable n lv => HVar n lv
    | EQuotedName t => HQ t
    | ELiteral v lx => HLit v lx
    end.
End ExprInd.

(* ------------------------------------------------------------------------------------ *)
(* call_resolve only builds ok trees *)

Lemma kw_set_keys_in : forall k v l x,
  In x (map fst (kw_set k v l)) -> x = k \/ In x (map fst l).
Proof.
  intros k v l. induction l as [|[k' v'] r IH]; intros x Hx.
  - cbn in Hx. destruct Hx as [Hx|[]]. left; auto.
  - cbn [kw_set] in Hx. destruct (String.eqb k k') eqn:E.
    + apply String.eqb_eq in E. subst k'. cbn in Hx |- *. destruct Hx as [Hx|Hx]; auto.
    + cbn in Hx |- *. destruct Hx as [Hx|Hx]; auto.
      apply IH in Hx. destruct Hx; auto.
Qed.

Lemma kw_set_nodup : forall k v l, NoDup (map fst l) -> NoDup (map fst (kw_set k v l)).
Proof.
  intros k v l. induction l as [|[k' v'] r IH]; intros H.
  - cbn. constructor; [intros [] | constructor].
  - cbn [kw_set]. cbn in H. inversion H as [|? ? Hni Hnd]; subst.
    destruct (String.eqb k k') eqn:E.
    + apply String.eqb_eq in E. subst k'. cbn. constructor; assumption.
    + cbn. constructor.
      * intros Hin. apply kw_set_keys_in in Hin. destruct Hin as [Hin|Hin].
        -- subst k'. rewrite String.eqb_refl in E. discriminate.
        -- contradiction.
      * apply IH; assumption.
Qed.

Lemma kw_set_forall : forall (Q : lazy -> Prop) k v l,
  Q v -> Forall (fun kv => Q (snd kv)) l -> Forall (fun kv => Q (snd kv)) (kw_set k v l).
Proof.
  intros Q k v l Hv. induction l as [|[k' v'] r IH]; intros H.
  - cbn. constructor; [exact Hv | constructor].
  - cbn [kw_set]. inversion H; subst. destruct (String.eqb k k').
    + constructor; assumption.
    + constructor; [assumption | apply IH; assumption].
Qed.

(* the named version of the argument loop of call_resolve *)
Fixpoint cr_args (args : list expr) (pos : list lazy) (kw : list (string * lazy))
  : res (list lazy * list (string * lazy)) :=
  match args with
  | [] => Ok (pos, kw)
  | a :: r =>
      match a with
      | EAssign (EVariable n _) v =>
          do lv <- call_resolve v; cr_args r pos (kw_set (lexeme n) lv kw)
      | EAssign _ _ => Err EAttr
      | _ => do la <- call_resolve a; cr_args r (pos ++ [la])%list kw
      end
  end.

Lemma call_resolve_ecall : forall c args,
  call_resolve (ECall c args) =
  (do pk <- cr_args args [] [];
   match c with
   | EVariable n _ => Ok (LzCall (lexeme n) (fst pk) (snd pk))
   | _ => Err EAttr
   end).
Proof.
  intros c args. cbn [call_resolve].
  match goal with
  | |- bind (?F args [] []) _ = _ =>
      assert (HF : forall a p k, F a p k = cr_args a p k)
  end.
  { induction a as [|a r IH]; intros p k.
    - reflexivity.
    - cbn [cr_args].
      destruct a as [a1 a2| | | | | | |]; [destruct a1; try reflexivity|..];
        (unfold bind;
         match goal with
         | |- match ?X with _ => _ end = _ => destruct X; [apply IH | reflexivity]
         end). }
  rewrite HF. reflexivity.
Qed.

Definition cr_ok (e : expr) : Prop := forall l, call_resolve e = Ok l -> lazy_ok l.
Definition cr_ok' (e : expr) : Prop :=
  cr_ok e /\ match e with EAssign _ v => cr_ok v | _ => True end.

Lemma cr_args_ok : forall args,
  Forall cr_ok' args ->
  forall pos kw p k,
    Forall lazy_ok pos -> NoDup (map fst kw) -> Forall (fun kv => lazy_ok (snd kv)) kw ->
    cr_args args pos kw = Ok (p, k) ->
    Forall lazy_ok p /\ NoDup (map fst k) /\ Forall (fun kv => lazy_ok (snd kv)) k.
Proof.
  induction args as [|a r IH]; intros HA pos kw p k Hpos Hnd Hkw Hgo.
  - cbn in Hgo. inversion Hgo; subst. auto.
  - inversion HA as [|? ? [Ha Ha'] Hr]; subst.
    assert (Hdefault : forall la, call_resolve a = Ok la ->
              cr_args r (pos ++ [la])%list kw = Ok (p, k) ->
              Forall lazy_ok p /\ NoDup (map fst k) /\ Forall (fun kv => lazy_ok (snd kv)) k).
    { intros la Hla Hrest.
      eapply IH; [exact Hr | | exact Hnd | exact Hkw | exact Hrest].
      apply Forall_app. split; [assumption | constructor; [apply Ha; assumption | constructor]]. }
    cbn [cr_args] in Hgo.
    destruct a as [n v|e'|l op r'|op r'|c args'|n lv|t|v lx];
      try (unfold bind in Hgo at 1;
           match type of Hgo with
           | match ?X with _ => _ end = _ => destruct X as [la|] eqn:Hla; [|discriminate]
           end;
           eapply Hdefault; [reflexivity | exact Hgo]).
    destruct n; try discriminate.
    unfold bind in Hgo at 1.
    destruct (call_resolve v) as [lv|] eqn:Hlv; [|discriminate].
    eapply IH; [exact Hr | exact Hpos | | | exact Hgo].
    + apply kw_set_nodup; assumption.
    + apply kw_set_forall; [apply Ha'; assumption | assumption].
Qed.

Lemma call_resolve_ok' : forall e, cr_ok' e.
Proof.
  induction e as [n v IHn IHv|e IHe|l op r IHl IHr|op r IHr|c args IHc IHargs|n lv|t|v lx]
    using expr_ind'; unfold cr_ok'; (split; [|try exact I]).
  - intros l H. cbn in H. discriminate.
  - exact (proj1 IHv).
  - intros l H. cbn [call_resolve] in H. apply (proj1 IHe); assumption.
  - intros x H. cbn [call_resolve] in H.
    destruct (lookup_kind (tkind op) binary_symbols); [|discriminate].
    unfold bind in H.
    destruct (call_resolve l) as [ll|] eqn:Hl; [|discriminate].
    destruct (call_resolve r) as [lr|] eqn:Hr; [|discriminate].
    inversion H; subst. apply lazy_ok_op.
    constructor; [apply (proj1 IHl); assumption|].
    constructor; [apply (proj1 IHr); assumption| constructor].
  - intros x H. cbn [call_resolve] in H.
    destruct (lookup_kind (tkind op) unary_symbols); [|discriminate].
    unfold bind in H.
    destruct (call_resolve r) as [lr|] eqn:Hr; [|discriminate].
    inversion H; subst. apply lazy_ok_op.
    constructor; [apply (proj1 IHr); assumption| constructor].
  - intros x H. rewrite call_resolve_ecall in H. unfold bind in H.
    destruct (cr_args args [] []) as [[p k]|] eqn:Hargs; [|discriminate].
    destruct c; try discriminate. inversion H; subst. cbn [fst snd].
    apply lazy_ok_call.
    eapply cr_args_ok; [exact IHargs | | | | exact Hargs]; constructor.
  - intros x H. cbn in H. inversion H; subst. exact I.
  - intros x H. cbn in H. inversion H; subst. exact I.
  - intros x H. cbn in H. inversion H; subst. exact I.
Qed.

Lemma call_resolve_good : forall e l, call_resolve e = Ok l -> good (CCall l).
Proof. intros e l H. cbn [good]. exact (proj1 (call_resolve_ok' e) l H). Qed.

(* ------------------------------------------------------------------------------------ *)
(* lit_eqb is an equivalence on all literals *)

Definition lit_num (x : lit) : option (Z * nat) :=
  match x with
  | LInt z => Some (z, O)
  | LFloat ip fp => Some (float_mant ip fp, float_exp fp)
  | LBool true => Some (1%Z, O)
  | LBool false => Some (0%Z, O)
  | _ => None
  end.

Lemma lit_eqb_unfold : forall a b,
  lit_eqb a b =
  match lit_num a, lit_num b with
  | Some (m1, e1), Some (m2, e2) => Z.eqb (m1 * z_pow10 e2) (m2 * z_pow10 e1)
  | None, None =>
      match a, b with
      | LStr s1, LStr s2 => String.eqb s1 s2
      | LNone, LNone => true
      | _, _ => false
      end
  | _, _ => false
  end.
Proof. reflexivity. Qed.

Lemma z_pow10_pos : forall n, (0 < z_pow10 n)%Z.
Proof. intros n. unfold z_pow10. apply Z.pow_pos_nonneg; lia. Qed.

Lemma lit_eqb_refl : forall a, lit_eqb a a = true.
Proof.
  intros a. rewrite lit_eqb_unfold.
  destruct (lit_num a) as [[m e]|] eqn:E.
  - apply Z.eqb_refl.
  - destruct a as [| | |[]|]; cbn in E; try discriminate; auto using String.eqb_refl.
Qed.

Lemma lit_eqb_sym : forall a b, lit_eqb a b = true -> lit_eqb b a = true.
Proof.
  intros a b. rewrite !lit_eqb_unfold.
  destruct (lit_num a) as [[m1 e1]|] eqn:Ea, (lit_num b) as [[m2 e2]|] eqn:Eb;
    try discriminate.
  - rewrite !Z.eqb_eq. intros H. symmetry. exact H.
  - destruct a as [| | |[]|], b as [| | |[]|]; cbn in Ea, Eb; try discriminate; auto.
    rewrite String.eqb_sym. auto.
Qed.

Lemma lit_eqb_trans : forall a b c,
  lit_eqb a b = true -> lit_eqb b c = true -> lit_eqb a c = true.
Proof.
  intros a b c. rewrite !lit_eqb_unfold.
  destruct (lit_num a) as [[m1 e1]|] eqn:Ea, (lit_num b) as [[m2 e2]|] eqn:Eb,
           (lit_num c) as [[m3 e3]|] eqn:Ec; try discriminate.
  - rewrite !Z.eqb_eq. intros H1 H2.
    pose proof (z_pow10_pos e1) as P1. pose proof (z_pow10_pos e2) as P2.
    pose proof (z_pow10_pos e3) as P3.
    apply (Z.mul_cancel_r _ _ (z_pow10 e2)); [lia|].
    transitivity (m1 * z_pow10 e2 * z_pow10 e3)%Z; [ring|].
    rewrite H1.
    transitivity (m2 * z_pow10 e3 * z_pow10 e1)%Z; [ring|].
    rewrite H2. ring.
  - destruct a as [| | |[]|], b as [| | |[]|], c as [| | |[]|];
      cbn in Ea, Eb, Ec; try discriminate; auto.
    rewrite !String.eqb_eq. congruence.
Qed.

(* ------------------------------------------------------------------------------------ *)
(* generic pointwise / dictionary comparisons *)

Section Generic.
  Context {A : Type}.
  Variable f : A -> A -> bool.
  Variable P : A -> Prop.

  Fixpoint list_all2 (x y : list A) : bool :=
    match x, y with
    | [], [] => true
    | p :: x', q :: y' => f p q && list_all2 x' y'
    | _, _ => false
    end.

  Fixpoint kw_look (k : string) (v : A) (y : list (string * A)) : bool :=
    match y with
    | [] => false
    | (k', v') :: y' => if String.eqb k k' then f v v' else kw_look k v y'
    end.

  Fixpoint kw_sub (x y : list (string * A)) : bool :=
    match x with
    | [] => true
    | (k, v) :: x' => kw_look k v y && kw_sub x' y
    end.

  Fixpoint kw_find (k : string) (y : list (string * A)) : option A :=
    match y with
    | [] => None
    | (k', v') :: y' => if String.eqb k k' then Some v' else kw_find k y'
    end.

  Lemma list_all2_refl : forall x,
    Forall (fun a => P a -> f a a = true) x -> Forall P x -> list_all2 x x = true.
  Proof.
    induction x as [|a r IH]; intros H HP; [reflexivity|].
    inversion H; subst. inversion HP; subst. cbn.
    apply andb_true_iff. split; auto.
  Qed.

  Lemma list_all2_sym : forall x,
    Forall (fun a => forall b, P a -> P b -> f a b = true -> f b a = true) x ->
    forall y, Forall P x -> Forall P y -> list_all2 x y = true -> list_all2 y x = true.
  Proof.
    induction x as [|a r IH]; intros H y HPx HPy E; destruct y as [|b y']; try discriminate.
    - reflexivity.
    - cbn in E |- *. apply andb_true_iff in E. destruct E as [E1 E2].
      inversion H; subst. inversion HPx; subst. inversion HPy; subst.
      apply andb_true_iff. split; auto.
  Qed.

  Lemma list_all2_trans : forall x,
    Forall (fun a => forall b c, f a b = true -> f b c = true -> f a c = true) x ->
    forall y z, list_all2 x y = true -> list_all2 y z = true -> list_all2 x z = true.
  Proof.
    induction x as [|a r IH]; intros H y z E1 E2;
      destruct y as [|b y']; try discriminate; destruct z as [|c z']; try discriminate.
    - reflexivity.
    - cbn in E1, E2 |- *.
      apply andb_true_iff in E1. destruct E1 as [E1 E1'].
      apply andb_true_iff in E2. destruct E2 as [E2 E2'].
      inversion H; subst.
      apply andb_true_iff. split; eauto.
  Qed.

  Lemma kw_look_find : forall k v y,
    kw_look k v y = match kw_find k y with Some v' => f v v' | None => false end.
  Proof.
    intros k v y. induction y as [|[k' v'] r IH]; cbn; [reflexivity|].
    destruct (String.eqb k k'); auto.
  Qed.

  Lemma kw_find_in : forall k y v, kw_find k y = Some v -> In (k, v) y.
  Proof.
    intros k y. induction y as [|[k' v'] r IH]; intros v H; cbn in H; [discriminate|].
    destruct (String.eqb k k') eqn:E.
    - apply String.eqb_eq in E. inversion H; subst. left; reflexivity.
    - right. apply IH; assumption.
  Qed.

  Lemma kw_find_nodup : forall k y v,
    NoDup (map fst y) -> In (k, v) y -> kw_find k y = Some v.
  Proof.
    intros k y. induction y as [|[k' v'] r IH]; intros v Hnd Hin; [destruct Hin|].
    cbn in Hnd. inversion Hnd as [|? ? Hni Hnd']; subst.
    cbn. destruct Hin as [Hin|Hin].
    - inversion Hin; subst. rewrite String.eqb_refl. reflexivity.
    - destruct (String.eqb k k') eqn:E.
      + apply String.eqb_eq in E. subst k'. exfalso. apply Hni.
        change k with (fst (k, v)). apply in_map. assumption.
      + apply IH; assumption.
  Qed.

  Lemma kw_sub_spec : forall x y,
    kw_sub x y = true <->
    (forall k v, In (k, v) x -> exists v', kw_find k y = Some v' /\ f v v' = true).
  Proof.
    intros x y. induction x as [|[k v] r IH].
    - cbn. split; [intros _ k v []| reflexivity].
    - cbn [kw_sub]. rewrite andb_true_iff, IH, kw_look_find. split.
      + intros [H1 H2] k0 v0 [Hin|Hin].
        * inversion Hin; subst. destruct (kw_find k0 y) as [v'|]; [|discriminate]. eauto.
        * apply H2; assumption.
      + intros H. split.
        * destruct (H k v (or_introl eq_refl)) as [v' [Hf Hv]]. rewrite Hf. exact Hv.
        * intros k0 v0 Hin. apply H. right; assumption.
  Qed.

  Lemma kw_sub_refl : forall x,
    Forall (fun kv => P (snd kv) -> f (snd kv) (snd kv) = true) x ->
    Forall (fun kv => P (snd kv)) x -> NoDup (map fst x) -> kw_sub x x = true.
  Proof.
    intros x H HP Hnd. apply kw_sub_spec. intros k v Hin.
    exists v. split; [apply kw_find_nodup; assumption|].
    rewrite Forall_forall in H, HP.
    apply (H (k, v) Hin). apply (HP (k, v) Hin).
  Qed.

  Lemma kw_sub_sym : forall x y,
    Forall (fun kv => forall b, P (snd kv) -> P b -> f (snd kv) b = true -> f b (snd kv) = true) x ->
    Forall (fun kv => P (snd kv)) x -> Forall (fun kv => P (snd kv)) y ->
    NoDup (map fst x) -> NoDup (map fst y) ->
    List.length x = List.length y ->
    kw_sub x y = true -> kw_sub y x = true.
  Proof.
    intros x y H HPx HPy Hndx Hndy Hlen Hsub.
    rewrite kw_sub_spec in Hsub. apply kw_sub_spec.
    assert (Hincl : incl (map fst x) (map fst y)).
    { intros k Hk. apply in_map_iff in Hk. destruct Hk as [[k0 v] [Hk Hin]]. cbn in Hk. subst k0.
      destruct (Hsub k v Hin) as [v' [Hf _]]. apply kw_find_in in Hf.
      change k with (fst (k, v')). apply in_map. assumption. }
    assert (Hincl' : incl (map fst y) (map fst x)).
    { apply NoDup_length_incl; [assumption | rewrite !map_length; lia | assumption]. }
    intros k v' Hin'.
    assert (Hk : In k (map fst x)).
    { apply Hincl'. change k with (fst (k, v')). apply in_map. assumption. }
    apply in_map_iff in Hk. destruct Hk as [[k0 v] [Hk Hin]]. cbn in Hk. subst k0.
    exists v. split; [apply kw_find_nodup; assumption|].
    destruct (Hsub k v Hin) as [v'' [Hf Hv]].
    rewrite (kw_find_nodup k y v' Hndy Hin') in Hf. inversion Hf; subst v''.
    rewrite Forall_forall in H, HPx, HPy.
    apply (H (k, v) Hin); [apply (HPx (k, v) Hin) | apply (HPy (k, v') Hin') | exact Hv].
  Qed.

  Lemma kw_sub_trans : forall x y z,
    Forall (fun kv => forall b c, f (snd kv) b = true -> f b c = true -> f (snd kv) c = true) x ->
    kw_sub x y = true -> kw_sub y z = true -> kw_sub x z = true.
  Proof.
    intros x y z H H1 H2. rewrite kw_sub_spec in *.
    intros k v Hin.
    destruct (H1 k v Hin) as [v' [Hf1 Hv1]].
    destruct (H2 k v' (kw_find_in _ _ _ Hf1)) as [v'' [Hf2 Hv2]].
    exists v''. split; [assumption|].
    rewrite Forall_forall in H. exact (H (k, v) Hin v' v'' Hv1 Hv2).
  Qed.
End Generic.

(* ------------------------------------------------------------------------------------ *)
(* lazy_eqb in terms of the named helpers *)

Lemma lazy_eqb_op : forall s1 l1 s2 l2,
  lazy_eqb (LzOp s1 l1) (LzOp s2 l2) = String.eqb s1 s2 && list_all2 lazy_eqb l1 l2.
Proof.
  reflexivity.
Qed.

Lemma lazy_eqb_call : forall c1 a1 k1 c2 a2 k2,
  lazy_eqb (LzCall c1 a1 k1) (LzCall c2 a2 k2) =
  String.eqb c1 c2 && list_all2 lazy_eqb a1 a2 &&
  Nat.eqb (List.length k1) (List.length k2) && kw_sub lazy_eqb k1 k2.
Proof.
  intros c1 a1 k1 c2 a2 k2.
  change (lazy_eqb (LzCall c1 a1 k1) (LzCall c2 a2 k2)) with
    (String.eqb c1 c2 && list_all2 lazy_eqb a1 a2 &&
     Nat.eqb (List.length k1) (List.length k2) &&
     (fix gok (x : list (string * lazy)) : bool :=
         match x with
         | [] => true
         | (k, v) :: x' =>
             (fix find (y : list (string * lazy)) : bool :=
                match y with
                | [] => false
                | (k', v') :: y' => if String.eqb k k' then lazy_eqb v v' else find y'
                end) k2 && gok x'
         end) k1).
  f_equal.
  - induction k1 as [|[k v] r IH]; [reflexivity|].
    cbn [kw_sub]. rewrite <- IH. f_equal.
    clear IH. induction k2 as [|[k' v'] r2 IH2]; [reflexivity|].
    cbn [kw_look]. rewrite <- IH2. reflexivity.
Qed.

Lemma option_string_eqb_refl : forall x : option string, option_eqb String.eqb x x = true.
Proof. intros [s|]; cbn; auto using String.eqb_refl. Qed.
Lemma option_string_eqb_eq : forall x y : option string, option_eqb String.eqb x y = true -> x = y.
Proof.
  intros [s|] [t|]; cbn; try discriminate; auto.
  intros H. apply String.eqb_eq in H. congruence.
Qed.

Lemma lazy_eqb_refl : forall a, lazy_ok a -> lazy_eqb a a = true.
Proof.
  induction a as [s args IH|n|v lx|c args kw IHa IHk] using lazy_ind'; intros Hok.
  - rewrite lazy_eqb_op, String.eqb_refl. cbn [andb].
    apply lazy_ok_op in Hok. eapply list_all2_refl; eassumption.
  - cbn. apply String.eqb_refl.
  - cbn [lazy_eqb]. rewrite lit_eqb_refl, option_string_eqb_refl. reflexivity.
  - apply lazy_ok_call in Hok. destruct Hok as [Ha [Hnd Hk]].
    rewrite lazy_eqb_call, String.eqb_refl, Nat.eqb_refl.
    rewrite (list_all2_refl lazy_eqb lazy_ok args IHa Ha).
    rewrite (kw_sub_refl lazy_eqb lazy_ok kw IHk Hk Hnd). reflexivity.
Qed.

Lemma lazy_eqb_sym : forall a b, lazy_ok a -> lazy_ok b -> lazy_eqb a b = true -> lazy_eqb b a = true.
Proof.
  induction a as [s args IH|n|v lx|c args kw IHa IHk] using lazy_ind';
    intros b Hoka Hokb E; destruct b as [s' args'|n'|v' lx'|c' args' kw'];
    try (cbn in E; discriminate).
  - rewrite lazy_eqb_op in *. apply andb_true_iff in E. destruct E as [E1 E2].
    apply lazy_ok_op in Hoka. apply lazy_ok_op in Hokb.
    rewrite String.eqb_sym, E1. cbn [andb].
    eapply list_all2_sym; eassumption.
  - cbn in E |- *. rewrite String.eqb_sym. assumption.
  - cbn [lazy_eqb] in E |- *. apply andb_true_iff in E. destruct E as [E1 E2].
    apply option_string_eqb_eq in E2. subst lx'.
    rewrite (lit_eqb_sym _ _ E1), option_string_eqb_refl. reflexivity.
  - rewrite lazy_eqb_call in *.
    apply lazy_ok_call in Hoka. destruct Hoka as [Ha [Hnd Hk]].
    apply lazy_ok_call in Hokb. destruct Hokb as [Ha' [Hnd' Hk']].
    rewrite !andb_true_iff in E. destruct E as [[[E1 E2] E3] E4].
    apply Nat.eqb_eq in E3.
    rewrite String.eqb_sym, E1.
    rewrite (list_all2_sym lazy_eqb lazy_ok args IHa args' Ha Ha' E2).
    rewrite <- E3, Nat.eqb_refl.
    rewrite (kw_sub_sym lazy_eqb lazy_ok kw kw' IHk Hk Hk' Hnd Hnd' E3 E4). reflexivity.
Qed.

Lemma lazy_eqb_trans : forall a b c,
  lazy_eqb a b = true -> lazy_eqb b c = true -> lazy_eqb a c = true.
Proof.
  induction a as [s args IH|n|v lx|c0 args kw IHa IHk] using lazy_ind';
    intros b c E1 E2;
    destruct b as [s' args'|n'|v' lx'|c' args' kw']; try (cbn in E1; discriminate);
    destruct c as [s'' args''|n''|v'' lx''|c'' args'' kw'']; try (cbn in E2; discriminate).
  - rewrite lazy_eqb_op in *.
    apply andb_true_iff in E1. destruct E1 as [E1 E1'].
    apply andb_true_iff in E2. destruct E2 as [E2 E2'].
    apply String.eqb_eq in E1. subst s'. rewrite E2. cbn [andb].
    eapply list_all2_trans; eassumption.
  - cbn in E1, E2 |- *. apply String.eqb_eq in E1. subst n'. assumption.
  - cbn [lazy_eqb] in E1, E2 |- *.
    apply andb_true_iff in E1. destruct E1 as [E1 E1'].
    apply andb_true_iff in E2. destruct E2 as [E2 E2'].
    apply option_string_eqb_eq in E1'. subst lx'. rewrite E2'.
    rewrite (lit_eqb_trans _ _ _ E1 E2). reflexivity.
  - rewrite lazy_eqb_call in *.
    rewrite !andb_true_iff in E1. destruct E1 as [[[E1 E1a] E1l] E1k].
    rewrite !andb_true_iff in E2. destruct E2 as [[[E2 E2a] E2l] E2k].
    apply String.eqb_eq in E1. subst c'. rewrite E2.
    apply Nat.eqb_eq in E1l. rewrite E1l, E2l.
    rewrite (list_all2_trans lazy_eqb args IHa args' args'' E1a E2a).
    rewrite (kw_sub_trans lazy_eqb kw kw' kw'' IHk E1k E2k). reflexivity.
Qed.

(* ------------------------------------------------------------------------------------ *)
Lemma comp_eqb_refl : forall c, good c -> comp_eqb c c = true.
Proof.
  intros [[s|v] [l|]|l] H; cbn in H; try contradiction.
  - cbn. rewrite String.eqb_refl. reflexivity.
  - cbn. apply lazy_eqb_refl; assumption.
Qed.

Lemma comp_eqb_sym : forall a b, good a -> good b -> comp_eqb a b = true -> comp_eqb b a = true.
Proof.
  intros [[s|v] [l|]|l] [[s'|v'] [l'|]|l'] Ha Hb E; cbn in Ha, Hb; try contradiction;
    cbn in E |- *; try discriminate.
  - rewrite String.eqb_sym. assumption.
  - apply lazy_eqb_sym; assumption.
Qed.

Lemma comp_eqb_trans : forall a b c, good a -> good b -> good c ->
  comp_eqb a b = true -> comp_eqb b c = true -> comp_eqb a c = true.
Proof.
  intros [[s|v] [l|]|l] [[s'|v'] [l'|]|l'] [[s''|v''] [l''|]|l''] Ha Hb Hc E1 E2;
    cbn in Ha, Hb, Hc; try contradiction; cbn in E1, E2 |- *; try discriminate.
  - rewrite andb_true_r in *. apply String.eqb_eq in E1. subst s'. assumption.
  - eapply lazy_eqb_trans; eassumption.
Qed.

Lemma good_not_numeric : forall c, good c -> is_numeric_name c = false.
Proof.
  intros [[s|v] [l|]|l] H; cbn in H; try contradiction; reflexivity.
Qed.

Print Assumptions call_resolve_good.
Print Assumptions comp_eqb_refl.
Print Assumptions comp_eqb_sym.
Print Assumptions comp_eqb_trans.
Print Assumptions good_not_numeric.
