From Verif Require Import Base Env.
From Coq Require Import Lia.

(* first match wins, for chains of any length *)
Lemma lookup_first_match chain x v :
  lookup chain x = Some v <->
  exists pre s post, chain = (pre ++ s :: post)%list /\ sassoc x s = Some v /\
                     Forall (fun s' => sassoc x s' = None) pre.
Proof.
  split.
  - induction chain as [|s r IH]; simpl; [discriminate|].
    destruct (sassoc x s) as [w|] eqn:Hs.
    + intros H; inversion H; subst. exists [], s, r. repeat split; auto.
    + intros H. destruct (IH H) as (pre & s' & post & -> & Hv & Hpre).
      exists (s :: pre), s', post. repeat split; auto.
  - intros (pre & s & post & -> & Hv & Hpre).
    induction pre as [|p pre IH]; simpl.
    + now rewrite Hv.
    + inversion Hpre; subst. rewrite H1. now apply IH.
Qed.

Lemma lookup_none_iff chain x :
  lookup chain x = None <-> Forall (fun s => sassoc x s = None) chain.
Proof.
  induction chain as [|s r IH]; simpl.
  - split; auto.
  - destruct (sassoc x s) eqn:Hs.
    + split; [discriminate|]. intros H; inversion H; congruence.
    + rewrite IH. split; intros H; [constructor; auto | now inversion H].
Qed.

(* the chains are the documented ones *)
Lemma arg_chain_order e fr :
  arg_chain e fr = [ei_data e; ei_builtins e; f_locals fr; f_globals fr; ei_extra e].
Proof. reflexivity. Qed.

Lemma callee_chain_order e fr :
  env_chain e fr = [ei_builtins e; f_locals fr; f_globals fr; ei_extra e].
Proof. reflexivity. Qed.

(* a name defined nowhere raises, it never resolves to something else *)
Lemma resolve_arg_undefined e depth x fr :
  capture (ei_stack e) depth = Ok fr ->
  Forall (fun s => sassoc x s = None) (arg_chain e fr) ->
  resolve_arg e depth x = Err EKey.
Proof.
  intros Hc Hn. unfold resolve_arg. rewrite Hc. cbn [bind].
  apply lookup_none_iff in Hn. now rewrite Hn.
Qed.

Lemma resolve_arg_defined e depth x fr v :
  capture (ei_stack e) depth = Ok fr ->
  (resolve_arg e depth x = Ok v <-> lookup (arg_chain e fr) x = Some v).
Proof.
  intros Hc. unfold resolve_arg. rewrite Hc. cbn [bind].
  destruct (lookup (arg_chain e fr) x); split; intros H; inversion H; auto.
Qed.

(* env = k selects the frame k levels above the caller; too deep a request is an error *)
Lemma capture_depth stack k :
  (k < List.length stack -> exists fr, capture stack k = Ok fr /\ nth_error stack k = Some fr) /\
  (List.length stack <= k -> capture stack k = Err EValue).
Proof.
  unfold capture. split; intros H.
  - destruct (nth_error stack k) as [fr|] eqn:E; [eauto|].
    apply nth_error_None in E. lia.
  - apply nth_error_None in H. now rewrite H.
Qed.

(* the data frame is never consulted for a function name *)
Lemma callee_ignores_data e depth path d' :
  resolve_callee (EnvIn d' (ei_builtins e) (ei_stack e) (ei_extra e)) depth path
  = resolve_callee e depth path.
Proof. reflexivity. Qed.
