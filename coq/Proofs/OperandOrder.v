(* C02, identity of call atoms: the ORDER OF THE OPERANDS of an operator inside a call argument is
   part of the atom.  [lazy_eqb] (Model/Lazy.v) compares the operands of a LazyOperator position by
   position, for every symbol: there is no commutativity identification, not even for "+" and "*"
   (the library has none either).  Hence I(x - z) and I(z - x), but also I(x + z) and I(z + x), are
   different terms: "+" keeps both, "-" of one does not remove the other, ":" keeps two factors. *)
From Verif Require Import Base Tokens Scanner Parser Lazy Algebra Wilkinson CompEq ListSet AlgebraRefines KeywordOrder.
From Coq Require Import Lia.
Local Open Scope string_scope.
Local Open Scope list_scope.

(* ================================================================== *)
(** * 1. [lazy_eqb] on operators *)

Theorem op_eqb_spec s1 l1 s2 l2 :
  lazy_eqb (LzOp s1 l1) (LzOp s2 l2) = true <->
  s1 = s2 /\ Forall2 (fun p q => lazy_eqb p q = true) l1 l2.
Proof. rewrite lazy_eqb_op, andb_true_iff, String.eqb_eq, list_all2_Forall2. reflexivity. Qed.

Corollary op_symbol_relevant s1 l1 s2 l2 : s1 <> s2 -> lazy_eqb (LzOp s1 l1) (LzOp s2 l2) = false.
Proof.
  intros H. destruct (lazy_eqb _ _) eqn:E; [|reflexivity]. apply op_eqb_spec in E as [E _]. contradiction.
Qed.

Corollary op_arity_relevant s1 l1 s2 l2 :
  List.length l1 <> List.length l2 -> lazy_eqb (LzOp s1 l1) (LzOp s2 l2) = false.
Proof.
  intros H. destruct (lazy_eqb _ _) eqn:E; [|reflexivity]. apply op_eqb_spec in E as [_ E].
  exfalso. apply H. clear H. induction E as [|p q x y _ _ IH]; cbn [List.length]; [reflexivity|rewrite IH; reflexivity].
Qed.

(* swapped operands, no premise: both comparisons are made *)
Theorem operand_swap_raw s a b :
  lazy_eqb (LzOp s [a; b]) (LzOp s [b; a]) = lazy_eqb a b && lazy_eqb b a.
Proof. rewrite lazy_eqb_op, String.eqb_refl. cbn [list_all2 andb]. rewrite andb_true_r. reflexivity. Qed.

Lemma lazy_eqb_comm a b : lazy_ok a -> lazy_ok b -> lazy_eqb a b = lazy_eqb b a.
Proof.
  intros Ha Hb. destruct (lazy_eqb a b) eqn:E1, (lazy_eqb b a) eqn:E2; auto.
  - rewrite (lazy_eqb_sym a b Ha Hb E1) in E2. discriminate.
  - rewrite (lazy_eqb_sym b a Hb Ha E2) in E1. discriminate.
Qed.

(* swapped operands are equal only if the operands are equal -- for EVERY symbol *)
Theorem operand_swap s a b : lazy_ok a -> lazy_ok b ->
  lazy_eqb (LzOp s [a; b]) (LzOp s [b; a]) = lazy_eqb a b.
Proof.
  intros Ha Hb. rewrite operand_swap_raw, <- (lazy_eqb_comm a b Ha Hb). apply andb_diag.
Qed.

Corollary no_commutativity s a b : lazy_ok a -> lazy_ok b -> lazy_eqb a b = false ->
  lazy_eqb (LzOp s [a; b]) (LzOp s [b; a]) = false.
Proof. intros Ha Hb E. rewrite operand_swap; assumption. Qed.

Example plus_and_times_not_commutative :
  lazy_eqb (LzOp "+" [LzVar "x"; LzVar "z"]) (LzOp "+" [LzVar "z"; LzVar "x"]) = false /\
  lazy_eqb (LzOp "*" [LzVar "x"; LzVar "z"]) (LzOp "*" [LzVar "z"; LzVar "x"]) = false /\
  lazy_eqb (LzOp "==" [LzVar "x"; LzVar "z"]) (LzOp "==" [LzVar "z"; LzVar "x"]) = false.
Proof. repeat split; vm_compute; reflexivity. Qed.

(* the premise (distinct keyword names inside the operands, which every resolved call has) cannot be
   dropped: [lazy_eqb] is not symmetric on dictionaries with a repeated key *)
Theorem operand_swap_refuted_without_distinct_keys :
  exists s a b, lazy_ok b /\ lazy_eqb a b = true /\ lazy_eqb (LzOp s [a; b]) (LzOp s [b; a]) = false.
Proof.
  exists "-", (LzCall "f" [] [("a", one); ("a", one)]), (LzCall "f" [] [("a", one); ("b", two)]).
  split; [|split; vm_compute; reflexivity].
  cbn. repeat split; auto. constructor; [|constructor; [intros []|constructor]]. intros [H|[]]. discriminate.
Qed.

(* ================================================================== *)
(** * 2. Call atoms with swapped operands are different terms *)

Section TwoOperands.
Variables (s f : string) (a b : lazy).
Hypothesis Ha : lazy_ok a.
Hypothesis Hb : lazy_ok b.
Hypothesis Hab : lazy_eqb a b = false.

Definition lz_ab : lazy := LzCall f [LzOp s [a; b]] [].
Definition lz_ba : lazy := LzCall f [LzOp s [b; a]] [].
Definition c_ab : comp := CCall lz_ab.
Definition c_ba : comp := CCall lz_ba.

Lemma Hba : lazy_eqb b a = false.
Proof. rewrite <- (lazy_eqb_comm a b Ha Hb). exact Hab. Qed.

Theorem atoms_differ : lazy_eqb lz_ab lz_ba = false /\ lazy_eqb lz_ba lz_ab = false.
Proof.
  split; apply positional_relevant; intros H; inversion H as [|? ? ? ? E _]; subst.
  - rewrite (operand_swap s a b Ha Hb), Hab in E. discriminate.
  - rewrite (operand_swap s b a Hb Ha), Hba in E. discriminate.
Qed.

Theorem comps_differ : comp_eqb c_ab c_ba = false /\ comp_eqb c_ba c_ab = false.
Proof. exact atoms_differ. Qed.

Theorem terms_differ : term_eqb [c_ab] [c_ba] = false /\ term_eqb [c_ba] [c_ab] = false.
Proof.
  destruct comps_differ as [E1 E2]. unfold term_eqb. cbn [forallb existsb]. rewrite E1, E2. split; reflexivity.
Qed.

Lemma good_ab : good c_ab /\ good c_ba.
Proof.
  split; cbn [good c_ab c_ba]; apply lazy_ok_call; (split; [|split; [apply NoDup_nil|apply Forall_nil]]);
    (apply Forall_cons; [|apply Forall_nil]); apply lazy_ok_op; repeat (apply Forall_cons; try assumption); apply Forall_nil.
Qed.

Lemma refl_ab : term_eqb [c_ab] [c_ab] = true /\ term_eqb [c_ba] [c_ba] = true.
Proof.
  destruct good_ab as [G1 G2]. split; apply (e_refl _ _ E_term); constructor; auto; constructor.
Qed.

(* "+" keeps both *)
Theorem add_keeps_both : v_add (VT [c_ab]) (VT [c_ba]) = Ok (VM (pmodel [[c_ab]; [c_ba]])).
Proof.
  destruct terms_differ as [E1 E2]. cbn [v_add]. rewrite E1. unfold mk_model, pmodel. cbn. rewrite E2. reflexivity.
Qed.

(* "-" of one does not remove the other: from the bare term, and from any model *)
Theorem sub_keeps_other_term : v_sub (VT [c_ab]) (VT [c_ba]) = Ok (VT [c_ab]).
Proof. destruct terms_differ as [E1 E2]. cbn [v_sub]. rewrite E1. reflexivity. Qed.

Theorem sub_keeps_other_model r cs gs :
  cmem (CT [c_ba]) cs = false -> v_sub (VM (Mod r cs gs)) (VT [c_ba]) = Ok (VM (Mod r cs gs)).
Proof. intros H. cbn [v_sub model_sub bind commons]. rewrite H. reflexivity. Qed.

Theorem other_not_member : cmem (CT [c_ba]) [CT [c_ab]] = false /\ cmem (CT [c_ba]) [CI; CT [c_ab]] = false.
Proof. destruct terms_differ as [E1 E2]. cbn. rewrite E2. split; reflexivity. Qed.

Corollary add_then_sub_other :
  (do v <- v_add (VT [c_ab]) (VT [c_ba]); v_sub v (VT [c_ba])) = Ok (VM (pmodel [[c_ab]])) /\
  (do v <- v_add (VT [c_ab]) (VT [c_ba]); v_sub v (VT [c_ab])) = Ok (VM (pmodel [[c_ba]])).
Proof.
  destruct terms_differ as [E1 E2]. destruct refl_ab as [R1 R2]. rewrite add_keeps_both. cbn [bind].
  unfold pmodel. cbn. rewrite ?E1, ?E2, ?R1, ?R2. cbn. rewrite ?E1, ?E2, ?R1, ?R2. split; reflexivity.
Qed.

(* ":" keeps two factors *)
Theorem colon_keeps_two : v_matmul (VT [c_ab]) (VT [c_ba]) = Ok (VT [c_ab; c_ba]).
Proof.
  destruct terms_differ as [E1 E2]. destruct comps_differ as [C1 C2]. cbn [v_matmul]. rewrite E1.
  cbn [single_numeric is_numeric_name c_ba]. unfold mk_term. cbn [app dedup_comps existsb orb]. rewrite C2. reflexivity.
Qed.

(* "*" gives the two and their interaction *)
Theorem star_keeps_three :
  v_mul (VT [c_ab]) (VT [c_ba]) = Ok (VM (pmodel [[c_ab]; [c_ba]; [c_ab; c_ba]])).
Proof.
  destruct (v_matmul (VT [c_ab]) (VT [c_ba])) eqn:M; pose proof colon_keeps_two as K; rewrite M in K; [|discriminate].
  destruct terms_differ as [E1 E2]. destruct comps_differ as [C1 C2]. cbn [v_mul]. rewrite E1.
  cbn [single_numeric is_numeric_name c_ba]. unfold mk_term. cbn [app dedup_comps existsb orb]. rewrite C2.
  cbn [app dedup_comps]. unfold mk_model, pmodel.
  cbn [flat_map app dedup existsb cterm_eqb orb map]. rewrite E2. cbn [app dedup existsb orb cterm_eqb].
  unfold term_eqb at 1. cbn [forallb existsb orb andb]. 
  destruct good_ab as [G1 G2]. rewrite (comp_eqb_refl _ G1), C2. cbn [orb andb].
  unfold term_eqb at 1. cbn [forallb existsb orb andb]. rewrite (comp_eqb_refl _ G2), C1. cbn [orb andb].
  reflexivity.
Qed.

(* ---- the same through the [Rp] relation of Properties/C02.v: the term SETS ---- *)
Lemma Rp_single c : good c -> Rp (VT [c]) [[c]].
Proof.
  intros G. exists [[c]]. split; [constructor; constructor; auto|]. split; [repeat constructor; auto|]. apply equ_refl.
Qed.

Theorem Rp_add_two :
  exists v, v_add (VT [c_ab]) (VT [c_ba]) = Ok v /\ Rp v [[c_ab]; [c_ba]] /\
            fset_eqb [c_ab] [c_ba] = false.
Proof.
  destruct good_ab as [G1 G2].
  destruct (add_law _ _ _ _ (Rp_single _ G1) (Rp_single _ G2)) as (v & E & R).
  exists v. repeat split; auto. exact (proj1 terms_differ).
Qed.

Theorem Rp_sub_other :
  exists v, v_sub (VT [c_ab]) (VT [c_ba]) = Ok v /\ Rp v [[c_ab]].
Proof.
  destruct good_ab as [G1 G2].
  destruct (sub_law _ _ _ _ (Rp_single _ G1) (Rp_single _ G2)) as (v & E & R).
  exists v. split; auto.
  assert (X : diff fset_eqb [[c_ab]] [[c_ba]] = [[c_ab]]).
  { unfold diff. cbn [filter existsb]. change (fset_eqb [c_ab] [c_ba]) with (term_eqb [c_ab] [c_ba]).
    rewrite (proj1 terms_differ). reflexivity. }
  rewrite X in R. exact R.
Qed.

Theorem Rp_colon_two :
  exists v, v_matmul (VT [c_ab]) (VT [c_ba]) = Ok v /\ Rp v [[c_ab; c_ba]] /\
            comp_eqb c_ab c_ba = false.
Proof.
  destruct good_ab as [G1 G2].
  destruct (colon_law _ _ _ _ (Rp_single _ G1) (Rp_single _ G2)) as (v & E & R).
  exists v. repeat split; auto. exact (proj1 comps_differ).
Qed.
End TwoOperands.

(* ---- two distinct variables, any symbol, any callee: I(x - z) / I(z - x) ---- *)
Lemma vars_differ x z : x <> z -> lazy_eqb (LzVar x) (LzVar z) = false.
Proof. intros H. cbn. apply String.eqb_neq. exact H. Qed.

Theorem variable_operands s f x z : x <> z ->
  let c1 := c_ab s f (LzVar x) (LzVar z) in
  let c2 := c_ba s f (LzVar x) (LzVar z) in
  lazy_eqb (lz_ab s f (LzVar x) (LzVar z)) (lz_ba s f (LzVar x) (LzVar z)) = false /\
  comp_eqb c1 c2 = false /\ term_eqb [c1] [c2] = false /\
  v_add (VT [c1]) (VT [c2]) = Ok (VM (pmodel [[c1]; [c2]])) /\
  v_sub (VT [c1]) (VT [c2]) = Ok (VT [c1]) /\
  (do v <- v_add (VT [c1]) (VT [c2]); v_sub v (VT [c2])) = Ok (VM (pmodel [[c1]])) /\
  v_matmul (VT [c1]) (VT [c2]) = Ok (VT [c1; c2]) /\
  v_mul (VT [c1]) (VT [c2]) = Ok (VM (pmodel [[c1]; [c2]; [c1; c2]])).
Proof.
  intros H c1 c2. pose proof (vars_differ x z H) as E.
  assert (Hx : lazy_ok (LzVar x)) by exact I. assert (Hz : lazy_ok (LzVar z)) by exact I.
  split; [exact (proj1 (atoms_differ s f _ _ Hx Hz E))|].
  split; [exact (proj1 (comps_differ s f _ _ Hx Hz E))|].
  split; [exact (proj1 (terms_differ s f _ _ Hx Hz E))|].
  split; [exact (add_keeps_both s f _ _ Hx Hz E)|].
  split; [exact (sub_keeps_other_term s f _ _ Hx Hz E)|].
  split; [exact (proj1 (add_then_sub_other s f _ _ Hx Hz E))|].
  split; [exact (colon_keeps_two s f _ _ Hx Hz E)|exact (star_keeps_three s f _ _ Hx Hz E)].
Qed.

(* ---- at the syntax-tree level ---- *)
Definition var (n : token) : expr := EVariable n None.
Definition call1 (f : token) (arg : expr) : expr := ECall (EVariable f None) [arg].

Lemma resolve_call_binop f x op z sym : lookup_kind (tkind op) binary_symbols = Some sym ->
  resolve (call1 f (EBinary (var x) op (var z))) =
  Ok (VT [c_ab sym (lexeme f) (LzVar (lexeme x)) (LzVar (lexeme z))]).
Proof. intros H. cbn [resolve call1 call_resolve var]. rewrite H. reflexivity. Qed.

Lemma c_ba_swap s f a b : c_ba s f a b = c_ab s f b a.
Proof. reflexivity. Qed.

Theorem tree_operand_order f x op z sym pl mi co :
  lookup_kind (tkind op) binary_symbols = Some sym ->
  tkind pl = PLUS -> tkind mi = MINUS -> tkind co = COLON -> lexeme x <> lexeme z ->
  let e1 := call1 f (EBinary (var x) op (var z)) in
  let e2 := call1 f (EBinary (var z) op (var x)) in
  let c1 := c_ab sym (lexeme f) (LzVar (lexeme x)) (LzVar (lexeme z)) in
  let c2 := c_ab sym (lexeme f) (LzVar (lexeme z)) (LzVar (lexeme x)) in
  resolve (EBinary e1 pl e2) = Ok (VM (pmodel [[c1]; [c2]])) /\
  resolve (EBinary e1 mi e2) = Ok (VT [c1]) /\
  resolve (EBinary (EBinary e1 pl e2) mi e2) = Ok (VM (pmodel [[c1]])) /\
  resolve (EBinary e1 co e2) = Ok (VT [c1; c2]).
Proof.
  intros Hop Hpl Hmi Hco Hne e1 e2 c1 c2.
  assert (Kp : lookup_kind (tkind pl) resolver_ops = Some OpAdd) by (rewrite Hpl; reflexivity).
  assert (Km : lookup_kind (tkind mi) resolver_ops = Some OpSub) by (rewrite Hmi; reflexivity).
  assert (Kc : lookup_kind (tkind co) resolver_ops = Some OpColon) by (rewrite Hco; reflexivity).
  destruct (variable_operands sym (lexeme f) _ _ Hne) as (_ & _ & _ & A & S & AS & C & _).
  rewrite !c_ba_swap in *. fold c1 c2 in A, S, AS, C.
  pose proof (resolve_call_binop f x op z sym Hop) as R1. pose proof (resolve_call_binop f z op x sym Hop) as R2.
  fold e1 c1 in R1. fold e2 c2 in R2.
  assert (P : resolve (EBinary e1 pl e2) = Ok (VM (pmodel [[c1]; [c2]]))).
  { rewrite (resolve_binary _ _ _ _ Kp), R1, R2. exact A. }
  split; [exact P|]. split; [|split].
  - rewrite (resolve_binary _ _ _ _ Km), R1, R2. exact S.
  - rewrite (resolve_binary _ _ _ _ Km), P, R2. rewrite A in AS. exact AS.
  - rewrite (resolve_binary _ _ _ _ Kc), R1, R2. exact C.
Qed.

(* ================================================================== *)
(** * 3. Texts, through the model's scanner and parser *)

Example text_add : names "y ~ I(x - z) + I(z - x)" = Some (Some "y", ["Intercept"; "I(x - z)"; "I(z - x)"], []).
Proof. vm_compute. reflexivity. Qed.
Example text_sub : names "y ~ I(x / z) + w - I(z / x)" = Some (Some "y", ["Intercept"; "I(x / z)"; "w"], []).
Proof. vm_compute. reflexivity. Qed.
Example text_colon : names "y ~ I(x - z):I(z - x)" = Some (Some "y", ["Intercept"; "I(x - z):I(z - x)"], []).
Proof. vm_compute. reflexivity. Qed.
Example text_braces : names "y ~ {x ** 2} + {2 ** x}" = Some (Some "y", ["Intercept"; "I(x ** 2)"; "I(2 ** x)"], []).
Proof. vm_compute. reflexivity. Qed.
(* commutative in arithmetic, different as terms *)
Example text_plus : names "y ~ I(x + z) + I(z + x)" = Some (Some "y", ["Intercept"; "I(x + z)"; "I(z + x)"], []).
Proof. vm_compute. reflexivity. Qed.
Example text_times_sub : names "y ~ I(x * z) - I(z * x)" = Some (Some "y", ["Intercept"; "I(x * z)"], []).
Proof. vm_compute. reflexivity. Qed.
(* same operand order: one term, removed by "-" *)
Example text_same : names "y ~ I(x - z) + I(x - z)" = Some (Some "y", ["Intercept"; "I(x - z)"], [])
  /\ names "y ~ I(x - z) + w - I(x - z)" = Some (Some "y", ["Intercept"; "w"], []).
Proof. split; vm_compute; reflexivity. Qed.

(* the tree-level theorem applies to the parser's trees *)
Example tree_instance :
  exists y tl one p0 f x op z sym pl,
    ast "y ~ I(x - z) + I(z - x)" =
      EBinary y tl (EBinary (EBinary one p0 (call1 f (EBinary (var x) op (var z)))) pl
                            (call1 f (EBinary (var z) op (var x)))) /\
    lookup_kind (tkind op) binary_symbols = Some sym /\ sym = "-" /\ lexeme x <> lexeme z.
Proof.
  do 10 eexists. split; [vm_compute; reflexivity|]. split; [reflexivity|]. split; [reflexivity|]. discriminate.
Qed.

Print Assumptions op_eqb_spec.
Print Assumptions operand_swap.
Print Assumptions operand_swap_refuted_without_distinct_keys.
Print Assumptions atoms_differ.
Print Assumptions terms_differ.
Print Assumptions add_keeps_both.
Print Assumptions add_then_sub_other.
Print Assumptions colon_keeps_two.
Print Assumptions star_keeps_three.
Print Assumptions Rp_add_two.
Print Assumptions Rp_sub_other.
Print Assumptions Rp_colon_two.
Print Assumptions variable_operands.
Print Assumptions tree_operand_order.
