(* C14: invariance of the stateful transforms under a change of unit and origin
   v |-> c * v + a  (Model/Transforms.v: center, scale;  Model/Poly.v: poly).

   The square root is the function argument [ksqrt] of the model.  No total function on Qc is
   "the non-negative root of every non-negative rational" (2 has no rational root), so a global
   hypothesis [forall v, 0 <= v -> ...] would be unsatisfiable and the theorems vacuous.  As in
   Properties/C14.v the hypotheses are therefore LOCAL: [ksqrt] returns the non-negative root
   ([is_root]) at the finitely many values where the model calls it (the variance of the two
   training sets; the squared norms of the two fits).  [ksqrt (c*c*v) = c * ksqrt v] is then a
   lemma ([ksqrt_scale]), not a hypothesis. *)
From Coq Require Import List QArith Qcanon ZArith Lia Bool.
From Verif Require Import Base Transforms Poly TransformsLemmas TransformsProofs TransformsPoly.
Import ListNotations.
Local Open Scope Qc_scope.
Local Notation length := List.length (only parsing).

(* ------------------------------------------------------------------ *)
(* 0. the non-negative root *)
Definition is_root (s v : Qc) : Prop := 0 <= s /\ s * s = v.

Lemma Qcinv_0 : / 0 = 0.
Proof. reflexivity. Qed.

Lemma Qcdiv_0_r x : x / 0 = 0.
Proof. unfold Qcdiv. rewrite Qcinv_0. ring. Qed.

Lemma nonneg_sum_zero s t : 0 <= s -> 0 <= t -> s + t = 0 -> s = 0.
Proof.
  intros Hs Ht H. apply Qcle_antisym; [|exact Hs].
  rewrite <- H. replace s with (s + 0) at 1 by ring.
  apply Qcplus_le_compat; [apply Qcle_refl | exact Ht].
Qed.

Lemma root_unique s t : 0 <= s -> 0 <= t -> s * s = t * t -> s = t.
Proof.
  intros Hs Ht H.
  assert (H0 : (s - t) * (s + t) = 0).
  { replace ((s - t) * (s + t)) with (s * s - t * t) by ring. rewrite H. ring. }
  destruct (Qcmult_integral _ _ H0) as [H1|H1].
  - replace s with (s - t + t) by ring. rewrite H1. ring.
  - assert (Es : s = 0) by (apply (nonneg_sum_zero s t); assumption).
    assert (Et : t = 0).
    { apply (nonneg_sum_zero t s); try assumption. rewrite <- H1. ring. }
    rewrite Es, Et. reflexivity.
Qed.

Lemma is_root_unique s t v : is_root s v -> is_root t v -> s = t.
Proof. intros [Hs Es] [Ht Et]. apply root_unique; try assumption. rewrite Es, Et. reflexivity. Qed.

(* the root of k^2 v is k times the root of v (k >= 0) *)
Lemma root_scale k s t v : 0 <= k -> is_root s v -> is_root t (k * k * v) -> t = k * s.
Proof.
  intros Hk [Hs Es] Ht. apply (is_root_unique t (k * s) (k * k * v) Ht).
  split; [apply Qcmult_nonneg; assumption|]. rewrite <- Es. ring.
Qed.

Lemma root_scale_neg k s t v : k <= 0 -> is_root s v -> is_root t (k * k * v) -> t = - k * s.
Proof.
  intros Hk Hs Ht. apply (root_scale (- k) s t v); [| exact Hs |].
  - replace 0 with (- 0) by ring. apply Qcopp_le_compat. exact Hk.
  - replace (- k * - k * v) with (k * k * v) by ring. exact Ht.
Qed.

(* the statement asked for: it FOLLOWS from the root specification at the two arguments *)
Lemma ksqrt_scale (ksqrt : Qc -> Qc) c v :
  0 <= c -> is_root (ksqrt v) v -> is_root (ksqrt (c * c * v)) (c * c * v) ->
  ksqrt (c * c * v) = c * ksqrt v.
Proof. intros Hc H1 H2. apply (root_scale c _ _ v); assumption. Qed.

Lemma ksqrt_scale_neg (ksqrt : Qc -> Qc) c v :
  c <= 0 -> is_root (ksqrt v) v -> is_root (ksqrt (c * c * v)) (c * c * v) ->
  ksqrt (c * c * v) = - c * ksqrt v.
Proof. intros Hc H1 H2. apply (root_scale_neg c _ _ v); assumption. Qed.

(* (k p) / (k s) = p / s, also when s = 0 (Qc: x / 0 = 0) *)
Lemma div_cancel_l k p s : k <> 0 -> (k * p) / (k * s) = p / s.
Proof.
  intros Hk. destruct (Qc_eq_dec s 0) as [->|Hs].
  - replace (k * 0) with 0 by ring. rewrite !Qcdiv_0_r. reflexivity.
  - field. split; assumption.
Qed.

Lemma Qcpower_nonzero c n : c <> 0 -> c ^ n <> 0.
Proof.
  intros Hc. induction n as [|n IH]; cbn [Qcpower].
  - apply Q_apart_0_1.
  - intros H. destruct (Qcmult_integral _ _ H); contradiction.
Qed.

Lemma Qcpower_S c n : c ^ (S n) = c * c ^ n.
Proof. reflexivity. Qed.

Lemma Qcpower_opp c n : c ^ n = (- (1)) ^ n * (- c) ^ n.
Proof.
  induction n as [|n IH]; [cbn [Qcpower]; ring|].
  rewrite !Qcpower_S, IH. ring.
Qed.

Lemma Qclt_neq0 c : 0 < c -> c <> 0.
Proof. intros H E. apply (Qclt_not_eq _ _ H). symmetry. exact E. Qed.

Lemma Qclt_neg_neq0 c : c < 0 -> c <> 0.
Proof. intros H. apply Qclt_not_eq. exact H. Qed.

Lemma Qcopp_pos c : c < 0 -> 0 <= - c.
Proof.
  intros H. replace 0 with (- 0) by ring. apply Qcopp_le_compat, Qclt_le_weak, H.
Qed.

(* ------------------------------------------------------------------ *)
(* 1. center *)
Definition aff (c a v : Qc) : Qc := c * v + a.

Lemma mean_nil : mean [] = 0.
Proof. unfold mean. cbn [qsum fold_right]. unfold Qcdiv. ring. Qed.

Lemma mean_aff c a xs : xs <> [] -> mean (map (aff c a) xs) = c * mean xs + a.
Proof. intros H. unfold aff. apply mean_map_affine. exact H. Qed.

Lemma mean_shift a xs : xs <> [] -> mean (map (fun v => v + a) xs) = mean xs + a.
Proof.
  intros H. rewrite (map_ext _ (fun v => 1 * v + a)) by (intros; ring).
  rewrite mean_map_affine by exact H. ring.
Qed.

Lemma mean_mult c xs : mean (map (fun v => c * v) xs) = c * mean xs.
Proof. rewrite (mean_map_scale c (fun x => x) xs), map_id. reflexivity. Qed.

(* the learnt mean moves with the origin ... *)
Theorem center_shift_fit a xs :
  xs <> [] -> center_fit (map (fun v => v + a) xs) = center_fit xs + a.
Proof. apply mean_shift. Qed.

(* ... and the centred training values do not change (all xs, the empty list included) *)
Theorem center_shift_train a xs :
  map (center_apply (center_fit (map (fun v => v + a) xs))) (map (fun v => v + a) xs)
  = map (center_apply (center_fit xs)) xs.
Proof.
  destruct xs as [|x0 xs0]; [reflexivity|]. set (xs := x0 :: xs0).
  rewrite map_map. apply map_ext. intros v. unfold center_apply.
  rewrite center_shift_fit by discriminate. ring.
Qed.

Theorem center_shift_later a xs ys :
  xs <> [] ->
  map (center_apply (center_fit (map (fun v => v + a) xs))) (map (fun v => v + a) ys)
  = map (center_apply (center_fit xs)) ys.
Proof.
  intros H. rewrite map_map. apply map_ext. intros v. unfold center_apply.
  rewrite center_shift_fit by exact H. ring.
Qed.

(* empty training data: mean = 0/0 = 0 in the model (nan in numpy), the shift is not removed *)
Theorem center_shift_later_empty_refuted :
  exists a ys,
    map (center_apply (center_fit (map (fun v => v + a) []))) (map (fun v => v + a) ys)
    <> map (center_apply (center_fit [])) ys.
Proof.
  exists 1, [0]. cbn [map]. intros H. injection H as H. discriminate H.
Qed.

Theorem center_mult_fit c xs : center_fit (map (fun v => c * v) xs) = c * center_fit xs.
Proof. apply mean_mult. Qed.

Theorem center_mult c xs ys :
  map (center_apply (center_fit (map (fun v => c * v) xs))) (map (fun v => c * v) ys)
  = map (fun v => c * v) (map (center_apply (center_fit xs)) ys).
Proof.
  rewrite !map_map. apply map_ext. intros v. unfold center_apply.
  rewrite center_mult_fit. ring.
Qed.

(* both at once, on the stateful call *)
Theorem center_call_affine c a xs ys :
  xs <> [] ->
  let '(mu, out_xs, out_ys) := center_call xs ys in
  center_call (map (aff c a) xs) (map (aff c a) ys)
  = (c * mu + a, map (fun v => c * v) out_xs, map (fun v => c * v) out_ys).
Proof.
  intros H. unfold center_call, center_fit. rewrite mean_aff by exact H.
  rewrite !map_map. f_equal; [f_equal|]; apply map_ext; intros v; unfold center_apply, aff; ring.
Qed.

(* ------------------------------------------------------------------ *)
(* 2. scale *)
Lemma var_nil : var [] = 0.
Proof. unfold var. cbn [map]. apply mean_nil. Qed.

Lemma var_aff c a xs : var (map (aff c a) xs) = c * c * var xs.
Proof.
  destruct xs as [|x0 xs0]; [cbn [map]; rewrite var_nil; ring|]. set (xs := x0 :: xs0).
  unfold var. rewrite mean_aff by discriminate. rewrite map_map.
  rewrite (map_ext _ (fun x => (c * c) * ((x - mean xs) * (x - mean xs))))
    by (intros; unfold aff; ring).
  apply mean_map_scale.
Qed.

Lemma scale_apply_aff c a m s y :
  c <> 0 -> scale_apply (c * m + a, c * s) (aff c a y) = scale_apply (m, s) y.
Proof.
  intros Hc. unfold scale_apply, aff. cbn [fst snd].
  replace (c * y + a - (c * m + a)) with (c * (y - m)) by ring.
  apply div_cancel_l. exact Hc.
Qed.

Lemma scale_apply_aff_neg c a m s y :
  c <> 0 -> scale_apply (c * m + a, - c * s) (aff c a y) = - scale_apply (m, s) y.
Proof.
  intros Hc. unfold scale_apply, aff. cbn [fst snd].
  replace (c * y + a - (c * m + a)) with (- c * (- (y - m))) by ring.
  rewrite div_cancel_l.
  - unfold Qcdiv. ring.
  - intros E. apply Hc. replace c with (- - c) by ring. rewrite E. ring.
Qed.

Section ScaleAffine.
  Variable ksqrt : Qc -> Qc.
  Variables c a : Qc.
  Variable xs : list Qc.
  Hypothesis Hne : xs <> [].
  (* ksqrt is the non-negative root at the two variances the model asks for *)
  Hypothesis Hroot : is_root (ksqrt (var xs)) (var xs).
  Hypothesis Hroot' : is_root (ksqrt (var (map (aff c a) xs))) (var (map (aff c a) xs)).

  Lemma scale_fit_aff_pos :
    0 < c -> scale_fit ksqrt (map (aff c a) xs) = (c * mean xs + a, c * ksqrt (var xs)).
  Proof.
    intros Hc. unfold scale_fit. rewrite mean_aff by exact Hne. f_equal.
    revert Hroot'. rewrite var_aff. intros Hr.
    apply ksqrt_scale; [apply Qclt_le_weak, Hc | exact Hroot | exact Hr].
  Qed.

  Lemma scale_fit_aff_neg :
    c < 0 -> scale_fit ksqrt (map (aff c a) xs) = (c * mean xs + a, - c * ksqrt (var xs)).
  Proof.
    intros Hc. unfold scale_fit. rewrite mean_aff by exact Hne. f_equal.
    revert Hroot'. rewrite var_aff. intros Hr.
    apply ksqrt_scale_neg; [apply Qclt_le_weak, Hc | exact Hroot | exact Hr].
  Qed.

  (* c > 0: training output and later output are unchanged *)
  Theorem scale_affine_later ys :
    0 < c ->
    map (scale_apply (scale_fit ksqrt (map (aff c a) xs))) (map (aff c a) ys)
    = map (scale_apply (scale_fit ksqrt xs)) ys.
  Proof.
    intros Hc. rewrite scale_fit_aff_pos by exact Hc. rewrite map_map. apply map_ext.
    intros y. unfold scale_fit. apply scale_apply_aff, Qclt_neq0, Hc.
  Qed.

  Theorem scale_affine_train :
    0 < c ->
    map (scale_apply (scale_fit ksqrt (map (aff c a) xs))) (map (aff c a) xs)
    = map (scale_apply (scale_fit ksqrt xs)) xs.
  Proof. apply scale_affine_later. Qed.

  (* c < 0: the sign flips *)
  Theorem scale_affine_later_neg ys :
    c < 0 ->
    map (scale_apply (scale_fit ksqrt (map (aff c a) xs))) (map (aff c a) ys)
    = map Qcopp (map (scale_apply (scale_fit ksqrt xs)) ys).
  Proof.
    intros Hc. rewrite scale_fit_aff_neg by exact Hc. rewrite !map_map. apply map_ext.
    intros y. unfold scale_fit. apply scale_apply_aff_neg, Qclt_neg_neq0, Hc.
  Qed.

  (* the stateful call *)
  Theorem scale_call_affine ys :
    0 < c ->
    let '(p, out_xs, out_ys) := scale_call ksqrt xs ys in
    scale_call ksqrt (map (aff c a) xs) (map (aff c a) ys)
    = ((c * fst p + a, c * snd p), out_xs, out_ys).
  Proof.
    intros Hc. unfold scale_call.
    rewrite scale_affine_train, scale_affine_later by exact Hc.
    rewrite scale_fit_aff_pos by exact Hc. reflexivity.
  Qed.

  Theorem scale_call_affine_neg ys :
    c < 0 ->
    let '(p, out_xs, out_ys) := scale_call ksqrt xs ys in
    scale_call ksqrt (map (aff c a) xs) (map (aff c a) ys)
    = ((c * fst p + a, - c * snd p), map Qcopp out_xs, map Qcopp out_ys).
  Proof.
    intros Hc. unfold scale_call.
    rewrite !scale_affine_later_neg by exact Hc.
    rewrite scale_fit_aff_neg by exact Hc. reflexivity.
  Qed.
End ScaleAffine.

(* ------------------------------------------------------------------ *)
(* 3. poly (orthonormal): the recurrence quantities under v |-> c v + a, c <> 0 *)
Lemma qsum_map_lin2 {A} (f g h : A -> Qc) u v l :
  (forall x, In x l -> f x = u * g x + v * h x) ->
  qsum (map f l) = u * qsum (map g l) + v * qsum (map h l).
Proof.
  induction l as [|x l IH]; intros H; cbn [map].
  - rewrite !qsum_nil. ring.
  - rewrite !qsum_cons, H by (left; reflexivity). rewrite IH; [ring|].
    intros y Hy. apply H. right. exact Hy.
Qed.

Section PolyAffine.
  Variables c a : Qc.
  Variable xs : list Qc.
  Hypothesis Hc : c <> 0.
  Let xs' := map (aff c a) xs.

  Lemma ip_aff p q : ip xs' p q = ip xs (fun y => p (aff c a y)) (fun y => q (aff c a y)).
  Proof. unfold ip, xs'. rewrite map_map. reflexivity. Qed.

  (* P_i scales by c^i; P_(i-1) by c^(i-1), written without a predecessor *)
  Definition Inv (i : nat) : Prop :=
    (forall y, P xs' i (aff c a y) = c ^ i * P xs i y) /\
    (forall y, c * Pm1 xs' i (aff c a y) = c ^ i * Pm1 xs i y).

  Lemma n2_aff i : Inv i -> n2 xs' i = c ^ i * c ^ i * n2 xs i.
  Proof.
    intros [H _]. unfold n2. rewrite ip_aff. unfold ip.
    rewrite <- (qsum_map_scale (c ^ i * c ^ i) (fun x => P xs i x * P xs i x)).
    apply qsum_map_ext. intros y _. rewrite H. ring.
  Qed.

  Lemma ipm_aff i :
    Inv i -> c * c * ip xs' (Pm1 xs' i) (Pm1 xs' i) = c ^ i * c ^ i * ip xs (Pm1 xs i) (Pm1 xs i).
  Proof.
    intros [_ H]. rewrite ip_aff. unfold ip.
    rewrite <- (qsum_map_scale (c ^ i * c ^ i) (fun x => Pm1 xs i x * Pm1 xs i x)).
    rewrite <- (qsum_map_scale (c * c) (fun y => Pm1 xs' i (aff c a y) * Pm1 xs' i (aff c a y))).
    apply qsum_map_ext. intros y _.
    replace (c * c * (Pm1 xs' i (aff c a y) * Pm1 xs' i (aff c a y)))
      with ((c * Pm1 xs' i (aff c a y)) * (c * Pm1 xs' i (aff c a y))) by ring.
    rewrite H. ring.
  Qed.

  Lemma xnorm_aff i :
    Inv i -> xnorm xs' (P xs' i) = c ^ i * c ^ i * (c * xnorm xs (P xs i) + a * n2 xs i).
  Proof.
    intros [H _]. unfold xnorm, xs'. rewrite map_map.
    rewrite (qsum_map_lin2 _ (fun y => y * (P xs i y * P xs i y)) (fun y => P xs i y * P xs i y)
               (c ^ i * c ^ i * c) (c ^ i * c ^ i * a)).
    - unfold n2, ip. ring.
    - intros y _. fold xs'. rewrite H. unfold aff. ring.
  Qed.

  (* alpha is a location: it moves like the data *)
  Lemma alpha_aff i : Inv i -> n2 xs i <> 0 -> alpha xs' i = aff c a (alpha xs i).
  Proof.
    intros HI Hn. unfold alpha at 1. rewrite xnorm_aff, n2_aff by exact HI.
    unfold aff, alpha. pose proof (Qcpower_nonzero c i Hc) as Hci.
    set (ci := c ^ i) in *. field. split; assumption.
  Qed.

  (* beta is a squared length: it scales by c^2 *)
  Lemma bet_aff i : Inv i -> bet xs' i = c * c * bet xs i.
  Proof.
    intros HI. unfold bet. rewrite n2_aff by exact HI.
    pose proof (ipm_aff i HI) as E. pose proof (Qcpower_nonzero c i Hc) as Hci.
    set (ci := c ^ i) in *.
    set (m' := ip xs' (Pm1 xs' i) (Pm1 xs' i)) in *.
    set (m := ip xs (Pm1 xs i) (Pm1 xs i)) in *.
    assert (Em : m' = ci * ci * m / (c * c)).
    { rewrite <- E. field. exact Hc. }
    rewrite Em. destruct (Qc_eq_dec m 0) as [->|Hm].
    - replace (ci * ci * 0 / (c * c)) with 0 by (field; exact Hc).
      rewrite !Qcdiv_0_r. ring.
    - field. repeat split; assumption.
  Qed.

  Lemma Inv_0 : Inv 0.
  Proof. split; intros y; cbn [Qcpower]; rewrite ?P_0, ?Pm1_0; ring. Qed.

  Lemma Inv_S i : Inv i -> n2 xs i <> 0 -> Inv (S i).
  Proof.
    intros HI Hn. split; intros y.
    - rewrite !P_S, alpha_aff, bet_aff by assumption. destruct HI as [H1 H2].
      rewrite H1.
      replace (c * c * bet xs i * Pm1 xs' i (aff c a y))
        with (c * bet xs i * (c * Pm1 xs' i (aff c a y))) by ring.
      rewrite H2, Qcpower_S. unfold aff. ring.
    - rewrite !Pm1_S. destruct HI as [H1 _]. rewrite H1, Qcpower_S. ring.
  Qed.

  Lemma Inv_all i : (forall m, (m < i)%nat -> n2 xs m <> 0) -> Inv i.
  Proof.
    induction i as [|i IH]; intros Hn; [apply Inv_0|].
    apply Inv_S; [apply IH; intros m Hm; apply Hn; lia | apply Hn; lia].
  Qed.

  (* the recurrence quantities, for every k *)
  Theorem poly_rec_affine k :
    (forall m, (m < k)%nat -> n2 xs m <> 0) ->
    (forall y, P xs' k (aff c a y) = c ^ k * P xs k y) /\
    n2 xs' k = c ^ k * c ^ k * n2 xs k /\
    (n2 xs k <> 0 -> alpha xs' k = aff c a (alpha xs k)) /\
    bet xs' k = c * c * bet xs k.
  Proof.
    intros Hn. pose proof (Inv_all k Hn) as HI.
    split; [exact (proj1 HI)|]. split; [apply n2_aff; exact HI|].
    split; [apply alpha_aff; exact HI | apply bet_aff; exact HI].
  Qed.

  Lemma n2_aff_nonzero k :
    (forall m, (m <= k)%nat -> n2 xs m <> 0) -> n2 xs' k <> 0.
  Proof.
    intros Hn. rewrite n2_aff by (apply Inv_all; intros m Hm; apply Hn; lia).
    pose proof (Qcpower_nonzero c k Hc) as Hk. intros E.
    destruct (Qcmult_integral _ _ E) as [E1|E1]; [|exact (Hn k (le_n k) E1)].
    destruct (Qcmult_integral _ _ E1); contradiction.
  Qed.
End PolyAffine.

(* ---- the model's memoised parameters ---- *)
Definition scale_norms (c : Qc) (ns : list Qc) : list Qc :=
  map (fun p => c ^ fst p * c ^ fst p * snd p) (combine (seq 0 (length ns)) ns).

Definition scale_cols (c : Qc) (row : list Qc) : list Qc :=
  map (fun p => c ^ fst p * snd p) (combine (seq 1 (length row)) row).

Lemma combine_seq_map {B} (f : nat -> B) l :
  combine l (map f l) = map (fun j => (j, f j)) l.
Proof.
  rewrite <- (map_id l) at 1. apply (combine_map_map (fun j => j) f l).
Qed.

Lemma scale_cols_map c (f : nat -> Qc) d :
  scale_cols c (map f (seq 1 d)) = map (fun j => c ^ j * f j) (seq 1 d).
Proof.
  unfold scale_cols. rewrite map_length, seq_length, combine_seq_map, map_map. reflexivity.
Qed.

Theorem poly_fit_affine c a xs d :
  c <> 0 ->
  (forall m, (m < d)%nat -> nth m (poly_norms2 (poly_fit xs d)) 0 <> 0) ->
  poly_alpha (poly_fit (map (aff c a) xs) d) = map (aff c a) (poly_alpha (poly_fit xs d)) /\
  poly_norms2 (poly_fit (map (aff c a) xs) d) = scale_norms c (poly_norms2 (poly_fit xs d)).
Proof.
  intros Hc Hn.
  assert (Hn' : forall m, (m < d)%nat -> n2 xs m <> 0).
  { intros m Hm. rewrite <- poly_norms2_nth with (d := d) by lia. apply Hn. exact Hm. }
  destruct (poly_fit_spec (map (aff c a) xs) d) as [Ha' Hs'].
  destruct (poly_fit_spec xs d) as [Ha Hs]. rewrite Ha', Hs', Ha, Hs. split.
  - rewrite map_map. apply map_ext_in. intros k Hk. apply in_seq in Hk.
    apply alpha_aff; [exact Hc | | apply Hn'; lia].
    apply Inv_all; [exact Hc|]. intros m Hm. apply Hn'. lia.
  - unfold scale_norms. rewrite map_length, seq_length, combine_seq_map, map_map.
    apply map_ext_in. intros k Hk. apply in_seq in Hk. cbn [fst snd].
    apply n2_aff. apply Inv_all; [exact Hc|]. intros m Hm. apply Hn'. lia.
Qed.

(* unnormalised columns: column k (degree k) is multiplied by c^k *)
Theorem poly_point_affine c a xs d y :
  c <> 0 ->
  (forall m, (m < d)%nat -> nth m (poly_norms2 (poly_fit xs d)) 0 <> 0) ->
  poly_point (poly_fit (map (aff c a) xs) d) (aff c a y)
  = scale_cols c (poly_point (poly_fit xs d) y).
Proof.
  intros Hc Hn.
  assert (Hn' : forall m, (m < d)%nat -> n2 xs m <> 0).
  { intros m Hm. rewrite <- poly_norms2_nth with (d := d) by lia. apply Hn. exact Hm. }
  rewrite !poly_point_spec, scale_cols_map. apply map_ext_in. intros k Hk. apply in_seq in Hk.
  apply Inv_all; [exact Hc|]. intros m Hm.
  destruct (Nat.eq_dec k d) as [->|Hkd]; [apply Hn'; lia|]. apply Hn'. lia.
Qed.

(* ---- normalised columns ---- *)
Lemma sq_pow_opp c j : c ^ j * c ^ j = (- c) ^ j * (- c) ^ j.
Proof. induction j as [|j IH]; [reflexivity|]. rewrite !Qcpower_S.
  replace (c * c ^ j * (c * c ^ j)) with (c * c * (c ^ j * c ^ j)) by ring. rewrite IH. ring. Qed.

(* ksqrt is the non-negative root at norms2[1..d] of a fit *)
Definition roots_ok (ksqrt : Qc -> Qc) (p : poly_params) (d : nat) : Prop :=
  forall m, (1 <= m)%nat -> (m <= d)%nat ->
    let v := nth m (poly_norms2 p) 0 in is_root (ksqrt v) v.

Section PolyApplyAffine.
  Variable ksqrt : Qc -> Qc.
  Variables c a : Qc.
  Variable xs : list Qc.
  Variable d : nat.
  Hypothesis Hn : forall m, (m < d)%nat -> nth m (poly_norms2 (poly_fit xs d)) 0 <> 0.
  Hypothesis Hr : roots_ok ksqrt (poly_fit xs d) d.
  Hypothesis Hr' : roots_ok ksqrt (poly_fit (map (aff c a) xs) d) d.

  Let Hn' : forall m, (m < d)%nat -> n2 xs m <> 0.
  Proof. intros m Hm. rewrite <- poly_norms2_nth with (d := d) by lia. apply Hn. exact Hm. Qed.

  Lemma ksqrt_norm_aff k j :
    c <> 0 -> 0 <= k -> k * k = c ^ j * c ^ j -> (1 <= j)%nat -> (j <= d)%nat ->
    ksqrt (n2 (map (aff c a) xs) j) = k * ksqrt (n2 xs j).
  Proof.
    intros Hc Hk Ek H1 Hj.
    pose proof (Hr j H1 Hj) as R. pose proof (Hr' j H1 Hj) as R'. cbn zeta in R, R'.
    rewrite poly_norms2_nth in R, R' by exact Hj.
    apply (root_scale k _ _ (n2 xs j) Hk R).
    rewrite Ek, <- (n2_aff c a xs j); [exact R'|].
    apply Inv_all; [exact Hc|]. intros m Hm. apply Hn'. lia.
  Qed.

  (* c > 0: every column is unchanged, on training data and on later data *)
  Theorem poly_apply_affine ys :
    0 < c ->
    poly_apply ksqrt (poly_fit (map (aff c a) xs) d) (map (aff c a) ys)
    = poly_apply ksqrt (poly_fit xs d) ys.
  Proof.
    intros Hc. pose proof (Qclt_neq0 c Hc) as Hc0.
    rewrite !poly_apply_spec, map_map. apply map_ext. intros y.
    apply map_ext_in. intros j Hj. apply in_seq in Hj.
    assert (HI : Inv c a xs j).
    { apply Inv_all; [exact Hc0|]. intros m Hm. apply Hn'. lia. }
    rewrite (proj1 HI).
    rewrite (ksqrt_norm_aff (c ^ j) j Hc0) by (try reflexivity; try lia;
      apply Qcpower_pos, Qclt_le_weak, Hc).
    apply div_cancel_l, Qcpower_nonzero, Hc0.
  Qed.

  (* c < 0: the column of degree j is multiplied by (-1)^j *)
  Theorem poly_apply_affine_neg ys :
    c < 0 ->
    poly_apply ksqrt (poly_fit (map (aff c a) xs) d) (map (aff c a) ys)
    = map (scale_cols (- (1))) (poly_apply ksqrt (poly_fit xs d) ys).
  Proof.
    intros Hc. pose proof (Qclt_neg_neq0 c Hc) as Hc0.
    rewrite !poly_apply_spec, !map_map. apply map_ext. intros y.
    rewrite scale_cols_map.
    apply map_ext_in. intros j Hj. apply in_seq in Hj.
    assert (HI : Inv c a xs j).
    { apply Inv_all; [exact Hc0|]. intros m Hm. apply Hn'. lia. }
    rewrite (proj1 HI).
    rewrite (ksqrt_norm_aff ((- c) ^ j) j Hc0) by (first [lia | apply Qcpower_pos, Qcopp_pos, Hc | symmetry; apply sq_pow_opp]).
    rewrite (Qcpower_opp c j).
    replace ((- (1)) ^ j * (- c) ^ j * P xs j y) with ((- c) ^ j * ((- (1)) ^ j * P xs j y)) by ring.
    rewrite div_cancel_l.
    - unfold Qcdiv. ring.
    - apply Qcpower_nonzero. intros E. apply Hc0. replace c with (- - c) by ring. rewrite E. ring.
  Qed.

  Corollary poly_apply_affine_train :
    0 < c ->
    poly_apply ksqrt (poly_fit (map (aff c a) xs) d) (map (aff c a) xs)
    = poly_apply ksqrt (poly_fit xs d) xs.
  Proof. apply poly_apply_affine. Qed.

  (* the same through Polynomial.eval with raw=False *)
  Corollary poly_eval_affine ys :
    0 < c ->
    poly_eval ksqrt false d (poly_fit (map (aff c a) xs) d) (map (aff c a) ys)
    = poly_eval ksqrt false d (poly_fit xs d) ys.
  Proof. intros Hc. unfold poly_eval. rewrite poly_apply_affine by exact Hc. reflexivity. Qed.
End PolyApplyAffine.

(* entry form of the sign rule: row i, column k (0-based; degree k+1) *)
Lemma scale_cols_nth c row k :
  (k < length row)%nat -> nth k (scale_cols c row) 0 = c ^ (S k) * nth k row 0.
Proof.
  intros Hk. unfold scale_cols.
  set (f := fun p : nat * Qc => c ^ fst p * snd p).
  rewrite (nth_indep _ 0 (f (0%nat, 0)))
    by (rewrite map_length, combine_length, seq_length; lia).
  rewrite map_nth, combine_nth by (rewrite seq_length; reflexivity).
  unfold f. cbn [fst snd]. rewrite seq_nth by exact Hk. reflexivity.
Qed.

(* with the hypothesis on the data only: at least d+1 distinct training points *)
Lemma nodup_map_aff c a xs :
  c <> 0 -> length (nodup Qc_eq_dec (map (aff c a) xs)) = length (nodup Qc_eq_dec xs).
Proof.
  intros Hc.
  assert (Hinj : forall x y, aff c a x = aff c a y -> x = y).
  { unfold aff. intros x y E.
    assert (E0 : c * (x - y) = 0).
    { replace (c * (x - y)) with ((c * x + a) - (c * y + a)) by ring. rewrite E. ring. }
    apply (Qcmult_integral_l c (x - y) Hc) in E0.
    replace x with (x - y + y) by ring. rewrite E0. ring. }
  induction xs as [|x xs IH]; [reflexivity|]. cbn [map nodup].
  destruct (in_dec Qc_eq_dec x xs) as [Hi|Hi];
    destruct (in_dec Qc_eq_dec (aff c a x) (map (aff c a) xs)) as [Hj|Hj].
  - exact IH.
  - exfalso. apply Hj. apply in_map. exact Hi.
  - exfalso. apply Hi. apply in_map_iff in Hj. destruct Hj as (y & Ey & Hy).
    apply Hinj in Ey. subst y. exact Hy.
  - cbn [length]. rewrite IH. reflexivity.
Qed.

Theorem poly_affine_distinct ksqrt c a xs d ys :
  (d < length (nodup Qc_eq_dec xs))%nat ->
  roots_ok ksqrt (poly_fit xs d) d ->
  roots_ok ksqrt (poly_fit (map (aff c a) xs) d) d ->
  (0 < c ->
     poly_apply ksqrt (poly_fit (map (aff c a) xs) d) (map (aff c a) ys)
     = poly_apply ksqrt (poly_fit xs d) ys) /\
  (c < 0 ->
     poly_apply ksqrt (poly_fit (map (aff c a) xs) d) (map (aff c a) ys)
     = map (scale_cols (- (1))) (poly_apply ksqrt (poly_fit xs d) ys)) /\
  (c <> 0 ->
     poly_alpha (poly_fit (map (aff c a) xs) d) = map (aff c a) (poly_alpha (poly_fit xs d)) /\
     poly_norms2 (poly_fit (map (aff c a) xs) d) = scale_norms c (poly_norms2 (poly_fit xs d)) /\
     forall m, (m <= d)%nat -> nth m (poly_norms2 (poly_fit (map (aff c a) xs) d)) 0 <> 0).
Proof.
  intros Hd Hr Hr'.
  assert (Hn : forall m, (m <= d)%nat -> n2 xs m <> 0)
    by (intros m Hm; apply poly_norms_nonzero with (d := d); assumption).
  assert (Hn1 : forall m, (m < d)%nat -> nth m (poly_norms2 (poly_fit xs d)) 0 <> 0).
  { intros m Hm. rewrite poly_norms2_nth by lia. apply Hn. lia. }
  split; [|split].
  - apply poly_apply_affine; assumption.
  - apply poly_apply_affine_neg; assumption.
  - intros Hc. destruct (poly_fit_affine c a xs d Hc Hn1) as [Ha Hs].
    split; [exact Ha|]. split; [exact Hs|]. intros m Hm.
    rewrite poly_norms2_nth by exact Hm. apply n2_aff_nonzero; [exact Hc|].
    intros k Hk. apply Hn. lia.
Qed.

(* ------------------------------------------------------------------ *)
(* 4. raw polynomials are NOT invariant (they are the plain powers) *)
Theorem poly_raw_affine_refuted :
  exists ksqrt c a xs d ys,
    0 < c /\ (d < length (nodup Qc_eq_dec xs))%nat /\
    poly_eval ksqrt true d (poly_fit (map (aff c a) xs) d) (map (aff c a) ys)
    <> poly_eval ksqrt true d (poly_fit xs d) ys.
Proof.
  exists (fun v => v), 1, 1, [0; 1], 1%nat, [0].
  split; [reflexivity|]. split; [vm_compute; lia|].
  cbn [poly_eval Nat.eqb map poly_raw_row seq]. intros H.
  injection H as H. discriminate H.
Qed.

(* scale with c = 0 (all data collapse to a): the output is 0, not the standardised data *)
Theorem scale_affine_c0_refuted :
  exists ksqrt a xs,
    xs <> [] /\ is_root (ksqrt (var xs)) (var xs) /\
    is_root (ksqrt (var (map (aff 0 a) xs))) (var (map (aff 0 a) xs)) /\
    map (scale_apply (scale_fit ksqrt (map (aff 0 a) xs))) (map (aff 0 a) xs)
    <> map (scale_apply (scale_fit ksqrt xs)) xs.
Proof.
  exists (fun v => if qeqb v 1 then 1 else 0), 0, [Q2Qc 1; Q2Qc (-1)].
  split; [discriminate|].
  split; [split; [apply qleb_true; vm_compute; reflexivity | qc_decide]|].
  split; [split; [apply qleb_true; vm_compute; reflexivity | qc_decide]|].
  intros H. apply (f_equal (fun l => qeqb (nth 0 l 0) 0)) in H. vm_compute in H. discriminate H.
Qed.

(* ------------------------------------------------------------------ *)
(* examples: a concrete square root, exact on squares of rationals *)
Definition qsqrt (v : Qc) : Qc := Q2Qc (Z.sqrt (Qnum v) # Pos.sqrt (Qden v)).

Ltac root_decide := split; [apply qleb_true; vm_compute; reflexivity | qc_decide].

Example center_affine_ex :
  let xs := [qq 1 1; qq 5 2; qq (-3) 4; qq 7 1] in
  let f := aff (qq (-9) 5) (qq 32 1) in
  center_fit (map f xs) = f (center_fit xs) /\
  map (center_apply (center_fit (map f xs))) (map f [qq 10 1])
  = map (fun v => qq (-9) 5 * v) (map (center_apply (center_fit xs)) [qq 10 1]).
Proof. cbn zeta. split; qc_decide. Qed.

(* variance 4 -> 36 under v |-> 3 v + 7 *)
Example scale_affine_ex :
  let xs := [qq 1 1; qq 5 1; qq 1 1; qq 5 1] in
  let ys := [qq 4 1; qq 0 1] in
  let f := aff (qq 3 1) (qq 7 1) in
  let g := aff (qq (-3) 1) (qq 7 1) in
  xs <> [] /\ is_root (qsqrt (var xs)) (var xs) /\
  is_root (qsqrt (var (map f xs))) (var (map f xs)) /\
  is_root (qsqrt (var (map g xs))) (var (map g xs)) /\
  scale_fit qsqrt xs = (qq 3 1, qq 2 1) /\ scale_fit qsqrt (map f xs) = (qq 16 1, qq 6 1) /\
  map (scale_apply (scale_fit qsqrt (map f xs))) (map f ys) = [qq 1 2; qq (-3) 2] /\
  map (scale_apply (scale_fit qsqrt xs)) ys = [qq 1 2; qq (-3) 2] /\
  map (scale_apply (scale_fit qsqrt (map g xs))) (map g ys) = [qq (-1) 2; qq 3 2].
Proof.
  cbn zeta. split; [discriminate|]. split; [root_decide|]. split; [root_decide|].
  split; [root_decide|].
  split; [unfold scale_fit; f_equal; qc_decide|]. split; [unfold scale_fit; f_equal; qc_decide|].
  repeat split; qc_decide.
Qed.

(* the same, obtained from the theorem *)
Example scale_affine_thm_ex :
  let xs := [qq 1 1; qq 5 1; qq 1 1; qq 5 1] in
  forall ys,
    map (scale_apply (scale_fit qsqrt (map (aff (qq 3 1) (qq 7 1)) xs)))
        (map (aff (qq 3 1) (qq 7 1)) ys)
    = map (scale_apply (scale_fit qsqrt xs)) ys.
Proof.
  cbn zeta. intros ys. apply scale_affine_later.
  - discriminate.
  - root_decide.
  - root_decide.
  - reflexivity.
Qed.

(* ex_sq (TransformsPoly.v): norms2 = 48, 36, 9;  under v |-> 2 v + 3: 48, 144, 144 *)
Example poly_affine_ex :
  let f := aff (qq 2 1) (qq 3 1) in
  let g := aff (qq (-2) 1) (qq 3 1) in
  let ys := [qq 2 1; qq 1 2] in
  (2 < length (nodup Qc_eq_dec ex_sq))%nat /\
  roots_ok qsqrt (poly_fit ex_sq 2) 2 /\
  roots_ok qsqrt (poly_fit (map f ex_sq) 2) 2 /\
  roots_ok qsqrt (poly_fit (map g ex_sq) 2) 2 /\
  poly_alpha (poly_fit ex_sq 2) = [qq 0 1; qq 0 1] /\
  poly_alpha (poly_fit (map f ex_sq) 2) = [qq 3 1; qq 3 1] /\
  poly_norms2 (poly_fit (map f ex_sq) 2) = [qq 48 1; qq 144 1; qq 144 1] /\
  poly_apply qsqrt (poly_fit ex_sq 2) ys = [[qq 1 3; qq 13 12]; [qq 1 12; qq (-1) 6]] /\
  poly_apply qsqrt (poly_fit (map f ex_sq) 2) (map f ys)
    = [[qq 1 3; qq 13 12]; [qq 1 12; qq (-1) 6]] /\
  poly_apply qsqrt (poly_fit (map g ex_sq) 2) (map g ys)
    = [[qq (-1) 3; qq 13 12]; [qq (-1) 12; qq (-1) 6]].
Proof.
  cbn zeta.
  assert (R : forall xs, (forall m, m = 1%nat \/ m = 2%nat ->
               let v := nth m (poly_norms2 (poly_fit xs 2)) 0 in is_root (qsqrt v) v) ->
             roots_ok qsqrt (poly_fit xs 2) 2).
  { intros xs H m H1 H2. apply H. lia. }
  split; [vm_compute; lia|].
  split; [apply R; intros m [-> | ->]; cbn zeta; root_decide|].
  split; [apply R; intros m [-> | ->]; cbn zeta; root_decide|].
  split; [apply R; intros m [-> | ->]; cbn zeta; root_decide|].
  repeat split; qc_decide.
Qed.

Example poly_affine_thm_ex :
  forall ys,
    poly_apply qsqrt (poly_fit (map (aff (qq 2 1) (qq 3 1)) ex_sq) 2)
               (map (aff (qq 2 1) (qq 3 1)) ys)
    = poly_apply qsqrt (poly_fit ex_sq 2) ys.
Proof.
  intros ys. destruct poly_affine_ex as (Hd & R1 & R2 & _).
  apply (proj1 (poly_affine_distinct qsqrt _ _ ex_sq 2 ys Hd R1 R2)). reflexivity.
Qed.

Print Assumptions ksqrt_scale.
Print Assumptions center_shift_train.
Print Assumptions center_shift_later.
Print Assumptions center_shift_later_empty_refuted.
Print Assumptions center_mult.
Print Assumptions center_call_affine.
Print Assumptions scale_affine_later.
Print Assumptions scale_affine_later_neg.
Print Assumptions scale_call_affine.
Print Assumptions scale_call_affine_neg.
Print Assumptions scale_affine_c0_refuted.
Print Assumptions poly_rec_affine.
Print Assumptions poly_fit_affine.
Print Assumptions poly_point_affine.
Print Assumptions poly_apply_affine.
Print Assumptions poly_apply_affine_neg.
Print Assumptions poly_eval_affine.
Print Assumptions poly_affine_distinct.
Print Assumptions poly_raw_affine_refuted.
Print Assumptions poly_affine_thm_ex.
