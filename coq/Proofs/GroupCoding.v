(* C05, effect-coding part: which coding the effect expression of a group-specific term (e|g)
   receives.  [set_data_gterm] codes every component of e with ONE flag; [eval_model] chooses it
   with [group_spans]: reduced coding exactly when e is not the intercept and (1|g) is in the
   model.  The rule is characterised here, compared with the common-effects analysis
   ([encoding_bools], i.e. [pick_contrasts] on the encoding groups) applied to the effect
   expressions that share a grouping factor, proved to agree on the simple shapes, and refuted on
   (0 + f + h|g) (finding KF-C05-1). *)
From Verif Require Import Base Tokens Lazy Algebra Coding Contrasts Frame Eval Design Scanner Parser Driver.
From Verif Require Import DesignStructure DesignCoding DesignSum.
From Coq Require Import Lia.
Local Close Scope Qc_scope.
Local Close Scope Q_scope.
Local Open Scope string_scope.
Local Open Scope list_scope.
Local Open Scope nat_scope.

(* ------------------------------------------------------------------------------------------ *)
(** * The rule, on the model description *)

Definition is_ci (c : cterm) : bool := match c with CI => true | _ => false end.

(* the group-specific terms that share the grouping factor f *)
Definition sharing (gs : list gterm) (f : cterm) : list gterm :=
  filter (fun t => cterm_eqb (gfactor t) f) gs.

(* the one flag: full coding for the intercept, and for an effect e exactly when no intercept is
   among the effect expressions es of the same grouping factor *)
Definition uniform_flag (es : list cterm) (e : cterm) : bool :=
  match e with CI => true | _ => negb (existsb is_ci es) end.

Lemma existsb_filter {T} (p q : T -> bool) l :
  existsb (fun t => p t && q t) l = existsb q (filter p l).
Proof.
  induction l as [|x l IH]; simpl; [reflexivity|]. rewrite IH.
  destruct (p x); simpl; reflexivity.
Qed.

Lemma existsb_map' {S T} (f : S -> T) (p : T -> bool) l :
  existsb p (map f l) = existsb (fun x => p (f x)) l.
Proof. induction l as [|x l IH]; simpl; [reflexivity|]. rewrite IH. reflexivity. Qed.

(** [group_spans] only looks at the effect expressions sharing the grouping factor. *)
Lemma group_spans_rule gs g :
  group_spans gs g = uniform_flag (map gexpr (sharing gs (gfactor g))) (gexpr g).
Proof.
  unfold group_spans, uniform_flag, sharing. destruct (gexpr g); try reflexivity;
    rewrite existsb_filter, existsb_map'; reflexivity.
Qed.

(* (1|f') with f' equal to f (as sets of components) is among the group-specific terms *)
Definition has_group_intercept (gs : list gterm) (f : cterm) : Prop :=
  exists t, In t gs /\ gexpr t = CI /\ cterm_eqb (gfactor t) f = true.

(** In words: reduced coding iff the term is not an intercept and (1|same factor) is present. *)
Lemma group_spans_false_iff gs g :
  group_spans gs g = false <-> gexpr g <> CI /\ has_group_intercept gs (gfactor g).
Proof.
  unfold group_spans, has_group_intercept. split.
  - intros H. destruct (gexpr g) as [| |tt] eqn:E; [discriminate H| |]; (split; [discriminate|]);
      apply negb_false_iff, existsb_exists in H; destruct H as (t & Hin & Ht);
      apply andb_true_iff in Ht as [H1 H2]; exists t; (destruct (gexpr t); try discriminate H2); auto.
  - intros [Hne (t & Hin & Hci & Hf)].
    assert (Hex : existsb (fun t0 => cterm_eqb (gfactor t0) (gfactor g) &&
                                     match gexpr t0 with CI => true | _ => false end) gs = true).
    { apply existsb_exists. exists t. split; [assumption|]. rewrite Hf, Hci. reflexivity. }
    destruct (gexpr g) as [| |tt]; [contradiction| |]; rewrite Hex; reflexivity.
Qed.

(* ------------------------------------------------------------------------------------------ *)
(** * The rule, on the built design *)

Lemma dict_set_values {V} k (x : V) d v :
  In v (map snd (dict_set k x d)) -> v = x \/ In v (map snd d).
Proof.
  induction d as [|[k' v'] d IH]; simpl; [intuition|].
  destruct (String.eqb k k'); simpl; [intuition|].
  intros [H|H]; [auto|]. destruct (IH H); auto.
Qed.

Lemma dict_fold_values {V} (key : V -> string) l : forall acc v,
  In v (map snd (fold_left (fun a x => dict_set (key x) x a) l acc)) -> In v l \/ In v (map snd acc).
Proof.
  induction l as [|x l IH]; intros acc v H; simpl in *; [auto|].
  destruct (IH _ _ H) as [H'|H']; [auto|]. apply dict_set_values in H' as [->|H']; auto.
Qed.

Lemma Forall2_In_r {S T} (R : S -> T -> Prop) l l' y :
  Forall2 R l l' -> In y l' -> exists x, In x l /\ R x y.
Proof.
  intros H. induction H as [|a b l l' Hab _ IH]; intros Hin; [contradiction|].
  destruct Hin as [<-|Hin]; [exists a; simpl; auto|].
  destruct (IH Hin) as (x & Hx & Hr). exists x. simpl; auto.
Qed.

Lemma combine_Forall2_In {S T} (R : S -> T -> Prop) gs tgs g tg :
  Forall2 R gs tgs -> In (tg, g) (combine tgs gs) -> R g tg /\ In g gs.
Proof.
  intros H. induction H as [|a b l l' Hab _ IH]; simpl; intros Hin; [contradiction|].
  destruct Hin as [E|Hin]; [injection E as -> ->; auto|]. destruct (IH Hin); auto.
Qed.

(* what eval_model does with the group-specific terms *)
Lemma eval_model_groups_inv cx data m ds :
  eval_model cx data m = Ok ds ->
  exists tgs dgs,
    Forall2 (fun g tg => set_type_gterm cx data g = Ok tg) (groups m) tgs /\
    Forall2 (fun p dg => set_data_gterm (frame_rows data) (fst p) (group_spans (groups m) (snd p)) = Ok dg)
            (combine tgs (groups m)) dgs /\
    ds_nrows ds = frame_rows data /\
    ds_group ds = map snd (fold_left (fun acc g => dict_set (dg_name g) g acc) dgs []).
Proof.
  unfold eval_model. cbv zeta. intros H.
  apply bind_ok in H as (tcs & _ & H). apply bind_ok in H as (tgs & Htgs & H).
  apply bind_ok in H as (enc1 & _ & H). apply bind_ok in H as (tcs2 & _ & H).
  apply bind_ok in H as (enc2 & _ & H). apply bind_ok in H as (dcs & _ & H).
  apply bind_ok in H as (dgs & Hdgs & H). apply bind_ok in H as (r & _ & H).
  injection H as <-. exists tgs, dgs. cbn [ds_group ds_nrows].
  split; [apply mapM_ok; assumption|]. split; [apply mapM_ok in Hdgs; exact Hdgs|]. split; reflexivity.
Qed.

(* the flag reaches every component of the effect expression *)
Lemma set_data_term_flag nrows e flag dt :
  set_data_term nrows e (SpBool flag) = Ok dt -> Forall (fun d => dc_spans d = flag) (dt_comps dt).
Proof.
  destruct e as [|name cs]; intros H.
  - injection H as <-. constructor.
  - apply set_data_term_comps in H. apply mapM_ok in H.
    induction H as [|c d cs ds Hcd _ IH]; constructor; [|assumption].
    apply set_data_comp_spans in Hcd as [Hs _]. exact Hs.
Qed.

(** The coding rule for group-specific terms.  Every group-specific term of a built design comes
    from a term (e|f) of the model description, and all the components of its effect expression
    were coded with the single flag [group_spans (groups m) (e|f)], which is
    - full coding (true) when e is the intercept, or when no (1|f) is in the description;
    - reduced coding (false) when e is not the intercept and (1|f) is in the description;
    equivalently, the flag is [uniform_flag] of the effect expressions sharing the factor. *)
Theorem group_effect_coding_rule cx data m ds :
  eval_model cx data m = Ok ds ->
  forall dg, In dg (ds_group ds) ->
  exists g tg,
    In g (groups m) /\ set_type_gterm cx data g = Ok tg /\
    let flag := group_spans (groups m) g in
    set_data_gterm (ds_nrows ds) tg flag = Ok dg /\
    set_data_term (ds_nrows ds) (tg_expr tg) (SpBool flag) = Ok (dg_expr dg) /\
    Forall (fun d => dc_spans d = flag) (dt_comps (dg_expr dg)) /\
    flag = uniform_flag (map gexpr (sharing (groups m) (gfactor g))) (gexpr g) /\
    (flag = false <-> gexpr g <> CI /\ has_group_intercept (groups m) (gfactor g)).
Proof.
  intros H dg Hin.
  destruct (eval_model_groups_inv _ _ _ _ H) as (tgs & dgs & Htgs & Hdgs & Hn & Hds).
  rewrite Hds in Hin. apply dict_fold_values in Hin as [Hin|[]].
  destruct (Forall2_In_r _ _ _ _ Hdgs Hin) as ([tg g] & Hp & Hset). cbn [fst snd] in Hset.
  destruct (combine_Forall2_In _ _ _ _ _ Htgs Hp) as [Hty Hg].
  exists g, tg. split; [assumption|]. split; [assumption|]. rewrite Hn. cbv zeta.
  split; [assumption|].
  destruct (set_data_gterm_inv _ _ _ _ Hset) as (He & _).
  split; [assumption|]. split; [eapply set_data_term_flag; eassumption|].
  split; [apply group_spans_rule|apply group_spans_false_iff].
Qed.

(* ------------------------------------------------------------------------------------------ *)
(** * The rule against the common-effects analysis *)

(* the same flag on typed effect expressions *)
Definition is_tintercept (e : tterm) : bool := match e with TTIntercept => true | _ => false end.
Definition uniform_flag_t (es : list tterm) (e : tterm) : bool :=
  match e with TTIntercept => true | _ => negb (existsb is_tintercept es) end.

(* how set_type_gterm types the effect expression *)
Definition type_effect (cx : dctx) (data : frame) (e : cterm) : res tterm :=
  match e with CI => Ok TTIntercept | CT t => set_type_term cx data false t | CN => Err EValue end.

Lemma set_type_gterm_effect cx data g tg :
  set_type_gterm cx data g = Ok tg -> type_effect cx data (gexpr g) = Ok (tg_expr tg).
Proof.
  unfold set_type_gterm, type_effect. destruct (gfactor g); try discriminate.
  intros H. apply bind_ok in H as (fs & _ & H). apply bind_ok in H as (e & He & H).
  apply bind_ok in H as (nm & _ & H). injection H as <-. exact He.
Qed.

Lemma type_effect_is_ci cx data e te : type_effect cx data e = Ok te -> is_tintercept te = is_ci e.
Proof.
  destruct e; simpl; intros H; [injection H as <-; reflexivity|discriminate|].
  unfold set_type_term in H. apply bind_ok in H as (cs & _ & H). injection H as <-. reflexivity.
Qed.

(** Typing does not change the flag. *)
Lemma uniform_flag_typed cx data es tes e te :
  Forall2 (fun e te => type_effect cx data e = Ok te) es tes -> type_effect cx data e = Ok te ->
  uniform_flag_t tes te = uniform_flag es e.
Proof.
  intros Hes He.
  assert (Hex : existsb is_tintercept tes = existsb is_ci es).
  { induction Hes as [|a b l l' Hab _ IH]; simpl; [reflexivity|].
    rewrite IH, (type_effect_is_ci _ _ _ _ Hab). reflexivity. }
  pose proof (type_effect_is_ci _ _ _ _ He) as Hi.
  unfold uniform_flag_t, uniform_flag. rewrite Hex.
  destruct e, te; simpl in Hi; try discriminate Hi; reflexivity.
Qed.

Lemma Forall2_filter_l {S T} (R : S -> T -> Prop) (p : S -> bool) l l' :
  Forall2 R l l' -> exists l'', Forall2 R (filter p l) l''.
Proof.
  intros H. induction H as [|a b l l' Hab _ (l'' & IH)]; simpl; [exists []; constructor|].
  destruct (p a); [exists (b :: l''); constructor; assumption|exists l''; assumption].
Qed.

(** The rule on the typed effect expressions: the flag of (e|f) in a built design is
    [uniform_flag_t] of the typed effect expressions of the terms sharing the factor f. *)
Theorem group_effect_coding_rule_typed cx data m ds :
  eval_model cx data m = Ok ds ->
  forall g, In g (groups m) ->
  exists tg tgs',
    set_type_gterm cx data g = Ok tg /\
    Forall2 (fun t tg' => set_type_gterm cx data t = Ok tg') (sharing (groups m) (gfactor g)) tgs' /\
    group_spans (groups m) g = uniform_flag_t (map tg_expr tgs') (tg_expr tg).
Proof.
  intros H g Hg.
  destruct (eval_model_groups_inv _ _ _ _ H) as (tgs & _ & Htgs & _).
  assert (Htg : exists tg, set_type_gterm cx data g = Ok tg).
  { clear - Htgs Hg. induction Htgs as [|a b l l' Hab _ IH]; [contradiction|].
    destruct Hg as [<-|Hg]; [eauto|auto]. }
  destruct Htg as (tg & Htg).
  destruct (Forall2_filter_l _ (fun t => cterm_eqb (gfactor t) (gfactor g)) _ _ Htgs) as (tgs' & Hsh).
  fold (sharing (groups m) (gfactor g)) in Hsh.
  exists tg, tgs'. split; [assumption|]. split; [assumption|].
  rewrite group_spans_rule. symmetry.
  apply (uniform_flag_typed cx data).
  - clear - Hsh. induction Hsh as [|a b l l' Hab _ IH]; simpl; constructor; [|assumption].
    apply set_type_gterm_effect. assumption.
  - apply set_type_gterm_effect. assumption.
Qed.

(* a typed single-component term is named after its component *)
Lemma set_type_comp_name cx data r c tc : set_type_comp cx data r c = Ok tc -> tc_name tc = comp_name c.
Proof.
  unfold set_type_comp. destruct c as [[name|v] lvl|lz]; intros H.
  - destruct (assoc name data); [|discriminate]. injection H as <-. reflexivity.
  - discriminate.
  - apply bind_ok in H as (rr & _ & H). apply bind_ok in H as (k & _ & H). injection H as <-. reflexivity.
Qed.

Lemma set_type_term_single cx data r t name tc :
  set_type_term cx data r t = Ok (TTTerm name [tc]) -> tc_name tc = name.
Proof.
  unfold set_type_term. intros H. apply bind_ok in H as (cs & Hcs & H). injection H as <- ->.
  destruct t as [|c [|c' t]]; simpl in Hcs.
  - discriminate.
  - apply bind_ok in Hcs as (y & Hy & Hcs). injection Hcs as <-.
    rewrite (set_type_comp_name _ _ _ _ _ Hy). reflexivity.
  - apply bind_ok in Hcs as (y & _ & Hcs). apply bind_ok in Hcs as (ys & Hys & Hcs).
    apply bind_ok in Hys as (y' & _ & Hys). apply bind_ok in Hys as (ys' & _ & Hys).
    injection Hys as <-. discriminate Hcs.
Qed.

(* the flag [enc] prescribes for e agrees with [flag] on every categoric component of e (the
   coding of numeric components does not depend on the flag; the intercept has no component) *)
Definition flag_agrees (enc : list (string * list subterm)) (e : tterm) (flag : bool) : Prop :=
  match e with
  | TTIntercept => True
  | TTTerm _ cs =>
      exists s, common_spans enc e = Ok s /\
                forall c, In c cs -> tc_kind c = KCategoric -> spans_for s (tc_name c) = flag
  end.

(* the effect expressions es of one grouping factor: the uniform flag is, for every one of them,
   the coding the common-effects analysis of es prescribes *)
Definition agrees_on (es : list tterm) : Prop :=
  exists enc, encoding_bools (map term_kind_info es) = Ok enc /\
              Forall (fun e => flag_agrees enc e (uniform_flag_t es e)) es.

(* the flag is immaterial for the intercept and for numeric components *)
Lemma intercept_flag_immaterial nrows s s' :
  set_data_term nrows TTIntercept s = set_data_term nrows TTIntercept s'.
Proof. reflexivity. Qed.

Lemma numeric_flag_immaterial t nrows b b' dc dc' :
  tc_kind t = KNumeric -> set_data_comp t b nrows = Ok dc -> set_data_comp t b' nrows = Ok dc' ->
  dc_rows dc = dc_rows dc' /\ dc_labels dc = dc_labels dc'.
Proof.
  unfold set_data_comp. intros ->. destruct (tc_value t); try discriminate;
    intros H H'; injection H as <-; injection H' as <-; split; reflexivity.
Qed.

(** (a) (1|g): the analysis has nothing to code. *)
Theorem shape_intercept_agrees : agrees_on [TTIntercept].
Proof. eexists. split; [reflexivity|]. repeat constructor. Qed.

(** (b) (x|g) with x numeric, i.e. (1|g) + (x|g): the analysis assigns x no coding, which
    [common_spans] reads as reduced; the uniform flag is reduced. *)
Theorem shape_numeric_agrees name c :
  tc_kind c = KNumeric -> agrees_on [TTIntercept; TTTerm name [c]].
Proof.
  intros Hk. unfold agrees_on. cbn [map term_kind_info]. rewrite Hk.
  destruct (String.eqb_spec name "Intercept") as [->|Hne].
  - (* a variable called Intercept takes the place of the intercept in the dict *)
    eexists. split; [vm_compute; reflexivity|]. constructor; [exact I|]. constructor; [|constructor].
    cbn. eexists. split; [reflexivity|]. intros c' [<-|[]] Hc. congruence.
  - apply String.eqb_neq in Hne. eexists. split.
    + unfold encoding_bools, encoding_groups, intercept_first, components_dict.
      cbn [existsb filter fold_left dict_set orb tinfo_name]. rewrite Hne.
      cbn. reflexivity.
    + constructor; [exact I|]. constructor; [|constructor].
      unfold flag_agrees, common_spans. cbn [tterm_name dict_get]. rewrite Hne.
      eexists. split; [reflexivity|]. intros c' [<-|[]] Hc. congruence.
Qed.

(** (c) (0 + f|g), one categoric f: full coding on both sides. *)
Theorem shape_categoric_alone_agrees name c :
  tc_kind c = KCategoric -> tc_name c = name -> agrees_on [TTTerm name [c]].
Proof.
  intros Hk Hn. unfold agrees_on. cbn [map term_kind_info]. rewrite Hk.
  exists [(name, [[(name, true)]])]. split; [reflexivity|]. constructor; [|constructor].
  unfold flag_agrees, common_spans. cbn [tterm_name dict_get]. rewrite String.eqb_refl.
  eexists. split; [reflexivity|].
  intros c' [<-|[]] _. cbn. rewrite Hn, String.eqb_refl. reflexivity.
Qed.

(** (d) (f|g) = (1|g) + (f|g), one categoric f: reduced coding on both sides. *)
Theorem shape_categoric_with_intercept_agrees name c :
  tc_kind c = KCategoric -> tc_name c = name -> name <> "Intercept" ->
  agrees_on [TTIntercept; TTTerm name [c]].
Proof.
  intros Hk Hn Hne. apply String.eqb_neq in Hne. unfold agrees_on. cbn [map term_kind_info]. rewrite Hk.
  assert (Hne' : String.eqb "Intercept" name = false) by (rewrite String.eqb_sym; exact Hne).
  exists [("Intercept", [[]]); (name, [[(name, false)]])]. split.
  - unfold encoding_bools, encoding_groups, intercept_first, components_dict.
    cbn [existsb filter fold_left dict_set orb tinfo_name]. rewrite Hne.
    cbn [numeric_groups categoric_group fold_left snd fst dict_set map]. rewrite Hne.
    cbn [mapM bind pick_contrasts pick_contrasts_loop]. 
    repeat (cbv -[String.eqb]; rewrite ?Hne, ?Hne', ?String.eqb_refl). reflexivity.
  - constructor; [exact I|]. constructor; [|constructor].
    unfold flag_agrees, common_spans. cbn [tterm_name dict_get]. rewrite Hne, String.eqb_refl.
    eexists. split; [reflexivity|].
    intros c' [<-|[]] _. cbn. rewrite Hn, String.eqb_refl. reflexivity.
Qed.

(* ------------------------------------------------------------------------------------------ *)
(** * Concrete instances, and the shape on which the uniform flag is not the analysis *)

Definition gc_q (z : Z) : cell := Some (qz z).
Definition gc_get {T} (d : T) (r : res T) : T := match r with Ok x => x | Err _ => d end.
Definition gc_mdl (s : string) : model := gc_get (Mod None [] []) (describe_string s).
Definition gc_cx : dctx := DCtx [] (fun x => x).
Definition gc_design0 : design := Design 0 None [] [].

Definition gc_D : frame :=
  [("y", ColNum false [gc_q 1; gc_q 2; gc_q 3; gc_q 4]);
   ("x", ColNum true [gc_q 2; gc_q 4; gc_q 6; gc_q 8]);
   ("f", ColStr None [Some "a"; Some "b"; Some "a"; Some "b"]);
   ("h", ColStr None [Some "u"; Some "u"; Some "v"; Some "v"]);
   ("g", ColStr None [Some "p"; Some "q"; Some "q"; Some "p"])].

(* the typed effect expressions of a description over gc_D *)
Definition gc_effects (s : string) : list tterm :=
  map tg_expr (gc_get [] (mapM (set_type_gterm gc_cx gc_D) (groups (gc_mdl s)))).
(* name, labels and the flags of the effect components of every group-specific term *)
Definition gc_codings (s : string) : list (string * list string * list bool) :=
  map (fun g => (dg_name g, dg_labels g, map dc_spans (dt_comps (dg_expr g))))
      (ds_group (gc_get gc_design0 (eval_model gc_cx gc_D (gc_mdl s)))).

(* the hypotheses of (b), (c), (d) hold of the descriptions they are named after *)
Example shape_numeric_instance :
  exists c, gc_effects "y ~ (x|g)" = [TTIntercept; TTTerm "x" [c]] /\ tc_kind c = KNumeric /\
            gc_codings "y ~ (x|g)" = [("1|g", ["1|g[p]"; "1|g[q]"], []); ("x|g", ["x|g[p]"; "x|g[q]"], [false])].
Proof. eexists. split; [vm_compute; reflexivity|]. split; vm_compute; reflexivity. Qed.

Example shape_categoric_alone_instance :
  exists c, gc_effects "y ~ (0 + f|g)" = [TTTerm "f" [c]] /\ tc_kind c = KCategoric /\ tc_name c = "f" /\
            gc_codings "y ~ (0 + f|g)"
            = [("f|g", ["f[a]|g[p]"; "f[b]|g[p]"; "f[a]|g[q]"; "f[b]|g[q]"], [true])].
Proof. eexists. split; [vm_compute; reflexivity|]. repeat split; vm_compute; reflexivity. Qed.

Example shape_categoric_with_intercept_instance :
  exists c, gc_effects "y ~ (f|g)" = [TTIntercept; TTTerm "f" [c]] /\ tc_kind c = KCategoric /\
            tc_name c = "f" /\ "f" <> "Intercept" /\
            gc_codings "y ~ (f|g)"
            = [("1|g", ["1|g[p]"; "1|g[q]"], []); ("f|g", ["f[b]|g[p]"; "f[b]|g[q]"], [false])].
Proof. eexists. split; [vm_compute; reflexivity|]. repeat split; try discriminate; vm_compute; reflexivity. Qed.

(** KF-C05-1, inside Coq: (0 + f + h|g) with two categoric effects.  The description has the two
    terms (f|g) and (h|g) and no (1|g), so the uniform flag codes BOTH in full; the analysis of
    the effect expressions {f, h} codes f in full and h reduced (h's full coding is redundant
    once f spans the intercept of the group). *)
Theorem uniform_flag_refuted :
  let s := "y ~ (0 + f + h|g)" in
  map (fun g => (gexpr g, gfactor g)) (groups (gc_mdl s))
  = [(CT [CVar (NStr "f") None], CT [CVar (NStr "g") None]);
     (CT [CVar (NStr "h") None], CT [CVar (NStr "g") None])] /\
  (* what the model builds: both effects in full coding *)
  gc_codings s
  = [("f|g", ["f[a]|g[p]"; "f[b]|g[p]"; "f[a]|g[q]"; "f[b]|g[q]"], [true]);
     ("h|g", ["h[u]|g[p]"; "h[v]|g[p]"; "h[u]|g[q]"; "h[v]|g[q]"], [true])] /\
  map (uniform_flag_t (gc_effects s)) (gc_effects s) = [true; true] /\
  (* what the analysis prescribes: h reduced *)
  encoding_bools (map term_kind_info (gc_effects s)) = Ok [("f", [[("f", true)]]); ("h", [[("h", false)]])] /\
  ~ agrees_on (gc_effects s).
Proof.
  cbv zeta. split; [vm_compute; reflexivity|]. split; [vm_compute; reflexivity|].
  split; [vm_compute; reflexivity|]. split; [vm_compute; reflexivity|].
  intros (enc & Henc & Hall).
  assert (E : encoding_bools (map term_kind_info (gc_effects "y ~ (0 + f + h|g)"))
              = Ok [("f", [[("f", true)]]); ("h", [[("h", false)]])]) by (vm_compute; reflexivity).
  rewrite E in Henc. injection Henc as <-.
  remember (gc_effects "y ~ (0 + f + h|g)") as es eqn:Ees.
  assert (Hes : exists ch, nth_error es 1 = Some (TTTerm "h" [ch]) /\ tc_kind ch = KCategoric /\
                           tc_name ch = "h" /\ uniform_flag_t es (TTTerm "h" [ch]) = true).
  { subst es. eexists. split; [vm_compute; reflexivity|]. repeat split; vm_compute; reflexivity. }
  destruct Hes as (ch & Hnth & Hk & Hn & Hflag).
  rewrite Forall_forall in Hall. specialize (Hall _ (nth_error_In _ _ Hnth)).
  rewrite Hflag in Hall. destruct Hall as (sp & Hsp & Hc).
  cbn in Hsp. injection Hsp as <-.
  specialize (Hc ch (or_introl eq_refl) Hk). rewrite Hn in Hc. cbn in Hc. discriminate Hc.
Qed.

(* the consequence in the matrix: within every group the f-columns and the h-columns have the same
   sum (the indicator of the group), so the block of the factor g is rank deficient *)
Example uniform_flag_redundancy :
  let ds := gc_get gc_design0 (eval_model gc_cx gc_D (gc_mdl "y ~ (0 + f + h|g)")) in
  map (fun g => map (map cshow) (dg_rows g)) (ds_group ds)
  = [[["1"; "0"; "0"; "0"]; ["0"; "0"; "0"; "1"]; ["0"; "0"; "1"; "0"]; ["0"; "1"; "0"; "0"]];
     [["1"; "0"; "0"; "0"]; ["0"; "0"; "1"; "0"]; ["0"; "0"; "0"; "1"]; ["0"; "1"; "0"; "0"]]].
Proof. vm_compute. reflexivity. Qed.

(* the coding rule applied to the built design of the witness *)
Example group_effect_coding_rule_instance :
  exists ds, eval_model gc_cx gc_D (gc_mdl "y ~ (f|g)") = Ok ds /\ List.length (ds_group ds) = 2.
Proof. eexists. split; [vm_compute; reflexivity|]. reflexivity. Qed.

Print Assumptions group_spans_rule.
Print Assumptions group_spans_false_iff.
Print Assumptions group_effect_coding_rule.
Print Assumptions uniform_flag_typed.
Print Assumptions group_effect_coding_rule_typed.
Print Assumptions shape_intercept_agrees.
Print Assumptions shape_numeric_agrees.
Print Assumptions shape_categoric_alone_agrees.
Print Assumptions shape_categoric_with_intercept_agrees.
Print Assumptions uniform_flag_refuted.
