(* Matrix containers are internally consistent (property C17, with C15/C09 glue).

   The FUNCTIONAL statement about slices: taking the columns [start, stop) that the slice list
   assigns to a term name out of the horizontally stacked matrix returns exactly the rows of that
   term -- for the training matrices (common, group-specific), for the matrices computed on new
   data (including the group matrix widened by a "new group" column) -- and the row counts.

    1. [hstack_slice_row], [hstack_slice], [hstack_slice_In]: hstack + slices_of, any blocks.
    2. [lookup_slice], [index_by_name]: indexing by name; an unknown name is refused, a known name
       gets the FIRST slice with that name ([lookup_slice_first], [lookup_slice_shadowed],
       [index_by_name_hstack_first]); with distinct names every block is reachable
       ([index_by_name_hstack]).
    3. [vshape], [eval_lazy_shape]: every value the evaluator produces on a rectangular frame with
       n rows has n rows (a matrix value has rows of one width), whatever the call tree, in the
       training pass and in the prediction pass.
    4-5. [set_data_term_shape], [set_data_gterm_shape], [eval_model_shape]: row counts, regular
       widths, contrasts built by [code], and PAIRWISE DISTINCT NAMES of a built design
       ([design_shape]).
    6. [design_row_counts], [design_common_index], [design_group_index] (+ [_slice_row],
       [_unknown]): the containers of a built design.
    7. [retained], [design_matrices_shape]: [design_matrices] -- the row count is the number of
       observations the missing-value policy retains.
    8. [describe_ne]: no term of a described model is empty (needed: a grouping factor without
       component would give an empty block).
    9. [design_matrices_containers], [build_design_containers]: the driver's build function.
   10. [new_comp_shape] ... [new_common_index], [new_group_index]: the matrices on new data.
   11. [eval_lazy_rel], [new_comp_width], [new_common_widths], [design_new_common_index]: on new
       data every common block keeps its training width, so the TRAINING slices (which
       CommonEffectsMatrix.evaluate_new_data keeps) designate the new blocks.
   12. Examples, and the refuted variants ([ragged_frame_row_counts_refuted],
       [training_slices_on_new_data_refuted]). *)
From Verif Require Import Base Tokens Scanner Parser Lazy Algebra Coding Contrasts Frame Eval Design Driver.
From Verif Require Import DesignStructure DesignCoding FrameStructure Unseen Prediction PredictionGroups.
From Coq Require Import Lia.
Local Close Scope Qc_scope.
Local Close Scope Q_scope.
Local Open Scope string_scope.
Local Open Scope list_scope.
Local Open Scope nat_scope.

(* ------------------------------------------------------------------------------------------ *)
(** * 1. Columns of a stacked matrix *)

(* the columns [start, stop) of every row *)
Definition matrix_cols (start stop : nat) (rows : list (list cell)) : list (list cell) :=
  map (fun r => firstn (stop - start) (skipn start r)) rows.

Lemma firstn_app_exact {T} (a b : list T) : firstn (List.length a) (a ++ b) = a.
Proof. induction a as [|x a IH]; simpl; [destruct b; reflexivity|]. rewrite IH. reflexivity. Qed.

Lemma skipn_app_exact {T} (a b : list T) k : skipn (List.length a + k) (a ++ b) = skipn k b.
Proof. induction a as [|x a IH]; simpl; [reflexivity|exact IH]. Qed.

(* the j-th list of a concatenation sits right after the j first ones *)
Lemma concat_segment {T} (ls : list (list T)) : forall j l,
  nth_error ls j = Some l ->
  firstn (List.length l) (skipn (List.length (List.concat (firstn j ls))) (List.concat ls)) = l.
Proof.
  induction ls as [|x ls IH]; intros [|j] l H; simpl in H; try discriminate.
  - injection H as ->. simpl. apply firstn_app_exact.
  - cbn [firstn List.concat]. rewrite app_length, skipn_app_exact. apply IH. exact H.
Qed.

Lemma firstn_map {S T} (f : S -> T) j l : firstn j (map f l) = map f (firstn j l).
Proof. revert l; induction j as [|j IH]; intros [|x l]; simpl; auto. rewrite IH. reflexivity. Qed.

(* where the j-th slice starts and stops *)
Lemma slices_from_nth_error names : forall widths s j nm a b,
  nth_error (slices_from s (combine names widths)) j = Some (nm, a, b) ->
  exists w, nth_error names j = Some nm /\ nth_error widths j = Some w /\
            a = s + list_sum (firstn j widths) /\ b = a + w.
Proof.
  induction names as [|n0 names IH]; intros [|w0 widths] s j nm a b H; simpl in H;
    try (destruct j; discriminate H).
  destruct j as [|j]; simpl in H.
  - injection H as <- <- <-. exists w0. simpl. repeat split; lia.
  - destruct (IH _ _ _ _ _ _ H) as (w & Hn & Hw & -> & ->). exists w. simpl. repeat split; auto; lia.
Qed.

Lemma slices_from_nth_error_intro names : forall widths s j nm w,
  nth_error names j = Some nm -> nth_error widths j = Some w ->
  nth_error (slices_from s (combine names widths)) j
  = Some (nm, s + list_sum (firstn j widths), s + list_sum (firstn j widths) + w).
Proof.
  induction names as [|n0 names IH]; intros [|w0 widths] s j nm w Hn Hw;
    try (destruct j; discriminate Hn); try (destruct j; discriminate Hw).
  destruct j as [|j]; simpl in *.
  - injection Hn as <-. injection Hw as <-. rewrite Nat.add_0_r. reflexivity.
  - rewrite (IH _ _ _ _ _ Hn Hw). do 2 f_equal; [f_equal|]; lia.
Qed.

Theorem slices_of_nth_error names widths j nm a b :
  nth_error (slices_of names widths) j = Some (nm, a, b) <->
  exists w, nth_error names j = Some nm /\ nth_error widths j = Some w /\
            a = list_sum (firstn j widths) /\ b = a + w.
Proof.
  unfold slices_of. split.
  - intros H. destruct (slices_from_nth_error _ _ _ _ _ _ _ H) as (w & ? & ? & ? & ?). exists w. auto.
  - intros (w & Hn & Hw & -> & ->). rewrite (slices_from_nth_error_intro _ _ 0 _ _ _ Hn Hw). reflexivity.
Qed.

(* block j has n rows, all of width w_j *)
Definition block_shape (n : nat) (b : list (list cell)) (w : nat) : Prop :=
  List.length b = n /\ Forall (fun r => List.length r = w) b.

Lemma blocks_row_lengths n blocks widths i :
  Forall2 (block_shape n) blocks widths -> i < n ->
  map (@List.length cell) (map (fun b => nth i b []) blocks) = widths.
Proof.
  intros H Hi. induction H as [|b w blocks widths [Hn Hw] _ IH]; simpl; [reflexivity|].
  f_equal; [|exact IH]. rewrite Forall_forall in Hw. apply Hw. apply nth_In. lia.
Qed.

Lemma blocks_rows_lt n blocks widths i :
  Forall2 (block_shape n) blocks widths -> i < n -> Forall (fun b => i < List.length b) blocks.
Proof. intros H Hi. induction H as [|b w ? ? [Hn _] _ IH]; constructor; [lia|exact IH]. Qed.

Lemma blocks_lengths n blocks widths :
  Forall2 (block_shape n) blocks widths -> Forall (fun b => List.length b = n) blocks.
Proof. induction 1 as [|b w ? ? [Hn _] _ IH]; constructor; assumption. Qed.

(** Row i of the stacked matrix, cut at the j-th slice, is row i of block j. *)
Theorem hstack_slice_row blocks widths names n j nm s e b i :
  Forall2 (block_shape n) blocks widths ->
  nth_error (slices_of names widths) j = Some (nm, s, e) ->
  nth_error blocks j = Some b -> i < n ->
  firstn (e - s) (skipn s (nth i (hstack blocks n) [])) = nth i b [].
Proof.
  intros Hsh Hsl Hb Hi.
  apply slices_of_nth_error in Hsl as (w & _ & Hw & -> & ->).
  rewrite hstack_nth by (auto; eapply blocks_rows_lt; eassumption).
  set (rowsi := map (fun b => nth i b []) blocks).
  pose proof (blocks_row_lengths n blocks widths i Hsh Hi) as L. fold rowsi in L.
  assert (Hr : nth_error rowsi j = Some (nth i b []))     by (exact (map_nth_error (fun b0 : list (list cell) => nth i b0 []) j blocks Hb)).
  assert (Lw : List.length (nth i b []) = w).
  { apply (map_nth_error (@List.length cell)) in Hr. rewrite L in Hr. congruence. }
  assert (Ls : List.length (List.concat (firstn j rowsi)) = list_sum (firstn j widths)).
  { rewrite length_concat_sum, <- firstn_map, L. reflexivity. }
  replace (list_sum (firstn j widths) + w - list_sum (firstn j widths)) with w by lia.
  rewrite <- Ls, <- Lw. apply concat_segment. exact Hr.
Qed.

Lemma matrix_cols_nth s e rows i :
  nth i (matrix_cols s e rows) [] = firstn (e - s) (skipn s (nth i rows [])).
Proof.
  unfold matrix_cols. set (f := fun r : list cell => firstn (e - s) (skipn s r)).
  assert (E : f [] = []) by (unfold f; rewrite skipn_nil, firstn_nil; reflexivity).
  transitivity (nth i (map f rows) (f [])); [rewrite E; reflexivity|apply map_nth].
Qed.

(** The whole sub-matrix: the columns of the j-th slice are block j. *)
Theorem hstack_slice blocks widths names n j nm s e b :
  Forall2 (block_shape n) blocks widths ->
  nth_error (slices_of names widths) j = Some (nm, s, e) ->
  nth_error blocks j = Some b ->
  matrix_cols s e (hstack blocks n) = b.
Proof.
  intros Hsh Hsl Hb.
  assert (Ln : List.length (hstack blocks n) = n) by (apply hstack_length; eapply blocks_lengths; eassumption).
  assert (Lb : List.length b = n).
  { clear -Hsh Hb. revert j Hb. induction Hsh as [|b0 w ? ? [Hn _] _ IH]; intros [|j] Hb; simpl in Hb;
      try discriminate; [injection Hb as <-; exact Hn|eauto]. }
  apply (nth_ext _ _ [] []).
  - unfold matrix_cols. rewrite map_length. congruence.
  - intros i Hi. unfold matrix_cols in Hi. rewrite map_length, Ln in Hi.
    rewrite matrix_cols_nth. eapply hstack_slice_row; eassumption.
Qed.

(** Stated with [In]: every slice of the list designates the block at its own position. *)
Corollary hstack_slice_In blocks widths names n nm s e :
  Forall2 (block_shape n) blocks widths -> List.length names = List.length blocks ->
  In (nm, s, e) (slices_of names widths) ->
  exists j b, nth_error names j = Some nm /\ nth_error blocks j = Some b /\
              nth_error (slices_of names widths) j = Some (nm, s, e) /\
              matrix_cols s e (hstack blocks n) = b.
Proof.
  intros Hsh Hl Hin. apply In_nth_error in Hin as (j & Hj).
  pose proof Hj as Hj'. apply slices_of_nth_error in Hj' as (w & Hn & _ & _ & _).
  assert (Hlt : j < List.length blocks) by (rewrite <- Hl; apply nth_error_Some; congruence).
  destruct (nth_error blocks j) as [b|] eqn:Hb; [|apply nth_error_None in Hb; lia].
  exists j, b. repeat split; auto. eapply hstack_slice; eassumption.
Qed.

(* the blocks as [regular] ones, with their own widths *)
Lemma regular_rows_width (b : list (list cell)) : regular_rows b <-> Forall (fun r => List.length r = width b) b.
Proof.
  split.
  - intros (w & Hw). destruct b as [|r b]; [constructor|]. simpl. inversion Hw; subst. exact Hw.
  - intros H. exists (width b). exact H.
Qed.

Lemma block_shapes_width n blocks :
  Forall (fun b => List.length b = n) blocks -> Forall regular_rows blocks ->
  Forall2 (block_shape n) blocks (map width blocks).
Proof.
  intros Hn Hr. induction blocks as [|b blocks IH]; simpl; constructor.
  - split; [exact (Forall_inv Hn)|]. apply regular_rows_width. exact (Forall_inv Hr).
  - apply IH; [exact (Forall_inv_tail Hn)|exact (Forall_inv_tail Hr)].
Qed.

(* ------------------------------------------------------------------------------------------ *)
(** * 2. Indexing by name *)

Fixpoint lookup_slice (name : string) (sl : list (string * nat * nat)) : option (nat * nat) :=
  match sl with
  | [] => None
  | (n, s, e) :: r => if String.eqb name n then Some (s, e) else lookup_slice name r
  end.

Definition slice_names (sl : list (string * nat * nat)) : list string := map (fun x => fst (fst x)) sl.

(* matrix[:, slices[name]]; None: "'name' is not a valid term name" *)
Definition index_by_name (name : string) (sl : list (string * nat * nat)) (rows : list (list cell))
  : option (list (list cell)) :=
  match lookup_slice name sl with
  | Some (s, e) => Some (matrix_cols s e rows)
  | None => None
  end.

(** An unknown name is refused, and only an unknown name. *)
Theorem lookup_slice_None name sl : lookup_slice name sl = None <-> ~ In name (slice_names sl).
Proof.
  induction sl as [|[[n s] e] sl IH]; simpl; [tauto|].
  destruct (String.eqb_spec name n) as [->|Hne].
  - split; [discriminate|]. intros H. exfalso. apply H. left; reflexivity.
  - rewrite IH. split; [intros H [E|E]; [congruence|auto]|intros H E; apply H; right; exact E].
Qed.

(** A known name gets the FIRST slice carrying it. *)
Theorem lookup_slice_first name sl s e :
  lookup_slice name sl = Some (s, e) <->
  exists j, nth_error sl j = Some (name, s, e) /\
            forall j', j' < j -> nth_error (slice_names sl) j' <> Some name.
Proof.
  induction sl as [|[[n s0] e0] sl IH]; simpl.
  - split; [discriminate|]. intros ([|j] & H & _); discriminate H.
  - destruct (String.eqb_spec name n) as [->|Hne].
    + split.
      * intros H. injection H as <- <-. exists 0. split; [reflexivity|]. intros j' Hj'. lia.
      * intros (j & Hj & Hfirst). destruct j as [|j]; [simpl in Hj; congruence|].
        exfalso. apply (Hfirst 0); [lia|reflexivity].
    + rewrite IH. split.
      * intros (j & Hj & Hfirst). exists (S j). split; [exact Hj|].
        intros [|j'] Hj'; simpl; [congruence|]. apply Hfirst. lia.
      * intros (j & Hj & Hfirst). destruct j as [|j]; [simpl in Hj; congruence|].
        exists j. split; [exact Hj|]. intros j' Hj'. apply (Hfirst (S j')). lia.
Qed.

(** When the names are pairwise distinct, every slice is reachable by its name. *)
Theorem lookup_slice_NoDup sl j name s e :
  NoDup (slice_names sl) -> nth_error sl j = Some (name, s, e) -> lookup_slice name sl = Some (s, e).
Proof.
  intros Hnd Hj. apply lookup_slice_first. exists j. split; [exact Hj|].
  intros j' Hj' E.
  assert (Hn : nth_error (slice_names sl) j = Some name)
    by (unfold slice_names; rewrite (map_nth_error _ _ _ Hj); reflexivity).
  rewrite NoDup_nth_error in Hnd.
  assert (j' = j); [|lia]. apply Hnd; [|congruence].
  apply nth_error_Some. congruence.
Qed.

(** Two slices with one name: the later one cannot be reached by name (the lookup answers with
    the earlier one). *)
Theorem lookup_slice_shadowed sl j1 j2 name s1 e1 s2 e2 :
  nth_error sl j1 = Some (name, s1, e1) -> nth_error sl j2 = Some (name, s2, e2) -> j1 < j2 ->
  exists j s e, j <= j1 /\ nth_error sl j = Some (name, s, e) /\ lookup_slice name sl = Some (s, e).
Proof.
  intros H1 _ _. destruct (lookup_slice name sl) as [[s e]|] eqn:E.
  - pose proof E as E'. apply lookup_slice_first in E' as (j & Hj & Hfirst). exists j, s, e.
    split; [|auto]. destruct (Nat.le_gt_cases j j1) as [|Hlt]; [assumption|]. exfalso.
    apply (Hfirst j1 Hlt). unfold slice_names. rewrite (map_nth_error _ _ _ H1). reflexivity.
  - exfalso. apply lookup_slice_None in E. apply E. unfold slice_names.
    apply in_map_iff. exists (name, s1, e1). split; [reflexivity|]. eapply nth_error_In; eassumption.
Qed.

Lemma slice_names_slices_of names widths :
  List.length names = List.length widths -> slice_names (slices_of names widths) = names.
Proof. intros H. apply (slices_contiguous names widths H). Qed.

Lemma Forall2_length {A B} (P : A -> B -> Prop) l r : Forall2 P l r -> List.length l = List.length r.
Proof. induction 1; simpl; congruence. Qed.

(** The container law for any stacked matrix: with pairwise distinct names, indexing by the name
    of block j returns block j. *)
Theorem index_by_name_hstack blocks widths names n j nm b :
  Forall2 (block_shape n) blocks widths -> List.length names = List.length blocks -> NoDup names ->
  nth_error names j = Some nm -> nth_error blocks j = Some b ->
  index_by_name nm (slices_of names widths) (hstack blocks n) = Some b.
Proof.
  intros Hsh Hl Hnd Hn Hb.
  assert (Lw : List.length names = List.length widths) by (rewrite Hl; eapply Forall2_length; eassumption).
  assert (Hlt : j < List.length widths) by (rewrite <- Lw; apply nth_error_Some; congruence).
  destruct (nth_error widths j) as [w|] eqn:Hw; [|apply nth_error_None in Hw; lia].
  assert (Hsl : nth_error (slices_of names widths) j
                = Some (nm, list_sum (firstn j widths), list_sum (firstn j widths) + w)).
  { apply slices_of_nth_error. exists w. auto. }
  unfold index_by_name. rewrite (lookup_slice_NoDup _ j _ _ _ (eq_ind_r _ Hnd (slice_names_slices_of _ _ Lw)) Hsl).
  f_equal. eapply hstack_slice; eassumption.
Qed.

(** Without the distinctness hypothesis: the answer is the FIRST block with that name. *)
Theorem index_by_name_hstack_first blocks widths names n nm :
  Forall2 (block_shape n) blocks widths -> List.length names = List.length blocks ->
  In nm names ->
  exists j b, nth_error names j = Some nm /\ nth_error blocks j = Some b /\
              (forall j', j' < j -> nth_error names j' <> Some nm) /\
              index_by_name nm (slices_of names widths) (hstack blocks n) = Some b.
Proof.
  intros Hsh Hl Hin.
  assert (Lw : List.length names = List.length widths) by (rewrite Hl; eapply Forall2_length; eassumption).
  destruct (lookup_slice nm (slices_of names widths)) as [[s e]|] eqn:E.
  - pose proof E as E'. apply lookup_slice_first in E' as (j & Hj & Hfirst).
    rewrite (slice_names_slices_of _ _ Lw) in Hfirst.
    pose proof Hj as Hj'. apply slices_of_nth_error in Hj' as (w & Hn & _ & _ & _).
    assert (Hlt : j < List.length blocks) by (rewrite <- Hl; apply nth_error_Some; congruence).
    destruct (nth_error blocks j) as [b|] eqn:Hb; [|apply nth_error_None in Hb; lia].
    exists j, b. repeat split; auto. unfold index_by_name. rewrite E. f_equal.
    eapply hstack_slice; eassumption.
  - exfalso. apply lookup_slice_None in E. rewrite (slice_names_slices_of _ _ Lw) in E. auto.
Qed.

Theorem index_by_name_unknown names widths nm rows :
  List.length names = List.length widths -> ~ In nm names ->
  index_by_name nm (slices_of names widths) rows = None.
Proof.
  intros Lw Hn. unfold index_by_name.
  assert (E : lookup_slice nm (slices_of names widths) = None)
    by (apply lookup_slice_None; rewrite (slice_names_slices_of _ _ Lw); exact Hn).
  rewrite E. reflexivity.
Qed.

(* two blocks under one name: the name designates the first block only *)
Example shared_name_first_block :
  let b1 := [[zcell 1]; [zcell 2]] in
  let b2 := [[zcell 3; zcell 4]; [zcell 5; zcell 6]] in
  slices_of ["a"; "a"] [1; 2] = [("a", 0, 1); ("a", 1, 3)] /\
  index_by_name "a" (slices_of ["a"; "a"] [1; 2]) (hstack [b1; b2] 2) = Some b1 /\
  index_by_name "b" (slices_of ["a"; "a"] [1; 2]) (hstack [b1; b2] 2) = None.
Proof. vm_compute. repeat split. Qed.

(* ------------------------------------------------------------------------------------------ *)
(** * 3. Every value has as many rows as the frame *)

(* a per-observation value has n entries; a matrix value has rows of one width *)
Definition vshape (n : nat) (v : pyval) : Prop :=
  match v with
  | PSeries _ xs => List.length xs = n
  | PMatrix rows => List.length rows = n /\ regular_rows rows
  | PStrs _ xs => List.length xs = n
  | PBox _ d _ _ => List.length d = n
  | POffset None xs => List.length xs = n
  | PProp ss ts _ => List.length ss = n /\ List.length ts = n
  | _ => True
  end.

Lemma is_scalar_vshape n v : is_scalar v = true -> vshape n v.
Proof. destruct v; simpl; intros H; try discriminate H; exact I. Qed.

Lemma col_value_vshape n D k c : rect n D -> In (k, c) D -> vshape n (col_value c).
Proof.
  intros HD Hin. unfold rect in HD. rewrite Forall_forall in HD. specialize (HD _ Hin).
  destruct c; simpl in *; exact HD.
Qed.

Lemma apply_binop_shape n sym a b v :
  vshape n a -> vshape n b -> Eval.apply_binop sym a b = Ok v -> vshape n v.
Proof.
  intros Ha Hb H. destruct a; destruct b; unfold Eval.apply_binop in H; try discriminate H; simpl in Ha, Hb.
  - apply bind_ok in H as (l & Hl & H). apply bind_ok in H as (t & _ & H). injection H as <-.
    apply mapM_length in Hl. simpl. rewrite Hl, combine_length. lia.
  - apply bind_ok in H as (l & Hl & H). apply bind_ok in H as (t & _ & H). injection H as <-.
    apply mapM_length in Hl. simpl. congruence.
  - apply bind_ok in H as (l & Hl & H). apply bind_ok in H as (t & _ & H). injection H as <-.
    apply mapM_length in Hl. simpl. congruence.
  - apply bind_ok in H as (r & _ & H). destruct (snd r); [|discriminate H]. injection H as <-. exact I.
Qed.

Lemma apply_unop_shape n sym a v : vshape n a -> apply_unop sym a = Ok v -> vshape n v.
Proof.
  intros Ha H. unfold apply_unop in H.
  destruct (String.eqb sym "+"); [destruct a; try discriminate H; injection H as <-; exact Ha|].
  destruct (String.eqb sym "-"); [|discriminate H].
  destruct a; try discriminate H; injection H as <-; simpl in *; [rewrite map_length; exact Ha|exact I].
Qed.

Lemma arg_shape n name b : Forall (fun kv => vshape n (snd kv)) b -> vshape n (arg name b).
Proof.
  intros H. unfold arg. destruct (assoc name b) as [v|] eqn:E; [|exact I].
  apply assoc_In in E. rewrite Forall_forall in H. exact (H _ E).
Qed.

Lemma with_sig_inv pos kw params req k v :
  with_sig pos kw params req k = Ok v -> exists b, bind_args params pos kw = Ok b /\ k b = Ok v.
Proof.
  unfold with_sig. destruct (negb (check_kw params kw)); [discriminate|]. intros H.
  apply bind_ok in H as (b & Hb & H). exists b. split; [exact Hb|].
  destruct (forallb _ _); [exact H|discriminate H].
Qed.

Definition k_binary (b : list (string * pyval)) : res pyval :=
  match arg "x" b with
  | PStrs _ xs =>
      do succ <- match arg "success" b with
                 | PNoneV => match sorted_unique_str (present xs) with s :: _ => Ok s | [] => Err EIndex end
                 | PStr s => Ok s
                 | _ => Err EUnsupported end;
      let hits := map (fun x => match x with Some s => String.eqb s succ | None => false end) xs in
      if existsb (fun h => h) hits
      then Ok (PSeries true (map (fun h => Some (if h : bool then q1 else q0)) hits))
      else Err EValue
  | PSeries i xs =>
      match all_some xs with
      | None => Err EUnsupported
      | Some l =>
          do succ <- match arg "success" b with
                     | PNoneV => match sorted_unique_qc l with s :: _ => Ok s | [] => Err EIndex end
                     | PNumber _ q => Ok q
                     | _ => Err EUnsupported end;
          let hits := map (fun x => Qc_eq_bool x succ) l in
          if existsb (fun h => h) hits
          then Ok (PSeries true (map (fun h => Some (if h : bool then q1 else q0)) hits))
          else Err EValue
      end
  | _ => Err EUnsupported
  end.

Definition k_prop (b : list (string * pyval)) : res pyval :=
  match arg "successes" b with
  | PSeries _ ss =>
      let n := List.length ss in
      do trs <- match arg "trials" b with
               | PSeries _ ts => Ok (ts, None)
               | PNumber true q => Ok (repeat (Some q) n, Some q)
               | _ => Err EValue end;
      match all_some ss, all_some (fst trs) with
      | Some sl, Some tl =>
          if negb (forallb is_integer sl) then Err EValue
          else if negb (forallb is_integer tl) then Err EValue
          else if negb (forallb (fun p => qc_leb (fst p) (snd p)) (combine sl tl)) then Err EValue
          else Ok (PProp ss (fst trs) (snd trs))
      | _, _ => Err EUnsupported
      end
  | _ => Err EValue
  end.

Lemma call_function_unfold cx name pos kw :
  call_function cx name pos kw =
  if String.eqb name "I" then with_sig pos kw ["x"] 1 k_I
  else if String.eqb name "Treatment" then with_sig pos kw ["reference"] 0 k_Treatment
  else if String.eqb name "Sum" then with_sig pos kw ["omit"] 0 k_Sum
  else if String.eqb name "C" then with_sig pos kw ["data"; "contrast"; "levels"] 1 k_C
  else if String.eqb name "S" then with_sig pos kw ["data"; "omit"; "levels"] 1 k_S
  else if String.eqb name "T" then with_sig pos kw ["data"; "ref"; "levels"] 1 k_T
  else if String.eqb name "binary" || String.eqb name "B" then with_sig pos kw ["x"; "success"] 1 k_binary
  else if String.eqb name "offset" then with_sig pos kw ["x"] 1 k_offset
  else if String.eqb name "p" || String.eqb name "prop" || String.eqb name "proportion"
       then with_sig pos kw ["successes"; "trials"] 2 k_prop
  else Err EUnsupported.
Proof. reflexivity. Qed.

Lemma series_strings_shape n v s : vshape n v -> series_strings v = Ok s -> List.length (snd s) = n.
Proof.
  destruct v as [[|] xs| |o xs| | | | | | | | | |]; simpl; intros Hv H; try discriminate H;
    injection H as <-; simpl; [rewrite map_length|]; exact Hv.
Qed.

Lemma mk_box_shape n num o d c lv v : List.length d = n -> mk_box num o d c lv = Ok v -> vshape n v.
Proof.
  intros Hd H. unfold mk_box in H.
  destruct (match o with Some cats => match lv with None => Some cats | Some _ => lv end | None => lv end);
    [destruct (same_set _ _); [|discriminate H]|]; injection H as <-; exact Hd.
Qed.

Lemma all_some_len xs l : all_some xs = Some l -> List.length l = List.length xs.
Proof.
  revert l; induction xs as [|x xs IH]; intros l H; unfold all_some in *; cbn [fold_right] in H.
  - injection H as <-. reflexivity.
  - destruct x as [q|]; [|discriminate H].
    match type of H with match ?e with _ => _ end = _ => destruct e as [l'|] eqn:E end; [|discriminate H].
    injection H as <-. simpl. f_equal. apply IH. reflexivity.
Qed.

Lemma call_function_shape n cx name pos kw v :
  Forall (vshape n) pos -> Forall (fun kv => vshape n (snd kv)) kw ->
  call_function cx name pos kw = Ok v -> vshape n v.
Proof.
  intros Hp Hk H. rewrite call_function_unfold in H.
  repeat match type of H with
         | (if ?c then _ else _) = Ok _ => destruct c
         end; try discriminate H;
    apply with_sig_inv in H as (b & Hb & H);
    pose proof (bind_args_Forall (vshape n) _ _ _ _ Hb Hp Hk) as Hbs.
  - (* I *) unfold k_I in H. injection H as <-. apply arg_shape; exact Hbs.
  - unfold k_Treatment in H. apply bind_ok in H as (r & _ & H). injection H as <-. exact I.
  - unfold k_Sum in H. apply bind_ok in H as (r & _ & H). injection H as <-. exact I.
  - (* C *) unfold k_C in H. apply bind_ok in H as (c & _ & H). apply bind_ok in H as (lv & _ & H).
    pose proof (arg_shape n "data" b Hbs) as Hd.
    destruct (arg "data" b) as [i xs|rows|o xs| | | | | | | |num d c0 lv0|co xs|ss ts ct] eqn:E;
      first [ eapply mk_box_shape; [exact Hd|exact H]
            | apply bind_ok in H as (s0 & Hs & H);
              first [ discriminate Hs
                    | eapply mk_box_shape; [eapply series_strings_shape; [exact Hd|exact Hs]|exact H] ] ].
  - (* S *) unfold k_S in H. apply bind_ok in H as (o & _ & H). apply bind_ok in H as (lv & _ & H).
    apply bind_ok in H as (s & Hs & H).
    eapply mk_box_shape; [eapply series_strings_shape; [apply arg_shape; exact Hbs|exact Hs]|exact H].
  - (* T *) unfold k_T in H. apply bind_ok in H as (o & _ & H). apply bind_ok in H as (lv & _ & H).
    apply bind_ok in H as (s & Hs & H).
    eapply mk_box_shape; [eapply series_strings_shape; [apply arg_shape; exact Hbs|exact Hs]|exact H].
  - (* binary *) unfold k_binary in H. pose proof (arg_shape n "x" b Hbs) as Hx.
    destruct (arg "x" b) as [i xs|rows|o xs| | | | | | | | | |]; try discriminate H; simpl in Hx.
    + destruct (all_some xs) as [l|] eqn:El; [|discriminate H]. apply bind_ok in H as (succ & _ & H).
      cbv zeta in H. destruct (existsb _ _); [|discriminate H]. injection H as <-.
      simpl. rewrite !map_length. rewrite (all_some_len _ _ El). exact Hx.
    + apply bind_ok in H as (succ & _ & H).
      cbv zeta in H. destruct (existsb _ _); [|discriminate H]. injection H as <-.
      simpl. rewrite !map_length. exact Hx.
  - (* offset *) unfold k_offset in H. pose proof (arg_shape n "x" b Hbs) as Hx.
    destruct (arg "x" b); try discriminate H; injection H as <-; [exact Hx|exact I].
  - (* prop *) unfold k_prop in H. pose proof (arg_shape n "successes" b Hbs) as Hs.
    pose proof (arg_shape n "trials" b Hbs) as Ht.
    destruct (arg "successes" b) as [i ss| | | | | | | | | | | |]; try discriminate H. simpl in Hs.
    cbv zeta in H. apply bind_ok in H as (trs & Htrs & H).
    assert (Lt : List.length (fst trs) = n).
    { destruct (arg "trials" b) as [j ts| | |[|] q| | | | | | | | |]; try discriminate Htrs;
        injection Htrs as <-; simpl; [exact Ht|rewrite repeat_length; exact Hs]. }
    destruct (all_some ss); [|discriminate H]. destruct (all_some (fst trs)); [|discriminate H].
    repeat match type of H with (if ?c then _ else _) = Ok _ => destruct c; try discriminate H end.
    injection H as <-. simpl. split; assumption.
Qed.

(* the bases have one row per input value, all of one width *)
Lemma bs_apply_shape p l rows :
  Spline.bs_apply p l = Ok rows -> List.length rows = List.length l /\ regular_rows rows.
Proof.
  unfold Spline.bs_apply. intros H.
  set (f := fun x : Qc => let r := Spline.bs_row (Spline.bs_knots p) (Spline.bs_degree p) x in
                          if Spline.bs_intercept p then r else tl r) in *.
  assert (E : rows = map f l) by (destruct l; [discriminate H|injection H as <-; reflexivity]).
  subst rows. rewrite map_length. split; [reflexivity|].
  apply (regular_map f (if Spline.bs_intercept p
                        then List.length (Spline.bs_knots p) - (Spline.bs_degree p + 1)
                        else List.length (Spline.bs_knots p) - (Spline.bs_degree p + 1) - 1)).
  intros x. unfold f. cbv zeta. destruct (Spline.bs_intercept p); [apply bs_row_length|].
  pose proof (bs_row_length (Spline.bs_knots p) (Spline.bs_degree p) x) as L.
  destruct (Spline.bs_row (Spline.bs_knots p) (Spline.bs_degree p) x); simpl in *; lia.
Qed.

Lemma poly_eval_shape sq raw deg p l rows :
  Poly.poly_eval sq raw deg p l = Ok rows -> List.length rows = List.length l /\ regular_rows rows.
Proof.
  unfold Poly.poly_eval, Poly.poly_apply. intros H.
  destruct raw; [destruct (deg =? 0); [discriminate H|]|]; injection H as <-;
    rewrite map_length; (split; [reflexivity|]).
  - apply (regular_map _ deg). intros x. unfold Poly.poly_raw_row. rewrite map_length, seq_length. reflexivity.
  - apply (regular_map _ (Nat.min (Nat.min (List.length (Poly.poly_alpha p)) (List.length (Poly.poly_norms2 p)))
                                   (List.length (tl (Poly.poly_norms2 p))))).
    intros x. unfold Poly.poly_row, Poly.poly_point. rewrite map_length, combine_length, poly_point_loop_length.
    reflexivity.
Qed.

Lemma qrows_shape n rows : List.length rows = n -> regular_rows rows -> vshape n (qrows rows).
Proof.
  intros L (w & Hw). unfold qrows. simpl. split; [rewrite map_length; exact L|].
  exists w. apply Forall_map. eapply Forall_impl; [|exact Hw]. intros r Hr. rewrite map_length. exact Hr.
Qed.

Lemma call_spline_shape n cx name st pos kw v st1 rec :
  Forall (vshape n) pos -> Forall (fun kv => vshape n (snd kv)) kw ->
  call_spline cx name st pos kw = Ok (v, st1, rec) -> vshape n v.
Proof.
  intros Hp Hk H. unfold call_spline in H.
  destruct (String.eqb name "bs").
  - destruct (negb (check_kw _ kw)); [discriminate H|]. apply bind_ok in H as (b & Hb & H).
    pose proof (arg_shape n "x" b (bind_args_Forall (vshape n) _ _ _ _ Hb Hp Hk)) as Hx.
    destruct (arg "x" b) as [i xs| | | | | | | | | | | |]; try discriminate H. simpl in Hx.
    destruct (all_some xs) as [l|] eqn:El; [|discriminate H]. pose proof (all_some_len _ _ El) as Ll.
    destruct (e_fit cx).
    + repeat (apply bind_ok in H as (? & ? & H)). injection H as <- _ _.
      match goal with Hr : Spline.bs_apply _ l = Ok _ |- _ => destruct (bs_apply_shape _ _ _ Hr) as [L R] end.
      apply qrows_shape; [congruence|exact R].
    + destruct st as [|[| |p|] st']; try discriminate H. apply bind_ok in H as (rows & Hr & H).
      injection H as <- _ _. destruct (bs_apply_shape _ _ _ Hr) as [L R]. apply qrows_shape; [congruence|exact R].
  - destruct (negb (check_kw _ kw)); [discriminate H|]. apply bind_ok in H as (b & Hb & H).
    pose proof (arg_shape n "x" b (bind_args_Forall (vshape n) _ _ _ _ Hb Hp Hk)) as Hx.
    destruct (arg "x" b) as [i xs| | | | | | | | | | | |]; try discriminate H. simpl in Hx.
    destruct (all_some xs) as [l|] eqn:El; [|discriminate H]. pose proof (all_some_len _ _ El) as Ll.
    destruct (e_fit cx).
    + repeat (apply bind_ok in H as (? & ? & H)). injection H as <- _ _.
      match goal with Hr : Poly.poly_eval _ _ _ _ l = Ok _ |- _ => destruct (poly_eval_shape _ _ _ _ _ _ Hr) as [L R] end.
      apply qrows_shape; [congruence|exact R].
    + destruct st as [|[| | |raw deg p] st']; try discriminate H. apply bind_ok in H as (rows & Hr & H).
      injection H as <- _ _. destruct (poly_eval_shape _ _ _ _ _ _ Hr) as [L R]. apply qrows_shape; [congruence|exact R].
Qed.

Lemma call_stateful_shape n cx name st pos kw v st1 rec :
  Forall (vshape n) pos -> Forall (fun kv => vshape n (snd kv)) kw ->
  call_stateful cx name st pos kw = Ok (v, st1, rec) -> vshape n v.
Proof.
  intros Hp Hk H. unfold call_stateful in H.
  destruct (String.eqb name "bs" || String.eqb name "poly"); [eapply call_spline_shape; eassumption|].
  destruct (negb (check_kw _ kw)); [discriminate H|]. apply bind_ok in H as (b & Hb & H).
  pose proof (arg_shape n "x" b (bind_args_Forall (vshape n) _ _ _ _ Hb Hp Hk)) as Hx.
  destruct (arg "x" b) as [i xs| | | | | | | | | | | |]; try discriminate H. simpl in Hx.
  destruct (String.eqb name "center").
  - destruct (e_fit cx).
    + injection H as <- _ _. simpl. rewrite map_length. exact Hx.
    + destruct st as [|[m| | |] st']; try discriminate H. injection H as <- _ _. simpl. rewrite map_length. exact Hx.
  - cbv zeta in H. destruct (e_fit cx).
    + apply bind_ok in H as (v0 & Hv & H). injection H as <- _ _.
      apply bind_ok in Hv as (l & Hl & Hv). injection Hv as <-. apply mapM_length in Hl. simpl. congruence.
    + destruct st as [|[|m sd| |] st']; try discriminate H.
      apply bind_ok in H as (v0 & Hv & H). injection H as <- _ _.
      apply bind_ok in Hv as (l & Hl & Hv). injection Hv as <-. apply mapM_length in Hl. simpl. congruence.
Qed.

Lemma eval_args_shape (P : pyval -> Prop) ev args :
  Forall (fun a => forall st v st1 rec, ev st a = Ok (v, st1, rec) -> P v) args ->
  forall st vals rec r, Forall P vals -> eval_args ev args st vals rec = Ok r -> Forall P (fst (fst r)).
Proof.
  induction 1 as [|a args Ha _ IH]; intros st vals rec r Hv H; simpl in H.
  - injection H as <-. exact Hv.
  - apply bind_ok in H as ([[v st1] rec1] & Hx & H). eapply IH; [|exact H].
    apply Forall_app. split; [exact Hv|]. constructor; [|constructor]. simpl. eapply Ha; exact Hx.
Qed.

Lemma eval_kwargs_shape (P : pyval -> Prop) ev (kws : list (string * lazy)) :
  Forall (fun kv => forall st v st1 rec, ev st (snd kv) = Ok (v, st1, rec) -> P v) kws ->
  forall st vals rec r, Forall (fun kv => P (snd kv)) vals -> eval_kwargs ev kws st vals rec = Ok r ->
                        Forall (fun kv => P (snd kv)) (fst (fst r)).
Proof.
  induction 1 as [|[k a] kws Ha _ IH]; intros st vals rec r Hv H; simpl in H.
  - injection H as <-. exact Hv.
  - apply bind_ok in H as ([[v st1] rec1] & Hx & H). eapply IH; [|exact H].
    apply Forall_app. split; [exact Hv|]. constructor; [|constructor]. simpl. eapply Ha; exact Hx.
Qed.

Section EvalShape.
  Variable D : frame.
  Variable n : nat.
  Hypothesis D_rect : rect n D.
  Variable ex : list (string * pyval).
  Hypothesis ex_shape : forall k v, assoc k ex = Some v -> vshape n v.
  Variable sq : Qc -> Qc.
  Variable fit : bool.

  (** Whatever the call tree, in the training pass as in the prediction pass: the value has n rows. *)
  Theorem eval_lazy_shape l : forall st v st1 rec,
    eval_lazy (ECtx D ex sq fit) st l = Ok (v, st1, rec) -> vshape n v.
  Proof.
    induction l as [sym args IH|name|lit lx|c args kw IHa IHk] using lazy_ind'; intros st v st1 rec H.
    - destruct args as [|a [|b [|c r]]]; try discriminate H.
      + inversion IH as [|? ? Ha _]; subst. cbn [eval_lazy] in H.
        apply bind_ok in H as ([[va sa] ra] & Ea & H). apply bind_ok in H as (v' & Hv & H).
        injection H as <- _ _. eapply apply_unop_shape; [|exact Hv]. eapply Ha; exact Ea.
      + inversion IH as [|? ? Ha IH']; subst. inversion IH' as [|? ? Hb _]; subst. cbn [eval_lazy] in H.
        apply bind_ok in H as ([[va sa] ra] & Ea & H). apply bind_ok in H as ([[vb sb] rb] & Eb & H).
        apply bind_ok in H as (v' & Hv & H). injection H as <- _ _.
        eapply apply_binop_shape; [| |exact Hv]; [eapply Ha; exact Ea|eapply Hb; exact Eb].
    - cbn [eval_lazy] in H. apply bind_ok in H as (v' & Hv & H). injection H as <- _ _.
      unfold lookup_name in Hv. cbn [e_data e_extra] in Hv.
      destruct (assoc name D) as [col|] eqn:E.
      + injection Hv as <-. apply assoc_In in E. eapply col_value_vshape; eassumption.
      + destruct (builtin_value name) as [bv|] eqn:Eb.
        * injection Hv as <-. unfold builtin_value in Eb.
          destruct (String.eqb name "Treatment"); [injection Eb as <-; exact I|].
          destruct (String.eqb name "Sum"); [injection Eb as <-; exact I|discriminate Eb].
        * destruct (_ || _); [discriminate Hv|].
          destruct (assoc name ex) as [xv|] eqn:Ex; [|discriminate Hv]. injection Hv as <-.
          eapply ex_shape; exact Ex.
    - cbn [eval_lazy] in H. injection H as <- _ _. destruct lit; exact I.
    - rewrite eval_lazy_call in H. destruct (negb (known_callee c)).
      + cbn [e_extra] in H. destruct (assoc c ex); discriminate H.
      + apply bind_ok in H as (ra & Hra & H). apply bind_ok in H as (rk & Hrk & H).
        pose proof (eval_args_shape (vshape n) _ args IHa _ _ _ _ (Forall_nil _) Hra) as Pa.
        pose proof (eval_kwargs_shape (vshape n) _ kw IHk _ _ _ _ (Forall_nil _) Hrk) as Pk.
        destruct (existsb (String.eqb c) stateful_names).
        * apply bind_ok in H as ([[v' s'] r'] & Hr & H). injection H as <- _ _.
          eapply call_stateful_shape; eassumption.
        * apply bind_ok in H as (v' & Hv & H). injection H as <- _ _.
          eapply call_function_shape; eassumption.
  Qed.
End EvalShape.

(* ------------------------------------------------------------------------------------------ *)
(** * 4. Components and terms of a design: row counts, widths, contrasts *)

Definition extras_shape (n : nat) (cx : dctx) : Prop :=
  forall k v, assoc k (d_extra cx) = Some v -> vshape n v.

Lemma scalar_extras_shape n cx : scalar_extras cx -> extras_shape n cx.
Proof. intros H k v E. apply is_scalar_vshape. exact (H k v E). Qed.

Lemma set_type_comp_shape cx D n r c t :
  rect n D -> extras_shape n cx -> set_type_comp cx D r c = Ok t -> vshape n (tc_value t).
Proof.
  intros HD Hex H. destruct c as [[name|lit] lvl|lz]; simpl in H.
  - destruct (assoc name D) as [col|] eqn:E; [|discriminate H]. injection H as <-. cbn [tc_value].
    apply assoc_In in E. eapply col_value_vshape; eassumption.
  - discriminate H.
  - apply bind_ok in H as ([[v st1] rec] & Hr & H). apply bind_ok in H as (k & _ & H).
    injection H as <-. cbn [tc_value fst].
    eapply (eval_lazy_shape D n HD (d_extra cx) Hex (d_sqrt cx) true); exact Hr.
Qed.

(* the contrast of a coded component is one that [code] built *)
Definition contrast_ok (cm : contrast) : Prop := exists enc spans lv, code enc spans lv = Ok cm.
Definition dcomp_ok (d : dcomp) : Prop := forall cm, dc_contrast d = Some cm -> contrast_ok cm.

Lemma categoric_data_shape n v nd : vshape n v -> categoric_data v = Ok nd -> List.length (snd nd) = n.
Proof.
  destruct v as [[|] xs| |o xs| | | | | | | |num d c lv| |]; simpl; intros Hv H; try discriminate H;
    injection H as <-; simpl; [rewrite map_length| |]; exact Hv.
Qed.

Lemma code_rows_length m w codes : List.length (code_rows m w codes) = List.length codes.
Proof. unfold code_rows. apply map_length. Qed.

Lemma level_codes_length lv xs : List.length (level_codes lv xs) = List.length xs.
Proof. unfold level_codes. apply map_length. Qed.

Lemma set_data_comp_rows n t spans d :
  vshape n (tc_value t) -> set_data_comp t spans n = Ok d ->
  List.length (dc_rows d) = n /\ dcomp_ok d.
Proof.
  intros G H. unfold set_data_comp in H.
  destruct (tc_kind t);
    destruct (tc_value t) as [i xs|rows|o xs| | | | | | | |num bd enc lv|co xs|ss ts ct];
    cbn [categoric_data bind fst snd vshape] in *; try discriminate H;
    try (destruct i; cbn [categoric_data bind fst snd] in H; try discriminate H);
    repeat match type of H with
           | (if ?c then _ else _) = Ok _ => destruct c; try discriminate H
           | match ?x with _ => _ end = Ok _ => destruct x; try discriminate H
           | bind ?r _ = Ok _ =>
               let cm := fresh "cm" in let E := fresh "Ecode" in
               destruct r as [cm|] eqn:E; cbn [bind] in H; try discriminate H
           end;
    injection H as <-; cbn [dc_rows]; (split; [|intros cm' Hc; cbn [dc_contrast] in Hc;
      first [discriminate Hc | injection Hc as <-; do 3 eexists; eassumption]]);
    rewrite ?code_rows_length, ?level_codes_length, ?map_length, ?repeat_length, ?zip_with_length;
    first [ exact G | reflexivity | destruct G; lia | lia ].
Qed.

Lemma vshape_matrix_regular n v :
  vshape n v -> match v with PMatrix rows => regular_rows rows | _ => True end.
Proof. destruct v; simpl; try exact (fun _ => I). intros [_ H]; exact H. Qed.

(* rows, widths and contrasts of a component *)
Definition dcomp_shape (n : nat) (d : dcomp) : Prop :=
  List.length (dc_rows d) = n /\ regular_rows (dc_rows d) /\ dcomp_ok d.

Lemma set_data_comp_shape n t spans d :
  vshape n (tc_value t) -> set_data_comp t spans n = Ok d -> dcomp_shape n d.
Proof.
  intros G H. destruct (set_data_comp_rows n t spans d G H) as [L K]. split; [exact L|]. split; [|exact K].
  eapply set_data_comp_regular; [|exact H]. apply (vshape_matrix_regular n). exact G.
Qed.

Definition tterm_all (P : tcomp -> Prop) (tt : tterm) : Prop :=
  match tt with TTIntercept => True | TTTerm _ cs => Forall P cs end.

Definition dterm_shape (n : nat) (t : dterm) : Prop :=
  List.length (dt_rows t) = n /\ regular_rows (dt_rows t) /\ Forall dcomp_ok (dt_comps t).

Lemma set_data_comps_shape n (f : tcomp -> bool) cs ds :
  Forall (fun c => vshape n (tc_value c)) cs ->
  mapM (fun c => set_data_comp c (f c) n) cs = Ok ds -> Forall (dcomp_shape n) ds.
Proof.
  intros Hc H. apply mapM_ok in H. induction H as [|c d cs ds Hd _ IH]; constructor.
  - eapply set_data_comp_shape; [exact (Forall_inv Hc)|exact Hd].
  - apply IH. exact (Forall_inv_tail Hc).
Qed.

Lemma fold_rows_kron_shape n d0 rest :
  Forall (dcomp_shape n) (d0 :: rest) ->
  List.length (fold_left rows_kron (map dc_rows rest) (dc_rows d0)) = n /\
  regular_rows (fold_left rows_kron (map dc_rows rest) (dc_rows d0)).
Proof.
  intros H. pose proof (Forall_inv H) as (L0 & R0 & _). pose proof (Forall_inv_tail H) as Hr. split.
  - apply fold_rows_kron_length; [exact L0|]. apply Forall_map. eapply Forall_impl; [|exact Hr].
    intros d (L & _ & _). exact L.
  - apply fold_rows_kron_regular; [exact R0|]. apply Forall_map. eapply Forall_impl; [|exact Hr].
    intros d (_ & R & _). exact R.
Qed.

Theorem set_data_term_shape n tt s dt :
  tterm_all (fun c => vshape n (tc_value c)) tt -> set_data_term n tt s = Ok dt -> dterm_shape n dt.
Proof.
  intros Ht H. destruct tt as [|name cs].
  - simpl in H. injection H as <-. unfold dterm_shape. cbn [dt_rows dt_comps].
    split; [apply repeat_length|]. split; [|constructor].
    exists 1. apply Forall_forall. intros r Hr. apply repeat_spec in Hr. subst. reflexivity.
  - destruct (set_data_term_inv _ _ _ _ _ H) as (d0 & rest & Hds & Hcomps & Hrows & _).
    pose proof (set_data_comps_shape n _ cs _ Ht Hds) as Hsh.
    destruct (fold_rows_kron_shape n d0 rest Hsh) as [L R].
    unfold dterm_shape. rewrite Hrows, Hcomps. split; [exact L|]. split; [exact R|].
    eapply Forall_impl; [|exact Hsh]. intros d (_ & _ & K). exact K.
Qed.

Definition dgterm_shape (n : nat) (g : dgterm) : Prop :=
  List.length (dg_rows g) = n /\ regular_rows (dg_rows g) /\
  Forall dcomp_ok (dt_comps (dg_expr g)) /\ Forall dcomp_ok (dg_factor g).

Theorem set_data_gterm_shape n g spans dg :
  tterm_all (fun c => vshape n (tc_value c)) (tg_expr g) ->
  Forall (fun c => vshape n (tc_value c)) (tg_factor g) -> tg_factor g <> [] ->
  set_data_gterm n g spans = Ok dg -> dgterm_shape n dg.
Proof.
  intros He Hf Hne H. unfold set_data_gterm in H.
  apply bind_ok in H as (e & Hee & H). apply bind_ok in H as (fs & Hfs & H).
  apply bind_ok in H as (glabs & _ & H). apply bind_ok in H as (flabs & _ & H).
  apply bind_ok in H as (levels & _ & H). injection H as <-.
  destruct (set_data_term_shape n _ _ _ He Hee) as (Le & Re & Ke).
  pose proof (set_data_comps_shape n (fun _ => true) _ _ Hf Hfs) as Hsh.
  assert (Lfs : List.length fs = List.length (tg_factor g)) by (eapply mapM_length; exact Hfs).
  destruct fs as [|d0 rest]; [destruct (tg_factor g); [congruence|discriminate Lfs]|].
  destruct (fold_rows_kron_shape n d0 rest Hsh) as [L R].
  unfold dgterm_shape. cbn [dg_rows dg_expr dg_factor factor_rows].
  split; [rewrite rows_kron_length; lia|]. split; [apply rows_kron_regular; assumption|].
  split; [exact Ke|]. eapply Forall_impl; [|exact Hsh]. intros d (_ & _ & K). exact K.
Qed.

(* ------------------------------------------------------------------------------------------ *)
(** * 5. [eval_model]: the shape of a built design *)

Lemma dict_set_keys_in {V} k (v : V) d x :
  In x (map fst (dict_set k v d)) -> x = k \/ In x (map fst d).
Proof.
  induction d as [|[k' v'] d IH]; simpl; [intros [<-|[]]; auto|].
  destruct (String.eqb_spec k k') as [->|Hne]; simpl; [tauto|].
  intros [<-|H]; [auto|]. destruct (IH H); auto.
Qed.

Lemma dict_set_NoDup {V} k (v : V) d : NoDup (map fst d) -> NoDup (map fst (dict_set k v d)).
Proof.
  induction d as [|[k' v'] d IH]; simpl; intros H; [constructor; [intros []|constructor]|].
  inversion H as [|? ? Hk Hd]; subst.
  destruct (String.eqb_spec k k') as [->|Hne]; simpl; [constructor; assumption|].
  constructor; [|apply IH; exact Hd]. intros Hin. apply dict_set_keys_in in Hin as [E|Hin]; [congruence|auto].
Qed.

Lemma dict_set_keyed {V} (key : V -> string) k (v : V) d :
  k = key v -> Forall (fun kv => fst kv = key (snd kv)) d ->
  Forall (fun kv => fst kv = key (snd kv)) (dict_set k v d).
Proof.
  intros Hk. induction 1 as [|[k' v'] d Hx Hd IH]; simpl; [constructor; [exact Hk|constructor]|].
  destruct (String.eqb k k'); constructor; auto.
Qed.

(** The dict of terms keyed by name: the names that remain are pairwise distinct. *)
Lemma fold_dict_set_names {V} (key : V -> string) (l : list V) :
  NoDup (map key (map snd (fold_left (fun acc t => dict_set (key t) t acc) l []))).
Proof.
  assert (G : forall acc, NoDup (map fst acc) -> Forall (fun kv => fst kv = key (snd kv)) acc ->
              let r := fold_left (fun acc t => dict_set (key t) t acc) l acc in
              NoDup (map fst r) /\ Forall (fun kv => fst kv = key (snd kv)) r).
  { induction l as [|t l IH]; intros acc Hn Hk; simpl; [auto|].
    apply IH; [apply dict_set_NoDup; exact Hn|apply dict_set_keyed; [reflexivity|exact Hk]]. }
  destruct (G [] (NoDup_nil _) (Forall_nil _)) as [Hn Hk]. cbv zeta in Hn, Hk.
  set (r := fold_left _ l []) in *. rewrite map_map.
  replace (map (fun x => key (snd x)) r) with (map fst r); [exact Hn|].
  apply map_ext_in. intros kv Hin. rewrite Forall_forall in Hk. exact (Hk kv Hin).
Qed.

Lemma fold_dict_set_all {V} (P : V -> Prop) (key : V -> string) l :
  Forall P l -> Forall P (map snd (fold_left (fun acc t => dict_set (key t) t acc) l [])).
Proof. intros H. apply Forall_map. apply (fold_dict_set_Forall P key); [exact H|constructor]. Qed.

Lemma Forall_filter' {T} (P : T -> Prop) f l : Forall P l -> Forall P (filter f l).
Proof. rewrite !Forall_forall. intros H x Hx. apply filter_In in Hx as [Hx _]. auto. Qed.

Lemma add_extra_terms_all (P : tcomp -> Prop) cx D enc ts : forall ts',
  Forall (tterm_all P) ts -> add_extra_terms cx D enc ts = Ok ts' -> Forall (tterm_all P) ts'.
Proof.
  induction ts as [|t ts IH]; intros ts' Ht H; cbn [add_extra_terms] in H.
  - injection H as <-. constructor.
  - pose proof (Forall_inv Ht) as Ht0. pose proof (Forall_inv_tail Ht) as Hts.
    apply bind_ok in H as (r' & Hr & H). specialize (IH r' Hts Hr).
    assert (Hplain : Forall (tterm_all P) (t :: r')) by (constructor; assumption).
    destruct (dict_get (tterm_name t) enc) as [[|s1 [|s2 more]]|]; try (injection H as <-; exact Hplain).
    apply bind_ok in H as (ex & Hex & H). injection H as <-.
    apply Forall_app. split; [|exact Hplain].
    apply mapM_ok in Hex. clear -Hex Ht0.
    induction Hex as [|sub e subs es He _ IHe]; constructor; [|assumption].
    destruct t as [|nm cs]; simpl in He; [discriminate|]. injection He as <-. simpl.
    apply Forall_app. split; apply Forall_filter'; exact Ht0.
Qed.

Lemma set_type_comps_shape cx D n r (t : term) cs :
  rect n D -> extras_shape n cx ->
  mapM (set_type_comp cx D r) t = Ok cs -> Forall (fun c => vshape n (tc_value c)) cs.
Proof.
  intros HD Hex H. apply mapM_ok in H. induction H as [|c tc t cs Hc _ IH]; constructor; [|exact IH].
  eapply set_type_comp_shape; eassumption.
Qed.

Lemma set_type_term_shape cx D n r t tt :
  rect n D -> extras_shape n cx ->
  set_type_term cx D r t = Ok tt -> tterm_all (fun c => vshape n (tc_value c)) tt.
Proof.
  intros HD Hex H. unfold set_type_term in H. apply bind_ok in H as (cs & Hcs & H). injection H as <-.
  simpl. eapply set_type_comps_shape; eassumption.
Qed.

Lemma Forall2_combine_flip {A B} (R : A -> B -> Prop) l r :
  Forall2 R l r -> Forall (fun p => R (snd p) (fst p)) (combine r l).
Proof. induction 1; simpl; constructor; auto. Qed.

Lemma Forall2_Forall_r {A B} (Q : A -> B -> Prop) (T : B -> Prop) l r :
  Forall2 Q l r -> (forall a b, In a l -> Q a b -> T b) -> Forall T r.
Proof.
  induction 1 as [|a b l r Hab _ IH]; intros H; constructor.
  - apply (H a b); [left; reflexivity|exact Hab].
  - apply IH. intros a' b' Hin. apply H. right; exact Hin.
Qed.

(* the grouping factor of every group-specific term has at least one component *)
Definition groups_nonempty (m : model) : Prop :=
  forall g f, In g (groups m) -> gfactor g = CT f -> f <> [].

Record design_shape (ds : design) : Prop := {
  dsh_common : Forall (dterm_shape (ds_nrows ds)) (ds_common ds);
  dsh_group : Forall (dgterm_shape (ds_nrows ds)) (ds_group ds);
  dsh_response : forall r, ds_response ds = Some r -> dterm_shape (ds_nrows ds) r;
  dsh_common_names : NoDup (map dt_name (ds_common ds));
  dsh_group_names : NoDup (map dg_name (ds_group ds))
}.

Theorem eval_model_shape cx D m ds :
  frame_wf D -> extras_shape (frame_rows D) cx -> groups_nonempty m ->
  eval_model cx D m = Ok ds -> ds_nrows ds = frame_rows D /\ design_shape ds.
Proof.
  intros HD Hex Hg H. split; [eapply eval_model_nrows; exact H|].
  unfold eval_model in H. set (n := frame_rows D) in *. unfold frame_wf in HD. fold n in HD.
  apply bind_ok in H as (tcs & Htcs & H). apply bind_ok in H as (tgs & Htgs & H).
  apply bind_ok in H as (enc1 & _ & H). apply bind_ok in H as (tcs2 & Htcs2 & H).
  apply bind_ok in H as (enc2 & _ & H). apply bind_ok in H as (dcs & Hdcs & H).
  apply bind_ok in H as (dgs & Hdgs & H). apply bind_ok in H as (r & Hr & H). injection H as <-.
  set (P := fun c : tcomp => vshape n (tc_value c)).
  assert (T1 : Forall (tterm_all P) tcs).
  { apply mapM_ok in Htcs. clear -Htcs HD Hex. induction Htcs as [|c tt cms tts Hc _ IH]; constructor; [|exact IH].
    destruct c as [| |t]; simpl in Hc; [injection Hc as <-; exact I|discriminate|].
    eapply set_type_term_shape; eassumption. }
  pose proof (add_extra_terms_all P _ _ _ _ _ T1 Htcs2) as T2.
  assert (T3 : Forall (dterm_shape n) dcs).
  { apply mapM_ok in Hdcs. clear -Hdcs T2. induction Hdcs as [|tt dt tts dts Hd _ IH]; constructor.
    - apply bind_ok in Hd as (s & _ & Hd). eapply set_data_term_shape; [exact (Forall_inv T2)|exact Hd].
    - apply IH. exact (Forall_inv_tail T2). }
  assert (G3 : Forall (dgterm_shape n) dgs).
  { apply mapM_ok in Hdgs. apply mapM_ok in Htgs.
    pose proof (Forall2_combine_flip _ _ _ Htgs) as Hty.
    apply (Forall2_Forall_r _ _ _ _ Hdgs). intros [tg g] dg Hin Hd.
    rewrite Forall_forall in Hty. specialize (Hty _ Hin). apply in_combine_r in Hin.
    cbn [fst snd] in *. unfold set_type_gterm in Hty.
    destruct (gfactor g) as [| |f] eqn:Ef; try discriminate Hty.
    apply bind_ok in Hty as (fs & Hfs & Hty). apply bind_ok in Hty as (e & He & Hty).
    apply bind_ok in Hty as (nm & _ & Hty). injection Hty as <-.
    eapply set_data_gterm_shape; [| | |exact Hd]; cbn [tg_expr tg_factor].
    - destruct (gexpr g) as [| |t]; [injection He as <-; exact I|discriminate He|].
      eapply set_type_term_shape; eassumption.
    - apply Forall_map. pose proof (set_type_comps_shape _ _ _ _ _ _ HD Hex Hfs) as Hs.
      eapply Forall_impl; [|exact Hs]. intros c Hc. exact Hc.
    - pose proof (mapM_length _ _ _ Hfs) as L. pose proof (Hg g f Hin Ef) as Hne.
      destruct fs; [destruct f; [congruence|discriminate L]|discriminate]. }
  constructor; cbn [ds_nrows ds_common ds_group ds_response].
  - apply fold_dict_set_all. exact T3.
  - apply fold_dict_set_all. exact G3.
  - intros r0 ->. destruct (resp m) as [t|]; [|discriminate Hr].
    apply bind_ok in Hr as (ty & Hty & Hr). apply bind_ok in Hr as (d & Hd & Hr). injection Hr as <-.
    eapply set_data_term_shape; [|exact Hd]. eapply set_type_term_shape; eassumption.
  - apply fold_dict_set_names.
  - apply fold_dict_set_names.
Qed.

(* ------------------------------------------------------------------------------------------ *)
(** * 6. The containers of a built design *)

(* CommonEffectsMatrix.slices (GroupEffectsMatrix.slices is [group_slices]) *)
Definition common_slices (ds : design) : list (string * nat * nat) :=
  slices_of (map dt_name (ds_common ds)) (map (fun t => width (dt_rows t)) (ds_common ds)).

Lemma dterm_shapes_blocks n (ts : list dterm) :
  Forall (dterm_shape n) ts ->
  Forall2 (block_shape n) (map dt_rows ts) (map (fun t => width (dt_rows t)) ts).
Proof.
  intros H. rewrite <- (map_map dt_rows width). apply block_shapes_width; apply Forall_map;
    (eapply Forall_impl; [|exact H]); intros t (L & R & _); assumption.
Qed.

Lemma dgterm_shapes_blocks n (gs : list dgterm) :
  Forall (dgterm_shape n) gs ->
  Forall2 (block_shape n) (map dg_rows gs) (map (fun g => width (dg_rows g)) gs).
Proof.
  intros H. rewrite <- (map_map dg_rows width). apply block_shapes_width; apply Forall_map;
    (eapply Forall_impl; [|exact H]); intros t (L & R & _); assumption.
Qed.

(** Row counts: the response, every term, the common matrix and the group matrix all have
    [ds_nrows] rows. *)
Theorem design_row_counts ds :
  design_shape ds ->
  (forall r, ds_response ds = Some r -> List.length (dt_rows r) = ds_nrows ds) /\
  Forall (fun t => List.length (dt_rows t) = ds_nrows ds) (ds_common ds) /\
  Forall (fun g => List.length (dg_rows g) = ds_nrows ds) (ds_group ds) /\
  List.length (common_matrix ds) = ds_nrows ds /\
  List.length (group_matrix ds) = ds_nrows ds.
Proof.
  intros [Hc Hg Hr _ _].
  assert (Lc : Forall (fun t => List.length (dt_rows t) = ds_nrows ds) (ds_common ds))
    by (eapply Forall_impl; [|exact Hc]; intros t (L & _); exact L).
  assert (Lg : Forall (fun g => List.length (dg_rows g) = ds_nrows ds) (ds_group ds))
    by (eapply Forall_impl; [|exact Hg]; intros t (L & _); exact L).
  split; [intros r E; destruct (Hr r E) as (L & _); exact L|]. split; [exact Lc|]. split; [exact Lg|].
  split; [unfold common_matrix|unfold group_matrix]; apply hstack_length; apply Forall_map; assumption.
Qed.

(** Indexing the common matrix by a term name returns that term's own rows. *)
Theorem design_common_index ds t :
  design_shape ds -> In t (ds_common ds) ->
  index_by_name (dt_name t) (common_slices ds) (common_matrix ds) = Some (dt_rows t).
Proof.
  intros [Hc _ _ Hn _] Hin. apply In_nth_error in Hin as (j & Hj).
  unfold common_slices, common_matrix.
  apply (index_by_name_hstack _ _ _ _ j).
  - apply dterm_shapes_blocks. exact Hc.
  - rewrite !map_length. reflexivity.
  - exact Hn.
  - apply map_nth_error. exact Hj.
  - apply map_nth_error. exact Hj.
Qed.

(** ... row by row: the columns [start, stop) of observation i are row i of the term. *)
Corollary design_common_slice_row ds j t nm s e i :
  design_shape ds -> nth_error (ds_common ds) j = Some t ->
  nth_error (common_slices ds) j = Some (nm, s, e) -> i < ds_nrows ds ->
  nm = dt_name t /\ e - s = width (dt_rows t) /\
  firstn (e - s) (skipn s (nth i (common_matrix ds) [])) = nth i (dt_rows t) [].
Proof.
  intros [Hc _ _ _ _] Hj Hs Hi. unfold common_slices in Hs. pose proof Hs as Hs'.
  apply slices_of_nth_error in Hs' as (w & Hn & Hw & -> & ->).
  rewrite (map_nth_error dt_name _ _ Hj) in Hn. rewrite (map_nth_error (fun t => width (dt_rows t)) _ _ Hj) in Hw.
  injection Hn as <-. injection Hw as <-. split; [reflexivity|]. split; [lia|].
  unfold common_matrix. eapply hstack_slice_row; [apply dterm_shapes_blocks; exact Hc|exact Hs| |exact Hi].
  apply map_nth_error. exact Hj.
Qed.

(** A name that is not a term name is refused. *)
Theorem design_common_unknown ds nm :
  ~ In nm (map dt_name (ds_common ds)) -> index_by_name nm (common_slices ds) (common_matrix ds) = None.
Proof. intros H. apply index_by_name_unknown; [rewrite !map_length; reflexivity|exact H]. Qed.

(** The same for the group-specific matrix. *)
Theorem design_group_index ds g :
  design_shape ds -> In g (ds_group ds) ->
  index_by_name (dg_name g) (group_slices ds) (group_matrix ds) = Some (dg_rows g).
Proof.
  intros [_ Hg _ _ Hn] Hin. apply In_nth_error in Hin as (j & Hj).
  unfold group_slices, group_matrix.
  apply (index_by_name_hstack _ _ _ _ j).
  - apply dgterm_shapes_blocks. exact Hg.
  - rewrite !map_length. reflexivity.
  - exact Hn.
  - apply map_nth_error. exact Hj.
  - apply map_nth_error. exact Hj.
Qed.

Corollary design_group_slice_row ds j g nm s e i :
  design_shape ds -> nth_error (ds_group ds) j = Some g ->
  nth_error (group_slices ds) j = Some (nm, s, e) -> i < ds_nrows ds ->
  nm = dg_name g /\ e - s = width (dg_rows g) /\
  firstn (e - s) (skipn s (nth i (group_matrix ds) [])) = nth i (dg_rows g) [].
Proof.
  intros [_ Hg _ _ _] Hj Hs Hi. unfold group_slices in Hs. pose proof Hs as Hs'.
  apply slices_of_nth_error in Hs' as (w & Hn & Hw & -> & ->).
  rewrite (map_nth_error dg_name _ _ Hj) in Hn. rewrite (map_nth_error (fun g => width (dg_rows g)) _ _ Hj) in Hw.
  injection Hn as <-. injection Hw as <-. split; [reflexivity|]. split; [lia|].
  unfold group_matrix. eapply hstack_slice_row; [apply dgterm_shapes_blocks; exact Hg|exact Hs| |exact Hi].
  apply map_nth_error. exact Hj.
Qed.

Theorem design_group_unknown ds nm :
  ~ In nm (map dg_name (ds_group ds)) -> index_by_name nm (group_slices ds) (group_matrix ds) = None.
Proof. intros H. apply index_by_name_unknown; [rewrite !map_length; reflexivity|exact H]. Qed.

(* ------------------------------------------------------------------------------------------ *)
(** * 7. [design_matrices] and [build_design] *)

(* the number of observations the missing-value policy retains *)
Definition retained (data : frame) (m : model) (na : na_action) : nat :=
  match na with NaDrop => count_true (complete_mask data m) | _ => frame_rows data end.

(* the frame [design_matrices] hands to [eval_model] *)
Definition model_frame (data d : frame) : frame :=
  match d with [] => [("", ColNum true (repeat None (frame_rows data)))] | _ => d end.

Lemma used_or_dummy data m :
  frame_wf data -> frame_wf (model_frame data (used_cols data m)) /\
                   frame_rows (model_frame data (used_cols data m)) = frame_rows data.
Proof.
  intros Hwf. destruct (used_cols data m) as [|kv u] eqn:E; unfold model_frame.
  - split; [|simpl; apply repeat_length]. unfold frame_wf, rect. constructor; [|constructor].
    simpl. reflexivity.
  - rewrite <- E. pose proof (used_cols_rect _ _ m Hwf) as R.
    assert (F : frame_rows (used_cols data m) = frame_rows data) by (apply frame_rows_rect; [exact R|congruence]).
    split; [|exact F]. unfold frame_wf. rewrite F. exact R.
Qed.

Lemma prepare_data_wf data m na d :
  frame_wf data -> prepare_data data m na = Ok d ->
  frame_wf (model_frame data d) /\ frame_rows (model_frame data d) = retained data m na.
Proof.
  intros Hwf H. rewrite prepare_data_unfold in H.
  destruct (frame_rows data =? 0); [discriminate H|].
  pose proof (used_or_dummy data m Hwf) as [U1 U2].
  destruct (anyb (incomplete_mask data m)) eqn:Ea.
  - destruct na; try discriminate H; injection H as <-; [|split; assumption].
    assert (Une : used_cols data m <> []).
    { intros E. unfold incomplete_mask in Ea. rewrite E in Ea. simpl in Ea.
      rewrite anyb_repeat_false in Ea. discriminate Ea. }
    pose proof (used_cols_rect _ _ m Hwf) as R.
    assert (F : frame_rows (used_cols data m) = frame_rows data) by (apply frame_rows_rect; assumption).
    assert (Uwf : frame_wf (used_cols data m)) by (unfold frame_wf; rewrite F; exact R).
    assert (Lm : List.length (complete_mask data m) = frame_rows (used_cols data m))
      by (rewrite F; apply complete_mask_length; exact Hwf).
    assert (E : model_frame data (frame_select (complete_mask data m) (used_cols data m))
                = frame_select (complete_mask data m) (used_cols data m)).
    { destruct (used_cols data m); [congruence|reflexivity]. }
    rewrite E. split; [apply frame_select_wf; assumption|].
    simpl. apply frame_select_rows; assumption.
  - injection H as <-. split; [exact U1|]. rewrite U2.
    destruct na; simpl; try reflexivity.
    unfold complete_mask. rewrite (count_true_all _ Ea). symmetry. apply incomplete_mask_length. exact Hwf.
Qed.

(** A design built by [design_matrices] on a rectangular frame: it has as many rows as the policy
    retains, and all its containers are consistent. *)
Theorem design_matrices_shape cx e data na m ds :
  describe e = Ok m -> frame_wf data -> extras_shape (retained data m na) cx -> groups_nonempty m ->
  design_matrices cx e data na = Ok ds ->
  ds_nrows ds = retained data m na /\ design_shape ds.
Proof.
  intros Hd Hwf Hex Hg H. unfold design_matrices in H. rewrite Hd in H. cbn [bind] in H.
  apply bind_ok in H as (d & Hp & H). fold (model_frame data d) in H.
  destruct (prepare_data_wf _ _ _ _ Hwf Hp) as [W R].
  rewrite <- R in Hex. destruct (eval_model_shape _ _ _ _ W Hex Hg H) as [N S].
  split; [congruence|exact S].
Qed.

(* the extra namespace the driver decodes only holds scalars *)
Lemma Forall_flat_map {A B} (P : B -> Prop) (f : A -> list B) l :
  (forall a, Forall P (f a)) -> Forall P (flat_map f l).
Proof. intros H. induction l as [|a l IH]; simpl; [constructor|]. apply Forall_app. auto. Qed.

(* ------------------------------------------------------------------------------------------ *)
(** * 8. Every term of a described model has at least one component *)

Definition cterm_ne (c : cterm) : Prop := match c with CT t => t <> [] | _ => True end.
Definition gterm_ne (g : gterm) : Prop := cterm_ne (gexpr g) /\ cterm_ne (gfactor g).
Definition anyterm_ne (a : anyterm) : Prop := match a with AC c => cterm_ne c | AG g => gterm_ne g end.
Definition model_ne (m : model) : Prop :=
  (forall t, resp m = Some t -> t <> []) /\ Forall cterm_ne (commons m) /\ Forall gterm_ne (groups m).
Definition value_ne (v : value) : Prop :=
  match v with
  | VT t | VR t => t <> []
  | VG g => gterm_ne g
  | VM m => model_ne m
  | _ => True
  end.

Lemma Forall_flat_map_in {A B} (Q : A -> Prop) (P : B -> Prop) (f : A -> list B) l :
  Forall Q l -> (forall a, Q a -> Forall P (f a)) -> Forall P (flat_map f l).
Proof. intros Hl H. induction Hl as [|a l Ha _ IH]; simpl; [constructor|]. apply Forall_app. auto. Qed.

Lemma dedup_comps_nil l : forall acc, dedup_comps acc l = [] -> acc = [] /\ l = [].
Proof.
  induction l as [|c r IH]; intros acc H; simpl in H; [auto|].
  destruct (existsb (comp_eqb c) acc) eqn:E.
  - destruct (IH _ H) as [-> _]. discriminate E.
  - destruct (IH _ H) as [Ha _]. destruct acc; discriminate Ha.
Qed.

Lemma mk_term_ne l : l <> [] -> mk_term l <> [].
Proof. intros Hl E. apply dedup_comps_nil in E as [_ E]. auto. Qed.

Lemma app_ne_l {T} (a b : list T) : a <> [] -> a ++ b <> [].
Proof. destruct a; [congruence|discriminate]. Qed.
Lemma app_ne_r {T} (a b : list T) : b <> [] -> a ++ b <> [].
Proof. destruct a; [auto|discriminate]. Qed.

Lemma dedup_Forall {T} (P : T -> Prop) eqb l : forall acc,
  Forall P acc -> Forall P l -> Forall P (dedup eqb acc l).
Proof.
  induction l as [|x l IH]; intros acc Ha Hl; simpl; [exact Ha|].
  pose proof (Forall_inv Hl) as Hx. pose proof (Forall_inv_tail Hl) as Hr.
  destruct (existsb (eqb x) acc); apply IH; auto. apply Forall_app. split; [exact Ha|constructor; [exact Hx|constructor]].
Qed.

Lemma remove_first_Forall {T} (P : T -> Prop) eqb x l : Forall P l -> Forall P (remove_first eqb x l).
Proof.
  induction 1 as [|y l Hy Hl IH]; simpl; [constructor|]. destruct (eqb x y); [exact Hl|constructor; assumption].
Qed.

Lemma mk_model_ne ts r :
  Forall anyterm_ne ts -> (forall t, r = Some t -> t <> []) -> model_ne (mk_model ts r).
Proof.
  intros Hts Hr. unfold mk_model, model_ne. cbn [resp commons groups]. split; [exact Hr|]. split.
  - apply dedup_Forall; [constructor|].
    induction Hts as [|a ts Ha _ IH]; simpl; [constructor|].
    destruct a as [c|g]; simpl; [constructor; [exact Ha|exact IH]|exact IH].
  - apply dedup_Forall; [constructor|].
    induction Hts as [|a ts Ha _ IH]; simpl; [constructor|].
    destruct a as [c|g]; simpl; [exact IH|constructor; [exact Ha|exact IH]].
Qed.

Lemma model_terms_ne m : model_ne m -> Forall anyterm_ne (model_terms m).
Proof.
  intros (_ & Hc & Hg). unfold model_terms. apply Forall_app. split; apply Forall_map; assumption.
Qed.

Lemma add_term_ne m a m' : model_ne m -> anyterm_ne a -> add_term m a = Ok m' -> model_ne m'.
Proof.
  intros (Hr & Hc & Hg) Ha H. destruct a as [c|g]; simpl in H.
  - destruct c; try discriminate H; injection H as <-;
      (destruct (cmem _ (commons m)); [repeat split; assumption|]);
      (split; [exact Hr|split; [|exact Hg]]); cbn [commons];
      apply Forall_app; (split; [exact Hc|constructor; [exact Ha|constructor]]).
  - injection H as <-. destruct (gmem g (groups m)); [repeat split; assumption|].
    split; [exact Hr|split; [exact Hc|]]. cbn [groups]. apply Forall_app. split; [exact Hg|constructor; [exact Ha|constructor]].
Qed.

Lemma add_terms_ne l : forall m m', model_ne m -> Forall anyterm_ne l -> add_terms m l = Ok m' -> model_ne m'.
Proof.
  induction l as [|a l IH]; intros m m' Hm Hl H; simpl in H; [injection H as <-; exact Hm|].
  apply bind_ok in H as (m1 & H1 & H). eapply IH; [|exact (Forall_inv_tail Hl)|exact H].
  eapply add_term_ne; [exact Hm|exact (Forall_inv Hl)|exact H1].
Qed.

Lemma model_sub_ne m v m' : model_ne m -> model_sub m v = Ok m' -> model_ne m'.
Proof.
  intros Hm H. destruct v as [| |t|g|t|o]; simpl in H; try discriminate H; injection H as <-.
  - destruct Hm as (Hr & Hc & Hg). destruct (cmem CI (commons m)); [|repeat split; assumption].
    split; [exact Hr|split; [|exact Hg]]. apply remove_first_Forall. exact Hc.
  - destruct Hm as (Hr & Hc & Hg). destruct (cmem (CT t) (commons m)); [|repeat split; assumption].
    split; [exact Hr|split; [|exact Hg]]. apply remove_first_Forall. exact Hc.
  - destruct Hm as (Hr & Hc & Hg). destruct (gmem g (groups m)); [|repeat split; assumption].
    split; [exact Hr|split; [exact Hc|]]. apply remove_first_Forall. exact Hg.
  - revert m Hm. induction (model_terms o) as [|a l IH]; intros m Hm; simpl; [exact Hm|].
    apply IH. destruct Hm as (Hr & Hc & Hg). destruct a as [c|g].
    + destruct (cmem c (commons m)); [|repeat split; assumption].
      split; [exact Hr|split; [|exact Hg]]. apply remove_first_Forall. exact Hc.
    + destruct (gmem g (groups m)); [|repeat split; assumption].
      split; [exact Hr|split; [exact Hc|]]. apply remove_first_Forall. exact Hg.
Qed.

Lemma model_add_ne m v m' : model_ne m -> value_ne v -> model_add m v = Ok m' -> model_ne m'.
Proof.
  intros Hm Hv H. destruct v as [| |t|g|t|o]; unfold model_add in H.
  - eapply add_term_ne; [exact Hm| |exact H]. exact I.
  - eapply model_sub_ne; [exact Hm|exact H].
  - eapply add_term_ne; [exact Hm| |exact H]. exact Hv.
  - eapply add_term_ne; [exact Hm| |exact H]. exact Hv.
  - discriminate H.
  - eapply add_terms_ne; [exact Hm| |exact H]. apply model_terms_ne. exact Hv.
Qed.

Lemma interactions_ne ls rs it :
  Forall cterm_ne ls -> interactions ls rs = Ok it -> Forall anyterm_ne it.
Proof.
  intros Hl H. unfold interactions in H. apply mapM_ok in H.
  assert (Hp : Forall (fun p => cterm_ne (fst p)) (list_prod ls rs)).
  { apply Forall_forall. intros [a b] Hin. apply in_prod_iff in Hin as [Ha _].
    rewrite Forall_forall in Hl. exact (Hl a Ha). }
  induction H as [|p a ps its Hpa _ IH]; constructor; [|apply IH; exact (Forall_inv_tail Hp)].
  pose proof (Forall_inv Hp) as H0. cbv beta in H0. apply bind_ok in Hpa as (x & Hx & Hpa).
  apply bind_ok in Hpa as (y & _ & Hpa). injection Hpa as <-. simpl.
  apply mk_term_ne. apply app_ne_l. destruct (fst p); simpl in Hx; try discriminate Hx.
  injection Hx as <-. exact H0.
Qed.

Lemma empty_model_ne : model_ne empty_model.
Proof. split; [discriminate|split; constructor]. Qed.

Ltac ne_list := solve [repeat first [apply Forall_nil | apply Forall_cons]; simpl; first [exact I | assumption]].
Ltac ne_model := apply mk_model_ne; [ne_list|first [discriminate | intros ? [= <-]; assumption]].

Lemma v_add_ne a b v : value_ne a -> value_ne b -> v_add a b = Ok v -> value_ne v.
Proof.
  intros Ha Hb H. destruct a as [| |t|g|t|m]; unfold v_add in H.
  - destruct b as [| |t'|g'|t'|o]; try discriminate H; try (injection H as <-; simpl; first [exact I | apply empty_model_ne | ne_model]).
    apply bind_ok in H as (m' & Hm & H). injection H as <-.
    eapply (model_add_ne _ (VM o)); [|exact Hb|exact Hm]. ne_model.
  - destruct b as [| |t'|g'|t'|o]; try discriminate H; try (injection H as <-; simpl; first [exact I | apply empty_model_ne | ne_model]).
    apply bind_ok in H as (m' & Hm & H). injection H as <-.
    eapply (model_add_ne _ (VM o)); [|exact Hb|exact Hm]. ne_model.
  - destruct b as [| |t'|g'|t'|o]; try discriminate H.
    + destruct (term_eqb t t'); injection H as <-; [exact Ha|]. simpl. ne_model.
    + apply bind_ok in H as (m' & Hm & H). injection H as <-.
      eapply (model_add_ne _ (VM o)); [|exact Hb|exact Hm]. ne_model.
  - discriminate H.
  - destruct b as [| |t'|g'|t'|o]; try discriminate H; injection H as <-; simpl; try ne_model.
    destruct Hb as (_ & Hc & Hg). split; [intros ? [= <-]; exact Ha|split; assumption].
  - apply bind_ok in H as (m' & Hm & H). injection H as <-. eapply model_add_ne; eassumption.
Qed.

Lemma v_sub_ne a b v : value_ne a -> value_ne b -> v_sub a b = Ok v -> value_ne v.
Proof.
  intros Ha Hb H. destruct a as [| |t|g|t|m]; simpl in H; try discriminate H.
  - destruct b as [| |t'|g'|t'|o]; try discriminate H.
    + injection H as <-. apply empty_model_ne.
    + injection H as <-. exact I.
    + destruct (cmem CI (commons o)); injection H as <-; [apply empty_model_ne|exact I].
  - destruct b as [| |t'|g'|t'|o]; try discriminate H.
    + destruct (term_eqb t t'); injection H as <-; [apply empty_model_ne|exact Ha].
    + destruct (existsb _ _); injection H as <-; [apply empty_model_ne|exact Ha].
  - apply bind_ok in H as (m' & Hm & H). injection H as <-. eapply model_sub_ne; eassumption.
Qed.

Lemma Forall_single {T} (P : T -> Prop) x : P x -> Forall P [x].
Proof. intros H. constructor; [exact H|constructor]. Qed.

Lemma v_matmul_ne a b v : value_ne a -> value_ne b -> v_matmul a b = Ok v -> value_ne v.
Proof.
  intros Ha Hb H. destruct a as [| |t|g|t|m]; simpl in H; try discriminate H.
  - destruct b as [| |t'|g'|t'|o]; try discriminate H.
    + destruct (term_eqb t t'); [injection H as <-; exact Ha|].
      destruct (single_numeric t'); [discriminate H|]. injection H as <-. simpl.
      apply mk_term_ne. apply app_ne_l. exact Ha.
    + apply bind_ok in H as (it & Hit & H). injection H as <-. simpl.
      apply mk_model_ne; [|discriminate]. eapply interactions_ne; [|exact Hit]. apply Forall_single. exact Ha.
  - destruct Ha as (_ & Hc & _).
    destruct b as [| |t'|g'|t'|o]; try discriminate H;
      apply bind_ok in H as (it & Hit & H); injection H as <-; simpl;
      (apply mk_model_ne; [|discriminate]); eapply interactions_ne; [|exact Hit| |exact Hit]; exact Hc.
Qed.

Lemma map_AC_ne cs : Forall cterm_ne cs -> Forall anyterm_ne (map AC cs).
Proof. intros H. apply Forall_map. exact H. Qed.

Lemma v_mul_ne a b v : value_ne a -> value_ne b -> v_mul a b = Ok v -> value_ne v.
Proof.
  intros Ha Hb H. destruct a as [| |t|g|t|m]; simpl in H; try discriminate H.
  - destruct b as [| |t'|g'|t'|o]; try discriminate H.
    + destruct (term_eqb t t'); [injection H as <-; exact Ha|].
      destruct (single_numeric t'); [discriminate H|]. injection H as <-. simpl.
      apply mk_model_ne; [|discriminate]. repeat constructor; simpl; auto.
      apply mk_term_ne. apply app_ne_l. exact Ha.
    + apply bind_ok in H as (it & Hit & H). apply bind_ok in H as (m' & Hm & H). injection H as <-. simpl.
      destruct Hb as (_ & Hc & _).
      eapply add_terms_ne; [| |exact Hm].
      * apply mk_model_ne; [|discriminate]. constructor; [exact Ha|apply map_AC_ne; exact Hc].
      * apply model_terms_ne. apply mk_model_ne; [|discriminate].
        eapply interactions_ne; [|exact Hit]. apply Forall_single. exact Ha.
  - destruct Ha as (_ & Hc & _). destruct b as [| |t'|g'|t'|o]; try discriminate H.
    + destruct (single_numeric t'); [discriminate H|].
      apply bind_ok in H as (it & Hit & H). apply bind_ok in H as (m' & Hm & H). injection H as <-. simpl.
      eapply add_terms_ne; [| |exact Hm].
      * apply mk_model_ne; [|discriminate]. apply map_AC_ne. apply Forall_app. split; [exact Hc|apply Forall_single; exact Hb].
      * apply model_terms_ne. apply mk_model_ne; [|discriminate]. eapply interactions_ne; [|exact Hit]. exact Hc.
    + apply bind_ok in H as (it & Hit & H). apply bind_ok in H as (m' & Hm & H). injection H as <-. simpl.
      destruct Hb as (_ & Hco & _).
      eapply add_terms_ne; [| |exact Hm].
      * apply mk_model_ne; [|discriminate]. apply map_AC_ne. apply Forall_app. split; assumption.
      * apply model_terms_ne. apply mk_model_ne; [|discriminate]. eapply interactions_ne; [|exact Hit]. exact Hc.
Qed.

Lemma v_div_ne a b v : value_ne a -> value_ne b -> v_div a b = Ok v -> value_ne v.
Proof.
  intros Ha Hb H. destruct a as [| |t|g|t|m]; unfold v_div in H; try discriminate H.
  - destruct b as [| |t'|g'|t'|o]; try discriminate H.
    + destruct (term_eqb t t'); [injection H as <-; exact Ha|].
      destruct (single_numeric t'); [discriminate H|]. injection H as <-. simpl.
      apply mk_model_ne; [|discriminate]. repeat constructor; simpl; auto.
      apply mk_term_ne. apply app_ne_l. exact Ha.
    + apply bind_ok in H as (it & Hit & H). apply bind_ok in H as (m' & Hm & H). injection H as <-. simpl.
      eapply add_terms_ne; [| |exact Hm].
      * apply mk_model_ne; [|discriminate]. apply Forall_single. exact Ha.
      * apply model_terms_ne. apply mk_model_ne; [|discriminate].
        eapply interactions_ne; [|exact Hit]. apply Forall_single. exact Ha.
  - destruct b as [| |t'|g'|t'|o]; try discriminate H.
    + apply bind_ok in H as (m' & Hm & H). injection H as <-. simpl.
      eapply add_term_ne; [exact Ha| |exact Hm]. simpl. apply mk_term_ne. apply app_ne_r. exact Hb.
    + apply bind_ok in H as (m' & Hm & H). injection H as <-. simpl.
      eapply add_terms_ne; [exact Ha| |exact Hm]. apply model_terms_ne. apply mk_model_ne; [|discriminate].
      destruct Hb as (_ & Hco & _). apply (Forall_flat_map_in cterm_ne); [exact Hco|].
      intros [| |t] Hc; [constructor|constructor|]. apply Forall_single. simpl.
      apply mk_term_ne. apply app_ne_r. exact Hc.
Qed.

Lemma combinations_spec {T} (l : list T) : forall k cs,
  In cs (combinations l k) -> List.length cs = k /\ incl cs l.
Proof.
  induction l as [|x l IH]; intros [|k] cs H; simpl in H.
  - destruct H as [<-|[]]. split; [reflexivity|intros ? []].
  - contradiction.
  - destruct H as [<-|[]]. split; [reflexivity|intros ? []].
  - apply in_app_or in H as [H|H].
    + apply in_map_iff in H as (cs' & <- & H). destruct (IH _ _ H) as [L I]. split; [simpl; congruence|].
      intros y [<-|Hy]; [left; reflexivity|right; apply I; exact Hy].
    + destruct (IH _ _ H) as [L I]. split; [exact L|]. intros y Hy. right. apply I. exact Hy.
Qed.

Lemma v_pow_ne a b v : value_ne a -> value_ne b -> v_pow a b = Ok v -> value_ne v.
Proof.
  intros Ha Hb H. destruct a as [| |t|g|t|m]; unfold v_pow in H; try discriminate H.
  - destruct b as [| |t'|g'|t'|o]; try discriminate H. destruct (pow_value t'); [|discriminate H].
    injection H as <-. exact Ha.
  - destruct b as [| |t'|g'|t'|o]; try discriminate H. destruct t' as [|c [|c' r]]; try discriminate H.
    destruct (pow_value [c]) as [z|]; [|discriminate H].
    apply bind_ok in H as (it & Hit & H). apply bind_ok in H as (m' & Hm & H). injection H as <-. simpl.
    eapply add_terms_ne; [exact Ha| |exact Hm]. apply model_terms_ne. apply mk_model_ne; [|discriminate].
    destruct Ha as (_ & Hc & _). apply mapM_ok in Hit.
    assert (Hcombs : Forall (fun cs => 2 <= List.length cs /\ Forall cterm_ne cs)
                            (flat_map (fun i => combinations (commons m) i) (seq 2 (Z.to_nat z - 1)))).
    { apply Forall_forall. intros cs Hin. apply in_flat_map in Hin as (i & Hi & Hin).
      apply in_seq in Hi. destruct (combinations_spec _ _ _ Hin) as [L I]. split; [lia|].
      apply Forall_forall. intros x Hx. rewrite Forall_forall in Hc. apply Hc. apply I. exact Hx. }
    clear Hm. induction Hit as [|cs a combs its Hcs _ IH]; [constructor|].
    constructor; [|apply IH; exact (Forall_inv_tail Hcombs)].
    destruct (Forall_inv Hcombs) as [L Hne]. apply bind_ok in Hcs as (ts & Hts & Hcs). injection Hcs as <-.
    simpl. apply mk_term_ne. destruct cs as [|c0 cs]; [simpl in L; lia|].
    simpl in Hts. apply bind_ok in Hts as (t0 & Ht0 & Hts). apply bind_ok in Hts as (ts' & _ & Hts).
    injection Hts as <-. simpl. apply app_ne_l. pose proof (Forall_inv Hne) as H0.
    destruct c0; simpl in Ht0; try discriminate Ht0. injection Ht0 as <-. exact H0.
Qed.

Lemma or_cterm_ne c b v : cterm_ne c -> value_ne b -> or_cterm c b = Ok v -> value_ne v.
Proof.
  intros Hc Hb H. destruct c as [| |t]; simpl in H; try discriminate H.
  - destruct b as [| |f|g'|t'|o]; try discriminate H; injection H as <-; simpl.
    + split; [exact I|exact Hb].
    + apply mk_model_ne; [|discriminate]. destruct Hb as (_ & Hco & _). apply Forall_map.
      eapply Forall_impl; [|exact Hco]. intros p Hp. split; [exact I|exact Hp].
  - destruct b as [| |f|g'|t'|o]; try discriminate H; injection H as <-; simpl.
    + apply mk_model_ne; [|discriminate]. repeat constructor; simpl; auto.
    + apply mk_model_ne; [|discriminate]. destruct Hb as (_ & Hco & _). apply Forall_app.
      split; apply Forall_map; (eapply Forall_impl; [|exact Hco]); intros p Hp; (split; [|exact Hp]); simpl; auto.
Qed.

Lemma gprod_ne cs ps :
  Forall cterm_ne cs -> Forall cterm_ne ps ->
  Forall anyterm_ne (map (fun p => AG (GT (fst p) (snd p))) (list_prod cs ps)).
Proof.
  intros Hc Hp. apply Forall_map. apply Forall_forall. intros [a b] Hin. apply in_prod_iff in Hin as [Ha Hb'].
  rewrite Forall_forall in Hc, Hp. split; simpl; auto.
Qed.

Lemma v_or_ne a b v : value_ne a -> value_ne b -> v_or a b = Ok v -> value_ne v.
Proof.
  intros Ha Hb H. destruct a as [| |t|g|t|m]; unfold v_or in H; try discriminate H.
  - eapply or_cterm_ne; [|exact Hb|exact H]. exact I.
  - eapply or_cterm_ne; [|exact Hb|exact H]. exact Ha.
  - destruct Ha as (_ & Hc & _).
    set (cs := commons m) in *.
    assert (Hcs' : Forall cterm_ne
              (if cmem CI cs && cmem CN cs then remove_first cterm_eqb CN (remove_first cterm_eqb CI cs)
               else if cmem CN cs then remove_first cterm_eqb CN cs
               else if negb (cmem CI cs) then CI :: cs else cs)).
    { destruct (cmem CI cs && cmem CN cs); [apply remove_first_Forall, remove_first_Forall; exact Hc|].
      destruct (cmem CN cs); [apply remove_first_Forall; exact Hc|].
      destruct (negb (cmem CI cs)); [constructor; [exact I|exact Hc]|exact Hc]. }
    assert (G : forall ps, Forall cterm_ne ps ->
              model_ne (mk_model (map (fun p => AG (GT (fst p) (snd p)))
                (list_prod (if cmem CI cs && cmem CN cs then remove_first cterm_eqb CN (remove_first cterm_eqb CI cs)
                            else if cmem CN cs then remove_first cterm_eqb CN cs
                            else if negb (cmem CI cs) then CI :: cs else cs) ps)) None)).
    { intros ps Hps. apply mk_model_ne; [|discriminate]. apply gprod_ne; assumption. }
    clear Hcs'. destruct cs as [|c0 [|c1 cs]].
    + destruct b as [| |f|g'|t'|o]; try discriminate H; injection H as <-.
      * exact (G [CT f] (Forall_single cterm_ne (CT f) Hb)).
      * exact (G (commons o) (proj1 (proj2 Hb))).
    + eapply or_cterm_ne; [exact (Forall_inv Hc)|exact Hb|exact H].
    + destruct b as [| |f|g'|t'|o]; try discriminate H; injection H as <-.
      * exact (G [CT f] (Forall_single cterm_ne (CT f) Hb)).
      * exact (G (commons o) (proj1 (proj2 Hb))).
Qed.

Lemma apply_binop_ne o a b v : value_ne a -> value_ne b -> Algebra.apply_binop o a b = Ok v -> value_ne v.
Proof.
  intros Ha Hb H. destruct o; unfold Algebra.apply_binop in H.
  - apply bind_ok in H as (r & Hr & H). eapply v_add_ne; [|exact Hb|exact H].
    unfold mk_response in Hr. destruct a as [| |[|c [|c' t]]| | |]; try discriminate Hr. injection Hr as <-.
    simpl. discriminate.
  - eapply v_add_ne; [exact Ha|exact Hb|exact H].
  - eapply v_sub_ne; [exact Ha|exact Hb|exact H].
  - eapply v_pow_ne; [exact Ha|exact Hb|exact H].
  - eapply v_matmul_ne; [exact Ha|exact Hb|exact H].
  - eapply v_mul_ne; [exact Ha|exact Hb|exact H].
  - eapply v_div_ne; [exact Ha|exact Hb|exact H].
  - eapply v_or_ne; [exact Ha|exact Hb|exact H].
Qed.

Theorem resolve_ne e : forall v, resolve e = Ok v -> value_ne v.
Proof.
  induction e as [nm IHn vl IHv|e IH|l IHl op r IHr|op r IH|callee IHc args|name level|t|lit lx];
    intros v H; cbn [resolve] in H.
  - discriminate H.
  - apply IH. exact H.
  - destruct (lookup_kind (tkind op) resolver_ops) as [o|]; [|discriminate H].
    apply bind_ok in H as (a & Ea & H). apply bind_ok in H as (b & Eb & H).
    eapply apply_binop_ne; [apply IHl; exact Ea|apply IHr; exact Eb|exact H].
  - destruct (tkind op); try discriminate H.
    + apply IH. exact H.
    + apply bind_ok in H as (x & _ & H). destruct x; try discriminate H; injection H as <-; exact I.
  - apply bind_ok in H as (l & _ & H). injection H as <-. simpl. discriminate.
  - destruct level as [lv|]; [|injection H as <-; simpl; discriminate].
    destruct lv as [| | | | | | |[] ?]; try discriminate H. injection H as <-. simpl. discriminate.
  - injection H as <-. simpl. discriminate.
  - destruct (lit_is 0 lit); [injection H as <-; exact I|].
    destruct (lit_is 1 lit); [injection H as <-; exact I|]. injection H as <-. simpl. discriminate.
Qed.

(** Every model [describe] returns: no term without component; in particular every grouping
    factor has one. *)
Theorem describe_ne e m : describe e = Ok m -> model_ne m.
Proof.
  unfold describe. intros H. apply bind_ok in H as (v & Hv & H). apply resolve_ne in Hv.
  destruct v as [| |t|g|t|o]; try discriminate H; injection H as <-; try exact Hv;
    (apply mk_model_ne; [|discriminate]); apply Forall_single; simpl; auto.
Qed.

Corollary describe_groups_nonempty e m : describe e = Ok m -> groups_nonempty m.
Proof.
  intros H g f Hin Ef. destruct (describe_ne _ _ H) as (_ & _ & Hg).
  rewrite Forall_forall in Hg. destruct (Hg g Hin) as [_ Hf]. rewrite Ef in Hf. exact Hf.
Qed.

(* ------------------------------------------------------------------------------------------ *)
(** * 9. The driver's build function *)

Lemma dec_extra_scalar x : Forall (fun kv => is_scalar (snd kv) = true) (dec_extra x).
Proof.
  unfold dec_extra. destruct x as [|l]; [constructor|]. apply Forall_flat_map. intros a.
  repeat match goal with
         | |- Forall _ (match ?x with _ => _ end) => destruct x
         end; repeat constructor.
Qed.

Lemma dec_extra_scalar_extras x sq : scalar_extras (DCtx (dec_extra x) sq).
Proof.
  intros k v E. cbn [d_extra] in E. apply assoc_In in E.
  pose proof (dec_extra_scalar x) as H. rewrite Forall_forall in H. exact (H _ E).
Qed.

(** Any design [design_matrices] returns for a rectangular frame and a scalar namespace. *)
Theorem design_matrices_containers cx e data na ds :
  frame_wf data -> scalar_extras cx -> design_matrices cx e data na = Ok ds ->
  exists m, describe e = Ok m /\ ds_nrows ds = retained data m na /\ design_shape ds.
Proof.
  intros Hwf Hex H. pose proof H as H'. unfold design_matrices in H'.
  apply bind_ok in H' as (m & Hm & _). exists m. split; [exact Hm|].
  eapply design_matrices_shape; [exact Hm|exact Hwf|apply scalar_extras_shape; exact Hex| |exact H].
  eapply describe_groups_nonempty; exact Hm.
Qed.

(** [build_design] (the entry point the correspondence runs): whenever it returns a design for a
    frame whose columns all have the same length, the design has the row count the policy
    retains, its names are pairwise distinct, and indexing its matrices by name returns the
    terms' own rows ([design_row_counts], [design_common_index], [design_group_index]). *)
Theorem build_design_containers ksqrt formula fr na extra ds :
  build_design ksqrt formula fr na extra = Ok ds ->
  exists e m f n,
    parse_string formula = Ok e /\ describe e = Ok m /\ dec_frame fr = Some f /\
    (frame_wf f -> ds_nrows ds = retained f m n /\ design_shape ds).
Proof.
  unfold build_design. intros H. apply bind_ok in H as (e & He & H).
  destruct (dec_frame fr) as [f|] eqn:Ef; [|discriminate H].
  destruct na as [nas|]; [|discriminate H]. destruct (dec_na nas) as [n|]; [|discriminate H].
  destruct (pass_keeps_missing_level e f n); [discriminate H|].
  pose proof H as H'. unfold design_matrices in H'. apply bind_ok in H' as (m & Hm & _).
  exists e, m, f, n. split; [exact He|]. split; [exact Hm|]. split; [reflexivity|]. intros Hwf.
  destruct (design_matrices_containers _ _ _ _ _ Hwf (dec_extra_scalar_extras extra ksqrt) H)
    as (m' & Hm' & N & S). assert (m' = m) by congruence. subst m'. split; assumption.
Qed.

(* ------------------------------------------------------------------------------------------ *)
(** * 10. The matrices computed on new data *)

Lemma new_categoric_shape mode d xs rows w :
  dcomp_ok d -> new_categoric mode d xs = Ok (rows, w) ->
  List.length rows = List.length xs /\ regular_rows rows.
Proof.
  intros Hok H. unfold new_categoric in H. destruct (dc_contrast d) as [cm|] eqn:E; [|discriminate H].
  destruct (Hok cm E) as (enc & spans & lv & Hc).
  assert (G : forall codes,
             List.length (code_rows (cmatrix cm) (contrast_width cm) codes) = List.length codes /\
             regular_rows (code_rows (cmatrix cm) (contrast_width cm) codes)).
  { intros codes. split; [apply code_rows_length|]. rewrite code_rows_map.
    apply (regular_map _ (contrast_width cm)). intros k. eapply code_row_width'; exact Hc. }
  cbv zeta in H. rewrite <- (level_codes_length (dc_levels d) xs).
  destruct (negb _); [injection H as <- _; apply G|].
  destruct mode; try discriminate H; injection H as <- _; apply G.
Qed.

Lemma series_rows_shape (xs : list cell) n :
  List.length xs = n -> List.length (map (fun x => [x]) xs) = n /\ regular_rows (map (fun x => [x]) xs).
Proof. intros H. rewrite map_length. split; [exact H|]. apply (regular_map _ 1). reflexivity. Qed.

Lemma repeat_rows_shape (r : list cell) n : List.length (repeat r n) = n /\ regular_rows (repeat r n).
Proof.
  split; [apply repeat_length|]. exists (List.length r). apply Forall_forall. intros x Hx.
  apply repeat_spec in Hx. subst. reflexivity.
Qed.

(** One component on new data: as many rows as the new frame has, all of one width. *)
Theorem new_comp_shape cx mode data n d rows w :
  rect n data -> frame_rows data = n -> extras_shape n cx -> dcomp_ok d ->
  new_comp cx mode data d = Ok (rows, w) -> List.length rows = n /\ regular_rows rows.
Proof.
  intros HD Hn Hex Hok H. unfold new_comp in H. cbv zeta in H.
  assert (Cat : forall v, vshape n v ->
                (do nd <- categoric_data v; new_categoric mode d (snd nd)) = Ok (rows, w) ->
                List.length rows = n /\ regular_rows rows).
  { intros v Hv Hc. apply bind_ok in Hc as (nd & Hnd & Hc).
    destruct (new_categoric_shape _ _ _ _ _ Hok Hc) as [L R]. split; [|exact R].
    rewrite L. eapply categoric_data_shape; eassumption. }
  assert (Ev : forall st r, eval_lazy (ECtx data (d_extra cx) (d_sqrt cx) false) st
                              match tc_src (dc_t d) with CCall lz => lz | _ => LzVar "" end = Ok r ->
                            vshape n (fst (fst r))).
  { intros st [[v st1] rec] Hr. eapply (eval_lazy_shape data n HD (d_extra cx) Hex (d_sqrt cx) false). exact Hr. }
  destruct (tc_src (dc_t d)) as [[name|lit] lvl|lz].
  - destruct (assoc name data) as [col|] eqn:E; [|discriminate H].
    pose proof (col_value_vshape n data name col HD (assoc_In _ _ _ E)) as Hv.
    destruct (tc_kind (dc_t d)); try (apply (Cat _ Hv H)).
    destruct col as [i xs|o xs]; [|discriminate H]. injection H as <- _. apply series_rows_shape. exact Hv.
  - discriminate H.
  - destruct (tc_kind (dc_t d)).
    + apply bind_ok in H as (r & Hr & H). pose proof (Ev _ _ Hr) as Hv.
      destruct (fst (fst r)) as [i xs|mrows| | | | | | | | | | |]; try discriminate H; injection H as <- _.
      * apply series_rows_shape. exact Hv.
      * destruct Hv as [L R]. split; assumption.
    + apply bind_ok in H as (r & Hr & H). exact (Cat _ (Ev _ _ Hr) H).
    + assert (G : (do r <- eval_lazy (ECtx data (d_extra cx) (d_sqrt cx) false) (tc_state (dc_t d)) lz;
                   match fst (fst r) with
                   | POffset None xs => Ok (map (fun x => [x]) xs, false)
                   | POffset (Some q) _ => Err EAssert
                   | _ => Err EAttr
                   end) = Ok (rows, w) -> List.length rows = n /\ regular_rows rows).
      { intros G. apply bind_ok in G as (r & Hr & G). pose proof (Ev _ _ Hr) as Hv.
        destruct (fst (fst r)) as [| | | | | | | | | | |[q|] xs|]; try discriminate G.
        injection G as <- _. apply series_rows_shape. exact Hv. }
      destruct (tc_value (dc_t d)) as [| | | | | | | | | | |[q|] xs|]; try (exact (G H)).
      injection H as <- _. rewrite Hn. apply repeat_rows_shape.
    + destruct (tc_value (dc_t d)) as [| | | | | | | | | | | |ss ts [q|]]; try discriminate H.
      * injection H as <- _. rewrite Hn. apply repeat_rows_shape.
      * destruct lz as [| | |callee [|a0 [|[| name| |] [|a2 rest]]] kw]; try discriminate H.
        destruct (assoc name data) as [[i xs|]|] eqn:E; try discriminate H. injection H as <- _.
        apply series_rows_shape. exact (col_value_vshape n data name _ HD (assoc_In _ _ _ E)).
Qed.

Lemma new_comps_shape cx mode data n ds parts :
  rect n data -> frame_rows data = n -> extras_shape n cx -> Forall dcomp_ok ds ->
  mapM (new_comp cx mode data) ds = Ok parts ->
  Forall (fun p => List.length (fst p) = n /\ regular_rows (fst p)) parts.
Proof.
  intros HD Hn Hex Hok H. apply mapM_ok in H.
  induction H as [|d [rows w] ds parts Hd _ IH]; constructor.
  - eapply new_comp_shape; [exact HD|exact Hn|exact Hex|exact (Forall_inv Hok)|exact Hd].
  - apply IH. exact (Forall_inv_tail Hok).
Qed.

Lemma fold_parts_shape n (p : list (list cell) * bool) rest :
  Forall (fun p => List.length (fst p) = n /\ regular_rows (fst p)) (p :: rest) ->
  List.length (fold_left rows_kron (map fst rest) (fst p)) = n /\
  regular_rows (fold_left rows_kron (map fst rest) (fst p)).
Proof.
  intros H. destruct (Forall_inv H) as [L0 R0]. pose proof (Forall_inv_tail H) as Hr. split.
  - apply fold_rows_kron_length; [exact L0|]. apply Forall_map. eapply Forall_impl; [|exact Hr].
    intros q [L _]. exact L.
  - apply fold_rows_kron_regular; [exact R0|]. apply Forall_map. eapply Forall_impl; [|exact Hr].
    intros q [_ R]. exact R.
Qed.

(** One term on new data. *)
Theorem new_term_shape cx mode data n t rows w :
  rect n data -> frame_rows data = n -> extras_shape n cx -> Forall dcomp_ok (dt_comps t) ->
  new_term cx mode data t = Ok (rows, w) -> List.length rows = n /\ regular_rows rows.
Proof.
  intros HD Hn Hex Hok H. unfold new_term in H.
  destruct (String.eqb (dt_kind t) "intercept").
  - injection H as <- _. rewrite Hn. apply repeat_rows_shape.
  - apply bind_ok in H as (parts & Hp & H). destruct parts as [|p rest]; [discriminate H|].
    injection H as <- _. apply fold_parts_shape. eapply new_comps_shape; eassumption.
Qed.

Lemma extend_zero_rows_shape j n :
  List.length j = n -> regular_rows j ->
  List.length (extend_zero_rows j) = n /\ regular_rows (extend_zero_rows j).
Proof.
  intros L (w & Hw). unfold extend_zero_rows. destruct (existsb _ _); [|split; [exact L|exists w; exact Hw]].
  split; [rewrite zip_with_length, map_length; lia|].
  exists (w + 1). apply Forall_forall. intros r Hr. apply in_zip_with in Hr as (x & z & Hx & _ & ->).
  rewrite app_length. rewrite Forall_forall in Hw. rewrite (Hw x Hx). reflexivity.
Qed.

(** One group-specific term on new data, widened or not by the "new group" column. *)
Theorem new_gterm_shape cx mode data n g rows w :
  rect n data -> frame_rows data = n -> extras_shape n cx ->
  Forall dcomp_ok (dt_comps (dg_expr g)) -> Forall dcomp_ok (dg_factor g) ->
  new_gterm cx mode data g = Ok (rows, w) -> List.length rows = n /\ regular_rows rows.
Proof.
  intros HD Hn Hex Hoe Hof H. rewrite new_gterm_unfold in H.
  apply bind_ok in H as ([xr xw] & Hx & H). apply bind_ok in H as (fparts & Hf & H).
  destruct fparts as [|p rest]; [discriminate H|]. injection H as <- _. cbn [fst].
  destruct (new_term_shape _ _ _ _ _ _ _ HD Hn Hex Hoe Hx) as [Lx Rx].
  destruct (fold_parts_shape n p rest (new_comps_shape _ _ _ _ _ _ HD Hn Hex Hof Hf)) as [Lj Rj].
  destruct (extend_zero_rows_shape _ n Lj Rj) as [Le Re].
  split; [rewrite rows_kron_length; lia|apply rows_kron_regular; assumption].
Qed.

Lemma parts_blocks n (parts : list (list (list cell) * bool)) :
  Forall (fun p => List.length (fst p) = n /\ regular_rows (fst p)) parts ->
  Forall2 (block_shape n) (map fst parts) (map (fun p => width (fst p)) parts).
Proof.
  intros H. rewrite <- (map_map fst width). apply block_shapes_width; apply Forall_map;
    (eapply Forall_impl; [|exact H]); intros p [L R]; assumption.
Qed.

(* the slices of the matrix computed on new data, from the widths of the new blocks *)
Definition new_slices (names : list string) (parts : list (list (list cell) * bool)) :=
  slices_of names (map (fun p => width (fst p)) parts).

(** The common matrix on new data: one row per new observation, and indexing it by a term name
    (slices recomputed from the new blocks) returns what that term evaluates to on the new data. *)
Theorem new_common_index cx mode ds data r :
  design_shape ds -> frame_wf data -> extras_shape (frame_rows data) cx ->
  new_common cx mode ds data = Ok r ->
  exists parts,
    mapM (new_term cx mode data) (ds_common ds) = Ok parts /\
    List.length (nr_rows r) = frame_rows data /\
    Forall (fun p => List.length (fst p) = frame_rows data /\ regular_rows (fst p)) parts /\
    forall j t p, nth_error (ds_common ds) j = Some t -> nth_error parts j = Some p ->
      index_by_name (dt_name t) (new_slices (map dt_name (ds_common ds)) parts) (nr_rows r) = Some (fst p).
Proof.
  intros [Hc _ _ Hnd _] Hwf Hex H. unfold new_common in H. apply bind_ok in H as (parts & Hp & H).
  injection H as <-. cbn [nr_rows]. exists parts. split; [exact Hp|].
  set (n := frame_rows data) in *.
  assert (Hsh : Forall (fun p => List.length (fst p) = n /\ regular_rows (fst p)) parts).
  { pose proof Hp as Hp'. apply mapM_ok in Hp'. clear -Hp' Hc Hwf Hex.
    induction Hp' as [|t [rows w] ts parts Ht _ IH]; constructor.
    - destruct (Forall_inv Hc) as (_ & _ & K). eapply new_term_shape; [exact Hwf|reflexivity|exact Hex|exact K|exact Ht].
    - apply IH. exact (Forall_inv_tail Hc). }
  pose proof (parts_blocks n parts Hsh) as Hb.
  split; [apply hstack_length; eapply blocks_lengths; exact Hb|]. split; [exact Hsh|].
  intros j t p Hj Hpj. unfold new_slices. apply (index_by_name_hstack _ _ _ _ j).
  - exact Hb.
  - rewrite !map_length. symmetry. eapply mapM_length; exact Hp.
  - exact Hnd.
  - apply map_nth_error. exact Hj.
  - apply map_nth_error. exact Hpj.
Qed.

(** CommonEffectsMatrix.evaluate_new_data keeps the TRAINING slices: they designate the new blocks
    exactly when every new block is as wide as the training block of its term. *)
Corollary new_common_index_training cx mode ds data r parts :
  design_shape ds -> frame_wf data -> extras_shape (frame_rows data) cx ->
  new_common cx mode ds data = Ok r ->
  mapM (new_term cx mode data) (ds_common ds) = Ok parts ->
  map (fun p => width (fst p)) parts = map (fun t => width (dt_rows t)) (ds_common ds) ->
  forall j t p, nth_error (ds_common ds) j = Some t -> nth_error parts j = Some p ->
    index_by_name (dt_name t) (common_slices ds) (nr_rows r) = Some (fst p).
Proof.
  intros Hs Hwf Hex H Hp Hw j t p Hj Hpj.
  destruct (new_common_index _ _ _ _ _ Hs Hwf Hex H) as (parts' & Hp' & _ & _ & Hidx).
  assert (parts' = parts) by congruence. subst parts'.
  unfold common_slices. rewrite <- Hw. exact (Hidx j t p Hj Hpj).
Qed.

(** The group matrix on new data, with the slices [new_group] reports: indexing by the name of a
    group-specific term returns what the term evaluates to on the new data -- the widened block
    when a new group appeared. *)
Theorem new_group_index cx mode ds data ng :
  design_shape ds -> frame_wf data -> extras_shape (frame_rows data) cx ->
  new_group cx mode ds data = Ok ng ->
  exists parts,
    mapM (new_gterm cx mode data) (ds_group ds) = Ok parts /\
    List.length (ng_rows ng) = frame_rows data /\
    Forall (fun p => List.length (fst p) = frame_rows data /\ regular_rows (fst p)) parts /\
    ng_slices ng = new_slices (map dg_name (ds_group ds)) parts /\
    forall j g p, nth_error (ds_group ds) j = Some g -> nth_error parts j = Some p ->
      index_by_name (dg_name g) (ng_slices ng) (ng_rows ng) = Some (fst p).
Proof.
  intros [_ Hg _ _ Hnd] Hwf Hex H.
  destruct (new_group_slices _ _ _ _ _ H) as (parts & Hp & Hrows & Hsl).
  exists parts. split; [exact Hp|]. rewrite Hrows, Hsl. set (n := frame_rows data) in *.
  assert (Hsh : Forall (fun p => List.length (fst p) = n /\ regular_rows (fst p)) parts).
  { pose proof Hp as Hp'. apply mapM_ok in Hp'. clear -Hp' Hg Hwf Hex.
    induction Hp' as [|g [rows w] gs parts Hgt _ IH]; constructor.
    - destruct (Forall_inv Hg) as (_ & _ & Ke & Kf).
      eapply new_gterm_shape; [exact Hwf|reflexivity|exact Hex|exact Ke|exact Kf|exact Hgt].
    - apply IH. exact (Forall_inv_tail Hg). }
  pose proof (parts_blocks n parts Hsh) as Hb.
  split; [apply hstack_length; eapply blocks_lengths; exact Hb|]. split; [exact Hsh|].
  split; [reflexivity|].
  intros j g p Hj Hpj. apply (index_by_name_hstack _ _ _ _ j).
  - exact Hb.
  - rewrite !map_length. symmetry. eapply mapM_length; exact Hp.
  - exact Hnd.
  - apply map_nth_error. exact Hj.
  - apply map_nth_error. exact Hpj.
Qed.

(** Unknown names are refused by the new containers too. *)
Theorem new_group_unknown cx mode ds data ng nm :
  new_group cx mode ds data = Ok ng -> ~ In nm (map dg_name (ds_group ds)) ->
  index_by_name nm (ng_slices ng) (ng_rows ng) = None.
Proof.
  intros H Hn. destruct (new_group_slices _ _ _ _ _ H) as (parts & Hp & _ & ->).
  apply index_by_name_unknown; [|exact Hn]. rewrite !map_length. symmetry. eapply mapM_length; exact Hp.
Qed.

(* ------------------------------------------------------------------------------------------ *)
(** * 11. New data: a numeric call keeps its width (so the training slices stay right) *)

Definition rows_width (w : nat) (rows : list (list cell)) : Prop :=
  Forall (fun r => List.length r = w) rows.

Definition nomat (v : pyval) : Prop := match v with PMatrix _ => False | _ => True end.

(* two values of the same call site: both matrices of one width, or neither a matrix *)
Definition wrel (v v' : pyval) : Prop :=
  match v, v' with
  | PMatrix rows, PMatrix rows' => exists w, rows_width w rows /\ rows_width w rows'
  | PMatrix _, _ => False
  | _, PMatrix _ => False
  | _, _ => True
  end.

Lemma wrel_nomat v v' : nomat v -> nomat v' -> wrel v v'.
Proof. destruct v; destruct v'; simpl; tauto. Qed.

Definition bs_width (p : Spline.bs_params) : nat :=
  if Spline.bs_intercept p
  then List.length (Spline.bs_knots p) - (Spline.bs_degree p + 1)
  else List.length (Spline.bs_knots p) - (Spline.bs_degree p + 1) - 1.

Lemma bs_apply_width p l rows :
  Spline.bs_apply p l = Ok rows -> Forall (fun r => List.length r = bs_width p) rows.
Proof.
  unfold Spline.bs_apply. intros H.
  set (f := fun x : Qc => let r := Spline.bs_row (Spline.bs_knots p) (Spline.bs_degree p) x in
                          if Spline.bs_intercept p then r else tl r) in *.
  assert (E : rows = map f l) by (destruct l; [discriminate H|injection H as <-; reflexivity]).
  subst rows. apply Forall_map. apply Forall_forall. intros x _. unfold f, bs_width. cbv zeta.
  destruct (Spline.bs_intercept p); [apply bs_row_length|].
  pose proof (bs_row_length (Spline.bs_knots p) (Spline.bs_degree p) x) as L.
  destruct (Spline.bs_row (Spline.bs_knots p) (Spline.bs_degree p) x); simpl in *; lia.
Qed.

Definition poly_width (raw : bool) (deg : nat) (p : Poly.poly_params) : nat :=
  if raw then deg
  else Nat.min (Nat.min (List.length (Poly.poly_alpha p)) (List.length (Poly.poly_norms2 p)))
               (List.length (tl (Poly.poly_norms2 p))).

Lemma poly_eval_width sq raw deg p l rows :
  Poly.poly_eval sq raw deg p l = Ok rows -> Forall (fun r => List.length r = poly_width raw deg p) rows.
Proof.
  unfold Poly.poly_eval, Poly.poly_apply, poly_width. intros H.
  destruct raw; [destruct (deg =? 0); [discriminate H|]|]; injection H as <-;
    apply Forall_map; apply Forall_forall; intros x _.
  - unfold Poly.poly_raw_row. rewrite map_length, seq_length. reflexivity.
  - unfold Poly.poly_row, Poly.poly_point. rewrite map_length, combine_length, poly_point_loop_length.
    reflexivity.
Qed.

Lemma qrows_wrel w rows rows' :
  Forall (fun r => List.length r = w) rows -> Forall (fun r => List.length r = w) rows' ->
  wrel (qrows rows) (qrows rows').
Proof.
  intros H H'. unfold qrows. simpl. exists w. unfold rows_width.
  split; apply Forall_map; [eapply Forall_impl; [|exact H]|eapply Forall_impl; [|exact H']];
    intros r Hr; rewrite map_length; exact Hr.
Qed.

(** A stateful call: the training pass leaves the state alone and records its parameters; the
    prediction pass started on those parameters consumes exactly them, records nothing, and returns
    a value of the same width -- whatever its arguments are. *)
Lemma call_stateful_rel d d' ex sq name st pos kw v st1 rec :
  call_stateful (ECtx d ex sq true) name st pos kw = Ok (v, st1, rec) ->
  st1 = st /\
  forall rest pos' kw' v' st1' rec',
    call_stateful (ECtx d' ex sq false) name (rec ++ rest) pos' kw' = Ok (v', st1', rec') ->
    st1' = rest /\ rec' = [] /\ wrel v v'.
Proof.
  intros H. destruct (String.eqb name "bs" || String.eqb name "poly") eqn:Esp.
  - assert (Hin : In name spline_callees).
    { apply orb_true_iff in Esp as [E|E]; apply String.eqb_eq in E; subst; simpl; auto. }
    rewrite (call_stateful_spline _ _ _ _ _ Hin) in H.
    destruct (call_spline_fit_inv _ _ _ _ _ _ _ _ _ _ Hin H)
      as (_ & b & i & xs & l & rows & _ & _ & _ & -> & -> & Hcase).
    split; [reflexivity|]. intros rest pos' kw' v' st1' rec' H'.
    rewrite (call_stateful_spline _ _ _ _ _ Hin), (call_spline_predict _ _ _ _ _ _ _ Hin) in H'.
    destruct (negb (check_kw _ kw')); [discriminate H'|]. apply bind_ok in H' as (b' & _ & H').
    destruct (arg "x" b') as [i' xs'| | | | | | | | | | | |]; try discriminate H'.
    destruct (all_some xs') as [l'|]; [|discriminate H'].
    destruct Hcase as [[-> (p & -> & Hr)]|[-> (raw & deg & p & -> & Hr)]]; cbn [app String.eqb Ascii.eqb Bool.eqb] in H'.
    + apply bind_ok in H' as (rows' & Hr' & H'). injection H' as <- <- <-.
      split; [reflexivity|]. split; [reflexivity|].
      apply (qrows_wrel (bs_width p)); eapply bs_apply_width; eassumption.
    + apply bind_ok in H' as (rows' & Hr' & H'). injection H' as <- <- <-.
      split; [reflexivity|]. split; [reflexivity|].
      apply (qrows_wrel (poly_width raw deg p)); eapply poly_eval_width; eassumption.
  - unfold call_stateful in H. rewrite Esp in H. cbn [e_fit e_sqrt] in H.
    destruct (negb (check_kw ["x"] kw)); [discriminate H|]. apply bind_ok in H as (b & _ & H).
    destruct (arg "x" b) as [i xs| | | | | | | | | | | |]; try discriminate H.
    assert (P : forall rest pos' kw' v' st1' rec' (par : tparam),
               (if String.eqb name "center" then exists m, par = TPCenter m else exists m sd, par = TPScale m sd) ->
               call_stateful (ECtx d' ex sq false) name (par :: rest) pos' kw' = Ok (v', st1', rec') ->
               st1' = rest /\ rec' = [] /\ nomat v').
    { intros rest pos' kw' v' st1' rec' par Hpar H'. unfold call_stateful in H'. rewrite Esp in H'.
      cbn [e_fit e_sqrt] in H'.
      destruct (negb (check_kw ["x"] kw')); [discriminate H'|]. apply bind_ok in H' as (b' & _ & H').
      destruct (arg "x" b') as [i' xs'| | | | | | | | | | | |]; try discriminate H'.
      destruct (String.eqb name "center").
      - destruct Hpar as (m & ->). injection H' as <- <- <-. repeat split.
      - destruct Hpar as (m & sd & ->). cbv zeta in H'. apply bind_ok in H' as (v0 & Hv & H').
        injection H' as <- <- <-. apply bind_ok in Hv as (l0 & _ & Hv). injection Hv as <-. repeat split. }
    destruct (String.eqb name "center") eqn:Ec.
    + injection H as <- <- <-. split; [reflexivity|]. intros rest pos' kw' v' st1' rec' H'.
      destruct (P rest pos' kw' v' st1' rec' _ (ex_intro _ _ eq_refl) H') as (A & B & C).
      split; [exact A|]. split; [exact B|]. apply wrel_nomat; [exact I|exact C].
    + cbv zeta in H. apply bind_ok in H as (v0 & Hv & H). injection H as <- <- <-.
      apply bind_ok in Hv as (l0 & _ & Hv). injection Hv as <-.
      split; [reflexivity|]. intros rest pos' kw' v' st1' rec' H'.
      destruct (P rest pos' kw' v' st1' rec' _ (ex_intro _ _ (ex_intro _ _ eq_refl)) H') as (A & B & C).
      split; [exact A|]. split; [exact B|]. apply wrel_nomat; [exact I|exact C].
Qed.

(* a plain function returns a matrix only when it is I(...) handing its argument through *)
Lemma call_function_nomat cx name pos kw v :
  String.eqb name "I" = false -> call_function cx name pos kw = Ok v -> nomat v.
Proof.
  intros HI H. rewrite call_function_unfold, HI in H.
  repeat match type of H with
         | (if ?c then _ else _) = Ok _ => destruct c
         end; try discriminate H;
    apply with_sig_inv in H as (b & _ & H).
  - unfold k_Treatment in H. apply bind_ok in H as (r & _ & H). injection H as <-. exact I.
  - unfold k_Sum in H. apply bind_ok in H as (r & _ & H). injection H as <-. exact I.
  - unfold k_C in H. apply bind_ok in H as (c & _ & H). apply bind_ok in H as (lv & _ & H).
    assert (G : forall num o d c lv, mk_box num o d c lv = Ok v -> nomat v).
    { intros num o d c0 lv0 Hm. unfold mk_box in Hm.
      destruct (match o with Some cats => match lv0 with None => Some cats | Some _ => lv0 end | None => lv0 end);
        [destruct (same_set _ _); [|discriminate Hm]|]; injection Hm as <-; exact I. }
    destruct (arg "data" b); first [eapply G; exact H | apply bind_ok in H as (s0 & _ & H); eapply G; exact H].
  - unfold k_S in H. apply bind_ok in H as (o & _ & H). apply bind_ok in H as (lv & _ & H).
    apply bind_ok in H as (s & _ & H). unfold mk_box in H.
    destruct (match snd (fst s) with Some cats => match lv with None => Some cats | Some _ => lv end | None => lv end);
      [destruct (same_set _ _); [|discriminate H]|]; injection H as <-; exact I.
  - unfold k_T in H. apply bind_ok in H as (o & _ & H). apply bind_ok in H as (lv & _ & H).
    apply bind_ok in H as (s & _ & H). unfold mk_box in H.
    destruct (match snd (fst s) with Some cats => match lv with None => Some cats | Some _ => lv end | None => lv end);
      [destruct (same_set _ _); [|discriminate H]|]; injection H as <-; exact I.
  - unfold k_binary in H. destruct (arg "x" b) as [i xs|rows|o xs| | | | | | | | | |]; try discriminate H.
    + destruct (all_some xs); [|discriminate H]. apply bind_ok in H as (succ & _ & H).
      cbv zeta in H. destruct (existsb _ _); [|discriminate H]. injection H as <-. exact I.
    + apply bind_ok in H as (succ & _ & H).
      cbv zeta in H. destruct (existsb _ _); [|discriminate H]. injection H as <-. exact I.
  - unfold k_offset in H. destruct (arg "x" b); try discriminate H; injection H as <-; exact I.
  - unfold k_prop in H. destruct (arg "successes" b) as [i ss| | | | | | | | | | | |]; try discriminate H.
    cbv zeta in H. apply bind_ok in H as (trs & _ & H).
    destruct (all_some ss); [|discriminate H]. destruct (all_some (fst trs)); [|discriminate H].
    repeat match type of H with (if ?c then _ else _) = Ok _ => destruct c; try discriminate H end.
    injection H as <-. exact I.
Qed.

Definition kwrel (kw kw' : list (string * pyval)) : Prop :=
  Forall2 (fun a b => fst a = fst b /\ wrel (snd a) (snd b)) kw kw'.

Lemma kwrel_assoc k kw kw' :
  kwrel kw kw' ->
  match assoc k kw, assoc k kw' with
  | Some v, Some v' => wrel v v'
  | None, None => True
  | _, _ => False
  end.
Proof.
  induction 1 as [|[k1 v1] [k2 v2] kw kw' [Hk Hv] _ IH]; simpl in *; [exact I|]. subst k2.
  destruct (String.eqb k k1); [exact Hv|exact IH].
Qed.

Lemma bind_x_arg pos kw b :
  bind_args ["x"] pos kw = Ok b ->
  arg "x" b = match pos with
              | v0 :: _ => v0
              | [] => match assoc "x" kw with Some v => v | None => PNoneV end
              end.
Proof.
  destruct pos as [|v0 vs]; simpl; intros H.
  - injection H as <-. unfold arg. destruct (assoc "x" kw) as [v|]; simpl; reflexivity.
  - destruct (existsb _ kw); [discriminate H|]. apply bind_ok in H as (r & _ & H). injection H as <-.
    unfold arg. simpl. reflexivity.
Qed.

Lemma call_function_rel cx cx' name pos kw pos' kw' v v' :
  Forall2 wrel pos pos' -> kwrel kw kw' ->
  call_function cx name pos kw = Ok v -> call_function cx' name pos' kw' = Ok v' -> wrel v v'.
Proof.
  intros Hp Hk H H'. destruct (String.eqb name "I") eqn:EI.
  - rewrite call_function_unfold, EI in H, H'.
    apply with_sig_inv in H as (b & Hb & H). apply with_sig_inv in H' as (b' & Hb' & H').
    unfold k_I in H, H'. injection H as <-. injection H' as <-.
    rewrite (bind_x_arg _ _ _ Hb), (bind_x_arg _ _ _ Hb').
    destruct Hp as [|v0 v0' vs vs' H0 _]; [|exact H0].
    pose proof (kwrel_assoc "x" _ _ Hk) as Ha.
    destruct (assoc "x" kw); destruct (assoc "x" kw'); try contradiction; [exact Ha|exact I].
  - apply wrel_nomat; eapply call_function_nomat; eassumption.
Qed.

Section Rel.
  Variables D D' : frame.
  Variable ex : list (string * pyval).
  Hypothesis ex_scalar : forall k v, assoc k ex = Some v -> is_scalar v = true.
  Variable sq : Qc -> Qc.

  Let cxF := ECtx D ex sq true.
  Let cxP := ECtx D' ex sq false.

  (* the training pass at a call tree, then the prediction pass started on what it recorded *)
  Definition rel_spec (l : lazy) : Prop :=
    forall st v st1 rec, eval_lazy cxF st l = Ok (v, st1, rec) ->
      st1 = st /\
      forall rest v' st1' rec', eval_lazy cxP (rec ++ rest) l = Ok (v', st1', rec') ->
        st1' = rest /\ rec' = [] /\ wrel v v'.

  Lemma lookup_name_nomat fr fit name v :
    lookup_name (ECtx fr ex sq fit) name = Ok v -> nomat v.
  Proof.
    unfold lookup_name. cbn [e_data e_extra]. destruct (assoc name fr) as [col|].
    - intros H. injection H as <-. destruct col; exact I.
    - destruct (builtin_value name) as [bv|] eqn:Eb.
      + intros H. injection H as <-. unfold builtin_value in Eb.
        destruct (String.eqb name "Treatment"); [injection Eb as <-; exact I|].
        destruct (String.eqb name "Sum"); [injection Eb as <-; exact I|discriminate Eb].
      + destruct (_ || _); [discriminate|]. destruct (assoc name ex) as [xv|] eqn:Ex; [|discriminate].
        intros H. injection H as <-. apply ex_scalar in Ex. destruct xv; try discriminate Ex; exact I.
  Qed.

  Lemma apply_unop_nomat sym a v : apply_unop sym a = Ok v -> nomat a -> nomat v.
  Proof.
    unfold apply_unop. destruct (String.eqb sym "+"); [destruct a; try discriminate; intros H; injection H as <-; auto|].
    destruct (String.eqb sym "-"); [|discriminate]. destruct a; try discriminate; intros H; injection H as <-; auto.
  Qed.

  Lemma apply_unop_not_matrix sym a v : apply_unop sym a = Ok v -> nomat v.
  Proof.
    unfold apply_unop. destruct (String.eqb sym "+"); [destruct a; try discriminate; intros H; injection H as <-; exact I|].
    destruct (String.eqb sym "-"); [|discriminate]. destruct a; try discriminate; intros H; injection H as <-; exact I.
  Qed.

  Lemma apply_binop_not_matrix sym a b v : Eval.apply_binop sym a b = Ok v -> nomat v.
  Proof.
    intros H. destruct a; destruct b; unfold Eval.apply_binop in H; try discriminate H.
    - apply bind_ok in H as (l & _ & H). apply bind_ok in H as (t & _ & H). injection H as <-. exact I.
    - apply bind_ok in H as (l & _ & H). apply bind_ok in H as (t & _ & H). injection H as <-. exact I.
    - apply bind_ok in H as (l & _ & H). apply bind_ok in H as (t & _ & H). injection H as <-. exact I.
    - apply bind_ok in H as (r & _ & H). destruct (snd r); [|discriminate H]. injection H as <-. exact I.
  Qed.

  Lemma eval_args_rel args : Forall rel_spec args ->
    forall st vals rec0 vals1 st1 rec1,
      eval_args (eval_lazy cxF) args st vals rec0 = Ok (vals1, st1, rec1) ->
      st1 = st /\ exists va recA, vals1 = vals ++ va /\ rec1 = rec0 ++ recA /\
        forall rest vals' rec0' r',
          eval_args (eval_lazy cxP) args (recA ++ rest) vals' rec0' = Ok r' ->
          exists va', fst (fst r') = vals' ++ va' /\ snd (fst r') = rest /\ snd r' = rec0' /\
                      Forall2 wrel va va'.
  Proof.
    induction 1 as [|a args Ha _ IH]; intros st vals rec0 vals1 st1 rec1 H; simpl in H.
    - injection H as <- <- <-. split; [reflexivity|]. exists [], []. rewrite !app_nil_r.
      split; [reflexivity|]. split; [reflexivity|]. intros rest vals' rec0' r' H'. simpl in H'.
      injection H' as <-. exists []. rewrite app_nil_r. simpl. repeat split. constructor.
    - apply bind_ok in H as ([[v sa] ra] & Ea & H). cbn [fst snd] in H.
      destruct (Ha _ _ _ _ Ea) as [-> Hpa].
      destruct (IH _ _ _ _ _ _ H) as [-> (va2 & recA2 & -> & -> & Hp2)].
      split; [reflexivity|]. exists (v :: va2), (ra ++ recA2).
      split; [rewrite <- app_assoc; reflexivity|]. split; [rewrite <- app_assoc; reflexivity|].
      intros rest vals' rec0' r' H'. simpl in H'. apply bind_ok in H' as ([[v' sa'] ra'] & Ea' & H').
      cbn [fst snd] in H'. rewrite <- app_assoc in Ea'.
      destruct (Hpa _ _ _ _ Ea') as (-> & -> & Hw). rewrite app_nil_r in H'.
      destruct (Hp2 _ _ _ _ H') as (va2' & E1 & E2 & E3 & Hw2).
      exists (v' :: va2'). split; [rewrite E1, <- app_assoc; reflexivity|]. split; [exact E2|].
      split; [exact E3|]. constructor; assumption.
  Qed.

  Lemma eval_kwargs_rel (kws : list (string * lazy)) : Forall (fun kv => rel_spec (snd kv)) kws ->
    forall st vals rec0 vals1 st1 rec1,
      eval_kwargs (eval_lazy cxF) kws st vals rec0 = Ok (vals1, st1, rec1) ->
      st1 = st /\ exists va recA, vals1 = vals ++ va /\ rec1 = rec0 ++ recA /\
        forall rest vals' rec0' r',
          eval_kwargs (eval_lazy cxP) kws (recA ++ rest) vals' rec0' = Ok r' ->
          exists va', fst (fst r') = vals' ++ va' /\ snd (fst r') = rest /\ snd r' = rec0' /\
                      kwrel va va'.
  Proof.
    induction 1 as [|[k a] kws Ha _ IH]; intros st vals rec0 vals1 st1 rec1 H; simpl in H.
    - injection H as <- <- <-. split; [reflexivity|]. exists [], []. rewrite !app_nil_r.
      split; [reflexivity|]. split; [reflexivity|]. intros rest vals' rec0' r' H'. simpl in H'.
      injection H' as <-. exists []. rewrite app_nil_r. simpl. repeat split. constructor.
    - apply bind_ok in H as ([[v sa] ra] & Ea & H). cbn [fst snd] in H, Ha.
      destruct (Ha _ _ _ _ Ea) as [-> Hpa].
      destruct (IH _ _ _ _ _ _ H) as [-> (va2 & recA2 & -> & -> & Hp2)].
      split; [reflexivity|]. exists ((k, v) :: va2), (ra ++ recA2).
      split; [rewrite <- app_assoc; reflexivity|]. split; [rewrite <- app_assoc; reflexivity|].
      intros rest vals' rec0' r' H'. simpl in H'. apply bind_ok in H' as ([[v' sa'] ra'] & Ea' & H').
      cbn [fst snd] in H'. rewrite <- app_assoc in Ea'.
      destruct (Hpa _ _ _ _ Ea') as (-> & -> & Hw). rewrite app_nil_r in H'.
      destruct (Hp2 _ _ _ _ H') as (va2' & E1 & E2 & E3 & Hw2).
      exists ((k, v') :: va2'). split; [rewrite E1, <- app_assoc; reflexivity|]. split; [exact E2|].
      split; [exact E3|]. constructor; [split; [reflexivity|exact Hw]|exact Hw2].
  Qed.

  (** The training pass of any call tree against the prediction pass of the same tree on another
      frame: the recorded parameters are consumed exactly, and the value keeps its width. *)
  Theorem eval_lazy_rel l : rel_spec l.
  Proof.
    induction l as [sym args IH|name|lit lx|c args kw IHa IHk] using lazy_ind'; intros st v st1 rec H.
    - destruct args as [|a [|b [|c r]]]; try discriminate H.
      + inversion IH as [|? ? Ha _]; subst. cbn [eval_lazy] in H.
        apply bind_ok in H as ([[va sa] ra] & Ea & H). apply bind_ok in H as (v0 & Hv & H).
        cbn [fst snd] in *. injection H as <- <- <-. destruct (Ha _ _ _ _ Ea) as [-> Hpa].
        split; [reflexivity|]. intros rest v' st1' rec' H'. cbn [eval_lazy] in H'.
        apply bind_ok in H' as ([[va' sa'] ra'] & Ea' & H'). apply bind_ok in H' as (v0' & Hv' & H').
        cbn [fst snd] in *. injection H' as <- <- <-. destruct (Hpa _ _ _ _ Ea') as (-> & -> & _).
        split; [reflexivity|]. split; [reflexivity|].
        apply wrel_nomat; eapply apply_unop_not_matrix; eassumption.
      + inversion IH as [|? ? Ha IH']; subst. inversion IH' as [|? ? Hb _]; subst. cbn [eval_lazy] in H.
        apply bind_ok in H as ([[va sa] ra] & Ea & H). apply bind_ok in H as ([[vb sb] rb] & Eb & H).
        apply bind_ok in H as (v0 & Hv & H). cbn [fst snd] in *. injection H as <- <- <-.
        destruct (Ha _ _ _ _ Ea) as [-> Hpa]. destruct (Hb _ _ _ _ Eb) as [-> Hpb].
        split; [reflexivity|]. intros rest v' st1' rec' H'. cbn [eval_lazy] in H'.
        apply bind_ok in H' as ([[va' sa'] ra'] & Ea' & H'). apply bind_ok in H' as ([[vb' sb'] rb'] & Eb' & H').
        apply bind_ok in H' as (v0' & Hv' & H'). cbn [fst snd] in *. injection H' as <- <- <-.
        rewrite <- app_assoc in Ea'. destruct (Hpa _ _ _ _ Ea') as (-> & -> & _).
        destruct (Hpb _ _ _ _ Eb') as (-> & -> & _).
        split; [reflexivity|]. split; [reflexivity|].
        apply wrel_nomat; eapply apply_binop_not_matrix; eassumption.
    - cbn [eval_lazy] in H. apply bind_ok in H as (v0 & Hv & H). injection H as <- <- <-.
      split; [reflexivity|]. intros rest v' st1' rec' H'. cbn [eval_lazy app] in H'.
      apply bind_ok in H' as (v0' & Hv' & H'). injection H' as <- <- <-.
      split; [reflexivity|]. split; [reflexivity|].
      apply wrel_nomat; eapply lookup_name_nomat; eassumption.
    - cbn [eval_lazy] in H. injection H as <- <- <-. split; [reflexivity|].
      intros rest v' st1' rec' H'. cbn [eval_lazy app] in H'. injection H' as <- <- <-.
      split; [reflexivity|]. split; [reflexivity|]. destruct lit; exact I.
    - rewrite eval_lazy_call in H. destruct (negb (known_callee c)) eqn:Ek.
      + cbn [e_extra cxF] in H. destruct (assoc c ex); discriminate H.
      + apply bind_ok in H as ([[pa sa] ra] & Hra & H). apply bind_ok in H as ([[pk sk] rk] & Hrk & H).
        cbn [fst snd] in *.
        destruct (eval_args_rel args IHa _ _ _ _ _ _ Hra) as [-> (va & recA & -> & -> & HpA)].
        destruct (eval_kwargs_rel kw IHk _ _ _ _ _ _ Hrk) as [-> (vk & recK & -> & -> & HpK)].
        cbn [app] in *.
        destruct (existsb (String.eqb c) stateful_names) eqn:Es.
        * apply bind_ok in H as ([[v0 s0] r0] & Hr & H). cbn [fst snd] in H. injection H as <- <- <-.
          destruct (call_stateful_rel _ D' _ _ _ _ _ _ _ _ _ Hr) as [-> HpS].
          split; [reflexivity|]. intros rest v' st1' rec' H'. rewrite eval_lazy_call, Ek in H'.
          apply bind_ok in H' as (ra' & Hra' & H'). apply bind_ok in H' as (rk' & Hrk' & H').
          rewrite Es in H'. apply bind_ok in H' as ([[v0' s0'] r0'] & Hr' & H').
          cbn [fst snd] in H'. injection H' as <- <- <-.
          rewrite <- !app_assoc in Hra'.
          destruct (HpA _ _ _ _ Hra') as (va' & E1 & E2 & E3 & Hwa). rewrite E2, E3 in Hrk'.
          destruct (HpK _ _ _ _ Hrk') as (vk' & F1 & F2 & F3 & Hwk). rewrite F2 in Hr'.
          destruct (HpS _ _ _ _ _ _ Hr') as (-> & -> & Hw). rewrite F3.
          split; [reflexivity|]. split; [reflexivity|exact Hw].
        * apply bind_ok in H as (v0 & Hv & H). injection H as <- <- <-.
          split; [reflexivity|]. intros rest v' st1' rec' H'. rewrite eval_lazy_call, Ek in H'.
          apply bind_ok in H' as (ra' & Hra' & H'). apply bind_ok in H' as (rk' & Hrk' & H').
          rewrite Es in H'. apply bind_ok in H' as (v0' & Hv' & H'). injection H' as <- <- <-.
          rewrite <- !app_assoc in Hra'.
          destruct (HpA _ _ _ _ Hra') as (va' & E1 & E2 & E3 & Hwa). rewrite E2, E3 in Hrk'.
          destruct (HpK _ _ _ _ Hrk') as (vk' & F1 & F2 & F3 & Hwk).
          split; [exact F2|]. split; [exact F3|].
          rewrite E1 in Hv'. rewrite F1 in Hv'. cbn [app] in Hv'.
          eapply call_function_rel; [exact Hwa|exact Hwk|exact Hv|exact Hv'].
  Qed.
End Rel.

(** ** components *)

Lemma rows_width_map1 (xs : list cell) : rows_width 1 (map (fun x => [x]) xs).
Proof. apply Forall_map. apply Forall_forall. intros x _. reflexivity. Qed.

Lemma rows_width_repeat (r : list cell) n : rows_width (List.length r) (repeat r n).
Proof. apply Forall_forall. intros x Hx. apply repeat_spec in Hx. subst. reflexivity. Qed.

Lemma rows_width_code cm codes :
  contrast_ok cm -> rows_width (contrast_width cm) (code_rows (cmatrix cm) (contrast_width cm) codes).
Proof.
  intros (enc & spans & lv & Hc). rewrite code_rows_map. apply Forall_map. apply Forall_forall.
  intros k _. eapply code_row_width'; exact Hc.
Qed.

(* the coded rows of a categoric component, when it has a contrast *)
Definition coded (d : dcomp) : Prop :=
  match dc_contrast d with
  | Some cm => contrast_ok cm /\ exists codes, dc_rows d = code_rows (cmatrix cm) (contrast_width cm) codes
  | None => True
  end.

(* what [set_data_comp] stores, as far as widths go *)
Lemma set_data_comp_width_inv t spans n d :
  set_data_comp t spans n = Ok d ->
  dc_t d = t /\
  match tc_kind t with
  | KNumeric =>
      match tc_value t with
      | PSeries _ xs => dc_rows d = map (fun x => [x]) xs
      | PMatrix rows => dc_rows d = rows
      | _ => False
      end
  | KCategoric => coded d
  | KOffset => rows_width 1 (dc_rows d)
  | KProportion => tc_response t = true
  end.
Proof.
  intros H. unfold set_data_comp in H. unfold coded.
  destruct (tc_kind t);
    destruct (tc_value t) as [i xs|rows|o xs| | | | | | | |num bd enc lv|co xs|ss ts ct];
    cbn [categoric_data bind fst snd] in *; try discriminate H;
    try (destruct i; cbn [categoric_data bind fst snd] in H; try discriminate H);
    repeat match type of H with
           | (if negb (tc_response t) then _ else _) = Ok _ =>
               let E := fresh "Eresp" in destruct (tc_response t) eqn:E; cbn [negb] in H; try discriminate H
           | (if ?c then _ else _) = Ok _ => destruct c; try discriminate H
           | match ?x with _ => _ end = Ok _ => destruct x; try discriminate H
           | bind ?r _ = Ok _ =>
               let cm := fresh "cm" in let E := fresh "Ecode" in
               destruct r as [cm|] eqn:E; cbn [bind] in H; try discriminate H
           end;
    injection H as <-; cbn [dc_rows dc_contrast dc_t]; (split; [reflexivity|]);
    first [ reflexivity
          | exact I
          | split; [do 3 eexists; eassumption|eexists; reflexivity]
          | apply rows_width_map1
          | apply (rows_width_repeat [Some _]) ].
Qed.

Lemma set_type_comp_src cx D r c t : set_type_comp cx D r c = Ok t -> tc_src t = c.
Proof.
  destruct c as [[name|lit] lvl|lz]; simpl.
  - destruct (assoc name D); [|discriminate]. intros H. injection H as <-. reflexivity.
  - discriminate.
  - intros H. apply bind_ok in H as (x & _ & H). apply bind_ok in H as (k & _ & H).
    injection H as <-. reflexivity.
Qed.

(* a component of a common or group-specific term: typed on D (never as a response), possibly
   forced to be categoric (grouping factors) *)
Definition typed_from (cx : dctx) (D : frame) (t : tcomp) : Prop :=
  exists c t0, set_type_comp cx D false c = Ok t0 /\ (t = t0 \/ t = force_categoric t0).

Definition wsame (a b : list (list cell)) : Prop := exists w, rows_width w a /\ rows_width w b.

Lemma cat_width mode d xs rows w :
  coded d -> new_categoric mode d xs = Ok (rows, w) -> wsame (dc_rows d) rows.
Proof.
  unfold coded, new_categoric. destruct (dc_contrast d) as [cm|]; [|discriminate].
  intros (Hok & codes & ->) H. cbv zeta in H. exists (contrast_width cm).
  split; [apply rows_width_code; exact Hok|].
  destruct (negb _); [injection H as <- _; apply rows_width_code; exact Hok|].
  destruct mode; try discriminate H; injection H as <- _; apply rows_width_code; exact Hok.
Qed.

(** A component of a design trained on D, evaluated on ANY frame D': its rows are as wide as its
    training rows. *)
Theorem new_comp_width cx D D' n t spans d mode rows w :
  scalar_extras cx -> typed_from cx D t -> set_data_comp t spans n = Ok d ->
  new_comp cx mode D' d = Ok (rows, w) -> wsame (dc_rows d) rows.
Proof.
  intros Hex (c & t0 & Hty & Ht) Hd H.
  destruct (set_data_comp_width_inv _ _ _ _ Hd) as [Hdt Hinv].
  assert (Hresp : tc_response t = false).
  { destruct Ht as [->| ->]; [|cbn [force_categoric tc_response]]; eapply set_type_comp_response; exact Hty. }
  assert (Cat : coded d -> forall v, (do nd <- categoric_data v; new_categoric mode d (snd nd)) = Ok (rows, w) ->
                wsame (dc_rows d) rows).
  { intros Hc v Hb. apply bind_ok in Hb as (nd & _ & Hb). eapply cat_width; eassumption. }
  unfold new_comp in H. cbv zeta in H. rewrite Hdt in H.
  destruct c as [[name|lit] lvl|lz]; simpl in Hty.
  - (* a variable *)
    destruct (assoc name D) as [col|] eqn:E; [|discriminate Hty]. injection Hty as <-.
    destruct Ht as [->| ->]; cbn [force_categoric tc_src tc_kind tc_value tc_state] in *.
    + destruct (assoc name D') as [col'|]; [|discriminate H].
      destruct col as [i xs|o xs]; cbn [col_value] in *.
      * destruct col' as [i' xs'|]; [|discriminate H]. injection H as <- _. rewrite Hinv.
        exists 1. split; apply rows_width_map1.
      * exact (Cat Hinv _ H).
    + destruct (assoc name D') as [col'|]; [|discriminate H]. exact (Cat Hinv _ H).
  - discriminate Hty.
  - (* a call *)
    apply bind_ok in Hty as ([[v st1] rec] & Hr & Hty). apply bind_ok in Hty as (k & Hk & Hty).
    cbn [fst snd] in *. injection Hty as <-.
    destruct (eval_lazy_rel D D' (d_extra cx) Hex (d_sqrt cx) lz _ _ _ _ Hr) as [_ Hrel].
    assert (Rel : forall r', eval_lazy (ECtx D' (d_extra cx) (d_sqrt cx) false) rec lz = Ok r' -> wrel v (fst (fst r'))).
    { intros [[v' s'] r'] Hr'. rewrite <- (app_nil_r rec) in Hr'. destruct (Hrel _ _ _ _ Hr') as (_ & _ & Hw). exact Hw. }
    destruct Ht as [->| ->]; cbn [force_categoric tc_src tc_kind tc_value tc_state tc_response] in *.
    + destruct k.
      * apply bind_ok in H as (r' & Hr' & H). pose proof (Rel _ Hr') as Hw.
        destruct v as [i xs|mrows| | | | | | | | | | |]; try contradiction.
        -- destruct (fst (fst r')) as [i' xs'|mrows'| | | | | | | | | | |]; try discriminate H; try contradiction.
           injection H as <- _. rewrite Hinv. exists 1. split; apply rows_width_map1.
        -- destruct (fst (fst r')) as [i' xs'|mrows'| | | | | | | | | | |]; try discriminate H; try contradiction.
           injection H as <- _. rewrite Hinv. exact Hw.
      * apply bind_ok in H as (r' & Hr' & H). exact (Cat Hinv _ H).
      * exists 1. split; [exact Hinv|].
        assert (G : (do r <- eval_lazy (ECtx D' (d_extra cx) (d_sqrt cx) false) rec lz;
                     match fst (fst r) with
                     | POffset None xs => Ok (map (fun x => [x]) xs, false)
                     | POffset (Some q) _ => Err EAssert
                     | _ => Err EAttr
                     end) = Ok (rows, w) -> rows_width 1 rows).
        { intros G. apply bind_ok in G as (r' & _ & G).
          destruct (fst (fst r')) as [| | | | | | | | | | |[q|] xs|]; try discriminate G.
          injection G as <- _. apply rows_width_map1. }
        destruct v as [| | | | | | | | | | |[q|] xs|]; try (exact (G H)).
        injection H as <- _. apply (rows_width_repeat [Some q]).
      * congruence.
    + apply bind_ok in H as (r' & Hr' & H). exact (Cat Hinv _ H).
Qed.

(** ** terms *)

Lemma rows_kron_wsame a a' b b' : wsame a a' -> wsame b b' -> wsame (rows_kron a b) (rows_kron a' b').
Proof.
  intros (wa & Ha & Ha') (wb & Hb & Hb'). exists (wa * wb). unfold rows_width in *.
  split; apply Forall_forall; intros r Hr; apply in_zip_with in Hr as (x & y & Hx & Hy & ->);
    rewrite row_kron_length; rewrite Forall_forall in Ha, Ha', Hb, Hb'; f_equal; auto.
Qed.

Lemma fold_kron_wsame As Bs : Forall2 wsame As Bs ->
  forall a0 b0, wsame a0 b0 -> wsame (fold_left rows_kron As a0) (fold_left rows_kron Bs b0).
Proof.
  induction 1 as [|a b As Bs Hab _ IH]; intros a0 b0 H0; simpl; [exact H0|].
  apply IH. apply rows_kron_wsame; assumption.
Qed.

Theorem new_term_width cx D D' n tt s dt mode rows w :
  scalar_extras cx -> tterm_all (typed_from cx D) tt -> set_data_term n tt s = Ok dt ->
  new_term cx mode D' dt = Ok (rows, w) -> wsame (dt_rows dt) rows.
Proof.
  intros Hex Hty Hd H. destruct tt as [|name cs].
  - simpl in Hd. injection Hd as <-. unfold new_term in H. cbn [dt_kind dt_rows] in *.
    rewrite String.eqb_refl in H. injection H as <- _. exists 1.
    split; apply (rows_width_repeat [zcell 1]).
  - destruct (set_data_term_inv _ _ _ _ _ Hd) as (d0 & rest & Hds & Hcomps & Hrows & Hkind).
    unfold new_term in H. rewrite Hkind, Hcomps in H. apply bind_ok in H as (parts & Hp & H).
    destruct parts as [|p prest]; [discriminate H|]. injection H as <- _. rewrite Hrows.
    apply mapM_ok in Hds. apply mapM_ok in Hp. simpl in Hty.
    assert (G : Forall2 wsame (map dc_rows (d0 :: rest)) (map fst (p :: prest))).
    { clear -Hex Hty Hds Hp. revert Hty. generalize (p :: prest) as parts, Hp. clear Hp.
      induction Hds as [|c d cs ds Hd _ IH]; intros parts Hp Hty; inversion Hp as [|? [prows pw] ? parts' Hn Hrest]; subst;
        simpl; constructor.
      - eapply new_comp_width; [exact Hex|exact (Forall_inv Hty)|exact Hd|exact Hn].
      - apply IH; [exact Hrest|exact (Forall_inv_tail Hty)]. }
    simpl in G. inversion G as [|? ? ? ? G0 Gr]; subst. apply fold_kron_wsame; assumption.
Qed.

(** ** the design *)

Definition dterm_built (cx : dctx) (D : frame) (n : nat) (dt : dterm) : Prop :=
  exists tt s, tterm_all (typed_from cx D) tt /\ set_data_term n tt s = Ok dt.

Lemma eval_model_built cx D m ds :
  eval_model cx D m = Ok ds -> Forall (dterm_built cx D (frame_rows D)) (ds_common ds).
Proof.
  intros H. unfold eval_model in H. set (n := frame_rows D) in *.
  apply bind_ok in H as (tcs & Htcs & H). apply bind_ok in H as (tgs & _ & H).
  apply bind_ok in H as (enc1 & _ & H). apply bind_ok in H as (tcs2 & Htcs2 & H).
  apply bind_ok in H as (enc2 & _ & H). apply bind_ok in H as (dcs & Hdcs & H).
  apply bind_ok in H as (dgs & _ & H). apply bind_ok in H as (r & _ & H). injection H as <-.
  cbn [ds_common].
  assert (T1 : Forall (tterm_all (typed_from cx D)) tcs).
  { apply mapM_ok in Htcs. clear -Htcs. induction Htcs as [|c tt cms tts Hc _ IH]; constructor; [|exact IH].
    destruct c as [| |t]; simpl in Hc; [injection Hc as <-; exact I|discriminate|].
    unfold set_type_term in Hc. apply bind_ok in Hc as (cs & Hcs & Hc). injection Hc as <-. simpl.
    apply mapM_ok in Hcs. clear -Hcs. induction Hcs as [|c tc t cs Hc _ IH]; constructor; [|exact IH].
    exists c, tc. auto. }
  pose proof (add_extra_terms_all _ _ _ _ _ _ T1 Htcs2) as T2.
  apply fold_dict_set_all. apply mapM_ok in Hdcs. clear -Hdcs T2.
  induction Hdcs as [|tt dt tts dts Hd _ IH]; constructor.
  - apply bind_ok in Hd as (s & _ & Hd). exists tt, s. split; [exact (Forall_inv T2)|exact Hd].
  - apply IH. exact (Forall_inv_tail T2).
Qed.

Lemma wsame_width a b : wsame a b -> a <> [] -> b <> [] -> width a = width b.
Proof.
  intros (w & Ha & Hb) Hna Hnb. destruct a as [|r a]; [congruence|]. destruct b as [|r' b]; [congruence|].
  simpl. inversion Ha; inversion Hb; subst. congruence.
Qed.

(** On new data every block of the common matrix is as wide as the training block of its term:
    the slices computed at training time remain the right ones. *)
Theorem new_common_widths cx D m ds data mode parts :
  frame_wf D -> frame_rows D <> 0 -> scalar_extras cx -> groups_nonempty m ->
  eval_model cx D m = Ok ds ->
  frame_wf data -> frame_rows data <> 0 ->
  mapM (new_term cx mode data) (ds_common ds) = Ok parts ->
  map (fun p => width (fst p)) parts = map (fun t => width (dt_rows t)) (ds_common ds).
Proof.
  intros HD HnD Hex Hg He Hwf Hnd Hp.
  destruct (eval_model_shape _ _ _ _ HD (scalar_extras_shape _ _ Hex) Hg He) as [Hn [Hc _ _ _ _]].
  pose proof (eval_model_built _ _ _ _ He) as Hb. rewrite Hn in Hc.
  apply mapM_ok in Hp. revert Hc Hb.
  induction Hp as [|t [rows w] ts parts Ht _ IH]; intros Hc Hb; simpl; [reflexivity|].
  f_equal; [|apply IH; [exact (Forall_inv_tail Hc)|exact (Forall_inv_tail Hb)]].
  destruct (Forall_inv Hc) as (L & _ & K). destruct (Forall_inv Hb) as (tt & s & Hty & Hd).
  destruct (new_term_shape _ _ _ _ _ _ _ Hwf eq_refl (scalar_extras_shape _ _ Hex) K Ht) as [L' _].
  symmetry. apply wsame_width.
  - eapply new_term_width; eassumption.
  - intros E. rewrite E in L. simpl in L. congruence.
  - intros E. rewrite E in L'. simpl in L'. congruence.
Qed.

Lemma design_matrices_eval cx e data na ds :
  design_matrices cx e data na = Ok ds ->
  exists m d, describe e = Ok m /\ prepare_data data m na = Ok d /\
              eval_model cx (model_frame data d) m = Ok ds.
Proof.
  unfold design_matrices. intros H. apply bind_ok in H as (m & Hm & H). apply bind_ok in H as (d & Hd & H).
  exists m, d. auto.
Qed.

(** The container of the common effects on new data, as [evaluate_new_data] builds it (the matrix
    of the new data, the slices of the training data): one row per new observation, and indexing
    by a term name returns what that term evaluates to on the new data. *)
Theorem design_new_common_index cx e data na ds mode newdata r :
  frame_wf data -> scalar_extras cx -> design_matrices cx e data na = Ok ds -> ds_nrows ds <> 0 ->
  frame_wf newdata -> frame_rows newdata <> 0 ->
  new_common cx mode ds newdata = Ok r ->
  List.length (nr_rows r) = frame_rows newdata /\
  exists parts,
    mapM (new_term cx mode newdata) (ds_common ds) = Ok parts /\
    forall j t p, nth_error (ds_common ds) j = Some t -> nth_error parts j = Some p ->
      index_by_name (dt_name t) (common_slices ds) (nr_rows r) = Some (fst p).
Proof.
  intros Hwf Hex H Hn Hwf' Hn' Hr.
  destruct (design_matrices_eval _ _ _ _ _ H) as (m & d & Hm & Hd & He).
  destruct (prepare_data_wf _ _ _ _ Hwf Hd) as [W R].
  pose proof (describe_groups_nonempty _ _ Hm) as Hg.
  destruct (eval_model_shape _ _ _ _ W (scalar_extras_shape _ _ Hex) Hg He) as [N S].
  destruct (new_common_index _ _ _ _ _ S Hwf' (scalar_extras_shape _ _ Hex) Hr) as (parts & Hp & L & _ & _).
  split; [exact L|]. exists parts. split; [exact Hp|].
  apply (new_common_index_training cx mode ds newdata r parts S Hwf' (scalar_extras_shape _ _ Hex) Hr Hp).
  apply (new_common_widths cx (model_frame data d) m ds newdata mode parts W); try assumption.
  rewrite <- N. exact Hn.
Qed.

(* ------------------------------------------------------------------------------------------ *)
(** * 12. The hypotheses hold of concrete inputs; what the theorems say there *)

Module ContainersExamples.
  Definition qc (z : Z) : cell := Some (qz z).
  Definition shows (rows : list (list cell)) : list (list string) := map (map cshow) rows.

  (* six observations, one of them incomplete in a used column; the unused column is all NaN *)
  Definition exD : frame :=
    [("y", ColNum false [qc 1; qc 2; qc 3; qc 4; qc 5; qc 6]);
     ("x", ColNum true [qc 2; qc 4; None; qc 8; qc 10; qc 12]);
     ("f", ColStr None [Some "b"; Some "a"; Some "c"; Some "a"; Some "b"; Some "c"]);
     ("g", ColStr None [Some "u"; Some "v"; Some "u"; Some "v"; Some "u"; Some "v"]);
     ("unused", ColNum true [None; None; None; None; None; None])].
  (* new data with a group "zz" the training data never showed *)
  Definition exNew : frame :=
    [("x", ColNum true [qc 1; qc 3; qc 5]);
     ("f", ColStr None [Some "a"; Some "c"; Some "b"]);
     ("g", ColStr None [Some "v"; Some "zz"; Some "u"])].
  Definition ex_cx : dctx := DCtx [] (fun x => x).
  Definition ex_e : expr :=
    Eval vm_compute in match parse_string "y ~ x + f + x:f + (x|g)" with Ok e => e | Err _ => ELiteral LNone None end.
  Definition ex_ds : design :=
    Eval vm_compute in match design_matrices ex_cx ex_e exD NaDrop with Ok d => d | Err _ => Design 0 None [] [] end.

  Lemma exD_wf : frame_wf exD.
  Proof. repeat constructor. Qed.
  Lemma exNew_wf : frame_wf exNew.
  Proof. repeat constructor. Qed.
  Lemma ex_cx_scalar : scalar_extras ex_cx.
  Proof. intros k v H. discriminate H. Qed.
  Lemma ex_built : design_matrices ex_cx ex_e exD NaDrop = Ok ex_ds.
  Proof. vm_compute. reflexivity. Qed.

  (* the theorems apply ... *)
  Example ex_shape : ds_nrows ex_ds = 5 /\ design_shape ex_ds.
  Proof.
    destruct (design_matrices_containers _ _ _ _ _ exD_wf ex_cx_scalar ex_built) as (m & Hm & N & S).
    split; [|exact S]. reflexivity.
  Qed.

  Example ex_common_index t :
    In t (ds_common ex_ds) ->
    index_by_name (dt_name t) (common_slices ex_ds) (common_matrix ex_ds) = Some (dt_rows t).
  Proof. apply design_common_index. exact (proj2 ex_shape). Qed.

  (* ... and this is what they say: 5 of the 6 observations are retained *)
  Example ex_values :
    retained exD (match describe ex_e with Ok m => m | Err _ => empty_model end) NaDrop = 5 /\
    common_slices ex_ds = [("Intercept", 0, 1); ("x", 1, 2); ("f", 2, 4); ("x:f", 4, 6)] /\
    group_slices ex_ds = [("1|g", 0, 2); ("x|g", 2, 4)] /\
    shows (common_matrix ex_ds)
    = [["1"; "2"; "1"; "0"; "2"; "0"]; ["1"; "4"; "0"; "0"; "0"; "0"]; ["1"; "8"; "0"; "0"; "0"; "0"];
       ["1"; "10"; "1"; "0"; "10"; "0"]; ["1"; "12"; "0"; "1"; "0"; "12"]] /\
    option_map shows (index_by_name "x:f" (common_slices ex_ds) (common_matrix ex_ds))
    = Some [["2"; "0"]; ["0"; "0"]; ["0"; "0"]; ["10"; "0"]; ["0"; "12"]] /\
    index_by_name "x:g" (common_slices ex_ds) (common_matrix ex_ds) = None.
  Proof. repeat split; vm_compute; reflexivity. Qed.

  (* new data with an unseen group: the block of every term over g is one column wider, the slices
     move accordingly, and indexing by name returns the widened blocks *)
  Example ex_new_group :
    match new_group ex_cx USilent ex_ds exNew with
    | Ok g => (shows (ng_rows g), ng_slices g, ng_new_factors g,
               option_map shows (index_by_name "1|g" (ng_slices g) (ng_rows g)),
               option_map shows (index_by_name "x|g" (ng_slices g) (ng_rows g)))
    | Err _ => ([], [], [], None, None)
    end
    = ([["0"; "1"; "0"; "0"; "1"; "0"]; ["0"; "0"; "1"; "0"; "0"; "3"]; ["1"; "0"; "0"; "5"; "0"; "0"]],
       [("1|g", 0, 3); ("x|g", 3, 6)], ["g"],
       Some [["0"; "1"; "0"]; ["0"; "0"; "1"]; ["1"; "0"; "0"]],
       Some [["0"; "1"; "0"]; ["0"; "0"; "3"]; ["5"; "0"; "0"]]).
  Proof. vm_compute. reflexivity. Qed.

  Example ex_new_group_theorem ng :
    new_group ex_cx USilent ex_ds exNew = Ok ng ->
    List.length (ng_rows ng) = 3 /\
    exists parts, mapM (new_gterm ex_cx USilent exNew) (ds_group ex_ds) = Ok parts /\
      forall j g p, nth_error (ds_group ex_ds) j = Some g -> nth_error parts j = Some p ->
        index_by_name (dg_name g) (ng_slices ng) (ng_rows ng) = Some (fst p).
  Proof.
    intros H.
    destruct (new_group_index _ _ _ _ _ (proj2 ex_shape) exNew_wf (scalar_extras_shape _ _ ex_cx_scalar) H)
      as (parts & Hp & L & _ & _ & Hidx).
    split; [exact L|]. exists parts. split; [exact Hp|exact Hidx].
  Qed.

  (* the common matrix of the new data, indexed with the TRAINING slices *)
  Example ex_new_common :
    match new_common ex_cx USilent ex_ds exNew with
    | Ok r => (shows (nr_rows r), option_map shows (index_by_name "x:f" (common_slices ex_ds) (nr_rows r)))
    | Err _ => ([], None)
    end
    = ([["1"; "1"; "0"; "0"; "0"; "0"]; ["1"; "3"; "0"; "1"; "0"; "3"]; ["1"; "5"; "1"; "0"; "5"; "0"]],
       Some [["0"; "0"]; ["0"; "3"]; ["5"; "0"]]).
  Proof. vm_compute. reflexivity. Qed.

  Example ex_new_common_theorem r :
    new_common ex_cx USilent ex_ds exNew = Ok r ->
    List.length (nr_rows r) = 3 /\
    exists parts, mapM (new_term ex_cx USilent exNew) (ds_common ex_ds) = Ok parts /\
      forall j t p, nth_error (ds_common ex_ds) j = Some t -> nth_error parts j = Some p ->
        index_by_name (dt_name t) (common_slices ex_ds) (nr_rows r) = Some (fst p).
  Proof.
    intros H. apply (design_new_common_index ex_cx ex_e exD NaDrop ex_ds USilent exNew r exD_wf ex_cx_scalar ex_built);
      [discriminate|exact exNew_wf|discriminate|exact H].
  Qed.

  (* two common terms CAN share a name in the model description: the call I(x) and a column whose
     name is the string "I(x)".  The design keeps one entry under that name (first position, last
     value: here the column), so the names of the design are distinct and the lookup is unambiguous *)
  Definition dupD : frame :=
    [("y", ColNum false [qc 1; qc 2; qc 3]); ("x", ColNum true [qc 2; qc 4; qc 6]);
     ("I(x)", ColNum true [qc 7; qc 8; qc 9])].
  Example shared_name_design :
    (do e <- parse_string "y ~ I(x) + `I(x)`"; do m <- describe e; model_obs m)
    = Ok (SList [SAtom "y"; SList [SAtom "Intercept"; SAtom "I(x)"; SAtom "I(x)"]; SList []]) /\
    match (do e <- parse_string "y ~ I(x) + `I(x)`"; design_matrices ex_cx e dupD NaDrop) with
    | Ok ds => (common_slices ds, shows (common_matrix ds),
                option_map shows (index_by_name "I(x)" (common_slices ds) (common_matrix ds)))
    | Err _ => ([], [], None)
    end
    = ([("Intercept", 0, 1); ("I(x)", 1, 2)], [["1"; "7"]; ["1"; "8"]; ["1"; "9"]],
       Some [["7"]; ["8"]; ["9"]]).
  Proof. split; vm_compute; reflexivity. Qed.

  (** [frame_wf] cannot be dropped from the row-count theorems: the decoder accepts a frame whose
      columns have different lengths; the response then has 3 rows and the common matrix 2. *)
  Definition ragD : frame := [("y", ColNum false [qc 1; qc 2; qc 3]); ("x", ColNum true [qc 2; qc 4])].
  Example ragged_frame_row_counts_refuted :
    ~ frame_wf ragD /\
    match (do e <- parse_string "y ~ x"; design_matrices ex_cx e ragD NaPass) with
    | Ok ds => (ds_nrows ds, List.length (common_matrix ds),
                option_map (fun t => List.length (dt_rows t)) (ds_response ds))
    | Err _ => (0, 0, None)
    end = (3, 2, Some 3).
  Proof.
    split; [|vm_compute; reflexivity]. intros H. unfold frame_wf, rect in H. simpl in H.
    inversion H as [|? ? _ H']; subst. inversion H' as [|? ? E _]; subst. discriminate E.
  Qed.

  (** [scalar_extras] cannot be dropped from [new_common_widths] / [design_new_common_index]: with a
      matrix in the namespace, a name that was a column of the training frame and is missing from
      the new frame resolves to the matrix; the block of I(z) is then 2 columns wide where the
      training slice says 1, and the training slice cuts the new matrix in the wrong place. *)
  Definition bad_cx : dctx := DCtx [("z", PMatrix [[qc 1; qc 2]; [qc 3; qc 4]; [qc 5; qc 6]])] (fun x => x).
  Definition badD : frame := [("y", ColNum false [qc 1; qc 2; qc 3]); ("z", ColNum true [qc 7; qc 8; qc 9])].
  Definition badNew : frame := [("y", ColNum false [qc 1; qc 2; qc 3])].
  Definition bad_e : expr :=
    Eval vm_compute in match parse_string "y ~ I(z)" with Ok e => e | Err _ => ELiteral LNone None end.

  Definition bad_ds : design :=
    Eval vm_compute in match design_matrices bad_cx bad_e badD NaDrop with Ok d => d | Err _ => Design 0 None [] [] end.
  Definition bad_r : newres :=
    Eval vm_compute in match new_common bad_cx USilent bad_ds badNew with Ok r => r | Err _ => NewRes [] false end.
  Definition bad_parts : list (list (list cell) * bool) :=
    Eval vm_compute in match mapM (new_term bad_cx USilent badNew) (ds_common bad_ds) with Ok l => l | Err _ => [] end.
  Definition bad_t : dterm :=
    Eval vm_compute in nth 1 (ds_common bad_ds) (DT "" "" [] [] None).
  Definition bad_p : list (list cell) * bool := Eval vm_compute in nth 1 bad_parts ([], false).

  Theorem training_slices_on_new_data_refuted :
    exists cx e data ds newdata r parts t p,
      frame_wf data /\ frame_wf newdata /\ extras_shape (frame_rows data) cx /\
      extras_shape (frame_rows newdata) cx /\
      design_matrices cx e data NaDrop = Ok ds /\ new_common cx USilent ds newdata = Ok r /\
      mapM (new_term cx USilent newdata) (ds_common ds) = Ok parts /\
      nth_error (ds_common ds) 1 = Some t /\ nth_error parts 1 = Some p /\
      width (dt_rows t) = 1 /\ width (fst p) = 2 /\
      index_by_name (dt_name t) (common_slices ds) (nr_rows r) <> Some (fst p).
  Proof.
    exists bad_cx, bad_e, badD, bad_ds, badNew, bad_r, bad_parts, bad_t, bad_p.
    assert (Hex : extras_shape 3 bad_cx).
    { intros k v H. cbn [d_extra bad_cx] in H. simpl in H.
      destruct (String.eqb k "z"); [|discriminate H]. injection H as <-. simpl. split; [reflexivity|].
      exists 2. repeat constructor. }
    split; [repeat constructor|]. split; [repeat constructor|].
    split; [exact Hex|]. split; [exact Hex|].
    split; [vm_compute; reflexivity|]. split; [vm_compute; reflexivity|]. split; [vm_compute; reflexivity|].
    split; [reflexivity|]. split; [reflexivity|]. split; [reflexivity|]. split; [reflexivity|].
    vm_compute. intros H. discriminate H.
  Qed.
End ContainersExamples.

Print Assumptions hstack_slice_row.
Print Assumptions hstack_slice.
Print Assumptions hstack_slice_In.
Print Assumptions index_by_name_hstack.
Print Assumptions index_by_name_hstack_first.
Print Assumptions index_by_name_unknown.
Print Assumptions lookup_slice_first.
Print Assumptions lookup_slice_shadowed.
Print Assumptions eval_lazy_shape.
Print Assumptions eval_model_shape.
Print Assumptions design_row_counts.
Print Assumptions design_common_index.
Print Assumptions design_common_slice_row.
Print Assumptions design_group_index.
Print Assumptions design_group_slice_row.
Print Assumptions design_matrices_shape.
Print Assumptions describe_groups_nonempty.
Print Assumptions design_matrices_containers.
Print Assumptions build_design_containers.
Print Assumptions new_comp_shape.
Print Assumptions new_common_index.
Print Assumptions new_group_index.
Print Assumptions new_group_unknown.
Print Assumptions eval_lazy_rel.
Print Assumptions new_comp_width.
Print Assumptions new_common_widths.
Print Assumptions design_new_common_index.
Print Assumptions ContainersExamples.training_slices_on_new_data_refuted.
