(* Completeness of the parser model with respect to the grammar: every sentence of the grammar is
   accepted by the parser with exactly the abstract syntax tree of its derivation.  Corollaries:
   the grammar is unambiguous, parse = Sentence, and the fuel never runs out.

   Method.  Greedy recursive descent is complete as soon as every phrase is followed by a token
   that cannot continue it ([stops]).  The two left-recursive non-terminals (binary levels DL_bin,
   call suffixes DC_call0/DC_call) are handled by proving, in the mutual induction on derivations,
   an "EBNF decomposition" of the phrase (first operand followed by a list of (operator, operand)
   items, each item carrying the completeness statement of its operand) from which completeness of
   the loop ([binloop], [call_loop]) follows by induction on the item list. *)
From Verif Require Import Base Tokens Parser Grammar ParserSound.
From Coq Require Import Lia.

(* ------------------------------------------------------------------------------------------ *)
(** * Decidable facts on lists of kinds *)

Definition memb (k : kind) (l : list kind) : bool := existsb (kind_eqb k) l.

Lemma memb_In k l : memb k l = true <-> In k l.
Proof.
  unfold memb. rewrite existsb_exists. split.
  - intros (x & Hx & He). apply kind_eqb_eq in He. now subst.
  - intros H. exists k. split; auto. now apply kind_eqb_eq.
Qed.

Lemma notin_b k l : memb k l = false -> ~ In k l.
Proof. intros H Hin. apply memb_In in Hin. congruence. Qed.

Lemma is_kind_In ks t : is_kind ks t = true <-> In (tkind t) ks.
Proof. apply memb_In. Qed.

Definition disj (l1 l2 : list kind) : Prop := forall k, In k l1 -> ~ In k l2.
Definition disjb (l1 l2 : list kind) : bool := forallb (fun k => negb (memb k l2)) l1.

Lemma disjb_disj l1 l2 : disjb l1 l2 = true -> disj l1 l2.
Proof.
  unfold disjb, disj. rewrite forallb_forall. intros H k Hk Hin.
  apply H in Hk. apply memb_In in Hin. rewrite Hin in Hk. discriminate.
Qed.

Definition inclb (l1 l2 : list kind) : bool := forallb (fun k => memb k l2) l1.

Lemma inclb_incl l1 l2 : inclb l1 l2 = true -> incl l1 l2.
Proof.
  unfold inclb, incl. rewrite forallb_forall. intros H k Hk. apply memb_In. now apply H.
Qed.

Ltac notin := apply notin_b; reflexivity.

(* ------------------------------------------------------------------------------------------ *)
(** * The follow condition *)

(* the next token, if any, has none of the kinds in F *)
Definition stops (F : list kind) (rest : list token) : Prop :=
  match rest with [] => True | t :: _ => ~ In (tkind t) F end.

Lemma stops_incl F F' rest : incl F' F -> stops F rest -> stops F' rest.
Proof. destruct rest as [|t r]; simpl; [auto|]. intros Hi Hs Hin. apply Hs. now apply Hi. Qed.

Lemma stops_head F k t r : tkind t = k -> memb k F = false -> stops F (t :: r).
Proof. intros <- H. simpl. now apply notin_b. Qed.

Lemma match_tok_miss ks rest : stops ks rest -> match_tok ks rest = None.
Proof.
  destruct rest as [|t r]; simpl; auto. intros H.
  destruct (is_kind ks t) eqn:E.
  - apply is_kind_In in E. contradiction.
  - now rewrite andb_false_r.
Qed.

Lemma match_tok_hit ks t r :
  is_kind ks t = true -> tkind t <> EOF -> match_tok ks (t :: r) = Some (t, r).
Proof. intros H1 H2. simpl. apply kind_eqb_neq in H2. now rewrite H2, H1. Qed.

Lemma match_tok_hit1 k t r : tkind t = k -> k <> EOF -> match_tok [k] (t :: r) = Some (t, r).
Proof.
  intros H1 H2. apply match_tok_hit; [|congruence].
  apply is_kind_In. simpl. auto.
Qed.

Lemma consume_hit k t r : tkind t = k -> k <> EOF -> consume k (t :: r) = Ok r.
Proof. intros H1 H2. unfold consume. now rewrite (match_tok_hit1 k t r H1 H2). Qed.

(* kinds that may not follow a phrase of the level at the head of the chain suffix c *)
Definition LF (c : list (list kind)) : list kind := List.concat c ++ [LEFT_PAREN; LEFT_BRACKET].

Lemma LF_cons ks c : LF (ks :: c) = ks ++ LF c.
Proof. unfold LF. simpl. now rewrite app_assoc. Qed.

(* the operator kinds of a level are disjoint from those of the higher levels and from ( and [ *)
Fixpoint good (c : list (list kind)) : Prop :=
  match c with [] => True | ks :: c' => disj ks (LF c') /\ good c' end.
Fixpoint goodb (c : list (list kind)) : bool :=
  match c with [] => true | ks :: c' => disjb ks (LF c') && goodb c' end.

Lemma goodb_good c : goodb c = true -> good c.
Proof.
  induction c as [|ks c IH]; simpl; auto. intros H. apply andb_prop in H as (H1 & H2).
  split; auto. now apply disjb_disj.
Qed.

Lemma good_chain : good precedence.
Proof. apply goodb_good. reflexivity. Qed.

Lemma good_additive : good additive_suffix.
Proof. apply goodb_good. reflexivity. Qed.

(* ------------------------------------------------------------------------------------------ *)
(** * Binary levels: completeness of [binloop] against the list form *)

(* (operator, tokens of the right operand, tree of the right operand) *)
Definition item : Type := token * list token * expr.

Fixpoint flat (tl : list item) : list token :=
  match tl with
  | [] => []
  | (op, tr, _) :: tl' => op :: tr ++ flat tl'
  end.

Definition fold (e0 : expr) (tl : list item) : expr :=
  fold_left (fun e (x : item) => let '(op, _, r) := x in EBinary e op r) tl e0.

Lemma flat_app a b : flat (a ++ b) = flat a ++ flat b.
Proof.
  induction a as [|[[op tr] r] a IH]; simpl; auto. now rewrite IH, app_assoc.
Qed.

Lemma flat_length tl : List.length tl <= List.length (flat tl).
Proof.
  induction tl as [|[[op tr] r] tl IH]; simpl; auto. rewrite app_length. lia.
Qed.

(* p is complete for the phrase ts/e when followed by something that stops F *)
Definition Qn (p : P) (F : list kind) (ts : list token) (e : expr) : Prop :=
  forall rest, stops F rest -> p (ts ++ rest) = Ok (e, rest).

Definition item_ok (next : P) (ks F : list kind) (x : item) : Prop :=
  let '(op, tr, r) := x in is_kind ks op = true /\ tkind op <> EOF /\ Qn next F tr r.

Section BinComplete.
  Variable next : P.
  Variables ks F : list kind.
  Hypothesis Hd : disj ks F.

  Lemma stops_flat tl rest :
    Forall (item_ok next ks F) tl -> stops (ks ++ F) rest -> stops F (flat tl ++ rest).
  Proof.
    intros Ht Hs. destruct tl as [|[[op tr] r] tl].
    - simpl. eapply stops_incl; [|exact Hs]. apply incl_appr, incl_refl.
    - inversion Ht as [|x l Hx Ht']; subst. destruct Hx as (Hk & _ & _). simpl.
      apply Hd. now apply is_kind_In.
  Qed.

  Lemma binloop_complete :
    forall tl e0 rest m,
      Forall (item_ok next ks F) tl -> stops (ks ++ F) rest -> List.length tl < m ->
      binloop next ks m e0 (flat tl ++ rest) = Ok (fold e0 tl, rest).
  Proof.
    induction tl as [|[[op tr] r] tl IH]; intros e0 rest m Ht Hs Hm;
      (destruct m as [|m]; [inversion Hm|]).
    - simpl. rewrite match_tok_miss; auto.
      eapply stops_incl; [|exact Hs]. apply incl_appl, incl_refl.
    - inversion Ht as [|x l Hx Ht']; subst. destruct Hx as (Hk & Hne & Hq).
      cbn [flat binloop app]. rewrite <- app_assoc.
      rewrite (match_tok_hit ks op _ Hk Hne).
      rewrite (Hq (flat tl ++ rest)) by (now apply stops_flat).
      cbn [bind]. rewrite IH; auto. simpl in Hm. lia.
  Qed.

  Lemma binlevel_complete ts0 e0 tl :
    Qn next F ts0 e0 -> Forall (item_ok next ks F) tl ->
    Qn (binlevel next ks) (ks ++ F) (ts0 ++ flat tl) (fold e0 tl).
  Proof.
    intros H0 Ht rest Hs. unfold binlevel. rewrite <- app_assoc.
    rewrite (H0 (flat tl ++ rest)) by (now apply stops_flat).
    cbn [bind]. apply binloop_complete; auto.
    rewrite app_length. pose proof (flat_length tl). lia.
  Qed.
End BinComplete.

(* completeness of level c, and its decomposed form *)
Definition Q (base : P) (c : list (list kind)) : list token -> expr -> Prop :=
  Qn (levels base c) (LF c).

Definition Decomp (base : P) (ks : list kind) (c : list (list kind)) ts e : Prop :=
  exists ts0 e0 tl,
    ts = ts0 ++ flat tl /\ e = fold e0 tl /\ Q base c ts0 e0 /\
    Forall (item_ok (levels base c) ks (LF c)) tl.

Definition Plev (base : P) (c : list (list kind)) ts e : Prop :=
  match c with
  | [] => Q base [] ts e
  | ks :: c' => Decomp base ks c' ts e
  end.

Lemma Plev_Q base c ts e : good c -> Plev base c ts e -> Q base c ts e.
Proof.
  destruct c as [|ks c]; simpl; auto.
  intros (Hd & Hg) (ts0 & e0 & tl & -> & -> & H0 & Ht).
  unfold Q. rewrite LF_cons. cbn [levels].
  apply binlevel_complete; auto.
Qed.

(* ------------------------------------------------------------------------------------------ *)
(** * Call suffixes: completeness of [call_loop] against the list form *)

(* ( "(" token, remaining tokens up to and including ")", argument trees ) *)
Definition citem : Type := token * list token * list expr.

Fixpoint flatc (cl : list citem) : list token :=
  match cl with
  | [] => []
  | (lp, body, _) :: cl' => lp :: body ++ flatc cl'
  end.

Definition foldc (e0 : expr) (cl : list citem) : expr :=
  fold_left (fun e (x : citem) => let '(_, _, args) := x in ECall e args) cl e0.

Lemma flatc_app a b : flatc (a ++ b) = flatc a ++ flatc b.
Proof.
  induction a as [|[[lp body] args] a IH]; simpl; auto. now rewrite IH, app_assoc.
Qed.

Lemma flatc_length cl : List.length cl <= List.length (flatc cl).
Proof.
  induction cl as [|[[lp body] args] cl IH]; simpl; auto. rewrite app_length. lia.
Qed.

Section CallComplete.
  Variable expression : P.

  Definition citem_ok (x : citem) : Prop :=
    let '(lp, body, args) := x in
    tkind lp = LEFT_PAREN /\
    forall callee rest, finishcall expression callee (body ++ rest) = Ok (ECall callee args, rest).

  Lemma call_loop_complete :
    forall cl e0 rest m,
      Forall citem_ok cl -> stops [LEFT_PAREN] rest -> List.length cl < m ->
      call_loop expression m e0 (flatc cl ++ rest) = Ok (foldc e0 cl, rest).
  Proof.
    induction cl as [|[[lp body] args] cl IH]; intros e0 rest m Hc Hs Hm;
      (destruct m as [|m]; [inversion Hm|]).
    - simpl. rewrite match_tok_miss; auto.
    - inversion Hc as [|x l Hx Hc']; subst. destruct Hx as (Hlp & Hf).
      cbn [flatc call_loop app]. rewrite <- app_assoc.
      rewrite (match_tok_hit1 LEFT_PAREN lp _ Hlp) by discriminate.
      rewrite Hf. cbn [bind]. rewrite IH; auto. simpl in Hm. lia.
  Qed.

  Definition Qprim (ts : list token) (e : expr) : Prop :=
    forall m rest, List.length ts <= m -> stops [LEFT_BRACKET] rest ->
                   primary expression m (ts ++ rest) = Ok (e, rest).

  Definition Pcall (ts : list token) (e : expr) : Prop :=
    exists ts0 e0 cl,
      ts = ts0 ++ flatc cl /\ e = foldc e0 cl /\ Qprim ts0 e0 /\ Forall citem_ok cl.

  Lemma Pcall_call ts e :
    Pcall ts e -> Qn (call expression) [LEFT_PAREN; LEFT_BRACKET] ts e.
  Proof.
    intros (ts0 & e0 & cl & -> & -> & H0 & Hc) rest Hs. unfold call.
    rewrite <- app_assoc. rewrite H0.
    - cbn [bind]. apply call_loop_complete; auto.
      + eapply stops_incl; [|exact Hs]. apply inclb_incl. reflexivity.
      + rewrite app_length. pose proof (flatc_length cl). lia.
    - rewrite app_length. lia.
    - destruct cl as [|[[lp body] args] cl].
      + simpl. eapply stops_incl; [|exact Hs]. apply inclb_incl. reflexivity.
      + inversion Hc as [|x l Hx Hc']; subst. destruct Hx as (Hlp & _).
        cbn [flatc app]. now apply (stops_head _ LEFT_PAREN).
  Qed.
End CallComplete.

(* ------------------------------------------------------------------------------------------ *)
(** * First tokens: every phrase is non-empty and starts with a token of a known kind *)

Definition starts_primary : list kind :=
  [IDENTIFIER; NUMBER; PYTHON_LITERAL; STRING; BQNAME; LEFT_PAREN; LEFT_BRACE].
Definition starts_unary : list kind := PLUS :: MINUS :: starts_primary.

Definition first_in (ks : list kind) (ts : list token) : Prop :=
  match ts with [] => False | t :: _ => In (tkind t) ks end.

Lemma first_in_app ks a b : first_in ks a -> first_in ks (a ++ b).
Proof. destruct a; simpl; tauto. Qed.

Lemma first_in_incl ks ks' a : incl ks ks' -> first_in ks a -> first_in ks' a.
Proof. destruct a; simpl; [tauto|]. intros Hi H. now apply Hi. Qed.

Scheme DExpr_mind := Minimality for DExpr Sort Prop
  with DLev_mind := Minimality for DLev Sort Prop
  with DUnary_mind := Minimality for DUnary Sort Prop
  with DCall_mind := Minimality for DCall Sort Prop
  with DArgs_mind := Minimality for DArgs Sort Prop
  with DPrimary_mind := Minimality for DPrimary Sort Prop.
Combined Scheme D_mutind from
  DExpr_mind, DLev_mind, DUnary_mind, DCall_mind, DArgs_mind, DPrimary_mind.

Ltac first_kind H := simpl; rewrite H; simpl; tauto.

Lemma first_all :
  (forall ts e, DExpr ts e -> first_in starts_unary ts) /\
  (forall c ts e, DLev c ts e -> first_in starts_unary ts) /\
  (forall ts e, DUnary ts e -> first_in starts_unary ts) /\
  (forall ts e, DCall ts e -> first_in starts_primary ts) /\
  (forall ts es, DArgs ts es -> first_in starts_unary ts) /\
  (forall ts e, DPrimary ts e -> first_in starts_primary ts).
Proof.
  apply D_mutind; intros; try (now apply first_in_app); auto.
  - (* DU_sign *)
    match goal with H : is_kind _ _ = true |- _ => apply is_kind_In in H; simpl in H end.
    simpl. tauto.
  - (* DU_call *)
    eapply first_in_incl; [|eassumption]. apply inclb_incl. reflexivity.
  - match goal with H : tkind _ = _ |- _ => first_kind H end.
  - match goal with H : tkind t = _ |- _ => first_kind H end.
  - match goal with H : _ \/ _ |- _ => destruct H as [H|H]; first_kind H end.
  - match goal with H : tkind _ = _ |- _ => first_kind H end.
  - match goal with H : tkind _ = _ |- _ => first_kind H end.
  - match goal with H : tkind lp = _ |- _ => first_kind H end.
  - match goal with H : tkind lb = _ |- _ => first_kind H end.
Qed.

Lemma DExpr_first ts e : DExpr ts e -> first_in starts_unary ts.
Proof. apply first_all. Qed.
Lemma DCall_first ts e : DCall ts e -> first_in starts_primary ts.
Proof. apply first_all. Qed.
Lemma DArgs_first ts es : DArgs ts es -> first_in starts_unary ts.
Proof. apply first_all. Qed.

(* ------------------------------------------------------------------------------------------ *)
(** * One step of each parser function *)

(* kinds that may not follow a complete expression *)
Definition EF : list kind := List.concat chain ++ [LEFT_PAREN; LEFT_BRACKET; TILDE; EQUAL].

Lemma EF_chain : incl (LF precedence) EF.
Proof. apply inclb_incl. reflexivity. Qed.
Lemma EF_additive : incl (LF additive_suffix) EF.
Proof. apply inclb_incl. reflexivity. Qed.
Lemma EF_tilde : incl [TILDE] EF.
Proof. apply inclb_incl. reflexivity. Qed.
Lemma EF_equal : incl [EQUAL] EF.
Proof. apply inclb_incl. reflexivity. Qed.

Lemma primary_nb X m t rest :
  tkind t <> IDENTIFIER \/ stops [LEFT_BRACKET] rest ->
  primary X m (t :: rest) = primary_nobracket X (t :: rest).
Proof.
  intros H. destruct rest as [|b r]; destruct m; try reflexivity.
  all: cbn [primary];
    destruct (kind_eqb (tkind t) IDENTIFIER && kind_eqb (tkind b) LEFT_BRACKET) eqn:E; auto;
    apply andb_prop in E as (E1 & E2); apply kind_eqb_eq in E1, E2;
    destruct H as [H|H]; [contradiction | simpl in H; exfalso; apply H; auto].
Qed.

Lemma unary_call X ts rest :
  first_in starts_primary ts -> unary X (ts ++ rest) = call X (ts ++ rest).
Proof.
  destruct ts as [|t r]; simpl first_in; [tauto|]. intros H. cbn [app unary].
  destruct (is_kind unary_kinds t) eqn:E.
  - apply is_kind_In in E. exfalso. revert E. apply (disjb_disj starts_primary unary_kinds); auto.
  - now rewrite andb_false_r.
Qed.

Section Assignment.
  Variable X : P.

  Lemma assignment_plain ts e :
    Q (unary X) precedence ts e -> Qn (assignment X) EF ts e.
  Proof.
    intros H rest Hs. unfold assignment, tilde, random_effect.
    unfold Q, Qn, precedence in H.
    rewrite (H rest) by (eapply stops_incl; [apply EF_chain | exact Hs]).
    cbn [bind].
    rewrite (match_tok_miss [TILDE] rest) by (eapply stops_incl; [apply EF_tilde | exact Hs]).
    cbn [bind].
    rewrite (match_tok_miss [EQUAL] rest) by (eapply stops_incl; [apply EF_equal | exact Hs]).
    reflexivity.
  Qed.

  Lemma assignment_tilde tl l op tr r :
    Q (unary X) precedence tl l -> tkind op = TILDE -> Q (unary X) additive_suffix tr r ->
    Qn (assignment X) EF (tl ++ op :: tr) (EBinary l op r).
  Proof.
    intros Hl Hop Hr rest Hs. unfold assignment, tilde, random_effect, addition.
    unfold Q, Qn, additive_suffix, precedence in Hl, Hr.
    rewrite <- app_assoc. cbn [app].
    rewrite (Hl (op :: tr ++ rest)) by (now apply (stops_head _ TILDE)).
    cbn [bind].
    rewrite (match_tok_hit1 TILDE op _ Hop) by discriminate.
    rewrite (Hr rest) by (eapply stops_incl; [apply EF_additive | exact Hs]).
    cbn [bind].
    rewrite (match_tok_miss [EQUAL] rest) by (eapply stops_incl; [apply EF_equal | exact Hs]).
    reflexivity.
  Qed.

  Lemma assignment_assign tl n lv op tr r :
    Q (unary X) precedence tl (EVariable n lv) -> tkind op = EQUAL ->
    Q (unary X) additive_suffix tr r ->
    Qn (assignment X) EF (tl ++ op :: tr) (EAssign (EVariable n lv) r).
  Proof.
    intros Hl Hop Hr rest Hs. unfold assignment, tilde, random_effect, addition.
    unfold Q, Qn, additive_suffix, precedence in Hl, Hr.
    rewrite <- app_assoc. cbn [app].
    rewrite (Hl (op :: tr ++ rest)) by (now apply (stops_head _ EQUAL)).
    cbn [bind].
    rewrite (match_tok_miss [TILDE] (op :: tr ++ rest)) by (now apply (stops_head _ EQUAL)).
    cbn [bind].
    rewrite (match_tok_hit1 EQUAL op _ Hop) by discriminate.
    rewrite (Hr rest) by (eapply stops_incl; [apply EF_additive | exact Hs]).
    reflexivity.
  Qed.
End Assignment.

(* ------------------------------------------------------------------------------------------ *)
(** * The mutual induction on derivations *)

(* f is the fuel of the [expression] used for nested expressions; it only has to exceed the
   length of the phrase itself (every nesting consumes a bracket token) *)
Definition P_expr (ts : list token) (e : expr) : Prop :=
  forall f, List.length ts < f -> Qn (expression f) EF ts e.
Definition P_lev (c : list (list kind)) (ts : list token) (e : expr) : Prop :=
  good c -> forall f, List.length ts <= f -> Plev (unary (expression f)) c ts e.
Definition P_unary (ts : list token) (e : expr) : Prop :=
  forall f, List.length ts <= f -> Qn (unary (expression f)) [LEFT_PAREN; LEFT_BRACKET] ts e.
Definition P_call (ts : list token) (e : expr) : Prop :=
  forall f, List.length ts <= f -> Pcall (expression f) ts e.
Definition P_args (ts : list token) (es : list expr) : Prop :=
  forall f m acc rest,
    List.length ts < f -> List.length ts < m -> stops (COMMA :: EF) rest ->
    args_loop (expression f) m acc (ts ++ rest) = Ok (acc ++ es, rest).
Definition P_primary (ts : list token) (e : expr) : Prop :=
  forall f, List.length ts <= f -> Qprim (expression f) ts e.

Lemma complete_all :
  (forall ts e, DExpr ts e -> P_expr ts e) /\
  (forall c ts e, DLev c ts e -> P_lev c ts e) /\
  (forall ts e, DUnary ts e -> P_unary ts e) /\
  (forall ts e, DCall ts e -> P_call ts e) /\
  (forall ts es, DArgs ts es -> P_args ts es) /\
  (forall ts e, DPrimary ts e -> P_primary ts e).
Proof.
  apply D_mutind.
  - (* DE_plain *)
    intros ts e D IH f Hf. destruct f as [|f]; [inversion Hf|]. cbn [expression].
    apply assignment_plain. apply Plev_Q; [apply good_chain|].
    apply IH; [apply good_chain | lia].
  - (* DE_tilde *)
    intros tl l op tr r Dl IHl Hop Dr IHr f Hf. destruct f as [|f]; [inversion Hf|].
    cbn [expression]. rewrite app_length in Hf. simpl in Hf.
    apply assignment_tilde; auto.
    + apply Plev_Q; [apply good_chain|]. apply IHl; [apply good_chain | lia].
    + apply Plev_Q; [apply good_additive|]. apply IHr; [apply good_additive | lia].
  - (* DE_assign *)
    intros tl n lv op tr r Dl IHl Hop Dr IHr f Hf. destruct f as [|f]; [inversion Hf|].
    cbn [expression]. rewrite app_length in Hf. simpl in Hf.
    apply assignment_assign; auto.
    + apply Plev_Q; [apply good_chain|]. apply IHl; [apply good_chain | lia].
    + apply Plev_Q; [apply good_additive|]. apply IHr; [apply good_additive | lia].
  - (* DL_base *)
    intros ts e D IH _ f Hf. exact (IH f Hf).
  - (* DL_up *)
    intros ks c ts e D IH (Hd & Hg) f Hf. cbn [Plev].
    exists ts, e, []. simpl. rewrite app_nil_r. repeat split; auto.
    apply Plev_Q; auto.
  - (* DL_bin *)
    intros ks c tl l op tr r Dl IHl Hk Hne Dr IHr Hg f Hf.
    rewrite app_length in Hf. simpl in Hf.
    pose proof (IHl Hg f ltac:(lia)) as H. cbn [Plev] in H.
    destruct H as (ts0 & e0 & tail & -> & -> & H0 & Ht). destruct Hg as (Hd & Hg).
    cbn [Plev]. exists ts0, e0, (tail ++ [(op, tr, r)]). repeat split; auto.
    + rewrite flat_app. simpl. now rewrite app_nil_r, app_assoc.
    + unfold fold. now rewrite fold_left_app.
    + apply Forall_app. split; auto. constructor; [|constructor].
      repeat split; auto. apply Plev_Q; auto. apply IHr; auto. lia.
  - (* DU_sign *)
    intros op ts e Hk Hne D IH f Hf rest Hs. simpl in Hf.
    cbn [app unary]. apply kind_eqb_neq in Hne. rewrite Hne, Hk. cbn [negb andb].
    rewrite (IH f ltac:(lia) rest Hs). reflexivity.
  - (* DU_call *)
    intros ts e D IH f Hf rest Hs.
    rewrite unary_call by (eapply DCall_first; eauto).
    apply Pcall_call; auto.
  - (* DC_primary *)
    intros ts e D IH f Hf. exists ts, e, []. simpl. rewrite app_nil_r. repeat split; auto.
  - (* DC_call0 *)
    intros ts fn lp rp D IH Hlp Hrp f Hf. rewrite app_length in Hf. simpl in Hf.
    destruct (IH f ltac:(lia)) as (ts0 & e0 & cl & -> & -> & H0 & Hc).
    exists ts0, e0, (cl ++ [(lp, [rp], [])]). repeat split; auto.
    + rewrite flatc_app. simpl. now rewrite app_assoc.
    + unfold foldc. now rewrite fold_left_app.
    + apply Forall_app. split; auto. constructor; [|constructor]. split; auto.
      intros callee rest. cbn [app]. unfold finishcall.
      rewrite (match_tok_hit1 RIGHT_PAREN rp rest Hrp) by discriminate.
      rewrite (consume_hit RIGHT_PAREN rp rest Hrp) by discriminate. reflexivity.
  - (* DC_call *)
    intros ts fn lp targs args rp D IH Hlp Da IHa Hrp f Hf.
    rewrite !app_length in Hf. simpl in Hf. rewrite app_length in Hf. simpl in Hf.
    destruct (IH f ltac:(lia)) as (ts0 & e0 & cl & -> & -> & H0 & Hc).
    exists ts0, e0, (cl ++ [(lp, targs ++ [rp], args)]). repeat split; auto.
    + rewrite flatc_app. simpl. now rewrite app_nil_r, app_assoc.
    + unfold foldc. now rewrite fold_left_app.
    + apply Forall_app. split; auto. constructor; [|constructor]. split; auto.
      intros callee rest. rewrite <- app_assoc. cbn [app]. unfold finishcall.
      rewrite match_tok_miss.
      * rewrite (IHa f _ [] (rp :: rest)).
        -- cbn [bind app].
           rewrite (consume_hit RIGHT_PAREN rp rest Hrp) by discriminate. reflexivity.
        -- lia.
        -- rewrite app_length. simpl. lia.
        -- now apply (stops_head _ RIGHT_PAREN).
      * apply DArgs_first in Da. destruct targs as [|t r]; simpl in Da; [tauto|].
        cbn [app stops]. intros Hin.
        revert Da. apply (disjb_disj [RIGHT_PAREN] starts_unary); auto.
  - (* DA_one *)
    intros ts e D IH f m acc rest Hf Hm Hs. destruct m as [|m]; [inversion Hm|].
    cbn [args_loop]. rewrite (IH f Hf rest).
    + cbn [bind]. rewrite match_tok_miss; auto.
      eapply stops_incl; [|exact Hs]. apply inclb_incl. reflexivity.
    + eapply stops_incl; [|exact Hs]. apply incl_tl, incl_refl.
  - (* DA_cons *)
    intros ts e c rest' es D IH Hc Da IHa f m acc rest Hf Hm Hs.
    rewrite app_length in Hf, Hm. simpl in Hf, Hm.
    destruct m as [|m]; [inversion Hm|].
    cbn [args_loop]. rewrite <- app_assoc. cbn [app].
    rewrite (IH f ltac:(lia) (c :: rest' ++ rest)) by (now apply (stops_head _ COMMA)).
    cbn [bind]. rewrite (match_tok_hit1 COMMA c _ Hc) by discriminate.
    rewrite (IHa f m (acc ++ [e]) rest) by (auto; lia).
    now rewrite <- app_assoc.
  - (* DP_var *)
    intros t Ht f Hf m rest Hm Hs. cbn [app]. rewrite primary_nb by auto.
    unfold primary_nobracket. now rewrite Ht.
  - (* DP_level *)
    intros t lb tl lv lv' rb Ht Hlb D IH Hlc Hrb f Hf m rest Hm Hs.
    simpl in Hf, Hm. rewrite app_length in Hf, Hm. simpl in Hf, Hm.
    destruct m as [|m]; [inversion Hm|].
    cbn [app primary]. rewrite Ht, Hlb. cbn [kind_eqb]. rewrite <- app_assoc. cbn [app].
    replace (kind_eqb IDENTIFIER IDENTIFIER && kind_eqb LEFT_BRACKET LEFT_BRACKET) with true
      by reflexivity.
    rewrite (IH f ltac:(lia) m (rb :: rest)); [|lia|now apply (stops_head _ RIGHT_BRACKET)].
    cbn [bind]. rewrite Hlc. cbn [bind].
    rewrite (consume_hit RIGHT_BRACKET rb rest Hrb) by discriminate. reflexivity.
  - (* DP_number *)
    intros t v Ht Hl f Hf m rest Hm Hs. cbn [app].
    rewrite primary_nb by (left; destruct Ht as [Ht|Ht]; rewrite Ht; discriminate).
    unfold primary_nobracket. destruct Ht as [Ht|Ht]; now rewrite Ht, Hl.
  - (* DP_string *)
    intros t v Ht Hl f Hf m rest Hm Hs. cbn [app].
    rewrite primary_nb by (left; rewrite Ht; discriminate).
    unfold primary_nobracket. now rewrite Ht, Hl.
  - (* DP_bqname *)
    intros t Ht f Hf m rest Hm Hs. cbn [app].
    rewrite primary_nb by (left; rewrite Ht; discriminate).
    unfold primary_nobracket. now rewrite Ht.
  - (* DP_group *)
    intros lp ts e rp Hlp D IH Hrp f Hf m rest Hm Hs.
    simpl in Hf. rewrite app_length in Hf. simpl in Hf.
    cbn [app]. rewrite primary_nb by (left; rewrite Hlp; discriminate).
    unfold primary_nobracket. rewrite Hlp. rewrite <- app_assoc. cbn [app].
    rewrite (IH f ltac:(lia) (rp :: rest)) by (now apply (stops_head _ RIGHT_PAREN)).
    cbn [bind]. rewrite (consume_hit RIGHT_PAREN rp rest Hrp) by discriminate. reflexivity.
  - (* DP_brace *)
    intros lb ts e rb Hlb D IH Hrb f Hf m rest Hm Hs.
    simpl in Hf. rewrite app_length in Hf. simpl in Hf.
    cbn [app]. rewrite primary_nb by (left; rewrite Hlb; discriminate).
    unfold primary_nobracket. rewrite Hlb. rewrite <- app_assoc. cbn [app].
    rewrite (IH f ltac:(lia) (rb :: rest)) by (now apply (stops_head _ RIGHT_BRACE)).
    cbn [bind]. rewrite (consume_hit RIGHT_BRACE rb rest Hrb) by discriminate. reflexivity.
Qed.

(* ------------------------------------------------------------------------------------------ *)
(** * Main theorems *)

(* [expression] with enough fuel parses exactly a derivable phrase when what follows cannot
   continue an expression *)
Theorem expression_complete ts e f rest :
  DExpr ts e -> List.length ts < f -> stops EF rest -> expression f (ts ++ rest) = Ok (e, rest).
Proof. intros D Hf Hs. destruct complete_all as (H & _). exact (H ts e D f Hf rest Hs). Qed.

Lemma at_end_stops F rest : memb EOF F = false -> at_end rest = true -> stops F rest.
Proof.
  destruct rest as [|t r]; simpl; auto. intros HF H. apply kind_eqb_eq in H. rewrite H.
  now apply notin_b.
Qed.

(* 1. Completeness.  No side condition is needed: the token kinds of [body] are all fixed by the
   derivation (see [DExpr_no_eof] below), and [body] is non-empty by [DExpr_first]. *)
Theorem parse_complete body e rest :
  DExpr body e -> at_end rest = true -> parse (body ++ rest) = Ok e.
Proof.
  intros D Hend. unfold parse, parse_with, parse_checks_eof.
  destruct (body ++ rest) as [|t0 ts0] eqn:E.
  - apply DExpr_first in D. destruct body; simpl in D; [tauto | discriminate].
  - rewrite <- E. rewrite (expression_complete body e _ rest D).
    + cbn [bind]. now rewrite Hend.
    + rewrite app_length. lia.
    + apply at_end_stops; auto.
Qed.

Corollary parse_complete_eof body e eof :
  DExpr body e -> tkind eof = EOF -> parse (body ++ [eof]) = Ok e.
Proof.
  intros D H. apply parse_complete; auto. simpl. now apply kind_eqb_eq.
Qed.

Corollary sentence_complete ts e : Sentence ts e -> parse ts = Ok e.
Proof. intros (body & rest & -> & Hend & D). now apply parse_complete. Qed.

(* 3. The parser accepts exactly the sentences of the grammar (for every token list, not only
   those of the form the scanner produces). *)
Theorem parse_iff ts e : parse ts = Ok e <-> Sentence ts e.
Proof. split; [apply parse_sound | apply sentence_complete]. Qed.

(* 2. Unambiguity: a token list has at most one abstract syntax tree ... *)
Theorem grammar_unambiguous body e1 e2 : DExpr body e1 -> DExpr body e2 -> e1 = e2.
Proof.
  intros D1 D2.
  pose proof (parse_complete body e1 [] D1 eq_refl) as H1.
  pose proof (parse_complete body e2 [] D2 eq_refl) as H2.
  congruence.
Qed.

(* ... even when the split between sentence body and end marker is not fixed in advance *)
Corollary sentence_unique ts e1 e2 : Sentence ts e1 -> Sentence ts e2 -> e1 = e2.
Proof. intros H1 H2. apply sentence_complete in H1, H2. congruence. Qed.

(* 4. Fuel adequacy on sentences *)
Corollary parse_fuel_enough ts e : Sentence ts e -> parse ts <> Err OutOfFuel.
Proof. intros H. apply sentence_complete in H. congruence. Qed.

(* The tokens of a derivable phrase never have kind EOF, i.e. derivable phrases have the shape of
   a scanner output without its end marker. *)
Definition no_eof (ts : list token) : Prop := Forall (fun t => tkind t <> EOF) ts.

Lemma no_eof_all :
  (forall ts e, DExpr ts e -> no_eof ts) /\
  (forall c ts e, DLev c ts e -> no_eof ts) /\
  (forall ts e, DUnary ts e -> no_eof ts) /\
  (forall ts e, DCall ts e -> no_eof ts) /\
  (forall ts es, DArgs ts es -> no_eof ts) /\
  (forall ts e, DPrimary ts e -> no_eof ts).
Proof.
  unfold no_eof.
  apply D_mutind; intros; auto;
    repeat match goal with H : _ \/ _ |- _ => destruct H end;
    repeat (first [apply Forall_app; split | apply Forall_cons | apply Forall_nil]);
    auto; congruence.
Qed.

Lemma DExpr_no_eof ts e : DExpr ts e -> no_eof ts.
Proof. apply no_eof_all. Qed.

(* ------------------------------------------------------------------------------------------ *)
(** * Fuel adequacy on every input: [parse] never answers OutOfFuel *)

Definition shrinks (p : P) : Prop :=
  forall ts e rest, p ts = Ok (e, rest) -> List.length rest <= List.length ts.

Lemma sound_shrinks p D : sound p D -> shrinks p.
Proof. intros H ts e rest Hp. apply H in Hp as (pre & -> & _). rewrite app_length. lia. Qed.

(* p does not run out of fuel on inputs of length at most n *)
Definition noof (n : nat) (p : P) : Prop :=
  forall ts, List.length ts <= n -> p ts <> Err OutOfFuel.

Lemma bind_noof {A B} (r : res A) (f : A -> res B) :
  r <> Err OutOfFuel -> (forall a, r = Ok a -> f a <> Err OutOfFuel) ->
  bind r f <> Err OutOfFuel.
Proof. destruct r as [a|k]; simpl; intros H1 H2; [now apply H2 | congruence]. Qed.

Lemma consume_noof k ts : consume k ts <> Err OutOfFuel.
Proof. unfold consume. destruct (match_tok [k] ts) as [[? ?]|]; discriminate. Qed.

Lemma level_check_noof lv : level_check lv <> Err OutOfFuel.
Proof.
  unfold level_check. destruct lv; try discriminate.
  - destruct level; discriminate.
  - destruct v; discriminate.
Qed.

Section BinFuel.
  Variable next : P.
  Variable ks : list kind.
  Variable n : nat.
  Hypothesis Hn : noof n next.
  Hypothesis Hs : shrinks next.

  Lemma binloop_shrinks m :
    forall e0 ts e rest,
      binloop next ks m e0 ts = Ok (e, rest) -> List.length rest <= List.length ts.
  Proof.
    induction m as [|m IH]; intros e0 ts e rest H; simpl in H; [discriminate|].
    destruct (match_tok ks ts) as [[op ts']|] eqn:Hm.
    - apply match_tok_some in Hm as (-> & _ & _).
      apply bind_ok in H as ((r & ts'') & Hx & H). apply Hs in Hx. apply IH in H. simpl. lia.
    - inversion H; subst. lia.
  Qed.

  Lemma binloop_noof m :
    forall e0 ts, List.length ts <= n -> List.length ts < m ->
                  binloop next ks m e0 ts <> Err OutOfFuel.
  Proof.
    induction m as [|m IH]; intros e0 ts H1 H2; [lia|]. simpl.
    destruct (match_tok ks ts) as [[op ts']|] eqn:Hm; [|discriminate].
    apply match_tok_some in Hm as (-> & _ & _). simpl in H1, H2.
    apply bind_noof; [apply Hn; lia|]. intros (r & ts'') Hx. apply Hs in Hx. apply IH; lia.
  Qed.

  Lemma binlevel_noof : noof n (binlevel next ks).
  Proof.
    intros ts Hl. unfold binlevel. apply bind_noof; [now apply Hn|].
    intros (e & ts') Hx. apply Hs in Hx. apply binloop_noof; lia.
  Qed.
End BinFuel.

Lemma levels_noof base c n :
  sound base (DLev []) -> noof n base -> noof n (levels base c).
Proof.
  intros Hb Hn. induction c as [|ks c IH]; simpl; auto.
  apply binlevel_noof; auto. eapply sound_shrinks. apply levels_sound; eauto.
Qed.

Section InnerFuel.
  Variable expression : P.
  Variable n : nat.
  Hypothesis Hsound : sound expression DExpr.
  (* nested expressions are only ever parsed after at least one token has been consumed *)
  Hypothesis Hex : forall ts, List.length ts < n -> expression ts <> Err OutOfFuel.

  Lemma primary_nobracket_noof : noof n (primary_nobracket expression).
  Proof.
    intros ts Hl. unfold primary_nobracket. destruct ts as [|t r]; [discriminate|].
    simpl in Hl.
    destruct (tkind t); try discriminate; try (destruct (literal t); discriminate).
    all: apply bind_noof; [apply Hex; lia|]; intros (e & r') _;
      apply bind_noof; [apply consume_noof|]; intros; discriminate.
  Qed.

  Lemma primary_noof m :
    forall ts, List.length ts <= n -> List.length ts <= m ->
               primary expression m ts <> Err OutOfFuel.
  Proof.
    induction m as [|m IH]; intros ts H1 H2.
    - destruct ts; [|simpl in H2; lia]. simpl. discriminate.
    - destruct ts as [|t [|b r]]; cbn [primary]; try (now apply primary_nobracket_noof).
      destruct (kind_eqb (tkind t) IDENTIFIER && kind_eqb (tkind b) LEFT_BRACKET);
        [|now apply primary_nobracket_noof].
      simpl in H1, H2.
      apply bind_noof; [apply IH; lia|]. intros (lv & r') _.
      apply bind_noof; [apply level_check_noof|]. intros lv' _.
      apply bind_noof; [apply consume_noof|]. intros; discriminate.
  Qed.

  Lemma args_loop_noof m :
    forall acc ts, List.length ts < n -> List.length ts < m ->
                   args_loop expression m acc ts <> Err OutOfFuel.
  Proof.
    induction m as [|m IH]; intros acc ts H1 H2; [lia|]. cbn [args_loop].
    apply bind_noof; [now apply Hex|]. intros (a & r) Hx.
    apply (sound_shrinks _ _ Hsound) in Hx.
    destruct (match_tok [COMMA] r) as [[c r']|] eqn:Hm; [|discriminate].
    apply match_tok_some in Hm as (-> & _ & _). simpl in Hx. apply IH; lia.
  Qed.

  Lemma finishcall_noof callee ts :
    List.length ts < n -> finishcall expression callee ts <> Err OutOfFuel.
  Proof.
    intros Hl. unfold finishcall. destruct (match_tok [RIGHT_PAREN] ts) as [[? ?]|].
    - apply bind_noof; [apply consume_noof|]. intros; discriminate.
    - apply bind_noof; [apply args_loop_noof; lia|]. intros (args & r) _.
      apply bind_noof; [apply consume_noof|]. intros; discriminate.
  Qed.

  Lemma finishcall_shrinks callee ts e rest :
    finishcall expression callee ts = Ok (e, rest) -> List.length rest <= List.length ts.
  Proof.
    unfold finishcall. intros H. destruct (match_tok [RIGHT_PAREN] ts) as [[? ?]|].
    - apply bind_ok in H as (r' & Hc & H). inversion H; subst.
      apply consume_ok in Hc as (rp & -> & _). simpl. lia.
    - apply bind_ok in H as ((args & r) & Ha & H).
      apply bind_ok in H as (r' & Hc & H). inversion H; subst.
      apply (args_loop_sound _ Hsound) in Ha as (pre & more & -> & _ & _).
      apply consume_ok in Hc as (rp & -> & _). rewrite app_length. simpl. lia.
  Qed.

  Lemma call_loop_noof m :
    forall e ts, List.length ts <= n -> List.length ts < m ->
                 call_loop expression m e ts <> Err OutOfFuel.
  Proof.
    induction m as [|m IH]; intros e ts H1 H2; [lia|]. cbn [call_loop].
    destruct (match_tok [LEFT_PAREN] ts) as [[lp r]|] eqn:Hm; [|discriminate].
    apply match_tok_some in Hm as (-> & _ & _). simpl in H1, H2.
    apply bind_noof; [apply finishcall_noof; lia|]. intros (e' & r') Hx.
    apply finishcall_shrinks in Hx. apply IH; lia.
  Qed.

  Lemma call_noof : noof n (call expression).
  Proof.
    intros ts Hl. unfold call. apply bind_noof; [apply primary_noof; lia|].
    intros (e & r) Hx. apply (sound_shrinks _ _ (primary_sound _ Hsound _)) in Hx.
    apply call_loop_noof; lia.
  Qed.

  Lemma unary_noof : noof n (unary expression).
  Proof.
    intros ts. induction ts as [|t r IH]; intros Hl; cbn [unary].
    - now apply call_noof.
    - destruct (negb (kind_eqb (tkind t) EOF) && is_kind unary_kinds t).
      + apply bind_noof; [apply IH; simpl in Hl; lia|]. intros (e & r') _. discriminate.
      + now apply call_noof.
  Qed.

  Lemma levels_unary_noof c : noof n (levels (unary expression) c).
  Proof. apply levels_noof; [now apply unary_sound_lev | apply unary_noof]. Qed.

  Lemma levels_unary_shrinks c : shrinks (levels (unary expression) c).
  Proof. eapply sound_shrinks. apply levels_sound. now apply unary_sound_lev. Qed.

  Lemma tilde_noof : noof n (tilde expression).
  Proof.
    intros ts Hl. unfold tilde, random_effect, addition.
    apply bind_noof; [now apply levels_unary_noof|]. intros (e & r) Hx.
    apply levels_unary_shrinks in Hx.
    destruct (match_tok [TILDE] r) as [[op r']|] eqn:Hm; [|discriminate].
    apply match_tok_some in Hm as (-> & _ & _). simpl in Hx.
    apply bind_noof; [apply levels_unary_noof; lia|]. intros (rhs & r'') _. discriminate.
  Qed.

  Lemma assignment_noof : noof n (assignment expression).
  Proof.
    intros ts Hl. unfold assignment, addition.
    apply bind_noof; [now apply tilde_noof|]. intros (e & r) Hx.
    apply (tilde_sound _ Hsound) in Hx as (pre & -> & _). rewrite app_length in Hl.
    destruct (match_tok [EQUAL] r) as [[op r']|] eqn:Hm; [|discriminate].
    apply match_tok_some in Hm as (-> & _ & _). simpl in Hl.
    apply bind_noof; [apply levels_unary_noof; lia|]. intros (rhs & r'') _.
    destruct e; discriminate.
  Qed.
End InnerFuel.

Lemma expression_noof f : forall ts, List.length ts < f -> expression f ts <> Err OutOfFuel.
Proof.
  induction f as [|f IH]; intros ts Hl; [lia|]. cbn [expression].
  apply (assignment_noof _ f (expression_sound f) IH). lia.
Qed.

(* 4'. The fuel given by [parse] to every loop and to the nesting of expressions is always enough *)
Theorem parse_never_out_of_fuel ts : parse ts <> Err OutOfFuel.
Proof.
  unfold parse, parse_with, parse_checks_eof. destruct ts as [|t ts]; [discriminate|].
  apply bind_noof; [apply expression_noof; lia|]. intros (e & r) _.
  destruct (at_end r); discriminate.
Qed.
