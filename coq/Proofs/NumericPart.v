(* C03 / C13 -- the coding of the categorical factor of a numeric-categorical interaction [a:N]
   depends on whether the NUMERIC PART N (as a term, under the name the model spells it with,
   [concat_with ":" N]) is itself a term of the model -- and on nothing else, in particular not
   on the numeric main effects. *)
From Coq Require Import Lia.
From Verif Require Import Base Contrasts ContrastsPartition.
Local Open Scope string_scope.
Local Open Scope list_scope.
Local Open Scope nat_scope.

(* ---------- 1. dictionaries ---------- *)
Lemma dict_set_In {V} k (v : V) d kv : In kv (dict_set k v d) -> kv = (k, v) \/ In kv d.
Proof.
  induction d as [|[k' v'] r IH]; cbn; [intros [H|[]]; auto|].
  destruct (String.eqb k k'); cbn; intros [H|H]; auto.
  destruct (IH H); auto.
Qed.

Lemma dict_set_keep {V} k (v : V) d k0 v0 : k0 <> k -> In (k0, v0) d -> In (k0, v0) (dict_set k v d).
Proof.
  intros Hne. induction d as [|[k' v'] r IH]; cbn; [intros []|].
  destruct (String.eqb k k') eqn:E; cbn; intros [H|H]; auto.
  apply String.eqb_eq in E. inversion H; subst. congruence.
Qed.

Lemma dict_set_has {V} k (v : V) d : In (k, v) (dict_set k v d).
Proof.
  induction d as [|[k' v'] r IH]; cbn; auto.
  destruct (String.eqb k k'); cbn; auto.
Qed.

Lemma dict_set_keys {V} k (v : V) d :
  map fst (dict_set k v d) = if existsb (String.eqb k) (map fst d) then map fst d else map fst d ++ [k].
Proof.
  induction d as [|[k' v'] r IH]; cbn; auto.
  destruct (String.eqb k k') eqn:E; cbn.
  - apply String.eqb_eq in E. subst. reflexivity.
  - rewrite IH. destruct (existsb (String.eqb k) (map fst r)); reflexivity.
Qed.

Lemma existsb_eqb_In k l : existsb (String.eqb k) l = true <-> In k l.
Proof.
  rewrite existsb_exists. split.
  - intros [x [H E]]. apply String.eqb_eq in E. subst. exact H.
  - intros H. exists k. split; auto. apply String.eqb_refl.
Qed.

Lemma dict_set_NoDup {V} k (v : V) d : NoDup (map fst d) -> NoDup (map fst (dict_set k v d)).
Proof.
  intros H. rewrite dict_set_keys. destruct (existsb (String.eqb k) (map fst d)) eqn:E; auto.
  apply NoDup_app_intro; auto; [repeat constructor; intros []|].
  intros x Hx [Hk|[]]. subst. apply existsb_eqb_In in Hx. congruence.
Qed.

Lemma dict_set_keys_In {V} k (v : V) d x : In x (map fst (dict_set k v d)) <-> x = k \/ In x (map fst d).
Proof.
  rewrite dict_set_keys. destruct (existsb (String.eqb k) (map fst d)) eqn:E.
  - apply existsb_eqb_In in E. split; auto. intros [H|H]; subst; auto.
  - rewrite in_app_iff. cbn. intuition.
Qed.

Lemma dict_get_set_same {V} k (v : V) d : dict_get k (dict_set k v d) = Some v.
Proof.
  induction d as [|[k' v'] r IH]; cbn; [rewrite String.eqb_refl; auto|].
  destruct (String.eqb k k') eqn:E; cbn; [rewrite String.eqb_refl; auto|rewrite E; auto].
Qed.

Lemma dict_get_In {V} k (d : list (string * V)) : dict_get k d <> None <-> In k (map fst d).
Proof.
  induction d as [|[k' v'] r IH]; cbn; [intuition|].
  destruct (String.eqb k k') eqn:E.
  - apply String.eqb_eq in E. subst. split; auto. discriminate.
  - apply String.eqb_neq in E. rewrite IH. intuition congruence.
Qed.

(* ---------- 2. the shape of the model around the term ---------- *)
Definition cat_of (comps : list (string * ckind)) : list string :=
  map fst (filter (fun c => ckind_eqb (snd c) KCategoric) comps).
Definition num_of (comps : list (string * ckind)) : list string :=
  map fst (filter (fun c => ckind_eqb (snd c) KNumeric) comps).

(* an interaction with at least one categorical and one numeric component *)
Definition mixed (t : tinfo) : bool :=
  match t with
  | TInter _ comps => match cat_of comps, num_of comps with _ :: _, _ :: _ => true | _, _ => false end
  | _ => false
  end.

(* the other terms: not a numeric-categorical interaction, and not named like the term *)
Definition other (name : string) (t : tinfo) : Prop := mixed t = false /\ tinfo_name t <> name.

Definition around (name : string) (T : tinfo) (ts : list tinfo) : Prop :=
  exists pre post, ts = pre ++ T :: post /\ Forall (other name) pre /\ Forall (other name) post.

Lemma Forall_filter {A} (P : A -> Prop) p l : Forall P l -> Forall P (filter p l).
Proof. induction 1; cbn; auto. destruct (p x); auto. Qed.

Lemma around_intercept_first name T ts :
  T <> TIntercept -> around name T ts -> around name T (intercept_first ts).
Proof.
  intros HT (pre & post & -> & Hp & Hq). unfold intercept_first.
  destruct (existsb _ _) eqn:E; [|exists pre, post; auto].
  rewrite filter_app. cbn [filter].
  destruct T; try congruence;
    (eexists (TIntercept :: filter _ pre), (filter _ post); split; [reflexivity|split];
     [constructor; [|apply Forall_filter; auto]|apply Forall_filter; auto]).
  all: apply existsb_exists in E; destruct E as [x [Hx Ex]]; destruct x; try discriminate;
    apply in_app_iff in Hx; destruct Hx as [Hx|[Hx|Hx]]; try discriminate;
    [rewrite Forall_forall in Hp; apply Hp; auto | rewrite Forall_forall in Hq; apply Hq; auto].
Qed.

Lemma intercept_first_names x ts :
  In x (map tinfo_name (intercept_first ts)) <-> In x (map tinfo_name ts).
Proof.
  unfold intercept_first. destruct (existsb _ _) eqn:E; [|tauto].
  apply existsb_exists in E. destruct E as [t [Ht Et]]. destruct t; try discriminate.
  cbn [map In]. rewrite !in_map_iff. split.
  - intros [H|[y [Hy Hin]]]; [exists TIntercept; auto|].
    apply filter_In in Hin. exists y. tauto.
  - intros [y [Hy Hin]]. destruct y; [left; auto|right..].
    + exists (TMain name k). split; auto. apply filter_In. auto.
    + exists (TInter name comps). split; auto. apply filter_In. auto.
Qed.

(* ---------- 3. the components dictionary ---------- *)
Definition cdict (ts : list tinfo) (d0 : list (string * tinfo)) : list (string * tinfo) :=
  fold_left (fun d t => dict_set (tinfo_name t) t d) ts d0.

Lemma cdict_inv (P : string * tinfo -> Prop) ts : forall d0,
  Forall P d0 -> Forall (fun t => P (tinfo_name t, t)) ts -> Forall P (cdict ts d0).
Proof.
  induction ts as [|t r IH]; cbn; auto. intros d0 H0 Hts. inversion Hts; subst.
  apply IH; auto. apply Forall_forall. intros kv Hkv. apply dict_set_In in Hkv.
  destruct Hkv as [->|Hkv]; auto. rewrite Forall_forall in H0. auto.
Qed.

Lemma cdict_NoDup ts : forall d0, NoDup (map fst d0) -> NoDup (map fst (cdict ts d0)).
Proof. induction ts as [|t r IH]; cbn; auto. intros. apply IH. apply dict_set_NoDup; auto. Qed.

Lemma cdict_keys ts x : forall d0,
  In x (map fst (cdict ts d0)) <-> In x (map fst d0) \/ In x (map tinfo_name ts).
Proof.
  induction ts as [|t r IH]; cbn; [tauto|]. intros d0. rewrite IH, dict_set_keys_In.
  intuition (subst; auto).
Qed.

Lemma cdict_keep ts k v : forall d0,
  In (k, v) d0 -> Forall (fun t => tinfo_name t <> k) ts -> In (k, v) (cdict ts d0).
Proof.
  induction ts as [|t r IH]; cbn; auto. intros d0 H0 Hts. inversion Hts; subst.
  apply IH; auto. apply dict_set_keep; auto.
Qed.

Lemma cdict_app a b d0 : cdict (a ++ b) d0 = cdict b (cdict a d0).
Proof. apply fold_left_app. Qed.

Lemma components_split name T ts :
  tinfo_name T = name -> around name T ts ->
  exists d1 d2, components_dict ts = d1 ++ (name, T) :: d2 /\
                Forall (fun kv => mixed (snd kv) = false) d1 /\
                Forall (fun kv => mixed (snd kv) = false) d2.
Proof.
  intros HT (pre & post & -> & Hp & Hq).
  change (components_dict (pre ++ T :: post)) with (cdict (pre ++ T :: post) []).
  set (d := cdict (pre ++ T :: post) []).
  assert (HIn : In (name, T) d).
  { unfold d. rewrite cdict_app. cbn. apply cdict_keep; [rewrite HT; apply dict_set_has|].
    eapply Forall_impl; [|exact Hq]. intros t [_ H]. exact H. }
  assert (HND : NoDup (map fst d)) by (apply cdict_NoDup; constructor).
  assert (HP : Forall (fun kv => fst kv = name \/ mixed (snd kv) = false) d).
  { apply cdict_inv; [constructor|]. apply Forall_app. split; [|constructor].
    - eapply Forall_impl; [|exact Hp]. cbn. intros t [H _]. auto.
    - cbn. auto.
    - eapply Forall_impl; [|exact Hq]. cbn. intros t [H _]. auto. }
  destruct (in_split _ _ HIn) as (d1 & d2 & Hd). exists d1, d2. split; auto.
  rewrite Hd in HND, HP. rewrite map_app in HND. cbn in HND.
  apply Forall_app in HP. destruct HP as [H1 H2]. inversion H2; subst.
  split; apply Forall_forall; intros kv Hkv.
  - rewrite Forall_forall in H1. destruct (H1 kv Hkv) as [E|E]; auto.
    exfalso. apply NoDup_remove_2 in HND. apply HND. apply in_app_iff. left.
    rewrite <- E. apply in_map. exact Hkv.
  - rewrite Forall_forall in H4. destruct (H4 kv Hkv) as [E|E]; auto.
    exfalso. apply NoDup_remove_2 in HND. apply HND. apply in_app_iff. right.
    rewrite <- E. apply in_map. exact Hkv.
Qed.

(* ---------- 4. the numeric groups ---------- *)
Definition ng_step (d : list (string * tinfo))
           (acc : list (list string * list (string * list factor))) (kv : string * tinfo) :=
  match snd kv with
  | TInter n comps =>
      let cat := map fst (filter (fun c => ckind_eqb (snd c) KCategoric) comps) in
      let num := map fst (filter (fun c => ckind_eqb (snd c) KNumeric) comps) in
      match cat, num with
      | _ :: _, _ :: _ =>
          let numeric_part := concat_with ":" num in
          let acc1 :=
            match index_where (fun g => str_set_eqb (fst g) num) acc 0 with
            | Some _ => acc
            | None => (acc ++ [(num, [])])%list
            end in
          map (fun g =>
                 if str_set_eqb (fst g) num then
                   let g1 := match dict_get numeric_part d with
                             | Some _ => dict_set numeric_part [] (snd g)
                             | None => snd g end in
                   (fst g, dict_set (fst kv) cat g1)
                 else g) acc1
      | _, _ => acc
      end
  | _ => acc
  end.

Lemma numeric_groups_fold d : numeric_groups d = fold_left (ng_step d) d [].
Proof. reflexivity. Qed.

Lemma ng_step_unmixed d acc kv : mixed (snd kv) = false -> ng_step d acc kv = acc.
Proof.
  unfold ng_step, mixed, cat_of, num_of. destruct (snd kv); auto.
  destruct (map fst (filter _ comps)); auto.
  destruct (map fst (filter _ comps)); auto. discriminate.
Qed.

Lemma ng_fold_unmixed d l : forall acc,
  Forall (fun kv => mixed (snd kv) = false) l -> fold_left (ng_step d) l acc = acc.
Proof.
  induction l as [|kv r IH]; cbn; auto. intros acc H. inversion H; subst.
  rewrite ng_step_unmixed; auto.
Qed.

Lemma str_set_eqb_refl l : str_set_eqb l l = true.
Proof.
  unfold str_set_eqb. assert (forallb (fun x => existsb (String.eqb x) l) l = true).
  { apply forallb_forall. intros x Hx. apply existsb_eqb_In. exact Hx. }
  rewrite H. reflexivity.
Qed.

(* ---------- 4b. terms that contribute nothing to the categorical group ---------- *)
Definition noncat (t : tinfo) : bool :=
  match t with
  | TIntercept => true
  | TMain _ k => negb (ckind_eqb k KCategoric)
  | TInter _ comps => negb (forallb (fun c => ckind_eqb (snd c) KCategoric) comps)
  end.

Definition cg_step (acc : list (string * list factor)) (kv : string * tinfo) :=
  match snd kv with
  | TMain n KCategoric => dict_set (fst kv) [fst kv] acc
  | TIntercept => dict_set (fst kv) [] acc
  | TInter n comps =>
      if forallb (fun c => ckind_eqb (snd c) KCategoric) comps
      then dict_set (fst kv) (map fst comps) acc else acc
  | _ => acc
  end.

Lemma categoric_group_fold d : categoric_group d = fold_left cg_step d [].
Proof. reflexivity. Qed.

Definition only_intercept (acc : list (string * list factor)) : Prop :=
  acc = [] \/ acc = [("Intercept", [])].

Lemma cg_fold_noncat d : forall acc,
  Forall (fun kv => fst kv = tinfo_name (snd kv) /\ noncat (snd kv) = true) d ->
  only_intercept acc -> only_intercept (fold_left cg_step d acc).
Proof.
  induction d as [|[k v] r IH]; cbn [fold_left]; auto. intros acc H Ha. inversion H; subst.
  apply IH; auto. destruct H2 as [Hk Hv]. cbn in Hk, Hv. subst k. unfold cg_step. cbn [fst snd].
  destruct v; cbn in Hv |- *.
  - destruct Ha as [->| ->]; [right|right]; reflexivity.
  - destruct k; auto; discriminate.
  - destruct (forallb _ comps); auto; discriminate.
Qed.

Lemma noncat_categoric_group_ok ts :
  Forall (fun t => noncat t = true) ts ->
  exists rc, pick_contrasts (categoric_group (components_dict (intercept_first ts))) = Ok rc.
Proof.
  intros H.
  assert (H' : Forall (fun t => noncat t = true) (intercept_first ts)).
  { unfold intercept_first. destruct (existsb _ ts); auto. constructor; auto. apply Forall_filter; auto. }
  assert (Hd : Forall (fun kv => fst kv = tinfo_name (snd kv) /\ noncat (snd kv) = true)
                      (components_dict (intercept_first ts))).
  { change (components_dict (intercept_first ts)) with (cdict (intercept_first ts) []).
    apply cdict_inv; [constructor|]. eapply Forall_impl; [|exact H']. cbn. auto. }
  rewrite categoric_group_fold.
  destruct (cg_fold_noncat _ [] Hd (or_introl eq_refl)) as [-> | ->]; eexists; reflexivity.
Qed.

(* ---------- 5. the coding of the factor ---------- *)
Section NumericPart.
  Variables (name a : string) (comps : list (string * ckind)) (N : list string).
  Local Notation T := (TInter name comps).
  Local Notation np := (concat_with ":" N).
  Hypothesis Hcat : cat_of comps = [a].
  Hypothesis Hnum : num_of comps = N.
  Hypothesis HN : N <> [].
  Hypothesis Hname : name <> np.

  Variable ts : list tinfo.
  Hypothesis Hts : around name T ts.

  Definition np_group (present : bool) : list (string * list factor) :=
    if present then [(np, []); (name, [a])] else [(name, [a])].

  Lemma numeric_groups_single :
    let d := components_dict (intercept_first ts) in
    numeric_groups d = [(N, np_group (if dict_get np d then true else false))].
  Proof.
    intros d.
    destruct (components_split name T (intercept_first ts)) as (d1 & d2 & Hd & H1 & H2);
      [reflexivity|apply around_intercept_first; [discriminate|exact Hts]|].
    fold d in Hd. rewrite numeric_groups_fold. rewrite Hd at 2.
    rewrite fold_left_app. cbn [fold_left]. rewrite (ng_fold_unmixed d d1) by exact H1.
    rewrite (ng_fold_unmixed d d2) by exact H2.
    unfold ng_step. cbn [snd fst]. fold (cat_of comps). fold (num_of comps).
    rewrite Hcat, Hnum. destruct N as [|n0 N'] eqn:EN; [congruence|]. rewrite <- EN.
    cbn [index_where app map fst snd]. rewrite str_set_eqb_refl.
    unfold np_group. destruct (dict_get np d); [|reflexivity].
    cbn [dict_set]. destruct (String.eqb name np) eqn:E; [apply String.eqb_eq in E; congruence|].
    reflexivity.
  Qed.

  Lemma pick_np_group_present :
    pick_contrasts (np_group true) = Ok [(np, [[]]); (name, [[(a, false)]])].
  Proof.
    unfold np_group, pick_contrasts. cbn. destruct (String.eqb name np) eqn:E;
      [apply String.eqb_eq in E; congruence|reflexivity].
  Qed.

  Lemma pick_np_group_absent :
    pick_contrasts (np_group false) = Ok [(name, [[(a, true)]])].
  Proof. reflexivity. Qed.

  Lemma np_present_iff :
    dict_get np (components_dict (intercept_first ts)) <> None <-> In np (map tinfo_name ts).
  Proof.
    rewrite dict_get_In. change (components_dict (intercept_first ts)) with (cdict (intercept_first ts) []).
    rewrite cdict_keys, intercept_first_names. cbn. tauto.
  Qed.

  Lemma encoding_bools_shape r :
    encoding_bools ts = Ok r ->
    dict_get name r =
    Some [[(a, if dict_get np (components_dict (intercept_first ts)) then false else true)]].
  Proof.
    unfold encoding_bools, encoding_groups. rewrite numeric_groups_single. cbn [map snd mapM].
    destruct (pick_contrasts (categoric_group _)) as [rc|e]; [|discriminate]. cbn [bind].
    destruct (dict_get np _).
    - rewrite pick_np_group_present. cbn. intros H. inversion H. apply dict_get_set_same.
    - rewrite pick_np_group_absent. cbn. intros H. inversion H. apply dict_get_set_same.
  Qed.

  (* (f, true) = the factor keeps its own intercept = FULL indicator coding;
     (f, false) = REDUCED coding *)
  Theorem numeric_part_absent_full r :
    ~ In np (map tinfo_name ts) -> encoding_bools ts = Ok r -> dict_get name r = Some [[(a, true)]].
  Proof.
    intros Hn Hr. rewrite (encoding_bools_shape r Hr).
    destruct (dict_get np _) eqn:E; auto. exfalso. apply Hn, np_present_iff. congruence.
  Qed.

  Theorem numeric_part_present_reduced r :
    In np (map tinfo_name ts) -> encoding_bools ts = Ok r -> dict_get name r = Some [[(a, false)]].
  Proof.
    intros Hn Hr. rewrite (encoding_bools_shape r Hr).
    destruct (dict_get np _) eqn:E; auto. exfalso. apply np_present_iff in Hn. congruence.
  Qed.

  Theorem numeric_part_full_iff r :
    encoding_bools ts = Ok r ->
    (dict_get name r = Some [[(a, true)]] <-> ~ In np (map tinfo_name ts)) /\
    (dict_get name r = Some [[(a, false)]] <-> In np (map tinfo_name ts)).
  Proof.
    intros Hr.
    destruct (in_dec string_dec (concat_with ":" N) (map tinfo_name ts)) as [Hin|Hin].
    - pose proof (numeric_part_present_reduced r Hin Hr) as Hs. rewrite Hs.
      split; split; auto; try discriminate. intros H. contradiction.
    - pose proof (numeric_part_absent_full r Hin Hr) as Hs. rewrite Hs.
      split; split; auto; try discriminate. intros H. contradiction.
  Qed.

  (* totality: when no term contributes to the categorical group (numeric main effects, numeric
     interactions, intercept or not), the analysis succeeds *)
  Theorem numeric_part_total :
    Forall (fun t => noncat t = true) ts -> exists r, encoding_bools ts = Ok r.
  Proof.
    intros H. destruct (noncat_categoric_group_ok ts H) as [rc Hrc].
    unfold encoding_bools, encoding_groups. rewrite numeric_groups_single. cbn [map snd mapM].
    rewrite Hrc. cbn [bind].
    destruct (dict_get (concat_with ":" N) _).
    - rewrite pick_np_group_present. cbn. eexists; reflexivity.
    - rewrite pick_np_group_absent. cbn. eexists; reflexivity.
  Qed.
End NumericPart.

(* ---------- 6. the interaction a:x:z under its own name ---------- *)
Lemma length_append s1 s2 : String.length (s1 ++ s2) = String.length s1 + String.length s2.
Proof. induction s1; cbn; auto. Qed.

Fixpoint has_colon (s : string) : bool :=
  match s with
  | EmptyString => false
  | String c r => if Ascii.eqb c ":"%char then true else has_colon r
  end.

Lemma has_colon_app x z : has_colon (x ++ ":" ++ z) = true.
Proof. induction x as [|c r IH]; cbn; auto. destruct (Ascii.eqb c ":"%char); auto. Qed.

Section AXZ.
  Variables a x z : string.
  Definition xz : string := concat_with ":" [x; z].
  Definition axz : string := concat_with ":" [a; x; z].
  Definition Taxz : tinfo := TInter axz [(a, KCategoric); (x, KNumeric); (z, KNumeric)].
  Definition Tx : tinfo := TMain x KNumeric.
  Definition Tz : tinfo := TMain z KNumeric.
  Definition Txz : tinfo := TInter xz [(x, KNumeric); (z, KNumeric)].

  Lemma xz_len : String.length xz = String.length x + 1 + String.length z.
  Proof. unfold xz. cbn [concat_with]. rewrite !length_append. cbn [String.length]. lia. Qed.
  Lemma axz_len : String.length axz = String.length a + 1 + String.length xz.
  Proof. unfold axz, xz. cbn [concat_with]. rewrite !length_append. cbn [String.length]. lia. Qed.

  Lemma axz_ne_xz : axz <> xz.
  Proof. intros H. apply (f_equal String.length) in H. rewrite axz_len in H. lia. Qed.
  Lemma x_ne_xz : x <> xz.
  Proof. intros H. apply (f_equal String.length) in H. rewrite xz_len in H. lia. Qed.
  Lemma z_ne_xz : z <> xz.
  Proof. intros H. apply (f_equal String.length) in H. rewrite xz_len in H. lia. Qed.
  Lemma x_ne_axz : x <> axz.
  Proof. intros H. apply (f_equal String.length) in H. rewrite axz_len, xz_len in H. lia. Qed.
  Lemma z_ne_axz : z <> axz.
  Proof. intros H. apply (f_equal String.length) in H. rewrite axz_len, xz_len in H. lia. Qed.
  Lemma xz_ne_axz : xz <> axz.
  Proof. intros H. symmetry in H. exact (axz_ne_xz H). Qed.
  Lemma intercept_ne_xz : "Intercept" <> xz.
  Proof.
    intros H. apply (f_equal has_colon) in H. unfold xz in H. cbn [concat_with] in H.
    rewrite has_colon_app in H. discriminate.
  Qed.
  Lemma intercept_ne_axz : "Intercept" <> axz.
  Proof.
    intros H. apply (f_equal has_colon) in H. unfold axz in H. cbn [concat_with] in H.
    rewrite has_colon_app in H. discriminate.
  Qed.

  Lemma other_I : other axz TIntercept.
  Proof. split; [reflexivity|exact intercept_ne_axz]. Qed.
  Lemma other_x : other axz Tx. Proof. split; [reflexivity|exact x_ne_axz]. Qed.
  Lemma other_z : other axz Tz. Proof. split; [reflexivity|exact z_ne_axz]. Qed.
  Lemma other_xz : other axz Txz. Proof. split; [reflexivity|exact xz_ne_axz]. Qed.

  (* the general form: any surrounding terms that are not numeric-categorical interactions *)
  Theorem axz_coding pre post r :
    Forall (other axz) pre -> Forall (other axz) post ->
    encoding_bools (pre ++ Taxz :: post) = Ok r ->
    (dict_get axz r = Some [[(a, true)]] <-> ~ In xz (map tinfo_name (pre ++ Taxz :: post))) /\
    (dict_get axz r = Some [[(a, false)]] <-> In xz (map tinfo_name (pre ++ Taxz :: post))).
  Proof.
    intros Hp Hq Hr.
    apply (numeric_part_full_iff axz a [(a, KCategoric); (x, KNumeric); (z, KNumeric)] [x; z]);
      auto; [discriminate|exact axz_ne_xz|exists pre, post; auto].
  Qed.

  Ltac others := repeat (first [apply Forall_nil | apply Forall_cons]);
                 first [exact other_I | exact other_x | exact other_z | exact other_xz].
  Ltac notin := cbn; intros H; repeat (destruct H as [H|H]);
                first [exact (intercept_ne_xz H) | exact (x_ne_xz H) | exact (z_ne_xz H)
                      | exact (axz_ne_xz H) | exact H].

  Definition full_coded (ts : list tinfo) : Prop :=
    exists r, encoding_bools ts = Ok r /\ dict_get axz r = Some [[(a, true)]].
  Definition reduced_coded (ts : list tinfo) : Prop :=
    exists r, encoding_bools ts = Ok r /\ dict_get axz r = Some [[(a, false)]].

  Lemma decide_full pre post :
    Forall (other axz) pre -> Forall (other axz) post ->
    Forall (fun t => noncat t = true) (pre ++ Taxz :: post) ->
    ~ In xz (map tinfo_name (pre ++ Taxz :: post)) -> full_coded (pre ++ Taxz :: post).
  Proof.
    intros Hp Hq Hn Hx.
    destruct (numeric_part_total axz a [(a, KCategoric); (x, KNumeric); (z, KNumeric)] [x; z]
                eq_refl eq_refl ltac:(discriminate) axz_ne_xz (pre ++ Taxz :: post)) as [r Hr];
      [exists pre, post; auto|exact Hn|].
    exists r. split; auto. apply (axz_coding pre post r Hp Hq Hr). exact Hx.
  Qed.

  Lemma decide_reduced pre post :
    Forall (other axz) pre -> Forall (other axz) post ->
    Forall (fun t => noncat t = true) (pre ++ Taxz :: post) ->
    In xz (map tinfo_name (pre ++ Taxz :: post)) -> reduced_coded (pre ++ Taxz :: post).
  Proof.
    intros Hp Hq Hn Hx.
    destruct (numeric_part_total axz a [(a, KCategoric); (x, KNumeric); (z, KNumeric)] [x; z]
                eq_refl eq_refl ltac:(discriminate) axz_ne_xz (pre ++ Taxz :: post)) as [r Hr];
      [exists pre, post; auto|exact Hn|].
    exists r. split; auto. apply (axz_coding pre post r Hp Hq Hr). exact Hx.
  Qed.

  (* y ~ x + z + a:x:z : FULL -- the main effects do not count *)
  Theorem main_effects_do_not_count :
    full_coded [TIntercept; Tx; Tz; Taxz] /\ full_coded [Tx; Tz; Taxz].
  Proof.
    split.
    - apply (decide_full [TIntercept; Tx; Tz] []); [others..| |notin]. repeat constructor.
    - apply (decide_full [Tx; Tz] []); [others..| |notin]. repeat constructor.
  Qed.

  (* y ~ a:x:z : FULL *)
  Theorem alone_full : full_coded [TIntercept; Taxz] /\ full_coded [Taxz].
  Proof.
    split.
    - apply (decide_full [TIntercept] []); [others..| |notin]. repeat constructor.
    - apply (decide_full [] []); [others..| |notin]. repeat constructor.
  Qed.

  (* y ~ x:z + a:x:z and y ~ x + z + x:z + a:x:z : reduced *)
  Theorem numeric_part_term_reduces :
    reduced_coded [TIntercept; Txz; Taxz] /\ reduced_coded [Txz; Taxz] /\
    reduced_coded [TIntercept; Tx; Tz; Txz; Taxz] /\ reduced_coded [Tx; Tz; Txz; Taxz].
  Proof.
    repeat split.
    - apply (decide_reduced [TIntercept; Txz] []); [others..| |cbn; auto]. repeat constructor.
    - apply (decide_reduced [Txz] []); [others..| |cbn; auto]. repeat constructor.
    - apply (decide_reduced [TIntercept; Tx; Tz; Txz] []); [others..| |cbn; auto 6]. repeat constructor.
    - apply (decide_reduced [Tx; Tz; Txz] []); [others..| |cbn; auto 6]. repeat constructor.
  Qed.
End AXZ.

Print Assumptions numeric_part_full_iff.
Print Assumptions numeric_part_absent_full.
Print Assumptions numeric_part_present_reduced.
Print Assumptions numeric_part_total.
Print Assumptions axz_coding.
Print Assumptions main_effects_do_not_count.
Print Assumptions alone_full.
Print Assumptions numeric_part_term_reduces.
