(* C16 -- helper functions and aliases of formulae/transforms.py, on the model functions
   Eval.call_function / Eval.call_stateful and on the tables regenerated from the source. *)
From Verif Require Import Base Tokens Lazy Coding Contrasts Frame Eval Algebra Design.
From Verif Require Import DesignStructure DesignCoding.
From Verif Require Import Generated.
From Coq Require Import Lia Permutation Sorted OrderedTypeEx.
Local Close Scope Qc_scope.
Local Close Scope Q_scope.
Local Open Scope string_scope.
Local Open Scope list_scope.

(* ------------------------------------------------------------------------------------------ *)
(** * Aliases: equalities of model functions *)

Theorem alias_B_binary cx : call_function cx "B" = call_function cx "binary".
Proof. reflexivity. Qed.

Theorem alias_p_prop cx : call_function cx "p" = call_function cx "prop".
Proof. reflexivity. Qed.
Theorem alias_prop_proportion cx : call_function cx "prop" = call_function cx "proportion".
Proof. reflexivity. Qed.
Theorem alias_p_proportion cx : call_function cx "p" = call_function cx "proportion".
Proof. reflexivity. Qed.

Theorem alias_standardize_scale cx : call_stateful cx "standardize" = call_stateful cx "scale".
Proof. reflexivity. Qed.

(* the aliases are also names the evaluator treats alike *)
Example alias_names_known :
  forallb (fun n => existsb (String.eqb n) function_names) ["B"; "binary"; "p"; "prop"; "proportion"; "T"; "S"; "C"; "I"; "offset"] = true
  /\ forallb (fun n => existsb (String.eqb n) stateful_names) ["standardize"; "scale"] = true.
Proof. split; reflexivity. Qed.

(* on lazy call trees: B(...) and binary(...) evaluate alike, whatever the arguments *)
Theorem alias_B_binary_eval cx st args kw :
  eval_lazy cx st (LzCall "B" args kw) = eval_lazy cx st (LzCall "binary" args kw).
Proof. reflexivity. Qed.
Theorem alias_p_proportion_eval cx st args kw :
  eval_lazy cx st (LzCall "p" args kw) = eval_lazy cx st (LzCall "proportion" args kw) /\
  eval_lazy cx st (LzCall "prop" args kw) = eval_lazy cx st (LzCall "proportion" args kw).
Proof. split; reflexivity. Qed.
Theorem alias_standardize_scale_eval cx st args kw :
  eval_lazy cx st (LzCall "standardize" args kw) = eval_lazy cx st (LzCall "scale" args kw).
Proof. reflexivity. Qed.

(** T(x, r) is C(x, Treatment(r)) and S(x, o) is C(x, Sum(o)): for every data argument that is not
    already a CategoricalBox (in particular every string series and every integer series) and
    every second argument whatsoever (accepted or rejected), with or without [levels=]. *)
Definition not_box (x : pyval) : Prop := match x with PBox _ _ _ _ => False | _ => True end.

Theorem T_is_C_Treatment cx x r :
  not_box x ->
  call_function cx "T" [x; r] []
  = (do e <- call_function cx "Treatment" [r] []; call_function cx "C" [x; e] []).
Proof.
  intros Hx. destruct x as [[|] ?|?|? ?|? ?|?|?| |?|?|?|? ? ? ?|? ?|? ? ?]; try contradiction;
  destruct r as [? ?|?|? ?|[|] ?|?|?| |?|?|?|? ? ? ?|? ?|? ? ?]; reflexivity.
Qed.

Theorem S_is_C_Sum cx x o :
  not_box x ->
  call_function cx "S" [x; o] []
  = (do e <- call_function cx "Sum" [o] []; call_function cx "C" [x; e] []).
Proof.
  intros Hx. destruct x as [[|] ?|?|? ?|? ?|?|?| |?|?|?|? ? ? ?|? ?|? ? ?]; try contradiction;
  destruct o as [? ?|?|? ?|[|] ?|?|?| |?|?|?|? ? ? ?|? ?|? ? ?]; reflexivity.
Qed.

Theorem T_is_C_Treatment_levels cx x r lv :
  not_box x ->
  call_function cx "T" [x; r] [("levels", lv)]
  = (do e <- call_function cx "Treatment" [r] []; call_function cx "C" [x; e] [("levels", lv)]).
Proof.
  intros Hx. destruct x as [[|] ?|?|? ?|? ?|?|?| |?|?|?|? ? ? ?|? ?|? ? ?]; try contradiction;
  destruct r as [? ?|?|? ?|[|] ?|?|?| |?|?|?|? ? ? ?|? ?|? ? ?];
  destruct lv; reflexivity.
Qed.

Theorem S_is_C_Sum_levels cx x o lv :
  not_box x ->
  call_function cx "S" [x; o] [("levels", lv)]
  = (do e <- call_function cx "Sum" [o] []; call_function cx "C" [x; e] [("levels", lv)]).
Proof.
  intros Hx. destruct x as [[|] ?|?|? ?|? ?|?|?| |?|?|?|? ? ? ?|? ?|? ? ?]; try contradiction;
  destruct o as [? ?|?|? ?|[|] ?|?|?| |?|?|?|? ? ? ?|? ?|? ? ?];
  destruct lv; reflexivity.
Qed.

(* the one-argument forms: T(x) = C(x, Treatment()), S(x) = C(x, Sum()) *)
Theorem T1_is_C_Treatment cx x :
  not_box x ->
  call_function cx "T" [x] []
  = (do e <- call_function cx "Treatment" [] []; call_function cx "C" [x; e] []).
Proof. intros Hx. destruct x as [[|] ?|?|? ?|? ?|?|?| |?|?|?|? ? ? ?|? ?|? ? ?]; try contradiction; reflexivity. Qed.

Theorem S1_is_C_Sum cx x :
  not_box x ->
  call_function cx "S" [x] []
  = (do e <- call_function cx "Sum" [] []; call_function cx "C" [x; e] []).
Proof. intros Hx. destruct x as [[|] ?|?|? ?|? ?|?|?| |?|?|?|? ? ? ?|? ?|? ? ?]; try contradiction; reflexivity. Qed.

(* the instances the task names *)
Corollary T_is_C_Treatment_strs cx o xs r :
  call_function cx "T" [PStrs o xs; r] []
  = (do e <- call_function cx "Treatment" [r] []; call_function cx "C" [PStrs o xs; e] []).
Proof. apply T_is_C_Treatment. exact I. Qed.
Corollary T_is_C_Treatment_ints cx xs r :
  call_function cx "T" [PSeries true xs; r] []
  = (do e <- call_function cx "Treatment" [r] []; call_function cx "C" [PSeries true xs; e] []).
Proof. apply T_is_C_Treatment. exact I. Qed.
Corollary S_is_C_Sum_strs cx o xs r :
  call_function cx "S" [PStrs o xs; r] []
  = (do e <- call_function cx "Sum" [r] []; call_function cx "C" [PStrs o xs; e] []).
Proof. apply S_is_C_Sum. exact I. Qed.
Corollary S_is_C_Sum_ints cx xs r :
  call_function cx "S" [PSeries true xs; r] []
  = (do e <- call_function cx "Sum" [r] []; call_function cx "C" [PSeries true xs; e] []).
Proof. apply S_is_C_Sum. exact I. Qed.

(* what both sides are, for a string series and a string reference *)
Example T_value cx xs s :
  call_function cx "T" [PStrs None xs; PStr s] [] = Ok (PBox false xs (Some (Treatment (Some s))) None).
Proof. reflexivity. Qed.
Example S_value cx xs s :
  call_function cx "S" [PStrs None xs; PStr s] [] = Ok (PBox false xs (Some (Sum (Some s))) None).
Proof. reflexivity. Qed.

(* ------------------------------------------------------------------------------------------ *)
(** * Tie to the source tables (these stop compiling when the Python registry changes) *)

Example reg_B : assoc "B" gen_transform_registry = Some "binary". Proof. reflexivity. Qed.
Example reg_binary : assoc "binary" gen_transform_registry = Some "binary". Proof. reflexivity. Qed.
Example reg_B_binary : assoc "B" gen_transform_registry = assoc "binary" gen_transform_registry.
Proof. reflexivity. Qed.
Example reg_p : assoc "p" gen_transform_registry = Some "proportion". Proof. reflexivity. Qed.
Example reg_prop : assoc "prop" gen_transform_registry = Some "proportion". Proof. reflexivity. Qed.
Example reg_proportion : assoc "proportion" gen_transform_registry = Some "proportion".
Proof. reflexivity. Qed.
Example reg_standardize : assoc "standardize" gen_transform_registry = Some "Scale". Proof. reflexivity. Qed.
Example reg_scale : assoc "scale" gen_transform_registry = Some "Scale". Proof. reflexivity. Qed.
Example reg_S_encoding : gen_S_encoding = "Sum". Proof. reflexivity. Qed.
Example reg_T_encoding : gen_T_encoding = "Treatment". Proof. reflexivity. Qed.
(* the encodings S and T name are the ones the model's S and T build *)
Example reg_S_T_model :
  builtin_value gen_S_encoding = Some (PEncClass true) /\ builtin_value gen_T_encoding = Some (PEncClass false).
Proof. split; reflexivity. Qed.
(* every registered name is a name the model evaluates, and conversely *)
Example reg_names_model :
  forallb (fun kv => existsb (String.eqb (fst kv)) (stateful_names ++ function_names)) gen_transform_registry = true /\
  forallb (fun n => existsb (fun kv => String.eqb (fst kv) n) gen_transform_registry
                    || existsb (String.eqb n) ["Treatment"; "Sum"])
          (stateful_names ++ function_names) = true.
Proof. split; reflexivity. Qed.
(* two registered names denote the same Python object exactly when the model functions coincide
   by the alias theorems above: the classes of names with equal object *)
Example reg_alias_classes :
  map (fun kv => fst kv) (filter (fun kv => String.eqb (snd kv) "binary") gen_transform_registry) = ["B"; "binary"] /\
  map (fun kv => fst kv) (filter (fun kv => String.eqb (snd kv) "proportion") gen_transform_registry) = ["p"; "prop"; "proportion"] /\
  map (fun kv => fst kv) (filter (fun kv => String.eqb (snd kv) "Scale") gen_transform_registry) = ["scale"; "standardize"].
Proof. repeat split; reflexivity. Qed.

(* ------------------------------------------------------------------------------------------ *)
(** * binary *)

Definition bit (h : bool) : cell := Some (if h then q1 else q0).
(* [x = s] for a possibly missing string *)
Definition str_hit (s : string) (x : option string) : bool :=
  match x with Some y => String.eqb y s | None => false end.

(** binary(x, s) on a string series: the series of [x = s] when some value equals s, otherwise
    ValueError.  (A missing value counts as "not s"; for a series without missing values this is
    the statement of the task.) *)
Lemma existsb_map {S T} (f : S -> T) (p : T -> bool) l : existsb p (map f l) = existsb (fun x => p (f x)) l.
Proof. induction l as [|x l IH]; simpl; [reflexivity|]. rewrite IH. reflexivity. Qed.

Theorem binary_spec_str cx o xs s :
  call_function cx "binary" [PStrs o xs; PStr s] []
  = if existsb (str_hit s) xs then Ok (PSeries true (map (fun x => bit (str_hit s x)) xs)) else Err EValue.
Proof.
  cbn. rewrite existsb_map, map_map. reflexivity.
Qed.

(* for a series without missing values: the cells are [x = s] *)
Corollary binary_spec_str_complete cx o (vs : list string) s :
  call_function cx "binary" [PStrs o (map Some vs); PStr s] []
  = if existsb (fun x => String.eqb x s) vs
    then Ok (PSeries true (map (fun x => bit (String.eqb x s)) vs)) else Err EValue.
Proof. rewrite binary_spec_str, existsb_map, map_map. reflexivity. Qed.

Corollary binary_spec_str_hit cx o vs s :
  In s vs ->
  call_function cx "binary" [PStrs o (map Some vs); PStr s] []
  = Ok (PSeries true (map (fun x => bit (String.eqb x s)) vs)).
Proof.
  intros H. rewrite binary_spec_str_complete.
  replace (existsb (fun x => String.eqb x s) vs) with true; [reflexivity|].
  symmetry. apply existsb_exists. exists s. split; [assumption|apply String.eqb_refl].
Qed.

Corollary binary_spec_str_miss cx o vs s :
  ~ In s vs -> call_function cx "binary" [PStrs o (map Some vs); PStr s] [] = Err EValue.
Proof.
  intros H. rewrite binary_spec_str_complete.
  destruct (existsb (fun x => String.eqb x s) vs) eqn:E; [|reflexivity].
  apply existsb_exists in E as (x & Hin & Hx). apply String.eqb_eq in Hx. subst. contradiction.
Qed.

(** success omitted: the first element of [sorted_unique_str] of the present values is used; an
    all-missing / empty series is an IndexError *)
Theorem binary_default_str cx o xs :
  call_function cx "binary" [PStrs o xs] []
  = match sorted_unique_str (present xs) with
    | s :: _ => call_function cx "binary" [PStrs o xs; PStr s] []
    | [] => Err EIndex
    end.
Proof. cbn. destruct (sorted_unique_str (present xs)); reflexivity. Qed.

Lemma sorted_unique_str_In l s : In s (sorted_unique_str l) -> In s l.
Proof.
  unfold sorted_unique_str. intros H.
  eapply nodup_by_In. eapply Permutation_in; [apply isort_perm|exact H].
Qed.

Lemma present_In xs s : In s (present xs) <-> In (Some s) xs.
Proof.
  unfold present. rewrite in_flat_map. split.
  - intros ([y|] & Hin & Hy); simpl in Hy; [|contradiction]. destruct Hy as [<-|[]]. assumption.
  - intros H. exists (Some s). split; [assumption|left; reflexivity].
Qed.

(* ... and then the call never fails: the default success value occurs in the data *)
Corollary binary_default_str_ok cx o xs s rest :
  sorted_unique_str (present xs) = s :: rest ->
  call_function cx "binary" [PStrs o xs] [] = Ok (PSeries true (map (fun x => bit (str_hit s x)) xs)).
Proof.
  intros E. rewrite binary_default_str, E, binary_spec_str.
  replace (existsb (str_hit s) xs) with true; [reflexivity|].
  symmetry. apply existsb_exists. exists (Some s). split; [|apply String.eqb_refl].
  apply present_In, sorted_unique_str_In. rewrite E. left; reflexivity.
Qed.

(** ** the default success value is the smallest value *)
Lemma str_leb_total a b : str_leb a b = true \/ str_leb b a = true.
Proof.
  unfold str_leb. rewrite (String.compare_antisym a b).
  destruct (String.compare b a); simpl; auto.
Qed.

Lemma str_leb_iff a b : str_leb a b = true <-> String_as_OT.lt a b \/ a = b.
Proof.
  unfold str_leb. split.
  - destruct (String.compare a b) eqn:E; intros H; try discriminate.
    + right. apply String_as_OT.cmp_eq. exact E.
    + left. apply String_as_OT.cmp_lt. exact E.
  - intros [H| ->].
    + apply String_as_OT.cmp_lt in H. unfold String_as_OT.cmp in H. rewrite H. reflexivity.
    + assert (E : String.compare b b = Eq) by (apply String_as_OT.cmp_eq; reflexivity).
      rewrite E. reflexivity.
Qed.

Lemma str_leb_trans a b c : str_leb a b = true -> str_leb b c = true -> str_leb a c = true.
Proof.
  rewrite !str_leb_iff. intros [H1| ->] [H2| ->]; auto.
  left. eapply String_as_OT.lt_trans; eauto.
Qed.

Section SortMin.
  Context {T : Type} (leb : T -> T -> bool).
  Hypothesis total : forall a b, leb a b = true \/ leb b a = true.
  Hypothesis trans : forall a b c, leb a b = true -> leb b c = true -> leb a c = true.

  Lemma insert_sorted_sorted x l :
    StronglySorted (fun a b => leb a b = true) l ->
    StronglySorted (fun a b => leb a b = true) (insert_sorted T leb x l).
  Proof.
    induction 1 as [|y l Hs IH Hall]; simpl; [repeat constructor|].
    destruct (leb x y) eqn:E.
    - constructor; [constructor; assumption|]. constructor; [assumption|].
      rewrite Forall_forall in *. intros z Hz. eapply trans; eauto.
    - constructor; [assumption|].
      assert (Hyx : leb y x = true) by (destruct (total x y); congruence).
      rewrite Forall_forall in *. intros z Hz.
      eapply Permutation_in in Hz; [|apply insert_sorted_perm]. destruct Hz as [<-|Hz]; auto.
  Qed.

  Lemma isort_sorted l : StronglySorted (fun a b => leb a b = true) (isort leb l).
  Proof. induction l; simpl; [constructor|apply insert_sorted_sorted; assumption]. Qed.

  Lemma isort_head_min l h r : isort leb l = h :: r -> forall y, In y l -> leb h y = true.
  Proof.
    intros E y Hy. pose proof (isort_sorted l) as Hs. rewrite E in Hs.
    apply StronglySorted_inv in Hs as [_ Hall]. rewrite Forall_forall in Hall.
    eapply Permutation_in in Hy; [|apply Permutation_sym, isort_perm]. rewrite E in Hy.
    destruct Hy as [<-|Hy]; [|auto]. destruct (total h h); assumption.
  Qed.
End SortMin.

Lemma nodup_by_In_conv l (y : string) : In y l -> In y (nodup_by String.eqb l).
Proof.
  induction l as [|x l IH]; simpl; [tauto|]. intros [<-|H].
  - destruct (existsb (String.eqb x) l) eqn:E; [|left; reflexivity].
    apply IH. apply existsb_exists in E as (z & Hz & Hxz). apply String.eqb_eq in Hxz. subst. assumption.
  - destruct (existsb (String.eqb x) l); [|right]; auto.
Qed.

(** the default success value is a value of the series and is <= every value of the series *)
Theorem binary_default_smallest xs s rest :
  sorted_unique_str (present xs) = s :: rest ->
  In (Some s) xs /\ forall y, In (Some y) xs -> str_leb s y = true.
Proof.
  intros E. split.
  - apply present_In, sorted_unique_str_In. rewrite E. left; reflexivity.
  - intros y Hy. unfold sorted_unique_str in E.
    eapply (isort_head_min str_leb str_leb_total str_leb_trans); [exact E|].
    apply nodup_by_In_conv, present_In. assumption.
Qed.

(** numeric series *)
Theorem binary_spec_num cx i xs l isq q :
  all_some xs = Some l ->
  call_function cx "binary" [PSeries i xs; PNumber isq q] []
  = if existsb (fun x => Qc_eq_bool x q) l
    then Ok (PSeries true (map (fun x => bit (Qc_eq_bool x q)) l)) else Err EValue.
Proof.
  intros H. cbn. rewrite H. cbn. rewrite existsb_map, map_map. reflexivity.
Qed.

Theorem binary_default_num cx i xs l :
  all_some xs = Some l ->
  call_function cx "binary" [PSeries i xs] []
  = match sorted_unique_qc l with
    | s :: _ => call_function cx "binary" [PSeries i xs; PNumber false s] []
    | [] => Err EIndex
    end.
Proof. intros H. cbn. rewrite H. destruct (sorted_unique_qc l); reflexivity. Qed.

Theorem binary_num_missing cx i xs succ :
  all_some xs = None -> call_function cx "binary" (PSeries i xs :: succ) [] = Err EUnsupported \/
                        call_function cx "binary" (PSeries i xs :: succ) [] = Err EType.
Proof.
  intros H. destruct succ as [|s [|s2 rest]].
  - left. cbn. rewrite H. reflexivity.
  - left. cbn. rewrite H. reflexivity.
  - right. reflexivity.
Qed.

Lemma all_some_map_Some l : all_some (map Some l) = Some l.
Proof. induction l as [|x l IH]; [reflexivity|]. change (all_some (map Some (x :: l))) with (match all_some (map Some l) with Some l' => Some (x :: l') | None => None end). rewrite IH. reflexivity. Qed.

Corollary binary_spec_num_complete cx i (vs : list Qc) isq q :
  call_function cx "binary" [PSeries i (map Some vs); PNumber isq q] []
  = if existsb (fun x => Qc_eq_bool x q) vs
    then Ok (PSeries true (map (fun x => bit (Qc_eq_bool x q)) vs)) else Err EValue.
Proof. apply binary_spec_num, all_some_map_Some. Qed.

(* non-vacuity *)
Example binary_ex1 cx :
  call_function cx "binary" [PStrs None [Some "b"; Some "a"; Some "b"]; PStr "b"] []
  = Ok (PSeries true [Some q1; Some q0; Some q1]).
Proof. reflexivity. Qed.
Example binary_ex2 cx :
  call_function cx "B" [PStrs None [Some "b"; Some "a"; Some "b"]] []
  = Ok (PSeries true [Some q0; Some q1; Some q0]).
Proof. reflexivity. Qed.
Example binary_ex3 cx :
  call_function cx "binary" [PStrs None [Some "b"; Some "a"]; PStr "c"] [] = Err EValue.
Proof. reflexivity. Qed.

(* ------------------------------------------------------------------------------------------ *)
(** * I and offset *)

Theorem I_identity cx v : call_function cx "I" [v] [] = Ok v.
Proof. reflexivity. Qed.
Theorem I_identity_kw cx v : call_function cx "I" [] [("x", v)] = Ok v.
Proof. reflexivity. Qed.
Theorem I_arity cx v w rest : call_function cx "I" (v :: w :: rest) [] = Err EType.
Proof. reflexivity. Qed.

Theorem offset_series cx i xs : call_function cx "offset" [PSeries i xs] [] = Ok (POffset None xs).
Proof. reflexivity. Qed.
Theorem offset_number cx i q : call_function cx "offset" [PNumber i q] [] = Ok (POffset (Some q) []).
Proof. reflexivity. Qed.

(* in the design: an offset of a series keeps the cells, an offset of a number is broadcast to
   [nrows] rows; an offset is not allowed as response *)
Theorem offset_spec_series t spans nrows xs :
  tc_kind t = KOffset -> tc_response t = false -> tc_value t = POffset None xs ->
  exists dc, set_data_comp t spans nrows = Ok dc /\ dc_rows dc = map (fun x => [x]) xs /\
             dc_labels dc = Some [tc_name t].
Proof.
  intros Hk Hr Hv. unfold set_data_comp. rewrite Hk, Hr, Hv. eexists. repeat split.
Qed.

Theorem offset_spec_constant t spans nrows q xs :
  tc_kind t = KOffset -> tc_response t = false -> tc_value t = POffset (Some q) xs ->
  exists dc, set_data_comp t spans nrows = Ok dc /\ dc_rows dc = repeat [Some q] nrows /\
             List.length (dc_rows dc) = nrows /\ dc_labels dc = Some [tc_name t].
Proof.
  intros Hk Hr Hv. unfold set_data_comp. rewrite Hk, Hr, Hv. eexists. repeat split.
  cbn. apply repeat_length.
Qed.

Theorem offset_response_rejected t spans nrows :
  tc_kind t = KOffset -> tc_response t = true -> set_data_comp t spans nrows = Err EValue.
Proof. intros Hk Hr. unfold set_data_comp. rewrite Hk, Hr. reflexivity. Qed.

(* end to end through set_type_comp: offset(3) in a frame with n rows is the constant column *)
Theorem offset_literal_design cx data z spans nrows :
  exists t, set_type_comp cx data false (CCall (LzCall "offset" [LzVal (LInt z) None] [])) = Ok t /\
    tc_kind t = KOffset /\
    exists dc, set_data_comp t spans nrows = Ok dc /\ dc_rows dc = repeat [Some (qz z)] nrows.
Proof.
  eexists. split; [reflexivity|]. split; [reflexivity|]. eexists. split; reflexivity.
Qed.

Theorem offset_variable_design cx data name i xs spans nrows :
  assoc name data = Some (ColNum i xs) ->
  exists t, set_type_comp cx data false (CCall (LzCall "offset" [LzVar name] [])) = Ok t /\
    tc_kind t = KOffset /\ tc_name t = ("offset(" ++ name ++ ")")%string /\
    exists dc, set_data_comp t spans nrows = Ok dc /\ dc_rows dc = map (fun x => [x]) xs.
Proof.
  intros H. unfold set_type_comp. cbn. unfold lookup_name. cbn. rewrite H. cbn.
  eexists. split; [reflexivity|]. split; [reflexivity|]. split; [reflexivity|].
  eexists. split; reflexivity.
Qed.

Print Assumptions T_is_C_Treatment.
Print Assumptions S_is_C_Sum.
Print Assumptions binary_spec_str.
Print Assumptions binary_default_str_ok.
Print Assumptions binary_spec_num.
Print Assumptions offset_literal_design.
Print Assumptions alias_standardize_scale.
