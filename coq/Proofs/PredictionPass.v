(* Property C06 for designs built under na_action = "pass" (and "drop" evaluated on the rows it
   dropped): evaluating new data NEVER drops a row, and on rows of the training frame -- rows with
   missing values included -- it returns exactly those rows of the training matrices.

   A. Row counts at full generality: for EVERY design value, every unseen-level mode and every
      rectangular new frame, if [new_common] / [new_group] returns at all, the matrix has exactly
      [frame_rows F] rows ([new_common_row_count], [new_group_row_count]); the rectangularity and
      the namespace premise cannot be dropped ([row_count_ragged_refuted],
      [row_count_namespace_refuted]).
   B. A decidable class of models ([pass_modelb]) that implies the semantic premises of
      Prediction.v / PredictionGroups.v ([pass_model_ok], [pass_model_ok_groups]).
   C. "pass": [pass_new_common_rows], [pass_new_group_rows] (+ [_nth], [_length] forms).
   D. "drop" evaluated on ALL rows of the original frame: the design under "drop" predicts like the
      design under "pass" ([new_common_design_select], [new_group_design_select]); hence on a row
      that training dropped the model returns the row of the "pass" matrix, NaN exactly where the
      pass-policy characterisation says ([drop_new_common_all_rows], [drop_new_group_all_rows],
      [drop_dropped_row_cells]).
   E. Examples and refuted variants. *)
From Verif Require Import Base Tokens Scanner Parser Lazy Algebra Coding Contrasts Frame Eval Design Driver.
From Verif Require Import DesignStructure DesignCoding FrameStructure Unseen Prediction PredictionGroups.
From Verif Require Import Containers PassPolicy.
From Coq Require Import Lia.
Local Close Scope Qc_scope.
Local Close Scope Q_scope.
Local Open Scope string_scope.
Local Open Scope list_scope.
Local Open Scope nat_scope.

(* ------------------------------------------------------------------------------------------ *)
(** * A. Prediction never drops a row: row counts for every design *)

Lemma new_categoric_rows mode d xs rows w :
  new_categoric mode d xs = Ok (rows, w) -> List.length rows = List.length xs.
Proof.
  unfold new_categoric. destruct (dc_contrast d) as [cm|]; [|discriminate]. cbv zeta.
  assert (G : List.length (code_rows (cmatrix cm) (contrast_width cm) (level_codes (dc_levels d) xs))
              = List.length xs) by (rewrite code_rows_length; apply level_codes_length).
  destruct (negb _); [intros H; injection H as <- _; exact G|].
  destruct mode; intros H; try discriminate H; injection H as <- _; exact G.
Qed.

(** One component on new data: one row per row of the new frame -- whatever the component
    (any source, kind, recorded state, contrast, levels), in every mode. *)
Theorem new_comp_rows cx mode data n d rows w :
  rect n data -> frame_rows data = n -> extras_shape n cx ->
  new_comp cx mode data d = Ok (rows, w) -> List.length rows = n.
Proof.
  intros HD Hn Hex H. unfold new_comp in H. cbv zeta in H.
  assert (Cat : forall v, vshape n v ->
                (do nd <- categoric_data v; new_categoric mode d (snd nd)) = Ok (rows, w) ->
                List.length rows = n).
  { intros v Hv Hc. apply bind_ok in Hc as (nd & Hnd & Hc).
    rewrite (new_categoric_rows _ _ _ _ _ Hc). eapply categoric_data_shape; eassumption. }
  assert (Ev : forall st r, eval_lazy (ECtx data (d_extra cx) (d_sqrt cx) false) st
                              match tc_src (dc_t d) with CCall lz => lz | _ => LzVar "" end = Ok r ->
                            vshape n (fst (fst r))).
  { intros st [[v st1] rec] Hr. eapply (eval_lazy_shape data n HD (d_extra cx) Hex (d_sqrt cx) false). exact Hr. }
  destruct (tc_src (dc_t d)) as [[name|lit] lvl|lz].
  - destruct (assoc name data) as [col|] eqn:E; [|discriminate H].
    pose proof (col_value_vshape n data name col HD (assoc_In _ _ _ E)) as Hv.
    destruct (tc_kind (dc_t d)); try (apply (Cat _ Hv H)).
    destruct col as [i xs|o xs]; [|discriminate H]. injection H as <- _. rewrite map_length. exact Hv.
  - discriminate H.
  - destruct (tc_kind (dc_t d)).
    + apply bind_ok in H as (r & Hr & H). pose proof (Ev _ _ Hr) as Hv.
      destruct (fst (fst r)) as [i xs|mrows| | | | | | | | | | |]; try discriminate H; injection H as <- _.
      * rewrite map_length. exact Hv.
      * exact (proj1 Hv).
    + apply bind_ok in H as (r & Hr & H). exact (Cat _ (Ev _ _ Hr) H).
    + assert (G : (do r <- eval_lazy (ECtx data (d_extra cx) (d_sqrt cx) false) (tc_state (dc_t d)) lz;
                   match fst (fst r) with
                   | POffset None xs => Ok (map (fun x => [x]) xs, false)
                   | POffset (Some q) _ => Err EAssert
                   | _ => Err EAttr
                   end) = Ok (rows, w) -> List.length rows = n).
      { intros G. apply bind_ok in G as (r & Hr & G). pose proof (Ev _ _ Hr) as Hv.
        destruct (fst (fst r)) as [| | | | | | | | | | |[q|] xs|]; try discriminate G.
        injection G as <- _. rewrite map_length. exact Hv. }
      destruct (tc_value (dc_t d)) as [| | | | | | | | | | |[q|] xs|]; try (exact (G H)).
      injection H as <- _. rewrite Hn. apply repeat_length.
    + destruct (tc_value (dc_t d)) as [| | | | | | | | | | | |ss ts [q|]]; try discriminate H.
      * injection H as <- _. rewrite Hn. apply repeat_length.
      * destruct lz as [| | |callee [|a0 [|[| name| |] [|a2 rest]]] kw]; try discriminate H.
        destruct (assoc name data) as [[i xs|]|] eqn:E; try discriminate H. injection H as <- _.
        rewrite map_length. exact (col_value_vshape n data name _ HD (assoc_In _ _ _ E)).
Qed.

Lemma new_comps_rows cx mode data n ds parts :
  rect n data -> frame_rows data = n -> extras_shape n cx ->
  mapM (new_comp cx mode data) ds = Ok parts ->
  Forall (fun p => List.length (fst p) = n) parts.
Proof.
  intros HD Hn Hex H. apply mapM_ok in H.
  induction H as [|d [rows w] ds parts Hd _ IH]; constructor; [|exact IH].
  eapply new_comp_rows; eassumption.
Qed.

Lemma fold_parts_rows n (p : list (list cell) * bool) rest :
  Forall (fun p => List.length (fst p) = n) (p :: rest) ->
  List.length (fold_left rows_kron (map fst rest) (fst p)) = n.
Proof.
  intros H. apply fold_rows_kron_length; [exact (Forall_inv H)|].
  apply Forall_map. exact (Forall_inv_tail H).
Qed.

Theorem new_term_rows cx mode data n t rows w :
  rect n data -> frame_rows data = n -> extras_shape n cx ->
  new_term cx mode data t = Ok (rows, w) -> List.length rows = n.
Proof.
  intros HD Hn Hex H. unfold new_term in H.
  destruct (String.eqb (dt_kind t) "intercept").
  - injection H as <- _. rewrite Hn. apply repeat_length.
  - apply bind_ok in H as (parts & Hp & H). destruct parts as [|p rest]; [discriminate H|].
    injection H as <- _. apply fold_parts_rows. eapply new_comps_rows; eassumption.
Qed.

Lemma extend_zero_rows_length j : List.length (extend_zero_rows j) = List.length j.
Proof.
  unfold extend_zero_rows. destruct (existsb _ _); [|reflexivity].
  rewrite zip_with_length, map_length. lia.
Qed.

Theorem new_gterm_rows cx mode data n g rows w :
  rect n data -> frame_rows data = n -> extras_shape n cx ->
  new_gterm cx mode data g = Ok (rows, w) -> List.length rows = n.
Proof.
  intros HD Hn Hex H. rewrite new_gterm_unfold in H.
  apply bind_ok in H as ([xr xw] & Hx & H). apply bind_ok in H as (fparts & Hf & H).
  destruct fparts as [|p rest]; [discriminate H|]. injection H as <- _. cbn [fst].
  pose proof (new_term_rows _ _ _ _ _ _ _ HD Hn Hex Hx) as Lx.
  pose proof (fold_parts_rows n p rest (new_comps_rows _ _ _ _ _ _ HD Hn Hex Hf)) as Lj.
  rewrite rows_kron_length, extend_zero_rows_length. lia.
Qed.

(** THE ROW-COUNT THEOREM (common effects).  For every design value [ds] (built by the library or
    not), every mode, every rectangular frame [F] (any content: missing values anywhere, unseen
    levels, rows of the training data or not) and a namespace whose vectors have [frame_rows F]
    entries (in particular a namespace of scalars): when [new_common] returns, its matrix has
    exactly one row per row of [F].  No row is ever dropped, none is added. *)
Theorem new_common_row_count cx mode ds F r :
  frame_wf F -> extras_shape (frame_rows F) cx ->
  new_common cx mode ds F = Ok r ->
  List.length (nr_rows r) = frame_rows F.
Proof.
  intros Hwf Hex H. unfold new_common in H. apply bind_ok in H as (parts & Hp & H).
  injection H as <-. cbn [nr_rows]. apply hstack_length. apply Forall_map.
  apply mapM_ok in Hp. clear -Hp Hwf Hex.
  induction Hp as [|t [rows w] ts parts Ht _ IH]; constructor; [|exact IH].
  cbn [fst]. eapply new_term_rows; [exact Hwf|reflexivity|exact Hex|exact Ht].
Qed.

(** THE ROW-COUNT THEOREM (group-specific effects). *)
Theorem new_group_row_count cx mode ds F ng :
  frame_wf F -> extras_shape (frame_rows F) cx ->
  new_group cx mode ds F = Ok ng ->
  List.length (ng_rows ng) = frame_rows F.
Proof.
  intros Hwf Hex H. destruct (new_group_slices _ _ _ _ _ H) as (parts & Hp & -> & _).
  apply hstack_length. apply Forall_map.
  apply mapM_ok in Hp. clear -Hp Hwf Hex.
  induction Hp as [|g [rows w] gs parts Hg _ IH]; constructor; [|exact IH].
  cbn [fst]. eapply new_gterm_rows; [exact Hwf|reflexivity|exact Hex|exact Hg].
Qed.

Corollary new_common_row_count_scalar cx mode ds F r :
  frame_wf F -> scalar_extras cx -> new_common cx mode ds F = Ok r ->
  List.length (nr_rows r) = frame_rows F.
Proof. intros Hwf Hex. apply new_common_row_count; [exact Hwf|apply scalar_extras_shape; exact Hex]. Qed.

Corollary new_group_row_count_scalar cx mode ds F ng :
  frame_wf F -> scalar_extras cx -> new_group cx mode ds F = Ok ng ->
  List.length (ng_rows ng) = frame_rows F.
Proof. intros Hwf Hex. apply new_group_row_count; [exact Hwf|apply scalar_extras_shape; exact Hex]. Qed.

(** Every block as well: each term contributes [frame_rows F] rows. *)
Theorem new_common_block_rows cx mode ds F parts :
  frame_wf F -> extras_shape (frame_rows F) cx ->
  mapM (new_term cx mode F) (ds_common ds) = Ok parts ->
  Forall (fun p => List.length (fst p) = frame_rows F) parts.
Proof.
  intros Hwf Hex Hp. apply mapM_ok in Hp.
  induction Hp as [|t [rows w] ts parts Ht _ IH]; constructor; [|exact IH].
  cbn [fst]. eapply new_term_rows; [exact Hwf|reflexivity|exact Hex|exact Ht].
Qed.

(* ------------------------------------------------------------------------------------------ *)
(** * B. A decidable class of models for "pass" *)

Definition not_box (v : pyval) : Prop := match v with PBox _ _ _ _ => False | _ => True end.

(* no C / S / T anywhere in the call tree *)
Fixpoint box_free (l : lazy) : bool :=
  match l with
  | LzVar _ => true
  | LzVal _ _ => true
  | LzOp _ args => forallb box_free args
  | LzCall c args kw =>
      negb (existsb (String.eqb c) box_callees) &&
      forallb box_free args &&
      forallb (fun kv => match kv with (_, a) => box_free a end) kw
  end.

Lemma arg_not_box name b : Forall (fun kv => not_box (snd kv)) b -> not_box (arg name b).
Proof.
  intros H. unfold arg. destruct (assoc name b) as [v|] eqn:E; [|exact I].
  apply assoc_In in E. rewrite Forall_forall in H. exact (H _ E).
Qed.

Lemma call_function_not_box cx name pos kw v :
  existsb (String.eqb name) box_callees = false ->
  Forall not_box pos -> Forall (fun kv => not_box (snd kv)) kw ->
  call_function cx name pos kw = Ok v -> not_box v.
Proof.
  intros Hb Hp Hk H. cbn [existsb box_callees] in Hb.
  apply orb_false_iff in Hb as [EC Hb]. apply orb_false_iff in Hb as [ES Hb].
  apply orb_false_iff in Hb as [ET _].
  rewrite call_function_unfold, EC, ES, ET in H.
  repeat match type of H with
         | (if ?c then _ else _) = Ok _ => destruct c
         end; try discriminate H;
    apply with_sig_inv in H as (b & Hbd & H);
    pose proof (bind_args_Forall not_box _ _ _ _ Hbd Hp Hk) as Hbs.
  - unfold k_I in H. injection H as <-. apply arg_not_box; exact Hbs.
  - unfold k_Treatment in H. apply bind_ok in H as (r & _ & H). injection H as <-. exact I.
  - unfold k_Sum in H. apply bind_ok in H as (r & _ & H). injection H as <-. exact I.
  - unfold k_binary in H.
    destruct (arg "x" b) as [i xs|rows|o xs| | | | | | | | | |]; try discriminate H.
    + destruct (all_some xs) as [l|]; [|discriminate H]. apply bind_ok in H as (succ & _ & H).
      cbv zeta in H. destruct (existsb _ _); [|discriminate H]. injection H as <-. exact I.
    + apply bind_ok in H as (succ & _ & H).
      cbv zeta in H. destruct (existsb _ _); [|discriminate H]. injection H as <-. exact I.
  - unfold k_offset in H. destruct (arg "x" b); try discriminate H; injection H as <-; exact I.
  - unfold k_prop in H.
    destruct (arg "successes" b) as [i ss| | | | | | | | | | | |]; try discriminate H.
    cbv zeta in H. apply bind_ok in H as (trs & _ & H).
    destruct (all_some ss); [|discriminate H]. destruct (all_some (fst trs)); [|discriminate H].
    repeat match type of H with (if ?c then _ else _) = Ok _ => destruct c; try discriminate H end.
    injection H as <-. exact I.
Qed.

Lemma call_stateful_not_box cx name st pos kw v st1 rec :
  call_stateful cx name st pos kw = Ok (v, st1, rec) -> not_box v.
Proof.
  intros H. unfold call_stateful in H.
  destruct (String.eqb name "bs" || String.eqb name "poly").
  - unfold call_spline in H. destruct (String.eqb name "bs").
    + destruct (negb (check_kw _ kw)); [discriminate H|]. apply bind_ok in H as (b & _ & H).
      destruct (arg "x" b) as [i xs| | | | | | | | | | | |]; try discriminate H.
      destruct (all_some xs) as [l|]; [|discriminate H].
      destruct (e_fit cx).
      * repeat (apply bind_ok in H as (? & ? & H)). injection H as <- _ _. exact I.
      * destruct st as [|[| |p|] st']; try discriminate H. apply bind_ok in H as (rows & _ & H).
        injection H as <- _ _. exact I.
    + destruct (negb (check_kw _ kw)); [discriminate H|]. apply bind_ok in H as (b & _ & H).
      destruct (arg "x" b) as [i xs| | | | | | | | | | | |]; try discriminate H.
      destruct (all_some xs) as [l|]; [|discriminate H].
      destruct (e_fit cx).
      * repeat (apply bind_ok in H as (? & ? & H)). injection H as <- _ _. exact I.
      * destruct st as [|[| | |raw deg p] st']; try discriminate H. apply bind_ok in H as (rows & _ & H).
        injection H as <- _ _. exact I.
  - destruct (negb (check_kw _ kw)); [discriminate H|]. apply bind_ok in H as (b & _ & H).
    destruct (arg "x" b) as [i xs| | | | | | | | | | | |]; try discriminate H.
    destruct (String.eqb name "center").
    + destruct (e_fit cx).
      * injection H as <- _ _. exact I.
      * destruct st as [|[m| | |] st']; try discriminate H. injection H as <- _ _. exact I.
    + cbv zeta in H. destruct (e_fit cx).
      * apply bind_ok in H as (v0 & Hv & H). injection H as <- _ _.
        apply bind_ok in Hv as (l & _ & Hv). injection Hv as <-. exact I.
      * destruct st as [|[|m sd| |] st']; try discriminate H.
        apply bind_ok in H as (v0 & Hv & H). injection H as <- _ _.
        apply bind_ok in Hv as (l & _ & Hv). injection Hv as <-. exact I.
Qed.

Section NoBox.
  Variable D : frame.
  Variable ex : list (string * pyval).
  Hypothesis ex_scalar : forall k v, assoc k ex = Some v -> is_scalar v = true.
  Variable sq : Qc -> Qc.
  Variable fit : bool.

  (** A call tree without C / S / T never evaluates to a categorical box. *)
  Theorem box_free_not_box l : box_free l = true -> forall st v st1 rec,
    eval_lazy (ECtx D ex sq fit) st l = Ok (v, st1, rec) -> not_box v.
  Proof.
    induction l as [sym args IH|name|lit lx|c args kw IHa IHk] using lazy_ind'; intros Hf st v st1 rec H.
    - destruct args as [|a [|b [|c r]]]; try discriminate H.
      + cbn [eval_lazy] in H. apply bind_ok in H as (ra & _ & H). apply bind_ok in H as (w & Hw & H).
        injection H as <- _ _. apply apply_unop_numeric in Hw. destruct w; try contradiction; exact I.
      + cbn [eval_lazy] in H. apply bind_ok in H as (ra & _ & H). apply bind_ok in H as (rb & _ & H).
        apply bind_ok in H as (w & Hw & H).
        injection H as <- _ _. apply apply_binop_numeric in Hw. destruct w; try contradiction; exact I.
    - cbn [eval_lazy] in H. apply bind_ok in H as (w & Hw & H). injection H as <- _ _.
      unfold lookup_name in Hw. cbn [e_data e_extra] in Hw.
      destruct (assoc name D) as [c|] eqn:E.
      + injection Hw as <-. destruct c; exact I.
      + unfold builtin_value in Hw.
        destruct (String.eqb name "Treatment"); [injection Hw as <-; exact I|].
        destruct (String.eqb name "Sum"); [injection Hw as <-; exact I|].
        destruct (_ || _); [discriminate|].
        destruct (assoc name ex) as [w'|] eqn:Ew; [|discriminate].
        injection Hw as <-. pose proof (ex_scalar _ _ Ew) as Hs.
        destruct w'; try discriminate Hs; exact I.
    - cbn [eval_lazy] in H. injection H as <- _ _. destruct lit; exact I.
    - cbn [box_free] in Hf. apply andb_true_iff in Hf as [Hf Hfk]. apply andb_true_iff in Hf as [Hc Hfa].
      apply negb_true_iff in Hc.
      rewrite eval_lazy_call in H. destruct (negb (known_callee c)).
      + cbn [e_extra] in H. destruct (assoc c ex); discriminate H.
      + apply bind_ok in H as (ra & Hra & H). apply bind_ok in H as (rk & Hrk & H).
        assert (IHa' : Forall (fun a => forall st v st1 rec,
                                   eval_lazy (ECtx D ex sq fit) st a = Ok (v, st1, rec) -> not_box v) args).
        { rewrite forallb_forall in Hfa. rewrite Forall_forall in IHa |- *.
          intros a Ha. apply (IHa a Ha). apply Hfa. exact Ha. }
        assert (IHk' : Forall (fun kv : string * lazy => forall st v st1 rec,
                                   eval_lazy (ECtx D ex sq fit) st (snd kv) = Ok (v, st1, rec) -> not_box v) kw).
        { rewrite forallb_forall in Hfk. rewrite Forall_forall in IHk |- *.
          intros [k a] Ha. apply (IHk (k, a) Ha). apply (Hfk (k, a)). exact Ha. }
        pose proof (eval_args_shape not_box _ args IHa' _ _ _ _ (Forall_nil _) Hra) as Pa.
        pose proof (eval_kwargs_shape not_box _ kw IHk' _ _ _ _ (Forall_nil _) Hrk) as Pk.
        destruct (existsb (String.eqb c) stateful_names).
        * apply bind_ok in H as ([[v' s'] r'] & Hr & H). injection H as <- _ _.
          eapply call_stateful_not_box; eassumption.
        * apply bind_ok in H as (v' & Hv & H). injection H as <- _ _.
          eapply call_function_not_box; eassumption.
  Qed.
End NoBox.

Definition is_some {T} (x : option T) : bool := match x with Some _ => true | None => false end.

(* C(f...), S(f...), T(f...) applied directly to a str / Categorical column without missing value *)
Definition box_on_complete (D : frame) (lz : lazy) : bool :=
  match lz with
  | LzCall c (LzVar name :: _) _ =>
      existsb (String.eqb c) box_callees &&
      match assoc name D with Some (ColStr _ v) => forallb is_some v | _ => false end
  | _ => false
  end.

(** The sources covered under "pass": any plain variable (numeric with or without missing values;
    str / Categorical -- with a missing value training refuses it, [set_data_comp]); any call of the
    row-wise fragment of Prediction.v ([rowwise_safe]: operators, I, offset, Treatment, Sum,
    center/scale/standardize, C/S/T without levels=) that either contains no C/S/T at all or is
    C/S/T applied directly to a complete str / Categorical column. *)
Definition pass_src (D : frame) (c : comp) : bool :=
  match c with
  | CVar _ _ => true
  | CCall lz => rowwise_safe lz && (box_free lz || box_on_complete D lz)
  end.

Definition pass_modelb (D : frame) (m : model) : bool :=
  forallb (fun c => forallb (pass_src D) (cterm_comps c)) (commons m) &&
  forallb (fun g => forallb (pass_src D) (cterm_comps (gexpr g)) &&
                    forallb (pass_src D) (cterm_comps (gfactor g))) (groups m).

Lemma var_ok_unordered D name : frame_unordered D -> var_ok D name.
Proof.
  intros Hun. unfold var_ok. destruct (assoc name D) as [[b v|[cats|] v]|] eqn:E; try exact I.
  apply assoc_In in E. unfold frame_unordered in Hun. rewrite Forall_forall in Hun.
  destruct (Hun _ E).
Qed.

Lemma pass_src_ok cx D c :
  frame_unordered D -> scalar_extras cx -> pass_src D c = true ->
  comp_ok [] D c /\ forall tc, set_type_comp cx D false c = Ok tc -> box_complete tc.
Proof.
  intros Hun Hex Hs. destruct c as [[name|lit] lvl|lz].
  - split; [apply var_ok_unordered; exact Hun|]. intros tc Ht. eapply box_complete_var; exact Ht.
  - split; [exact I|]. intros tc Ht. discriminate Ht.
  - cbn [pass_src] in Hs. apply andb_true_iff in Hs as [Hsafe Hb].
    split; [split; [exact Hsafe|exact Hun]|].
    intros tc Ht. simpl in Ht. apply bind_ok in Ht as ([[v st1] rec] & Hev & Ht). cbn [fst snd] in Ht.
    apply orb_true_iff in Hb as [Hfree|Hbox].
    + pose proof (box_free_not_box D (d_extra cx) Hex (d_sqrt cx) true lz Hfree _ _ _ _ Hev) as Hnb.
      unfold box_complete. destruct v; cbn [bind] in Ht; try discriminate Ht; try contradiction;
        injection Ht as <-; exact I.
    + destruct lz as [| | |c args kw]; try discriminate Hbox.
      destruct args as [|[| name | |] rest]; try discriminate Hbox.
      cbn [box_on_complete] in Hbox. apply andb_true_iff in Hbox as [Hc Hcol].
      destruct (assoc name D) as [[b v0|o v0]|] eqn:E; try discriminate Hcol.
      assert (Hc' : In c box_callees).
      { apply existsb_exists in Hc as (x & Hx & Ex). apply String.eqb_eq in Ex. subst x. exact Hx. }
      destruct (box_call_value D (d_extra cx) (d_sqrt cx) _ _ _ _ _ _ _ _ _ _ _ Hc' E Hev) as (e & lv & ->).
      cbn [bind] in Ht. injection Ht as <-. unfold box_complete. cbn [tc_value].
      rewrite forallb_forall in Hcol. apply Forall_forall. intros x Hx Ex. subst x.
      specialize (Hcol _ Hx). discriminate Hcol.
Qed.

Lemma pass_src_terms (f : comp -> bool) (cs : list cterm) t c :
  forallb (fun x => forallb f (cterm_comps x)) cs = true -> In (CT t) cs -> In c t -> f c = true.
Proof. apply forallb_comps_In. Qed.

Theorem pass_model_ok cx D m :
  frame_unordered D -> scalar_extras cx -> pass_modelb D m = true -> model_ok [] cx D m.
Proof.
  intros Hun Hex Hs. unfold pass_modelb in Hs. apply andb_true_iff in Hs as [Hc _].
  intros t c Hin Hc'. apply pass_src_ok; try assumption. eapply forallb_comps_In; eauto.
Qed.

Theorem pass_model_ok_groups cx D m :
  frame_unordered D -> scalar_extras cx -> groups_nonempty m -> pass_modelb D m = true ->
  model_ok_groups [] cx D m.
Proof.
  intros Hun Hex Hne Hs. unfold pass_modelb in Hs. apply andb_true_iff in Hs as [_ Hg].
  intros g Hin. rewrite forallb_forall in Hg. specialize (Hg _ Hin).
  apply andb_true_iff in Hg as [Hge Hgf]. split.
  - intros t Et c Hc. rewrite Et in Hge. cbn [cterm_comps] in Hge. rewrite forallb_forall in Hge.
    apply pass_src_ok; try assumption. exact (Hge _ Hc).
  - intros f Ef. split; [exact (Hne g f Hin Ef)|]. intros c Hc.
    rewrite Ef in Hgf. cbn [cterm_comps] in Hgf. rewrite forallb_forall in Hgf.
    apply pass_src_ok; try assumption. exact (Hgf _ Hc).
Qed.

(* ------------------------------------------------------------------------------------------ *)
(** * C. "pass": new data made of rows of the training frame, rows with missing values included *)

Lemma pass_design_counts cx e D m ds :
  describe e = Ok m -> frame_wf D -> scalar_extras cx ->
  design_matrices cx e D NaPass = Ok ds ->
  ds_nrows ds = frame_rows D /\
  List.length (common_matrix ds) = frame_rows D /\ List.length (group_matrix ds) = frame_rows D.
Proof.
  intros Hd Hwf Hex H. destruct (pass_row_count cx e D m ds Hd Hwf Hex H) as [N S].
  destruct (design_row_counts ds S) as (_ & _ & _ & Lc & Lg). rewrite <- N. auto.
Qed.

(** The common matrix.  [idx]: ANY list of row numbers (any length, any order, repetitions, rows
    with missing values); a row number outside the frame selects nothing ([pick]).  Cells are
    [option Qc] and the equality is syntactic: a NaN cell of the training matrix is a NaN cell of
    the new matrix, and conversely. *)
Theorem pass_new_common_rows cx e D m ds idx mode :
  describe e = Ok m -> frame_wf D -> frame_rows D <> 0 -> used_cols D m <> [] ->
  frame_unordered D -> scalar_extras cx -> pass_modelb D m = true ->
  design_matrices cx e D NaPass = Ok ds ->
  new_common cx mode ds (frame_pick idx D) = Ok (NewRes (pick idx (common_matrix ds)) false).
Proof.
  intros Hd Hwf Hn Hu Hun Hex Hs H.
  apply (design_new_common_pick cx e D NaPass m ds idx mode); try assumption.
  - left; reflexivity.
  - apply pass_model_ok; assumption.
Qed.

(* with row numbers inside the frame: row k of the result is row [nth k idx] of the training matrix *)
Corollary pass_new_common_rows_nth cx e D m ds idx mode :
  describe e = Ok m -> frame_wf D -> frame_rows D <> 0 -> used_cols D m <> [] ->
  frame_unordered D -> scalar_extras cx -> pass_modelb D m = true ->
  Forall (fun i => i < frame_rows D) idx ->
  design_matrices cx e D NaPass = Ok ds ->
  new_common cx mode ds (frame_pick idx D)
  = Ok (NewRes (map (fun i => nth i (common_matrix ds) []) idx) false).
Proof.
  intros Hd Hwf Hn Hu Hun Hex Hs Hi H.
  rewrite (pass_new_common_rows cx e D m ds idx mode) by assumption.
  destruct (pass_design_counts cx e D m ds Hd Hwf Hex H) as (_ & Lc & _).
  rewrite (pick_nth idx _ []); [reflexivity|]. rewrite Lc. exact Hi.
Qed.

(* never fewer rows than asked for *)
Corollary pass_new_common_length cx e D m ds idx mode :
  describe e = Ok m -> frame_wf D -> frame_rows D <> 0 -> used_cols D m <> [] ->
  frame_unordered D -> scalar_extras cx -> pass_modelb D m = true ->
  Forall (fun i => i < frame_rows D) idx ->
  design_matrices cx e D NaPass = Ok ds ->
  exists r, new_common cx mode ds (frame_pick idx D) = Ok r /\
            List.length (nr_rows r) = List.length idx /\ nr_warned r = false.
Proof.
  intros Hd Hwf Hn Hu Hun Hex Hs Hi H. eexists. split.
  - apply (pass_new_common_rows_nth cx e D m ds idx mode); assumption.
  - cbn [nr_rows nr_warned]. rewrite map_length. split; reflexivity.
Qed.

(** The group-specific matrix: the same rows of the training matrix, the training slices, no new
    group, no warning.  At least one row number must fall inside the frame (an empty selection has
    width 0, which [new_group] reports as new groups: [pass_new_group_empty_refuted]). *)
Theorem pass_new_group_rows cx e D m ds idx mode :
  describe e = Ok m -> frame_wf D -> frame_rows D <> 0 -> used_cols D m <> [] ->
  frame_unordered D -> scalar_extras cx -> pass_modelb D m = true ->
  (exists i, In i idx /\ i < frame_rows D) ->
  design_matrices cx e D NaPass = Ok ds ->
  new_group cx mode ds (frame_pick idx D)
  = Ok (NewGroup (pick idx (group_matrix ds)) (group_slices ds) [] false).
Proof.
  intros Hd Hwf Hn Hu Hun Hex Hs Hi H.
  apply (design_new_group_pick cx e D NaPass m ds idx mode); try assumption.
  - left; reflexivity.
  - apply pass_model_ok_groups; try assumption. eapply describe_groups_nonempty. exact Hd.
Qed.

Corollary pass_new_group_rows_nth cx e D m ds idx mode :
  describe e = Ok m -> frame_wf D -> frame_rows D <> 0 -> used_cols D m <> [] ->
  frame_unordered D -> scalar_extras cx -> pass_modelb D m = true ->
  idx <> [] -> Forall (fun i => i < frame_rows D) idx ->
  design_matrices cx e D NaPass = Ok ds ->
  new_group cx mode ds (frame_pick idx D)
  = Ok (NewGroup (map (fun i => nth i (group_matrix ds) []) idx) (group_slices ds) [] false).
Proof.
  intros Hd Hwf Hn Hu Hun Hex Hs Hne Hi H.
  rewrite (pass_new_group_rows cx e D m ds idx mode); try assumption.
  - destruct (pass_design_counts cx e D m ds Hd Hwf Hex H) as (_ & _ & Lg).
    rewrite (pick_nth idx _ []); [reflexivity|]. rewrite Lg. exact Hi.
  - destruct idx as [|i idx']; [congruence|]. exists i. split; [left; reflexivity|exact (Forall_inv Hi)].
Qed.

Corollary pass_new_group_length cx e D m ds idx mode :
  describe e = Ok m -> frame_wf D -> frame_rows D <> 0 -> used_cols D m <> [] ->
  frame_unordered D -> scalar_extras cx -> pass_modelb D m = true ->
  idx <> [] -> Forall (fun i => i < frame_rows D) idx ->
  design_matrices cx e D NaPass = Ok ds ->
  exists ng, new_group cx mode ds (frame_pick idx D) = Ok ng /\
             List.length (ng_rows ng) = List.length idx /\
             ng_slices ng = group_slices ds /\ ng_new_factors ng = [] /\ ng_warned ng = false.
Proof.
  intros Hd Hwf Hn Hu Hun Hex Hs Hne Hi H. eexists. split.
  - apply (pass_new_group_rows_nth cx e D m ds idx mode); assumption.
  - cbn [ng_rows ng_slices ng_new_factors ng_warned]. rewrite map_length. repeat split; reflexivity.
Qed.

(** What those rows hold (C09_pass_policy, part 3, transported to the new matrix): under the
    simple class of PassPolicy.v every term block of a picked row i is all NaN when the term reads
    a numeric variable missing on row i of D, and free of NaN otherwise -- because the new row IS
    the training row. *)
Corollary pass_new_common_row_cells cx e D m ds idx mode k i :
  describe e = Ok m -> frame_wf D -> frame_rows D <> 0 -> used_cols D m <> [] ->
  frame_unordered D -> scalar_extras cx -> pass_modelb D m = true ->
  Forall (fun i => i < frame_rows D) idx -> nth_error idx k = Some i ->
  design_matrices cx e D NaPass = Ok ds ->
  exists r, new_common cx mode ds (frame_pick idx D) = Ok r /\
            nth k (nr_rows r) [] = nth i (common_matrix ds) [].
Proof.
  intros Hd Hwf Hn Hu Hun Hex Hs Hi Hk H. eexists. split.
  - apply (pass_new_common_rows_nth cx e D m ds idx mode); assumption.
  - cbn [nr_rows]. apply nth_error_nth. rewrite nth_error_map, Hk. reflexivity.
Qed.

(* ------------------------------------------------------------------------------------------ *)
(** * D. A design restricted to some of its rows predicts like the whole design;
      "drop" evaluated on the rows it dropped *)

Lemma fold_left_ext_in' {A B} (f g : A -> B -> A) l : forall a,
  (forall acc x, In x l -> f acc x = g acc x) -> fold_left f l a = fold_left g l a.
Proof.
  induction l as [|x l IH]; intros a H; cbn [fold_left]; [reflexivity|].
  rewrite (H a x (or_introl eq_refl)). apply IH. intros acc y Hy. apply H. right. exact Hy.
Qed.

Lemma fold_left_map' {A B C} (f : A -> C -> A) (h : B -> C) l : forall a,
  fold_left f (map h l) a = fold_left (fun acc x => f acc (h x)) l a.
Proof. induction l as [|x l IH]; intros a; cbn [map fold_left]; [reflexivity|apply IH]. Qed.

Section PredictSel.
  (* any row operation: prediction does not look at the rows stored in the design *)
  Variable sel : forall T : Type, list T -> list T.

  Lemma new_categoric_dcomp_sel mode d xs :
    new_categoric mode (dcomp_sel sel d) xs = new_categoric mode d xs.
  Proof. reflexivity. Qed.

  Lemma new_comp_dcomp_sel cx mode F d :
    new_comp cx mode F (dcomp_sel sel d) = new_comp cx mode F d.
  Proof.
    destruct d as [t lv cm rows labs sp]. destruct t as [nm src k v st rsp ref].
    unfold new_comp, dcomp_sel, tcomp_sel.
    cbn [dc_t tc_src tc_kind tc_state tc_value tc_name tc_response tc_reference dc_levels dc_contrast
         dc_rows dc_labels dc_spans].
    destruct src as [[name|lit] lvl|lz]; try reflexivity.
    destruct k; try reflexivity.
    - destruct v as [| | | | | | | | | | |[q|] xs|]; reflexivity.
    - destruct v as [| | | | | | | | | | | |ss ts [q|]]; reflexivity.
  Qed.

  Lemma new_term_dterm_sel cx mode F t :
    new_term cx mode F (dterm_sel sel t) = new_term cx mode F t.
  Proof.
    unfold new_term, dterm_sel. cbn [dt_kind dt_comps]. rewrite mapM_map.
    rewrite (mapM_ext _ _ _ (new_comp_dcomp_sel cx mode F)). reflexivity.
  Qed.

  (** The common matrix on new data does not depend on which rows the design kept. *)
  Theorem new_common_design_sel cx mode n ds F :
    new_common cx mode (design_sel_groups sel n ds) F = new_common cx mode ds F.
  Proof.
    unfold new_common, design_sel_groups. cbn [ds_common]. rewrite mapM_map.
    rewrite (mapM_ext _ _ _ (new_term_dterm_sel cx mode F)). reflexivity.
  Qed.

  Lemma new_gterm_dgterm_sel cx mode F g :
    new_gterm cx mode F (dgterm_sel sel g) = new_gterm cx mode F g.
  Proof.
    unfold new_gterm, dgterm_sel. cbn [dg_expr dg_factor]. rewrite new_term_dterm_sel, mapM_map.
    rewrite (mapM_ext _ _ _ (new_comp_dcomp_sel cx mode F)). reflexivity.
  Qed.

  (** The group matrix likewise -- provided the restriction keeps the width of every block (it
      does as soon as one row is kept: the width of a block is read off its first row). *)
  Theorem new_group_design_sel cx mode n ds F :
    Forall (fun g => width (sel _ (dg_rows g)) = width (dg_rows g)) (ds_group ds) ->
    new_group cx mode (design_sel_groups sel n ds) F = new_group cx mode ds F.
  Proof.
    intros Hw. unfold new_group, design_sel_groups. cbn [ds_group]. rewrite mapM_map.
    rewrite (mapM_ext _ _ _ (new_gterm_dgterm_sel cx mode F)).
    destruct (mapM (new_gterm cx mode F) (ds_group ds)) as [parts|]; cbn [bind]; [|reflexivity].
    cbv zeta. rewrite combine_map_l, fold_left_map'.
    match goal with
    | |- Ok (NewGroup _ (snd (fst ?a)) (snd ?a) _) = Ok (NewGroup _ (snd (fst ?b)) (snd ?b) _) =>
        assert (E : a = b); [|rewrite E; reflexivity]
    end.
    apply fold_left_ext_in'. intros acc [g p] Hin. apply in_combine_l in Hin.
    rewrite Forall_forall in Hw. specialize (Hw g Hin).
    cbn [fst snd dgterm_sel dg_rows dg_name dg_factor_name]. rewrite Hw. reflexivity.
  Qed.
End PredictSel.

Lemma select_width keep (rows : list (list cell)) :
  regular_rows rows -> List.length rows = List.length keep -> count_true keep <> 0 ->
  width (select keep rows) = width rows.
Proof.
  intros R L C.
  apply (width_sel_regular (sel_mask keep) (fun S T f l => select_map f keep l)
                           (fun T x l => select_In keep x l) (List.length keep)); try assumption.
  rewrite seln_mask. exact C.
Qed.

(** A design with the rows outside [keep] removed from every stored matrix evaluates new data --
    ANY new frame -- exactly like the design it was cut from. *)
Theorem new_common_design_select cx mode keep ds F :
  new_common cx mode (design_select keep ds) F = new_common cx mode ds F.
Proof. apply new_common_design_sel. Qed.

Theorem new_group_design_select cx mode keep ds F :
  design_shape ds -> List.length keep = ds_nrows ds -> count_true keep <> 0 ->
  new_group cx mode (design_select keep ds) F = new_group cx mode ds F.
Proof.
  intros [_ Hg _ _ _] L C. apply new_group_design_sel.
  eapply Forall_impl; [|exact Hg]. intros g (Lg & Rg & _). apply select_width; [exact Rg|congruence|exact C].
Qed.

(** ** the simple class of PassPolicy.v, with missing values in numeric columns only *)

(* no str / Categorical column has a missing value *)
Definition str_completeb (D : frame) : bool :=
  forallb (fun kv => match snd kv with ColStr _ v => forallb is_some v | ColNum _ _ => true end) D.

Lemma arith_box_free l : arith l = true -> box_free l = true.
Proof.
  induction l as [sym args IH|name|lit lx|c args kw IHa _] using lazy_ind'; intros H; try reflexivity.
  - cbn [arith box_free] in *. rewrite forallb_forall in H |- *. rewrite Forall_forall in IH.
    intros a Ha. apply (IH a Ha). apply H. exact Ha.
  - cbn [arith] in H. apply andb_true_iff in H as [H Hk]. apply andb_true_iff in H as [Hc Ha].
    apply String.eqb_eq in Hc. subst c. destruct kw; [|discriminate Hk].
    destruct args as [|a [|b r]]; try discriminate Ha.
    pose proof (Forall_inv IHa Ha) as Hp. cbn. rewrite Hp. reflexivity.
Qed.

Lemma simple_src_pass D c : str_completeb D = true -> simple_src D c = true -> pass_src D c = true.
Proof.
  intros Hc Hs. destruct c as [nm lvl|lz]; [reflexivity|]. cbn [simple_src pass_src] in *.
  apply orb_true_iff in Hs as [Ha|Hb].
  - pose proof (arith_pointwise lz Ha) as Hp. unfold pointwise in Hp. apply andb_true_iff in Hp as [Hp _].
    rewrite Hp, (arith_box_free lz Ha). reflexivity.
  - destruct lz as [| | |c args kw]; try discriminate Hb. destruct args as [|[| name | |] rest]; try discriminate Hb.
    apply andb_true_iff in Hb as [Hb _]. apply andb_true_iff in Hb as [Hb Hcol].
    apply andb_true_iff in Hb as [Hcal Hp]. unfold pointwise in Hp. apply andb_true_iff in Hp as [Hp _].
    rewrite Hp. cbn [andb box_on_complete]. rewrite Hcal. cbn [andb].
    destruct (assoc name D) as [[b v|o v]|] eqn:E; try discriminate Hcol.
    apply assoc_In in E. unfold str_completeb in Hc. rewrite forallb_forall in Hc.
    specialize (Hc _ E). cbn [snd] in Hc. rewrite Hc. apply orb_true_r.
Qed.

Theorem simple_model_pass D m :
  str_completeb D = true -> simple_modelb D m = true -> pass_modelb D m = true.
Proof.
  intros Hc Hs. unfold simple_modelb in Hs. apply andb_true_iff in Hs as [Hs Hg].
  apply andb_true_iff in Hs as [Hcm _]. unfold pass_modelb. apply andb_true_iff. split.
  - rewrite forallb_forall in Hcm |- *. intros c Hin. specialize (Hcm c Hin).
    rewrite forallb_forall in Hcm |- *. intros x Hx. apply simple_src_pass; auto.
  - rewrite forallb_forall in Hg |- *. intros g Hin. specialize (Hg g Hin).
    apply andb_true_iff in Hg as [Hge Hgf]. apply andb_true_iff. split.
    + rewrite forallb_forall in Hge |- *. intros x Hx. apply simple_src_pass; auto.
    + rewrite forallb_forall in Hgf |- *. intros x Hx. specialize (Hgf x Hx).
      destruct x as [[nm|lit] lvl|lz]; try discriminate Hgf. reflexivity.
Qed.

(** ** "drop", evaluated on rows of the ORIGINAL frame -- the rows it dropped included.

    Hypotheses = those of C09_pass_policy (simple class, every level on a complete row) plus: no
    missing value in a str / Categorical column.  [dsD] is the design "drop" builds, [dsP] the one
    "pass" builds.  For EVERY list of row numbers of D the design built under "drop" returns the
    rows of the "pass" matrix: a complete row is the row training kept; a row training DROPPED is
    returned too (never skipped), and its cells are those "pass" computes for it. *)
Theorem drop_new_common_all_rows cx e D m dsP dsD idx mode :
  describe e = Ok m -> frame_wf D -> frame_rows D <> 0 -> used_cols D m <> [] ->
  frame_unordered D -> scalar_extras cx ->
  count_true (complete_mask D m) <> 0 ->
  simple_modelb D m = true -> frame_coveredb (complete_mask D m) D m = true ->
  str_completeb D = true ->
  design_matrices cx e D NaPass = Ok dsP ->
  design_matrices cx e D NaDrop = Ok dsD ->
  new_common cx mode dsD (frame_pick idx D) = Ok (NewRes (pick idx (common_matrix dsP)) false).
Proof.
  intros Hd Hwf Hn Hu Hun Hex Hc Hs Hcov Hstr HP HD.
  destruct (pass_policy_simple cx e D m dsP Hd Hwf Hn Hu Hun Hex Hc Hs Hcov HP) as (_ & HD' & _).
  rewrite HD' in HD. injection HD as <-. rewrite new_common_design_select.
  apply (pass_new_common_rows cx e D m dsP idx mode); try assumption.
  apply simple_model_pass; assumption.
Qed.

Theorem drop_new_group_all_rows cx e D m dsP dsD idx mode :
  describe e = Ok m -> frame_wf D -> frame_rows D <> 0 -> used_cols D m <> [] ->
  frame_unordered D -> scalar_extras cx ->
  count_true (complete_mask D m) <> 0 ->
  simple_modelb D m = true -> frame_coveredb (complete_mask D m) D m = true ->
  str_completeb D = true ->
  (exists i, In i idx /\ i < frame_rows D) ->
  design_matrices cx e D NaPass = Ok dsP ->
  design_matrices cx e D NaDrop = Ok dsD ->
  new_group cx mode dsD (frame_pick idx D)
  = Ok (NewGroup (pick idx (group_matrix dsP)) (group_slices dsP) [] false).
Proof.
  intros Hd Hwf Hn Hu Hun Hex Hc Hs Hcov Hstr Hi HP HD.
  destruct (pass_policy_simple cx e D m dsP Hd Hwf Hn Hu Hun Hex Hc Hs Hcov HP) as (_ & HD' & _).
  rewrite HD' in HD. injection HD as <-.
  destruct (pass_row_count cx e D m dsP Hd Hwf Hex HP) as [N S].
  rewrite new_group_design_select; [|exact S|rewrite N; apply complete_mask_length; exact Hwf|exact Hc].
  apply (pass_new_group_rows cx e D m dsP idx mode); try assumption.
  apply simple_model_pass; assumption.
Qed.

(* a row of the stacked matrix is the concatenation of the rows of the blocks *)
Lemma common_matrix_row ds i :
  design_shape ds -> i < ds_nrows ds ->
  nth i (common_matrix ds) [] = List.concat (map (fun t => nth i (dt_rows t) []) (ds_common ds)).
Proof.
  intros S Hi. destruct (design_row_counts ds S) as (_ & Lc & _).
  unfold common_matrix. rewrite hstack_nth; [rewrite map_map; reflexivity|exact Hi|].
  apply Forall_map. eapply Forall_impl; [|exact Lc]. intros t ->. exact Hi.
Qed.

(** What the design built under "drop" returns for ONE row i of the original frame -- complete or
    dropped at training: one row (not zero), the concatenation over the common terms t of a block
    that is ALL NaN when t reads a numeric variable missing on row i and free of NaN otherwise. *)
Theorem drop_dropped_row_cells cx e D m dsD i mode :
  describe e = Ok m -> frame_wf D -> frame_rows D <> 0 -> used_cols D m <> [] ->
  frame_unordered D -> scalar_extras cx ->
  count_true (complete_mask D m) <> 0 ->
  simple_modelb D m = true -> frame_coveredb (complete_mask D m) D m = true ->
  str_completeb D = true ->
  i < frame_rows D ->
  design_matrices cx e D NaDrop = Ok dsD ->
  forall dsP, design_matrices cx e D NaPass = Ok dsP ->
  exists blocks,
    new_common cx mode dsD (frame_pick [i] D) = Ok (NewRes [List.concat blocks] false) /\
    Forall2 (fun t b => row_spec D i (dterm_reads t) b) (ds_common dsP) blocks /\
    map dt_name (ds_common dsD) = map dt_name (ds_common dsP).
Proof.
  intros Hd Hwf Hn Hu Hun Hex Hc Hs Hcov Hstr Hi HD dsP HP.
  destruct (pass_policy_simple cx e D m dsP Hd Hwf Hn Hu Hun Hex Hc Hs Hcov HP) as (N & HD' & Hrows).
  destruct (pass_row_count cx e D m dsP Hd Hwf Hex HP) as [_ S].
  exists (map (fun t => nth i (dt_rows t) []) (ds_common dsP)). split; [|split].
  - rewrite (drop_new_common_all_rows cx e D m dsP dsD [i] mode) by assumption.
    destruct (pass_design_counts cx e D m dsP Hd Hwf Hex HP) as (_ & Lc & _).
    rewrite (pick_nth [i] _ []) by (constructor; [rewrite Lc; exact Hi|constructor]).
    cbn [map]. rewrite common_matrix_row; [reflexivity|exact S|rewrite N; exact Hi].
  - destruct (Hrows i Hi) as [Hcs _]. unfold common_rows_spec in Hcs.
    induction Hcs as [|t ts Ht _ IH]; cbn [map]; constructor; assumption.
  - rewrite HD' in HD. injection HD as <-. apply (design_select_spec (complete_mask D m) dsP).
Qed.

(* ------------------------------------------------------------------------------------------ *)
(** * E. Examples and refuted variants *)

Module PredictionPassExamples.
  Import PassPolicyExamples.

  (** Six rows; x is missing on rows 2 and 4.  y ~ x + f + x:f + (x|g). *)
  Definition pp_D : frame :=
    [("y", ColNum true [qq 1; qq 2; qq 3; qq 4; qq 5; qq 6]);
     ("x", ColNum true [qq 10; qq 20; None; qq 40; None; qq 60]);
     ("f", ColStr None [Some "a"; Some "b"; Some "a"; Some "b"; Some "a"; Some "b"]);
     ("g", ColStr None [Some "s"; Some "s"; Some "t"; Some "t"; Some "s"; Some "t"])].
  Definition pp_e : expr := Eval vm_compute in gete "y ~ x + f + x:f + (x|g)".
  Definition pp_m : model := Eval vm_compute in m_of pp_e.
  Definition pp_idx : list nat := [1; 1; 4; 0].

  Example pp_parsed : Driver.parse_string "y ~ x + f + x:f + (x|g)" = Ok pp_e /\ describe pp_e = Ok pp_m.
  Proof. split; vm_compute; reflexivity. Qed.

  Lemma pp_wf : frame_wf pp_D.
  Proof. repeat constructor. Qed.
  Lemma pp_unord : frame_unordered pp_D.
  Proof. repeat constructor. Qed.

  (* the hypotheses of the theorems of sections C and D hold on this input *)
  Example pp_hypotheses :
    pass_modelb pp_D pp_m = true /\ simple_modelb pp_D pp_m = true /\ str_completeb pp_D = true /\
    complete_mask pp_D pp_m = [true; true; false; true; false; true] /\
    frame_coveredb (complete_mask pp_D pp_m) pp_D pp_m = true /\
    used_cols pp_D pp_m <> [] /\ count_true (complete_mask pp_D pp_m) <> 0 /\
    Forall (fun i => i < frame_rows pp_D) pp_idx.
  Proof.
    repeat split; try (vm_compute; reflexivity); try (vm_compute; discriminate).
    repeat constructor.
  Qed.

  (** "pass": the design has 6 rows; on new data = rows 1, 1, 4, 0 of the training frame (row 4
      has a missing x) the common matrix has 4 rows -- rows 1, 1, 4, 0 of the training matrix,
      the NaN cells of row 4 included -- in EVERY mode, without warning; the group matrix
      likewise, with the training slices and no new group. *)
  Example pp_pass :
    exists ds,
      design_matrices ex_cx pp_e pp_D NaPass = Ok ds /\
      show_rows (common_matrix ds) =
        [["1"; "10"; "0"; "0"]; ["1"; "20"; "1"; "20"]; ["1"; "nan"; "0"; "nan"];
         ["1"; "40"; "1"; "40"]; ["1"; "nan"; "0"; "nan"]; ["1"; "60"; "1"; "60"]] /\
      show_rows (group_matrix ds) =
        [["1"; "0"; "10"; "0"]; ["1"; "0"; "20"; "0"]; ["0"; "1"; "nan"; "nan"];
         ["0"; "1"; "0"; "40"]; ["1"; "0"; "nan"; "nan"]; ["0"; "1"; "0"; "60"]] /\
      forall mode,
        new_common ex_cx mode ds (frame_pick pp_idx pp_D)
        = Ok (NewRes (map (fun i => nth i (common_matrix ds) []) pp_idx) false) /\
        new_group ex_cx mode ds (frame_pick pp_idx pp_D)
        = Ok (NewGroup (map (fun i => nth i (group_matrix ds) []) pp_idx)
                       [("1|g", 0, 2); ("x|g", 2, 4)] [] false) /\
        show_rows (map (fun i => nth i (common_matrix ds) []) pp_idx) =
          [["1"; "20"; "1"; "20"]; ["1"; "20"; "1"; "20"]; ["1"; "nan"; "0"; "nan"]; ["1"; "10"; "0"; "0"]] /\
        show_rows (map (fun i => nth i (group_matrix ds) []) pp_idx) =
          [["1"; "0"; "20"; "0"]; ["1"; "0"; "20"; "0"]; ["1"; "0"; "nan"; "nan"]; ["1"; "0"; "10"; "0"]].
  Proof.
    destruct (design_matrices ex_cx pp_e pp_D NaPass) as [ds|] eqn:EP; [|vm_compute in EP; discriminate EP].
    exists ds. split; [reflexivity|].
    destruct pp_hypotheses as (Hp & _ & _ & _ & _ & Hu & _ & Hi).
    assert (Th : forall mode,
               new_common ex_cx mode ds (frame_pick pp_idx pp_D)
               = Ok (NewRes (map (fun i => nth i (common_matrix ds) []) pp_idx) false) /\
               new_group ex_cx mode ds (frame_pick pp_idx pp_D)
               = Ok (NewGroup (map (fun i => nth i (group_matrix ds) []) pp_idx) (group_slices ds) [] false)).
    { intros mode. split.
      - apply (pass_new_common_rows_nth ex_cx pp_e pp_D pp_m ds pp_idx mode (proj2 pp_parsed) pp_wf
                 ltac:(discriminate) Hu pp_unord ex_scalar Hp Hi EP).
      - apply (pass_new_group_rows_nth ex_cx pp_e pp_D pp_m ds pp_idx mode (proj2 pp_parsed) pp_wf
                 ltac:(discriminate) Hu pp_unord ex_scalar Hp ltac:(discriminate) Hi EP). }
    vm_compute in EP. injection EP as <-.
    split; [vm_compute; reflexivity|]. split; [vm_compute; reflexivity|].
    intros mode. destruct (Th mode) as [T1 T2]. split; [exact T1|]. split; [exact T2|].
    split; vm_compute; reflexivity.
  Qed.

  (* the same by plain computation, mode "error": 4 rows for 4 row numbers *)
  Example pp_pass_computed :
    match (do ds <- design_matrices ex_cx pp_e pp_D NaPass;
           do r <- new_common ex_cx UError ds (frame_pick pp_idx pp_D);
           do g <- new_group ex_cx UError ds (frame_pick pp_idx pp_D);
           Ok (show_rows (nr_rows r), nr_warned r, show_rows (ng_rows g), ng_slices g, ng_new_factors g, ng_warned g))
    with Ok x => Some x | Err _ => None end
    = Some ([["1"; "20"; "1"; "20"]; ["1"; "20"; "1"; "20"]; ["1"; "nan"; "0"; "nan"]; ["1"; "10"; "0"; "0"]], false,
            [["1"; "0"; "20"; "0"]; ["1"; "0"; "20"; "0"]; ["1"; "0"; "nan"; "nan"]; ["1"; "0"; "10"; "0"]],
            [("1|g", 0, 2); ("x|g", 2, 4)], [], false).
  Proof. vm_compute. reflexivity. Qed.

  (** "drop": the design has 4 rows (rows 2 and 4 dropped); evaluated on rows 1, 1, 4, 0 of the
      ORIGINAL frame it returns 4 rows; the row training dropped (4) comes back with NaN in the
      columns of the terms that read x (x, x:f, x|g) and without NaN elsewhere. *)
  Example pp_drop :
    exists dsD,
      design_matrices ex_cx pp_e pp_D NaDrop = Ok dsD /\ ds_nrows dsD = 4 /\
      forall mode,
        exists r g,
          new_common ex_cx mode dsD (frame_pick pp_idx pp_D) = Ok r /\
          new_group ex_cx mode dsD (frame_pick pp_idx pp_D) = Ok g /\
          show_rows (nr_rows r) =
            [["1"; "20"; "1"; "20"]; ["1"; "20"; "1"; "20"]; ["1"; "nan"; "0"; "nan"]; ["1"; "10"; "0"; "0"]] /\
          nr_warned r = false /\
          show_rows (ng_rows g) =
            [["1"; "0"; "20"; "0"]; ["1"; "0"; "20"; "0"]; ["1"; "0"; "nan"; "nan"]; ["1"; "0"; "10"; "0"]] /\
          ng_slices g = [("1|g", 0, 2); ("x|g", 2, 4)] /\ ng_new_factors g = [] /\ ng_warned g = false.
  Proof.
    destruct (design_matrices ex_cx pp_e pp_D NaPass) as [dsP|] eqn:EP; [|vm_compute in EP; discriminate EP].
    destruct (design_matrices ex_cx pp_e pp_D NaDrop) as [dsD|] eqn:ED; [|vm_compute in ED; discriminate ED].
    exists dsD. split; [reflexivity|].
    destruct pp_hypotheses as (_ & Hs & Hstr & _ & Hcov & Hu & Hc & _).
    assert (Th : forall mode,
               new_common ex_cx mode dsD (frame_pick pp_idx pp_D)
               = Ok (NewRes (pick pp_idx (common_matrix dsP)) false) /\
               new_group ex_cx mode dsD (frame_pick pp_idx pp_D)
               = Ok (NewGroup (pick pp_idx (group_matrix dsP)) (group_slices dsP) [] false)).
    { intros mode. split.
      - apply (drop_new_common_all_rows ex_cx pp_e pp_D pp_m dsP dsD pp_idx mode (proj2 pp_parsed) pp_wf
                 ltac:(discriminate) Hu pp_unord ex_scalar Hc Hs Hcov Hstr EP ED).
      - apply (drop_new_group_all_rows ex_cx pp_e pp_D pp_m dsP dsD pp_idx mode (proj2 pp_parsed) pp_wf
                 ltac:(discriminate) Hu pp_unord ex_scalar Hc Hs Hcov Hstr); [|exact EP|exact ED].
        exists 1. split; [left; reflexivity|vm_compute; lia]. }
    vm_compute in EP. injection EP as <-. vm_compute in ED. injection ED as <-.
    split; [reflexivity|]. intros mode. destruct (Th mode) as [T1 T2].
    eexists. eexists. split; [exact T1|]. split; [exact T2|].
    repeat split; vm_compute; reflexivity.
  Qed.

  (** ** refuted variants *)

  (** The group statement needs at least one row: on an EMPTY selection of the training rows the
      common matrix is still right (0 rows), but [new_group] reports the grouping factor as having
      new groups and empty slices (width 0 differs from the training width). *)
  Theorem pass_new_group_empty_refuted :
    exists cx e D m ds ng,
      describe e = Ok m /\ frame_wf D /\ frame_unordered D /\ scalar_extras cx /\
      pass_modelb D m = true /\ design_matrices cx e D NaPass = Ok ds /\
      new_group cx UError ds (frame_pick [] D) = Ok ng /\
      ng_new_factors ng = ["g"] /\ ng_slices ng <> group_slices ds.
  Proof.
    destruct (design_matrices ex_cx pp_e pp_D NaPass) as [ds|] eqn:EP; [|vm_compute in EP; discriminate EP].
    destruct (new_group ex_cx UError ds (frame_pick [] pp_D)) as [ng|] eqn:EG;
      [|vm_compute in EP; injection EP as <-; vm_compute in EG; discriminate EG].
    exists ex_cx, pp_e, pp_D, pp_m, ds, ng.
    vm_compute in EP. injection EP as <-. vm_compute in EG. injection EG as <-.
    repeat split; try (vm_compute; reflexivity); try exact ex_scalar; try (repeat constructor).
    vm_compute. discriminate.
  Qed.

  (** C(x) of a NUMERIC column with a missing value is outside the class for a reason: training
      under "pass" codes the missing row as a row of zeros, but prediction on that very row treats
      the missing value as an unseen level: mode "error" refuses the frame, mode "warn" warns. *)
  Theorem pass_box_of_incomplete_numeric_refuted :
    exists cx e D m ds r,
      describe e = Ok m /\ frame_wf D /\ frame_unordered D /\ scalar_extras cx /\
      pass_modelb D m = false /\
      design_matrices cx e D NaPass = Ok ds /\
      new_common cx UError ds (frame_pick [0; 1] D) = Err EValue /\
      new_common cx UWarning ds (frame_pick [0; 1] D) = Ok r /\ nr_warned r = true /\
      nr_rows r = pick [0; 1] (common_matrix ds).
  Proof.
    destruct (design_matrices ex_cx cx_e cx_D NaPass) as [ds|] eqn:EP; [|vm_compute in EP; discriminate EP].
    destruct (new_common ex_cx UWarning ds (frame_pick [0; 1] cx_D)) as [r|] eqn:ER;
      [|vm_compute in EP; injection EP as <-; vm_compute in ER; discriminate ER].
    exists ex_cx, cx_e, cx_D, (m_of cx_e), ds, r.
    vm_compute in EP. injection EP as <-. vm_compute in ER. injection ER as <-.
    repeat split; try (vm_compute; reflexivity); try exact ex_scalar; try (repeat constructor).
  Qed.

  (** [frame_wf F] cannot be dropped from the row-count theorem: on a ragged new frame (x has 3
      cells, f has 2; [frame_rows] = 3) the model returns 2 rows. *)
  Definition rag_F : frame := [("x", ColNum true [qq 1; qq 2; qq 3]); ("f", ColStr None [Some "a"; Some "b"])].
  Theorem row_count_ragged_refuted :
    exists cx mode ds F r,
      ~ frame_wf F /\ scalar_extras cx /\ new_common cx mode ds F = Ok r /\
      frame_rows F = 3 /\ List.length (nr_rows r) = 2.
  Proof.
    destruct (design_matrices ex_cx pp_e pp_D NaPass) as [ds|] eqn:EP; [|vm_compute in EP; discriminate EP].
    destruct (new_common ex_cx UError ds rag_F) as [r|] eqn:ER;
      [|vm_compute in EP; injection EP as <-; vm_compute in ER; discriminate ER].
    exists ex_cx, UError, ds, rag_F, r.
    vm_compute in EP. injection EP as <-. vm_compute in ER. injection ER as <-.
    split; [|repeat split; try exact ex_scalar; reflexivity].
    intros H. unfold frame_wf, rect in H. simpl in H.
    inversion H as [|? ? _ H']; subst. inversion H' as [|? ? E _]; subst. discriminate E.
  Qed.

  (** Nor can the namespace premise: with a 2-element vector w in the namespace, I(w) evaluates to
      2 cells whatever the frame, and the model returns 2 rows for a 6-row frame (numpy would
      refuse to stack the columns). *)
  Definition ns_cx : dctx := DCtx [("w", PSeries true [qq 7; qq 8])] (fun q => q).
  Definition ns_e : expr := Eval vm_compute in gete "y ~ I(w)".
  Theorem row_count_namespace_refuted :
    exists cx mode e D ds r,
      frame_wf D /\ ~ extras_shape (frame_rows D) cx /\
      design_matrices cx e D NaPass = Ok ds /\ new_common cx mode ds D = Ok r /\
      frame_rows D = 6 /\ List.length (nr_rows r) = 2.
  Proof.
    destruct (design_matrices ns_cx ns_e pp_D NaPass) as [ds|] eqn:EP; [|vm_compute in EP; discriminate EP].
    destruct (new_common ns_cx UError ds pp_D) as [r|] eqn:ER;
      [|vm_compute in EP; injection EP as <-; vm_compute in ER; discriminate ER].
    exists ns_cx, UError, ns_e, pp_D, ds, r.
    vm_compute in EP. injection EP as <-. vm_compute in ER. injection ER as <-.
    split; [exact pp_wf|]. split; [|repeat split; reflexivity].
    intros H. specialize (H "w" _ eq_refl). discriminate H.
  Qed.

End PredictionPassExamples.

Print Assumptions new_common_row_count.
Print Assumptions new_group_row_count.
Print Assumptions pass_model_ok.
Print Assumptions pass_model_ok_groups.
Print Assumptions pass_new_common_rows.
Print Assumptions pass_new_common_rows_nth.
Print Assumptions pass_new_common_length.
Print Assumptions pass_new_group_rows.
Print Assumptions pass_new_group_rows_nth.
Print Assumptions pass_new_group_length.
Print Assumptions new_common_design_select.
Print Assumptions new_group_design_select.
Print Assumptions drop_new_common_all_rows.
Print Assumptions drop_new_group_all_rows.
Print Assumptions drop_dropped_row_cells.
Print Assumptions PredictionPassExamples.pp_pass.
Print Assumptions PredictionPassExamples.pp_drop.
Print Assumptions PredictionPassExamples.pass_new_group_empty_refuted.
Print Assumptions PredictionPassExamples.pass_box_of_incomplete_numeric_refuted.
Print Assumptions PredictionPassExamples.row_count_ragged_refuted.
Print Assumptions PredictionPassExamples.row_count_namespace_refuted.
